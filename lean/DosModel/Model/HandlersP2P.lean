/-
C12 — handler models, part 3: the transport (`p2p/client.go` receiveID, decodeBytes,
decodePipe, readFrom; `p2p/server.go` messageDispatch) and the gossip translator
(`p2p/discover/membership.go` Listen, Lookup, MembersID).

protobuf decoding (golang/protobuf, ptypes.Any) is third-party and not modelled: a frame is
abstracted to what `proto.Unmarshal` / `ptypes.UnmarshalAny` make of it.
-/
import DosModel.Model.Handlers

namespace Dos.Handlers
open Dos

/-! ### 10. `decodeBytes`, `decodePipe` -/

/-- the public key field of a handshake `ID` -/
inductive PubTag where
  | valid        -- a point of G2 other than infinity
  | infinity     -- the 1-byte encoding of the point at infinity (UnmarshalBinary accepts it)
  | bad          -- does not decode
  deriving DecidableEq, Repr

inductive IdTag where
  | other | same | empty          -- remote id: another node's / equal to the local id / absent
  deriving DecidableEq, Repr

/-- the `Anything` of a decoded `Package` -/
inductive AnyTag where
  | id (pub : PubTag) (rid : IdTag)     -- type url of `p2p.ID`, value decodes
  | known                               -- another registered message type (Ping, vss.Signature, …)
  | unknownType                         -- type url not registered
  | badValue                            -- registered type url, value does not decode
  deriving DecidableEq, Repr

/-- what `proto.Unmarshal(bytes, &Package{})` yields -/
inductive Frame where
  | undecodable
  | pkg (any : Option AnyTag) (sigOK : Bool) (reply : Bool)
  deriving DecidableEq, Repr

/-- `decodeBytes(bytes, verify)`; `verify = false` is the handshake path (`veifyfn == nil`) -/
def decodeBytes (cfg : Cfg) (verify : Bool) : Frame → Except Out AnyTag
  | .undecodable => .error (.err "unmarshal")
  | .pkg none _ _ =>
    if cfg.anyNil then .error (.err "noany")
    else if verify then .error (.panic "p2p.decodeBytes|deref|pa.GetAnything().Value")
    else .error (.err "any")                      -- ptypes.UnmarshalAny(nil, …) is an error
  | .pkg (some a) sigOK _ =>
    if verify && !sigOK then .error (.err "verify")
    else match a with
      | .unknownType => .error (.err "any")
      | .badValue => .error (.err "any")
      | a => .ok a

def decodeOut (cfg : Cfg) (verify : Bool) (f : Frame) : Out :=
  match decodeBytes cfg verify f with
  | .error o => o
  | .ok _ => .ok ""

/-- one frame through `decodePipe` (peer key known, signatures checked) -/
def decodePipe (cfg : Cfg) (f : Frame) : Out :=
  match decodeBytes cfg true f with
  | .error (.panic s) => .panic s
  | .error _ => .err "decode"
  | .ok _ =>
    match f with
    | .pkg _ _ true => .ok "reply"
    | _ => .ok "recv"

/-! ### 11. `readFrom` (size guard only; the framing itself is C15) and `receiveID` -/

inductive Wire where
  | eof                   -- connection ends inside the frame
  | badSize               -- header announces 0 or more than the limit
  | frame (f : Frame)
  deriving DecidableEq, Repr

def readFrom (cfg : Cfg) : Wire → Except Out Frame
  | .eof => .error (.err "read")
  | .badSize => if cfg.readSize then .error (.err "read") else .error (.panic "p2p.readFrom|make|make([]byte, size)")
  | .frame f => .ok f

def receiveID (cfg : Cfg) (w : Wire) : Out :=
  match readFrom cfg w with
  | .error o => o
  | .ok f =>
    match decodeBytes cfg false f with
    | .error o => o
    | .ok (.id pub rid) =>
      -- a remote id equal to the local one is reported but the handshake goes on;
      -- the first error reported is the observable outcome
      let first : Option String := if rid = .same then some "dupid" else none
      match pub with
      | .bad => .err (first.getD "pubkey")
      | .infinity =>
        if cfg.ridLen then .err (first.getD "infinity") else .panic "p2p.client.receiveID|slice|dhBytes[0:32]"
      | .valid => match first with
        | some e => .err e
        | none => .ok "keyed"
    | .ok _ => if cfg.ridCast then .err "cast" else .panic "p2p.client.receiveID|typeassert|ptr.Message.(*ID)"

/-! ### 11b. `client.dispatch`: matching reply packets with pending requests

`RequestNonce` and `ReplyFlag` are packet fields the peer controls. `requests` maps the nonces the
node issued on this link to their pending request (`*p2pRequest`); a lookup of any other nonce
yields nil. -/

inductive DispEv where
  | send                    -- a local request goes out: it gets the next nonce and is recorded
  | cancel (nonce : Nat)    -- the requester gave up (its context is done); the entry stays
  | reply (nonce : Nat)     -- a signed packet with ReplyFlag and this RequestNonce arrives
  deriving DecidableEq, Repr

structure DispSt where
  pending : List (Nat × Bool) := []     -- nonce ↦ cancelled?
  next : Nat := 0
  alive : Bool := true
  deriving Repr

def dispLookup (k : Nat) : List (Nat × Bool) → Option Bool
  | [] => none
  | (k', c) :: r => if k' = k then some c else dispLookup k r

def dispStep (cfg : Cfg) (s : DispSt) : DispEv → DispSt × Out
  | .send => if !s.alive then (s, .dropped) else
    ({ s with pending := (s.next, false) :: s.pending, next := s.next + 1 }, .ok s!"sent {s.next}")
  | .cancel k => if !s.alive then (s, .dropped) else
    ({ s with pending := s.pending.map (fun e => if e.1 = k then (e.1, true) else e) }, .ok "")
  | .reply k => if !s.alive then (s, .dropped) else
    match dispLookup k s.pending with
    | some cancelled =>
      ({ s with pending := s.pending.filter (fun e => e.1 != k) }, if cancelled then .ok "late" else .ok "matched")
    | none =>
      if cfg.dispReplyNil then (s, .dropped)
      else ({ s with alive := false }, .panic "p2p.client.dispatch|deref|p2pRequest.ctx")

def dispRun (cfg : Cfg) : DispSt → List DispEv → DispSt × List Out
  | s, [] => (s, [])
  | s, e :: es =>
    let (s1, o) := dispStep cfg s e
    let (s2, os) := dispRun cfg s1 es
    (s2, o :: os)

/-! ### 11c. `callHandler`: the table of outbound connections

An entry is stored under the member id that was DIALLED and removed (when `client.run` returns)
under the id the peer ANNOUNCED in its handshake `ID` message. Member ids are numbers here; `0` is
"no id announced".

`DisConnectTo(id)` sends `id` on the same removal channel: the entry is deleted but the connection is
NOT closed; its `runClient` goroutine lives on (`loose`) and sends the announced id on the removal
channel once more when the connection ends (the peer hangs up, a read error, the 60 s idle timer) —
a removal of an id that has no entry any more, or whose entry now belongs to a newer connection to
the same member. `Leave()` cancels the server context: `callHandler` closes what is in the table and
returns, nothing is handled afterwards. -/

inductive ConnEv where
  /-- a request to member `x` that has no entry: dial, handshake (`hsOK`: it completes — a peer that
  hangs up, sends junk or announces the node's own id makes it fail), the peer announces id `a` -/
  | dial (x a : Nat) (hsOK : Bool)
  /-- the newest live connection that was dialled for member `x` ends (peer hangs up, read error, idle
  timeout), whether it still has its entry or lost it to `DisConnectTo` -/
  | hangup (x : Nat)
  /-- the oldest live connection that was dialled for member `x` ends -/
  | hangupOld (x : Nat)
  /-- a request to member `x`, whose endpoint is honest now (it announces `x`, answers, and — like every
  node — keeps ONE inbound connection per remote id: `receiveHandler` closes a second one) -/
  | req (x : Nat)
  /-- `DisConnectTo(x)` for any id: connected, never connected, disconnected already -/
  | disc (x : Nat)
  /-- `Leave()` -/
  | leave
  deriving DecidableEq, Repr

structure ConnEntry where
  key : Nat        -- dialled id the entry is stored under
  ann : Nat        -- id the peer announced
  dead : Bool      -- its connection has ended
  honest : Bool    -- the endpoint is the honest member `key` (a `req`), not whoever answered a `dial`
  deriving DecidableEq, Repr

structure ConnSt where
  tab : List ConnEntry := []
  /-- live connections without an entry (removed by `DisConnectTo`, or under their key by the end of
  another connection that announced that id): their `runClient` will still report their end -/
  loose : List ConnEntry := []
  alive : Bool := true
  left : Bool := false
  deriving Repr

def connFind (k : Nat) (t : List ConnEntry) : Option ConnEntry := t.find? (fun e => e.key == k)

/-- `refused`: the endpoint takes the connection, finishes the handshake and closes it (an honest member
that still has an inbound connection from this node): the entry is stored, the request fails, the
connection's end removes the entry again -/
def connDial (cfg : Cfg) (s : ConnSt) (x a : Nat) (hsOK honest refused : Bool) : ConnSt × Out :=
  match connFind x s.tab with
  | some e => (s, if e.dead then .err "stale" else .ok "reuse")
  | none =>
    if !hsOK then (s, .err "handshake")
    else if cfg.callIdMatch && a != x then (s, .err "mismatch")
    else if refused then (s, .err "dup")
    else ({ s with tab := ⟨x, a, false, honest⟩ :: s.tab }, .ok "dialled")

/-- the honest member `x` still holds an inbound connection from this node: one that `DisConnectTo`
took out of the table without closing it -/
def connCutLoose (s : ConnSt) (x : Nat) : Bool := s.loose.any (fun e => e.key == x && e.honest)

/-- the `removeCallingC` branch of `callHandler` for id `id`, whoever sent it (`runClient` of a
connection that ended, or `DisConnectTo`): an entry found is deleted — its connection is not closed,
so a live one goes on as `loose` —; for an id without entry the `c != nil` test skips the removal -/
def connRemove (cfg : Cfg) (s : ConnSt) (id : Nat) : ConnSt × Out :=
  match connFind id s.tab with
  | some f =>
    ({ s with tab := s.tab.filter (fun g => g.key != id), loose := if f.dead then s.loose else f :: s.loose }, .ok "removed")
  | none =>
    if cfg.callRemoveNil then (s, .ok "kept")
    else ({ s with alive := false }, .panic "p2p.server.callHandler|deref|c.conn")

def connMarkDead (x : Nat) : List ConnEntry → List ConnEntry :=
  List.map (fun f => if f.key == x then ConnEntry.mk f.key f.ann true f.honest else f)

/-- a live connection ends: runClient: `removeCallingC <- c.remoteID` (the announced id) -/
def connEndTab (cfg : Cfg) (s : ConnSt) (e : ConnEntry) : ConnSt × Out :=
  connRemove cfg { s with tab := connMarkDead e.key s.tab } e.ann

def connEndLoose (cfg : Cfg) (s : ConnSt) (e : ConnEntry) : ConnSt × Out :=
  connRemove cfg { s with loose := s.loose.erase e } e.ann

/-- the NEWEST live connection dialled for `x` ends: the one holding the entry, else the youngest loose one
(`loose` is newest first; a loose connection dialled for `x` is older than the entry under `x`) -/
def connViaLoose (cfg : Cfg) (s : ConnSt) (x : Nat) : ConnSt × Out :=
  match s.loose.find? (fun e => e.key == x) with
  | none => (s, .dropped)
  | some e => connEndLoose cfg s e

def connHangup (cfg : Cfg) (s : ConnSt) (x : Nat) : ConnSt × Out :=
  match connFind x s.tab with
  | some e => if e.dead then connViaLoose cfg s x else connEndTab cfg s e
  | none => connViaLoose cfg s x

/-- the OLDEST live connection dialled for `x` ends -/
def connHangupOld (cfg : Cfg) (s : ConnSt) (x : Nat) : ConnSt × Out :=
  match s.loose.reverse.find? (fun e => e.key == x) with
  | some e => connEndLoose cfg s e
  | none =>
    match connFind x s.tab with
    | some e => if e.dead then (s, .dropped) else connEndTab cfg s e
    | none => (s, .dropped)

def connStep (cfg : Cfg) (s : ConnSt) (ev : ConnEv) : ConnSt × Out :=
  if !s.alive || s.left then (s, .dropped) else
  match ev with
  | .dial x a hsOK => connDial cfg s x a hsOK false false
  | .req x => connDial cfg s x x true true (connCutLoose s x)
  | .hangup x => connHangup cfg s x
  | .hangupOld x => connHangupOld cfg s x
  | .disc x => connRemove cfg s x
  | .leave => ({ s with left := true }, .ok "left")

def connRun (cfg : Cfg) : ConnSt → List ConnEv → ConnSt × List Out
  | s, [] => (s, [])
  | s, e :: es =>
    let (s1, o) := connStep cfg s e
    let (s2, os) := connRun cfg s1 es
    (s2, o :: os)

/-- number of TCP connections the `dial` events of a history opened (every dial that reached the
endpoint: completed, failed handshake, refused id) -/
def connDials : List ConnEv → List Out → Nat
  | .dial _ _ _ :: es, o :: os =>
    (if o == .ok "dialled" || o == .err "handshake" || o == .err "mismatch" then 1 else 0) + connDials es os
  | _ :: es, _ :: os => connDials es os
  | _, _ => 0

/-! ### 12. `messageDispatch` -/

inductive Feed where
  | nilMsg          -- `msg.Msg.Message == nil`
  | subscribed      -- a message whose type has a subscriber
  | unsubscribed
  deriving DecidableEq, Repr

def messageDispatch (cfg : Cfg) : Feed → Out
  | .nilMsg => if cfg.mdNil then .dropped else .panic "p2p.server.messageDispatch|ifacenil|reflect.TypeOf(msg.Msg.Message).String()"
  | .subscribed => .ok "delivered"
  | .unsubscribed => .dropped

/-! ### 13. `serfNet.Listen`, `Lookup`, `MembersID` -/

/-- a serf event: a member event carrying the lengths of the member names, or another kind -/
inductive SerfEv where
  | members (nameLens : List Nat)
  | other
  deriving DecidableEq, Repr

/-- number of `P2PEvent`s emitted for one member event -/
def listenMembers (cfg : Cfg) : List Nat → Nat → Except Out Nat
  | [], k => .ok k
  | l :: r, k =>
    if l < 20 then (if cfg.listenName then listenMembers cfg r k else .error (.panic "discover.serfNet.Listen|slice|member.Name[:20]"))
    else listenMembers cfg r (k + 1)

def listenStep (cfg : Cfg) : SerfEv → Out
  | .other => if cfg.listenCast then .dropped else .panic "discover.serfNet.Listen|typeassert|event.(serf.MemberEvent)"
  | .members ls => match listenMembers cfg ls 0 with
    | .error o => o
    | .ok k => .ok s!"{k}"

/-- `Lookup` / `MembersID` over the member list: names shorter than 20 are skipped -/
def lookupNames (cfg : Cfg) : List Nat → Nat → Except Out Nat
  | [], k => .ok k
  | l :: r, k =>
    if l < 20 then (if cfg.lookupName then lookupNames cfg r k else .error (.panic "discover.serfNet.Lookup|slice|members[i].Name[:20]"))
    else if l = 20 then lookupNames cfg r k
    else lookupNames cfg r (k + 1)

def lookupOut (cfg : Cfg) (ls : List Nat) : Out :=
  match lookupNames cfg ls 0 with
  | .error o => o
  | .ok k => .ok s!"{k}"

end Dos.Handlers

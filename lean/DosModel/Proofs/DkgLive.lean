/-
Liveness of honest key generation (C04.5): definitions of a well-formed honest configuration and
of a complete run of the event system `Model/DkgNet.lean`.
-/
import DosModel.Proofs.DkgHonest
import DosModel.Proofs.DkgPair

set_option linter.unusedSectionVars false

namespace Dos.Dkg
open Dos Dos.Vss

variable {F G : Type} [Field F] [AddCommGroup G] [Module F G] [DecidableEq F] [DecidableEq G]

/-- non-degenerate honest configuration: at least three members, pairwise distinct public keys,
one polynomial of length `n/2+1` per member, `n` non-zero ephemeral secrets per member -/
structure WellFormed (c : Cfg F G) (ephs : List (List F)) : Prop where
  g_ne : c.g ≠ 0
  three : 3 ≤ c.n
  nodup : c.pubs.Nodup
  polys_len : c.polys.length = c.n
  poly_len : ∀ f ∈ c.polys, f.length = c.n / 2 + 1
  ephs_len : ephs.length = c.n
  eph_len : ∀ es ∈ ephs, es.length = c.n ∧ ∀ e ∈ es, e ≠ 0

/-- every member was started, and every message a member has sent was delivered to every other
member at least once after it existed -/
def Complete (n : Nat) (s : Sys F G) : Prop :=
  (∀ i, i < n → Ev.start i ∈ s.delivered) ∧
  (∀ i j mj, i < n → j < n → i ≠ j → s.ms[j]? = some mj →
    ((sentPk mj).isSome = true → Ev.pk j i ∈ s.delivered) ∧
    ((sentDeal mj i).isSome = true → Ev.deal j i ∈ s.delivered) ∧
    ((sentResps mj).isSome = true → Ev.resps j i ∈ s.delivered))

/-- the full liveness statement of C04 -/
def CompleteDeliveryFinishes (c : Cfg F G) (ephs : List (List F)) : Prop :=
  ∀ evs : List Ev, Complete c.n (runEvents c ephs evs) →
    ∀ i, i < c.n → ∃ m d ks, (runEvents c ephs evs).ms[i]? = some m ∧ m.stage = .done d ks

end Dos.Dkg

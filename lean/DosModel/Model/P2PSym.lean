/-
Symbolic (Dolev–Yao) model of the p2p secure channel, receiving side
(p2p/client.go readPipe → decryptPipe → decodePipe/decodeBytes → dispatch →
server.messageDispatch).

Bytes on the wire are terms.  A frame is either the output of AES-GCM.Seal under
some key (`sealed k pt`), or any other byte string (`raw`), or the point where the
byte stream stops being a sequence of frames (`broken`: header damaged, stream cut).
A signature is either BLS(sk, msg) (`good sk msg`) or any other byte string (`bad`).
The usual equations and no others: Open under key k succeeds exactly on `sealed k _`;
Verify under the public key of sk succeeds exactly on `good sk msg` for that msg.
(The GCM nonce is fixed per connection in the code; that AES-GCM keeps its integrity
under this reuse is an assumption of the model, see meta/C16.json.)
-/
import DosModel.Model.Util

namespace Dos.P2PSym
open Dos

inductive Sig
  | good (sk : Nat) (msg : Bytes)
  | bad (n : Nat)
  deriving DecidableEq, Repr

/-- google.protobuf.Any: type URL (as an index) and value bytes; `wf` = the value parses as that type -/
structure Any where
  typ   : Nat
  value : Bytes
  wf    : Bool := true
  deriving DecidableEq, Repr

structure Pkg where
  any    : Option Any
  sig    : Sig
  sender : Bytes := []
  nonce  : Nat := 0
  reply  : Bool := false
  deriving DecidableEq, Repr

/-- what is under the AEAD -/
inductive Plain
  | pkg (p : Pkg)     -- the protobuf encoding of a Package
  | junk (n : Nat)    -- bytes that do not parse as a Package
  | empty             -- zero bytes
  deriving DecidableEq, Repr

inductive Frame
  | sealed (k : Nat) (pt : Plain)
  | raw (n : Nat)
  | broken
  deriving DecidableEq, Repr

structure Delivery where
  typ    : Nat
  value  : Bytes
  sender : Bytes
  nonce  : Nat
  reply  : Bool
  deriving DecidableEq, Repr

inductive Err | openFail | proto | noAny | sig | unmarshal | framing
  deriving DecidableEq, Repr

inductive Outcome
  | deliver (d : Delivery)
  | skip                      -- zero-length plaintext: decodePipe just continues
  | err (e : Err)
  | panic (site : String)     -- a Go panic in a pipeline goroutine (kills the process)
  deriving DecidableEq, Repr

/-- receiver's view of a connection: session key `k`, the public key `pk` presented in the
handshake (identified with its secret's name), the registered message types, and whether
decodeBytes checks for a missing Anything (regenerated from the code) -/
structure Conn where
  k        : Nat
  pk       : Nat                -- the REMOTE endpoint's signing key, as presented in the handshake
  known    : Nat → Bool
  checkAny : Bool := true
  self     : Nat := 0           -- this endpoint's own signing key on this connection
  drains   : Bool := true       -- errc keeps being read after client.run has returned (regenerated)

/-- one frame through decryptPipe, decodeBytes (with verifyFn), the second bls.Verify -/
def recvFrame (c : Conn) : Frame → Outcome
  | .broken => .err .framing
  | .raw _ => .err .openFail
  | .sealed k' pt =>
    if k' ≠ c.k then .err .openFail else
    match pt with
    | .empty => .skip
    | .junk _ => .err .proto
    | .pkg p =>
      match p.any with
      | none => if c.checkAny then .err .noAny else .panic "decodeBytes: pa.GetAnything().Value"
      | some a =>
        if p.sig ≠ .good c.pk a.value then .err .sig          -- verifyFn inside decodeBytes
        else if c.known a.typ = false ∨ a.wf = false then .err .unmarshal   -- ptypes.UnmarshalAny
        else if p.sig ≠ .good c.pk a.value then .err .sig     -- bls.Verify again in decodePipe
        else .deliver { typ := a.typ, value := a.value, sender := p.sender, nonce := p.nonce, reply := p.reply }

/-- the connection as a whole.  `client.run` takes ONE error from `errc` and returns.  As the code
was, nobody read `errc` afterwards, so the stage reporting a second error blocked for good (until
the idle timer) and nothing behind it was processed (`drains = false`); the repaired `run` leaves
a reader behind (`drains = true`).  A framing error ends readPipe in both. -/
structure RState where
  errs    : Nat := 0
  stalled : Bool := false
  crashed : Bool := false
  out     : List Delivery := []
  deriving Repr

def rstep (c : Conn) (st : RState) (f : Frame) : RState :=
  if st.stalled ∨ st.crashed then st else
  match recvFrame c f with
  | .deliver d => { st with out := st.out ++ [d] }
  | .skip => st
  | .panic _ => { st with crashed := true }
  | .err e =>
    if e = .framing then { st with errs := st.errs + 1, stalled := true }
    else if st.errs = 0 ∨ c.drains = true then { st with errs := st.errs + 1 }
    else { st with errs := st.errs + 1, stalled := true }

def recvAll (c : Conn) (fs : List Frame) : RState := fs.foldl (rstep c) {}

/-- server.messageDispatch: a non-reply message goes to the subscriber of its type -/
def toSubscriber (t : Nat) (ds : List Delivery) : List Delivery :=
  ds.filter fun d => d.typ = t ∧ d.reply = false

/-! the sending side (packPipe/encodeProto + encryptPipe) -/

structure Msg where
  typ   : Nat
  value : Bytes
  deriving DecidableEq, Repr

def pack (sk k : Nat) (sender : Bytes) (m : Msg) (nonce : Nat) (reply : Bool) : Frame :=
  .sealed k (.pkg { any := some { typ := m.typ, value := m.value, wf := true }, sig := .good sk m.value,
                    sender := sender, nonce := nonce, reply := reply })

def delivered (sender : Bytes) (m : Msg) (nonce : Nat) (reply : Bool) : Delivery :=
  { typ := m.typ, value := m.value, sender := sender, nonce := nonce, reply := reply }

/-- what a man in the middle who knows neither the session key `k` nor any signing key can put
on the wire towards the receiver, after seeing `sent` (what the REMOTE endpoint sent on this
connection) and `own` (what the receiver ITSELF sent on it — both directions use the same key and
the same fixed nonce, so these open too): verbatim copies of either (any order, any number of
times), byte strings that are not a Seal output (altered / truncated / random frames), damage to
the framing, and frames sealed under keys other than `k` (this includes every frame of any other
connection, also between the same two endpoints: each connection has its own key pair). -/
inductive Derivable (k : Nat) (sent own : List Frame) : Frame → Prop
  | copy {f : Frame} : f ∈ sent → Derivable k sent own f
  | reflect {f : Frame} : f ∈ own → Derivable k sent own f
  | raw (n : Nat) : Derivable k sent own (.raw n)
  | broken : Derivable k sent own .broken
  | otherKey {k' : Nat} {pt : Plain} : k' ≠ k → Derivable k sent own (.sealed k' pt)

/-! ### AES-GCM as the code uses it: ONE nonce for every frame of a connection, both directions

(client.go: `c.dhNonce = dhBytes[32:44]`, `aesgcm.Seal(nil, c.dhNonce, text, nil)`.)  The ideal-AEAD
adversary `Derivable` above is NOT what the code gives (review finding 1, replayed on the real nodes
by the `gcm` cases): with a repeated nonce the keystream and the mask of the tag are the same for every
frame, two frames give the GHASH key (a polynomial equation in H), and from then on the man in the
middle — still without the AES key and without any signing key — can seal ANY plaintext he can write
down.  What he cannot write down is a BLS signature he has not seen: `KnownPlain`. -/

def sealedUnder (k : Nat) : Frame → Bool
  | .sealed k' _ => k' == k
  | _ => false

/-- two DIFFERENT frames sealed under the session key have been on the wire -/
def TwoSeen (k : Nat) (seen : List Frame) : Prop :=
  ∃ f g, f ∈ seen ∧ g ∈ seen ∧ f ≠ g ∧ sealedUnder k f = true ∧ sealedUnder k g = true

/-- plaintexts the man in the middle can put together: anything, as long as a BLS signature in it is
one that was in a frame he has seen (he cannot sign) -/
def KnownPlain (seen : List Frame) : Plain → Prop
  | .pkg p =>
    match p.sig with
    | .bad _ => True
    | .good sk m => ∃ k' q, Frame.sealed k' (.pkg q) ∈ seen ∧ q.sig = .good sk m
  | _ => True

/-- the man in the middle the CODE faces: everything the ideal-AEAD one can do, plus, once two frames
of the connection were seen, a valid seal on any plaintext he knows -/
inductive DerivableGCM (k : Nat) (sent own : List Frame) : Frame → Prop
  | ideal {f : Frame} : Derivable k sent own f → DerivableGCM k sent own f
  | forged {pt : Plain} : TwoSeen k (sent ++ own) → KnownPlain (sent ++ own) pt →
      DerivableGCM k sent own (.sealed k pt)

/-! ### driver -/

def nTypes : Nat := 4
def knownType (t : Nat) : Bool := t < nTypes

/-- message `i` of a case: type, size, seed are enough to identify it; the model carries the index
as the value -/
def msgOf (i t : Nat) : Msg := { typ := t, value := natBE 4 i }

/-- B's view of the connection (remote = A, key 7; own key 8) and A's view of the same connection -/
def theConn (checkAny : Bool) (drains : Bool := true) : Conn :=
  { k := 1, pk := 7, known := knownType, checkAny := checkAny, self := 8, drains := drains }
def connA (checkAny drains : Bool) : Conn :=
  { k := 1, pk := 8, known := knownType, checkAny := checkAny, self := 7, drains := drains }

def goodFrame (i t : Nat) : Frame := pack 7 1 [] (msgOf i t) i false

def showOut (n : Nat) (st : RState) : String :=
  let per := (List.range nTypes).map fun t =>
    let ds := toSubscriber t st.out
    let ids := ds.map fun d => toString (beNat d.value)
    s!"t{t}=" ++ (if ids.isEmpty then "-" else String.intercalate "," ids)
  -- the connection is seen to be live when the last message (the sentinel, a Ping) comes out
  let conn := if (toSubscriber 0 st.out).any (fun d => beNat d.value = n - 1) then "live" else "dead"
  let alive := if st.crashed then "no" else "yes"
  s!"{String.intercalate " " per} conn={conn} alive={alive} n={n}"

/-- `mitm <msgs> <ops>`: msgs `t:size:seed,…`; ops on the frame sequence (see go/props/c16) -/
structure Tamper where
  before : List Frame := []   -- injected before the frame
  self   : Option Frame := none  -- replacement of the frame itself (none = untouched)
  after  : List (Option Frame) := []   -- inserted after it (none = a verbatim copy of the frame)
  answer : Bool := false      -- B answers this message with a Reply …
  bounce : Bool := false      -- … which the man in the middle also sends back to B
  alterReply : Bool := false  -- … or alters on its way to A (a B→A frame with a flipped bit)

/-- B's reply to message `i`, as B packs it (signed with B's key 8) -/
def replyFrame (i : Nat) : Frame := pack 8 1 [] { typ := 1, value := natBE 4 i } i true

structure MitmOps where
  tab    : Nat → Tamper := fun _ => {}
  mirror : List Nat := []     -- A→B frames sent back to A once the last frame has gone through
  damage : Bool := false      -- some op breaks the framing: the harness stops there

def applyOp (n : Nat) (o : MitmOps) (op : String) : Option MitmOps :=
  let kind := (op.take 1).toString
  match ((op.drop 1).toString.splitOn ":").mapM String.toNat? with
  | some (i :: _) =>
    if i > n then none else
    let t := o.tab i
    let upd := fun (t' : Tamper) => { o with tab := fun j => if j = i then t' else o.tab j }
    match kind with
    | "F" => some (upd { t with self := if t.self = some .broken then t.self else some (.raw 1) })
    | "T" => some (upd { t with self := if t.self = some .broken then t.self else some (.raw 2) })
    | "H" => some { upd { t with self := some .broken } with damage := true }
    | "X" => some { upd { t with self := some .broken } with damage := true }
    | "D" => some (upd { t with after := t.after ++ [some (.raw 3)] })
    | "I" => some (upd { t with before := t.before ++ [.raw 4] })
    | "R" => some (upd { t with after := t.after ++ [none] })
    | "V" => some (upd { t with answer := true, bounce := true })
    | "A" => some (upd { t with answer := true, alterReply := true })
    | "M" => some { o with mirror := o.mirror ++ [i] }
    | _ => none
  | _ => none

def parseMsgs (s : String) : Option (List Nat) :=
  if s == "-" then some [] else
  (s.splitOn ",").mapM fun e => match e.splitOn ":" with
    | t :: _ => t.toNat?
    | _ => none

/-- B's side, frame by frame; for an answered message also: could B still reply when it got it?
(after its first reported error `run` has returned and the inbound client is no longer in
receiveHandler's table: "can't find client") -/
def mitmB (cB : Conn) (ts : List Nat) (o : MitmOps) (n : Nat) : Nat → RState → List (Nat × Bool) → RState × List (Nat × Bool)
  | 0, st, acc => (st, acc)
  | fuel + 1, st, acc =>
    let i := ts.length - (fuel + 1)
    let t := ts.getD i 0
    let tm := o.tab i
    let tm := if i == n && !o.mirror.isEmpty && !o.damage then { tm with answer := true } else tm
    let orig := goodFrame i t
    let st1 := (tm.before ++ [tm.self.getD orig]).foldl (rstep cB) st
    let got : Bool := (toSubscriber t st1.out).any (fun d => beNat d.value = i) && tm.self.isNone
    let canReply : Bool := tm.answer && got && st1.errs == 0 && !st1.stalled
    let after := tm.after.map (fun f => f.getD orig) ++ (if tm.bounce && canReply then [replyFrame i] else [])
    let st2 := after.foldl (rstep cB) st1
    mitmB cB ts o n fuel st2 (if tm.answer then acc ++ [(i, canReply)] else acc)

def stepMitm (checkAny drains : Bool) (msgs ops : String) : String :=
  match parseMsgs msgs with
  | none => "bad-op"
  | some ts =>
    let ts := ts ++ [0]                      -- the sentinel, a Ping
    let n := ts.length - 1
    let opl := if ops == "-" then [] else ops.splitOn ","
    match opl.foldl (fun (acc : Option MitmOps) op => acc.bind fun o => applyOp n o op) (some {}) with
    | none => "bad-op"
    | some o =>
      let (stB, answered) := mitmB (theConn checkAny drains) ts o n ts.length {} []
      -- A's inbound stream on the same connection: the replies B could send, with the reflected
      -- A→B frames just before the last one (they are sent when the last frame has gone through)
      let mirrors := if o.damage then [] else o.mirror.map fun j => goodFrame j (ts.getD j 0)
      let replies := answered.filter (fun a => a.2) |>.map (fun a => a.1)
      let early := replies.filter (· ≠ n)
      let late := replies.filter (· = n)
      let cA := connA checkAny drains
      let frameToA := fun (i : Nat) => if (o.tab i).alterReply then Frame.raw 7 else replyFrame i
      let stA := (early.map frameToA ++ mirrors ++ late.map frameToA).foldl (rstep cA) {}
      let toA := ((List.range nTypes).map fun t => (toSubscriber t stA.out).length).foldl (· + ·) 0
      let rep := answered.map fun (i, _) =>
        if stA.out.any (fun d => d.reply ∧ d.nonce = i ∧ beNat d.value = i) then "ok" else "err"
      let aalive := if stA.crashed then "no" else "yes"
      let reps := if rep.isEmpty then "-" else String.intercalate "," rep
      showOut ts.length stB ++ s!" a={toA} aalive={aalive} rep={reps}"

/-- `own <items>`: what the harness's own endpoint sends, well framed -/
def ownFrame (its : List String) (i : Nat) (item : String) : Option Frame :=
  let kind := (item.take 1).toString
  let args := ((item.drop 1).toString.splitOn ":").filterMap String.toNat?
  let t := args.getD 0 0
  let a : Any := { typ := t, value := natBE 4 i }
  match kind with
  | "G" => some (goodFrame i t)
  | "S" => some (.sealed 1 (.pkg { any := some { typ := args.getD 1 0, value := natBE 4 i }, sig := .bad t, nonce := i }))
  | "N" => some (.sealed 1 (.pkg { any := none, sig := .bad 0, nonce := i }))
  | "U" => some (.sealed 1 (.pkg { any := some { typ := 99, value := natBE 4 i }, sig := .good 7 (natBE 4 i), nonce := i }))
  | "J" => some (.sealed 1 (.junk t))
  | "E" => some (.sealed 1 .empty)
  | "W" => some (.raw t)
  | "K" => some (.sealed 2 (.pkg { any := some a, sig := .good 7 a.value, nonce := i }))
  | "M" => some (.sealed 1 (.pkg { any := some { a with wf := false }, sig := .good 7 a.value, nonce := i }))
  | "P" => some (pack 7 1 [] (msgOf i t) i true)
  | "Q" =>
    -- derived from the accepted packet `t` (= item index j): modes 0–4 carry a (payload, signature) pair
    -- that is not BLS(key, payload) — another split of the same bytes, a truncated / extended / swapped
    -- signature; mode 5 is the same package re-encoded (a copy of packet j)
    -- … mode 3 is the signature followed by extra bytes: bn256 G1 decoding reads 64 bytes and ignores the
    -- rest (as the code is), so it verifies — a second packet of payload j under this packet's nonce
    let mode := args.getD 1 0
    if mode = 5 ∨ mode = 3 then
      let itj := its.getD t ""
      if (itj.take 1).toString == "G" then
        let tj := (((itj.drop 1).toString.splitOn ":").filterMap String.toNat?).getD 0 0
        some (pack 7 1 [] (msgOf t tj) (if mode = 5 then t else i) false)
      else none
    else some (.sealed 1 (.pkg { any := some { typ := 0, value := natBE 4 i }, sig := .bad mode, nonce := i }))
  | _ => none

def stepOwn (checkAny drains : Bool) (items : String) : String :=
  let its := (if items == "-" then [] else items.splitOn ",") ++ ["G0"]
  match (List.zip (List.range its.length) its).mapM fun (i, it) => ownFrame its i it with
  | none => "bad-op"
  | some frames => showOut its.length (recvAll (theConn checkAny drains) frames)

/-- `gcm <ops>` (go/props/c16/gcm.go): A sends Ping{7}, Ping{7}, Ping{8} (the proxy recovers the GHASH
key), the victim Ping{7}, Ping{9}; per op the proxy replaces the victim by / injects after it a frame
it sealed itself: P type 0→1, B type 0→1 and another nonce, N another nonce, C the P alteration with
the old tag (not a Seal output).  The forgeries carry the victim's value and signature. -/
def stepGcm (checkAny drains : Bool) (ops : String) : String :=
  let ping (v n : Nat) : Frame := pack 7 1 [65] { typ := 0, value := [UInt8.ofNat v] } n false
  let forge (t n : Nat) : Frame :=
    .sealed 1 (.pkg { any := some { typ := t, value := [7] }, sig := .good 7 [7], sender := [65], nonce := n })
  let opl := if ops == "-" then [] else ops.splitOn ","
  let victim := if opl.contains "P" then [] else [ping 7 3]
  let extra := opl.filterMap fun op =>
    match op with
    | "P" => some (forge 1 3)
    | "B" => some (forge 1 88)
    | "N" => some (forge 0 45)
    | "C" => some (.raw 9)
    | _ => none
  if extra.length ≠ opl.length then "bad-op" else
  let st := recvAll (theConn checkAny drains) ([ping 7 0, ping 7 1, ping 8 2] ++ victim ++ extra ++ [ping 9 4])
  let cnt (t v : Nat) : Nat := ((toSubscriber t st.out).filter fun d => d.value = [UInt8.ofNat v]).length
  let d7 : Int := (cnt 0 7 : Int) - 3
  let conn := if cnt 0 9 = 1 then "live" else "dead"
  let alive := if st.crashed then "no" else "yes"
  s!"gcm h=ok dping7={d7} ping8={cnt 0 8} ping9={cnt 0 9} pong={(toSubscriber 1 st.out).length} conn={conn} alive={alive}"

def driverStep (checkAny drains : Bool) (line : String) : String :=
  match words line with
  | ["mitm", msgs, ops] => stepMitm checkAny drains msgs ops
  | ["gcm", ops] => stepGcm checkAny drains ops
  | ["own", items] => stepOwn checkAny drains items
  | ["race", n] =>
    -- n independent honest connections with one message each (a failed handshake on ANOTHER
    -- connection is not an event of these connections)
    match n.toNat? with
    | some n =>
      let ok := (List.range n).filter fun i =>
        (recvAll (theConn checkAny) [goodFrame i 0]).out.length = 1
      s!"race delivered={ok.length}/{n} alive=yes"
    | none => "bad-op"
  | _ => "bad-op"

end Dos.P2PSym

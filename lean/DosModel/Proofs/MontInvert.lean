/-
C10 layer 2 — gfP.Invert (gfp.go): the square-and-multiply loop over the `bits` table,
started from rN1 and fixed up by r3, computes in Montgomery form the (p−2)-th power:
decode(Invert f) ≡ decode(f)^(p−2) (mod p) for every reduced f, where decode x = x·R⁻¹.
No primality is used; with p prime this is the inverse (Fermat), see Props/C10.lean.
-/
import Mathlib.Data.Nat.ModEq
import Mathlib.FieldTheory.Finite.Basic
import Mathlib.Tactic.Ring
import DosModel.Proofs.MontRedc
import DosModel.Model.Bn256Field

namespace Dos.Mont

/-- value of a little-endian bit list -/
def bitsVal : List Bool → Nat
  | [] => 0
  | b :: bs => (if b then 1 else 0) + 2 * bitsVal bs

/-- the loop of gfP.Invert on raw values -/
def invLoop (p np : Nat) (bits : List Bool) (sum power : Nat) : Nat × Nat :=
  bits.foldl (fun st b => (if b then mulM p np st.1 st.2 else st.1, mulM p np st.2 st.2)) (sum, power)

theorem mulM_red (p np : Nat) (hnp : (np * p + 1) % R = 0) (hpR : p < R) (rinv : Nat)
    (hr : R * rinv ≡ 1 [MOD p]) (x y : Nat) (hx : x < p) (hy : y < p) :
    mulM p np x y < p ∧ mulM p np x y * rinv ≡ (x * rinv) * (y * rinv) [MOD p] := by
  have hab : x * y < R * p := by
    calc x * y < p * p := Nat.mul_lt_mul'' hx hy
      _ ≤ R * p := Nat.mul_le_mul_right p (Nat.le_of_lt hpR)
  exact ⟨(mulM_correct p np x y hnp hpR hab).1, mulM_decode p np rinv x y hnp hpR hr hab⟩

theorem invLoop_spec (p np : Nat) (hnp : (np * p + 1) % R = 0) (hpR : p < R) (rinv : Nat)
    (hr : R * rinv ≡ 1 [MOD p]) (bits : List Bool) :
    ∀ sum power : Nat, sum < p → power < p →
      (invLoop p np bits sum power).1 < p ∧ (invLoop p np bits sum power).2 < p ∧
      (invLoop p np bits sum power).1 * rinv ≡ (sum * rinv) * (power * rinv) ^ bitsVal bits [MOD p] := by
  induction bits with
  | nil => intro sum power hs hw; exact ⟨hs, hw, by simp [invLoop, bitsVal, Nat.ModEq.refl]⟩
  | cons b bs ih =>
    intro sum power hs hw
    obtain ⟨hww, hwd⟩ := mulM_red p np hnp hpR rinv hr power power hw hw
    obtain ⟨hsw, hsd⟩ := mulM_red p np hnp hpR rinv hr sum power hs hw
    have hstep : invLoop p np (b :: bs) sum power =
        invLoop p np bs (if b then mulM p np sum power else sum) (mulM p np power power) := by
      simp [invLoop]
    rw [hstep]
    cases b with
    | false =>
      obtain ⟨h1, h2, h3⟩ := ih sum (mulM p np power power) hs hww
      refine ⟨h1, h2, ?_⟩
      simp only [Bool.false_eq_true, if_false] at h3 ⊢
      have e : (power * rinv) ^ bitsVal (false :: bs) = ((power * rinv) * (power * rinv)) ^ bitsVal bs := by
        simp only [bitsVal, Bool.false_eq_true, if_false, Nat.zero_add]
        rw [pow_mul, pow_two]
      rw [e]
      exact h3.trans ((Nat.ModEq.refl _).mul (hwd.pow _))
    | true =>
      obtain ⟨h1, h2, h3⟩ := ih (mulM p np sum power) (mulM p np power power) hsw hww
      refine ⟨h1, h2, ?_⟩
      simp only [if_true] at h3 ⊢
      have e : (sum * rinv) * (power * rinv) ^ bitsVal (true :: bs) =
          ((sum * rinv) * (power * rinv)) * ((power * rinv) * (power * rinv)) ^ bitsVal bs := by
        simp only [bitsVal, if_true]
        ring
      rw [e]
      exact h3.trans (hsd.mul (hwd.pow _))

end Dos.Mont

namespace Dos.Bn256
open Dos.Mont

theorem GFp.mul_v (a b : GFp) : (a * b).v = mulM p np a.v b.v := rfl

theorem invLoopG_v (bits : List Bool) : ∀ s w : GFp,
    (GFp.invLoopG bits (s, w)).1.v = (invLoop p np bits s.v w.v).1 := by
  induction bits with
  | nil => intro s w; simp only [GFp.invLoopG, invLoop, List.foldl_nil]
  | cons b bs ih =>
    intro s w
    have hinit : ((if b then mulM p np s.v w.v else s.v), mulM p np w.v w.v) =
        ((if b then s * w else s).v, (w * w).v) := by
      cases b
      · simp only [Bool.false_eq_true, if_false, GFp.mul_v]
      · simp only [if_true, GFp.mul_v]
    have := ih (if b then s * w else s) (w * w)
    simp only [GFp.invLoopG, invLoop, List.foldl_cons] at this ⊢
    rw [hinit]
    exact this

theorem invert_eq_loop (f : GFp) :
    (GFp.invert f).v = mulM p np (invLoop p np (GFp.bitsLE Gen.Bn256.invertBits) GFp.rN1.v f.v).1 GFp.r3.v := by
  rw [← invLoopG_v]
  simp only [GFp.invert, GFp.mul_v]

/-- **invert_correct** (no primality needed): decode(Invert f) ≡ decode(f)^(p−2), result reduced -/
theorem invert_pow (f : GFp) (hf : f.v < p) :
    (GFp.invert f).v < p ∧
    (GFp.invert f).v * GFp.rN1.v ≡ (f.v * GFp.rN1.v) ^ (p - 2) [MOD p] := by
  have hnp : (np * p + 1) % R = 0 := by decide
  have hpR : p < R := by decide
  have hr : R * GFp.rN1.v ≡ 1 [MOD p] := by decide
  have hrN : GFp.rN1.v < p := by decide
  have hr3 : GFp.r3.v < p := by decide
  have hbits : bitsVal (GFp.bitsLE Gen.Bn256.invertBits) = p - 2 := by decide +kernel
  obtain ⟨h1, _, h3⟩ := invLoop_spec p np hnp hpR GFp.rN1.v hr (GFp.bitsLE Gen.Bn256.invertBits)
    GFp.rN1.v f.v hrN hf
  obtain ⟨k1, k2⟩ := mulM_red p np hnp hpR GFp.rN1.v hr _ GFp.r3.v h1 hr3
  rw [invert_eq_loop]
  refine ⟨k1, ?_⟩
  rw [hbits] at h3
  -- decode(rN1)·decode(r3) = 1
  have hone : (GFp.rN1.v * GFp.rN1.v) * (GFp.r3.v * GFp.rN1.v) ≡ 1 [MOD p] := by decide +kernel
  have e := k2.trans (h3.mul_right _)
  have e2 : GFp.rN1.v * GFp.rN1.v * (f.v * GFp.rN1.v) ^ (p - 2) * (GFp.r3.v * GFp.rN1.v) =
      ((GFp.rN1.v * GFp.rN1.v) * (GFp.r3.v * GFp.rN1.v)) * (f.v * GFp.rN1.v) ^ (p - 2) := by ring
  rw [e2] at e
  exact e.trans (by simpa using hone.mul_right ((f.v * GFp.rN1.v) ^ (p - 2)))


/-- with p prime (assumption), Invert is the field inverse in Montgomery form:
decode(Invert f) · decode(f) ≡ 1 for every reduced non-zero f -/
theorem invert_inverse (hprime : Nat.Prime p) (f : GFp) (hf : f.v < p) (hf0 : f.v ≠ 0) :
    ((GFp.invert f).v * GFp.rN1.v) * (f.v * GFp.rN1.v) ≡ 1 [MOD p] := by
  haveI : Fact p.Prime := ⟨hprime⟩
  obtain ⟨_, h⟩ := invert_pow f hf
  have hr : R * GFp.rN1.v ≡ 1 [MOD p] := by decide
  rw [← ZMod.natCast_eq_natCast_iff] at h hr ⊢
  push_cast at h hr ⊢
  have hf' : (f.v : ZMod p) ≠ 0 := by
    intro h0
    rw [ZMod.natCast_eq_zero_iff] at h0
    exact hf0 (Nat.eq_zero_of_dvd_of_lt h0 hf)
  have hr' : (GFp.rN1.v : ZMod p) ≠ 0 := by
    intro h0
    rw [h0, mul_zero] at hr
    exact zero_ne_one hr
  have hx : (f.v : ZMod p) * GFp.rN1.v ≠ 0 := mul_ne_zero hf' hr'
  rw [h, ← pow_succ]
  have e : p - 2 + 1 = p - 1 := by have := hprime.two_le; omega
  rw [e]
  exact ZMod.pow_card_sub_one_eq_one hx

end Dos.Bn256

/-
C14 — key-generation and query pipelines always terminate and release their goroutines;
they never send on or close a closed channel.

Property theorems only; the model is `Model/PipeIR.lean` (IR), `Model/PipeSem.lean`
(interleaving semantics), `Model/PipeWf.lean` (decidable well-formedness); helper lemmas are in
`Proofs/Pipe*.lean`.  The pipelines `Gen.Pipes.*` are REGENERATED from /repo on every run by
`go/extract/pipeir`; `Gen.PipeKnown.sites` is generated from /verif/KNOWN_FINDINGS.txt.
-/
import DosModel.Model.PipeWf
import DosModel.Gen.PipeIR
import DosModel.Gen.PipeKnown

namespace Dos.Props.C14
open Dos Dos.Pipe Dos.Gen.Pipes

/-! ## the regenerated pipelines satisfy the rules, up to the recorded findings -/

theorem query_sys_wf : subsetOf (violations query_sys) Gen.PipeKnown.sites = true := by decide +kernel
theorem query_user_wf : subsetOf (violations query_user) Gen.PipeKnown.sites = true := by decide +kernel
theorem query_url_wf : subsetOf (violations query_url) Gen.PipeKnown.sites = true := by decide +kernel
theorem grouping_wf : subsetOf (violations grouping) Gen.PipeKnown.sites = true := by decide +kernel
theorem p2p_client_wf : subsetOf (violations p2p_client) Gen.PipeKnown.sites = true := by decide +kernel
theorem helpers_wf :
    [helper_dosnode_mergeErrors, helper_dosnode_fanIn, helper_utils_MergeErrors, helper_onchain_merge,
     helper_onchain_mergeError, helper_onchain_first, helper_onchain_firstEvent, helper_p2p_merge,
     helper_dkg_mergeErrors, helper_dkg_fanOut].all
      (fun p => subsetOf (violations p) Gen.PipeKnown.sites) = true := by decide +kernel

/-- extracted fact: both callers give their pipeline a deadline (`context.WithTimeout`) -/
theorem callers_set_a_deadline :
    query_sys_ctx0 = "WithTimeout" ∧ query_user_ctx0 = "WithTimeout" ∧ query_url_ctx0 = "WithTimeout" ∧
    grouping_ctx0 = "WithTimeout" := by decide

end Dos.Props.C14

/-
C14, round 5 — the `go` statements of the repository that are deliberately NOT goroutines of a C14
pipeline IR (hand-maintained; core Lean only).

`Gen/PipeSpawns.lean` (regenerated on every run) lists EVERY `go` statement of the product code and
the ones the translator turned into goroutines of the emitted pipelines.  `spawn_inventory_complete`
(Props/C14Spawns.lean) asks that each statement is translated or listed here, with the reason.  A new
`go` statement anywhere in the repository — or an existing one that the translator stops reaching —
breaks that theorem until it is modelled or classified here.

Key = (package directory, enclosing function / method / package-level variable, ordinal of the
statement inside that declaration in source order, callee text).
-/
namespace Dos.Pipe

abbrev SpawnKey := String × String × Nat × String

/-- (why it is not part of a pipeline IR, the statements) -/
def unmodelledSpawnGroups : List (String × List SpawnKey) := [
  ("process start-up: signal handler of the command-line client", [
    (".", "actionStart", 0, "func")]),
  ("root of a C14 pipeline: handleQuery / handleGrouping are the MAIN goroutines of the translated pipelines query.* / grouping (started by the template, not by this statement)", [
    ("dosnode", "DosNode.onchainLoop", 0, "d.handleGrouping"),
    ("dosnode", "DosNode.onchainLoop", 1, "d.handleQuery"),
    ("dosnode", "DosNode.onchainLoop", 2, "d.handleQuery"),
    ("dosnode", "DosNode.onchainLoop", 3, "d.handleQuery")]),
  ("handleCR builds no pipeline (no channel, no goroutine): checked by the harness line `callers`", [
    ("dosnode", "DosNode.onchainLoop", 4, "d.handleCR")]),
  ("REST server of the node (net/http), lives as long as the node", [
    ("dosnode", "DosNode.startRESTServer", 0, "func")]),
  ("the node's long-lived loops (REST, onchainLoop, p2p Listen, queryLoop, dkg.Loop, guardian heartbeat): queryLoop and dkg.Loop are the daemon goroutines of the translated pipelines; the others are C18 / C17 / C12 territory", [
    ("dosnode", "DosNode.Start", 0, "func"),
    ("dosnode", "DosNode.Start", 1, "func"),
    ("dosnode", "DosNode.Start", 2, "func"),
    ("dosnode", "DosNode.Start", 3, "func"),
    ("dosnode", "DosNode.Start", 4, "func"),
    ("dosnode", "DosNode.Start", 5, "func")]),
  ("chain getters: one reader goroutine per endpoint behind a fan-in (C19: failover)", [
    ("onchain", "ethAdaptor.GroupToPick", 0, "func"),
    ("onchain", "ethAdaptor.GetExpiredWorkingGroupSize", 0, "func"),
    ("onchain", "ethAdaptor.GroupSize", 0, "func"),
    ("onchain", "ethAdaptor.GetWorkingGroupSize", 0, "func"),
    ("onchain", "ethAdaptor.LastGroupFormationRequestId", 0, "func"),
    ("onchain", "ethAdaptor.LastUpdatedBlock", 0, "func"),
    ("onchain", "ethAdaptor.CachedUpdatedBlock", 0, "func"),
    ("onchain", "ethAdaptor.RelayRespondLimit", 0, "func"),
    ("onchain", "ethAdaptor.PendingGroupStartBlock", 0, "func"),
    ("onchain", "ethAdaptor.PendingGroupMaxLife", 0, "func"),
    ("onchain", "ethAdaptor.FirstPendingGroupId", 0, "func"),
    ("onchain", "ethAdaptor.NumPendingGroups", 0, "func"),
    ("onchain", "ethAdaptor.NumPendingNodes", 0, "func"),
    ("onchain", "ethAdaptor.BootstrapEndBlk", 0, "func"),
    ("onchain", "ethAdaptor.RefreshSystemRandomHardLimit", 0, "func"),
    ("onchain", "ethAdaptor.BootstrapStartThreshold", 0, "func"),
    ("onchain", "ethAdaptor.IsPendingNode", 0, "func"),
    ("onchain", "ethAdaptor.BootstrapRound", 0, "func"),
    ("onchain", "ethAdaptor.Balance", 0, "func"),
    ("onchain", "ethAdaptor.CurrentBlock", 0, "func"),
    ("onchain", "ethAdaptor.PendingNonce", 0, "func")]),
  ("connection set-up of the chain adaptor (dial every endpoint, sync check): start-up only", [
    ("onchain", "DialToEth", 0, "func"),
    ("onchain", "DialToEth", 1, "multiplex"),
    ("onchain", "DialToEth", 2, "func"),
    ("onchain", "CheckSync", 0, "func"),
    ("onchain", "CheckSync", 1, "func")]),
  ("request loop of the chain adaptor (C19)", [
    ("onchain", "ethAdaptor.Connect", 0, "e.ReqLoop")]),
  ("one goroutine per chain request (C19: exactly one transaction, failover)", [
    ("onchain", "ethAdaptor.handleReq", 0, "func")]),
  ("event subscriptions, one goroutine per watched event (C18: each event delivered once)", [
    ("onchain", "var proxyTable", 0, "func"),
    ("onchain", "var proxyTable", 1, "func"),
    ("onchain", "var proxyTable", 2, "func"),
    ("onchain", "var proxyTable", 3, "func"),
    ("onchain", "var proxyTable", 4, "func"),
    ("onchain", "var proxyTable", 5, "func"),
    ("onchain", "var proxyTable", 6, "func"),
    ("onchain", "var proxyTable", 7, "func"),
    ("onchain", "var proxyTable", 8, "func"),
    ("onchain", "var proxyTable", 9, "func"),
    ("onchain", "var proxyTable", 10, "func"),
    ("onchain", "var crTable", 0, "func"),
    ("onchain", "var crTable", 1, "func"),
    ("onchain", "var crTable", 2, "func"),
    ("onchain", "var crTable", 3, "func")]),
  ("p2p client: identity handshake (receiveID / sendID) and the per-request sender (C16, C17); the pipes of client.run ARE translated (p2p.client)", [
    ("p2p", "client.receiveID", 0, "func"),
    ("p2p", "client.sendID", 0, "func"),
    ("p2p", "client.send", 0, "func")]),
  ("p2p server: listener, per-connection client start, request / reply dispatch (C17)", [
    ("p2p", "server.Listen", 0, "func"),
    ("p2p", "server.Listen", 1, "func"),
    ("p2p", "server.Listen", 2, "func"),
    ("p2p", "server.Listen", 3, "func"),
    ("p2p", "server.Listen", 4, "func"),
    ("p2p", "server.receiveHandler", 0, "n.runClient"),
    ("p2p", "server.receiveHandler", 1, "client.send"),
    ("p2p", "server.callHandler", 0, "n.runClient"),
    ("p2p", "server.callHandler", 1, "c.send"),
    ("p2p", "server.eventDispatch", 0, "func")]),
  ("NAT discovery helpers (start-up only)", [
    ("p2p/nat", "SetMapping", 0, "func"),
    ("p2p/nat", "discoverNATPMP", 0, "discoverNATPMPWithAddr"),
    ("p2p/nat", "discoverUPNPIG1", 0, "func"),
    ("p2p/nat", "discoverUPNPIG2", 0, "func")])]

def unmodelledSpawns : List SpawnKey := unmodelledSpawnGroups.flatMap (·.2)

/-! ### loops that end only through their own condition (`Fair.data` rests on these)

`Gen/PipeSpawns.lean: loops` lists every `for` / `range` statement of the packages the pipelines live in
(dosnode, share/dkg/pedersen, utils, p2p, onchain) with how it can end.  The translator emits nothing for a
loop without channel operations (it is an internal choice); that such a loop ends is the `data` clause of
the fairness hypothesis.  Below: every loop that is neither a `range` nor contains a channel operation,
with the reason it ends.  Key = (package directory, function, ordinal of the loop in it, bound, header, class). -/

abbrev LoopKey := String × String × Nat × String × String × String

/-- (why it ends, the loop) -/
def opaqueLoopGroups : List (String × List LoopKey) := [
  ("counting loop over an index with a fixed bound, the body does not assign the index", [
    ("dosnode", "choseSubmitter", 0, "count", "for i < outCount", "opaque"),
    ("dosnode", "getBootIps", 0, "count", "for i < len(strlist)-1", "opaque"),
    ("dosnode", "DosNode.dkgTest", 1, "count", "for i < end", "opaque"),
    ("share/dkg/pedersen", "decodePubKey", 0, "count", "for i < 4", "opaque"),
    ("onchain", "DialToEth", 0, "count", "for i < len(urlPool)", "opaque"),
    ("onchain", "ethAdaptor.SetGasLimit", 0, "count", "for i < len(e.proxies) && i < len(e.crs)", "opaque"),
    ("onchain", "ethAdaptor.SetGasPrice", 0, "count", "for i < len(e.proxies) && i < len(e.crs)", "opaque")]),
  ("framing loops of the p2p client: end when the announced number of bytes is there or the connection fails (C15)", [
    ("p2p", "writeTo", 0, "cond", "for totalBytesWrtie < len(bytes) && err == nil", "opaque"),
    ("p2p", "readFrom", 0, "cond", "for totalBytesRead < headerSize && err == nil", "opaque"),
    ("p2p", "readFrom", 1, "cond", "for totalContentBytesRead < int(size) && err == nil", "opaque")]),
  ("walk of a finite parsed document without recursion (depth guard of dataParse, /repo 14409e8): every step follows a child, sibling or parent link in document order, each node is entered and left once", [
    ("dosnode", "xmlDepthExceeds", 0, "count", "for n != nil", "opaque"),
    ("dosnode", "xmlDepthExceeds", 1, "cond", "for n != root && n.NextSibling == nil", "opaque")]),
  ("node level, not a pipeline goroutine: reconnect to the chain node at most 10 times, join the p2p network at most 10 times, read a file to its end", [
    ("dosnode", "DosNode.onchainLoop", 6, "forever", "for", "opaque"),
    ("dosnode", "DosNode.Start", 1, "forever", "for", "opaque"),
    ("dosnode", "readLines", 0, "forever", "for", "opaque")]),
  ("chain adaptor (C19), not a pipeline goroutine: polls for the receipt for at most 128 block times; waits until no connection attempt is in flight", [
    ("onchain", "CheckTransaction", 0, "cond", "for err == ethereum.NotFound", "opaque"),
    ("onchain", "ethAdaptor.DisconnectAll", 0, "forever", "for", "opaque")])]

def opaqueLoops : List LoopKey := opaqueLoopGroups.flatMap (·.2)

end Dos.Pipe

/-
C12 — handler models, part 4: the CHAIN-EVENT half.

  contract binding (abigen, go-ethereum ABI decoder: every integer field a non-nil *big.Int)
    → `onchain/eth_subscribe.go` proxyTable / crTable entries (translation into `Log…` payloads wrapped in `LogCommon`)
    → `merge` → `firstEvent` (drops what is not a `*LogCommon`, Removed logs, logs seen before)
    → `dosnode.onchainLoop` (type switch) → `handleGrouping` → `pdkg.Grouping`, `isMember` → `pdkg.GetShareSecurity`,
      `groupInfo`, `handleQuery` → `choseSubmitter`, `handleCR`; error values → `DisconnectWs`
  and, beside the loop: `getBootIps` (the bootstrap document named by the bridge contract).

A `*big.Int` field is `Option Nat` (`none` = nil): the handlers have NO nil checks on event fields, so a nil
field reaches a method call and the model says `panic site` there — as the code does. What keeps these
branches unreachable is the translation: every payload field is a verbatim copy of a field the ABI decoder
filled (regenerated fact `Gen.PanicSites.eventFlow`, flag `evFlow`); with that flag off the model's
translation loses the fields and predicts the crash.
-/
import DosModel.Model.Handlers
import DosModel.Model.HandlersNode

namespace Dos.Handlers
open Dos

/-- a `*big.Int` as the handlers see it; `none` = nil -/
abbrev BigF := Option Nat

/-- what `LogCommon.log` holds (group ids, request ids, seeds: any magnitude; member ids: 20-byte addresses, as numbers) -/
inductive Payload where
  | grouping (gid : BigF) (ids : List Nat)
  | dissolve (gid : BigF)
  | keyAccepted (gid : BigF)
  | updateRandom (last gid : BigF)
  | userRandom (rid last seed gid : BigF)
  | url (qid rand gid : BigF)            -- DataSource / Selector go to dataFetch / dataParse (fuzzed: `fzparse`, `fzfetch`)
  | startCR (cid start cdur rdur : BigF)
  | other                                -- a payload without a case in onchainLoop, a nil interface, a non-pointer
  deriving DecidableEq, Repr

def Payload.wf : Payload → Bool
  | .grouping g _ => g.isSome
  | .dissolve g => g.isSome
  | .keyAccepted g => g.isSome
  | .updateRandom l g => l.isSome && g.isSome
  | .userRandom r l s g => r.isSome && l.isSome && s.isSome && g.isSome
  | .url q r g => q.isSome && r.isSome && g.isSome
  | .startCR c s cd rd => c.isSome && s.isSome && cd.isSome && rd.isSome
  | .other => true

/-- a value on the node's error channel -/
inductive ErrVal where
  | plain                 -- any error that is not an *OnchainError
  | onchain (idx : Nat)   -- *OnchainError: `d.chain.DisconnectWs(oError.Idx)`
  deriving DecidableEq, Repr

/-- `pdkg.groups`: what `Grouping` stored; `hasSec`: key generation finished (`genGroup` set secShare and pubPoly) -/
structure GroupRec where
  key : BigF           -- `fmt.Sprintf("%x", GroupId)`: a nil id prints "<nil>", a key of its own
  nids : Nat
  hasSec : Bool
  deriving DecidableEq, Repr

structure EvSt where
  groups : List GroupRec := []
  seed : BigF := some 21888242871839275222246405745257275088548364400416034343698204186575808495617   -- `randSeed` of onchainLoop
  nWs : Nat := 1        -- websocket endpoints of the adaptor (`len(e.wsCancels)`)
  visited : List Nat := []   -- `visited` of firstEvent (identities)
  alive : Bool := true
  deriving Repr

def findGroup (k : BigF) (gs : List GroupRec) : Option GroupRec := gs.find? (fun g => g.key == k)

/-- `isMember(groupID)` = `GetShareSecurity(groupID) != nil` -/
def isMember (cfg : Cfg) (st : EvSt) (gid : BigF) : Except Out Bool :=
  match findGroup gid st.groups with
  | none => .ok false
  | some g =>
    if g.hasSec then .ok true
    else if cfg.secNil then .ok false
    else .error (.panic "dkg.pdkg.GetShareSecurity|deref|dks.Share")

/-- `handleQuery` up to the submitter choice, for a member group: the nonce switch calls `Bytes()` on the
request id, the last randomness and (user random) the seed; `choseSubmitter` takes the last randomness modulo the group size -/
def handleQueryPre (cfg : Cfg) (rid last : BigF) (seed : Option BigF) (nids : Nat) (kind : String) : Out :=
  match rid with
  | none => .panic "dosnode.DosNode.handleQuery|deref|requestID.Bytes"
  | some _ =>
  match last with
  | none => .panic "dosnode.DosNode.handleQuery|deref|lastRand.Bytes"
  | some l =>
  match seed with
  | some none => .panic "dosnode.DosNode.handleQuery|deref|useSeed.Bytes"
  | _ =>
    match choseSubmitter cfg l nids with
    | .ok _ => .ok ("query " ++ kind)
    | o => o

/-- a request event (`LogUpdateRandom`, `LogRequestUserRandom`, `LogUrl`): `randSeed` is updated first, whoever the group is -/
def queryEvent (cfg : Cfg) (st : EvSt) (rid last : BigF) (seed : Option BigF) (gid : BigF) (kind : String) : EvSt × Out :=
  let st := { st with seed := last }
  match isMember cfg st gid with
  | .error o => ({ st with alive := false }, o)
  | .ok false => (st, .dropped)
  | .ok true =>
    -- groupInfo: ids, public polynomial, share
    let nids := ((findGroup gid st.groups).map (·.nids)).getD 0
    if cfg.groupInfoIds && nids = 0 then (st, .err "nogroup")
    else
      match handleQueryPre cfg rid last seed nids kind with
      | .panic s => ({ st with alive := false }, .panic s)
      | o => (st, o)

/-- `handleCR(content, randSeed)`: the seed, then the three block numbers -/
def handleCR (cfg : Cfg) (seed start cdur rdur : BigF) : Out :=
  match seed with
  | none => .panic "dosnode.DosNode.handleCR|deref|randSeed.Cmp(big.NewInt(1))"
  | some s =>
    match handleCRSeed cfg (Int.ofNat s) with
    | .panic p => .panic p
    | _ =>
      match start, cdur, rdur with
      | none, _, _ => .panic "dosnode.DosNode.handleCR|deref|cr.StartBlock.Uint64"
      | some _, none, _ => .panic "dosnode.DosNode.handleCR|deref|cr.CommitDuration.Uint64"
      | some _, some _, none => .panic "dosnode.DosNode.handleCR|deref|cr.RevealDuration.Uint64"
      | some _, some _, some _ => .ok "cr"

/-- one delivered event through onchainLoop's switch; `me`: this node's id -/
def payloadStep (cfg : Cfg) (me : Nat) (st : EvSt) : Payload → EvSt × Out
  | .grouping gid ids =>
    if !ids.contains me then (st, .dropped)                      -- handleGrouping: not a participant
    else match findGroup gid st.groups with
      | some _ => (st, .err "dupgroup")                          -- pdkg.Grouping: LoadOrStore found the id
      | none => ({ st with groups := ⟨gid, ids.length, false⟩ :: st.groups }, .ok s!"grouping {ids.length}")
  | .dissolve gid =>
    match isMember cfg st gid with
    | .error o => ({ st with alive := false }, o)
    | .ok false => (st, .dropped)
    | .ok true => ({ st with groups := st.groups.filter (fun g => g.key != gid) }, .ok "dissolved")
  | .keyAccepted gid =>
    match isMember cfg st gid with
    | .error o => ({ st with alive := false }, o)
    | .ok false => (st, .dropped)
    | .ok true => (st, .ok "accepted")
  | .updateRandom last gid => queryEvent cfg st last last none gid "sys"
  | .userRandom rid last seed gid => queryEvent cfg st rid last (some seed) gid "user"
  | .url qid rand gid => queryEvent cfg st qid rand none gid "url"
  | .startCR _ start cdur rdur =>
    match handleCR cfg st.seed start cdur rdur with
    | .panic s => ({ st with alive := false }, .panic s)
    | o => (st, o)
  | .other => (st, .dropped)

/-! ### the binding's events and their translation -/

/-- a decoded contract event as the abigen binding hands it to the table entry: the ABI decoder fills every
integer field (`Nat`: never nil), `NodeId` is `[]common.Address` -/
inductive RawEv where
  | grouping (gid : Nat) (ids : List Nat)
  | dissolve (gid : Nat)
  | keyAccepted (gid : Nat)
  | updateRandom (last gid : Nat)
  | userRandom (rid last seed gid : Nat)
  | url (qid rand gid : Nat)
  | startCR (cid start cdur rdur : Nat)
  | unsubscribed        -- any other event of the two contracts: no subscription of onchainLoop delivers it
  deriving DecidableEq, Repr

/-- the proxyTable / crTable entry: field-by-field copy (fact `eventFlow`); with the fact broken the model
loses the fields -/
def translate (cfg : Cfg) : RawEv → Option Payload
  | .unsubscribed => none
  | e =>
    let f (n : Nat) : BigF := if cfg.evFlow then some n else none
    match e with
    | .grouping g ids => some (.grouping (f g) ids)
    | .dissolve g => some (.dissolve (f g))
    | .keyAccepted g => some (.keyAccepted (f g))
    | .updateRandom l g => some (.updateRandom (f l) (f g))
    | .userRandom r l s g => some (.userRandom (f r) (f l) (f s) (f g))
    | .url q r g => some (.url (f q) (f r) (f g))
    | .startCR c s cd rd => some (.startCR (f c) (f s) (f cd) (f rd))
    | .unsubscribed => none

/-- an input of the node's chain side -/
inductive ChainIn where
  /-- a log of the contracts: `removed` (chain reorganisation), `ident` (data, block, transaction, index: equal for a re-delivery) -/
  | log (ev : RawEv) (removed : Bool) (ident : Nat)
  /-- a value on the merged event channel that is not a `*LogCommon` -/
  | junk
  /-- an already translated payload handed to onchainLoop directly (the chain double of the harness): any nil-ness -/
  | direct (p : Payload)
  | errv (e : ErrVal)
  /-- the key generation a `LogGrouping` started finishes (internal: `genGroup`) -/
  | keygenDone (gid : BigF)
  deriving DecidableEq, Repr

def chainStep (cfg : Cfg) (me : Nat) (st : EvSt) (i : ChainIn) : EvSt × Out :=
  if !st.alive then (st, .dropped) else
  match i with
  | .junk =>
    if cfg.feCast then (st, .dropped) else ({ st with alive := false }, .panic "onchain.firstEvent|typeassert|event.(*LogCommon)")
  | .log ev removed ident =>
    match translate cfg ev with
    | none => (st, .dropped)                           -- not subscribed: never delivered
    | some p =>
      if removed then (st, .dropped)                   -- firstEvent: `content.Removed`
      else if st.visited.contains ident then (st, .dropped)
      else payloadStep cfg me { st with visited := ident :: st.visited } p
  | .direct p => payloadStep cfg me st p
  | .errv .plain => (st, .ok "logged")
  | .errv (.onchain idx) =>
    if idx < st.nWs then (st, .ok "disconnect")
    else ({ st with alive := false }, .panic "onchain.ethAdaptor.DisconnectWs|index|e.wsCancels[idx]")
  | .keygenDone gid =>
    ({ st with groups := st.groups.map (fun g => if g.key == gid then { g with hasSec := true } else g) }, .ok "")

def chainRun (cfg : Cfg) (me : Nat) : EvSt → List ChainIn → EvSt × List Out
  | s, [] => (s, [])
  | s, i :: is =>
    let (s1, o) := chainStep cfg me s i
    let (s2, os) := chainRun cfg me s1 is
    (s2, o :: os)

/-- inputs the real chain side can produce: logs of the contracts (any values), junk, error values whose index
names an endpoint of the adaptor, completions; NOT `direct` payloads (those are the harness's doubles) -/
def ChainIn.fromChain (nWs : Nat) : ChainIn → Bool
  | .log _ _ _ => true
  | .junk => true
  | .direct p => p.wf
  | .errv .plain => true
  | .errv (.onchain idx) => idx < nWs
  | .keygenDone _ => true

/-! ### `getBootIps` -/

/-- the bootstrap document: `urlOK` — `http.NewRequest` accepts the URL; `fetched` — the GET succeeded;
`commas` — number of separators in the body -/
def getBootIps (cfg : Cfg) (urlOK fetched : Bool) (commas : Nat) : Out :=
  if !urlOK then (if cfg.bootReq then .ok "0" else .panic "dosnode.getBootIps|deref|client.Do(req)")
  else if !fetched then .ok "0"
  else .ok s!"{commas}"       -- `len(strings.Split(body, ",")) - 1` addresses

end Dos.Handlers

/-
HISTORY semantics for `sign/bls` (C06): sequences of `bls.Sign` / `bls.Verify` / `tbls.Verify` calls in
ONE process on SHARED, MUTABLE caller objects — message / signature / key byte slices that are
overwritten in place, re-sliced, appended to (Go slice semantics: several slice headers over one
backing array), `kyber.Point` / `kyber.Scalar` objects that are set again between calls.

The model of the code as it is has NO hidden state: every call's outcome is the one-shot function
(`Bls.verify`, `Bls.sign`) of the byte VALUES its arguments hold at call time (`pureImpl`).  The
semantics `runWith` is written for an arbitrary implementation with hidden state `σ` that may even
look at the caller's memory again later (`Impl.call` gets the store) so that the statement
"the model is pointwise" (`Props/C06Hist.lean` `hist_is_pointwise`) says something: an implementation
that remembers a caller's slice (the seeded hash memo) is expressible and is NOT pointwise
(`Proofs/BlsHist.lean` `memoImpl`, refuted on a concrete history).

The correspondence run executes the same step lists on the real code with real Go slices
(`go/props/c06/hist.go`) and compares every outcome with `runHist` on `evalOps` and with the EVM
precompiles.  Core Lean only.
-/
import DosModel.Model.Bls

namespace Dos.BlsHist
open Dos Dos.Codec Dos.Bls

/-- a Go slice header: backing array, offset into it, length, capacity (counted from `off`) -/
structure Slice where
  arr : Nat
  off : Nat
  len : Nat
  cap : Nat
  deriving DecidableEq, Repr

/-- the caller's memory: backing arrays (by index), slice variables, key objects (`kyber.Point` in G2),
scalar objects (`kyber.Scalar`) -/
structure Store (P2 : Type) where
  arrays : List Bytes := []
  bufs : List (Nat × Slice) := []
  keys : List (Nat × P2) := []
  scalars : List (Nat × Nat) := []

variable {P1 P2 PT : Type}

def readSlice (arrays : List Bytes) (s : Slice) : Option Bytes :=
  match arrays[s.arr]? with
  | none => none
  | some a => some ((a.drop s.off).take s.len)

/-- the bytes slice variable `b` holds now -/
def Store.read (st : Store P2) (b : Nat) : Option Bytes :=
  match st.bufs.lookup b with
  | none => none
  | some s => readSlice st.arrays s

/-- `copy(a[off:], bs)` for `off + len bs ≤ len a` -/
def overwrite (a : Bytes) (off : Nat) (bs : Bytes) : Bytes :=
  a.take off ++ bs ++ a.drop (off + bs.length)

/-- `b = make([]byte, len(bytes), max cap len); copy(b, bytes)` -/
def Store.alloc (st : Store P2) (b cap : Nat) (bytes : Bytes) : Store P2 :=
  let c := max cap bytes.length
  { st with
    arrays := st.arrays ++ [bytes ++ List.replicate (c - bytes.length) 0]
    bufs := (b, ⟨st.arrays.length, 0, bytes.length, c⟩) :: st.bufs }

/-- mutations the CALLER performs between calls -/
inductive Mut (P2 : Type) where
  /-- `b = make(…, cap)` filled with `bytes` -/
  | alloc (b cap : Nat) (bytes : Bytes)
  /-- refill: `b = b[:len(bytes)]; copy(b, bytes)` IN PLACE when the capacity suffices (every alias of the
  backing array sees the new bytes), a fresh array otherwise -/
  | write (b : Nat) (bytes : Bytes)
  /-- `copy(b[off:], bytes)` (clipped to `len(b)`) -/
  | poke (b off : Nat) (bytes : Bytes)
  /-- `b = append(b, bytes...)`: into the spare capacity of the shared backing array when it fits, else a
  new array of capacity `2·(len+k)` -/
  | append (b : Nat) (bytes : Bytes)
  /-- `dst = src[lo:hi]` (`lo ≤ hi ≤ cap(src)`) -/
  | slice (dst src lo hi : Nat)
  /-- the key object `k` is set (again) to the point `X` -/
  | setKey (k : Nat) (X : P2)
  /-- the scalar object `x` is set (again) -/
  | setScalar (x v : Nat)

def Store.apply (st : Store P2) : Mut P2 → Store P2
  | .alloc b cap bytes => st.alloc b cap bytes
  | .write b bytes =>
    match st.bufs.lookup b with
    | none => st.alloc b 0 bytes
    | some s =>
      if bytes.length ≤ s.cap then
        match st.arrays[s.arr]? with
        | none => st
        | some a =>
          { st with
            arrays := st.arrays.set s.arr (overwrite a s.off bytes)
            bufs := (b, { s with len := bytes.length }) :: st.bufs }
      else st.alloc b 0 bytes
  | .poke b off bytes =>
    match st.bufs.lookup b with
    | none => st
    | some s =>
      if off ≤ s.len then
        match st.arrays[s.arr]? with
        | none => st
        | some a => { st with arrays := st.arrays.set s.arr (overwrite a (s.off + off) (bytes.take (s.len - off))) }
      else st
  | .append b bytes =>
    match st.bufs.lookup b with
    | none => st.alloc b 0 bytes
    | some s =>
      match st.arrays[s.arr]? with
      | none => st
      | some a =>
        if s.len + bytes.length ≤ s.cap then
          { st with
            arrays := st.arrays.set s.arr (overwrite a (s.off + s.len) bytes)
            bufs := (b, { s with len := s.len + bytes.length }) :: st.bufs }
        else st.alloc b (2 * (s.len + bytes.length)) ((a.drop s.off).take s.len ++ bytes)
  | .slice dst src lo hi =>
    match st.bufs.lookup src with
    | none => st
    | some s =>
      if lo ≤ hi ∧ hi ≤ s.cap then
        { st with bufs := (dst, ⟨s.arr, s.off + lo, hi - lo, s.cap - lo⟩) :: st.bufs }
      else st
  | .setKey k X => { st with keys := (k, X) :: st.keys }
  | .setScalar x v => { st with scalars := (x, v) :: st.scalars }

/-- a call names the caller's objects -/
inductive Call where
  /-- `bls.Verify(suite, key k, buf m, buf s)` -/
  | verify (k m s : Nat)
  /-- `bls.Sign(suite, scalar x, buf m)` -/
  | sign (x m : Nat)
  /-- `tbls.Verify(suite, PubPoly over the key objects ks, buf m, buf s)` -/
  | tverify (ks : List Nat) (m s : Nat)
  deriving DecidableEq, Repr

/-- the VALUES a call's arguments hold at call time -/
inductive Args (P2 : Type) where
  | verify (X : P2) (msg sig : Bytes)
  | sign (x : Nat) (msg : Bytes)
  | tverify (commits : List P2) (msg sig : Bytes)
  deriving DecidableEq

inductive Outcome where
  | verdict (v : Verdict)
  | signature (s : Bytes)
  /-- `SigShare.Index`: fewer than two bytes -/
  | indexErr
  /-- the step names an object that was never made (malformed case line) -/
  | badRef
  deriving DecidableEq, Repr

def Store.resolve (st : Store P2) : Call → Option (Args P2)
  | .verify k m s =>
    match st.keys.lookup k, st.read m, st.read s with
    | some X, some msg, some sig => some (.verify X msg sig)
    | _, _, _ => none
  | .sign x m =>
    match st.scalars.lookup x, st.read m with
    | some v, some msg => some (.sign v msg)
    | _, _ => none
  | .tverify ks m s =>
    match ks.mapM (fun k => st.keys.lookup k), st.read m, st.read s with
    | some cs, some msg, some sig => some (.tverify cs msg sig)
    | _, _, _ => none

/-- the G2 operations `share.PubPoly.Eval` uses -/
structure KeyOps (P2 : Type) where
  zero2 : P2
  add2 : P2 → P2 → P2
  mul2 : Nat → P2 → P2

/-- `PubPoly.Eval(i).V`: Horner at `xi = i + 1`, `v = xi·v + commits[j]` for `j = T−1 … 0` -/
def pubEval (k : KeyOps P2) (commits : List P2) (i : Nat) : P2 :=
  commits.foldr (fun c v => k.add2 (k.mul2 (i + 1) v) c) k.zero2

/-- **the one-shot functions**: what a call computes from the values of its arguments -/
def oneShot (o : BlsOps P1 P2 PT) (k : KeyOps P2) : Args P2 → Outcome
  | .verify X msg sig => .verdict (verify o X msg sig)
  | .sign x msg => .signature (sign o x msg)
  | .tverify commits msg sig =>
    match sig with
    | i1 :: i0 :: value => .verdict (verify o (pubEval k commits (i1.toNat * 256 + i0.toNat)) msg value)
    | _ => .indexErr

/-- an implementation with hidden state `σ`; it is handed the caller's memory at every call (so it may
read what a slice it remembered holds NOW) -/
structure Impl (σ P2 : Type) where
  init : σ
  call : σ → Store P2 → Call → Outcome × σ

inductive Step (P2 : Type) where
  | upd (m : Mut P2)
  /-- a call; `dst`: the caller keeps the emitted signature in a fresh buffer of that name -/
  | call (c : Call) (dst : Option Nat)

/-- the caller stores an emitted signature -/
def capture (st : Store P2) : Outcome → Option Nat → Store P2
  | .signature s, some b => st.alloc b 0 s
  | _, _ => st

def runWith {σ : Type} (I : Impl σ P2) : σ → Store P2 → List (Step P2) → List Outcome
  | _, _, [] => []
  | s, st, .upd m :: rest => runWith I s (st.apply m) rest
  | s, st, .call c dst :: rest =>
    let r := I.call s st c
    r.1 :: runWith I r.2 (capture st r.1 dst) rest

/-- what the code as it is does with a call: resolve the values, apply the one-shot function -/
def evalCall (o : BlsOps P1 P2 PT) (k : KeyOps P2) (st : Store P2) (c : Call) : Outcome :=
  match st.resolve c with
  | none => .badRef
  | some a => oneShot o k a

/-- the model of `sign/bls` + `sign/tbls`: no hidden state -/
def pureImpl (o : BlsOps P1 P2 PT) (k : KeyOps P2) : Impl Unit P2 :=
  ⟨(), fun _ st c => (evalCall o k st c, ())⟩

/-- **history semantics of the model** -/
def runHist (o : BlsOps P1 P2 PT) (k : KeyOps P2) (st : Store P2) (steps : List (Step P2)) : List Outcome :=
  runWith (pureImpl o k) () st steps

/-- the caller's memory after a history, computed with the one-shot functions only -/
def storeAfter (o : BlsOps P1 P2 PT) (k : KeyOps P2) : Store P2 → List (Step P2) → Store P2
  | st, [] => st
  | st, .upd m :: rest => storeAfter o k (st.apply m) rest
  | st, .call c dst :: rest => storeAfter o k (capture st (evalCall o k st c) dst) rest

/-- for every call of the history, in order: the values of its arguments at call time -/
def argsAt (o : BlsOps P1 P2 PT) (k : KeyOps P2) : Store P2 → List (Step P2) → List (Option (Args P2))
  | _, [] => []
  | st, .upd m :: rest => argsAt o k (st.apply m) rest
  | st, .call c dst :: rest => st.resolve c :: argsAt o k (capture st (evalCall o k st c) dst) rest

def outcomeOf (o : BlsOps P1 P2 PT) (k : KeyOps P2) : Option (Args P2) → Outcome
  | none => .badRef
  | some a => oneShot o k a

/-! ### the instance the driver evaluates: keys = discrete logs mod r -/

open Dos.Bn256 in
def evalKeyOps : KeyOps Nat where
  zero2 := 0
  add2 := fun a b => (a + b) % r
  mul2 := fun k a => (k * a) % r

def outcomeName : Outcome → String
  | .verdict v => verdictName v
  | .signature s => "ok " ++ toHex s
  | .indexErr => "err index"
  | .badRef => "bad"

end Dos.BlsHist

#!/bin/sh
# Offline setup after a fresh restore: build the Go tools against /repo (hooks on)
# and the Lean project (models, proofs, drivers). Nothing is fetched.
set -e
cd "$(dirname "$0")"
export GOFLAGS=-mod=mod GOPROXY=off GOSUMDB=off GOTOOLCHAIN=local
mkdir -p bin work replays evidence
( cd go && [ -f go.sum ] || cp /repo/go.sum go.sum; sh genreg.sh
  go build -o ../bin/extract ./cmd/extract
  for d in cmd/corr-*/; do go build -tags verif -o ../bin/$(basename $d) ./$d; done )
./bin/extract /repo lean || true
( cd lean && lake build DosModel $(ls Drivers/*.lean | sed 's#Drivers/\(.*\)\.lean#drv_\L\1#' | tr '\n' ' ') )
echo setup done

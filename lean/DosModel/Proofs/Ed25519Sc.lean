/-
C20 — congruence of the TRANSLATED ref10 limb code (Gen/Ed25519Sc.lean, regenerated from
group/edwards25519/scalar.go on every run) with integer arithmetic modulo ℓ.

Every block of every function is shown to change the represented integer Σ sᵢ·2^(21 i) by a
multiple of ℓ only, for ALL limb values and for EVERY function put in the place of `>>`
(so each carry is an arbitrary integer).  No number of blocks, no constant and no limb index
is written in this file: the proofs unfold whatever the extractor produced.  An altered
constant (666643 → 666644), a wrong limb index or a dropped `<< 21` makes `sc_block` fail.

Not proved (differential only): absence of int64 overflow, full reduction of the result below ℓ.
-/
import Mathlib.Tactic.Ring
import Mathlib.Tactic.LinearCombination
import DosModel.Gen.Ed25519Sc

set_option exponentiation.threshold 600

namespace Dos.Ed25519
open Dos Dos.Gen.Ed25519Sc

/-- a limb transformation preserves the represented integer modulo ℓ, whatever `>>` computes -/
def Preserves (f : Shr → L24 → L24) : Prop :=
  ∀ (shr : Shr) (s : L24), (ell : Int) ∣ value (f shr s) - value s

open Lean Elab Tactic Meta in
/-- unfold every generated definition (namespace `Dos.Gen.Ed25519Sc`) occurring in the goal -/
elab "unfold_gen" : tactic => withMainContext do
  let t ← getMainTarget
  let ns := t.getUsedConstants.filter (fun n => (`Dos.Gen.Ed25519Sc).isPrefixOf n)
  for n in ns do
    evalTactic (← `(tactic| unfold $(mkIdent n):ident))

/-- one block: after unfolding, the difference of the two values is a linear form in the limbs
and the (opaque) carries; all its coefficients are multiples of ℓ (or it vanishes). -/
macro "sc_block" : tactic => `(tactic| (
  intro shr s
  unfold_gen
  simp only [value, shl, ell]
  ring_nf
  first | exact dvd_zero _ | omega))

/-- all blocks of one generated block list -/
macro "sc_blocks" : tactic => `(tactic| (
  unfold_gen
  simp only [List.mem_cons, List.not_mem_nil, or_false, forall_eq_or_imp, forall_eq]
  repeat' apply And.intro
  all_goals sc_block))

theorem runBlocks_preserves (shr : Shr) :
    ∀ (bs : List (Shr → L24 → L24)), (∀ f ∈ bs, Preserves f) → ∀ s : L24,
      (ell : Int) ∣ value (runBlocks shr bs s) - value s := by
  intro bs
  induction bs with
  | nil => intro _ s; simp [runBlocks]
  | cons f fs ih =>
    intro h s
    have h1 := h f (by simp) shr s
    have h2 := ih (fun g hg => h g (by simp [hg])) (f shr s)
    have : runBlocks shr (f :: fs) s = runBlocks shr fs (f shr s) := by simp [runBlocks]
    rw [this]
    have e : value (runBlocks shr fs (f shr s)) - value s
        = (value (runBlocks shr fs (f shr s)) - value (f shr s)) + (value (f shr s) - value s) := by ring
    rw [e]
    exact Int.dvd_add h2 h1

theorem emod_eq_of_dvd_sub {a b : Int} (h : (ell : Int) ∣ a - b) : a % (ell : Int) = b % (ell : Int) :=
  Int.emod_eq_emod_iff_emod_sub_eq_zero.mpr (Int.emod_eq_zero_of_dvd h)

/-! ### the five functions -/

theorem scMulAdd_blocks_preserve : ∀ f ∈ scMulAdd_blocks, Preserves f := by sc_blocks
theorem scAdd_blocks_preserve : ∀ f ∈ scAdd_blocks, Preserves f := by sc_blocks
theorem scSub_blocks_preserve : ∀ f ∈ scSub_blocks, Preserves f := by sc_blocks
theorem scMul_blocks_preserve : ∀ f ∈ scMul_blocks, Preserves f := by sc_blocks
theorem scReduce_blocks_preserve : ∀ f ∈ scReduce_blocks, Preserves f := by sc_blocks

theorem scMulAdd_init_value (a0 a1 a2 a3 a4 a5 a6 a7 a8 a9 a10 a11 b0 b1 b2 b3 b4 b5 b6 b7 b8 b9 b10 b11
    c0 c1 c2 c3 c4 c5 c6 c7 c8 c9 c10 c11 : Int) :
    value (scMulAdd_init a0 a1 a2 a3 a4 a5 a6 a7 a8 a9 a10 a11 b0 b1 b2 b3 b4 b5 b6 b7 b8 b9 b10 b11
      c0 c1 c2 c3 c4 c5 c6 c7 c8 c9 c10 c11)
    = value12 a0 a1 a2 a3 a4 a5 a6 a7 a8 a9 a10 a11 * value12 b0 b1 b2 b3 b4 b5 b6 b7 b8 b9 b10 b11
      + value12 c0 c1 c2 c3 c4 c5 c6 c7 c8 c9 c10 c11 := by
  unfold_gen
  simp only [value, value12]
  ring

theorem scMul_init_value (a0 a1 a2 a3 a4 a5 a6 a7 a8 a9 a10 a11 b0 b1 b2 b3 b4 b5 b6 b7 b8 b9 b10 b11 : Int) :
    value (scMul_init a0 a1 a2 a3 a4 a5 a6 a7 a8 a9 a10 a11 b0 b1 b2 b3 b4 b5 b6 b7 b8 b9 b10 b11)
    = value12 a0 a1 a2 a3 a4 a5 a6 a7 a8 a9 a10 a11 * value12 b0 b1 b2 b3 b4 b5 b6 b7 b8 b9 b10 b11 := by
  unfold_gen
  simp only [value, value12]
  ring

theorem scAdd_init_value (a0 a1 a2 a3 a4 a5 a6 a7 a8 a9 a10 a11 c0 c1 c2 c3 c4 c5 c6 c7 c8 c9 c10 c11 : Int) :
    value (scAdd_init a0 a1 a2 a3 a4 a5 a6 a7 a8 a9 a10 a11 c0 c1 c2 c3 c4 c5 c6 c7 c8 c9 c10 c11)
    = value12 a0 a1 a2 a3 a4 a5 a6 a7 a8 a9 a10 a11 + value12 c0 c1 c2 c3 c4 c5 c6 c7 c8 c9 c10 c11 := by
  unfold_gen
  simp only [value, value12]
  ring

/-- scSub starts from `a - c + 16·ℓ` (the constants 1916624, 863866, … , 16 are the limbs of 16ℓ) -/
theorem scSub_init_value (a0 a1 a2 a3 a4 a5 a6 a7 a8 a9 a10 a11 c0 c1 c2 c3 c4 c5 c6 c7 c8 c9 c10 c11 : Int) :
    value (scSub_init a0 a1 a2 a3 a4 a5 a6 a7 a8 a9 a10 a11 c0 c1 c2 c3 c4 c5 c6 c7 c8 c9 c10 c11)
    = value12 a0 a1 a2 a3 a4 a5 a6 a7 a8 a9 a10 a11 - value12 c0 c1 c2 c3 c4 c5 c6 c7 c8 c9 c10 c11
      + 16 * (ell : Int) := by
  unfold_gen
  simp only [value, value12, ell]
  ring

theorem scReduce_init_value (s0 s1 s2 s3 s4 s5 s6 s7 s8 s9 s10 s11 s12 s13 s14 s15 s16 s17 s18 s19 s20 s21 s22 s23 : Int) :
    scReduce_init s0 s1 s2 s3 s4 s5 s6 s7 s8 s9 s10 s11 s12 s13 s14 s15 s16 s17 s18 s19 s20 s21 s22 s23
    = ⟨s0, s1, s2, s3, s4, s5, s6, s7, s8, s9, s10, s11, s12, s13, s14, s15, s16, s17, s18, s19, s20, s21, s22, s23⟩ := by
  unfold_gen
  rfl

end Dos.Ed25519

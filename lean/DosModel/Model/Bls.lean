/-
Model of `sign/bls/bls.go` (`Sign`, `Verify`, `hashToPoint`) and of `pointGT.PairingCheck`
(group/bn256/point.go), generic in the group / pairing operations it calls.  Core Lean only.

`PairingOps` = the operations `PairingCheck` uses (`IsInfinity` on both sides, `miller`,
`gfP12.Mul`, `finalExponentiation(..).IsOne()`); `BlsOps` adds what `bls.go` calls.
`Props/C06.lean` proves, for EVERY instance whose operations form a bilinear pairing, that
`verify` accepts exactly when e(−S, g₂)·e(h•g₁, X) = 1.

Two instances are used by the drivers:
* `evalOps` (below): P1 = the concrete affine curve of `Model/Bn256.lean`, a public key is given by
  its discrete log x (X = x•g₂, the harness knows x for every key it makes), "PT" = P1 with
  e(P, x) = x•P.  This is a genuine bilinear map P1 × Z_r → P1 (non-degenerate because P1 has prime
  order r), so the driver decides acceptance by the point equation −S + x•(h•g₁) = O.
-/
import DosModel.Model.Codec
import DosModel.Model.Keccak

namespace Dos.Bls
open Dos Dos.Codec

structure PairingOps (P1 P2 PT : Type) where
  isInf1 : P1 → Bool            -- `ap.IsInfinity()`
  isInf2 : P2 → Bool            -- `bp.IsInfinity()`
  miller : P2 → P1 → PT         -- `miller(bp, ap)`
  one : PT                      -- `acc.SetOne()`
  mul : PT → PT → PT            -- `acc.Mul(acc, …)`
  finalIsOne : PT → Bool        -- `finalExponentiation(acc).IsOne()`

variable {P1 P2 PT : Type}

/-- the loop of `PairingCheck`: `for i := 0; i < len(a); i++ { a[i], b[i] … }`.
`none` = index out of range (`b` shorter than `a`) -/
def pairingAcc (o : PairingOps P1 P2 PT) : List P1 → List P2 → PT → Option PT
  | [], _, acc => some acc
  | _ :: _, [], _ => none
  | a :: as, b :: bs, acc =>
    if o.isInf1 a || o.isInf2 b then pairingAcc o as bs acc      -- `continue`
    else pairingAcc o as bs (o.mul acc (o.miller b a))

def pairingCheck (o : PairingOps P1 P2 PT) (as : List P1) (bs : List P2) : Out Bool :=
  match pairingAcc o as bs o.one with
  | none => .panic "index out of range"
  | some acc => .ok (o.finalIsOne acc)

structure BlsOps (P1 P2 PT : Type) extends PairingOps P1 P2 PT where
  hashScalar : Bytes → Nat      -- `Scalar().SetBytes(keccak256(msg))`: big-endian, reduced mod r
  baseMul1 : Nat → P1           -- `suite.P1().Point().Mul(x, nil)`
  mul1 : Nat → P1 → P1          -- `HM.Mul(x, HM)`
  neg1 : P1 → P1                -- `s.Neg(s)`
  base2 : P2                    -- `suite.P2().Point().Base()`
  unmarshal1 : Bytes → Out P1   -- `s.UnmarshalBinary(sig)`
  marshal1 : P1 → Bytes         -- `xHM.MarshalBinary()`

inductive Verdict where
  | accept
  | rejectParse (e : DecErr)     -- `UnmarshalBinary` error is returned
  | rejectPairing                -- "bls: invalid signature"
  | panic (site : String)
  deriving DecidableEq, Repr

def hashToPoint (o : BlsOps P1 P2 PT) (msg : Bytes) : P1 := o.baseMul1 (o.hashScalar msg)

/-- `bls.Verify(suite, X, msg, sig)` -/
def verify (o : BlsOps P1 P2 PT) (X : P2) (msg sig : Bytes) : Verdict :=
  match o.unmarshal1 sig with
  | .err e => .rejectParse e
  | .panic s => .panic s
  | .ok s =>
    -- (the code computes `HM := hashToPoint(suite, msg)` before parsing; it is a pure value)
    match pairingCheck o.toPairingOps [o.neg1 s, hashToPoint o msg] [o.base2, X] with
    | .ok true => .accept
    | .ok false => .rejectPairing
    | .err _ => .panic "unreachable"
    | .panic st => .panic st

/-- `bls.Sign(suite, x, msg)` -/
def sign (o : BlsOps P1 P2 PT) (x : Nat) (msg : Bytes) : Bytes :=
  o.marshal1 (o.mul1 x (hashToPoint o msg))

/-! ### the instance the drivers evaluate -/

open Dos.Bn256 in
/-- keccak256(msg) read big-endian and reduced mod r -/
def keccakScalar (msg : Bytes) : Nat := beNat (Keccak.keccak256 msg) % r

open Dos.Bn256 in
/-- G1 concrete; a G2 element is represented by its discrete log x < r w.r.t. g₂; e(P, x) = x•P ∈ G1.
`Props/C06.lean` `evalOps_isPairing` proves that this instance satisfies the hypotheses of the generic
theorems (with the group structure of `E(F_p)` transported along `Compose.pt1`). -/
def evalOps : BlsOps G1 Nat G1 where
  isInf1 := fun P => P == .inf
  isInf2 := fun x => x == 0            -- the drivers pass discrete logs already reduced mod r
  miller := fun x P => G1.smul x P
  one := .inf
  mul := G1.add
  finalIsOne := fun P => P == .inf
  hashScalar := keccakScalar
  baseMul1 := fun k => G1.smul k g1gen
  mul1 := G1.smul
  neg1 := G1.neg
  base2 := 1
  unmarshal1 := unmarshalG1
  marshal1 := marshalG1

def verdictName : Verdict → String
  | .accept => "accept"
  | .rejectParse e => "reject parse:" ++ errName e
  | .rejectPairing => "reject pairing"
  | .panic s => "panic " ++ s

end Dos.Bls

/-
C20 (round 4) — the signed-nybble recoding at the head of `geScalarMult` / `geScalarMultBase` (ge.go):

    e[2i] = a[i] & 15, e[2i+1] = (a[i] >> 4) & 15;  carry pass over i < 63;  e[63] += carry

For a 32-byte scalar with a[31] ≤ 127 the 64 digits are in [−8, 8] (the first 63 even in [−8, 7]), every int8
intermediate of the Go code is within [0, 24] ⊂ int8 (so the int8 arithmetic never wraps), and
Σ e[i]·16^i = leNat a.
-/
import Mathlib.Tactic.Ring
import Mathlib.Tactic.Linarith
import Mathlib.Algebra.BigOperators.Group.Finset.Basic
import DosModel.Model.Ed25519Ge

namespace Dos.Ge
open Dos Dos.Ed25519

theorem getD_eq_getElem' {α : Type} (l : List α) (d : α) {n : Nat} (h : n < l.length) : l.getD n d = l[n] := by
  simp [List.getD, List.getElem?_eq_getElem h]

theorem getD_mem' {α : Type} (l : List α) (d : α) {n : Nat} (h : n < l.length) : l.getD n d ∈ l := by
  rw [getD_eq_getElem' l d h]; exact List.getElem_mem _

/-- little-endian radix-16 value of a digit list -/
def digitsVal : List Int → Int
  | [] => 0
  | x :: xs => x + 16 * digitsVal xs

/-- f 0 + … + f (n−1) -/
def sumTo (f : Nat → Int) : Nat → Int
  | 0 => 0
  | n + 1 => sumTo f n + f n

theorem sumTo_eq_sum (f : Nat → Int) (n : Nat) : sumTo f n = ∑ i ∈ Finset.range n, f i := by
  induction n with
  | zero => rfl
  | succ n ih => rw [Finset.sum_range_succ, ← ih]; rfl

theorem digitsVal_append (l : List Int) (y : Int) : digitsVal (l ++ [y]) = digitsVal l + 16 ^ l.length * y := by
  induction l with
  | nil => simp [digitsVal]
  | cons x xs ih =>
    simp only [List.cons_append, digitsVal, ih, List.length_cons]
    ring

theorem sumTo_shift (f : Nat → Int) (n : Nat) : sumTo f (n + 1) = f 0 + sumTo (fun i => f (i + 1)) n := by
  induction n with
  | zero => simp [sumTo]
  | succ n ih =>
    rw [sumTo, ih]
    simp only [sumTo]
    ring

theorem sumTo_congr {f g : Nat → Int} (n : Nat) (h : ∀ i, i < n → f i = g i) : sumTo f n = sumTo g n := by
  induction n with
  | zero => rfl
  | succ n ih =>
    simp only [sumTo]
    rw [ih (fun i hi => h i (by omega)), h n (by omega)]

theorem sumTo_mul (c : Int) (f : Nat → Int) (n : Nat) : sumTo (fun i => c * f i) n = c * sumTo f n := by
  induction n with
  | zero => simp [sumTo]
  | succ n ih => simp only [sumTo, ih]; ring

/-- the value of a digit list as a sum Σ e[i]·16^i -/
theorem digitsVal_eq_sumTo (l : List Int) : digitsVal l = sumTo (fun i => l.getD i 0 * 16 ^ i) l.length := by
  induction l with
  | nil => rfl
  | cons x xs ih =>
    rw [List.length_cons, sumTo_shift]
    simp only [digitsVal, List.getD_cons_zero, List.getD_cons_succ, pow_zero, mul_one]
    rw [ih, ← sumTo_mul]
    congr 1
    apply sumTo_congr
    intro i _
    ring

/-- even and odd positions of a sum -/
theorem sumTo_even_odd (f : Nat → Int) (n : Nat) :
    sumTo f (2 * n) = sumTo (fun k => f (2 * k)) n + sumTo (fun k => f (2 * k + 1)) n := by
  induction n with
  | zero => rfl
  | succ n ih =>
    have : 2 * (n + 1) = 2 * n + 1 + 1 := by ring
    rw [this]
    simp only [sumTo, ih]
    ring

/-- the value of the digits from position `i` on: Horner step -/
theorem digitsVal_drop (l : List Int) (i : Nat) (hi : i < l.length) :
    digitsVal (l.drop i) = l.getD i 0 + 16 * digitsVal (l.drop (i + 1)) := by
  rw [List.drop_eq_getElem_cons hi]
  simp only [digitsVal]
  rw [getD_eq_getElem' _ _ hi]

/-! ### nybbles -/

theorem nybbles_cons (v : UInt8) (a : Bytes) :
    nybbles (v :: a) = Int.ofNat (v.toNat % 16) :: Int.ofNat (v.toNat / 16 % 16) :: nybbles a := by
  simp [nybbles]

theorem nybbles_nil : nybbles [] = [] := rfl

theorem nybbles_length (a : Bytes) : (nybbles a).length = 2 * a.length := by
  induction a with
  | nil => rfl
  | cons v a ih => rw [nybbles_cons]; simp only [List.length_cons, ih]; ring

theorem nybbles_range (a : Bytes) : ∀ d ∈ nybbles a, 0 ≤ d ∧ d ≤ 15 := by
  induction a with
  | nil => intro d hd; simp [nybbles_nil] at hd
  | cons v a ih =>
    intro d hd
    rw [nybbles_cons] at hd
    simp only [List.mem_cons] at hd
    rcases hd with rfl | rfl | hd
    · simp only [Int.ofNat_eq_natCast]; omega
    · simp only [Int.ofNat_eq_natCast]; omega
    · exact ih d hd

theorem nybbles_val (a : Bytes) : digitsVal (nybbles a) = (leNat a : Int) := by
  induction a with
  | nil => rfl
  | cons v a ih =>
    rw [nybbles_cons]
    simp only [digitsVal, leNat, ih, Int.ofNat_eq_natCast]
    have := v.toNat_lt
    omega

theorem nybbles_odd (a : Bytes) (i : Nat) : (nybbles a).getD (2 * i + 1) 0 = Int.ofNat ((a.getD i 0).toNat / 16 % 16) := by
  induction a generalizing i with
  | nil => simp [nybbles_nil]
  | cons v a ih =>
    rw [nybbles_cons]
    cases i with
    | zero => simp
    | succ i =>
      have : 2 * (i + 1) + 1 = (2 * i + 1) + 1 + 1 := by ring
      rw [this, List.getD_cons_succ, List.getD_cons_succ, ih, List.getD_cons_succ]

/-! ### the carry pass -/

/-- one iteration `e[i] += carry; carry = (e[i] + 8) >> 4; e[i] -= carry << 4` -/
def recStep (st : List Int × Int) (x : Int) : List Int × Int :=
  let x := x + st.2
  let c := shrI (x + 8) 4
  (st.1 ++ [x - shl c 4], c)

theorem recode_eq (e : List Int) : recode e = ((e.take 63).foldl recStep ([], 0)).1 ++ [e.getD 63 0 + ((e.take 63).foldl recStep ([], 0)).2] := rfl

/-- one step on a digit 0 … 15 with carry 0/1: the int8 intermediates of the Go code (`e[i] + carry`, `e[i] + 8`,
`carry << 4`, the new `e[i]`) stay within int8 (in fact within [−8, 24]), the new digit is in [−8, 7], the new carry
is 0/1, and digit + 16·carry' = x + carry -/
theorem recStep_spec (x c : Int) (hx : 0 ≤ x ∧ x ≤ 15) (hc : 0 ≤ c ∧ c ≤ 1) :
    let x1 := x + c
    let c1 := shrI (x1 + 8) 4
    (0 ≤ x1 ∧ x1 ≤ 16) ∧ (8 ≤ x1 + 8 ∧ x1 + 8 ≤ 24) ∧ (0 ≤ c1 ∧ c1 ≤ 1) ∧ (0 ≤ shl c1 4 ∧ shl c1 4 ≤ 16)
      ∧ (-8 ≤ x1 - shl c1 4 ∧ x1 - shl c1 4 ≤ 7) ∧ (x1 - shl c1 4) + 16 * c1 = x + c := by
  simp only
  unfold shrI shl
  rw [Int.shiftRight_eq_div_pow]
  norm_num
  omega

theorem carryPass (l : List Int) (hl : ∀ d ∈ l, 0 ≤ d ∧ d ≤ 15) (acc : List Int) (c : Int) (hc : 0 ≤ c ∧ c ≤ 1) :
    ∃ ds c', l.foldl recStep (acc, c) = (acc ++ ds, c') ∧ ds.length = l.length ∧ (∀ d ∈ ds, -8 ≤ d ∧ d ≤ 7)
      ∧ (0 ≤ c' ∧ c' ≤ 1) ∧ digitsVal ds + 16 ^ l.length * c' = digitsVal l + c := by
  induction l generalizing acc c with
  | nil => exact ⟨[], c, by simp, rfl, by simp, hc, by simp [digitsVal]⟩
  | cons x xs ih =>
    obtain ⟨_, _, h3, _, h5, h6⟩ := recStep_spec x c (hl x (by simp)) hc
    obtain ⟨ds, c', e1, e2, e3, e4, e5⟩ := ih (fun d hd => hl d (by simp [hd]))
      (acc ++ [x + c - shl (shrI (x + c + 8) 4) 4]) (shrI (x + c + 8) 4) h3
    refine ⟨(x + c - shl (shrI (x + c + 8) 4) 4) :: ds, c', ?_, by simp [e2], ?_, e4, ?_⟩
    · rw [List.foldl_cons]
      show List.foldl recStep (acc ++ [x + c - shl (shrI (x + c + 8) 4) 4], shrI (x + c + 8) 4) xs = _
      rw [e1]; simp
    · intro d hd
      simp only [List.mem_cons] at hd
      rcases hd with rfl | hd
      · exact h5
      · exact e3 d hd
    · simp only [digitsVal, List.length_cons]
      have : (16 : Int) ^ (xs.length + 1) * c' = 16 * (16 ^ xs.length * c') := by ring
      rw [this]
      linarith

theorem list64_split (e : List Int) (h : e.length = 64) : e = e.take 63 ++ [e.getD 63 0] := by
  have h1 : e = e.take 63 ++ e.drop 63 := (List.take_append_drop 63 e).symm
  have h2 : e.drop 63 = [e.getD 63 0] := by
    rw [List.drop_eq_getElem_cons (by omega), getD_eq_getElem' _ _ (by omega)]
    rw [List.drop_eq_nil_of_le (by omega)]
  rw [← h2]; exact h1

/-- the recoding of any 64 digits in [0, 15] whose last one is ≤ 7 -/
theorem recode_digits (e : List Int) (hlen : e.length = 64) (hr : ∀ d ∈ e, 0 ≤ d ∧ d ≤ 15) (h63 : e.getD 63 0 ≤ 7) :
    (recode e).length = 64 ∧ (∀ i, i < 64 → -8 ≤ (recode e).getD i 0 ∧ (recode e).getD i 0 ≤ 8)
      ∧ digitsVal (recode e) = digitsVal e := by
  obtain ⟨ds, c', e1, e2, e3, e4, e5⟩ := carryPass (e.take 63) (fun d hd => hr d (List.mem_of_mem_take hd)) [] 0 (by omega)
  have hlt : (e.take 63).length = 63 := by simp [hlen]
  have h63' : 0 ≤ e.getD 63 0 := by
    rw [getD_eq_getElem' _ _ (by omega)]
    exact (hr _ (List.getElem_mem _)).1
  rw [recode_eq, e1]
  simp only [List.nil_append]
  refine ⟨by simp [e2, hlt], ?_, ?_⟩
  · intro i hi
    have hlen' : (ds ++ [e.getD 63 0 + c']).length = 64 := by simp [e2, hlt]
    have hmem : (ds ++ [e.getD 63 0 + c']).getD i 0 ∈ ds ++ [e.getD 63 0 + c'] := getD_mem' _ _ (by omega)
    rw [List.mem_append] at hmem
    rcases hmem with hm | hm
    · have := e3 _ hm; omega
    · simp only [List.mem_singleton] at hm
      rw [hm]; omega
  · rw [digitsVal_append, e2]
    conv_rhs => rw [list64_split e hlen, digitsVal_append]
    rw [hlt] at e5 ⊢
    linarith

/-- **recoding**: 64 digits in [−8, 8] with Σ e[i]·16^i = the scalar -/
theorem recode_spec (a : Bytes) (hlen : a.length = 32) (h31 : (a.getD 31 0).toNat ≤ 127) :
    let e := recode (nybbles a)
    e.length = 64 ∧ (∀ i, i < 64 → -8 ≤ e.getD i 0 ∧ e.getD i 0 ≤ 8) ∧ digitsVal e = (leNat a : Int) := by
  have h63 : (nybbles a).getD 63 0 ≤ 7 := by
    rw [show 63 = 2 * 31 + 1 from rfl, nybbles_odd]
    simp only [Int.ofNat_eq_natCast]
    omega
  obtain ⟨h1, h2, h3⟩ := recode_digits (nybbles a) (by rw [nybbles_length, hlen]) (nybbles_range a) h63
  exact ⟨h1, h2, by rw [h3, nybbles_val]⟩

/-- the same with the sum written out: Σ_{i<64} e[i]·16^i = leNat a -/
theorem recode_sum (a : Bytes) (hlen : a.length = 32) (h31 : (a.getD 31 0).toNat ≤ 127) :
    ∑ i ∈ Finset.range 64, (recode (nybbles a)).getD i 0 * 16 ^ i = (leNat a : Int) := by
  obtain ⟨h1, _, h3⟩ := recode_spec a hlen h31
  rw [← h3, digitsVal_eq_sumTo, h1, sumTo_eq_sum]

end Dos.Ge

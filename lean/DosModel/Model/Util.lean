/-
Shared, core-only helpers for the executable models and the line-protocol
drivers: bytes, hex, big-endian numbers, line splitting.
-/
namespace Dos

abbrev Bytes := List UInt8

def hexDigit (n : Nat) : Char :=
  if n < 10 then Char.ofNat (48 + n) else Char.ofNat (87 + n)

def hexOfByte (b : UInt8) : String :=
  String.ofList [hexDigit (b.toNat / 16), hexDigit (b.toNat % 16)]

/-- canonical hex, `-` for the empty string (as the Go harness prints it) -/
def toHex (bs : Bytes) : String :=
  if bs.isEmpty then "-" else String.join (bs.map hexOfByte)

def hexVal (c : Char) : Option Nat :=
  if '0' ≤ c ∧ c ≤ '9' then some (c.toNat - 48)
  else if 'a' ≤ c ∧ c ≤ 'f' then some (c.toNat - 87)
  else if 'A' ≤ c ∧ c ≤ 'F' then some (c.toNat - 55)
  else none

def ofHexChars : List Char → Option Bytes
  | [] => some []
  | [_] => none
  | a :: b :: rest => do
    let x ← hexVal a
    let y ← hexVal b
    let r ← ofHexChars rest
    pure (UInt8.ofNat (16 * x + y) :: r)

def ofHex (s : String) : Option Bytes :=
  if s == "-" then some [] else ofHexChars s.toList

/-- big-endian value of a byte string -/
def beNat (bs : Bytes) : Nat := bs.foldl (fun acc b => acc * 256 + b.toNat) 0

/-- exactly `k` big-endian bytes of `n` (low `8k` bits) -/
def natBE : Nat → Nat → Bytes
  | 0, _ => []
  | k + 1, n => UInt8.ofNat (n / 256 ^ k % 256) :: natBE k n

/-- minimal big-endian bytes (Go `big.Int.Bytes`): empty for 0 -/
def natBytesAux : Nat → Nat → Bytes → Bytes
  | 0, _, acc => acc
  | fuel + 1, n, acc => if n = 0 then acc else natBytesAux fuel (n / 256) (UInt8.ofNat (n % 256) :: acc)

def natBytes (n : Nat) : Bytes := natBytesAux (n + 1) n []

def words (s : String) : List String :=
  (s.splitOn " ").filter (fun w => w ≠ "")

def csvNat (s : String) : Option (List Nat) :=
  if s == "-" then some [] else (s.splitOn ",").mapM String.toNat?

/-- run a pure line→line function over stdin -/
partial def lineLoop (f : String → String) : IO Unit := do
  let stdin ← IO.getStdin
  let stdout ← IO.getStdout
  let rec go : IO Unit := do
    let line ← stdin.getLine
    if line.isEmpty then return ()
    let l := (line.trimAsciiEnd).toString
    if l.isEmpty then go else
    stdout.putStrLn (f l)
    stdout.flush
    go
  go

end Dos

/-
C10 — the base-field prime P and the group order r of alt_bn128 (regenerated literals `Gen.Bn256.P`,
`Gen.Bn256.Order`) ARE prime: Pratt certificates (Lucas' converse of Fermat, Mathlib's
`lucas_primality`) with the complete factorisations of n − 1 down to primes below 10^7, which
`norm_num` proves by trial division. The modular powers are evaluated by the kernel with a
binary-exponentiation function proved equal to `a ^ n % m`.
The witnesses and factorisations were found with sympy; nothing about them is trusted: every
product, power and divisibility is re-checked here.
-/
import Mathlib.NumberTheory.LucasPrimality
import Mathlib.Tactic.NormNum.Prime
import DosModel.Gen.Bn256Consts

namespace Dos.Prime

/-- binary exponentiation modulo m with explicit fuel -/
def powModAux (m : Nat) : Nat → Nat → Nat → Nat → Nat
  | 0, _, _, acc => acc
  | f + 1, b, e, acc =>
    if e = 0 then acc else powModAux m f (b * b % m) (e / 2) (if e % 2 = 1 then acc * b % m else acc)

def powMod (a n m : Nat) : Nat := powModAux m (n.log2 + 1) (a % m) n (1 % m)

theorem powModAux_spec (m : Nat) : ∀ (f b e acc : Nat), e < 2 ^ f →
    powModAux m f b e acc % m = acc * b ^ e % m := by
  intro f
  induction f with
  | zero =>
    intro b e acc h
    have : e = 0 := by simpa using h
    subst this; simp [powModAux]
  | succ f ih =>
    intro b e acc h
    unfold powModAux
    by_cases he : e = 0
    · subst he; simp
    · rw [if_neg he]
      have h2 : e / 2 < 2 ^ f := by
        rw [Nat.div_lt_iff_lt_mul (by decide)]; rw [pow_succ] at h; exact h
      rw [ih _ _ _ h2]
      show Nat.ModEq m _ _
      have hbb : (b * b % m) ^ (e / 2) ≡ (b * b) ^ (e / 2) [MOD m] := (Nat.mod_modEq _ _).pow _
      have hsq : (b * b) ^ (e / 2) = b ^ (2 * (e / 2)) := by rw [← pow_two, ← pow_mul]
      by_cases hodd : e % 2 = 1
      · rw [if_pos hodd]
        have he2 : b ^ e = b ^ (2 * (e / 2)) * b := by
          conv_lhs => rw [← Nat.div_add_mod e 2, hodd, pow_add, pow_one]
        rw [he2, ← hsq]
        have : acc * b % m * (b * b % m) ^ (e / 2) ≡ acc * b * (b * b) ^ (e / 2) [MOD m] :=
          (Nat.mod_modEq _ _).mul hbb
        exact this.trans (by rw [Nat.mul_assoc, Nat.mul_comm b])
      · rw [if_neg hodd]
        have h0 : e % 2 = 0 := by omega
        have he2 : b ^ e = b ^ (2 * (e / 2)) := by
          conv_lhs => rw [← Nat.div_add_mod e 2, h0, Nat.add_zero]
        rw [he2, ← hsq]
        exact (Nat.ModEq.refl acc).mul hbb

theorem powMod_spec (a n m : Nat) : powMod a n m % m = a ^ n % m := by
  unfold powMod
  rw [powModAux_spec m _ _ _ _ Nat.lt_log2_self, Nat.mul_mod, Nat.mod_mod, Nat.pow_mod, Nat.mod_mod,
    ← Nat.pow_mod, ← Nat.mul_mod, Nat.one_mul]

theorem zmod_pow_eq_one_iff (p a n : Nat) (hp : 1 < p) :
    ((a : ZMod p) ^ n = 1) ↔ powMod a n p % p = 1 := by
  rw [powMod_spec, ← Nat.cast_pow, ← Nat.cast_one, ZMod.natCast_eq_natCast_iff']
  rw [Nat.mod_eq_of_lt hp]

/-- Pratt step: `fs` lists the prime factors of p − 1 (any multiplicities) -/
theorem pratt (p a : Nat) (fs : List Nat) (hp : 1 < p) (hprod : fs.prod = p - 1)
    (hprime : ∀ q ∈ fs, q.Prime) (hpow : powMod a (p - 1) p % p = 1)
    (hne : ∀ q ∈ fs, powMod a ((p - 1) / q) p % p ≠ 1) : p.Prime := by
  apply lucas_primality p (a : ZMod p) ((zmod_pow_eq_one_iff p a _ hp).mpr hpow)
  intro q hq hdvd
  rw [← hprod] at hdvd
  obtain ⟨x, hx, hqx⟩ := (Prime.dvd_prod_iff hq.prime).mp hdvd
  have : q = x := (Nat.prime_dvd_prime_iff_eq hq (hprime x hx)).mp hqx
  subst this
  rw [Ne, zmod_pow_eq_one_iff p a _ hp]
  exact hne q hx

end Dos.Prime

namespace Dos.Prime

/-! certificates (generated with sympy by the script in design/C10.md; every step re-checked by Lean) -/

theorem prime_2 : Nat.Prime 2 := by norm_num
theorem prime_3 : Nat.Prime 3 := by norm_num
theorem prime_13 : Nat.Prime 13 := by norm_num
theorem prime_29 : Nat.Prime 29 := by norm_num
theorem prime_67 : Nat.Prime 67 := by norm_num
theorem prime_229 : Nat.Prime 229 := by norm_num
theorem prime_311 : Nat.Prime 311 := by norm_num
theorem prime_983 : Nat.Prime 983 := by norm_num
theorem prime_11003 : Nat.Prime 11003 := by norm_num
theorem prime_11 : Nat.Prime 11 := by norm_num
theorem prime_3691 : Nat.Prime 3691 := by norm_num
theorem prime_4999 : Nat.Prime 4999 := by norm_num
set_option maxRecDepth 100000 in
theorem prime_405928799 : Nat.Prime 405928799 :=
  pratt 405928799 22 [2, 11, 3691, 4999] (by norm_num) (by norm_num)
    (by simp only [List.forall_mem_cons, List.not_mem_nil, IsEmpty.forall_iff, implies_true, and_true]
        exact ⟨prime_2, prime_11, prime_3691, prime_4999⟩)
    (by decide +kernel) (by decide +kernel)
theorem prime_5 : Nat.Prime 5 := by norm_num
theorem prime_7 : Nat.Prime 7 := by norm_num
theorem prime_327599 : Nat.Prime 327599 := by norm_num
set_option maxRecDepth 100000 in
theorem prime_11465965001 : Nat.Prime 11465965001 :=
  pratt 11465965001 3 [2, 2, 2, 5, 5, 5, 5, 7, 327599] (by norm_num) (by norm_num)
    (by simp only [List.forall_mem_cons, List.not_mem_nil, IsEmpty.forall_iff, implies_true, and_true]
        exact ⟨prime_2, prime_2, prime_2, prime_5, prime_5, prime_5, prime_5, prime_7, prime_327599⟩)
    (by decide +kernel) (by decide +kernel)
theorem prime_1853641 : Nat.Prime 1853641 := by norm_num
theorem prime_4562087 : Nat.Prime 4562087 := by norm_num
theorem prime_73 : Nat.Prime 73 := by norm_num
theorem prime_89 : Nat.Prime 89 := by norm_num
theorem prime_13327 : Nat.Prime 13327 := by norm_num
set_option maxRecDepth 100000 in
theorem prime_173171039 : Nat.Prime 173171039 :=
  pratt 173171039 13 [2, 73, 89, 13327] (by norm_num) (by norm_num)
    (by simp only [List.forall_mem_cons, List.not_mem_nil, IsEmpty.forall_iff, implies_true, and_true]
        exact ⟨prime_2, prime_73, prime_89, prime_13327⟩)
    (by decide +kernel) (by decide +kernel)
theorem prime_19 : Nat.Prime 19 := by norm_num
theorem prime_41 : Nat.Prime 41 := by norm_num
theorem prime_911 : Nat.Prime 911 := by norm_num
theorem prime_3557 : Nat.Prime 3557 := by norm_num
set_option maxRecDepth 100000 in
theorem prime_1263766531 : Nat.Prime 1263766531 :=
  pratt 1263766531 10 [2, 3, 5, 13, 911, 3557] (by norm_num) (by norm_num)
    (by simp only [List.forall_mem_cons, List.not_mem_nil, IsEmpty.forall_iff, implies_true, and_true]
        exact ⟨prime_2, prime_3, prime_5, prime_13, prime_911, prime_3557⟩)
    (by decide +kernel) (by decide +kernel)
set_option maxRecDepth 100000 in
theorem prime_35385462869 : Nat.Prime 35385462869 :=
  pratt 35385462869 2 [2, 2, 7, 1263766531] (by norm_num) (by norm_num)
    (by simp only [List.forall_mem_cons, List.not_mem_nil, IsEmpty.forall_iff, implies_true, and_true]
        exact ⟨prime_2, prime_2, prime_7, prime_1263766531⟩)
    (by decide +kernel) (by decide +kernel)
set_option maxRecDepth 100000 in
theorem prime_2480874801745591 : Nat.Prime 2480874801745591 :=
  pratt 2480874801745591 6 [2, 3, 3, 5, 19, 41, 35385462869] (by norm_num) (by norm_num)
    (by simp only [List.forall_mem_cons, List.not_mem_nil, IsEmpty.forall_iff, implies_true, and_true]
        exact ⟨prime_2, prime_3, prime_3, prime_5, prime_19, prime_41, prime_35385462869⟩)
    (by decide +kernel) (by decide +kernel)
set_option maxRecDepth 100000 in
theorem prime_13427688667394608761327070753331941386769 : Nat.Prime 13427688667394608761327070753331941386769 :=
  pratt 13427688667394608761327070753331941386769 17 [2, 2, 2, 2, 3, 7, 11, 1853641, 4562087, 173171039, 2480874801745591] (by norm_num) (by norm_num)
    (by simp only [List.forall_mem_cons, List.not_mem_nil, IsEmpty.forall_iff, implies_true, and_true]
        exact ⟨prime_2, prime_2, prime_2, prime_2, prime_3, prime_7, prime_11, prime_1853641, prime_4562087, prime_173171039, prime_2480874801745591⟩)
    (by decide +kernel) (by decide +kernel)
set_option maxRecDepth 100000 in
theorem prime_21888242871839275222246405745257275088696311157297823662689037894645226208583 : Nat.Prime 21888242871839275222246405745257275088696311157297823662689037894645226208583 :=
  pratt 21888242871839275222246405745257275088696311157297823662689037894645226208583 3 [2, 3, 3, 13, 29, 67, 229, 311, 983, 11003, 405928799, 11465965001, 13427688667394608761327070753331941386769] (by norm_num) (by norm_num)
    (by simp only [List.forall_mem_cons, List.not_mem_nil, IsEmpty.forall_iff, implies_true, and_true]
        exact ⟨prime_2, prime_3, prime_3, prime_13, prime_29, prime_67, prime_229, prime_311, prime_983, prime_11003, prime_405928799, prime_11465965001, prime_13427688667394608761327070753331941386769⟩)
    (by decide +kernel) (by decide +kernel)
theorem prime_237073 : Nat.Prime 237073 := by norm_num
theorem prime_107 : Nat.Prime 107 := by norm_num
theorem prime_661 : Nat.Prime 661 := by norm_num
theorem prime_93001 : Nat.Prime 93001 := by norm_num
set_option maxRecDepth 100000 in
theorem prime_12048837557 : Nat.Prime 12048837557 :=
  pratt 12048837557 2 [2, 2, 7, 7, 661, 93001] (by norm_num) (by norm_num)
    (by simp only [List.forall_mem_cons, List.not_mem_nil, IsEmpty.forall_iff, implies_true, and_true]
        exact ⟨prime_2, prime_2, prime_7, prime_7, prime_661, prime_93001⟩)
    (by decide +kernel) (by decide +kernel)
set_option maxRecDepth 100000 in
theorem prime_5156902474397 : Nat.Prime 5156902474397 :=
  pratt 5156902474397 2 [2, 2, 107, 12048837557] (by norm_num) (by norm_num)
    (by simp only [List.forall_mem_cons, List.not_mem_nil, IsEmpty.forall_iff, implies_true, and_true]
        exact ⟨prime_2, prime_2, prime_107, prime_12048837557⟩)
    (by decide +kernel) (by decide +kernel)
set_option maxRecDepth 100000 in
theorem prime_1670836401704629 : Nat.Prime 1670836401704629 :=
  pratt 1670836401704629 2 [2, 2, 3, 3, 3, 3, 5156902474397] (by norm_num) (by norm_num)
    (by simp only [List.forall_mem_cons, List.not_mem_nil, IsEmpty.forall_iff, implies_true, and_true]
        exact ⟨prime_2, prime_2, prime_3, prime_3, prime_3, prime_3, prime_5156902474397⟩)
    (by decide +kernel) (by decide +kernel)
theorem prime_823 : Nat.Prime 823 := by norm_num
theorem prime_1593227 : Nat.Prime 1593227 := by norm_num
theorem prime_83 : Nat.Prime 83 := by norm_num
theorem prime_379 : Nat.Prime 379 := by norm_num
theorem prime_1637 : Nat.Prime 1637 := by norm_num
theorem prime_853 : Nat.Prime 853 := by norm_num
set_option maxRecDepth 100000 in
theorem prime_639533339 : Nat.Prime 639533339 :=
  pratt 639533339 2 [2, 229, 853, 1637] (by norm_num) (by norm_num)
    (by simp only [List.forall_mem_cons, List.not_mem_nil, IsEmpty.forall_iff, implies_true, and_true]
        exact ⟨prime_2, prime_229, prime_853, prime_1637⟩)
    (by decide +kernel) (by decide +kernel)
set_option maxRecDepth 100000 in
theorem prime_65865678001877903 : Nat.Prime 65865678001877903 :=
  pratt 65865678001877903 5 [2, 83, 379, 1637, 639533339] (by norm_num) (by norm_num)
    (by simp only [List.forall_mem_cons, List.not_mem_nil, IsEmpty.forall_iff, implies_true, and_true]
        exact ⟨prime_2, prime_83, prime_379, prime_1637, prime_639533339⟩)
    (by decide +kernel) (by decide +kernel)
set_option maxRecDepth 100000 in
theorem prime_13818364434197438864469338081 : Nat.Prime 13818364434197438864469338081 :=
  pratt 13818364434197438864469338081 3 [2, 2, 2, 2, 2, 5, 823, 1593227, 65865678001877903] (by norm_num) (by norm_num)
    (by simp only [List.forall_mem_cons, List.not_mem_nil, IsEmpty.forall_iff, implies_true, and_true]
        exact ⟨prime_2, prime_2, prime_2, prime_2, prime_2, prime_5, prime_823, prime_1593227, prime_65865678001877903⟩)
    (by decide +kernel) (by decide +kernel)
set_option maxRecDepth 100000 in
theorem prime_21888242871839275222246405745257275088548364400416034343698204186575808495617 : Nat.Prime 21888242871839275222246405745257275088548364400416034343698204186575808495617 :=
  pratt 21888242871839275222246405745257275088548364400416034343698204186575808495617 5 [2, 2, 2, 2, 2, 2, 2, 2, 2, 2, 2, 2, 2, 2, 2, 2, 2, 2, 2, 2, 2, 2, 2, 2, 2, 2, 2, 2, 3, 3, 13, 29, 983, 11003, 237073, 405928799, 1670836401704629, 13818364434197438864469338081] (by norm_num) (by norm_num)
    (by simp only [List.forall_mem_cons, List.not_mem_nil, IsEmpty.forall_iff, implies_true, and_true]
        exact ⟨prime_2, prime_2, prime_2, prime_2, prime_2, prime_2, prime_2, prime_2, prime_2, prime_2, prime_2, prime_2, prime_2, prime_2, prime_2, prime_2, prime_2, prime_2, prime_2, prime_2, prime_2, prime_2, prime_2, prime_2, prime_2, prime_2, prime_2, prime_2, prime_3, prime_3, prime_13, prime_29, prime_983, prime_11003, prime_237073, prime_405928799, prime_1670836401704629, prime_13818364434197438864469338081⟩)
    (by decide +kernel) (by decide +kernel)

/-- the base-field modulus of bn256 is prime -/
theorem P_prime : Nat.Prime Dos.Gen.Bn256.P := prime_21888242871839275222246405745257275088696311157297823662689037894645226208583
/-- the group order of bn256 is prime -/
theorem Order_prime : Nat.Prime Dos.Gen.Bn256.Order := prime_21888242871839275222246405745257275088548364400416034343698204186575808495617

end Dos.Prime

import DosModel.Proofs.Framing

/-!
`readNE` / `readFrameE` (a transport that returns its last bytes together with the error) versus
`readN` / `readFrame`: the E-transport only turns successes into failures, and it changes nothing as
long as more bytes follow what is being read.
-/
namespace Dos.Framing
open Dos

/-- whatever the E-transport read succeeds with, the plain transport succeeds with too -/
theorem readNE_some_imp : ∀ (cs : List Bytes) (n : Nat) (x : Bytes × List Bytes),
    readNE n cs = some x → readN n cs = some x := by
  intro cs
  induction cs with
  | nil =>
    intro n x h
    cases n with
    | zero => simpa [readNE, readN] using h
    | succ n => simp [readNE] at h
  | cons ch cs ih =>
    intro n x h
    cases n with
    | zero => simpa [readNE, readN] using h
    | succ n =>
      by_cases h0 : ch.length = 0
      · simp only [readNE, h0, if_true] at h
        simp only [readN, h0, if_true]
        exact ih _ _ h
      · by_cases hle : ch.length ≤ n + 1
        · by_cases he : cs.flatten.length = 0
          · simp [readNE, h0, hle, he] at h
          · simp only [readNE, h0, hle, he, if_true, if_false] at h
            simp only [readN, h0, hle, if_true, if_false]
            cases hr : readNE (n + 1 - ch.length) cs with
            | none => simp [hr] at h
            | some y =>
              rw [hr] at h
              rw [ih _ _ hr]
              exact h
        · simp only [readNE, h0, hle, if_false] at h
          simp only [readN, h0, hle, if_false]
          exact h

/-- as long as more bytes follow the `n` requested ones, both transports behave alike -/
theorem readNE_eq_of_lt : ∀ (cs : List Bytes) (n : Nat), n < cs.flatten.length →
    readNE n cs = readN n cs := by
  intro cs
  induction cs with
  | nil => intro n h; simp at h
  | cons ch cs ih =>
    intro n h
    cases n with
    | zero => simp [readNE, readN]
    | succ n =>
      simp only [List.flatten_cons, List.length_append] at h
      by_cases h0 : ch.length = 0
      · simp only [readNE, readN, h0, if_true]
        exact ih _ (by omega)
      · by_cases hle : ch.length ≤ n + 1
        · have he : ¬ cs.flatten.length = 0 := by omega
          simp only [readNE, readN, h0, hle, he, if_true, if_false]
          rw [ih (n + 1 - ch.length) (by omega)]
        · simp only [readNE, readN, h0, hle, if_false]

/-- the E-transport never succeeds in reading ALL remaining bytes: the last `Read` carries the error -/
theorem readNE_none_of_le : ∀ (cs : List Bytes) (n : Nat), 0 < n → cs.flatten.length ≤ n →
    readNE n cs = none := by
  intro cs
  induction cs with
  | nil => intro n hn _; cases n with
    | zero => omega
    | succ n => simp [readNE]
  | cons ch cs ih =>
    intro n hn h
    cases n with
    | zero => omega
    | succ n =>
      simp only [List.flatten_cons, List.length_append] at h
      by_cases h0 : ch.length = 0
      · simp only [readNE, h0, if_true]
        exact ih _ (by omega) (by omega)
      · have hle : ch.length ≤ n + 1 := by omega
        by_cases he : cs.flatten.length = 0
        · simp [readNE, h0, hle, he]
        · simp only [readNE, h0, hle, he, if_true, if_false]
          rw [ih (n + 1 - ch.length) (by omega) (by omega)]

/-- an accepted frame on the E-transport is the frame the plain transport returns, with the same rest -/
theorem readFrameE_ok_imp (L : Nat) (cs : List Bytes) (b : Bytes)
    (h : (readFrameE L cs).out = .ok b) : readFrame L cs = readFrameE L cs := by
  unfold readFrameE at h ⊢
  unfold readFrame
  cases h1 : readNE headerSize cs with
  | none => simp [h1] at h
  | some x =>
    obtain ⟨hd, cs1⟩ := x
    rw [readNE_some_imp _ _ _ h1]
    simp only [h1] at h ⊢
    by_cases hc : beNat hd > L ∨ beNat hd = 0
    · simp [hc] at h
    · simp only [hc, if_false] at h ⊢
      cases h2 : readNE (beNat hd) cs1 with
      | none => simp [h2] at h
      | some y =>
        rw [readNE_some_imp _ _ _ h2]

/-- when more bytes follow the frame (`4 + announced size < stream length`) the E-transport reads
the frame exactly like the plain transport -/
theorem readFrameE_eq_of_more (L : Nat) (cs : List Bytes)
    (h : 4 + beNat (cs.flatten.take 4) < cs.flatten.length) : readFrameE L cs = readFrame L cs := by
  have h4 : 4 ≤ cs.flatten.length := by omega
  obtain ⟨cs1, h1, h1r⟩ := readN_spec cs 4 h4
  have e1 : readNE headerSize cs = some (cs.flatten.take 4, cs1) := by
    rw [show headerSize = 4 from rfl, readNE_eq_of_lt cs 4 (by omega)]; exact h1
  unfold readFrameE readFrame
  rw [e1, show headerSize = 4 from rfl, h1]
  simp only
  by_cases hc : beNat (cs.flatten.take 4) > L ∨ beNat (cs.flatten.take 4) = 0
  · simp [hc]
  · simp only [hc, if_false]
    have hl : beNat (cs.flatten.take 4) < cs1.flatten.length := by
      rw [h1r, List.length_drop]; omega
    rw [readNE_eq_of_lt cs1 _ hl]

/-- when the stream ends exactly with the frame, the `Read` that brings its last byte brings the
error too, and `readFrom` fails (the code as it is: bytes of a failing `Read` are dropped) -/
theorem readFrameE_last_frame (L : Nat) (cs : List Bytes)
    (h4 : 4 < cs.flatten.length) (hs : cs.flatten.length ≤ 4 + beNat (cs.flatten.take 4)) :
    ∃ e, (readFrameE L cs).out = .error e := by
  obtain ⟨cs1, h1, h1r⟩ := readN_spec cs 4 (by omega)
  have e1 : readNE headerSize cs = some (cs.flatten.take 4, cs1) := by
    rw [show headerSize = 4 from rfl, readNE_eq_of_lt cs 4 h4]; exact h1
  unfold readFrameE
  rw [e1]
  simp only
  by_cases hc : beNat (cs.flatten.take 4) > L ∨ beNat (cs.flatten.take 4) = 0
  · exact ⟨.size, by simp [hc]⟩
  · simp only [hc, if_false]
    have hl : cs1.flatten.length ≤ beNat (cs.flatten.take 4) := by
      rw [h1r, List.length_drop]; omega
    rw [readNE_none_of_le cs1 _ (by omega) hl]
    exact ⟨.body, rfl⟩

end Dos.Framing

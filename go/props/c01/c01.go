// Package c01: one on-chain request answered by a group of real DosNodes.
//
// n members; the honest ones are real dosnode.DosNode values (hook constructor)
// wired to the in-memory P2P double and the recording chain double, each with
// its real queryLoop and a real handleQuery run; Byzantine members are played by
// the harness, which knows every key share. The harness decides the order in
// which vss.Signature messages reach the submitter's subscription channel.
//
// Case line:
//
//	q <kind> <n> <seed> <ids> <byz> <last> <rid> <useed> <doc> <sel> <parsed> <alts> <sched>
//
//	kind   sys | user | url          seed  the group's key material is derived from it
//	ids    hex;hex;…  the member list (20-byte ids = chain addresses), in share-index order
//	parsed what dataParse gave when the case was generated (hex | err; "-" unless url): the model's input;
//	       an optional suffix !i,j,… names the members whose FETCH fails although the document exists (the
//	       requester controls the server: it refuses the connection of those members) - they cannot compute the content
//	byz    csv of Byzantine member indices, "-" none
//	last, rid, useed   decimal event fields;  doc, sel  hex (url only, else "-")
//	alts   hex;hex;…  further contents (content 0 is the one the request defines), "-" none
//	sched  comma separated:
//	  S                start the submitter's own pipeline (own share, then registration)
//	  h<j>             the message honest member j really sent reaches the submitter
//	  m<r>.<c>.<sig>   a Byzantine message reaches the submitter: r=1 this RequestId, 0 another;
//	                   c = content index | n (nil Content); sig = V<i>.<c> valid share of member i on content c |
//	                   T<i>.<c> the same share with one trailing byte | E empty | S1 one byte | N nil |
//	                   J<i> index i + 64 junk bytes | G<i> share of a foreign group's member i on the message's content |
//	                   R<v>.<s> member s's valid share on content 0 relabelled with member v's index
//	                   optional suffix ~<t> : Index field t instead of the request's type
//	  x<k>:<item>      the same, delivered to honest member k instead of the submitter
//
// Output: sub=<idx>[b]  then for every honest member  <i>=- | <i>=<rand|data>/<rid>/<type>/<result>/<sigclass>
package c01

import (
	"bytes"
	"crypto/sha256"
	"encoding/binary"
	"fmt"
	"math/big"
	"net/http"
	"net/http/httptest"
	"os"
	osexec "os/exec"
	"strconv"
	"strings"
	"sync"
	"sync/atomic"
	"time"

	"github.com/DOSNetwork/core/dosnode"
	"github.com/DOSNetwork/core/log"
	"github.com/DOSNetwork/core/share"
	vss "github.com/DOSNetwork/core/share/vss/pedersen"
	"github.com/DOSNetwork/core/sign/bls"
	"github.com/DOSNetwork/core/sign/tbls"
	"github.com/DOSNetwork/core/suites"
	"github.com/dedis/kyber"
	"github.com/ethereum/go-ethereum/common"
	"github.com/ethereum/go-ethereum/core/vm"
	"github.com/ethereum/go-ethereum/crypto"
	gbn "github.com/ethereum/go-ethereum/crypto/bn256/google"
	"github.com/golang/protobuf/proto"

	"verifharness/internal/doubles"
	"verifharness/internal/h"
)

func init() {
	log.Init([]byte{0xc0, 0x1})
	h.Register(&h.Prop{
		ID: "C01",
		Rule: "cases: kinds sys/user/url; n 3..7; every submitter index; lastRand 0, <2^64, >2^64, leading zero bytes, 2^256-1; arrival permutations (exhaustive for n=3, sampled beyond) with the submitter's own start at every position; " +
			"Byzantine members (<= n-t) silent / duplicate / re-encoded / invalid / short / nil / foreign request / foreign group / other content / other type / cross-request replay; junk sent to non-submitters; Byzantine submitter; " +
			"non-trivial = at least one Byzantine message or a delivery order different from member order; distinct = distinct case line",
		Gen:  gen,
		Exec: exec,
	})
}

var (
	suite  = suites.MustFind("bn256")
	two256 = new(big.Int).Lsh(big.NewInt(1), 256)
	two64  = new(big.Int).Lsh(big.NewInt(1), 64)
	fieldP = h.BigDec("21888242871839275222246405745257275088696311157297823662689037894645226208583")
)

// ---------------------------------------------------------------- group key material

type group struct {
	n, t   int
	ids    [][]byte
	pub    *share.PubPoly
	shares []*share.PriShare
	secret kyber.Scalar
}

var (
	grpMu    sync.Mutex
	grpCache = map[string]*group{}
)

func scalarFrom(tag string, seed uint64, i int) kyber.Scalar {
	var b [16]byte
	binary.BigEndian.PutUint64(b[:8], seed)
	binary.BigEndian.PutUint64(b[8:], uint64(i))
	d := sha256.Sum256(append([]byte(tag), b[:]...))
	return suite.G2().Scalar().SetBytes(d[:])
}

func mkGroup(n int, seed uint64, tag string) *group {
	key := fmt.Sprintf("%s/%d/%d", tag, n, seed)
	grpMu.Lock()
	defer grpMu.Unlock()
	if g, ok := grpCache[key]; ok {
		return g
	}
	t := n/2 + 1
	coeffs := make([]kyber.Scalar, t)
	for i := range coeffs {
		coeffs[i] = scalarFrom(tag+"coeff", seed, i)
	}
	pri := share.CoefficientsToPriPoly(suite.G2(), coeffs)
	g := &group{n: n, t: t, pub: pri.Commit(suite.G2().Point().Base()), shares: pri.Shares(n), secret: pri.Secret()}
	for i := 0; i < n; i++ {
		d := sha256.Sum256([]byte(fmt.Sprintf("%sid/%d/%d", tag, seed, i)))
		g.ids = append(g.ids, d[:20])
	}
	grpCache[key] = g
	return g
}

// ---------------------------------------------------------------- case

type item struct {
	to      int // -1 = submitter
	kind    byte
	j       int    // h<j>
	ridOK   bool   // m: this request's id
	content int    // m: content index, -1 nil
	sig     string // m: sig token
	typ     int    // m: Index field, -1 = the request's
}

type kase struct {
	kind             string
	n                int
	seed             uint64
	byz              map[int]bool
	last, rid, seed2 *big.Int
	doc              []byte
	sel              string
	parsed           string
	fails            map[int]bool // members whose fetch fails
	ids              [][]byte
	alts             [][]byte
	sched            []item
}

func parseItem(s string) item {
	it := item{to: -1, typ: -1}
	if s[0] == 'x' {
		p := strings.SplitN(s[1:], ":", 2)
		it.to = h.Atoi(p[0])
		s = p[1]
	}
	switch s[0] {
	case 'S':
		it.kind = 'S'
	case 'h':
		it.kind = 'h'
		it.j = h.Atoi(s[1:])
	case 'm':
		it.kind = 'm'
		body := s[1:]
		if k := strings.Index(body, "~"); k >= 0 {
			it.typ = h.Atoi(body[k+1:])
			body = body[:k]
		}
		p := strings.SplitN(body, ".", 3)
		it.ridOK = p[0] == "1"
		if p[1] == "n" {
			it.content = -1
		} else {
			it.content = h.Atoi(p[1])
		}
		it.sig = p[2]
	default:
		panic("bad schedule item " + s)
	}
	return it
}

func parse(line string) *kase {
	w := strings.Fields(line)
	if len(w) != 14 || w[0] != "q" {
		panic("bad case line")
	}
	k := &kase{kind: w[1], n: h.Atoi(w[2]), byz: map[int]bool{}}
	k.seed, _ = strconv.ParseUint(w[3], 10, 64)
	for _, s := range strings.Split(w[4], ";") {
		k.ids = append(k.ids, h.UnHex(s))
	}
	if len(k.ids) != k.n {
		panic("bad case line: ids")
	}
	if w[5] != "-" {
		for _, s := range strings.Split(w[5], ",") {
			k.byz[h.Atoi(s)] = true
		}
	}
	k.last, k.rid, k.seed2 = h.BigDec(w[6]), h.BigDec(w[7]), h.BigDec(w[8])
	k.doc, k.sel, k.parsed = h.UnHex(w[9]), string(h.UnHex(w[10])), w[11]
	k.fails = map[int]bool{}
	if i := strings.Index(k.parsed, "!"); i >= 0 {
		for _, s := range strings.Split(k.parsed[i+1:], ",") {
			k.fails[h.Atoi(s)] = true
		}
		k.parsed = k.parsed[:i]
	}
	if w[12] != "-" {
		for _, s := range strings.Split(w[12], ";") {
			k.alts = append(k.alts, h.UnHex(s))
		}
	}
	if w[13] != "-" {
		for _, s := range strings.Split(w[13], ",") {
			k.sched = append(k.sched, parseItem(s))
		}
	}
	return k
}

func ptype(kind string) uint32 {
	switch kind {
	case "sys":
		return 0
	case "user":
		return 1
	}
	return 2
}

// pad32 is the 32-byte big-endian encoding of v mod 2^256 (math/big only)
func pad32(v *big.Int) []byte {
	b := new(big.Int).Mod(v, two256).Bytes()
	return append(make([]byte, 32-len(b)), b...)
}

var (
	srvOnce sync.Once
	srv     *httptest.Server
	docs    sync.Map
	docSeq  int64
	docMu   sync.Mutex
)

func docURL(doc []byte) string {
	srvOnce.Do(func() {
		srv = httptest.NewServer(http.HandlerFunc(func(w http.ResponseWriter, r *http.Request) {
			if v, ok := docs.Load(r.URL.Path); ok {
				w.Write(v.([]byte))
				return
			}
			w.WriteHeader(404)
		}))
	})
	docMu.Lock()
	docSeq++
	key := "/d" + strconv.FormatInt(docSeq, 10)
	docMu.Unlock()
	docs.Store(key, doc)
	return srv.URL + key
}

// content0 is what the request defines, computed without the stages (math/big; dataParse is external)
func (k *kase) content0(g *group, sub int) ([]byte, bool) {
	switch k.kind {
	case "sys":
		return append(pad32(k.last), g.ids[sub]...), true
	case "user":
		var c []byte
		for _, v := range []*big.Int{k.rid, k.last, k.seed2} {
			c = append(c, h.UnHex(evenHex(v))...)
		}
		return append(c, g.ids[sub]...), true
	}
	parsed, err := dosnode.VerifDataParse(append([]byte(nil), k.doc...), k.sel)
	if err != nil {
		return nil, false
	}
	return append(append([]byte(nil), parsed...), g.ids[sub]...), true
}

func evenHex(v *big.Int) string {
	if v.Sign() == 0 {
		return "-"
	}
	t := v.Text(16)
	if len(t)%2 == 1 {
		t = "0" + t
	}
	return t
}

func (k *kase) submitter() int {
	return int(new(big.Int).Mod(new(big.Int).Mod(k.last, two64), big.NewInt(int64(k.n))).Int64())
}

func (k *kase) ridBytes() []byte {
	if k.kind == "sys" { // onchainLoop passes LastRandomness as the request id of a system-random request
		return k.last.Bytes()
	}
	return k.rid.Bytes()
}

type world struct {
	sess     *session
	k        *kase
	g, other *group
	sub      int
	contents [][]byte
	nodes    []*node
}

type node struct {
	idx   int
	p     *doubles.P2P
	chain *doubles.Chain
	lg    *doubles.Logger
	d     *dosnode.DosNode
	done  chan struct{} // handleQuery returned
	// what the node had done before the current request of a history (hist lines: the same nodes serve
	// several consecutive requests)
	repBase, sentBase, evBase int
}

func (nd *node) reports() []doubles.Report { return nd.chain.Reports()[nd.repBase:] }
func (nd *node) sent() []doubles.Sent      { return nd.p.Sent()[nd.sentBase:] }

// session: the nodes of a history and the content 0 of its earlier requests
type session struct {
	nodes []*node
	c0s   [][]byte
}

func (w *world) sigBytes(tok string, msgContent int) []byte {
	switch {
	case tok == "N":
		return nil
	case tok == "E":
		return []byte{}
	case tok == "S1":
		return []byte{0x01}
	case tok[0] == 'J':
		i := h.Atoi(tok[1:])
		d1 := sha256.Sum256([]byte("junk1" + tok))
		d2 := sha256.Sum256([]byte("junk2" + tok))
		return append(append([]byte{byte(i >> 8), byte(i)}, d1[:]...), d2[:]...)
	case tok[0] == 'G':
		i := h.Atoi(tok[1:])
		if msgContent < 0 {
			msgContent = 0
		}
		s, err := tbls.Sign(suite, w.other.shares[i], w.contents[msgContent])
		if err != nil {
			panic(err)
		}
		return s
	case tok[0] == 'R':
		p := strings.Split(tok[1:], ".")
		v, src := h.Atoi(p[0]), h.Atoi(p[1])
		s, err := tbls.Sign(suite, w.g.shares[src], w.contents[0])
		if err != nil {
			panic(err)
		}
		s = append([]byte(nil), s...)
		s[0], s[1] = byte(v>>8), byte(v)
		return s
	case tok[0] == 'P':
		// the exact bytes that were member x's VALID share on the content of request r of this history
		p := strings.Split(tok[1:], ".")
		x, r := h.Atoi(p[0]), h.Atoi(p[1])
		if w.sess == nil || r >= len(w.sess.c0s) || w.sess.c0s[r] == nil {
			panic("bad replay token " + tok)
		}
		s, err := tbls.Sign(suite, w.g.shares[x], w.sess.c0s[r])
		if err != nil {
			panic(err)
		}
		return s
	case tok[0] == 'V' || tok[0] == 'T':
		p := strings.Split(tok[1:], ".")
		i, c := h.Atoi(p[0]), h.Atoi(p[1])
		s, err := tbls.Sign(suite, w.g.shares[i], w.contents[c])
		if err != nil {
			panic(err)
		}
		if tok[0] == 'T' {
			s = append(s, 0x00)
		}
		return s
	}
	panic("bad sig token " + tok)
}

func (w *world) message(it item) *vss.Signature {
	m := &vss.Signature{Index: ptype(w.k.kind), RequestId: w.k.ridBytes(), Nonce: []byte("byz")}
	if it.typ >= 0 {
		m.Index = uint32(it.typ)
	}
	if !it.ridOK {
		m.RequestId = append([]byte{0xee}, m.RequestId...)
	}
	if it.content >= 0 {
		m.Content = append([]byte(nil), w.contents[it.content]...)
		if m.Content == nil {
			m.Content = []byte{}
		}
	}
	m.Signature = w.sigBytes(it.sig, it.content)
	return m
}

const stageEvent = "recoverSign" // logged by recoverSign for every message it receives

// run executes the case on real nodes and returns the canonical line and the oracle verdict.
func run(k *kase) (impl, oracle, class string) { return runIn(k, nil) }

// runIn: sess == nil builds fresh nodes for this one request; otherwise the request is served by the
// nodes of the session (created by the first request), whose process-level and node-level state persists.
func runIn(k *kase, sess *session) (impl, oracle, class string) {
	g0 := mkGroup(k.n, k.seed, "grp")
	g := &group{n: g0.n, t: g0.t, ids: k.ids, pub: g0.pub, shares: g0.shares, secret: g0.secret}
	w := &world{sess: sess, k: k, g: g, other: mkGroup(k.n, k.seed, "foreign"), sub: k.submitter()}
	c0, c0ok := k.content0(g, w.sub)
	if sess != nil {
		defer func() { sess.c0s = append(sess.c0s, c0) }()
	}
	w.contents = append([][]byte{c0}, k.alts...)
	if k.kind == "url" { // the selector evaluation must give what it gave when the case was generated
		now := "err"
		if c0ok {
			now = h.Hex(c0[:len(c0)-len(g.ids[w.sub])])
		}
		if now != k.parsed {
			oracle = "nondeterministic: dataParse gives another result than when the case was generated"
		}
	}
	url, url404 := "", ""
	if k.kind == "url" {
		url = docURL(k.doc)
		// the server refuses these members (a 404 would not do: dataFetch hands the empty body on and an
		// empty selector then "succeeds" with the empty result)
		url404 = "http://127.0.0.1:1/refused"
	}
	// has(i): member i can compute the request's content
	has := func(i int) bool { return c0ok && !(k.kind == "url" && k.fails[i]) }
	var seed *big.Int
	if k.kind == "user" {
		seed = k.seed2
	}
	var mu sync.Mutex
	captured := map[int]*vss.Signature{}
	capturedTo := map[int][]byte{}
	if sess != nil && sess.nodes != nil {
		w.nodes = sess.nodes
		for _, nd := range w.nodes {
			if nd != nil {
				nd.done = make(chan struct{})
				nd.repBase, nd.sentBase, nd.evBase = len(nd.chain.Reports()), len(nd.p.Sent()), nd.lg.Count(stageEvent)
			}
		}
	} else {
		for i := 0; i < k.n; i++ {
			if k.byz[i] {
				w.nodes = append(w.nodes, nil)
				continue
			}
			nd := &node{idx: i, p: doubles.NewP2P(g.ids[i], 0), lg: doubles.NewLogger(), done: make(chan struct{})}
			nd.chain = &doubles.Chain{Addr: common.BytesToAddress(g.ids[i]), BlockTime: 1}
			nd.d = dosnode.VerifNewNode(g.ids[i], nd.p, nd.chain, nil, 21, nd.lg)
			go nd.d.VerifQueryLoop()
			w.nodes = append(w.nodes, nd)
		}
		if sess != nil {
			sess.nodes = w.nodes
		}
	}
	start := func(nd *node) {
		done := nd.done
		go func() {
			u := url
			if k.kind == "url" && k.fails[nd.idx] {
				u = url404
			}
			nd.d.VerifHandleQuery(g.ids, g.pub, g.shares[nd.idx], "group-1", k.rid0(), k.last, seed, u, k.sel, ptype(k.kind))
			close(done)
		}()
	}
	// honest non-submitters run their pipelines first: each sends one share to the submitter
	var senders []*node
	for _, nd := range w.nodes {
		if nd != nil && nd.idx != w.sub {
			senders = append(senders, nd)
			start(nd)
		}
	}
	for _, nd := range senders {
		select {
		case <-nd.done:
		case <-time.After(patience * 15 * time.Second):
			return "stuck non-submitter", "stuck-non-submitter: the pipeline of a member that is not the derived submitter did not return (it waits for shares as if it were the submitter)", "stuck"
		}
		sent := nd.sent()
		if len(sent) >= 1 {
			if s, ok := sent[0].Msg.(*vss.Signature); ok && s != nil {
				mu.Lock()
				captured[nd.idx] = s
				capturedTo[nd.idx] = sent[0].To
				mu.Unlock()
			}
		}
		// a member that is not the derived submitter makes exactly ONE Request: its share (nil when it has
		// nothing to sign), to nobody but the submitter
		if oracle == "" {
			switch {
			case len(sent) > 1:
				oracle = fmt.Sprintf("extra-share-messages: member %d (not the submitter) made %d requests", nd.idx, len(sent))
			case len(sent) == 0 && has(nd.idx):
				oracle = fmt.Sprintf("no-share-sent: member %d computed the content and sent nothing to the submitter", nd.idx)
			case len(sent) == 1 && has(nd.idx) && captured[nd.idx] == nil:
				oracle = fmt.Sprintf("no-share-sent: member %d computed the content and sent an empty message", nd.idx)
			case len(sent) == 1 && !has(nd.idx) && captured[nd.idx] != nil:
				oracle = fmt.Sprintf("signed-without-content: member %d could not compute the content and sent a share all the same", nd.idx)
			}
		}
	}
	var sn *node
	if !k.byz[w.sub] {
		sn = w.nodes[w.sub]
	}
	started := false
	toStage := 0 // messages that will reach the submitter's recovery stage besides its own
	deliver := func(nd *node, m *vss.Signature) bool {
		return nd.p.DeliverTimeout([]byte("peer"), m, patience*15*time.Second)
	}
	for _, it := range k.sched {
		target := sn
		if it.to >= 0 {
			target = w.nodes[it.to]
		}
		switch it.kind {
		case 'S':
			if sn != nil && !started {
				started = true
				start(sn)
			}
		case 'h':
			m := captured[it.j]
			if m == nil || target == nil {
				continue
			}
			if !deliver(target, proto.Clone(m).(*vss.Signature)) {
				return "stuck deliver", "stuck: the node's queryLoop did not take a peer message for 15 s", "stuck"
			}
			if it.to < 0 {
				toStage++
			}
		case 'm':
			if target == nil {
				continue
			}
			if !deliver(target, w.message(it)) {
				return "stuck deliver", "stuck: the node's queryLoop did not take a peer message for 15 s", "stuck"
			}
			if it.to < 0 && it.ridOK {
				toStage++
			}
		}
	}
	// wait until the submitter's stage has digested everything (or reported)
	if sn != nil && started {
		reported := func() bool { return len(sn.reports()) > 0 }
		returned := func() bool {
			select {
			case <-sn.done:
				return true
			default:
				return false
			}
		}
		sentinel := &vss.Signature{Index: ptype(k.kind), RequestId: k.ridBytes(), Content: []byte("sentinel")}
		if !reported() && has(w.sub) {
			go deliver(sn, sentinel)
		}
		if !has(w.sub) {
			// no own share: since /repo 7f58072 the pipeline finishes without registering or collecting
			select {
			case <-sn.done:
			case <-time.After(patience * 10 * time.Second):
				if !reported() {
					return "stuck no-content", "stuck-without-content: the submitter could not compute the content and its pipeline neither returned nor reported within 10 s (it waits for the peers' shares)", "stuck"
				}
			}
		} else if !sn.lg.WaitCount(stageEvent, sn.evBase+1+toStage+1, func() bool { return reported() || returned() }, patience*10*time.Second) && !reported() && !returned() {
			// own share + deliveries + sentinel; the sentinel is received only after the previous message was processed
			return "stuck stage", "stuck: the submitter's recovery stage neither reported nor consumed its inputs", "stuck"
		}
		if reported() {
			select { // the pipeline returns right after its single report
			case <-sn.done:
			case <-time.After(patience * 30 * time.Second):
				return "stuck after report", "stuck: handleQuery did not return after reporting", "stuck"
			}
		}
	}
	// observations
	var parts []string
	subTag := strconv.Itoa(w.sub)
	if k.byz[w.sub] {
		subTag += "b"
	}
	parts = append(parts, "sub="+subTag)
	total := 0
	for _, nd := range w.nodes {
		if nd == nil {
			continue
		}
		reps := nd.reports()
		total += len(reps)
		if len(reps) == 0 {
			parts = append(parts, fmt.Sprintf("%d=-", nd.idx))
		}
		for ri, r := range reps {
			cls := "?"
			for ci, c := range w.contents {
				if c == nil {
					continue
				}
				if gs, err := bls.Sign(suite, g.secret, c); err == nil && r.Sig != nil && bytes.Equal(gs, r.Sig.Signature) {
					cls = "g" + strconv.Itoa(ci)
					break
				}
			}
			if r.Sig == nil {
				parts = append(parts, fmt.Sprintf("%d=%s/nil", nd.idx, r.Kind))
				continue
			}
			parts = append(parts, fmt.Sprintf("%d=%s/%s/%d/%s/%s", nd.idx, r.Kind, h.Hex(r.Sig.RequestId), r.Sig.Index, h.Hex(r.Sig.Content), cls))
			// ---- direct oracle on every report
			if oracle == "" {
				if nd.idx != w.sub {
					oracle = fmt.Sprintf("non-submitter-reported: member %d reported, the derived submitter is %d", nd.idx, w.sub)
				} else if ri > 0 {
					oracle = fmt.Sprintf("second-report: member %d reported %d times", nd.idx, len(reps))
				} else if o := w.checkReport(nd, r); o != "" {
					oracle = o
				}
			}
		}
	}
	// every honest member signed the same content and sent it to the same, derived, submitter
	if oracle == "" && c0ok {
		for j, m := range captured {
			if !bytes.Equal(m.Content, c0) {
				oracle = fmt.Sprintf("content-differs: member %d signed a different message than the request defines", j)
			} else if !bytes.Equal(capturedTo[j], g.ids[w.sub]) {
				oracle = fmt.Sprintf("submitter-differs: member %d sent its share to someone else than member %d", j, w.sub)
			} else if tbls.Verify(suite, g.pub, c0, m.Signature) != nil {
				oracle = fmt.Sprintf("share-invalid: member %d sent an invalid share", j)
			}
		}
	}
	// liveness: the honest submitter got >= t valid shares of distinct honest members on content 0 (its own included)
	if oracle == "" && sn != nil && started && has(w.sub) {
		valid := map[int]bool{w.sub: true}
		for _, it := range k.sched {
			if it.to >= 0 {
				continue
			}
			if it.kind == 'h' && captured[it.j] != nil {
				valid[it.j] = true
			}
		}
		if len(valid) >= g.t && total == 0 {
			oracle = fmt.Sprintf("no-report%s: %d honest members' valid shares reached the honest submitter (threshold %d) and nothing was reported", w.poison(), len(valid), g.t)
		}
	}
	// liveness as the property states it, for EVERY selected submitter: a threshold of honest members that
	// can compute the content is there, the member the randomness selects is one of the faulty ones, and nobody
	// reports. Inherent in the protocol (the submitter is a function of the on-chain randomness only):
	// KNOWN_FINDINGS.txt known: sig=no-report-byzantine-submitter; Props/C01.lean liveness_full_fails.
	if oracle == "" && k.byz[w.sub] && total == 0 {
		able := 0
		for i := 0; i < k.n; i++ {
			if !k.byz[i] && has(i) {
				able++
			}
		}
		if able >= g.t {
			oracle = fmt.Sprintf("no-report-byzantine-submitter: %d honest members (threshold %d) computed and sent their shares, the selected submitter (member %d) is faulty and nothing is reported", able, g.t, w.sub)
		}
	}
	if sess == nil {
		for _, nd := range w.nodes {
			if nd != nil {
				nd.d.VerifCancel()
			}
		}
	}
	return strings.Join(parts, " "), oracle, w.classify()
}

func (k *kase) rid0() *big.Int {
	if k.kind == "sys" {
		return k.last
	}
	return k.rid
}

// poison names the Byzantine input that explains a missing report (for the finding signature)
func (w *world) poison() string {
	for _, it := range w.k.sched {
		if it.kind == 'm' && it.to < 0 && it.ridOK && it.content >= 0 {
			switch {
			case it.sig == "E" || it.sig == "S1":
				return "-after-unparsable-share"
			}
		}
	}
	for _, it := range w.k.sched {
		if it.kind == 'm' && it.to < 0 && it.ridOK {
			return "-after-byzantine-message-" + strings.TrimRight(it.sig, "0123456789.")
		}
	}
	return ""
}

func (w *world) classify() string {
	nb := 0
	kinds := map[string]bool{}
	for _, it := range w.k.sched {
		if it.kind == 'm' {
			nb++
			t := strings.TrimRight(it.sig, "0123456789.")
			if !it.ridOK {
				t = "foreignrid"
			} else if it.content > 0 {
				t += "+othercontent"
			}
			kinds[t] = true
		}
	}
	var ks []string
	for s := range kinds {
		ks = append(ks, s)
	}
	sortStrings(ks)
	role := "honest-submitter"
	if w.k.byz[w.sub] {
		role = "byzantine-submitter"
	}
	return fmt.Sprintf("%s n=%d %s byz=%d [%s]", w.k.kind, w.k.n, role, len(w.k.byz), strings.Join(ks, " "))
}

func sortStrings(a []string) {
	for i := 1; i < len(a); i++ {
		for j := i; j > 0 && a[j] < a[j-1]; j-- {
			a[j], a[j-1] = a[j-1], a[j]
		}
	}
}

// checkReport evaluates the proxy contract's verification equation for what node nd submitted:
// message = (sys: 32-byte lastRandomness | else: submitted result) || msg.sender, under the group key.
func (w *world) checkReport(nd *node, r doubles.Report) string {
	k := w.k
	s := r.Sig
	wantKind := "data"
	if k.kind == "sys" {
		wantKind = "rand"
	}
	if r.Kind != wantKind {
		return fmt.Sprintf("wrong-call: %s request reported through %s", k.kind, r.Kind)
	}
	var msg []byte
	if k.kind == "sys" {
		msg = append(pad32(k.last), nd.chain.Addr.Bytes()...)
		// UpdateRandomness only uses the signature; the value handed over is checked all the same
		if !bytes.Equal(s.RequestId, k.ridBytes()) {
			return "wrong-request-id: UpdateRandomness with the share message of another request id"
		}
		if s.Index != ptype(k.kind) {
			return fmt.Sprintf("wrong-traffic-type: UpdateRandomness with traffic type %d", s.Index)
		}
		if !bytes.Equal(s.Content, pad32(k.last)) {
			return "wrong-result: the value reported for system randomness is not the 32-byte last randomness"
		}
	} else {
		if !bytes.Equal(s.RequestId, k.ridBytes()) {
			return "wrong-request-id: DataReturn for another request id"
		}
		if s.Index != ptype(k.kind) {
			return fmt.Sprintf("wrong-traffic-type: DataReturn with traffic type %d for a %s request", s.Index, k.kind)
		}
		msg = append(append([]byte(nil), s.Content...), nd.chain.Addr.Bytes()...)
	}
	if len(s.Signature) != 64 {
		return fmt.Sprintf("invalid-report-siglen: reported signature has %d bytes", len(s.Signature))
	}
	evm := evmVerify(w.g, msg, s.Signature)
	lib := bls.Verify(suite, w.g.pub.Commit(), msg, s.Signature) == nil
	if evm != lib {
		return fmt.Sprintf("verify-mismatch: EVM precompile says %v, bls.Verify says %v", evm, lib)
	}
	if !evm {
		why := "the contract equation fails for (submitted result || msg.sender) under the group key"
		if c0 := w.contents[0]; c0 != nil && len(c0) >= 20 && k.kind != "sys" && !bytes.Equal(s.Content, c0[:len(c0)-20]) {
			why += "; the submitted result is not the request's result"
		}
		return "invalid-report: " + why
	}
	return ""
}

// evmVerify: e(-sig, G2) * e(keccak(msg)*G1, pk) == 1 with go-ethereum's precompiles 0x07 / 0x08 and
// google's bn256 for the public key (pk = secret*G2 computed from the dealt secret).
func evmVerify(g *group, msg, sig []byte) bool {
	pre := vm.PrecompiledContractsIstanbul
	mul := pre[common.BytesToAddress([]byte{7})]
	pair := pre[common.BytesToAddress([]byte{8})]
	g1 := append(common.LeftPadBytes([]byte{1}, 32), common.LeftPadBytes([]byte{2}, 32)...)
	hm, err := mul.Run(append(g1, crypto.Keccak256(msg)...))
	if err != nil {
		return false
	}
	y := new(big.Int).SetBytes(sig[32:64])
	negY := new(big.Int).Mod(new(big.Int).Sub(fieldP, y), fieldP)
	negSig := append(append([]byte(nil), sig[:32]...), common.LeftPadBytes(negY.Bytes(), 32)...)
	sb, _ := g.secret.MarshalBinary()
	pk := new(gbn.G2).ScalarBaseMult(new(big.Int).SetBytes(sb)).Marshal()
	g2 := new(gbn.G2).ScalarBaseMult(big.NewInt(1)).Marshal()
	in := append(append(append(negSig, g2...), hm...), pk...)
	out, err := pair.Run(in)
	return err == nil && len(out) == 32 && out[31] == 1
}

func risky(k *kase) bool {
	for _, it := range k.sched {
		if it.kind == 'm' && strings.HasPrefix(it.sig, "T") {
			return true
		}
	}
	return false
}

// patience multiplies every wall-clock bound of the harness. The bounds only end a case in which a pipeline
// or loop is really stuck; what a case outputs is decided by synchronisation (log-event counts, sentinel
// messages, channel hand-overs), never by a bound being met in time. A case that ends with a verdict is run
// again, alone on fresh nodes with patience 6, and only a reproduced verdict is reported (exec).
var patience time.Duration = 1

// stuckCases counts cases in which a pipeline or loop stopped making progress (each costs up to
// 30 s and leaks goroutines): after three of them the remaining cases are not run.
var stuckCases int32

func blsSignRaw(g *group, c []byte) ([]byte, error) { return bls.Sign(suite, g.secret, c) }

// ---------------------------------------------------------------- histories
//
//	hist <n> <seed> <ids> <byz> <kind>/<last>/<rid>/<useed>/<sched> <kind>/… …
//
// The SAME n real nodes (one process, one queryLoop per node) serve the requests one after the other, so
// whatever a node or a package keeps between requests is there. sched as in q lines (content 0 only), plus
// the sig token P<x>.<r>: the exact bytes that were member x's VALID share on the content of request r of
// this history (r earlier), here under this request's id and content: a foreign-request share that this
// very process has verified before. Request ids are pairwise different. Output: the q output of every
// request, joined by " | ". Oracle: every request on its own (exactly one valid report by the derived
// submitter when >= t honest valid shares reach it, …): requests are independent (Props/C01.lean
// requests_independent, c01_no_state_between_requests).
func histRequests(line string) []string {
	w := strings.Fields(line)
	if len(w) < 6 || w[0] != "hist" {
		panic("bad hist line")
	}
	var out []string
	for _, r := range w[5:] {
		f := strings.Split(r, "/")
		if len(f) != 5 {
			panic("bad hist request " + r)
		}
		out = append(out, fmt.Sprintf("q %s %s %s %s %s %s %s %s - - - - %s", f[0], w[1], w[2], w[3], w[4], f[1], f[2], f[3], f[4]))
	}
	return out
}

func runHist(line string) (impl, oracle, class string) {
	sess := &session{}
	var impls []string
	reqs := histRequests(line)
	for i, q := range reqs {
		im, or, _ := runIn(parse(q), sess)
		impls = append(impls, im)
		if oracle == "" && or != "" {
			if j := strings.Index(or, ": "); j >= 0 {
				or = or[:j] + fmt.Sprintf(": request %d of the history: ", i) + or[j+2:]
			}
			oracle = or
		}
		if strings.HasPrefix(im, "stuck") {
			break
		}
	}
	for _, nd := range sess.nodes {
		if nd != nil {
			nd.d.VerifCancel()
		}
	}
	return strings.Join(impls, " | "), oracle, fmt.Sprintf("history of %d requests on one set of nodes", len(reqs))
}

func exec(line string) (res h.Result) {
	res = exec1(line)
	if res.Oracle == "" || os.Getenv("VERIF_C01_CHILD") != "" {
		return
	}
	first := res
	patience = 6
	res = exec1(line)
	patience = 1
	if res.Oracle == "" {
		sig := first.Oracle
		if i := strings.Index(sig, ":"); i >= 0 {
			sig = sig[:i]
		}
		res.Class = "verdict of the first run not reproduced (" + sig + "); " + res.Class
	}
	return
}

func exec1(line string) (res h.Result) {
	if strings.HasPrefix(line, "hist ") {
		res.Nontrivial = true
		if atomic.LoadInt32(&stuckCases) >= 3 {
			res.Impl, res.Class = "not-run", "not-run"
			return
		}
		res.Impl, res.Oracle, res.Class = runHist(line)
		if strings.Contains(res.Impl, "stuck") && patience > 1 {
			atomic.AddInt32(&stuckCases, 1)
		}
		return
	}
	if strings.HasPrefix(line, "ev ") {
		res.Nontrivial = true
		if atomic.LoadInt32(&stuckCases) >= 3 {
			res.Impl, res.Class = "not-run", "not-run"
			return
		}
		res.Impl, res.Oracle, res.Class = runEv(parseEv(line))
		if strings.HasPrefix(res.Impl, "stuck") && patience > 1 {
			atomic.AddInt32(&stuckCases, 1)
		}
		return
	}
	k := parse(line)
	res.Nontrivial = true
	if atomic.LoadInt32(&stuckCases) >= 3 {
		res.Impl, res.Class = "not-run", "not-run"
		return
	}
	defer func() {
		if strings.HasPrefix(res.Impl, "stuck") && patience > 1 {
			atomic.AddInt32(&stuckCases, 1)
		}
	}()
	if risky(k) && os.Getenv("VERIF_C01_CHILD") == "" {
		// two encodings of one share can crash tbls.Recover in the stage goroutine (F1): observe from outside
		cmd := osexec.Command(os.Args[0], "exec", "C01")
		cmd.Env = append(os.Environ(), "VERIF_C01_CHILD=1")
		cmd.Stdin = strings.NewReader(line + "\n")
		var out, errb bytes.Buffer
		cmd.Stdout, cmd.Stderr = &out, &errb
		err := cmd.Run()
		res.Class = "child " + k.kind
		if err != nil {
			site := "other"
			s := errb.String()
			if strings.Contains(s, "RecoverCommit") {
				site = "recover-div0"
			}
			res.Impl = "panic " + site
			res.Oracle = "submitter-crash-" + site + ": the submitter's process died (" + h.OneLine(firstLine(s)) + ")"
			return
		}
		f := strings.SplitN(strings.TrimRight(out.String(), "\n"), "\t", 2)
		res.Impl = f[0]
		if len(f) > 1 {
			res.Oracle = f[1]
		}
		return
	}
	res.Impl, res.Oracle, res.Class = run(k)
	return
}

func firstLine(s string) string {
	for _, l := range strings.Split(s, "\n") {
		if strings.HasPrefix(l, "panic:") {
			return l
		}
	}
	return ""
}

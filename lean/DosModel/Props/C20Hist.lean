/-
C20 (round 5) — call HISTORIES: `schnorr.Sign` / `schnorr.Verify` are functions of the VALUES their arguments hold at
call time, and of nothing else.

Property theorems only (helpers: Proofs/SchnorrHist.lean; semantics: Model/SchnorrHist.lean).

`runWith` runs a list of steps — the caller's in-place mutations of shared objects (one private `kyber.Scalar` object
that is added to / re-picked / set again, a public `kyber.Point` object recomputed in place, message and signature
buffers overwritten in place) interleaved with calls — against an ARBITRARY implementation with hidden state that is
even handed the caller's memory at every call.  The model of the code as it is (`runHist`) is the implementation
without hidden state.  Proved, for all histories, all initial memories, every group record and every hash:
  * `sign_is_pointwise`: the outcome list equals, call by call, the one-shot function (`Schnorr.sign`,
    `Schnorr.verify`) applied to the values the arguments hold at call time;
  * `no_hidden_state`: any implementation, whatever state it keeps, whose calls return the one-shot outcome has exactly
    the model's histories — so a disagreement between the real code and `runHist` on one history (what the
    correspondence run looks for with its `hist` cases) is a call that did not return the one-shot outcome;
  * `hist_compositional`, `hist_call_erasure`: a call leaves the caller's memory alone; inserting or removing calls
    changes no other call's outcome;
  * `hist_sign_verifies_code`, `hist_verify_sound_code`: in EVERY history over the translated point code, every
    signature `Sign` emits verifies (bundled and RFC 8032 verifier) under x•B for the value x the scalar object holds AT
    THAT CALL, and `Verify` accepts iff the values at call time satisfy the verification equation;
  * `stale_key_cache_is_not_pointwise`: the semantics is not blind — the implementation that remembers the caller's
    scalar OBJECT with its public point (the seeded "last key" cache) signs with a stale key after `x.Add(x, one)`;
  * tie `no_package_state`: sign/schnorr has NO package-level variable and group/edwards25519 has exactly the
    constants of const.go / elligator.go, each with an initialiser (regenerated on every run by go/extract/pkgvars
    through the SchnorrFacts extractor): a cache added to either package breaks this theorem within seconds.
-/
import DosModel.Proofs.SchnorrHist
import DosModel.Props.C20Lawful

namespace Dos.Props.C20Hist
open Dos Dos.Ed25519 Dos.Schnorr Dos.SchnorrHist Dos.Ge

variable {G : Type}

/-- **tie**: the complete lists of package-level `var`s, regenerated from the source on every run -/
theorem no_package_state :
    Gen.SchnorrFacts.schnorrPkgVars = []
    ∧ Gen.SchnorrFacts.edwardsPkgVars.map (fun v => (v.1, v.2.1)) =
        [("const.go", "prime"), ("const.go", "_"), ("const.go", "primeOrder"), ("const.go", "_"),
         ("const.go", "lMinus2"), ("const.go", "_"), ("const.go", "cofactor"), ("const.go", "fullOrder"),
         ("const.go", "primeOrderScalar"), ("const.go", "cofactorScalar"), ("const.go", "nullPoint"),
         ("const.go", "d"), ("const.go", "d2"), ("const.go", "sqrtM1"), ("const.go", "paramA"),
         ("const.go", "baseext"), ("const.go", "bi"), ("const.go", "base"),
         ("elligator.go", "sqrtMinusA"), ("elligator.go", "sqrtMinusHalf"), ("elligator.go", "halfQMinus1Bytes")]
    ∧ Gen.SchnorrFacts.edwardsPkgVars.all (fun v => v.2.2.2) = true := by
  refine ⟨by decide, by decide, by decide⟩

example : Gen.SchnorrFacts.edwardsPkgVars.length = 21 := by decide

/-- **every outcome of every history is the one-shot function of the values at call time** -/
theorem sign_is_pointwise (g : Grp G) (H : Bytes → Bytes) (st : Store G) (steps : List (Step G)) :
    runHist g H st steps = (argsAt g H st steps).map (outcomeOf g H) :=
  runHist_pointwise g H st steps

/-- the seed's pattern: sign, `x.Add(x, one)` on the SAME object, sign again — the second call sees x + 1 -/
example : argsAt toyGrp toyH {}
    [.upd (.scSet 0 5), .upd (.bufWrite 1 [1, 2, 3]), .call (.sign 0 1 7) none,
     .upd (.scSet 9 1), .upd (.scAdd 0 0 9), .call (.sign 0 1 7) none]
    = [some (.sign 5 7 [1, 2, 3]), some (.sign 6 7 [1, 2, 3])] := by
  simp [argsAt, Store.apply, Store.resolve, Store.setScalar, Store.setBuf, capture, evalCall, outcomeOf, oneShot,
    List.lookup]
  decide

/-- **hidden state cannot show**: an implementation with any state `σ` (updated at every call, possibly referring to
the caller's memory) whose calls return the one-shot outcome of the current values produces exactly the model's
outcome list on every history -/
theorem no_hidden_state {σ : Type} (g : Grp G) (H : Bytes → Bytes) (I : Impl σ G)
    (hI : ∀ s st c, (I.call s st c).1 = evalCall g H st c) (s : σ) (st : Store G) (steps : List (Step G)) :
    runWith g I s st steps = runHist g H st steps := by
  rw [runHist_pointwise]; exact runWith_pointwise g H I hI steps s st

/-- a call counter is hidden state that does not show -/
example (steps : List (Step Nat)) :
    runWith (σ := Nat) toyGrp ⟨fun n st c => (evalCall toyGrp toyH st c, n + 1)⟩ 0 {} steps
      = runHist toyGrp toyH {} steps :=
  no_hidden_state toyGrp toyH _ (fun _ _ _ => rfl) _ _ _

/-- histories compose: the outcomes of `pre ++ post` are those of `pre` followed by those of `post` run on the memory
`pre` leaves — and that memory is computed with the one-shot functions only -/
theorem hist_compositional (g : Grp G) (H : Bytes → Bytes) (st : Store G) (pre post : List (Step G)) :
    runHist g H st (pre ++ post) = runHist g H st pre ++ runHist g H (storeAfter g H st pre) post
    ∧ storeAfter g H st (pre ++ post) = storeAfter g H (storeAfter g H st pre) post :=
  ⟨runHist_append g H pre post st, storeAfter_append g H pre post st⟩

example : (storeAfter toyGrp toyH ({} : Store Nat)
    [.upd (.bufWrite 0 [1, 2, 3, 4]), .upd (.bufPoke 0 2 [9, 9, 9])]).bufs.lookup 0 = some [1, 2, 9, 9] := by decide

/-- **a call leaves no trace**: with a call inserted (its result not stored) the other calls' outcomes are what they
are without it -/
theorem hist_call_erasure (g : Grp G) (H : Bytes → Bytes) (st : Store G) (pre post : List (Step G)) (c : Call) :
    runHist g H st (pre ++ .call c none :: post) =
      runHist g H st pre ++ evalCall g H (storeAfter g H st pre) c :: runHist g H (storeAfter g H st pre) post
    ∧ runHist g H st (pre ++ post) = runHist g H st pre ++ runHist g H (storeAfter g H st pre) post := by
  refine ⟨?_, runHist_append g H pre post st⟩
  rw [runHist_append, runHist_call_none]

example : (runHist toyGrp toyH {} ([.upd (.scSet 0 5), .upd (.bufWrite 1 [1])] ++ .call (.sign 0 1 7) none :: [])).length
    = 1 := by
  rw [(hist_call_erasure toyGrp toyH {} _ [] (.sign 0 1 7)).1]; rfl

/-! ### every signature of every history verifies for the key of the value AT CALL TIME -/

/-- for every lawful group record and every hash: if the `i`-th call of a history is `Sign` and the scalar object
holds `x` and the buffer holds `msg` at that moment, the emitted signature is accepted by `Verify` and by the RFC 8032
verifier for the key x•B and that message — whatever happened to the objects before and whatever happens after -/
theorem hist_sign_verifies [AddCommGroup G] {g : Grp G} (L : Lawful g) (H : Bytes → Bytes) (st : Store G)
    (steps : List (Step G)) (i x k : ℕ) (msg : Bytes)
    (h : (argsAt g H st steps)[i]? = some (some (.sign x k msg))) :
    ∃ sig, (runHist g H st steps)[i]? = some (.signature sig)
      ∧ verify g H (g.smul x g.base) msg sig = .ok ()
      ∧ verifyStd g H (g.enc (g.smul x g.base)) msg sig = true := by
  refine ⟨sign g H x k msg, ?_, Props.C20.sign_verifies L H x k msg⟩
  rw [sign_is_pointwise, List.getElem?_map, h]
  rfl

/-- the same on the translated point code, no hypothesis on the group -/
theorem hist_sign_verifies_code (H : Bytes → Bytes) (st : Store Pt) (steps : List (Step Pt)) (i x k : ℕ)
    (msg : Bytes) (h : (argsAt codeGrp H st steps)[i]? = some (some (.sign x k msg))) :
    ∃ sig, (runHist codeGrp H st steps)[i]? = some (.signature sig)
      ∧ verify codeGrp H (codeGrp.smul x codeGrp.base) msg sig = .ok ()
      ∧ verifyStd codeGrp H (codeGrp.enc (codeGrp.smul x codeGrp.base)) msg sig = true :=
  hist_sign_verifies Props.C20Lawful.code_point_layer_lawful H st steps i x k msg h

/-- in every history over the translated point code a `Verify` call accepts iff the VALUES at call time satisfy:
64 bytes, R decodes to a curve point, S canonical, S•B = R + h•A -/
theorem hist_verify_sound_code (H : Bytes → Bytes) (st : Store Pt) (steps : List (Step Pt)) (i : ℕ) (A : Pt)
    (msg sig : Bytes) (h : (argsAt codeGrp H st steps)[i]? = some (some (.verify A msg sig))) :
    (runHist codeGrp H st steps)[i]? = some (.verdict none) ↔
      sig.length = 64 ∧ ∃ R, codeGrp.dec (sig.take 32) = some R ∧ leNat (sig.drop 32) < ell ∧
        leNat (sig.drop 32) • codeGrp.base = R + challenge codeGrp H A R msg • A := by
  rw [sign_is_pointwise, List.getElem?_map, h, ← Props.C20Lawful.verify_sound_code]
  simp only [Option.map_some, outcomeOf, oneShot, Option.some.injEq, Outcome.verdict.injEq]
  cases verify codeGrp H A msg sig <;> simp [verdictOf]

example : (argsAt codeGrp (fun b => b) {} [.upd (.ptSet 0 0), .upd (.bufWrite 1 []), .upd (.bufWrite 2 []),
    .call (.verify 0 1 2) none])[0]? = some (some (.verify 0 [] [])) := rfl

/-! ### the semantics distinguishes an implementation that remembers the caller's scalar object -/

/-- **the seeded "last key" cache is not pointwise**: it keeps the caller's scalar object with the public point of the
value it had; after `x.Add(x, one)` on that object the comparison `lastKey.private.Equal(private)` compares the object
with itself, and the second signature is made with the STALE public point: it differs from the model's, and the
model's verifier rejects it for the key (x+1)•B -/
theorem stale_key_cache_is_not_pointwise :
    ∃ steps : List (Step Nat),
      runWith toyGrp (cacheImpl toyGrp toyH) none {} steps ≠ runHist toyGrp toyH {} steps
      ∧ (runWith toyGrp (cacheImpl toyGrp toyH) none {} steps)[0]? = (runHist toyGrp toyH {} steps)[0]?
      ∧ ∃ sig, (runWith toyGrp (cacheImpl toyGrp toyH) none {} steps)[1]? = some (.signature sig)
          ∧ verify toyGrp toyH (toyGrp.smul 6 toyGrp.base) [1, 2, 3] sig = .error .invalid :=
  ⟨[.upd (.scSet 0 5), .upd (.bufWrite 1 [1, 2, 3]), .call (.sign 0 1 7) none,
     .upd (.scSet 9 1), .upd (.scAdd 0 0 9), .call (.sign 0 1 7) none],
    by decide +kernel, by decide +kernel,
    ⟨signWith toyGrp toyH (toyGrp.smul 5 toyGrp.base) 6 7 [1, 2, 3], by decide +kernel, by decide +kernel⟩⟩

/-- with a fresh object for the new value (`y := x.Clone(); y.Add(y, one)`) the same implementation is
indistinguishable from the model: the history cases with in-place changes are what exposes it -/
example : runWith toyGrp (cacheImpl toyGrp toyH) none {}
    [.upd (.scSet 0 5), .upd (.bufWrite 1 [1, 2, 3]), .call (.sign 0 1 7) none,
     .upd (.scSet 9 1), .upd (.scAdd 2 0 9), .call (.sign 2 1 7) none]
    = runHist toyGrp toyH {}
    [.upd (.scSet 0 5), .upd (.bufWrite 1 [1, 2, 3]), .call (.sign 0 1 7) none,
     .upd (.scSet 9 1), .upd (.scAdd 2 0 9), .call (.sign 2 1 7) none] := by decide +kernel

end Dos.Props.C20Hist

package c16

// sub <sync> <ops>   the dispatch-by-type layer (p2p/server.go messageDispatch / SubscribeMsg /
// UnSubscribeMsg): a REAL node with a scripted history of subscriptions, and a key-holding endpoint
// (fakepeer, honest here) that sends it messages of ANY registered protobuf type:
//
//	S<ch>:<t>[+<t>…]   node.SubscribeMsg(64, T{}…) — one call, the returned (merged) channel is channel ch
//	Q<ch>:<t>          node.SubscribeMsg(64, &T{}) — the subscriber hands in a pointer
//	U:<t>  V:<t>       node.UnSubscribeMsg(T{}) / (&T{})
//	M:<t>              the peer sends a message of type t; its id (request nonce) is the op's position
//
// Types are named by their protobuf full name (vss.PublicKey, dkg.PublicKey, p2p.Ping …); the Go
// type is the one the protobuf registry of THIS binary holds for that name. <sync> is a type the
// script subscribes first and never touches again: the harness waits for every message of that
// type to come out before it goes on (messages nobody is subscribed to cannot be waited for; the
// connection and messageDispatch are FIFO, so when the sync message is out everything sent before it
// has been dispatched). A subscription change must not follow an unsynchronised message.
//
// reg                the message types of the repository this binary links (compared with the
//                    regenerated registry the theorems are about)
//
// Observed: what comes out of every subscribed channel (per channel as a sorted list: the order between
// types on a merged channel is not determined by the code; the order within a type is judged by the oracle). Direct oracle (its own bookkeeping by
// protobuf name, no reflect strings): a message of type t is delivered exactly once, to the channel of
// the latest by-value subscription for t that was not unsubscribed since; to nobody when there is none;
// and what comes out is byte for byte what was sent, of that type.

import (
	"bytes"
	"fmt"
	"net"
	"reflect"
	"sort"
	"strconv"
	"strings"
	"sync"
	"time"

	"github.com/DOSNetwork/core/p2p"
	dkg "github.com/DOSNetwork/core/share/dkg/pedersen"
	vss "github.com/DOSNetwork/core/share/vss/pedersen"
	"github.com/golang/protobuf/proto"
	"google.golang.org/protobuf/reflect/protoreflect"
	"google.golang.org/protobuf/reflect/protoregistry"

	"verifharness/internal/h"
)

var _ = []interface{}{dkg.PublicKey{}, vss.PublicKey{}} // link every package of the node that registers message types

const repoModule = "github.com/DOSNetwork/core"

// linkedTypes: protobuf full names of the registered message types whose Go type lives in the repository
func linkedTypes() []string {
	var ns []string
	protoregistry.GlobalTypes.RangeMessages(func(mt protoreflect.MessageType) bool {
		n := string(mt.Descriptor().FullName())
		if t := proto.MessageType(n); t != nil && t.Kind() == reflect.Ptr && strings.HasPrefix(t.Elem().PkgPath(), repoModule) {
			ns = append(ns, n)
		}
		return true
	})
	sort.Strings(ns)
	return ns
}

func goTypeOf(name string) reflect.Type {
	t := proto.MessageType(name)
	if t == nil || t.Kind() != reflect.Ptr {
		panic("bad case line: no registered message type " + name)
	}
	return t.Elem()
}

// mkTyped: a message of the named type that carries id in every top-level scalar / bytes / string field
func mkTyped(name string, id int) proto.Message {
	v := reflect.New(goTypeOf(name))
	e := v.Elem()
	for i := 0; i < e.NumField(); i++ {
		f := e.Type().Field(i)
		if f.PkgPath != "" || strings.HasPrefix(f.Name, "XXX_") {
			continue
		}
		switch fv := e.Field(i); fv.Kind() {
		case reflect.Uint32, reflect.Uint64:
			fv.SetUint(uint64(id) + 1)
		case reflect.Int32, reflect.Int64:
			fv.SetInt(int64(id) + 1)
		case reflect.String:
			fv.SetString("m" + strconv.Itoa(id))
		case reflect.Slice:
			if fv.Type().Elem().Kind() == reflect.Uint8 {
				fv.SetBytes([]byte("m" + strconv.Itoa(id)))
			}
		}
	}
	return v.Interface().(proto.Message)
}

type subDelivery struct {
	ch, id int
	sub    int // which SubscribeMsg call's channel it came out of
	name   string
	raw    []byte
}

type subOp struct {
	kind  byte
	ch    int
	types []string
}

func parseSubOps(s string) []subOp {
	var ops []subOp
	for _, o := range split(s) {
		a := strings.SplitN(o[1:], ":", 2)
		if len(a) != 2 {
			panic("bad case line: " + o)
		}
		op := subOp{kind: o[0], ch: -1, types: strings.Split(a[1], "+")}
		switch o[0] {
		case 'S', 'Q':
			op.ch = h.Atoi(a[0])
		case 'U', 'V', 'M':
			if a[0] != "" || len(op.types) != 1 {
				panic("bad case line: " + o)
			}
		default:
			panic("bad case line: " + o)
		}
		ops = append(ops, op)
	}
	return ops
}

func subClass(ops string) (string, bool) {
	kinds := map[byte]bool{}
	types := map[string]bool{}
	for _, o := range parseSubOps(ops) {
		kinds[o.kind] = true
		for _, t := range o.types {
			types[t] = true
		}
	}
	var ks []string
	for _, k := range "SQUVM" {
		if kinds[byte(k)] {
			ks = append(ks, string(k))
		}
	}
	return "sub-" + strings.Join(ks, ""), len(types) > 1
}

func execReg() (res h.Result) {
	res.Impl = "reg " + strings.Join(linkedTypes(), ",")
	res.Class, res.Nontrivial = "reg", true
	return
}

func execSub(syncT, opsS string) (res h.Result) {
	ops := parseSubOps(opsS)
	node, addr := startNode("B", func([]byte) string { return "" })
	defer node.Leave()
	c, err := net.DialTimeout("tcp", addr, 3*time.Second)
	if err != nil {
		panic(err)
	}
	defer c.Close()
	s, err := boundedHandshake(c, []byte("H"))
	if err != nil {
		panic(err)
	}
	var mu sync.Mutex
	var got []subDelivery
	tick := make(chan struct{}, 1)
	reader := func(ch, sub int, out chan p2p.P2PMessage) {
		for m := range out {
			raw, _ := proto.Marshal(m.Msg.Message)
			mu.Lock()
			got = append(got, subDelivery{ch: ch, sub: sub, id: int(m.RequestNonce), name: proto.MessageName(m.Msg.Message), raw: raw})
			mu.Unlock()
			select {
			case tick <- struct{}{}:
			default:
			}
		}
	}
	seen := func(id int) bool {
		mu.Lock()
		defer mu.Unlock()
		for _, d := range got {
			if d.id == id {
				return true
			}
		}
		return false
	}
	handed := func(t string, ptr bool) interface{} {
		v := reflect.New(goTypeOf(t))
		if ptr {
			return v.Interface()
		}
		return v.Elem().Interface()
	}

	// the oracle's own bookkeeping, by protobuf name
	cur := map[string]int{}     // by-value subscriptions: type -> channel
	ptrSub := map[string]bool{} // a pointer subscription for the type exists (what it gets is not judged)
	type sentMsg struct {
		name  string
		raw   []byte
		want  int // channel it must come out of, -1 nobody
		loose bool
	}
	sent := map[int]sentMsg{}
	nch, nmsg, dirty := 0, 0, false
	for i, op := range ops {
		switch op.kind {
		case 'S', 'Q':
			if dirty {
				panic("bad case line: a subscription change follows an unsynchronised message")
			}
			var vals []interface{}
			for _, t := range op.types {
				vals = append(vals, handed(t, op.kind == 'Q'))
				if op.kind == 'S' {
					cur[t] = op.ch
				} else {
					ptrSub[t] = true
				}
			}
			out, err := node.SubscribeMsg(64, vals...)
			if err != nil {
				panic(err)
			}
			go reader(op.ch, i, out)
			if op.ch+1 > nch {
				nch = op.ch + 1
			}
		case 'U', 'V':
			if dirty {
				panic("bad case line: a subscription change follows an unsynchronised message")
			}
			node.UnSubscribeMsg(handed(op.types[0], op.kind == 'V'))
			if op.kind == 'U' {
				delete(cur, op.types[0])
			}
		case 'M':
			t := op.types[0]
			m := mkTyped(t, i)
			raw, _ := proto.Marshal(m)
			want, ok := cur[t]
			if !ok {
				want = -1
			}
			sent[i] = sentMsg{name: t, raw: raw, want: want, loose: ptrSub[t]}
			nmsg++
			if err := s.Send(m, uint64(i), false, 0); err != nil {
				res.Oracle = fmt.Sprintf("send-failed: message %d: %v", i, err)
			}
			dirty = true
			if t == syncT {
				deadline := time.Now().Add(15 * time.Second)
				for !seen(i) && time.Now().Before(deadline) {
					select {
					case <-tick:
					case <-time.After(20 * time.Millisecond):
					}
				}
				if !seen(i) && res.Oracle == "" {
					res.Oracle = fmt.Sprintf("not-delivered-to-its-subscriber: message %d of the subscribed type %s never came out of any channel", i, t)
				}
				dirty = false
			}
		}
	}
	if dirty {
		panic("bad case line: the script does not end with a message of the sync type")
	}
	// what messageDispatch has handed out may still be on its way through SubscribeMsg's merge goroutines:
	// wait (bounded) for the messages that have a subscriber — this only decides how long to look, the
	// judgement below is made on what came out — and then until nothing more arrives for a while
	for t0 := time.Now(); time.Since(t0) < 5*time.Second; {
		missing := false
		for id, sm := range sent {
			if sm.want >= 0 && !sm.loose && !seen(id) {
				missing = true
			}
		}
		if !missing {
			break
		}
		select {
		case <-tick:
		case <-time.After(10 * time.Millisecond):
		}
	}
	for quiet := 0; quiet < 3; {
		select {
		case <-tick:
			quiet = 0
		case <-time.After(50 * time.Millisecond):
			quiet++
		}
	}
	mu.Lock()
	defer mu.Unlock()
	// the order BETWEEN types on one subscriber channel is not determined (SubscribeMsg merges one channel
	// per type with a goroutine each): ids are listed sorted per channel; the order WITHIN a type is judged here
	per := make([][]int, nch)
	count := map[int]int{}
	lastOf := map[[2]string]int{}
	for _, d := range got {
		if d.ch >= 0 && d.ch < nch {
			per[d.ch] = append(per[d.ch], d.id)
		}
		k := [2]string{strconv.Itoa(d.sub), d.name} // per SubscribeMsg call: each has its own channels and reader
		if l, ok := lastOf[k]; ok && d.id < l && res.Oracle == "" {
			res.Oracle = fmt.Sprintf("out-of-order: channel %d received message %d of type %s after message %d of the same type", d.ch, d.id, d.name, l)
		}
		lastOf[k] = d.id
		count[d.id]++
		if res.Oracle != "" {
			continue
		}
		sm, ok := sent[d.id]
		switch {
		case !ok:
			res.Oracle = fmt.Sprintf("not-sent-delivered: channel %d received a message with nonce %d that was never sent", d.ch, d.id)
		case d.name != sm.name || !bytes.Equal(d.raw, sm.raw):
			res.Oracle = fmt.Sprintf("altered-delivered: message %d was sent as %s and came out of channel %d as %s / with other bytes", d.id, sm.name, d.ch, d.name)
		case sm.loose:
		case sm.want < 0:
			res.Oracle = fmt.Sprintf("wrong-subscriber: message %d of type %s, which nobody was subscribed to, was delivered to channel %d (a subscriber of another type)", d.id, sm.name, d.ch)
		case d.ch != sm.want:
			res.Oracle = fmt.Sprintf("wrong-subscriber: message %d of type %s was delivered to channel %d; the subscriber of its type is channel %d", d.id, sm.name, d.ch, sm.want)
		case count[d.id] > 1:
			res.Oracle = fmt.Sprintf("delivered-twice: message %d of type %s came out %d times", d.id, sm.name, count[d.id])
		}
	}
	if res.Oracle == "" {
		var ids []int
		for id := range sent {
			ids = append(ids, id)
		}
		sort.Ints(ids)
		for _, id := range ids {
			if sm := sent[id]; !sm.loose && sm.want >= 0 && count[id] == 0 {
				res.Oracle = fmt.Sprintf("not-delivered-to-its-subscriber: message %d of type %s was never delivered to channel %d, the subscriber of its type", id, sm.name, sm.want)
				break
			}
		}
	}
	var parts []string
	for chn := 0; chn < nch; chn++ {
		x := "-"
		if len(per[chn]) > 0 {
			sort.Ints(per[chn])
			var ss []string
			for _, id := range per[chn] {
				ss = append(ss, strconv.Itoa(id))
			}
			x = strings.Join(ss, ",")
		}
		parts = append(parts, fmt.Sprintf("c%d=%s", chn, x))
	}
	res.Impl = strings.TrimSpace(strings.Join(parts, " ") + fmt.Sprintf(" n=%d", nmsg))
	return
}

// ---------------------------------------------------------------- generator

func genSub(tier string, rng *h.Rng, emit func(string)) {
	types := linkedTypes()
	emit("reg")
	if len(types) < 3 {
		return
	}
	pick := func() string { return types[rng.Intn(len(types))] }
	perm := func() []string {
		p := append([]string(nil), types...)
		for i := len(p) - 1; i > 0; i-- {
			j := rng.Intn(i + 1)
			p[i], p[j] = p[j], p[i]
		}
		return p
	}
	without := func(ts []string, x string) []string {
		var r []string
		for _, t := range ts {
			if t != x {
				r = append(r, t)
			}
		}
		return r
	}
	// every type subscribed on its own channel (in a random order: whoever files a colliding key
	// last wins), then one message of every type, in another order — every ordered pair at once
	nAll := 3
	if tier == "thorough" {
		nAll = 20
	}
	for k := 0; k < nAll; k++ {
		syncT := types[(k*5+1)%len(types)]
		ops := []string{"S0:" + syncT}
		for i, t := range without(perm(), syncT) {
			ops = append(ops, fmt.Sprintf("S%d:%s", i+1, t))
		}
		for _, t := range without(perm(), syncT) {
			ops = append(ops, "M:"+t)
		}
		ops = append(ops, "M:"+syncT)
		emit("sub " + syncT + " " + strings.Join(ops, ","))
	}
	// one type subscribed, a message of every type: everything but its own type is nobody's
	for k, t := range types {
		syncT := types[(k+1+rng.Intn(len(types)-1))%len(types)]
		if syncT == t {
			syncT = types[(k+1)%len(types)]
		}
		ops := []string{"S0:" + syncT, "S1:" + t}
		for _, u := range without(perm(), syncT) {
			ops = append(ops, "M:"+u)
		}
		ops = append(ops, "M:"+syncT)
		emit("sub " + syncT + " " + strings.Join(ops, ","))
	}
	// one SubscribeMsg call for several types (the merged channel), a second subscriber for the rest
	for k := 0; k < 2; k++ {
		syncT := pick()
		p := without(perm(), syncT)
		cut := 1 + rng.Intn(len(p)-1)
		ops := []string{"S0:" + syncT, "S1:" + strings.Join(p[:cut], "+"), "S2:" + strings.Join(p[cut:], "+")}
		for _, u := range without(perm(), syncT) {
			ops = append(ops, "M:"+u)
		}
		ops = append(ops, "M:"+syncT)
		emit("sub " + syncT + " " + strings.Join(ops, ","))
	}
	// histories: subscribe / unsubscribe / re-subscribe (by value, sometimes by pointer), messages in between
	nHist := 14
	if tier == "thorough" {
		nHist = 150
	}
	for k := 0; k < nHist; k++ {
		syncT := pick()
		pool := without(perm(), syncT)[:2+rng.Intn(4)]
		if k%2 == 0 { // make sure same-name types of different packages meet
			for _, t := range types {
				for _, u := range types {
					if t != u && t != syncT && u != syncT && t[strings.Index(t, ".")+1:] == u[strings.Index(u, ".")+1:] && rng.Intn(3) == 0 {
						pool = append(pool, t, u)
					}
				}
			}
		}
		ops := []string{"S0:" + syncT}
		nextCh, dirty := 1, false
		for j := 0; j < 6+rng.Intn(10); j++ {
			t := pool[rng.Intn(len(pool))]
			r := rng.Intn(10)
			if r >= 5 {
				ops = append(ops, "M:"+t)
				dirty = true
				continue
			}
			if dirty {
				ops = append(ops, "M:"+syncT)
				dirty = false
			}
			switch {
			case r <= 1:
				ops = append(ops, fmt.Sprintf("S%d:%s", nextCh, t))
				nextCh++
			case r == 2: // an existing subscriber (possibly the sync one) takes another type
				ops = append(ops, fmt.Sprintf("S%d:%s", rng.Intn(nextCh), t))
			case r == 3:
				ops = append(ops, "U:"+t)
			default:
				if rng.Intn(3) == 0 {
					ops = append(ops, fmt.Sprintf("Q%d:%s", nextCh, t))
					nextCh++
				} else if rng.Intn(2) == 0 {
					ops = append(ops, "V:"+t)
				} else {
					ops = append(ops, "U:"+t)
				}
			}
		}
		for _, t := range pool {
			ops = append(ops, "M:"+t)
		}
		ops = append(ops, "M:"+syncT)
		emit("sub " + syncT + " " + strings.Join(ops, ","))
	}
}

/-
C14 — decidable well-formedness of a pipeline IR.  Core Lean only.

All rules are *edge-local checks of labelings* of the goroutine CFGs.  The labelings are
computed here (by a bounded closure iteration), but no theorem depends on how they were
computed: the soundness proofs in `Proofs/Pipe*.lean` use only the edge-local checks.

  W0  indices in range
  W1  close discipline of a channel, one of
        A (owner)   one goroutine does every send and close of `c`; nothing on `c` after a close
        B (fan-in)  one closer that passes `wgWait w` before `close c`; every sender still owes
                    its `wgDone w` when it sends (needs W5 for `w`)
        C (hand-off) exactly one goroutine at a time holds the right to operate on `c`; the right
                    moves with a message on a hand-off channel; a close gives it up
  W2  every blocking operation of a pipeline goroutine sits in a select with the context
      alternative (or a default / timer alternative), except a lone receive on a channel
      with W3
  W3  a lone receive / range: the channel's closer is a static pipeline goroutine of smaller
      rank that closes it on every path to its exit; `wgWait w`: every goroutine owing a
      `wgDone w` is static, of smaller rank
  W4  from every node there is a way to the exit that only uses edges which are enabled after
      cancellation (certified by a distance labeling)
  W5  `wgDone w` is reached exactly once on every path of every goroutine that owes it, and the
      initial counter equals the number of goroutines that owe it
  W6  every channel somebody sends on has a receiver
-/
import DosModel.Model.PipeSem

namespace Dos.Pipe

/-! ### labelings -/

def mark (m : List Bool) (i : Nat) : Bool := match m[i]? with | some b => b | none => false

def Node.succs (nd : Node) : List Pc := nd.edges.map (·.2)

/-- one round: a node is marked if it was, or one of its successors is (unless `cut` at the node) -/
def backStep (nodes : List Node) (cut : Node → Bool) (m : List Bool) : List Bool :=
  nodes.zipIdx.map fun x => mark m x.2 || (!cut x.1 && x.1.succs.any (mark m))

def iter {α : Type} (f : α → α) : Nat → α → α
  | 0, a => a
  | n + 1, a => iter f n (f a)

/-- nodes from which a seed node can be reached (paths do not continue through `cut` nodes) -/
def backClosure (nodes : List Node) (cut : Node → Bool) (seed : Node → Bool) : List Bool :=
  iter (backStep nodes cut) nodes.length (nodes.map seed)

/-- one round forward: a node is marked if it was, or a marked non-`cut` node has an edge to it -/
def fwdStep (nodes : List Node) (cut : Node → Bool) (m : List Bool) : List Bool :=
  (List.range nodes.length).map fun j =>
    mark m j || nodes.zipIdx.any (fun x => mark m x.2 && !cut x.1 && x.1.succs.contains j)

/-- nodes reachable from node 0 along paths that do not continue through `cut` nodes -/
def fwdClosure (nodes : List Node) (cut : Node → Bool) : List Bool :=
  iter (fwdStep nodes cut) nodes.length ((List.range nodes.length).map (· == 0))

/-! ### node classification -/

def Node.closes (c : Ch) : Node → Bool
  | .close c' _ => c' == c
  | _ => false

def Alt.sendsOn (c : Ch) : Alt → Bool
  | .send c' _ => c' == c
  | _ => false

def Alt.recvsOn (c : Ch) : Alt → Bool
  | .recv c' _ _ => c' == c
  | _ => false

def Node.sendsOn (c : Ch) : Node → Bool
  | .sel alts => alts.any (Alt.sendsOn c)
  | _ => false

def Node.recvsOn (c : Ch) : Node → Bool
  | .sel alts => alts.any (Alt.recvsOn c)
  | _ => false

def Node.opsOn (c : Ch) (nd : Node) : Bool := nd.closes c || nd.sendsOn c

def Node.isDone (w : Nat) : Node → Bool
  | .wgDone w' _ => w' == w
  | _ => false

def Node.isWait (w : Nat) : Node → Bool
  | .wgWait w' _ => w' == w
  | _ => false

def Node.isExit : Node → Bool
  | .exit => true
  | _ => false

def Goroutine.hasOps (gr : Goroutine) (c : Ch) : Bool := gr.nodes.any (Node.opsOn c)
def Goroutine.hasClose (gr : Goroutine) (c : Ch) : Bool := gr.nodes.any (Node.closes c)
def Goroutine.hasSend (gr : Goroutine) (c : Ch) : Bool := gr.nodes.any (Node.sendsOn c)
def Goroutine.hasRecv (gr : Goroutine) (c : Ch) : Bool := gr.nodes.any (Node.recvsOn c)

/-- indices of the goroutines satisfying `f` -/
def Pipeline.gsWhere (p : Pipeline) (f : Goroutine → Bool) : List Gi :=
  p.gs.zipIdx.filterMap fun x => if f x.1 then some x.2 else none

/-! ### W0 -/

def Lab.inRange (p : Pipeline) : Lab → Bool
  | .tau | .tick | .dflt => true
  | .recvOk c | .recvCl c | .send c | .close c => decide (c < p.chans.length)
  | .ctx k | .cancel k => decide (k < p.nctx)
  | .wgDone w | .wgWait w => decide (w < p.wgs.length)
  | .spawn g => match p.gs[g]? with
    | some gr => !gr.static
    | none => false

def W0 (p : Pipeline) : Bool :=
  p.gs.all fun gr =>
    decide (0 < gr.nodes.length) &&
    gr.nodes.all fun nd => nd.edges.all fun e => e.1.inRange p && decide (e.2 < gr.nodes.length)

/-! ### labelings used by the rules, with their edge-local checks -/

/-- `m` is closed backwards along edges and contains the seeds -/
def backClosedOk (nodes : List Node) (seed : Node → Bool) (m : List Bool) : Bool :=
  nodes.zipIdx.all fun x =>
    (!seed x.1 || mark m x.2) && x.1.succs.all (fun j => !mark m j || mark m x.2)

/-- may still send on / close `c` -/
def mayOp (gr : Goroutine) (c : Ch) : List Bool := backClosure gr.nodes (fun _ => false) (Node.opsOn c)

/-- labeling check for "nothing on `c` after a close of `c`" inside one goroutine -/
def closeOnceOk (gr : Goroutine) (c : Ch) : Bool :=
  let m := mayOp gr c
  backClosedOk gr.nodes (Node.opsOn c) m &&
  gr.nodes.all fun nd => match nd with
    | .close c' n => c' != c || !mark m n
    | _ => true

/-- owes a `wgDone w` (can still reach one) -/
def owes (gr : Goroutine) (w : Nat) : List Bool := backClosure gr.nodes (fun _ => false) (Node.isDone w)

/-- W5 for one goroutine and one wait group: along every edge the debt is conserved -/
def owesOk (gr : Goroutine) (w : Nat) : Bool :=
  let m := owes gr w
  gr.nodes.zipIdx.all fun x =>
    if x.1.isDone w then mark m x.2 && x.1.succs.all (fun j => !mark m j)
    else x.1.succs.all (fun j => mark m j == mark m x.2)

def owesAtEntry (gr : Goroutine) (w : Nat) : Bool := mark (owes gr w) 0

/-- W5 for a wait group: conservation in every goroutine and the right initial counter -/
def W5w (p : Pipeline) (w : Nat) : Bool :=
  p.gs.all (fun gr => owesOk gr w) &&
  (match p.wgs[w]? with
   | some x => x.init == (p.gs.filter (fun gr => owesAtEntry gr w)).length
   | none => false)

/-- reachable from the entry without having completed a `wgWait w` -/
def notWaited (gr : Goroutine) (w : Nat) : List Bool := fwdClosure gr.nodes (Node.isWait w)

def fwdClosedOk (nodes : List Node) (cut : Node → Bool) (m : List Bool) : Bool :=
  mark m 0 && nodes.zipIdx.all fun x =>
    !mark m x.2 || cut x.1 || x.1.succs.all (mark m)

/-- reachable from the entry without having closed `c` -/
def notClosedYet (gr : Goroutine) (c : Ch) : List Bool := fwdClosure gr.nodes (Node.closes c)

/-- `gr` closes `c` on every path to its exit -/
def closesOnAllPaths (gr : Goroutine) (c : Ch) : Bool :=
  let m := notClosedYet gr c
  fwdClosedOk gr.nodes (Node.closes c) m &&
  gr.nodes.zipIdx.all fun x => !x.1.isExit || !mark m x.2

/-! ### W1 disciplines -/

/-- A: a single goroutine owns every send and close of `c` -/
def discA (p : Pipeline) (c : Ch) : Bool :=
  match p.gsWhere (fun gr => gr.hasOps c) with
  | [] => true
  | [h] => match p.gs[h]? with
    | some gr => closeOnceOk gr c
    | none => false
  | _ => false

/-- B: fan-in.  Returns the wait group it is based on. -/
def discBw (p : Pipeline) (c : Ch) (w : Nat) : Bool :=
  match p.gsWhere (fun gr => gr.hasClose c) with
  | [h] => match p.gs[h]? with
    | some gr =>
      !gr.hasSend c && closeOnceOk gr c &&
      -- the closer has waited for `w` before it closes
      (let m := notWaited gr w
       fwdClosedOk gr.nodes (Node.isWait w) m &&
       gr.nodes.zipIdx.all fun x => !x.1.closes c || !mark m x.2) &&
      -- every sender still owes its `wgDone w` when it sends
      p.gs.all (fun gs => let m := owes gs w
        gs.nodes.zipIdx.all fun x => !x.1.sendsOn c || mark m x.2) &&
      W5w p w
    | none => false
  | _ => false

def discB (p : Pipeline) (c : Ch) : Bool :=
  (List.range p.wgs.length).any (discBw p c)

/-! ### liveness rules -/

def Alt.isGuard : Alt → Bool
  | .ctx k _ => k == 0
  | .tick _ => true
  | .dflt _ => true
  | _ => false

def rankOf (p : Pipeline) (g : Gi) : Nat := match p.rank[g]? with | some r => r | none => 0

/-- W3 for a lone receive of `g` on `c` -/
def rangeOk (p : Pipeline) (g : Gi) (c : Ch) : Bool :=
  match p.gsWhere (fun gr => gr.hasClose c) with
  | [h] => match p.gs[h]? with
    | some gr => gr.static && !gr.daemon && decide (rankOf p h < rankOf p g) && closesOnAllPaths gr c
    | none => false
  | _ => false

/-- W3 for `wgWait w` of `g` -/
def waitOk (p : Pipeline) (g : Gi) (w : Nat) : Bool :=
  W5w p w &&
  p.gs.zipIdx.all fun x =>
    !owesAtEntry x.1 w || (x.1.static && !x.1.daemon && decide (rankOf p x.2 < rankOf p g))

/-- W2/W3 for one node of pipeline goroutine `g` -/
def nodeLive (p : Pipeline) (g : Gi) : Node → Bool
  | .sel alts =>
    alts.any Alt.isGuard ||
    (match alts with
     | [.recv c _ _] => rangeOk p g c
     | _ => false)
  | .wgWait w _ => waitOk p g w
  | _ => true

/-! ### violations (what the per-pipeline theorems compare with the recorded findings) -/

structure Violation where
  rule : Nat          -- 1..6 = W1..W6, 0 = W0
  g : String          -- goroutine key (function), "" if not applicable
  c : String          -- channel / wait-group key, "" if not applicable
  deriving DecidableEq, Repr, Inhabited

def Pipeline.gkey (p : Pipeline) (g : Gi) : String := p.gname g
def Pipeline.ckey (p : Pipeline) (c : Ch) : String := p.cname c

def dedup (l : List Violation) : List Violation :=
  l.foldl (fun acc v => if acc.contains v then acc else acc ++ [v]) []

/-- goroutines blamed for a W1 failure on `c`: everybody who closes it, or, when there is
    exactly one closer, that closer -/
def w1Violations (p : Pipeline) : List Violation :=
  (List.range p.chans.length).flatMap fun c =>
    if discA p c || discB p c then [] else
    -- a fan-in whose only defect is W5 is reported under W5
    if (List.range p.wgs.length).any (fun w => !W5w p w) &&
       (p.gsWhere (fun gr => gr.hasClose c)).length ≤ 1 &&
       (p.gsWhere (fun gr => gr.hasSend c && !gr.hasClose c)).length ≥ 1 then [] else
    (p.gsWhere (fun gr => gr.hasOps c)).map fun g => { rule := 1, g := p.gkey g, c := p.ckey c }

def w23Violations (p : Pipeline) : List Violation :=
  p.gs.zipIdx.flatMap fun x =>
    if x.1.daemon then [] else
    x.1.nodes.flatMap fun nd =>
      if nodeLive p x.2 nd then [] else
      match nd with
      | .sel alts => alts.flatMap fun a => match a with
        | .send c _ => [{ rule := 2, g := x.1.name, c := p.ckey c }]
        | .recv c _ _ => [{ rule := (if alts.length == 1 then 3 else 2), g := x.1.name, c := p.ckey c }]
        | _ => []
      | .wgWait w _ => [{ rule := 3, g := x.1.name, c := p.wname w }]
      | _ => []

def w5Violations (p : Pipeline) : List Violation :=
  (List.range p.wgs.length).flatMap fun w =>
    (p.gs.flatMap fun gr => if owesOk gr w then [] else [{ rule := 5, g := gr.name, c := "" }]) ++
    (match p.wgs[w]? with
     | some x => if x.init == (p.gs.filter (fun gr => owesAtEntry gr w)).length then []
                 else [{ rule := 5, g := "", c := x.name }]
     | none => [])

def w6Violations (p : Pipeline) : List Violation :=
  (List.range p.chans.length).flatMap fun c =>
    if p.gs.any (fun gr => gr.hasSend c) && !p.gs.any (fun gr => gr.hasRecv c)
    then [{ rule := 6, g := "", c := p.ckey c }] else []

def w0Violations (p : Pipeline) : List Violation :=
  if W0 p then [] else [{ rule := 0, g := "", c := "" }]

/-- everything the rules reject, one entry per (rule, goroutine function, channel) -/
def violations (p : Pipeline) : List Violation :=
  dedup (w0Violations p ++ w1Violations p ++ w23Violations p ++ w5Violations p ++ w6Violations p)

def subsetOf (a b : List Violation) : Bool := a.all (fun v => b.contains v)

def Violation.show (v : Violation) : String := "W" ++ toString v.rule ++ ":" ++ v.g ++ ":" ++ v.c

end Dos.Pipe

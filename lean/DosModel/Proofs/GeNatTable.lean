/-
C20 (round 4) — the precomputed table `base` of group/edwards25519/const.go (regenerated as
`Gen.Ed25519GeTable.c_base`, 32 rows × 8 entries × (yPlusX, yMinusX, xy2d)) holds the multiples of the base point
the comment claims:  base[i][j] = (j+1)·256^i·B.

A Boolean checker `chkTab` walks the table with the verified Nat-mod-p arithmetic of Proofs/GeNatArith.lean:
the first point of row i+1 is 8 doublings of the first point of row i, the entries of a row are repeated additions
of the row's first point; for every SELECTED entry (i, j) it tests the limb bounds `Bounded 1` of the three limb
vectors and the cross-multiplied congruences

      yPlusX·Z ≡ Y + X,    yMinusX·Z + X ≡ Y,    xy2d·Z·Z ≡ 2·d·X·Y     (mod p)

against the computed point (X : Y : Z : T). `chkTab_sound` turns `chkTab sel … = true` into `GoodPre` of the selected
entries; the kernel evaluates the checker (`decide +kernel`).

This file: the checker, its soundness, and the SAMPLED statement `baseTable_sample_ok` — rows 0, 1 and 31 complete
and entry 0 of every row, i.e. all (i, j) with i < 32, j < 8 and (i = 0 ∨ i = 1 ∨ i = 31 ∨ j = 0).
The whole table (`baseTable_ok`) is in Proofs/GeNatTableFull.lean.
-/
import Mathlib.Tactic.FieldSimp
import Mathlib.Tactic.LinearCombination
import DosModel.Proofs.GeNatArith

set_option exponentiation.threshold 600

namespace Dos.Ge
open Dos Dos.Ed25519 Dos.FeProg Dos.FeOps Dos.GeProg Dos.Ed25519Prime Dos.Edwards

/-- the statement about the table that `geScalarMultBase` consumes (primed: to be reconciled with the definition in
Proofs/GeScalarMult*.lean) -/
def BaseTableOK' (B : Pt) : Prop :=
  ∀ i j, i < 32 → j < 8 →
    GoodPre (preOf ((Gen.Ed25519GeTable.c_base.getD i []).getD j [])) (((j + 1) * 256 ^ i) • B)

/-! ### the value of a limb vector as a natural below p -/

theorem feNat_cast (l : L10) : ((feNat l : ℕ) : F) = val l := by
  unfold feNat val
  have h0 : 0 ≤ feVal l % (fieldP : Int) := Int.emod_nonneg _ (by decide)
  have e : ((((feVal l % (fieldP : Int)).toNat : ℕ) : Int)) = feVal l % (fieldP : Int) := Int.toNat_of_nonneg h0
  rw [natCast_eq_intCast, e]
  have hp : ((fieldP : ℕ) : Int) = ((Dos.Ed.p : ℕ) : Int) := rfl
  rw [hp, ZMod.intCast_mod]

/-! ### one entry -/

/-- the three limb vectors `l` are within the bounds and are (y+x, y−x, 2dxy) of the point (X:Y:Z:T) -/
def chkEntry (N : Dos.Ed.Pt) (l : List L10) : Bool :=
  decide (Bounded 1 (l.getD 0 z10)) && decide (Bounded 1 (l.getD 1 z10)) && decide (Bounded 1 (l.getD 2 z10))
    && decide (feNat (l.getD 0 z10) * N.Z % Dos.Ed.p = (N.Y + N.X) % Dos.Ed.p)
    && decide ((feNat (l.getD 1 z10) * N.Z + N.X) % Dos.Ed.p = N.Y % Dos.Ed.p)
    && decide (feNat (l.getD 2 z10) * N.Z * N.Z % Dos.Ed.p = 2 * Dos.Ed.d * N.X * N.Y % Dos.Ed.p)

theorem chkEntry_sound {N : Dos.Ed.Pt} {P : Pt} {l : List L10} (hN : NRep N P) (h : chkEntry N l = true) :
    GoodPre (preOf l) P := by
  simp only [chkEntry, Bool.and_eq_true, decide_eq_true_eq] at h
  obtain ⟨⟨⟨⟨⟨b0, b1⟩, b2⟩, c0⟩, c1⟩, c2⟩ := h
  have e0 := natCast_eq_of_mod c0
  have e1 := natCast_eq_of_mod c1
  have e2 := natCast_eq_of_mod c2
  push_cast at e0 e1 e2
  rw [feNat_cast] at e0 e1 e2
  have hz := hN.z_ne
  have hX : ((N.X : ℕ) : F) = P.x * ((N.Z : ℕ) : F) := by rw [← hN.hx]; field_simp
  have hY : ((N.Y : ℕ) : F) = P.y * ((N.Z : ℕ) : F) := by rw [← hN.hy]; field_simp
  rw [hX, hY] at e0 e1 e2
  exact
    { bP := b0, bM := b1, bD := b2
      hp := by
        show val (l.getD 0 z10) = _
        apply mul_right_cancel₀ hz
        linear_combination e0
      hm := by
        show val (l.getD 1 z10) = _
        apply mul_right_cancel₀ hz
        linear_combination e1
      hd := by
        show val (l.getD 2 z10) = _
        apply mul_right_cancel₀ hz
        apply mul_right_cancel₀ hz
        rw [cast_d] at e2
        linear_combination e2 }

/-! ### one row: entries j, j+1, … are N, N + F, … -/

def chkRow (sel : Nat → Bool) (F : Dos.Ed.Pt) : Nat → Dos.Ed.Pt → List (List L10) → Bool
  | _, _, [] => true
  | j, N, l :: ls => (!sel j || chkEntry N l) && chkRow sel F (j + 1) (Dos.Ed.add N F) ls

theorem chkRow_sound {sel : Nat → Bool} {F : Dos.Ed.Pt} {Q : Pt} (hF : NRep F Q) :
    ∀ (ls : List (List L10)) (j : Nat) (N : Dos.Ed.Pt), NRep N ((j + 1) • Q) → chkRow sel F j N ls = true →
      ∀ k, k < ls.length → sel (j + k) = true → GoodPre (preOf (ls.getD k [])) ((j + k + 1) • Q) := by
  intro ls
  induction ls with
  | nil => intro j N _ _ k hk; simp at hk
  | cons l ls ih =>
    intro j N hN h k hk hs
    simp only [chkRow, Bool.and_eq_true, Bool.or_eq_true, Bool.not_eq_true'] at h
    obtain ⟨h1, h2⟩ := h
    cases k with
    | zero =>
      rcases h1 with h1 | h1
      · rw [Nat.add_zero] at hs; rw [hs] at h1; cases h1
      · simpa using chkEntry_sound hN h1
    | succ k =>
      have hN' : NRep (Dos.Ed.add N F) ((j + 1 + 1) • Q) := by
        have := nrep_add hN hF
        rwa [← succ_nsmul] at this
      have := ih (j + 1) _ hN' h2 k (by simpa using hk) (by rwa [Nat.add_assoc, Nat.add_comm 1 k])
      simpa [Nat.add_assoc, Nat.add_comm 1 k] using this

/-! ### the table: the first point of row i+1 is 2^8 times the first point of row i -/

def dbl (N : Dos.Ed.Pt) : Dos.Ed.Pt := Dos.Ed.add N N
def dbl8 (N : Dos.Ed.Pt) : Dos.Ed.Pt := dbl (dbl (dbl (dbl (dbl (dbl (dbl (dbl N)))))))

theorem nrep_dbl {N : Dos.Ed.Pt} {P : Pt} (h : NRep N P) : NRep (dbl N) (2 • P) := by
  rw [two_nsmul]; exact nrep_add h h

theorem nrep_dbl8 {N : Dos.Ed.Pt} {P : Pt} (h : NRep N P) : NRep (dbl8 N) (256 • P) := by
  have := nrep_dbl (nrep_dbl (nrep_dbl (nrep_dbl (nrep_dbl (nrep_dbl (nrep_dbl (nrep_dbl h)))))))
  simp only [← mul_nsmul] at this
  exact this

def chkTab (sel : Nat → Nat → Bool) : Nat → Dos.Ed.Pt → List (List (List L10)) → Bool
  | _, _, [] => true
  | i, F, r :: rs => (r.length == 8) && chkRow (sel i) F 0 F r && chkTab sel (i + 1) (dbl8 F) rs

theorem chkTab_sound {sel : Nat → Nat → Bool} {B : Pt} :
    ∀ (rs : List (List (List L10))) (i : Nat) (F : Dos.Ed.Pt), NRep F ((256 ^ i) • B) → chkTab sel i F rs = true →
      ∀ k j, k < rs.length → j < 8 → sel (i + k) j = true →
        GoodPre (preOf ((rs.getD k []).getD j [])) (((j + 1) * 256 ^ (i + k)) • B) := by
  intro rs
  induction rs with
  | nil => intro i F _ _ k j hk; simp at hk
  | cons r rs ih =>
    intro i F hF h k j hk hj hs
    simp only [chkTab, Bool.and_eq_true, beq_iff_eq] at h
    obtain ⟨⟨hlen, hrow⟩, hrest⟩ := h
    cases k with
    | zero =>
      have := chkRow_sound hF r 0 F (by simpa using hF) hrow j (by omega) (by simpa using hs)
      rw [mul_nsmul']
      simpa using this
    | succ k =>
      have hF' : NRep (dbl8 F) ((256 ^ (i + 1)) • B) := by
        have := nrep_dbl8 hF
        rwa [← mul_nsmul, ← pow_succ] at this
      have := ih (i + 1) _ hF' hrest k j (by simpa using hk) hj (by rwa [Nat.add_assoc, Nat.add_comm 1 k])
      simpa [Nat.add_assoc, Nat.add_comm 1 k] using this

theorem c_base_length : Gen.Ed25519GeTable.c_base.length = 32 := by decide

/-- from an evaluated checker to the statement about the selected entries -/
theorem baseTable_of_chk {sel : Nat → Nat → Bool} (h : chkTab sel 0 Dos.Ed.base Gen.Ed25519GeTable.c_base = true) :
    ∀ i j, i < 32 → j < 8 → sel i j = true →
      GoodPre (preOf ((Gen.Ed25519GeTable.c_base.getD i []).getD j [])) (((j + 1) * 256 ^ i) • basePt) := by
  intro i j hi hj hs
  have := chkTab_sound (B := basePt) Gen.Ed25519GeTable.c_base 0 Dos.Ed.base (by simpa using nrep_base) h i j
    (by rw [c_base_length]; exact hi) hj (by simpa using hs)
  simpa using this

/-! ### the sample: rows 0, 1, 31 complete, and entry 0 of every row -/

def sampleSel (i j : Nat) : Bool := i == 0 || i == 1 || i == 31 || j == 0

theorem sample_chk : chkTab sampleSel 0 Dos.Ed.base Gen.Ed25519GeTable.c_base = true := by decide +kernel

/-- base[i][j] is a good precomputed representation of (j+1)·256^i·B for the 24 + 29 = 53 entries
(i, j), i < 32, j < 8, with i ∈ {0, 1, 31} or j = 0 -/
theorem baseTable_sample_ok : ∀ i j, i < 32 → j < 8 → (i = 0 ∨ i = 1 ∨ i = 31 ∨ j = 0) →
    GoodPre (preOf ((Gen.Ed25519GeTable.c_base.getD i []).getD j [])) (((j + 1) * 256 ^ i) • basePt) := by
  intro i j hi hj h
  refine baseTable_of_chk sample_chk i j hi hj ?_
  simp only [sampleSel, Bool.or_eq_true, beq_iff_eq]
  tauto

end Dos.Ge

#print axioms Dos.Ge.baseTable_sample_ok

/-
The drivers' instance of the scalar / point types of `Model/VssSym.lean`:
numbers modulo the bn256 group order `r`, points in the discrete-log
representation (`g = 1`, `s • p = s·p`), which is a genuine `ZMod r`-module.
-/
import DosModel.Model.VssSym

namespace Dos.Vss

/-- order of the bn256 groups -/
def rOrder : Nat := 21888242871839275222246405745257275088548364400416034343698204186575808495617

/-- a residue modulo `rOrder` (kept reduced by every operation) -/
structure Zr where
  v : Nat
  deriving DecidableEq, Repr

namespace Zr
def ofNat (n : Nat) : Zr := ⟨n % rOrder⟩
def ofInt (i : Int) : Zr := ⟨(i % (rOrder : Int)).toNat⟩
instance : Zero Zr := ⟨⟨0⟩⟩
instance : One Zr := ⟨⟨1⟩⟩
instance : Add Zr := ⟨fun a b => ⟨(a.v + b.v) % rOrder⟩⟩
instance : Mul Zr := ⟨fun a b => ⟨(a.v * b.v) % rOrder⟩⟩
instance : Neg Zr := ⟨fun a => ⟨(rOrder - a.v % rOrder) % rOrder⟩⟩
instance : Sub Zr := ⟨fun a b => ⟨(a.v + (rOrder - b.v % rOrder)) % rOrder⟩⟩
instance : SMul Zr Zr := ⟨fun a b => ⟨(a.v * b.v) % rOrder⟩⟩
instance : NatCast Zr := ⟨ofNat⟩
instance : IntCast Zr := ⟨ofInt⟩
instance : OfNat Zr n := ⟨ofNat n⟩

def powAux : Nat → Zr → Nat → Zr → Zr
  | 0, _, _, acc => acc
  | fuel + 1, b, e, acc =>
    if e = 0 then acc else powAux fuel (b * b) (e / 2) (if e % 2 = 1 then acc * b else acc)

/-- `b ^ e` by square and multiply -/
def pow (b : Zr) (e : Nat) : Zr := powAux (e + 1) b e 1

/-- inverse by Fermat (`r` is prime); `0⁻¹ = 0` -/
instance : Inv Zr := ⟨fun a => pow a (rOrder - 2)⟩
instance : Div Zr := ⟨fun a b => a * b⁻¹⟩

/-- base point in the discrete-log representation -/
def g : Zr := 1
end Zr

end Dos.Vss

/-
C20 driver: maps a case line of go/props/c20 to the line the real code must print.
Scalar routines = the GENERATED translation of scalar.go executed with the real shift;
Schnorr = Model/Schnorr.lean over the independent SHA-512 / Edwards arithmetic in the same file.
-/
import DosModel.Model.Schnorr
import DosModel.Gen.Ed25519Sc

open Dos Dos.Ed25519 Dos.Schnorr

namespace C20

def H := Sha512.sha512
def g := edGrp

def hex! (s : String) : Bytes := (ofHex s).getD []

def msgOf (tok : String) : Bytes :=
  if tok.startsWith "x" then hex! (tok.drop 1).toString
  else
    match ((tok.drop 1).toString.splitOn ",").map (fun s => s.toNat?.getD 0) with
    | [n, a, b] => (List.range n).map (fun i => UInt8.ofNat ((a * i + b) % 256))
    | _ => []

def zero32 : Bytes := List.replicate 32 0
def one32 : Bytes := 1 :: List.replicate 31 0

/-- scalar.Inv: square-and-multiply over the bits 255…0 of lMinus2, every step is scMul -/
def scInv (a : Bytes) : Bytes := Id.run do
  let mut res := one32
  for j in [0:256] do
    let i := 255 - j
    res := Gen.Ed25519Sc.scMul shrI res res
    if (Gen.Ed25519Sc.lMinus2 / 2 ^ i) % 2 = 1 then
      res := Gen.Ed25519Sc.scMul shrI res a
  return res

def verdict : Except VErr Unit → String
  | .ok _ => "ok"
  | .error e => "rej:" ++ e.name

def stdVerdict (pub msg sig : Bytes) : String :=
  if pub.length = 32 ∧ verifyStd g H pub msg sig then "ok" else "rej"

/-- the nonce `random.Int(l, stream)` draws from the harness' fixed stream: 32 bytes big-endian, top 3 bits
masked, accepted if 0 < k < l; otherwise the stream continues with 00…01 blocks, i.e. k = 1 -/
def nonceOf (kb : Bytes) : Nat :=
  let k := beNat kb % 2 ^ 253
  if 0 < k ∧ k < ell then k else 1

structure StdKey where
  a : Nat          -- clamped secret scalar
  pre : Bytes      -- hash prefix
  pub : Bytes

def stdKey (seed : Bytes) : StdKey :=
  let d := H seed
  let lo := d.take 32
  let a := (leNat lo % 2 ^ 255) / 8 * 8 % 2 ^ 254 + 2 ^ 254
  { a := a, pre := d.drop 32, pub := g.enc (g.smul (a % ell) g.base) }

/-- RFC 8032 §5.1.6 signing (what crypto/ed25519.Sign does) -/
def stdSign (k : StdKey) (msg : Bytes) : Bytes :=
  let r := leNat (H (k.pre ++ msg)) % ell
  let R := g.enc (g.smul r g.base)
  let hk := leNat (H (R ++ k.pub ++ msg)) % ell
  R ++ natLE 32 ((r + hk * k.a) % ell)

def flipBit (bs : Bytes) (b : Nat) : Bytes :=
  bs.mapIdx (fun i x => if i = b / 8 then x ^^^ UInt8.ofNat (2 ^ (b % 8)) else x)

def bundledVerdict (pub msg sig : Bytes) : String :=
  match g.dec pub with
  | none => "rej:key"
  | some A => verdict (verify g H A msg sig)

def step (line : String) : String :=
  let w := words line
  let arg (i : Nat) : String := w.getD i ""
  let hx (i : Nat) : Bytes := hex! (arg i)
  match arg 0 with
  | "sc" =>
    match arg 1 with
    | "muladd" => toHex (Gen.Ed25519Sc.scMulAdd shrI (hx 2) (hx 3) (hx 4))
    | "add" => toHex (Gen.Ed25519Sc.scAdd shrI (hx 2) (hx 3))
    | "sub" => toHex (Gen.Ed25519Sc.scSub shrI (hx 2) (hx 3))
    | "mul" => toHex (Gen.Ed25519Sc.scMul shrI (hx 2) (hx 3))
    | "reduce" => toHex (Gen.Ed25519Sc.scReduce shrI (hx 2))
    | _ => "bad sc op"
  | "api" =>
    match arg 1 with
    | "add" => toHex (scMarshal (Gen.Ed25519Sc.scAdd shrI (hx 2) (hx 3)))
    | "sub" => toHex (scMarshal (Gen.Ed25519Sc.scSub shrI (hx 2) (hx 3)))
    | "mul" => toHex (scMarshal (Gen.Ed25519Sc.scMul shrI (hx 2) (hx 3)))
    | "neg" => toHex (scMarshal (Gen.Ed25519Sc.scSub shrI zero32 (hx 2)))
    | "inv" => toHex (scMarshal (scInv (hx 2)))
    | "setbytes" => toHex (scSetBytes (hx 2))
    | "unmarshal" =>
      match scUnmarshal (hx 2) with
      | .ok v => "ok " ++ toHex (scMarshal v)
      | .error _ => "err size"
    | _ => "bad api op"
  | "pt" =>
    match g.dec (hx 1) with
    | none => "err"
    | some P => "ok " ++ toHex (g.enc P)
  | "sv" =>
    let key := stdKey (hx 1)
    let k := nonceOf (hx 2)
    let msg := msgOf (arg 3)
    let x := key.a % ell
    let sig := sign g H x k msg
    let sig2 := stdSign key msg
    s!"pub={toHex key.pub} sig={toHex sig} bv={bundledVerdict key.pub msg sig} sv={stdVerdict key.pub msg sig} sig2={toHex sig2} bv2={bundledVerdict key.pub msg sig2}"
  | "svx" =>
    let x := leNat (hx 1)
    let k := nonceOf (hx 2)
    let msg := msgOf (arg 3)
    let pub := g.enc (g.smul x g.base)
    let sig := sign g H x k msg
    s!"pub={toHex pub} sig={toHex sig} bv={bundledVerdict pub msg sig} sv={stdVerdict pub msg sig}"
  | "mut" =>
    let key := stdKey (hx 1)
    let k := nonceOf (hx 2)
    let msg := msgOf (arg 3)
    let sig := if arg 4 == "b" then sign g H (key.a % ell) k msg else stdSign key msg
    let what := (arg 5).splitOn ":"
    let kind := what.getD 0 ""
    let a := what.getD 1 ""
    let n := a.toNat?.getD 0
    let (pub, msg, sig) : Bytes × Bytes × Bytes :=
      match kind with
      | "sig" => (key.pub, msg, flipBit sig n)
      | "msg" => (key.pub, flipBit msg n, sig)
      | "app" => (key.pub, msg ++ [UInt8.ofNat n], sig)
      | "key" => (flipBit key.pub n, msg, sig)
      | "splus" => (key.pub, msg, sig.take 32 ++ natLE 32 (leNat (sig.drop 32) + ell))
      | "trunc" => (key.pub, msg, sig.take n)
      | "ext" => (key.pub, msg, sig ++ hex! a)
      | _ => (key.pub, msg, sig)
    s!"bv={bundledVerdict pub msg sig} sv={stdVerdict pub msg sig}"
  | "ali" =>
    -- the value of an operation does not depend on which object receives it: patterns f / r1 / r2 use (A, B),
    -- patterns ab / all use (A, A)
    let a := hx 3
    let b := if arg 2 == "ab" || arg 2 == "all" then hx 3 else hx 4
    match arg 1 with
    | "add" => toHex (scMarshal (Gen.Ed25519Sc.scAdd shrI a b))
    | "sub" => toHex (scMarshal (Gen.Ed25519Sc.scSub shrI a b))
    | "mul" => toHex (scMarshal (Gen.Ed25519Sc.scMul shrI a b))
    | "div" => toHex (scMarshal (Gen.Ed25519Sc.scMul shrI a (scInv b)))
    | "neg" => toHex (scMarshal (Gen.Ed25519Sc.scSub shrI zero32 a))
    | "inv" => toHex (scMarshal (scInv a))
    | "set" => toHex (scMarshal a)
    | _ => "bad ali op"
  | "sca" =>
    let same := arg 2 == "in" || arg 2 == "all"
    let a := hx 3
    let b := if same then a else hx 4
    let c := if same then a else hx 5
    match arg 1 with
    | "muladd" => toHex (Gen.Ed25519Sc.scMulAdd shrI a b c)
    | "add" => toHex (Gen.Ed25519Sc.scAdd shrI a b)
    | "sub" => toHex (Gen.Ed25519Sc.scSub shrI a b)
    | "mul" => toHex (Gen.Ed25519Sc.scMul shrI a b)
    | _ => "bad sca op"
  | "pta" =>
    match g.dec (hx 3), g.dec (hx 4) with
    | some P, some Q0 =>
      let Q := if arg 2 == "ab" || arg 2 == "all" then P else Q0
      let s := leNat (hx 5)
      match arg 1 with
      | "add" => toHex (g.enc (Ed.add P Q))
      | "sub" => toHex (g.enc (Ed.add P (Ed.neg Q)))
      | "neg" => toHex (g.enc (Ed.neg P))
      | "mul" => toHex (g.enc (Ed.smul s P))
      | "mulbase" => toHex (g.enc (Ed.smul s Ed.base))
      | _ => "bad pta op"
    | _, _ => "operand does not decode"
  | "apx" =>
    match arg 1 with
    | "setint64" =>
      let t := arg 2
      let v : Nat := if t.startsWith "-" then (ell - ((t.drop 1).toString.toNat?.getD 0) % ell) % ell
                     else (t.toNat?.getD 0) % ell
      toHex (natLE 32 v)
    | "zero" => toHex (natLE 32 0)
    | "one" => toHex (natLE 32 1)
    | "pick" => toHex (natLE 32 (nonceOf (hx 2)))
    | "clone" => toHex (scMarshal (hx 2))
    | "equal" => s!"equal={hx 2 == hx 3} self=true"
    | "string" => String.join ((scMarshal (hx 2)).map hexOfByte)
    | _ => "bad apx op"
  | _ => "bad case line"

end C20

def main : IO Unit := Dos.lineLoop C20.step

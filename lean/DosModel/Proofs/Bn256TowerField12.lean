/-
C10 layer 4 — gfP12 over gfP6 over gfP2 over the prime field of bn256 is a FIELD: the value
y² − τx² that `gfP12.Invert` hands to `gfP6.Invert` is non-zero for every non-zero xω + y, because gfP6
is a field (Proofs/Bn256TowerField6.lean) in which τ is not a square.
-/
import DosModel.Proofs.Bn256TowerField6
import DosModel.Proofs.Bn256Tower12

namespace Dos.Bn256
namespace TowerField

/-- **the norm y² − τx² of a non-zero element of gfP12 is non-zero** (ω² − τ is irreducible over gfP6) -/
theorem normT_ne_zero (a : Fp12 (ZMod p)) (ha : a ≠ 0) : Fp12.normT a ≠ 0 := by
  intro hN
  have hN' : a.y * a.y - Fp6.tau * (a.x * a.x) = 0 := hN
  by_cases hx : a.x = 0
  · rw [hx, mul_zero, mul_zero, sub_zero] at hN'
    have hy : a.y = 0 := mul_self_eq_zero.mp hN'
    exact ha (Fp12.ext' hx hy)
  · apply tau_not_square (a.y / a.x)
    rw [div_mul_div_comm, div_eq_iff (mul_ne_zero hx hx)]
    linear_combination hN'

/-- over the base field of bn256, gfP12.Invert inverts EVERY non-zero element -/
theorem fp12_invert_all (a : Fp12 (ZMod p)) (ha : a ≠ 0) : a * Fp12.invert a = 1 :=
  Fp12.mul_invert a (fp6_invert_all _ (normT_ne_zero a ha))

theorem fp12_invert_zero : Fp12.invert (0 : Fp12 (ZMod p)) = 0 := by
  show Fp12.invert (Fp12.zero : Fp12 (ZMod p)) = Fp12.zero
  simp only [Fp12.invert, Fp12.mulScalarRecv, Fp12.zero, Fp6.mul_eq, Fp6.neg_eq, Fp6.zero_eq, neg_zero, zero_mul]

end TowerField

/-- gfP12 over the base field of bn256 is a FIELD whose operations are the transcribed functions -/
noncomputable instance instFieldFp12 : Field (Fp12 (ZMod p)) where
  toCommRing := Fp12.instCommRing
  inv := Fp12.invert
  exists_pair_ne := ⟨0, 1, by
    intro h
    have : (0 : Fp12 (ZMod p)).y.z.y = (1 : Fp12 (ZMod p)).y.z.y := congrArg (fun a => a.y.z.y) h
    exact zero_ne_one this⟩
  mul_inv_cancel a ha := TowerField.fp12_invert_all a ha
  inv_zero := TowerField.fp12_invert_zero
  nnqsmul := _
  qsmul := _

end Dos.Bn256

/-
Model of the share collector: the body of `queryLoop`
(`dosnode/dos_query_handler.go`) as a function of one consumed event.

* `bufSign : map[string][]*vss.Signature`  ↦  `buf : Rid → List Share`
  (a missing key and a `nil` value are both the empty list, as in Go);
* `reqSign : map[string]request`           ↦  `reg : Rid → Option Nat`
  (the value is the *pipeline instance* that registered: one `handleQuery`
  run = one context + one reply channel; two runs may use the same request id);
* the contexts of the instances               ↦  `done : Nat → Bool`.

Events are what the single loop goroutine consumes, in the order it consumes
them, plus the (external) cancellation of an instance's context.  Outputs are
the sends on reply channels, `(instance, share)`.

`select { case <-req.ctx.Done(): case req.reply <- s: }` is modelled as: context
done ⇒ dropped, otherwise delivered.  (With the context done AND a receiver
still waiting Go may choose either; `recoverSign` – the only receiver – has
returned by the time `handleQuery`'s deferred `cancel()` runs, which is the
order `cancel` stands for.  The window between `recoverSign` returning and that
cancel, in which the loop waits, is described in design/C13.md.)

Membership is the `ok` idiom (`req, ok := reqSign[id]`) since /repo 1c42e72; on
the pinned commit the test was `reqSign[id].requestID == id`, which for the
empty id and no registration selected the zero value and dereferenced a nil
context (finding F17, corpus/C13).
-/
import DosModel.Model.Util

namespace Dos.Collector
open Dos

abbrev Rid := Bytes

/-- a `*vss.Signature` peer message: its `RequestId` and an identity for the harness -/
structure Share where
  rid : Rid
  tag : Nat
  deriving DecidableEq, Repr

inductive Ev where
  /-- `case msg := <-peerMsg` with a `*vss.Signature` payload -/
  | arrive (s : Share)
  /-- `case req := <-d.reqSignc`: instance `h` registers for request id `r` -/
  | register (h : Nat) (r : Rid)
  /-- the context of instance `h` is cancelled (its pipeline returned / timed out) -/
  | cancel (h : Nat)
  /-- `case <-watchdog.C` -/
  | watchdog
  /-- a peer message of another type (type assertion fails: ignored) -/
  | other
  deriving DecidableEq, Repr

structure St where
  buf  : Rid → List Share
  reg  : Rid → Option Nat
  done : Nat → Bool

def init : St := { buf := fun _ => [], reg := fun _ => none, done := fun _ => false }

def upd {β : Type} (f : Rid → β) (r : Rid) (v : β) : Rid → β := fun x => if x = r then v else f x

/-- the watchdog's test on one entry of `reqSign`: registered and its context is done -/
def gone (st : St) (r : Rid) : Bool :=
  match st.reg r with
  | some h => st.done h
  | none => false

/-- one iteration of the `for { select { … } }` loop: new state and the sends performed -/
def step (st : St) : Ev → St × List (Nat × Share)
  | .arrive s =>
    match st.reg s.rid with
    | some h => if st.done h then (st, []) else (st, [(h, s)])
    | none => ({ st with buf := upd st.buf s.rid (st.buf s.rid ++ [s]) }, [])
  | .register h r =>
    let out := if st.done h then [] else (st.buf r).map (fun s => (h, s))
    ({ st with reg := upd st.reg r (some h), buf := upd st.buf r [] }, out)
  | .cancel h => ({ st with done := fun x => if x = h then true else st.done x }, [])
  | .watchdog =>
    -- every registered request whose context is done: close(reply); delete(bufSign,…); delete(reqSign,…)
    ({ st with reg := fun r => if gone st r then none else st.reg r,
               buf := fun r => if gone st r then [] else st.buf r }, [])
  | .other => (st, [])

/-- the loop over a whole schedule: final state and all sends, in order -/
def run (st : St) : List Ev → St × List (Nat × Share)
  | [] => (st, [])
  | e :: es =>
    let (st1, o1) := step st e
    let (st2, o2) := run st1 es
    (st2, o1 ++ o2)

def outputs (es : List Ev) : List (Nat × Share) := (run init es).2

/-- what instance `h` receives on its reply channel -/
def deliveries (es : List Ev) (h : Nat) : List Share :=
  ((outputs es).filter (fun p => p.1 == h)).map (·.2)

/-- the shares that arrived for request id `r`, in arrival order -/
def arrivalsFor (r : Rid) : List Ev → List Share
  | [] => []
  | .arrive s :: es => if s.rid = r then s :: arrivalsFor r es else arrivalsFor r es
  | _ :: es => arrivalsFor r es

/-! ### line protocol (driver) -/

def parseEv (rids : List Rid) (pos : Nat) (t : String) : Option Ev :=
  match t.toList with
  | 'a' :: rest => do
    let j ← (String.ofList rest).toNat?
    let r ← rids[j]?
    pure (.arrive { rid := r, tag := pos })
  | 'r' :: rest =>
    match (String.ofList rest).splitOn "." with
    | [hs, js] => do
      let h ← hs.toNat?
      let j ← js.toNat?
      let r ← rids[j]?
      pure (.register h r)
    | _ => none
  | 'c' :: rest => do
    let h ← (String.ofList rest).toNat?
    pure (.cancel h)
  -- `f<h>`: the stage of `h` has returned, `handleQuery`'s cancel is still to come.  A share arriving in
  -- that window makes the loop wait for the cancel and is then dropped: for the deliveries the same as a
  -- cancellation at this point (the harness produces the real window and reports how often it was hit).
  | 'f' :: rest => do
    let h ← (String.ofList rest).toNat?
    pure (.cancel h)
  | ['x'] => some .other
  | ['w'] => some .watchdog
  | _ => none

def parseEvs (rids : List Rid) : Nat → List String → Option (List Ev)
  | _, [] => some []
  | pos, t :: ts => do
    let e ← parseEv rids pos t
    let es ← parseEvs rids (pos + 1) ts
    pure (e :: es)

def insertSorted (x : Nat) : List Nat → List Nat
  | [] => [x]
  | y :: ys => if x < y then x :: y :: ys else if x = y then y :: ys else y :: insertSorted x ys

/-- instances mentioned by a register or cancel event, ascending -/
def instancesOf (es : List Ev) : List Nat :=
  es.foldl (fun acc e => match e with
    | .register h _ => insertSorted h acc
    | .cancel h => insertSorted h acc
    | _ => acc) []

def showRun (es : List Ev) : String :=
  let hs := instancesOf es
  if hs.isEmpty then "none" else
  String.intercalate ";" (hs.map (fun h =>
    let ts := (deliveries es h).map (fun s => toString s.tag)
    s!"h{h}=" ++ (if ts.isEmpty then "-" else String.intercalate "," ts)))

def stepLine (line : String) : String :=
  match words line with
  | ["loop", rs, evs] =>
    match (rs.splitOn ";").mapM ofHex with
    | none => "bad-op"
    | some rids =>
      let toks := if evs == "-" then [] else evs.splitOn ","
      match parseEvs rids 0 toks with
      | none => "bad-op"
      | some es => showRun es
  | _ => "bad-op"

end Dos.Collector

/-
Liveness of honest key generation, batch level: `getAndProcessDeals` on a batch of genuine deals of
distinct dealers hands on with an approval for each; `getAndProcessResponses` on a batch of genuine
responses with distinct (dealer, responder) keys reports no error; after all of them `genGroup`
succeeds.
-/
import DosModel.Proofs.DkgLiveStage

set_option linter.unusedSectionVars false

namespace Dos.Dkg
open Dos Dos.Vss

variable {F G : Type} [Field F] [AddCommGroup G] [Module F G] [DecidableEq F] [DecidableEq G]

theorem HAgg.congr {c : Cfg F G} {j : Nat} {R R' : Nat → Prop} {a : Agg F G} (h : ∀ k, R k ↔ R' k)
    (ha : HAgg c j R a) : HAgg c j R' a :=
  ⟨ha.hvs, ha.hsid, ha.ht, ha.hbad, ha.hlen, fun k hk => ha.hin k ((h k).2 hk), fun k hk => ha.hout k (fun h' => hk ((h k).1 h'))⟩

theorem HState.congr {c : Cfg F G} {i : Nat} {D D' : Nat → Prop} {R R' : Nat → Nat → Prop} {RD RD' : Nat → Prop}
    {d : Gen F G} (hD : ∀ x, D x ↔ D' x) (hR : ∀ x y, D x → (R x y ↔ R' x y)) (hRD : ∀ y, RD y ↔ RD' y)
    (h : HState c i D R RD d) : HState c i D' R' RD' d := by
  refine ⟨h.hpart, h.hidx, h.hlong, h.hlen, h.hfind, ?_, ?_, ⟨HAgg.congr hRD h.hdealer.1, h.hdealer.2⟩⟩
  · intro j hj
    have hDj := (hD j).2 hj
    obtain ⟨v, hv, hs⟩ := h.hslot j hDj
    obtain ⟨a, ha1, ha2, ha3, ha4⟩ := hs.hagg
    exact ⟨v, hv, ⟨hs.hdealer, hs.hvs, hs.hlong, hs.hindex, ⟨a, ha1, HAgg.congr (fun k => hR j k hDj) ha2, ha3, ha4⟩, hs.happ⟩⟩
  · intro j hj; exact h.hnone j (fun h' => hj ((hD j).1 h'))

/-- slots for the own deal and the dealers in `Ds` -/
def DOf (i : Nat) (Ds : List Nat) : Nat → Prop := fun x => x = i ∨ x ∈ Ds
/-- slot `x` holds the own approval, the dealer's auto-approval and the responses in `Ps` -/
def ROf (i : Nat) (Ps : List (Nat × Nat)) : Nat → Nat → Prop := fun x y => y = i ∨ y = x ∨ (x, y) ∈ Ps
def RDOf (i : Nat) (Ps : List (Nat × Nat)) : Nat → Prop := fun y => (i, y) ∈ Ps

/-- a genuine deal message of dealer `j` for member `i` -/
def GenuineDealFor (c : Cfg F G) (i : Nat) (m : DkgDeal F G) : Prop :=
  ∃ (eph : F) (rnd : Nat) (e : EncDeal F G), m.index < c.n ∧ m.deal = some e ∧
    sealDeal c.g (c.longs.getD m.index 0) c.pubs i eph rnd (.deal (c.deal m.index i)) = some e

/-- **`getAndProcessDeals` on genuine deals of new, distinct dealers** -/
theorem runDeals_genuine (c : Cfg F G) (ephs : List (List F)) (hw : WellFormed c ephs) (i : Nat) (hi : i < c.n) :
    ∀ (batch : List (DkgDeal F G)) (Ds : List Nat) (d : Gen F G) (acc : List (DkgResp F G)),
      HState c i (DOf i Ds) (ROf i []) (RDOf i []) d →
      (∀ m ∈ batch, GenuineDealFor c i m) → (batch.map (·.index)).Nodup →
      (∀ m ∈ batch, m.index ≠ i ∧ m.index ∉ Ds) →
      ∃ d', runDeals c.g d batch acc =
          (d', some (acc ++ batch.map (fun m => ⟨m.index, some (c.resp m.index i 0)⟩))) ∧
        HState c i (DOf i (Ds ++ batch.map (·.index))) (ROf i []) (RDOf i []) d' := by
  intro batch
  induction batch with
  | nil => intro Ds d acc hd _ _ _; exact ⟨d, by simp [runDeals], by simpa using hd⟩
  | cons m ms ih =>
    intro Ds d acc hd hgen hnd hnew
    obtain ⟨eph, rnd, e, hjn, hme, hseal⟩ := hgen m (by simp)
    have hnD : ¬ DOf i Ds m.index := by
      intro h; rcases h with h | h
      · exact (hnew m (by simp)).1 h
      · exact (hnew m (by simp)).2 h
    have hm : m = ⟨m.index, some e⟩ := by cases m; simp_all
    obtain ⟨hres, hst⟩ := processDeal_genuine_ok c ephs hw i hi (DOf i Ds) (ROf i []) (RDOf i []) d hd m.index hjn hnD eph rnd e hseal
    rw [← hm] at hres hst
    have hst' : HState c i (DOf i (Ds ++ [m.index])) (ROf i []) (RDOf i []) (processDeal c.g d m).1 := by
      refine HState.congr ?_ ?_ (fun _ => Iff.rfl) hst
      · intro x; simp only [DOf, List.mem_append, List.mem_singleton]; tauto
      · intro x y _
        by_cases hx : x = m.index
        · simp only [hx, if_true, ROf, List.not_mem_nil, or_false]
        · simp only [hx, if_false]
    simp only [List.map_cons, List.nodup_cons] at hnd
    obtain ⟨d', hrun, hfin⟩ := ih (Ds ++ [m.index]) (processDeal c.g d m).1 (acc ++ [⟨m.index, some (c.resp m.index i 0)⟩]) hst'
      (fun x hx => hgen x (by simp [hx])) hnd.2 (by
        intro x hx
        refine ⟨(hnew x (by simp [hx])).1, ?_⟩
        simp only [List.mem_append, List.mem_singleton, not_or]
        refine ⟨(hnew x (by simp [hx])).2, ?_⟩
        intro he; exact hnd.1 (by rw [← he]; exact List.mem_map.2 ⟨x, hx, rfl⟩))
    refine ⟨d', ?_, by simpa [List.append_assoc] using hfin⟩
    rw [runDeals]
    rcases hpd : processDeal c.g d m with ⟨d1, res⟩
    rw [hpd] at hres hrun
    simp only at hres hrun
    subst hres
    simp only [Cfg.resp, if_true]
    simpa [List.append_assoc, Cfg.resp] using hrun

/-- a genuine response message about dealer `j` by member `k` -/
def GenuineRespMsg (c : Cfg F G) (m : DkgResp F G) (j k : Nat) : Prop :=
  ∃ rnd, m = ⟨j, some (c.resp j k rnd)⟩

/-- **`getAndProcessResponses` on genuine responses with new, distinct (dealer, responder) keys** -/
theorem runResps_genuine (c : Cfg F G) (i : Nat) (Ds : List Nat) :
    ∀ (batch : List (DkgResp F G)) (keys : List (Nat × Nat)) (Ps : List (Nat × Nat)) (d : Gen F G),
      HState c i (DOf i Ds) (ROf i Ps) (RDOf i Ps) d →
      List.Forall₂ (fun m (p : Nat × Nat) => GenuineRespMsg c m p.1 p.2) batch keys → keys.Nodup →
      (∀ p ∈ keys, p.1 < c.n ∧ p.2 < c.n ∧ DOf i Ds p.1 ∧ p.2 ≠ i ∧ p.2 ≠ p.1 ∧ p ∉ Ps) →
      ∃ d', runResps c.g d batch = (d', true) ∧ HState c i (DOf i Ds) (ROf i (Ps ++ keys)) (RDOf i (Ps ++ keys)) d' := by
  intro batch
  induction batch with
  | nil =>
    intro keys Ps d hd hf _ _
    cases hf
    exact ⟨d, by simp [runResps], by simpa using hd⟩
  | cons m ms ih =>
    intro keys Ps d hd hf hnd hnew
    cases hf with
    | cons hhead htail =>
      rename_i p ps
      obtain ⟨rnd, hm⟩ := hhead
      obtain ⟨h1, h2, h3, h4, h5, h6⟩ := hnew p (by simp)
      have hnR : ¬ ROf i Ps p.1 p.2 := by
        intro h; rcases h with h | h | h
        · exact h4 h
        · exact h5 h
        · exact h6 h
      have hnRD : p.1 = i → ¬ RDOf i Ps p.2 := by
        intro he h; apply h6; have : (i, p.2) = p := by rw [← he]
        rw [← this]; exact h
      obtain ⟨⟨x, hok⟩, hst⟩ := processResponse_genuine_ok c i (DOf i Ds) (ROf i Ps) (RDOf i Ps) d hd p.1 p.2 rnd h1 h2 h3 hnR hnRD
      rw [← hm] at hok hst
      have hst' : HState c i (DOf i Ds) (ROf i (Ps ++ [p])) (RDOf i (Ps ++ [p])) (processResponse c.g d m).1 := by
        refine HState.congr (fun _ => Iff.rfl) ?_ ?_ hst
        · intro x y _
          by_cases hx : x = p.1
          · subst hx
            simp only [if_true, ROf, List.mem_append, List.mem_singleton]
            constructor
            · rintro (⟨h | h | h⟩ | h)
              · exact Or.inl h
              · exact Or.inr (Or.inl h)
              · exact Or.inr (Or.inr (Or.inl h))
              · exact Or.inr (Or.inr (Or.inr (by rw [h])))
            · rintro (h | h | h | h)
              · exact Or.inl (Or.inl h)
              · exact Or.inl (Or.inr (Or.inl h))
              · exact Or.inl (Or.inr (Or.inr h))
              · exact Or.inr (by rw [← h])
          · simp only [hx, if_false, ROf, List.mem_append, List.mem_singleton]
            constructor
            · rintro (h | h | h)
              · exact Or.inl h
              · exact Or.inr (Or.inl h)
              · exact Or.inr (Or.inr (Or.inl h))
            · rintro (h | h | h | h)
              · exact Or.inl h
              · exact Or.inr (Or.inl h)
              · exact Or.inr (Or.inr h)
              · exact absurd (by rw [← h]) hx
        · intro y
          by_cases hx : p.1 = i
          · simp only [hx, if_true, RDOf, List.mem_append, List.mem_singleton]
            constructor
            · rintro (h | h)
              · exact Or.inl h
              · exact Or.inr (by rw [← hx, h])
            · rintro (h | h)
              · exact Or.inl h
              · exact Or.inr (by rw [← h])
          · simp only [hx, if_false, RDOf, List.mem_append, List.mem_singleton]
            constructor
            · intro h; exact Or.inl h
            · rintro (h | h)
              · exact h
              · exact absurd (by rw [← h]) hx
      simp only [List.nodup_cons] at hnd
      obtain ⟨d', hrun, hfin⟩ := ih ps (Ps ++ [p]) (processResponse c.g d m).1 hst' htail hnd.2 (by
        intro q hq
        obtain ⟨q1, q2, q3, q4, q5, q6⟩ := hnew q (by simp [hq])
        refine ⟨q1, q2, q3, q4, q5, ?_⟩
        simp only [List.mem_append, List.mem_singleton, not_or]
        exact ⟨q6, fun he => hnd.1 (by rw [← he]; exact hq)⟩)
      refine ⟨d', ?_, by simpa [List.append_assoc] using hfin⟩
      rw [runResps]
      rcases hpr : processResponse c.g d m with ⟨d1, res⟩
      rw [hpr] at hok hrun
      simp only at hok hrun
      subst hok
      exact hrun

end Dos.Dkg

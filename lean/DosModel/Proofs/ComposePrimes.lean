/-
Composition helpers: the kernel-checked primality theorems of `Proofs/Primes.lean` as `Fact` instances
for the MODEL constants (the group orders the drivers compute with, regenerated from /repo into
`Gen/TblsFacts.lean`, and the ed25519 order of `Model/Ed25519Scalar.lean`).  The statements are
definitionally the ones of `Proofs/Primes.lean` (closed `Nat` literals), so each instance is the theorem
itself; if /repo's constant changes, the instance no longer type-checks.
-/
import DosModel.Proofs.Primes
import DosModel.Proofs.ShareZq
import DosModel.Model.Ed25519Scalar

namespace Dos.Compose
open Dos

/-- the bn256 group order `Order` of group/bn256/constants.go (as regenerated) is prime -/
theorem bn256Order_prime : Nat.Prime Share.bn256Order := Dos.Primes.bn256_r_prime

/-- the ed25519 base-point order `primeOrder` of group/edwards25519/const.go (as regenerated) is prime -/
theorem ed25519Order_prime : Nat.Prime Share.ed25519Order := Dos.Primes.ed25519_l_prime

/-- ℓ of `Model/Ed25519Scalar.lean` (C20) is prime -/
theorem ell_prime : Nat.Prime Ed25519.ell := Dos.Primes.ed25519_l_prime

/-- the bn256 base-field prime `P` (as regenerated) is prime -/
theorem bn256P_prime : Nat.Prime Gen.bn256P := Dos.Primes.bn256_p_prime

instance fact_bn256Order : Fact (Nat.Prime Share.bn256Order) := ⟨bn256Order_prime⟩
instance fact_ed25519Order : Fact (Nat.Prime Share.ed25519Order) := ⟨ed25519Order_prime⟩
instance fact_ell : Fact (Nat.Prime Ed25519.ell) := ⟨ell_prime⟩

end Dos.Compose

import DosModel.Model.Query
def c13Line (line : String) : String :=
  match Dos.words line with
  | "inc" :: rest => Dos.Query.incLine rest
  | _ => Dos.Collector.stepLine line
def main : IO Unit := Dos.lineLoop c13Line

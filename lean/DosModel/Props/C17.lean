/-
C17 — every p2p request gets its own reply, at most once, or a prompt error.

Property theorems only (helpers: `Proofs/Dispatch*.lean`).  The model is
`Model/Dispatch.lean`: one event = one alternative of a `select` taken by one of
the goroutines on the request path; every theorem below quantifies over EVERY
finite event sequence (every schedule, every mixture of replies, duplicates,
unknown nonces, cancellations and connection closes), starting from the empty
connection.  "Promptly" is measured by the correspondence run, not proved.
-/
import DosModel.Proofs.DispatchTrace
import DosModel.Proofs.ConnTableServe
import DosModel.Proofs.ConnTableGuard
import DosModel.Model.ConnTableCfg
import DosModel.Gen.P2PFlow

namespace Dos.Props.C17
open Dos Dos.Dispatch

/-- regenerated facts (go/ast over p2p/client.go, p2p/server.go) that the hand model relies on:
dispatch registers a request only when it is not a Reply, removes the entry when the reply comes,
counts the nonce up; packPipe completes only Replies. -/
theorem c17_code_shape :
    Gen.dispatchRegistersOnlyNonReply = true ∧ Gen.dispatchDeletesOnReply = true ∧
    Gen.dispatchNonceIncrements = true ∧ Gen.packCompletesOnlyReply = true := by decide

/-- regenerated facts: handleCallReq puts a deadline on the connection before the handshake and the
merge of the handshake's error channels closes on every path (the two repairs of F13); the
`callHandler` model below is instantiated with their conjunction — "the handshake sub-procedure
always returns" — so theorem 5 is about the code as it is. -/
theorem c17_handshake_bounded : (Gen.handshakeDeadline && Gen.mergeErrorsReleases) = true := by decide

/-- regenerated fact: every dial in handleCallReq is bounded (net.DialTimeout or a method of a `net.Dialer{…}`
literal that sets Timeout/Deadline; the repair d4164a7 of review 5-D #2) — "the dial always returns", the
second switch of the `callHandler` model. -/
theorem c17_dial_bounded : Gen.dialBounded = true := by decide

/-- **1. nonces are fresh**: on a connection no two requests ever carry the same nonce. -/
theorem nonce_fresh (evs : List Ev) (i j k : Nat)
    (hi : ((run init evs).reqs i).nonce = some k) (hj : ((run init evs).reqs j).nonce = some k) :
    i = j :=
  (run_inv evs init Inv.init).core.uniq i j k hi hj

/-- the nonce given at send is the connection's counter, which then moves on; once given it never changes -/
theorem nonce_is_counter (evs : List Ev) (i : Nat) (fwd : Bool)
    (hq : ((run init evs).reqs i).stage = .queued) (ht : ((run init evs).reqs i).rtype = .send)
    (hl : (run init evs).conn.stopped = false) (hf : fwd = true ∨ (run init evs).conn.ctxDone = true) :
    ((step (run init evs) (.dsend i fwd)).reqs i).nonce = some (run init evs).conn.next ∧
    (step (run init evs) (.dsend i fwd)).conn.next = (run init evs).conn.next + 1 ∧
    ∀ more, ((run (step (run init evs) (.dsend i fwd)) more).reqs i).nonce = some (run init evs).conn.next := by
  have hs := run_inv evs init Inv.init
  have h1 : ((step (run init evs) (.dsend i fwd)).reqs i).nonce = some (run init evs).conn.next := by
    simp [step, hq, ht, hl, hf, Sys.upd]
  refine ⟨h1, by simp [step, hq, ht, hl, hf], ?_⟩
  intro more
  have hs1 := step_inv hs (.dsend i fwd)
  generalize step (run init evs) (.dsend i fwd) = s1 at h1 hs1
  induction more generalizing s1 with
  | nil => exact h1
  | cons e es ih => exact ih (step s1 e) (step_nonce_stable hs1 e i _ h1) (step_inv hs1 e)

/-- **2a. a reply with an unknown nonce completes nothing** (the state does not change at all) -/
theorem reply_unknown_nonce (s : Sys) (k m : Nat) (race win : Bool)
    (h : lookup s.conn.pending k = none) : step s (.reply k m race win) = s := by
  simp only [step, h]; split <;> rfl

/-- **2b. a reply with nonce `k` completes exactly the request that was given `k`, hands it that
very message, and removes the entry** — nobody else is touched. -/
theorem reply_to_owner (evs : List Ev) (k m i : Nat) (win : Bool)
    (hl : lookup (run init evs).conn.pending k = some i)
    (hrun : (run init evs).conn.stopped = false)
    (hctx : ((run init evs).reqs i).ctxDone = false) :
    let s' := step (run init evs) (.reply k m false win)
    ((run init evs).reqs i).nonce = some k ∧
    (s'.reqs i).waiter = .got (.msg m) ∧ (s'.reqs i).vals = [.msg m] ∧ (s'.reqs i).closes = 1 ∧
    lookup s'.conn.pending k = none ∧ ∀ j, j ≠ i → s'.reqs j = (run init evs).reqs j := by
  have hs := run_inv evs init Inv.init
  generalize run init evs = s at *
  have hmem := lookup_mem hl
  have hp := hs.pend k i hmem
  have hfresh := pend_fresh hs hmem
  have hr := hs.core.req i
  have hwait : (s.reqs i).waiter = .waiting := by
    cases hw : (s.reqs i).waiter
    · rfl
    · have := hr.wctx (by rw [hw]; simp); rw [hctx] at this; simp at this
    · have := hr.wctx (by rw [hw]; simp); rw [hctx] at this; simp at this
  have hvals : (s.reqs i).vals = [] := by rw [hr.vals, hwait]
  have hstep : step s (.reply k m false win) =
      ({ s with conn := { s.conn with pending := erase s.conn.pending k } } : Sys).upd i
        (fun r => r.complete .table (.msg m) win) := by
    simp [step, hrun, hl, hctx]
  have hcomp : (s.reqs i).complete .table (.msg m) win =
      { (s.reqs i).setOnce .table with waiter := .got (.msg m), vals := (s.reqs i).vals ++ [.msg m], closes := (s.reqs i).closes + 1, ctxDone := true } := by
    rcases complete_cases (s.reqs i) .table (.msg m) win with ⟨h1, _⟩ | ⟨_, _, e⟩ | ⟨_, hd, _⟩
    · rw [hfresh.2 .table] at h1; simp at h1
    · exact e
    · exact absurd ⟨hwait, Or.inl hctx⟩ hd
  intro s'
  have hs' : s' = ({ s with conn := { s.conn with pending := erase s.conn.pending k } } : Sys).upd i
        (fun r => r.complete .table (.msg m) win) := hstep
  refine ⟨hp.2.1, ?_, ?_, ?_, ?_, ?_⟩
  · rw [hs', upd_reqs_same]; show ((s.reqs i).complete .table (.msg m) win).waiter = _; rw [hcomp]
  · rw [hs', upd_reqs_same]; show ((s.reqs i).complete .table (.msg m) win).vals = _; rw [hcomp]
    show (s.reqs i).vals ++ [Res.msg m] = _; rw [hvals]; rfl
  · rw [hs', upd_reqs_same]; show ((s.reqs i).complete .table (.msg m) win).closes = _; rw [hcomp]
    show (s.reqs i).closes + 1 = 1; rw [hfresh.1]
  · rw [hs']; show lookup (erase s.conn.pending k) k = none
    unfold lookup erase
    have : List.find? (fun e => e.1 == k) (List.filter (fun e => !(e.1 == k)) s.conn.pending) = none := by
      rw [List.find?_eq_none]; intro x hx
      have := (List.mem_filter.mp hx).2
      simpa using this
    rw [this]
  · intro j hj; rw [hs', upd_reqs_other _ _ _ _ hj]

/-- **2c. never another request's reply**: whatever the history, a reply message held by a caller was
carried by a reply event bearing the nonce of *that* caller's request (and by 1 nobody else has it). -/
theorem delivered_reply_is_own (evs : List Ev) (i m : Nat)
    (h : ((run init evs).reqs i).waiter = .got (.msg m)) :
    ∃ k race win, Ev.reply k m race win ∈ evs ∧ ((run init evs).reqs i).nonce = some k ∧
      ∀ j, ((run init evs).reqs j).nonce = some k → j = i := by
  have := run_own evs init [] Inv.init (by intro i m h; simp [Dispatch.init] at h) i m h
  obtain ⟨k, race, win, hm, hn⟩ := this
  exact ⟨k, race, win, by simpa using hm, hn, fun j hj => nonce_fresh evs j i k hj hn⟩

/-- **3. at most once**: whatever happens, a request's reply channel carries at most one value and is
closed at most once (a second close would be Go's "close of closed channel" panic), although every
holder of a by-value copy has its own `sync.Once`. -/
theorem at_most_once (evs : List Ev) (i : Nat) :
    ((run init evs).reqs i).closes ≤ 1 ∧ ((run init evs).reqs i).vals.length ≤ 1 :=
  ⟨((run_inv evs init Inv.init).core.req i).closes_le_one, ((run_inv evs init Inv.init).core.req i).vals_le_one⟩

/-- the call returns at most once: once the caller has an outcome, no later event changes it -/
theorem returns_once (evs more : List Ev) (i : Nat)
    (h : ((run init evs).reqs i).waiter ≠ .waiting) :
    ((run init (evs ++ more)).reqs i).waiter = ((run init evs).reqs i).waiter := by
  rw [run_append]
  exact run_waiter_stable more _ (run_inv evs init Inv.init) i h

/-- what the caller returns is what came on the channel, if anything did -/
theorem result_is_channel_value (evs : List Ev) (i : Nat) (v : Res) :
    ((run init evs).reqs i).waiter = .got v ↔ ((run init evs).reqs i).vals = [v] := by
  have := ((run_inv evs init Inv.init).core.req i).vals
  constructor
  · intro h; rw [this, h]
  · intro h; rw [this] at h
    cases hw : ((run init evs).reqs i).waiter <;> rw [hw] at h <;> simp at h
    rw [h]

/-- **4a. cancellation returns an error**: a caller still waiting when its context ends returns the
context's error (and by `returns_once` keeps it; by `at_most_once` nothing panics later). -/
theorem cancel_returns_error (evs : List Ev) (i : Nat)
    (hex : ((run init evs).reqs i).stage ≠ .absent)
    (hw : ((run init evs).reqs i).waiter = .waiting) :
    ((run (run init evs) [.cancel i, .waiterCtx i]).reqs i).waiter = .ctxErr := by
  generalize run init evs = s at *
  have h1 : step s (.cancel i) = s.upd i (fun r => { r with ctxDone := true }) := by
    simp [step, hex]
  have h2 : ((s.upd i (fun r => { r with ctxDone := true })).reqs i).waiter = .waiting ∧
      ((s.upd i (fun r => { r with ctxDone := true })).reqs i).ctxDone = true := by
    rw [upd_reqs_same]; exact ⟨hw, rfl⟩
  simp only [run, List.foldl_cons, List.foldl_nil, h1]
  generalize s.upd i (fun r => { r with ctxDone := true }) = s1 at h2
  have h3 : step s1 (.waiterCtx i) = s1.upd i (fun r => { r with waiter := .ctxErr }) := by
    simp [step, h2]
  rw [h3, upd_reqs_same]

/-- **4b. closing the connection fails every pending request**: when dispatch sees its context done it
empties the table, stops, and EVERY registered request gets exactly one completion (its reply channel
is closed exactly once, by the table copy): a caller whose own context is still live receives the
error `errClosed`; for a caller whose context had already ended the channel is closed without anybody
blocking — that caller either still takes the error or keeps/gets its context error, and in every case
it has returned once it takes its `ctx.Done` alternative. -/
theorem close_fails_pending (evs : List Ev) (win : List Nat)
    (hc : (run init evs).conn.ctxDone = true) (hl : (run init evs).conn.stopped = false) :
    let s' := step (run init evs) (.ctxDone win)
    s'.conn.pending = [] ∧ s'.conn.stopped = true ∧
    ∀ k i, (k, i) ∈ (run init evs).conn.pending →
      ((s'.reqs i).closes = 1 ∧ (s'.reqs i).onceT = true) ∧
      (((run init evs).reqs i).ctxDone = false →
          (s'.reqs i).waiter = .got .errClosed ∧ (s'.reqs i).vals = [.errClosed]) ∧
      (((run init evs).reqs i).ctxDone = true →
          ((s'.reqs i).waiter = ((run init evs).reqs i).waiter ∨ (s'.reqs i).waiter = .got .errClosed) ∧
          ((step s' (.waiterCtx i)).reqs i).waiter ≠ .waiting) := by
  have hs := run_inv evs init Inv.init
  generalize run init evs = s at *
  intro s'
  have hs' : s' = { failAll win s.conn.pending s with
      conn := { (failAll win s.conn.pending s).conn with pending := [], stopped := true } } := by
    show step s (.ctxDone win) = _
    simp [step, hc, hl]
  refine ⟨by rw [hs'], by rw [hs'], ?_⟩
  intro k i hki
  have hfresh := pend_fresh hs hki
  have hr := hs.core.req i
  have hreq : s'.reqs i = (s.reqs i).complete .table .errClosed (win.contains i) := by
    rw [hs']; show (failAll win s.conn.pending s).reqs i = _
    rw [failAll_reqs]
    have : (s.conn.pending.map Prod.snd).contains i = true := by
      simp only [List.contains_iff_mem, List.mem_map]
      exact ⟨(k, i), hki, rfl⟩
    rw [this]; rfl
  have honce : (s'.reqs i).onceT = true := by
    have := complete_once (s.reqs i) .table .errClosed (win.contains i) .table
    simp only [Req.once] at this
    rw [hreq, this]; simp
  have hcl : (s'.reqs i).closes = 1 := by
    rcases complete_cases (s.reqs i) .table .errClosed (win.contains i) with ⟨h1, _⟩ | ⟨_, _, e⟩ | ⟨_, _, e⟩
    · rw [hfresh.2 .table] at h1; simp at h1
    · rw [hreq, e]; show (s.reqs i).closes + 1 = 1; rw [hfresh.1]
    · rw [hreq, e]; show (s.reqs i).closes + 1 = 1; rw [hfresh.1]
  refine ⟨⟨hcl, honce⟩, ?_, ?_⟩
  · intro hctx'
    have hwait : (s.reqs i).waiter = .waiting := by
      cases hw : (s.reqs i).waiter
      · rfl
      · have := hr.wctx (by rw [hw]; simp); rw [hctx'] at this; simp at this
      · have := hr.wctx (by rw [hw]; simp); rw [hctx'] at this; simp at this
    have hvals : (s.reqs i).vals = [] := by rw [hr.vals, hwait]
    rcases complete_cases (s.reqs i) .table .errClosed (win.contains i) with ⟨h1, _⟩ | ⟨_, _, e⟩ | ⟨_, hd, _⟩
    · rw [hfresh.2 .table] at h1; simp at h1
    · rw [hreq, e]
      refine ⟨rfl, ?_⟩
      show (s.reqs i).vals ++ [Res.errClosed] = _; rw [hvals]; rfl
    · exact absurd ⟨hwait, Or.inl hctx'⟩ hd
  · intro hctx
    have hw' : (s'.reqs i).waiter = (s.reqs i).waiter ∨ (s'.reqs i).waiter = .got .errClosed := by
      rcases complete_waiter (s.reqs i) .table .errClosed (win.contains i) with h1 | ⟨_, _, h3⟩
      · left; rw [hreq]; exact h1
      · right; rw [hreq]; exact h3
    have hctx' : (s'.reqs i).ctxDone = true := by
      rw [hreq]; exact complete_ctx _ _ _ _ hctx
    refine ⟨hw', ?_⟩
    simp only [step]
    by_cases hg : (s'.reqs i).waiter = .waiting ∧ (s'.reqs i).ctxDone = true
    · rw [if_pos hg, upd_reqs_same]; simp
    · rw [if_neg hg]
      intro hwt; exact hg ⟨hwt, hctx'⟩

/-- a reply that comes after its request was cancelled completes nothing and closes nothing -/
theorem late_reply_ignored (evs : List Ev) (k m i : Nat) (race win : Bool)
    (hl : lookup (run init evs).conn.pending k = some i)
    (hctx : ((run init evs).reqs i).ctxDone = true) :
    ∀ j, (step (run init evs) (.reply k m race win)).reqs j = (run init evs).reqs j := by
  intro j
  simp only [step]
  split
  · rfl
  · simp [hl, hctx]

/-- why `sync.Once` alone would not give 3: by-value copies do not share it.  Two copies of one
request object and `replyResult` on each close the channel twice (`Obj` is the request object with
arbitrarily many copies; its semantics is checked against real Go by the `obj` cases) … -/
theorem copies_do_not_share_once :
    ([OEv.copy 0, .fire 0 (.msg 5) false, .fire 1 (.msg 6) false].foldl ostep {}).closes = 2 := by decide

/-- … whereas one copy fires at most once, and a copy taken after the Once fired is inert -/
theorem one_copy_fires_once (o : Obj) (a : Nat) (v w : Res) (b c : Bool) :
    (ostep (ostep o (.fire a v b)) (.fire a w c)).closes = (ostep o (.fire a v b)).closes := by
  simp only [ostep]
  by_cases h2 : o.closes ≥ 2
  · simp [h2]
  · simp only [h2, if_false]
    cases ha : o.onces[a]? with
    | none => simp [h2, ha]
    | some x =>
      cases x
      · have hlt : a < o.onces.length := by
          rcases List.getElem?_eq_some_iff.mp ha with ⟨h, _⟩; exact h
        simp only
        split <;> (split <;> simp [List.getElem?_set, hlt])
      · simp [h2, ha]

/-! ### 5. a silent or black-holed peer does not wedge requests to other peers (`callHandler`) -/

/-- the full statement, parameterised by whether the handshake read (`deadline`) and the dial (`dialB`)
are bounded: every request to a peer that answers is handed on, whatever the other requests in the history
are about — peers that refuse, fail the handshake, accept and stay silent, or never answer the SYN. -/
def silent_peer_isolated_full (deadline dialB : Bool) : Prop :=
  ∀ (h : Handler) (evs : List HEv) (i p : Nat), h.wedged = false →
    HEv.call i p .ok ∈ evs → HOut.handed i p ∈ (hrun deadline dialB h evs).2

theorem hstep_not_wedged (h : Handler) (e : HEv) (hw : h.wedged = false) :
    (hstep true true h e).1.wedged = false := by
  cases e with
  | call i p d =>
    cases hc : h.clients.contains p
    · rw [hstep_call_new true true h i p d hw hc]; cases d <;> simp [hw]
    · rw [hstep_call_known true true h i p d hw hc]; exact hw
  | remove p => exact (hstep_remove true true h p hw).1
  | tick => exact hw

example : (hstep true true {} (.call 0 7 .blackhole)).1.wedged = false ∧
    (hstep true true {} (.call 0 7 .silent)).1.wedged = false := ⟨rfl, rfl⟩

/-- **5. with the handshake and the dial bounded (the code as repaired; see `c17_handshake_bounded`,
`c17_dial_bounded`)** every request to a peer that answers is handed to that peer's client, whatever other
peers do — refuse, fail the handshake, stay silent or never answer the SYN — before or after it. -/
theorem silent_peer_isolated : silent_peer_isolated_full true true := by
  intro h evs
  induction evs generalizing h with
  | nil => intro i p _ hm; simp at hm
  | cons e es ih =>
    intro i p hw hm
    simp only [hrun]
    rcases List.mem_cons.mp hm with he | he
    · subst he
      have : HOut.handed i p ∈ (hstep true true h (.call i p .ok)).2 := by
        cases hc : h.clients.contains p
        · rw [hstep_call_new true true h i p .ok hw hc]; simp
        · rw [hstep_call_known true true h i p .ok hw hc]; simp
      exact List.mem_append_left _ this
    · exact List.mem_append_right _ (ih _ i p (hstep_not_wedged h e hw) he)

example : HOut.handed 2 8 ∈
    (hrun true true {} [.call 0 7 .silent, .call 1 9 .blackhole, .call 2 8 .ok]).2 := by decide

/-- the same for the code's own values of the switches -/
theorem silent_peer_isolated_code :
    silent_peer_isolated_full (Gen.handshakeDeadline && Gen.mergeErrorsReleases) Gen.dialBounded := by
  rw [c17_handshake_bounded, c17_dial_bounded]; exact silent_peer_isolated

/-- **with the dial bounded a request to a black-holed peer gets an error** (and one to a silent peer with
the handshake bounded), and the handler goes on: it is not wedged afterwards. -/
theorem blackhole_request_fails (h : Handler) (i p : Nat) (dl : Bool) (hw : h.wedged = false)
    (hc : h.clients.contains p = false) :
    hstep dl true h (.call i p .blackhole) = (h, [.failed i]) := by
  rw [hstep_call_new dl true h i p .blackhole hw hc]; rfl

example : hstep false true {} (.call 3 7 .blackhole) = ({}, [.failed 3]) := rfl

/-- **the defect that was there (F13)**: without a bound on the handshake read the statement is false —
one silent peer, then a request to a healthy one, which is never handed on. -/
theorem silent_peer_wedges_without_deadline (dialB : Bool) : ¬ silent_peer_isolated_full false dialB := by
  intro h
  have := h {} [.call 0 7 .silent, .call 1 8 .ok] 1 8 rfl (by simp)
  revert this; cases dialB <;> decide

/-- **the defect that was there (review 5-D #2, repaired by d4164a7)**: with a bare `net.Dial` the statement
is false although the handshake is bounded — the node is CONNECTED to the healthy peer 8 (first request),
one request goes to a black-holed peer, and no later request to peer 8 is handed on, though none of them
needs a dial. -/
theorem blackhole_wedges_without_dial_bound (deadline : Bool) : ¬ silent_peer_isolated_full deadline false := by
  intro h
  have := h {} [.call 0 8 .ok, .call 1 7 .blackhole, .call 2 8 .ok] 2 8 rfl (by simp)
  revert this; cases deadline <;> decide

example : (hrun true false {} [.call 0 8 .ok, .call 1 7 .blackhole, .call 2 8 .ok, .call 3 8 .ok]).2 = [.handed 0 8] := rfl

/-- … and it is total: once the unbounded dial has been entered for a black-holed peer that is not yet a
client, NOTHING is handed on or failed any more, whatever is asked afterwards (requests wait at `sendReq`
until their own deadline). -/
theorem blackhole_wedge_is_total (deadline : Bool) (h : Handler) (i p : Nat) (evs : List HEv)
    (hw : h.wedged = false) (hc : h.clients.contains p = false) :
    (hrun deadline false h (.call i p .blackhole :: evs)).2 = [] := by
  simp only [hrun]
  rw [hstep_call_new deadline false h i p .blackhole hw hc]
  simp only [Bool.false_eq_true, if_false]
  rw [hrun_wedged deadline false _ evs rfl]; rfl

example : (hrun true false {} (.call 0 7 .blackhole :: [.call 1 8 .ok, .call 2 9 .refused, .remove 8])).2 = [] := rfl

/-- … and what did hold even then: as long as no peer stays silent and none is black-holed nothing wedges -/
theorem silent_peer_isolated_partial (h : Handler) (evs : List HEv) (i p : Nat) (hw : h.wedged = false)
    (hns : ∀ j q, HEv.call j q .silent ∉ evs) (hnb : ∀ j q, HEv.call j q .blackhole ∉ evs)
    (hm : HEv.call i p .ok ∈ evs) :
    HOut.handed i p ∈ (hrun false false h evs).2 := by
  induction evs generalizing h with
  | nil => simp at hm
  | cons e es ih =>
    simp only [hrun]
    have hw' : (hstep false false h e).1.wedged = false := by
      cases e with
      | call j q d =>
        cases hc : h.clients.contains q
        · rw [hstep_call_new false false h j q d hw hc]
          cases d
          · simp [hw]
          · simp [hw]
          · simp [hw]
          · exact absurd List.mem_cons_self (hns j q)
          · exact absurd List.mem_cons_self (hnb j q)
        · rw [hstep_call_known false false h j q d hw hc]; exact hw
      | remove q => exact (hstep_remove false false h q hw).1
      | tick => exact hw
    rcases List.mem_cons.mp hm with he | he
    · subst he
      have : HOut.handed i p ∈ (hstep false false h (.call i p .ok)).2 := by
        cases hc : h.clients.contains p
        · rw [hstep_call_new false false h i p .ok hw hc]; simp
        · rw [hstep_call_known false false h i p .ok hw hc]; simp
      exact List.mem_append_left _ this
    · exact List.mem_append_right _ (ih _ hw' (fun j q hh => hns j q (List.mem_cons_of_mem _ hh))
        (fun j q hh => hnb j q (List.mem_cons_of_mem _ hh)) he)

example : HOut.handed 2 8 ∈ (hrun false false {} [.call 0 7 .refused, .call 1 9 .hsFail, .call 2 8 .ok]).2 := by
  decide

/-- every request the handler takes is answered one way or the other: handed to a client or failed
with an error — never silently lost -/
theorem handler_answers (h : Handler) (i p : Nat) (d : Dial) (hw : h.wedged = false) :
    (hstep true true h (.call i p d)).2 = [.handed i p] ∨ (hstep true true h (.call i p d)).2 = [.failed i] := by
  cases hc : h.clients.contains p
  · rw [hstep_call_new true true h i p d hw hc]; cases d <;> simp
  · rw [hstep_call_known true true h i p d hw hc]; simp

example : (hstep true true {} (.call 4 7 .blackhole)).2 = [.failed 4] ∧
    (hstep true true { clients := [7] } (.call 4 7 .blackhole)).2 = [.handed 4 7] := ⟨rfl, rfl⟩

/-! ### 5b. replies whose signature does not verify (review 5-D #3; `net` acts `S`, `B`) -/

/-- regenerated facts the `net` driver is instantiated with: decodeBytes verifies every package under the
handshake key before it hands it on, and decodePipe verifies it again, each dropping the frame on failure —
for replies and requests alike. (Both are guard checks on the text of the functions; what actually ties reply
verification to the code is the correspondence run: acts `S<m>`/`B<m>`, oracle `unsigned-reply-accepted`.) -/
theorem c17_reply_verified : (Gen.decodeVerifiesFirst || Gen.decodePipeVerifiesAgain) = true := by decide

/-- with verification a reply in a package whose signature does not verify is no event at all: the scripted
peer's "bad reply, then the good one" is the good reply, "bad reply only" is a dropped request. -/
theorem bad_signature_reply_is_no_event (j g nonce : Nat) :
    actEvents true j g nonce .badGood = actEvents true j g nonce .reply ∧
    actEvents true j g nonce .badOnly = actEvents true j g nonce .drop := ⟨rfl, rfl⟩

example : connOutcomes true [(0, .badGood), (1, .badOnly), (2, .reply)] = [(0, "ok"), (1, "err"), (2, "ok")] := by
  decide

/-- … and what the model says when replies are NOT verified: the caller is handed the payload that came in
the badly signed package (own + 2), in both scenarios — what the oracle `unsigned-reply-accepted` looks for. -/
theorem unverified_reply_would_be_returned :
    connOutcomes false [(0, .badGood), (1, .badOnly)] =
      [(0, s!"ok-wrong:{ownPayload 0 + 2}"), (1, s!"ok-wrong:{ownPayload 1 + 2}")] := by decide

example : ownPayload 1 + 2 = 12 := rfl

/-! ### non-vacuity: concrete histories -/

/-- three requests; replies arrive out of order, one twice, one with an unknown nonce; one request is
cancelled; then the connection closes -/
def demo : List Ev :=
  [.create .send 0, .create .send 0, .create .send 0, .create .reply 5,
   .toHandler 0, .toSendG 0, .enqueue 0, .dsend 0 true, .pack 0 false,
   .toHandler 1, .toSendG 1, .enqueue 1, .dsend 1 true, .pack 1 false,
   .toHandler 2, .toSendG 2, .enqueue 2, .dsend 2 true, .pack 2 false,
   .toHandler 3, .toSendG 3, .enqueue 3, .dsend 3 true, .pack 3 false,
   .reply 1 111 false false, .reply 1 999 false false, .reply 7 555 false false,
   .cancel 2, .waiterCtx 2, .reply 2 222 false false,
   .close, .ctxDone []]

example : ((run init demo).reqs 0).waiter = .got .errClosed := rfl
example : ((run init demo).reqs 1).waiter = .got (.msg 111) := rfl
example : ((run init demo).reqs 2).waiter = .ctxErr := rfl
example : ((run init demo).reqs 3).waiter = .got .nilOk := rfl
example : ((run init demo).reqs 1).nonce = some 1 ∧ ((run init demo).reqs 1).closes = 1 := ⟨rfl, rfl⟩
example : ((run init demo).reqs 2).closes = 0 := rfl
example : lookup (run init (demo.take 24)).conn.pending 1 = some 1 := rfl
example : (run init (demo.take 31)).conn.ctxDone = true ∧ (run init (demo.take 31)).conn.stopped = false ∧
    (run init (demo.take 31)).conn.pending = [(0, 0)] := ⟨rfl, rfl, rfl⟩
example : (hrun true true {} [.call 0 7 .silent, .call 1 8 .ok]).2 = [.failed 0, .handed 1 8] := rfl
example : (hrun false true {} [.call 0 7 .silent, .call 1 8 .ok]).2 = [] := rfl
example : (hrun true true {} [.call 0 8 .ok, .call 1 7 .blackhole, .call 2 8 .ok]).2 =
    [.handed 0 8, .failed 1, .handed 2 8] := rfl

/-! ### 6. across connections: the server-level connection tables (`Model/ConnTable.lean`)

A network of nodes running p2p/server.go (tables of inbound / outbound clients, dial, accept with the
duplicate guard, `runClient`'s removal report, `DisConnectTo`, idle close, restart) and of harness endpoints;
every theorem quantifies over EVERY finite history of `request / deliverReq / appReply / deliverReply / cut /
reject / close / procRm / disconnect / expire / reset` events, from the empty network. -/

/-- regenerated facts (go/ast over p2p/server.go, p2p/client.go): under which key each table is read, written
and deleted, what the duplicate guard compares, which table `runClient` reports to for a client started by
callHandler / receiveHandler, the refusal of a foreign announced id, per-connection keys and nonce base — the
configuration the code has is the one the theorems below are about. -/
theorem conn_table_code_shape : ConnTable.Cfg.code = ConnTable.Cfg.good := by decide

/-- … and what the model takes for granted besides: removals and `DisConnectTo` delete under the reported id on
callHandler's channel, Request and Reply pick the connection under the requested id. -/
theorem conn_table_keys :
    Gen.inRemoveKey = "string(id)" ∧ Gen.outRemoveKey = "string(id)" ∧ Gen.replyLookupKey = "string(req.id)" ∧
    Gen.outLookupKey = "string(req.id)" ∧ Gen.disconnectChannel = "n.removeCallingC" ∧ Gen.disconnectSends = "id" := by
  decide

/-- the statement skeleton of the connection-table code (Listen's accept goroutine, receiveHandler, callHandler,
runClient, handleCallReq, DisConnectTo, newClient, the key agreement of receiveID / sendID; logging left out) is
the one the model was transcribed from: ANY edit of these functions shows here first. -/
theorem conn_table_skeleton : Gen.connTableSkeleton = 
  [
    "accept | ctx, cancel := context.WithTimeout(n.ctx, 2*time.Second)",
    "accept | defer cancel()",
    "accept | c := newClient(n.id, fd, n.peersFeed, true)",
    "accept | errc := c.handShake(ctx)",
    "accept | for err = range errc",
    "accept | if err != nil | err = c.close()",
    "accept | if err != nil | return",
    "accept | case <-n.ctx.Done() | return",
    "accept | case n.addIncomingC <- c | (empty)",
    "accept | return",
    "receiveHandler | clients := make(map[string]*client)",
    "receiveHandler | for | case <-n.ctx.Done() | for _, client := range clients",
    "receiveHandler | for | case <-n.ctx.Done() | _, client := range clients | err := client.close()",
    "receiveHandler | for | case <-n.ctx.Done() | return",
    "receiveHandler | for | case c := <-n.addIncomingC | if clients[string(c.remoteID)] != nil | err := c.close()",
    "receiveHandler | for | case c := <-n.addIncomingC | if clients[string(c.remoteID)] != nil | continue",
    "receiveHandler | for | case c := <-n.addIncomingC | clients[string(c.remoteID)] = c",
    "receiveHandler | for | case c := <-n.addIncomingC | n.incomingNum = len(clients)",
    "receiveHandler | for | case c := <-n.addIncomingC | go n.runClient(c, true)",
    "receiveHandler | for | case id := <-n.removeIncomingC | c := clients[string(id)]",
    "receiveHandler | for | case id := <-n.removeIncomingC | if c := clients[string(id)]; c != nil | delete(clients, string(id))",
    "receiveHandler | for | case id := <-n.removeIncomingC | n.incomingNum = len(clients)",
    "receiveHandler | for | case req := <-n.replying | client := clients[string(req.id)]",
    "receiveHandler | for | case req := <-n.replying | if client == nil | req.replyResult(nil, err)",
    "receiveHandler | for | case req := <-n.replying | if client == nil | continue",
    "receiveHandler | for | case req := <-n.replying | go client.send(req)",
    "callHandler | addrToid := make(map[string][]byte)",
    "callHandler | clients := make(map[string]*client)",
    "callHandler | watchDog := time.NewTicker(5 * time.Second)",
    "callHandler | for | case <-n.ctx.Done() | for _, client := range clients",
    "callHandler | for | case <-n.ctx.Done() | _, client := range clients | err := client.close()",
    "callHandler | for | case <-n.ctx.Done() | err = n.ctx.Err()",
    "callHandler | for | case <-n.ctx.Done() | return",
    "callHandler | for | case <-watchDog.C | if !n.members.IsAlive() | err = errors.New(\"p2p cluster status is not alive\")",
    "callHandler | for | case <-watchDog.C | if !n.members.IsAlive() | return",
    "callHandler | for | case id, ok := <-n.removeCallingC | if ok | c := clients[string(id)]",
    "callHandler | for | case id, ok := <-n.removeCallingC | if ok | if c != nil | delete(addrToid, c.conn.RemoteAddr().String())",
    "callHandler | for | case id, ok := <-n.removeCallingC | if ok | if c != nil | delete(clients, string(id))",
    "callHandler | for | case id, ok := <-n.removeCallingC | if ok | n.callingNum = len(clients)",
    "callHandler | for | case req, ok := <-n.calling | if ok | c = clients[string(req.id)]",
    "callHandler | for | case req, ok := <-n.calling | if ok | if c = clients[string(req.id)]; c == nil | req.addr = n.members.Lookup(req.id)",
    "callHandler | for | case req, ok := <-n.calling | if ok | if c = clients[string(req.id)]; c == nil | c = n.handleCallReq(req)",
    "callHandler | for | case req, ok := <-n.calling | if ok | if c = clients[string(req.id)]; c == nil | if c = n.handleCallReq(req); c == nil | continue",
    "callHandler | for | case req, ok := <-n.calling | if ok | if c = clients[string(req.id)]; c == nil | if string(c.remoteID) != string(req.id) | req.replyResult(nil, err)",
    "callHandler | for | case req, ok := <-n.calling | if ok | if c = clients[string(req.id)]; c == nil | if string(c.remoteID) != string(req.id) | err := c.close()",
    "callHandler | for | case req, ok := <-n.calling | if ok | if c = clients[string(req.id)]; c == nil | if string(c.remoteID) != string(req.id) | continue",
    "callHandler | for | case req, ok := <-n.calling | if ok | if c = clients[string(req.id)]; c == nil | clients[string(req.id)] = c",
    "callHandler | for | case req, ok := <-n.calling | if ok | if c = clients[string(req.id)]; c == nil | go n.runClient(c, false)",
    "callHandler | for | case req, ok := <-n.calling | if ok | go c.send(req)",
    "callHandler | return",
    "runClient(c *client, inBound bool) | err := c.run()",
    "runClient(c *client, inBound bool) | if inBound | delpeer = n.removeIncomingC",
    "runClient(c *client, inBound bool) | else(inBound) | delpeer = n.removeCallingC",
    "runClient(c *client, inBound bool) | case <-n.ctx.Done() | return",
    "runClient(c *client, inBound bool) | case delpeer <- c.remoteID | (empty)",
    "handleCallReq | fd, err = (&net.Dialer{Timeout: 2 * time.Second}).DialContext(req.ctx, \"tcp\", req.addr)",
    "handleCallReq | if fd, err = (&net.Dialer{Timeout: 2 * time.Second}).DialContext(req.ctx, \"tcp\", req.addr); err != nil | req.replyResult(nil, err)",
    "handleCallReq | if fd, err = (&net.Dialer{Timeout: 2 * time.Second}).DialContext(req.ctx, \"tcp\", req.addr); err != nil | return",
    "handleCallReq | c = newClient(n.id, fd, n.peersFeed, true)",
    "handleCallReq | fd.SetDeadline(time.Now().Add(2 * time.Second))",
    "handleCallReq | errc := c.handShake(req.ctx)",
    "handleCallReq | for err = range errc",
    "handleCallReq | if err != nil | req.replyResult(nil, err)",
    "handleCallReq | if err != nil | err = c.close()",
    "handleCallReq | if err != nil | c = nil",
    "handleCallReq | if err != nil | return",
    "handleCallReq | fd.SetDeadline(time.Time{})",
    "handleCallReq | return",
    "DisConnectTo | case <-n.ctx.Done() | return errors.Errorf(\"server DisConnectTo : %w\", n.ctx.Err())",
    "DisConnectTo | case n.removeCallingC <- id | (empty)",
    "DisConnectTo | return",
    "newClient(localID []byte, conn net.Conn, peerFeed chan P2PMessage, inBound bool) | tcpConn, ok := conn.(*net.TCPConn)",
    "newClient(localID []byte, conn net.Conn, peerFeed chan P2PMessage, inBound bool) | tcpConn.SetKeepAlive(true)",
    "newClient(localID []byte, conn net.Conn, peerFeed chan P2PMessage, inBound bool) | tcpConn.SetKeepAlivePeriod(time.Second * 1)",
    "newClient(localID []byte, conn net.Conn, peerFeed chan P2PMessage, inBound bool) | c = &client{localID: localID, conn: tcpConn, inBound: inBound, errc: make(chan error)}",
    "newClient(localID []byte, conn net.Conn, peerFeed chan P2PMessage, inBound bool) | c.ctx, c.cancel = context.WithCancel(context.Background())",
    "newClient(localID []byte, conn net.Conn, peerFeed chan P2PMessage, inBound bool) | c.peerSend = make(chan p2pRequest, 21)",
    "newClient(localID []byte, conn net.Conn, peerFeed chan P2PMessage, inBound bool) | c.peerFeed = peerFeed",
    "newClient(localID []byte, conn net.Conn, peerFeed chan P2PMessage, inBound bool) | binary.Read(rand.Reader, binary.BigEndian, &c.nonceBase)",
    "newClient(localID []byte, conn net.Conn, peerFeed chan P2PMessage, inBound bool) | c.suite = suites.MustFind(\"bn256\")",
    "newClient(localID []byte, conn net.Conn, peerFeed chan P2PMessage, inBound bool) | c.localSecKey = c.suite.Scalar().Pick(c.suite.RandomStream())",
    "newClient(localID []byte, conn net.Conn, peerFeed chan P2PMessage, inBound bool) | c.localPubKey = c.suite.Point().Mul(c.localSecKey, nil)",
    "newClient(localID []byte, conn net.Conn, peerFeed chan P2PMessage, inBound bool) | return",
    "receiveID | go func | c.remoteID = id.GetId()",
    "receiveID | go func | if string(c.remoteID) == string(c.localID) | err = errors.Errorf(\"remoteID %b != localID %b: %w\", c.remoteID, c.localID, ErrDuplicateID)",
    "receiveID | go func | if string(c.remoteID) == string(c.localID) | utils.ReportError(ctx, errc, errors.Errorf(\"client : %w\", err))",
    "receiveID | go func | if c.remoteID == nil | err = errors.Errorf(\"remoteID is nil: %w\", ErrNoRemoteID)",
    "receiveID | go func | c.remotePubKey = pub",
    "receiveID | go func | dhKey := c.suite.Point().Mul(c.localSecKey, c.remotePubKey)",
    "receiveID | go func | dhBytes, err = dhKey.MarshalBinary()",
    "receiveID | go func | if dhBytes, err = dhKey.MarshalBinary(); err != nil | utils.ReportError(ctx, errc, errors.Errorf(\"MarshalBinary: %w\", err))",
    "receiveID | go func | if dhBytes, err = dhKey.MarshalBinary(); err != nil | return",
    "receiveID | go func | c.dhKey = dhBytes[0:32]",
    "receiveID | go func | c.dhNonce = dhBytes[32:44]",
    "sendID | go func | pubKeyBytes, err = c.localPubKey.MarshalBinary()",
    "sendID | go func | if pubKeyBytes, err = c.localPubKey.MarshalBinary(); err != nil | utils.ReportError(ctx, errc, errors.Errorf(\"MarshalBinary: %w\", err))",
    "sendID | go func | if pubKeyBytes, err = c.localPubKey.MarshalBinary(); err != nil | return",
    "sendID | go func | pID := &ID{PublicKey: pubKeyBytes, Id: c.localID}",
    "sendID | go func | bytes, err = encodeProto(pID, c.localID, nil, 0, false)",
    "sendID | go func | if bytes, err = encodeProto(pID, c.localID, nil, 0, false); err != nil | utils.ReportError(ctx, errc, errors.Errorf(\"encodeProto: %w\", err))"] := by rfl

open Dos.ConnTable in
/-- **6a. at most once, across every connection history**: once a call has returned — a reply or an error —
no later event (late or duplicated replies on any connection, reconnects, restarts) changes what it returned. -/
theorem hist_returns_at_most_once (cfg : Cfg) (ideal : Nat → Bool) (evs more : List ConnTable.Ev) (i : Nat)
    (hi : i < (ConnTable.run cfg (ConnTable.init ideal) evs).nreq)
    (h : ((ConnTable.run cfg (ConnTable.init ideal) evs).reqs i).out ≠ .waiting) :
    ((ConnTable.run cfg (ConnTable.init ideal) (evs ++ more)).reqs i).out =
      ((ConnTable.run cfg (ConnTable.init ideal) evs).reqs i).out := by
  have : ConnTable.run cfg (ConnTable.init ideal) (evs ++ more) =
      ConnTable.run cfg (ConnTable.run cfg (ConnTable.init ideal) evs) more := by
    simp [ConnTable.run, List.foldl_append]
  rw [this]; exact run_out_stable cfg _ more i hi h

open Dos.ConnTable in
/-- **6b. never another request's reply, whatever happens to the connections**: in every history — requests in
flight when a connection is cut, DisConnectTo and a second connection, replies arriving late on whichever
connection the replying node picks, restarts of either side — a reply a call returns names that very call.
(Needs the per-connection nonce base, `conn_table_code_shape`; the routing of the replying side plays no role.) -/
theorem hist_reply_is_own (ideal : Nat → Bool) (evs : List ConnTable.Ev) (i m : Nat)
    (h : ((ConnTable.run Cfg.code (ConnTable.init ideal) evs).reqs i).out = .got m) : m = i := by
  rw [conn_table_code_shape] at h
  exact run_own Cfg.good rfl (Inv.init ideal) (by intro j m h; simp [ConnTable.init] at h) evs i m h

open Dos.ConnTable in
/-- **6c. only on the connection it was sent on**: the one event that gives a call a reply is the arrival of the
oldest reply frame in flight on the connection whose dispatch registered the call, carrying the call's nonce. -/
theorem hist_reply_on_own_connection (ideal : Nat → Bool) (evs : List ConnTable.Ev) (e : ConnTable.Ev) (i m : Nat)
    (hw : ((ConnTable.run Cfg.code (ConnTable.init ideal) evs).reqs i).out = .waiting)
    (h : ((ConnTable.step Cfg.code (ConnTable.run Cfg.code (ConnTable.init ideal) evs) e).reqs i).out = .got m) :
    ∃ c ν rest, e = .deliverReply c ∧ ((ConnTable.run Cfg.code (ConnTable.init ideal) evs).reqs i).conn = some c ∧
      ((ConnTable.run Cfg.code (ConnTable.init ideal) evs).reqs i).nonce = some ν ∧
      ((ConnTable.run Cfg.code (ConnTable.init ideal) evs).conns c).repQ = (ν, m) :: rest := by
  rw [conn_table_code_shape] at hw h ⊢
  have hI := run_inv Cfg.good rfl (Inv.init ideal) evs
  rcases step_got Cfg.good _ e i m h with h' | ⟨c, ν, rest, he, _, hq, _, hl, _⟩
  · rw [hw] at h'; simp at h'
  · exact ⟨c, ν, rest, he, hI.pconn c ν i (lookupN_mem hl), hI.pend c ν i (lookupN_mem hl), hq⟩

open Dos.ConnTable in
/-- **6d. no stale table entry**: in every history, an entry of callHandler's (receiveHandler's) table whose
connection has ended — `client.run` returned there: peer hang-up, cut, rejected frame, idle close — has its
removal reported and on the way; and an entry points to a connection this node dialled to (accepted from)
exactly that peer. -/
theorem hist_no_stale_entry (ideal : Nat → Bool) (evs : List ConnTable.Ev) (n p c : Nat) :
    let s := ConnTable.run Cfg.code (ConnTable.init ideal) evs
    ((s.nodes n).out p = some c → (s.conns c).d = n ∧ (s.conns c).a = p ∧
        ((s.conns c).retD = true → (true, p) ∈ (s.nodes n).rm)) ∧
    ((s.nodes n).inb p = some c → (s.conns c).a = n ∧ (s.conns c).d = p ∧
        ((s.conns c).retA = true → (false, p) ∈ (s.nodes n).rm)) := by
  rw [conn_table_code_shape]
  have hT := run_tabInv (TabInv.init ideal) evs
  intro s
  exact ⟨fun h => ⟨(hT.o1 n p c h).2.1, (hT.o1 n p c h).2.2.1, hT.o2 n p c h⟩,
         fun h => ⟨(hT.i1 n p c h).2.1, (hT.i1 n p c h).2.2.1, hT.i2 n p c h⟩⟩

open Dos.ConnTable in
/-- … and taking a reported removal deletes the entry (so the next request dials again) -/
theorem removal_clears_entry (s : ConnTable.Net) (n k p : Nat) (isCall : Bool)
    (h : (s.nodes n).rm[k]? = some (isCall, p)) :
    if isCall then ((ConnTable.step Cfg.code s (.procRm n k)).nodes n).out p = none
    else ((ConnTable.step Cfg.code s (.procRm n k)).nodes n).inb p = none := by
  simp only [ConnTable.step, h]
  cases isCall <;> simp [setTab]

open Dos.ConnTable in
/-- **6e. after a connection has ended, a later request to that peer is served**: after ANY history, if neither
side has an entry for the other any more (by 6d that is where every ended connection gets once its reported
removals are taken), a request of `a` to `b` (reachable: the dial meets `b`) opens a new connection, reaches
`b`'s application, and the reply `b` addresses to it comes back to exactly that call. -/
theorem hist_served_after_end (ideal : Nat → Bool) (evs : List ConnTable.Ev) (a b : Nat) :
    let s := ConnTable.run Cfg.code (ConnTable.init ideal) evs
    (s.nodes a).out b = none → (s.ideal b = true ∨ (s.nodes b).inb a = none) →
    ((ConnTable.run Cfg.code s (serveEvs s a b)).reqs s.nreq).out = .got s.nreq := by
  rw [conn_table_code_shape]
  intro s ho hi
  exact served_on_fresh_connection s a b ho hi

open Dos.ConnTable in
/-- **6f. other peers are unaffected**: whatever happens with peer `q` — its connections cut, closed, rejected
frames, its removals taken, DisConnectTo, requests and replies in either direction, its restart — node `n`'s table
entries for another peer `p` stay as they are; only a request between `n` and `p`, `DisConnectTo(p)`, a removal
reported for `p` (by a connection with `p`: second part) or `n`'s own restart touch them. -/
theorem hist_other_peers_unaffected (ideal : Nat → Bool) (evs : List ConnTable.Ev) (e : ConnTable.Ev) (n p : Nat) :
    let s := ConnTable.run Cfg.code (ConnTable.init ideal) evs
    (touches s e n p = false →
      ((ConnTable.step Cfg.code s e).nodes n).out p = (s.nodes n).out p ∧
      ((ConnTable.step Cfg.code s e).nodes n).inb p = (s.nodes n).inb p) ∧
    (∀ t, (t, p) ∈ (s.nodes n).rm → ∃ c, c < s.nconn ∧
      (((s.conns c).d = n ∧ (s.conns c).ann = p) ∨ ((s.conns c).a = n ∧ (s.conns c).d = p))) := by
  rw [conn_table_code_shape]
  intro s
  refine ⟨tables_untouched s e n p, ?_⟩
  intro t h
  obtain ⟨c, hc, hx⟩ := (run_tabInv (TabInv.init ideal) evs).r1 n t p h
  exact ⟨c, hc, hx.elim (fun h => Or.inl h.2) (fun h => Or.inr h.2)⟩

open Dos.ConnTable in
/-- **6g. the reply goes back on the connection the request came in on** (what the duplicate-connection guard
buys): in every history, at a node running the code, when the application answers a message it holds and the
accepting end of the connection the message came in on still runs (`client.run` has not returned there), the
table entry `Reply` picks under the sender's id IS that connection — and if its wire is up the reply frame is put
on it.  (An accepted connection that runs is its peer's entry: a second one from the same id is closed by the
guard, and an entry is only deleted after its connection's `run` returned.) -/
theorem hist_reply_goes_back_on_its_connection (ideal : Nat → Bool) (evs : List ConnTable.Ev) (b k : Nat) (h : Held)
    (hib : ideal b = false) :
    let s := ConnTable.run Cfg.code (ConnTable.init ideal) evs
    (s.nodes b).held[k]? = some h → (s.conns h.conn).retA = false →
      (s.nodes b).inb h.sender = some h.conn ∧
      ((s.conns h.conn).clA = false → (s.conns h.conn).up = true →
        ((ConnTable.step Cfg.code s (.appReply b k)).conns h.conn).repQ = (s.conns h.conn).repQ ++ [(h.nonce, h.g)]) := by
  rw [conn_table_code_shape]
  intro s hk hrun
  have hG := (run_guardInv (TabInv.init ideal) (GuardInv.init ideal) evs).2
  have hib' : s.ideal b = false := by
    show (ConnTable.run Cfg.good (ConnTable.init ideal) evs).ideal b = false
    rw [run_ideal]; exact hib
  exact ⟨reply_target_is_arrival_connection hG b h (List.mem_of_getElem? hk) hib' hrun,
         fun hcl hup => appReply_on_arrival_connection hG b k h hk hib' hrun hcl hup⟩

/-- **the defect that was there (2071f1f)**: with every connection's nonces counting from 0, 6b is false — request
0 goes out on connection 0, the connection is cut, request 1 goes out on connection 1, the peer's application
answers request 0, the reply is written to connection 1 and handed to request 1. -/
theorem late_reply_crossed_reconnect_before_fix :
    ((ConnTable.run { ConnTable.Cfg.good with nonceBase := false } (ConnTable.init)
      [.request 0 1 (some 1), .deliverReq 0, .cut 0, .procRm 0 0, .procRm 1 0,
       .request 0 1 (some 1), .deliverReq 1, .appReply 1 0, .deliverReply 1]).reqs 1).out = .got 0 := by decide

/-- what the duplicate guard is for: were it to compare the wrong id (never firing), a second connection would
replace the first in the replying node's table while both are up, and the reply to a request of the first would
be written to the second — where nobody waits for it (the request runs into its deadline although its connection
is healthy and the peer answered). With the guard the reply goes back on the connection the request came in on. -/
theorem guard_keeps_reply_on_its_connection :
    let h := [ConnTable.Ev.request 0 1 (some 1), .deliverReq 0, .disconnect 0 1, .request 0 1 (some 1), .deliverReq 1,
              .appReply 1 0, .deliverReply 0, .deliverReply 1]
    ((ConnTable.run ConnTable.Cfg.good ConnTable.init h).reqs 0).out = .got 0 ∧
    ((ConnTable.run { ConnTable.Cfg.good with inGuard := .localId } ConnTable.init h).reqs 0).out = .waiting := by
  decide

/-- what reporting to the right table is for: were a client started by callHandler reported to receiveHandler,
the dead entry would stay and a later request would be handed to the dead connection — 6d and 6e fail. -/
theorem wrong_table_leaves_stale_entry :
    let h := [ConnTable.Ev.request 0 1 (some 1), .deliverReq 0, .appReply 1 0, .deliverReply 0, .cut 0,
              .procRm 0 0, .procRm 1 0, .request 0 1 (some 1), .deliverReq 0, .deliverReq 1]
    ((ConnTable.run ConnTable.Cfg.good ConnTable.init h).nodes 1).held.length = 1 ∧
    ((ConnTable.run { ConnTable.Cfg.good with outEndsOut := false } ConnTable.init h).nodes 1).held.length = 0 ∧
    ((ConnTable.run { ConnTable.Cfg.good with outEndsOut := false } ConnTable.init h).nodes 0).out 1 = some 0 := by
  decide

/-! non-vacuity of section 6: a concrete history with two nodes (0, 1) and a harness endpoint (2) -/
def histDemo : List ConnTable.Ev :=
  [.request 0 1 (some 1), .deliverReq 0, .request 0 2 (some 2), .deliverReq 1,
   .cut 0, .procRm 0 0, .procRm 1 0,
   .request 0 1 (some 1), .deliverReq 2, .appReply 1 0, .appReply 1 0, .deliverReply 2, .deliverReply 2,
   .appReply 2 0, .deliverReply 1, .expire 0]
def histIdeal : Nat → Bool := fun n => n == 2

example : ((ConnTable.run ConnTable.Cfg.code (ConnTable.init histIdeal) histDemo).reqs 0).out = .err := by decide
example : ((ConnTable.run ConnTable.Cfg.code (ConnTable.init histIdeal) histDemo).reqs 1).out = .got 1 := by decide
example : ((ConnTable.run ConnTable.Cfg.code (ConnTable.init histIdeal) histDemo).reqs 2).out = .got 2 := by decide
example : ((ConnTable.run ConnTable.Cfg.code (ConnTable.init histIdeal) histDemo).nodes 0).out 1 = some 2 := by decide
example : (ConnTable.run ConnTable.Cfg.code (ConnTable.init histIdeal) (histDemo.take 5)).nreq = 2 ∧
    ((ConnTable.run ConnTable.Cfg.code (ConnTable.init histIdeal) (histDemo.take 5)).nodes 0).out 1 = some 0 ∧
    ((ConnTable.run ConnTable.Cfg.code (ConnTable.init histIdeal) (histDemo.take 5)).conns 0).retD = true ∧
    ((ConnTable.run ConnTable.Cfg.code (ConnTable.init histIdeal) (histDemo.take 5)).nodes 0).rm = [(true, 1)] := by decide
example : ((ConnTable.run ConnTable.Cfg.code (ConnTable.init histIdeal) (histDemo.take 7)).nodes 0).out 1 = none ∧
    ((ConnTable.run ConnTable.Cfg.code (ConnTable.init histIdeal) (histDemo.take 7)).nodes 1).inb 0 = none := by decide
example : ConnTable.touches (ConnTable.run ConnTable.Cfg.code (ConnTable.init histIdeal) (histDemo.take 4)) (.cut 0) 0 2 = false := by
  decide
example : ((ConnTable.run ConnTable.Cfg.code (ConnTable.init histIdeal) (histDemo.take 2)).nodes 1).held[0]? =
      some { conn := 0, sender := 0, nonce := ⟨1, 0⟩, g := 0 } ∧
    ((ConnTable.run ConnTable.Cfg.code (ConnTable.init histIdeal) (histDemo.take 2)).conns 0).retA = false ∧
    histIdeal 1 = false := by decide

end Dos.Props.C17

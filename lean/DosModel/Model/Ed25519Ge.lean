/-
C20 (round 4) — executable model of group/edwards25519/ge.go and of the point API of point.go, core Lean only.

The straight-line methods are NOT written here: they are the regenerated `GeFn`s of Gen/Ed25519Ge.lean, run on the
executable limb operations (`GeProg.limbAlg` = the regenerated fe.go translation with Go's wrapping semantics).
Hand-written (pinned to the source as text by Gen/Ed25519Ge.lean `…_src`, compared with the real code limb for
limb on every run): struct plumbing, `extended.Double`, the control skeleton of `ToBytes`/`FromBytes`, `equal`,
`negative`, `selectCached`, `selectPreComputed`, the signed-nybble recoding and the loops of `geScalarMult` and
`geScalarMultBase`, and the `point` methods.
-/
import DosModel.Gen.Ed25519Ge
import DosModel.Gen.Ed25519GeTable
import DosModel.Gen.Ed25519Sc

namespace Dos.Ge
open Dos Dos.Ed25519 Dos.FeProg Dos.GeProg Dos.Gen.Ed25519Ge

structure Proj where
  X : L10
  Y : L10
  Z : L10
  deriving Repr, DecidableEq, Inhabited

structure Ext where
  X : L10
  Y : L10
  Z : L10
  T : L10
  deriving Repr, DecidableEq, Inhabited

structure Compl where
  X : L10
  Y : L10
  Z : L10
  T : L10
  deriving Repr, DecidableEq, Inhabited

structure Pre where
  yPlusX : L10
  yMinusX : L10
  xy2d : L10
  deriving Repr, DecidableEq, Inhabited

structure Cached where
  yPlusX : L10
  yMinusX : L10
  Z : L10
  T2d : L10
  deriving Repr, DecidableEq, Inhabited

def z10 : L10 := FeOps.zero10
def Proj.regs (p : Proj) : List L10 := [p.X, p.Y, p.Z]
def Ext.regs (p : Ext) : List L10 := [p.X, p.Y, p.Z, p.T]
def Compl.regs (p : Compl) : List L10 := [p.X, p.Y, p.Z, p.T]
def Pre.regs (p : Pre) : List L10 := [p.yPlusX, p.yMinusX, p.xy2d]
def Cached.regs (p : Cached) : List L10 := [p.yPlusX, p.yMinusX, p.Z, p.T2d]
def consts : List L10 := [c_d, c_d2, c_sqrtM1]

/-- run a translated method: the objects (receiver, parameters) laid out without aliasing, locals zero-initialised,
constants last; returns the final register file -/
def call (f : GeFn) (objs : List (List L10)) (nLocals : Nat) (b : Int := 0) : List L10 :=
  runBody limbAlg z10 (seqBases f.objs 0) b f.body (objs.flatten ++ List.replicate nLocals z10 ++ consts)

def proj3 (r : List L10) (o : Nat) : Proj := ⟨r.getD o z10, r.getD (o + 1) z10, r.getD (o + 2) z10⟩
def ext4 (r : List L10) (o : Nat) : Ext := ⟨r.getD o z10, r.getD (o + 1) z10, r.getD (o + 2) z10, r.getD (o + 3) z10⟩
def compl4 (r : List L10) (o : Nat) : Compl := ⟨r.getD o z10, r.getD (o + 1) z10, r.getD (o + 2) z10, r.getD (o + 3) z10⟩
def pre3 (r : List L10) (o : Nat) : Pre := ⟨r.getD o z10, r.getD (o + 1) z10, r.getD (o + 2) z10⟩
def cached4 (r : List L10) (o : Nat) : Cached := ⟨r.getD o z10, r.getD (o + 1) z10, r.getD (o + 2) z10, r.getD (o + 3) z10⟩

def junk3 : List L10 := [z10, z10, z10]
def junk4 : List L10 := [z10, z10, z10, z10]

/-! ### the translated methods -/

def projZero : Proj := proj3 (call projective_Zero [junk3] 0) 0
def extZero : Ext := ext4 (call extended_Zero [junk4] 0) 0
def preZero : Pre := pre3 (call precomp_Zero [junk3] 0) 0
def cachedZero : Cached := cached4 (call cached_Zero [junk4] 0) 0
/-- `p.Double(r)`: r -/
def projDouble (p : Proj) : Compl := compl4 (call projective_Double [p.regs, junk4] 1) 3
/-- `p.Neg(s)` (p and s distinct objects): p -/
def extNeg (s : Ext) : Ext := ext4 (call extended_Neg [junk4, s.regs] 0) 0
/-- `p.Neg(p)`: receiver and argument are the same object (shared registers) -/
def extNegInPlace (p : Ext) : Ext :=
  ext4 (runBody limbAlg z10 [0, 0, 4, 5, 6] 0 extended_Neg.body (p.regs ++ consts)) 0
def extToCached (p : Ext) : Cached := cached4 (call extended_ToCached [p.regs, junk4] 0) 4
def extToProj (p : Ext) : Proj := proj3 (call extended_ToProjective [p.regs, junk3] 0) 4
def complToProj (c : Compl) : Proj := proj3 (call completed_ToProjective [c.regs, junk3] 0) 4
def complToExt (c : Compl) : Ext := ext4 (call completed_ToExtended [c.regs, junk4] 0) 4
def complAdd (p : Ext) (q : Cached) : Compl := compl4 (call completed_Add [junk4, p.regs, q.regs] 1) 0
def complSub (p : Ext) (q : Cached) : Compl := compl4 (call completed_Sub [junk4, p.regs, q.regs] 1) 0
def complMixedAdd (p : Ext) (q : Pre) : Compl := compl4 (call completed_MixedAdd [junk4, p.regs, q.regs] 1) 0
def complMixedSub (p : Ext) (q : Pre) : Compl := compl4 (call completed_MixedSub [junk4, p.regs, q.regs] 1) 0
def preCMove (p u : Pre) (b : Int) : Pre := pre3 (call precomp_CMove [p.regs, u.regs] 0 b) 0
def preNeg (t : Pre) : Pre := pre3 (call precomp_Neg [junk3, t.regs] 0) 0
def cachedCMove (r u : Cached) (b : Int) : Cached := cached4 (call cached_CMove [r.regs, u.regs] 0 b) 0
def cachedNeg (t : Cached) : Cached := cached4 (call cached_Neg [junk4, t.regs] 0) 0

/-- `p.Double(r)` for an extended p: `p.ToProjective(&q); q.Double(r)` -/
def extDouble (p : Ext) : Compl := projDouble (extToProj p)

/-! ### encodings -/

/-- the tail of both `ToBytes`: `feToBytes(s, &y)`; `s[31] ^= feIsNegative(&x) << 7` -/
def finishBytes (x y : L10) : Bytes :=
  let s := (FeOps.feToBytes y).1
  let neg := (FeOps.feIsNegative x).1
  s.set 31 ((s.getD 31 0) ^^^ (neg <<< 7))

def locOf (f : GeFn) (l : Loc) : Nat := addr (seqBases f.objs 0) l

def projToBytes (p : Proj) : Bytes :=
  let r := call projective_ToBytes [p.regs] 3
  finishBytes (r.getD (locOf projective_ToBytes projective_ToBytes_x) z10) (r.getD (locOf projective_ToBytes projective_ToBytes_y) z10)

def extToBytes (p : Ext) : Bytes :=
  let r := call extended_ToBytes [p.regs] 3
  finishBytes (r.getD (locOf extended_ToBytes extended_ToBytes_x) z10) (r.getD (locOf extended_ToBytes extended_ToBytes_y) z10)

def fbBases : List Nat := seqBases extended_FromBytes_A.objs 0
def fbRun (f : GeFn) (regs : List L10) : List L10 := runBody limbAlg z10 fbBases 0 f.body regs

/-- `p.FromBytes(s)`: `none` = `false`; `p` need not be initialised -/
def extFromBytes (s : Bytes) : Option Ext :=
  if s.length ≠ 32 then none else
  let regs0 := (junk4 ++ List.replicate 5 z10 ++ consts).set (addr fbBases extended_FromBytes_y) (FeOps.feFromBytes s)
  let r := fbRun extended_FromBytes_A regs0
  let chk := addr fbBases extended_FromBytes_check
  let xr := addr fbBases extended_FromBytes_x
  let nz := FeOps.feIsNonZero (r.getD chk z10)
  let r := r.set chk nz.2
  let r? : Option (List L10) :=
    if nz.1 = 1 then
      let r := fbRun extended_FromBytes_B r
      let nz2 := FeOps.feIsNonZero (r.getD chk z10)
      let r := r.set chk nz2.2
      if nz2.1 = 1 then none else some (fbRun extended_FromBytes_C r)
    else some r
  match r? with
  | none => none
  | some r =>
    let ng := FeOps.feIsNegative (r.getD xr z10)
    let r := r.set xr ng.2
    let r := if ng.1 ≠ ((s.getD 31 0) >>> 7) then fbRun extended_FromBytes_D r else r
    some (ext4 (fbRun extended_FromBytes_E r) 0)

/-! ### table selection -/

/-- `equal(b, c)`: `x := uint32(b ^ c); x--; int32(x >> 31)` -/
def equal (b c : Int) : Int :=
  let x := u32 (xor32 b c)
  let x := (x + 4294967295) % 4294967296
  Int.ofNat (x / 2147483648)

/-- `negative(b)`: `(b >> 31) & 1` -/
def negative (b : Int) : Int := and32 (shrI b 31) 1

/-- `b - (((-bNegative) & b) << 1)` -/
def absOf (b : Int) : Int := b - shl (and32 (-(negative b)) b) 1

def selectCached (ai : List Cached) (b : Int) : Cached :=
  let bneg := negative b
  let babs := absOf b
  let c := (List.range 8).foldl (fun c i => cachedCMove c (ai.getD i default) (equal babs (i + 1))) cachedZero
  cachedCMove c (cachedNeg c) bneg

def preOf (l : List L10) : Pre := ⟨l.getD 0 z10, l.getD 1 z10, l.getD 2 z10⟩

def selectPreComputed (pos : Nat) (b : Int) : Pre :=
  let bneg := negative b
  let babs := absOf b
  let row := Gen.Ed25519GeTable.c_base.getD pos []
  let t := (List.range 8).foldl (fun t i => preCMove t (preOf (row.getD i [])) (equal babs (i + 1))) preZero
  preCMove t (preNeg t) bneg

/-! ### scalar multiplication -/

/-- `e[2i] = a[i] & 15`, `e[2i+1] = (a[i] >> 4) & 15` -/
def nybbles (a : Bytes) : List Int :=
  (a.map (fun v => [Int.ofNat (v.toNat % 16), Int.ofNat (v.toNat / 16 % 16)])).flatten

/-- the carry pass `e[i] += carry; carry = (e[i] + 8) >> 4; e[i] -= carry << 4` over i < 63, then `e[63] += carry`
(int8 arithmetic; all values stay within [-8, 24]) -/
def recode (e : List Int) : List Int :=
  let r := (e.take 63).foldl (fun (st : List Int × Int) x =>
      let x := x + st.2
      let c := shrI (x + 8) 4
      (st.1 ++ [x - shl c 4], c)) ([], 0)
  r.1 ++ [e.getD 63 0 + r.2]

def baseExt : Ext := ext4 c_baseext 0

/-- `t.ToProjective(&r); r.Double(&t)` four times -/
def dbl4 (t : Compl) : Compl :=
  projDouble (complToProj (projDouble (complToProj (projDouble (complToProj (projDouble (complToProj t)))))))

def geScalarMult (a : Bytes) (A : Ext) : Ext :=
  let e := recode (nybbles a)
  let a0 := extToCached A
  let ai := (List.range 7).foldl (fun (ai : List Cached) i =>
      ai ++ [extToCached (complToExt (complAdd A (ai.getD i default)))]) [a0]
  let t := complAdd extZero (selectCached ai (e.getD 63 0))
  let t := (List.range 63).foldl (fun t k =>
      let i := 62 - k
      let t := dbl4 t
      complAdd (complToExt t) (selectCached ai (e.getD i 0))) t
  complToExt t

def geScalarMultBase (a : Bytes) : Ext :=
  let e := recode (nybbles a)
  let h := (List.range 32).foldl (fun h k =>
      let i := 2 * k + 1
      complToExt (complMixedAdd h (selectPreComputed (i / 2) (e.getD i 0)))) extZero
  let r := extDouble h
  let r := projDouble (complToProj r)
  let r := projDouble (complToProj r)
  let r := projDouble (complToProj r)
  let h := complToExt r
  (List.range 32).foldl (fun h k =>
      let i := 2 * k
      complToExt (complMixedAdd h (selectPreComputed (i / 2) (e.getD i 0)))) h

/-! ### point.go -/

def ptAdd (p1 p2 : Ext) : Ext := complToExt (complAdd p1 (extToCached p2))
def ptSub (p1 p2 : Ext) : Ext := complToExt (complSub p1 (extToCached p2))
def ptNeg (a : Ext) : Ext := extNeg a
def ptNull : Ext := extZero
def ptBase : Ext := baseExt
/-- the guard of `P.Mul` (fix /repo ec5317f, round 5): `if a[31] > 127 { copy(wide[:], a[:]); scReduce(&red, &wide); a = &red }`
— a scalar outside the contract `a[31] <= 127` of the window recoding (only `scalar.UnmarshalBinary` makes one) is
reduced modulo ℓ by the TRANSLATED scReduce on a ‖ 0³² first -/
def mulScalar (a : Bytes) : Bytes :=
  if (a.getD 31 0).toNat > 127 then Gen.Ed25519Sc.scReduce shrI (a ++ List.replicate 32 0) else a

/-- `P.Mul(s, A)`: `A = nil` is the base point (non-vartime build) -/
def ptMul (a : Bytes) (A : Option Ext) : Ext :=
  match A with
  | none => geScalarMultBase (mulScalar a)
  | some q => geScalarMult (mulScalar a) q
def ptMarshal (p : Ext) : Bytes := extToBytes p
def ptUnmarshal (b : Bytes) : Option Ext := extFromBytes b
def ptEqual (p q : Ext) : Bool := extToBytes p == extToBytes q

end Dos.Ge

/-
C14, continued — the key-generation pipeline (`handleGrouping` + `pdkg.Grouping` + `pdkg.Loop`),
regenerated from /repo on every run, and its recorded finding.  (Separate file: the rules are
evaluated by the kernel on a 350-node IR; Lake checks this file in parallel with Props/C14.lean.)
-/
import DosModel.Props.C14
import DosModel.Proofs.PipeExploreSound
import DosModel.Proofs.PipeWitness

namespace Dos.Props.C14
open Dos Dos.Pipe Dos.Gen.Pipes

theorem grouping_wf : subsetOf (violations grouping) Gen.PipeKnown.sites = true := by decide +kernel

/-- the key-generation pipeline (`handleGrouping` + `pdkg.Grouping` + `pdkg.Loop`) -/
theorem grouping_pipeline_terminates_and_never_crashes :
    NoCrash grouping ∧ ∀ s, Reach grouping s → s.ctxDone 0 = true → ∃ s', Path grouping s s' ∧ Quiet grouping s' := by
  have h := pipeline_terminates_and_never_crashes _ grouping_wf
  exact ⟨h.1, fun s hr hc => by obtain ⟨s', a, b, _⟩ := h.2 s hr hc; exact ⟨s', a, b⟩⟩

/-! ## the recorded finding

The full statement of the property also asks that every channel of a session is closed in the end.
That is rule W7; it holds for the query pipelines (`query_*_wf` list no W7 entry), and fails for
one site of the key-generation pipeline, recorded as a known finding. -/

/-- the full property for the key-generation pipeline (NOT provable on this tree: see below) -/
def C14_grouping_full : Prop := violations grouping = []

/-- the proved part: every violation of the key-generation pipeline is a recorded one, and the
recorded ones are exactly the reply channel that pdkg.Loop keeps open -/
theorem grouping_partial :
    (∀ v ∈ violations grouping, v ∈ Gen.PipeKnown.sites) ∧
    Gen.PipeKnown.sites = [{ rule := 7, g := "dkg.Loop", c := "dkg.askMembers.out" }] := by
  refine ⟨?_, by decide⟩
  intro v hv
  have h := grouping_wf
  unfold subsetOf at h
  rw [List.all_eq_true] at h
  simpa using h v hv

/-- **negation witness (known finding W7:dkg.Loop:dkg.askMembers.out).**  In the regenerated model
of `askMembers` + `pdkg.Loop`: the request is registered, one of the two public keys arrives, the
deadline fires, the harness releases — a state is reachable in which nothing can move any more and
the reply channel is still open (pdkg.Loop never closes the reply channel of an incomplete
request).  The same scenario is replayed on the real goroutines at every run (corpus/C14/grouping.txt). -/
theorem loop_keeps_reply_open :
    ∃ s, Reach (Wit.scOf grouping Wit.askSpec).p s ∧
      (Wit.Scenario.stuck (Wit.scOf grouping Wit.askSpec) s && s.ctxDone 0 &&
        Wit.Scenario.firstOpen (Wit.scOf grouping Wit.askSpec) s) = true :=
  reachSet_any (fuel := 400) (by decide +kernel)

end Dos.Props.C14

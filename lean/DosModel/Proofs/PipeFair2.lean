/-
C14 fairness, part 2: the core lemma.  A goroutine `g` whose escape edges are enabled at every
position from `T` on (context 0 done, lower-ranked pipeline goroutines returned) cannot, in a fair
run, stay for ever inside the scope of a distance labeling without reaching a target node.

Proof idea: `g` is continuously enabled (`escape_step`), so by weak fairness it moves infinitely
often; among the finitely many nodes it leaves infinitely often take one, `pc`, of least distance;
its distance-decreasing escape edge `(l, n)` is taken infinitely often (by the `cancel` / `timer` /
`data` clause of `Fair`, or because it is the only edge, or — closed branch of a `range` — because a
closed channel cannot be drained infinitely often); then `n` is left infinitely often too, with a
smaller distance.
-/
import DosModel.Proofs.PipeFair1

namespace Dos.Pipe

theorem Run.step_of_ev {p : Pipeline} (r : Run p) {i : Nat} {e : Ev} (he : r.ev i = some e) :
    Step p (r.st i) e (.run (r.st (i + 1))) := by
  have h := r.step i
  rw [he] at h; exact h

theorem distOk_edge {esc : Node → List (Lab × Pc)} {nodes : List Node} {tgt : Node → Bool}
    {scope : Nat → Bool} {d : List Nat} (h : distOk esc nodes tgt scope d = true) {pc : Pc} {nd : Node}
    (hn : nodes[pc]? = some nd) (hs : scope pc = true) (ht : tgt nd = false) :
    ∃ l n, (l, n) ∈ esc nd ∧ distAt d n < distAt d pc := by
  unfold distOk at h
  have := zipIdx_all h hn
  simp only [hs, ht, Bool.not_true, Bool.false_or, List.any_eq_true, decide_eq_true_eq] at this
  obtain ⟨⟨l, n⟩, hm, hlt⟩ := this
  exact ⟨l, n, hm, hlt⟩

/-- the kinds of escape edges -/
theorem esc_class {p : Pipeline} {g : Gi} {nd : Node} {l : Lab} {n : Pc} (h : (l, n) ∈ escEdges p g nd) :
    l = .ctx 0 ∨ l = .tick ∨
    (∃ c a, nd = .sel [.recv c a n] ∧ l = .recvCl c ∧ rangeOk p g c = true) ∨
    l = .tau ∨ nd.edges = [(l, n)] := by
  cases nd with
  | sel alts =>
    rw [escEdges_sel] at h
    split at h
    · simp only [List.mem_flatMap, List.mem_filter] at h
      obtain ⟨a, ⟨_, hc⟩, hae⟩ := h
      cases a <;> simp [Alt.isCtx0] at hc
      simp [Alt.edges] at hae
      left; rw [hae.1, hc]
    · split at h
      · simp only [List.mem_flatMap, List.mem_filter] at h
        obtain ⟨a, ⟨_, hc⟩, hae⟩ := h
        cases a <;> simp [Alt.isTick] at hc
        simp [Alt.edges] at hae
        right; left; exact hae.1
      · split at h
        · rename_i c a b _ _
          split at h
          · rename_i hr
            simp only [List.mem_singleton, Prod.mk.injEq] at h
            obtain ⟨h1, h2⟩ := h
            subst h1; subst h2
            right; right; left
            exact ⟨c, a, rfl, rfl, hr⟩
          · simp at h
        · simp at h
  | close c n0 =>
    have h : (l, n) ∈ (Node.close c n0).edges := h
    simp only [Node.edges, List.mem_singleton] at h
    right; right; right; right; rw [h]; rfl
  | branch ns =>
    have h : (l, n) ∈ (Node.branch ns).edges := h
    simp only [Node.edges, List.mem_map, Prod.mk.injEq] at h
    obtain ⟨n0, _, h1, _⟩ := h
    right; right; right; left; exact h1.symm
  | wgDone w n0 =>
    have h : (l, n) ∈ (Node.wgDone w n0).edges := h
    simp only [Node.edges, List.mem_singleton] at h
    right; right; right; right; rw [h]; rfl
  | wgWait w n0 =>
    have h : (l, n) ∈ (Node.wgWait w n0).edges := h
    simp only [Node.edges, List.mem_singleton] at h
    right; right; right; right; rw [h]; rfl
  | spawn g' n0 =>
    have h : (l, n) ∈ (Node.spawn g' n0).edges := h
    simp only [Node.edges, List.mem_singleton] at h
    right; right; right; right; rw [h]; rfl
  | cancel k n0 =>
    have h : (l, n) ∈ (Node.cancel k n0).edges := h
    simp only [Node.edges, List.mem_singleton] at h
    right; right; right; right; rw [h]; rfl
  | exit => have h : (l, n) ∈ (Node.exit).edges := h; simp [Node.edges] at h

variable {p : Pipeline}

/-- a move away from a node with a single quiet edge is a move along that edge -/
theorem single_takes {r : Run p} {g : Gi} {pc : Pc} {nd : Node} {l : Lab} {n : Pc}
    (hnd : p.node g pc = some nd) (hed : nd.edges = [(l, n)]) (hq : l.quiet = true) {i : Nat}
    (hm : r.movesFrom g pc i) : r.takes g pc l n i := by
  obtain ⟨hat, e, he, hmv⟩ := hm
  obtain ⟨nd', hnd', hc⟩ := move_cases (r.step_of_ev he) hat hmv
  rw [hnd] at hnd'; cases hnd'
  rcases hc with ⟨l', n', hmem, hev, _, _, hgs⟩ | ⟨c, n', g', hmem, _⟩ | ⟨c, n', g', hmem, _⟩ | ⟨hex, _⟩
  · rw [hed] at hmem
    simp only [List.mem_singleton, Prod.mk.injEq] at hmem
    obtain ⟨h1, h2⟩ := hmem
    subst h1; subst h2
    exact ⟨hat, by rw [he, hev], hgs⟩
  · rw [hed] at hmem
    simp only [List.mem_singleton, Prod.mk.injEq] at hmem
    rw [← hmem.1] at hq; cases hq
  · rw [hed] at hmem
    simp only [List.mem_singleton, Prod.mk.injEq] at hmem
    rw [← hmem.1] at hq; cases hq
  · subst hex; simp [Node.edges] at hed

/-- a goroutine that leaves the head of a `range` over a closed channel infinitely often leaves it
    infinitely often through the closed branch -/
theorem range_takes {r : Run p} {g : Gi} {pc : Pc} {c : Ch} {a b : Pc}
    (hnd : p.node g pc = some (.sel [.recv c a b])) {T : Nat}
    (hcl : ∀ i, T ≤ i → (r.st i).closed c = true) (hinf : InfOften (r.movesFrom g pc)) :
    InfOften (r.takes g pc (.recvCl c) b) := by
  apply Classical.byContradiction
  intro hno
  obtain ⟨T1, hT1⟩ := not_infOften hno
  apply no_infinite_descent (fun i => (r.st i).len c) (max T T1)
  · intro i hi
    rcases r.step_cases i with ⟨e, _, hst⟩ | ⟨_, heq⟩
    · exact (len_closed_step hst (hcl i (by omega))).1
    · rw [heq]; exact Nat.le_refl _
  · intro T'
    obtain ⟨i, hi, hm⟩ := hinf (max T' (max T T1))
    refine ⟨i, by omega, ?_⟩
    obtain ⟨hat, e, he, hmv⟩ := hm
    have hst := r.step_of_ev he
    obtain ⟨nd', hnd', hc⟩ := move_cases hst hat hmv
    rw [hnd] at hnd'; cases hnd'
    rcases hc with ⟨l', n', hmem, hev, _, _, hgs⟩ | ⟨c', n', g', hmem, _⟩ | ⟨c', n', g', hmem, _, hopen, _⟩ | ⟨hex, _⟩
    · simp only [Node.edges, Alt.edges, List.flatMap_cons, List.flatMap_nil, List.append_nil,
        List.mem_cons, Prod.mk.injEq, List.not_mem_nil, or_false] at hmem
      rcases hmem with ⟨h1, _⟩ | ⟨h1, h2⟩
      · subst h1
        exact (len_closed_step hst (hcl i (by omega))).2 g hev
      · subst h1; subst h2
        exact absurd ⟨hat, by rw [he, hev], hgs⟩ (hT1 i (by omega))
    · simp [Node.edges, Alt.edges] at hmem
    · simp only [Node.edges, Alt.edges, List.flatMap_cons, List.flatMap_nil, List.append_nil,
        List.mem_cons, Prod.mk.injEq, List.not_mem_nil, or_false] at hmem
      rcases hmem with ⟨h1, _⟩ | ⟨h1, _⟩
      · simp only [Lab.recvOk.injEq] at h1
        subst h1
        rw [hcl i (by omega)] at hopen; cases hopen
      · cases h1
    · cases hex

/-- taking an edge to `n` infinitely often, and moving infinitely often: leaving `n` infinitely often -/
theorem takes_then_leaves {r : Run p} {g : Gi} {pc : Pc} {l : Lab} {n : Pc}
    (ht : InfOften (r.takes g pc l n)) (hm : InfOften (r.movesAt g)) : InfOften (r.movesFrom g n) := by
  intro T
  obtain ⟨i, hi, _, _, hgs⟩ := ht T
  obtain ⟨j, hj, hmj⟩ := hm (i + 1)
  obtain ⟨j', h1, _, h3⟩ := r.next_move hgs hj hmj
  exact ⟨j', by omega, h3⟩

/-- what the core lemma assumes about `g` at every position from `T` on -/
structure EscHyp (p : Pipeline) (r : Run p) (g : Gi) (gr : Goroutine) (tgt : Node → Bool)
    (scope : Nat → Bool) (T : Nat) : Prop where
  hg : p.gs[g]? = some gr
  pos : ∀ i, T ≤ i → ∃ pc nd, (r.st i).gs[g]? = some (.at pc) ∧ gr.nodes[pc]? = some nd ∧
    scope pc = true ∧ tgt nd = false ∧ nodeLive p g nd = true
  cancelled : ∀ i, T ≤ i → (r.st i).ctxDone 0 = true
  lower : ∀ i, T ≤ i → ∀ g' gr', p.gs[g']? = some gr' → gr'.static = true → gr'.daemon = false →
    rankOf p g' < rankOf p g → (r.st i).gs[g']? = some .done

section core
variable {r : Run p} {g : Gi} {gr : Goroutine} {tgt : Node → Bool} {scope : Nat → Bool} {T : Nat}
  {dl : List Nat}

theorem EscHyp.liveAt (H : EscHyp p r g gr tgt scope T) {i : Nat} (hi : T ≤ i) {pc : Pc} {nd : Node}
    (hat : (r.st i).gs[g]? = some (.at pc)) (hn : gr.nodes[pc]? = some nd) (hl : nodeLive p g nd = true) :
    LiveAt p (r.st i) g gr pc nd :=
  ⟨r.reach i, H.cancelled i hi, H.hg, hn, hat, H.lower i hi, hl⟩

theorem esc_enabled (h0 : W0 p = true) (hsafe : NoCrash p) (H : EscHyp p r g gr tgt scope T)
    (hd : distOk (escEdges p g) gr.nodes tgt scope dl = true) :
    ∀ i, T ≤ i → Enabled p (r.st i) g := by
  intro i hi
  obtain ⟨pc, nd, hat, hn, hs, ht, hl⟩ := H.pos i hi
  obtain ⟨l, n, he, _⟩ := distOk_edge hd hn hs ht
  rcases escape_step h0 hsafe (H.liveAt hi hat hn hl) he with hstep | ⟨c, n', _, _, _, hstep⟩
  · exact ⟨_, _, hstep, by simp [Ev.moves]⟩
  · exact ⟨_, _, hstep, by simp [Ev.moves]⟩

theorem esc_moves (h0 : W0 p = true) (hsafe : NoCrash p) (H : EscHyp p r g gr tgt scope T)
    (hd : distOk (escEdges p g) gr.nodes tgt scope dl = true) (hw : WeakFairG r g) :
    InfOften (r.movesAt g) := by
  intro T'
  obtain ⟨i, hi, hm⟩ := hw (max T T') (fun i hi => esc_enabled h0 hsafe H hd i (by omega))
  exact ⟨i, by omega, hm⟩

/-- from a node left infinitely often, a node of smaller distance is left infinitely often -/
theorem esc_descends (h0 : W0 p = true) (hsafe : NoCrash p) (hf : Fair r)
    (H : EscHyp p r g gr tgt scope T)
    (hd : distOk (escEdges p g) gr.nodes tgt scope dl = true) {pc : Pc}
    (hinf : InfOften (r.movesFrom g pc)) :
    ∃ n, distAt dl n < distAt dl pc ∧ InfOften (r.movesFrom g n) := by
  have hmoves := esc_moves h0 hsafe H hd (hf.weak g)
  obtain ⟨i0, hi0, hat0, _⟩ := hinf T
  obtain ⟨pc', nd, hat, hn, hs, ht, hl⟩ := H.pos i0 hi0
  rw [hat0] at hat
  simp only [Option.some.injEq, GSt.at.injEq] at hat
  subst hat
  obtain ⟨l, n, he, hlt⟩ := distOk_edge hd hn hs ht
  have hnd := node_of H.hg hn
  have hedge := esc_sub_edges he
  refine ⟨n, hlt, ?_⟩
  rcases esc_class he with hl0 | hl0 | ⟨c, a, hsel, hl0, hrange⟩ | hl0 | hsingle
  · -- the context alternative
    subst hl0
    refine takes_then_leaves (pc := pc) (l := .ctx 0) ?_ hmoves
    apply hf.cancel g pc 0 n nd hnd hedge
    exact (hinf.and_eventually ⟨T, fun i hi => H.cancelled i hi⟩).mono
      (fun i h => ⟨h.1, by simpa [guard] using h.2⟩)
  · -- a timer alternative
    subst hl0
    refine takes_then_leaves (pc := pc) (l := .tick) ?_ hmoves
    apply hf.timer g pc n nd hnd hedge
    exact hinf.mono (fun i h => ⟨h, by simp [guard]⟩)
  · -- the closed branch of a range
    subst hl0; subst hsel
    refine takes_then_leaves (pc := pc) (l := .recvCl c) ?_ hmoves
    obtain ⟨hc, grh, hgh, hst, hdm, hrk, hcl⟩ := rangeOk_parts hrange
    have hin : c < p.chans.length := by
      have := (W0_edge h0 H.hg hn hedge).1
      simpa [Lab.inRange] using this
    exact range_takes hnd
      (fun i hi => closer_closed hgh hcl hin (r.st i) (r.reach i) (Or.inl (H.lower i hi hc grh hgh hst hdm hrk)))
      hinf
  · -- an internal choice
    subst hl0
    refine takes_then_leaves (pc := pc) (l := .tau) ?_ hmoves
    apply hf.data g pc n nd hnd hedge
    exact hinf.mono (fun i h => ⟨h, by simp [guard]⟩)
  · -- the only edge
    refine takes_then_leaves (pc := pc) (l := l) ?_ hmoves
    exact hinf.mono (fun i h => single_takes hnd hsingle (esc_quiet he) h)

/-- **the core lemma**: the situation of `EscHyp` cannot last for ever in a fair run -/
theorem fair_escape (h0 : W0 p = true) (hsafe : NoCrash p) (hf : Fair r)
    (H : EscHyp p r g gr tgt scope T)
    (hd : distOk (escEdges p g) gr.nodes tgt scope dl = true) : False := by
  have hmoves := esc_moves h0 hsafe H hd (hf.weak g)
  -- some node is left infinitely often
  have hsome : ∃ pc, InfOften (r.movesFrom g pc) := by
    have : InfOften (fun i => ∃ k, k < gr.nodes.length ∧ r.movesFrom g k i) := by
      intro T'
      obtain ⟨i, hi, hm⟩ := hmoves (max T T')
      obtain ⟨pc, nd, hat, hn, _⟩ := H.pos i (by omega)
      exact ⟨i, by omega, pc, (List.getElem?_eq_some_iff.mp hn).1, hat, hm⟩
    obtain ⟨k, _, hk⟩ := infOften_pigeon gr.nodes.length this
    exact ⟨k, hk⟩
  obtain ⟨pc, hinf, hmin⟩ := exists_min_of (fun pc => InfOften (r.movesFrom g pc)) (distAt dl) hsome
  obtain ⟨n, hlt, hn⟩ := esc_descends h0 hsafe hf H hd hinf
  have := hmin n hn
  omega

end core

end Dos.Pipe

import DosModel.Model.Framing

namespace Dos.Framing
open Dos

theorem readN_spec : ∀ (cs : List Bytes) (n : Nat), n ≤ cs.flatten.length →
    ∃ cs', readN n cs = some (cs.flatten.take n, cs') ∧ cs'.flatten = cs.flatten.drop n := by
  intro cs
  induction cs with
  | nil =>
    intro n h
    simp at h; subst h
    exact ⟨[], by simp [readN]⟩
  | cons ch cs ih =>
    intro n h
    cases n with
    | zero => exact ⟨ch :: cs, by simp [readN]⟩
    | succ n =>
      simp only [List.flatten_cons, List.length_append] at h
      by_cases h0 : ch.length = 0
      · have hnil : ch = [] := List.eq_nil_of_length_eq_zero h0
        subst hnil
        obtain ⟨cs', h1, h2⟩ := ih (n + 1) (by simpa using h)
        exact ⟨cs', by simp [readN, h1], by simpa using h2⟩
      · by_cases hle : ch.length ≤ n + 1
        · obtain ⟨cs', h1, h2⟩ := ih (n + 1 - ch.length) (by omega)
          refine ⟨cs', ?_, ?_⟩
          · simp only [readN, h0, hle, if_true, if_false, h1, List.flatten_cons]
            rw [List.take_append]
            simp [List.take_of_length_le hle]
          · simp only [List.flatten_cons]
            rw [List.drop_append]
            simp [List.drop_of_length_le hle, h2]
        · refine ⟨ch.drop (n + 1) :: cs, ?_, ?_⟩
          · simp only [readN, h0, hle, if_false, List.flatten_cons]
            rw [List.take_append_of_le_length (by omega)]
          · simp only [List.flatten_cons]
            rw [List.drop_append_of_le_length (by omega)]

theorem readN_none : ∀ (cs : List Bytes) (n : Nat), cs.flatten.length < n → readN n cs = none := by
  intro cs
  induction cs with
  | nil => intro n h; cases n with
    | zero => simp at h
    | succ n => simp [readN]
  | cons ch cs ih =>
    intro n h
    cases n with
    | zero => simp at h
    | succ n =>
      simp only [List.flatten_cons, List.length_append] at h
      by_cases h0 : ch.length = 0
      · simp [readN, h0, ih (n + 1) (by omega)]
      · have hle : ch.length ≤ n + 1 := by omega
        simp [readN, h0, hle, ih (n + 1 - ch.length) (by omega)]

theorem beNat_append_byte (bs : Bytes) (b : UInt8) : beNat (bs ++ [b]) = beNat bs * 256 + b.toNat := by
  simp [beNat, List.foldl_append]

theorem beNat_natBE4 (n : Nat) (h : n < 2 ^ 32) : beNat (natBE 4 n) = n := by
  simp only [natBE, beNat, List.foldl_cons, List.foldl_nil, UInt8.toNat_ofNat']
  omega

theorem natBE_length (k n : Nat) : (natBE k n).length = k := by
  induction k with
  | zero => rfl
  | succ k ih => simp [natBE, ih]

end Dos.Framing

namespace Dos.Framing
open Dos

/-- whatever sizes the transport accepts per `Write`, the pieces concatenate to the input -/
theorem writeLoop_flatten : ∀ (fuel : Nat) (bs : Bytes) (ks : List Nat), bs.length ≤ fuel →
    (writeLoop fuel bs ks).flatten = bs := by
  intro fuel
  induction fuel with
  | zero => intro bs ks h; simp at h; subst h; simp [writeLoop]
  | succ fuel ih =>
    intro bs ks h
    cases bs with
    | nil => simp [writeLoop]
    | cons b bs =>
      cases ks with
      | nil => simp [writeLoop]
      | cons k ks =>
        simp only [writeLoop, List.isEmpty_cons, Bool.false_eq_true, if_false, List.flatten_cons]
        have hk : ∀ k : Nat, 1 ≤ k → ((b :: bs).drop k).length ≤ fuel := by
          intro k hk; simp only [List.length_drop, List.length_cons] at *; omega
        by_cases hz : k = 0
        · simp only [hz, if_true]
          rw [ih _ _ (hk 1 (by omega))]; exact List.take_append_drop 1 (b :: bs)
        · simp only [hz, if_false]
          rw [ih _ _ (hk k (by omega))]; exact List.take_append_drop k (b :: bs)

end Dos.Framing

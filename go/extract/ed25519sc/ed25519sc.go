// Package ed25519sc (E6): syntax-directed go/ast translation of the straight-line
// int64 limb code of group/edwards25519/scalar.go (scMulAdd, scAdd, scSub, scMul,
// scReduce) into Lean `Int` let-chains, plus the order constants of const.go.
//
// One Go statement becomes one Lean `let`. Nothing is simplified, reordered or
// pattern-matched: `x += e` is `let x := x + e`, `carry[i] = e` is `let carry<i> := e`,
// `e >> n` is `shr e n` (shr is a PARAMETER of every generated function, so that the
// theorems hold for an arbitrary carry function), `e << n` is `shl e n`, `&`/`|` are
// `band`/`bor`, `byte(e)` is `byte e`, `load3(a[k:])` is `load3 (sl a k)`.
// A function body is cut into
//
//	load  : the leading `x := …load…` definitions          (inlined into the byte-level def)
//	init  : the remaining leading `x := …` definitions     → <f>_init  (limbs → L24)
//	blocks: the assignments up to the first `out[i] = …`,
//	        one block per blank-line separated group      → <f>_b<k>  (Shr → L24 → L24)
//	store : the `out[i] = byte(…)` assignments             → <f>_store (Shr → L24 → Bytes)
//
// Any statement or expression outside this grammar is an extraction error (the
// generated file then does not compile and every theorem over it is a broken obligation).
package ed25519sc

import (
	"fmt"
	"go/ast"
	"go/token"
	"path/filepath"
	"strconv"
	"strings"

	"verifharness/extract/ex"
)

func init() {
	ex.Register(&ex.Extractor{Name: "Ed25519Sc", Run: run})
	ex.Register(&ex.Extractor{Name: "SchnorrFacts", Run: runSchnorr})
}

var funcs = []string{"scMulAdd", "scAdd", "scSub", "scMul", "scReduce"}

type tr struct {
	fset   *token.FileSet
	out    string          // name of the output array parameter
	inputs map[string]bool // byte-array parameters
	err    error
}

func (t *tr) fail(n ast.Node, f string, a ...interface{}) string {
	if t.err == nil {
		t.err = fmt.Errorf("%s: %s", t.fset.Position(n.Pos()), fmt.Sprintf(f, a...))
	}
	return "UNTRANSLATABLE"
}

func litNat(e ast.Expr) (string, bool) {
	if p, ok := e.(*ast.ParenExpr); ok {
		return litNat(p.X)
	}
	b, ok := e.(*ast.BasicLit)
	if !ok || b.Kind != token.INT {
		return "", false
	}
	if _, err := strconv.ParseUint(b.Value, 0, 64); err != nil {
		return "", false
	}
	return b.Value, true
}

// lhs name of an assignable limb variable: ident or carry[<lit>]
func (t *tr) lname(e ast.Expr) (string, bool) {
	switch x := e.(type) {
	case *ast.Ident:
		return x.Name, true
	case *ast.IndexExpr:
		if id, ok := x.X.(*ast.Ident); ok && id.Name == "carry" {
			if n, ok := litNat(x.Index); ok {
				return "carry" + n, true
			}
		}
	}
	return "", false
}

func (t *tr) expr(e ast.Expr, uses map[string]bool) string {
	switch x := e.(type) {
	case *ast.ParenExpr:
		return "(" + t.expr(x.X, uses) + ")"
	case *ast.BasicLit:
		if n, ok := litNat(x); ok {
			return n
		}
		return t.fail(e, "literal %s", x.Value)
	case *ast.Ident:
		uses[x.Name] = true
		return x.Name
	case *ast.IndexExpr:
		if n, ok := t.lname(x); ok {
			uses[n] = true
			return n
		}
		return t.fail(e, "index expression")
	case *ast.BinaryExpr:
		a := t.expr(x.X, uses)
		switch x.Op {
		case token.ADD, token.SUB, token.MUL:
			return a + " " + x.Op.String() + " " + t.atom(x.Y, uses)
		case token.SHR, token.SHL:
			n, ok := litNat(x.Y)
			if !ok {
				return t.fail(e, "shift by a non-literal")
			}
			f := "shr"
			if x.Op == token.SHL {
				f = "shl"
			}
			return f + " " + t.atom(x.X, uses) + " " + n
		case token.AND:
			return "band " + t.atom(x.X, uses) + " " + t.atom(x.Y, uses)
		case token.OR:
			return "bor " + t.atom(x.X, uses) + " " + t.atom(x.Y, uses)
		}
		return t.fail(e, "operator %s", x.Op)
	case *ast.CallExpr:
		fn, ok := x.Fun.(*ast.Ident)
		if !ok || len(x.Args) != 1 {
			return t.fail(e, "call")
		}
		switch fn.Name {
		case "int64":
			return "(" + t.expr(x.Args[0], uses) + " : Int)"
		case "byte":
			return "byte " + t.atom(x.Args[0], uses)
		case "load3", "load4":
			sle, ok := x.Args[0].(*ast.SliceExpr)
			if !ok || sle.High != nil || sle.Max != nil {
				return t.fail(e, "load argument")
			}
			arr, ok := sle.X.(*ast.Ident)
			if !ok || !t.inputs[arr.Name] {
				return t.fail(e, "load from a non-parameter")
			}
			off := "0"
			if sle.Low != nil {
				if off, ok = litNat(sle.Low); !ok {
					return t.fail(e, "slice offset")
				}
			}
			uses["#load"] = true
			return fn.Name + " (sl " + arr.Name + "_ " + off + ")"
		}
		return t.fail(e, "call of %s", fn.Name)
	}
	return t.fail(e, "expression %T", e)
}

// atom: expression in argument / right-operand position
func (t *tr) atom(e ast.Expr, uses map[string]bool) string {
	s := t.expr(e, uses)
	switch e.(type) {
	case *ast.Ident, *ast.BasicLit, *ast.ParenExpr, *ast.IndexExpr:
		return s
	}
	if strings.HasPrefix(s, "(") && strings.HasSuffix(s, ")") && e != nil {
		if _, ok := e.(*ast.CallExpr); ok {
			return s
		}
	}
	return "(" + s + ")"
}

type stmt struct {
	lhs    string // variable defined
	rhs    string // Lean expression
	define bool   // :=
	store  int    // ≥0: out[store] = rhs
	load   bool
	line   int
	uses   map[string]bool
}

func (t *tr) stmt(s ast.Stmt) *stmt {
	as, ok := s.(*ast.AssignStmt)
	if !ok {
		if ds, ok := s.(*ast.DeclStmt); ok { // var carry [23]int64
			if gd, ok := ds.Decl.(*ast.GenDecl); ok && gd.Tok == token.VAR && len(gd.Specs) == 1 {
				if vs := gd.Specs[0].(*ast.ValueSpec); len(vs.Names) == 1 && vs.Names[0].Name == "carry" && len(vs.Values) == 0 {
					return nil
				}
			}
		}
		t.fail(s, "statement %T", s)
		return nil
	}
	if len(as.Lhs) != 1 || len(as.Rhs) != 1 {
		t.fail(s, "multi-assignment")
		return nil
	}
	st := &stmt{store: -1, uses: map[string]bool{}, line: t.fset.Position(s.Pos()).Line}
	// out[i] = …
	if ix, ok := as.Lhs[0].(*ast.IndexExpr); ok {
		if id, ok := ix.X.(*ast.Ident); ok && id.Name == t.out {
			n, ok := litNat(ix.Index)
			if !ok || as.Tok != token.ASSIGN {
				t.fail(s, "store")
				return nil
			}
			st.store, _ = strconv.Atoi(n)
			st.rhs = t.expr(as.Rhs[0], st.uses)
			return st
		}
	}
	name, ok := t.lname(as.Lhs[0])
	if !ok {
		t.fail(s, "assignment target")
		return nil
	}
	st.lhs = name
	r := t.expr(as.Rhs[0], st.uses)
	st.load = st.uses["#load"]
	switch as.Tok {
	case token.DEFINE:
		st.define = true
		st.rhs = r
	case token.ASSIGN:
		st.rhs = r
	case token.ADD_ASSIGN:
		st.uses[name] = true
		st.rhs = name + " + " + t.atom(as.Rhs[0], map[string]bool{})
	case token.SUB_ASSIGN:
		st.uses[name] = true
		st.rhs = name + " - " + t.atom(as.Rhs[0], map[string]bool{})
	default:
		t.fail(s, "assignment operator %s", as.Tok)
	}
	return st
}

var limbNames = func() []string {
	var l []string
	for i := 0; i < 24; i++ {
		l = append(l, "s"+strconv.Itoa(i))
	}
	return l
}()

func isLimb(n string) bool {
	if !strings.HasPrefix(n, "s") {
		return false
	}
	i, err := strconv.Atoi(n[1:])
	return err == nil && i >= 0 && i < 24 && strconv.Itoa(i) == n[1:]
}

const open24 = "  let s0 := st.s0; let s1 := st.s1; let s2 := st.s2; let s3 := st.s3; let s4 := st.s4; let s5 := st.s5\n" +
	"  let s6 := st.s6; let s7 := st.s7; let s8 := st.s8; let s9 := st.s9; let s10 := st.s10; let s11 := st.s11\n" +
	"  let s12 := st.s12; let s13 := st.s13; let s14 := st.s14; let s15 := st.s15; let s16 := st.s16; let s17 := st.s17\n" +
	"  let s18 := st.s18; let s19 := st.s19; let s20 := st.s20; let s21 := st.s21; let s22 := st.s22; let s23 := st.s23\n"
const close24 = "  ⟨s0, s1, s2, s3, s4, s5, s6, s7, s8, s9, s10, s11, s12, s13, s14, s15, s16, s17, s18, s19, s20, s21, s22, s23⟩\n"

func translate(fset *token.FileSet, fd *ast.FuncDecl) (string, error) {
	name := fd.Name.Name
	t := &tr{fset: fset, inputs: map[string]bool{}}
	var params []string
	for _, fl := range fd.Type.Params.List {
		for _, n := range fl.Names {
			params = append(params, n.Name)
		}
	}
	if len(params) < 2 {
		return "", fmt.Errorf("%s: unexpected parameter list", name)
	}
	t.out = params[0]
	ins := params[1:]
	for _, p := range ins {
		t.inputs[p] = true
	}
	var sts []*stmt
	for _, s := range fd.Body.List {
		if st := t.stmt(s); st != nil {
			sts = append(sts, st)
		}
		if t.err != nil {
			return "", t.err
		}
	}
	// phases
	i := 0
	var loads, inits []*stmt
	for i < len(sts) && sts[i].define && sts[i].load {
		loads = append(loads, sts[i])
		i++
	}
	for i < len(sts) && sts[i].define && !sts[i].load {
		inits = append(inits, sts[i])
		i++
	}
	var blocks [][]*stmt
	prevLine := -1
	for i < len(sts) && sts[i].store < 0 {
		st := sts[i]
		if st.define || st.load {
			return "", fmt.Errorf("%s: line %d: definition or load after the limb phase", name, st.line)
		}
		if !isLimb(st.lhs) && !strings.HasPrefix(st.lhs, "carry") {
			return "", fmt.Errorf("%s: line %d: assignment to %s", name, st.line, st.lhs)
		}
		if len(blocks) == 0 || st.line > prevLine+1 {
			blocks = append(blocks, nil)
		}
		blocks[len(blocks)-1] = append(blocks[len(blocks)-1], st)
		prevLine = st.line
		i++
	}
	var stores []*stmt
	for i < len(sts) {
		if sts[i].store != len(stores) {
			return "", fmt.Errorf("%s: line %d: stores are not out[0], out[1], … in order", name, sts[i].line)
		}
		stores = append(stores, sts[i])
		i++
	}
	if len(stores) != 32 {
		return "", fmt.Errorf("%s: %d output bytes, expected 32", name, len(stores))
	}
	// every variable is defined before use
	var loadVars []string
	defined := map[string]bool{}
	for _, st := range loads {
		for u := range st.uses {
			if u != "#load" {
				return "", fmt.Errorf("%s: line %d: load expression uses %s", name, st.line, u)
			}
		}
		if defined[st.lhs] {
			return "", fmt.Errorf("%s: %s defined twice", name, st.lhs)
		}
		defined[st.lhs] = true
		loadVars = append(loadVars, st.lhs)
	}
	for _, st := range inits {
		for u := range st.uses {
			if !defined[u] {
				return "", fmt.Errorf("%s: line %d: %s used before definition", name, st.line, u)
			}
		}
		if defined[st.lhs] {
			return "", fmt.Errorf("%s: %s defined twice", name, st.lhs)
		}
		defined[st.lhs] = true
	}
	for _, l := range limbNames {
		if !defined[l] {
			return "", fmt.Errorf("%s: limb %s is not defined before the carry phase", name, l)
		}
	}

	var b strings.Builder
	// init
	fmt.Fprintf(&b, "/-- %s: the limb definitions (`:=` statements) after the loads -/\n", name)
	fmt.Fprintf(&b, "def %s_init (%s : Int) : L24 :=\n", name, strings.Join(loadVars, " "))
	for _, st := range inits {
		fmt.Fprintf(&b, "  let %s := %s\n", st.lhs, st.rhs)
	}
	b.WriteString(close24)
	// blocks
	var bnames []string
	for k, blk := range blocks {
		bn := fmt.Sprintf("%s_b%d", name, k+1)
		bnames = append(bnames, bn)
		local := map[string]bool{}
		usesShr := false
		for _, st := range blk {
			for u := range st.uses {
				if !isLimb(u) && !local[u] {
					return "", fmt.Errorf("%s: line %d: %s used before it is assigned in its block", name, st.line, u)
				}
			}
			local[st.lhs] = true
			if strings.Contains(st.rhs, "shr ") {
				usesShr = true
			}
		}
		shr := "shr"
		if !usesShr {
			shr = "_shr"
		}
		fmt.Fprintf(&b, "/-- %s lines %d–%d -/\n", name, blk[0].line, blk[len(blk)-1].line)
		fmt.Fprintf(&b, "def %s (%s : Shr) (st : L24) : L24 :=\n%s", bn, shr, open24)
		for _, st := range blk {
			fmt.Fprintf(&b, "  let %s := %s\n", st.lhs, st.rhs)
		}
		b.WriteString(close24)
	}
	fmt.Fprintf(&b, "def %s_blocks : List (Shr → L24 → L24) :=\n  [%s]\n", name, strings.Join(bnames, ", "))
	fmt.Fprintf(&b, "/-- %s on limbs: init, then every block in source order -/\n", name)
	fmt.Fprintf(&b, "def %s_limbs (shr : Shr) (%s : Int) : L24 :=\n  runBlocks shr %s_blocks (%s_init %s)\n",
		name, strings.Join(loadVars, " "), name, name, strings.Join(loadVars, " "))
	// store
	fmt.Fprintf(&b, "def %s_store (shr : Shr) (st : L24) : Bytes :=\n%s  [", name, open24)
	for k, st := range stores {
		for u := range st.uses {
			if !isLimb(u) {
				return "", fmt.Errorf("%s: line %d: store uses %s", name, st.line, u)
			}
		}
		if k > 0 {
			b.WriteString(",\n   ")
		}
		b.WriteString(st.rhs)
	}
	b.WriteString("]\n")
	// byte level
	var bp []string
	for _, p := range ins {
		bp = append(bp, p+"_")
	}
	fmt.Fprintf(&b, "/-- %s on bytes: loads, limbs, store -/\n", name)
	fmt.Fprintf(&b, "def %s (shr : Shr) (%s : Bytes) : Bytes :=\n", name, strings.Join(bp, " "))
	for _, st := range loads {
		fmt.Fprintf(&b, "  let %s := %s\n", st.lhs, st.rhs)
	}
	fmt.Fprintf(&b, "  %s_store shr (%s_limbs shr %s)\n", name, name, strings.Join(loadVars, " "))
	// the loaded limbs alone (for the load lemmas / differential)
	fmt.Fprintf(&b, "def %s_load (shr : Shr) (%s : Bytes) : List Int :=\n", name, strings.Join(bp, " "))
	for _, st := range loads {
		fmt.Fprintf(&b, "  let %s := %s\n", st.lhs, st.rhs)
	}
	fmt.Fprintf(&b, "  [%s]\n\n", strings.Join(loadVars, ", "))
	return b.String(), t.err
}

// bigString finds `var <name>, _ = new(big.Int).SetString("<digits>", 10)`.
func bigString(f *ast.File, name string) string {
	for _, d := range f.Decls {
		gd, ok := d.(*ast.GenDecl)
		if !ok || gd.Tok != token.VAR {
			continue
		}
		for _, s := range gd.Specs {
			vs := s.(*ast.ValueSpec)
			if len(vs.Names) == 0 || vs.Names[0].Name != name || len(vs.Values) != 1 {
				continue
			}
			call, ok := vs.Values[0].(*ast.CallExpr)
			if !ok || len(call.Args) != 2 {
				continue
			}
			sel, ok := call.Fun.(*ast.SelectorExpr)
			if !ok || sel.Sel.Name != "SetString" {
				continue
			}
			lit, ok := call.Args[0].(*ast.BasicLit)
			base, ok2 := call.Args[1].(*ast.BasicLit)
			if !ok || !ok2 || lit.Kind != token.STRING || base.Value != "10" {
				continue
			}
			v, err := strconv.Unquote(lit.Value)
			if err != nil {
				continue
			}
			for _, c := range v {
				if c < '0' || c > '9' {
					return ""
				}
			}
			return v
		}
	}
	return ""
}

func run(repo string) (string, error) {
	dir := filepath.Join(repo, "group", "edwards25519")
	fset, f, err := ex.Parse(filepath.Join(dir, "scalar.go"))
	if err != nil {
		return "", err
	}
	_, cf, err := ex.Parse(filepath.Join(dir, "const.go"))
	if err != nil {
		return "", err
	}
	s := ex.Header("Ed25519Sc", "group/edwards25519/scalar.go, const.go")
	s += "import DosModel.Model.Ed25519Scalar\nset_option linter.unusedVariables false\nnamespace Dos.Gen.Ed25519Sc\nopen Dos Dos.Ed25519\n\n"
	for _, c := range []string{"primeOrder", "lMinus2"} {
		v := bigString(cf, c)
		if v == "" {
			return "", fmt.Errorf("const.go: %s not found as new(big.Int).SetString(<decimal>, 10)", c)
		}
		s += fmt.Sprintf("def %s : Nat := %s\n", c, v)
	}
	if c := ex.Consts(cf); false {
		_ = c
	}
	s += "\n"
	for _, fn := range funcs {
		fd := ex.FuncDecl(f, "", fn)
		if fd == nil {
			return "", fmt.Errorf("scalar.go: func %s not found", fn)
		}
		body, err := translate(fset, fd)
		if err != nil {
			return "", err
		}
		s += body
	}
	s += "end Dos.Gen.Ed25519Sc\n"
	return s, nil
}

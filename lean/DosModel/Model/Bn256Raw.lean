/-
C10 / E7 — raw access to the four 64-bit limbs of a `gfP`, as gfp.go uses it outside the four assembly
primitives: the literals `&gfP{w0, …}` (newGFp, montDecode's `&gfP{1}`: plain numbers, NOT Montgomery
encoded; missing limbs are zero) and the indexed limbs `e[i]` (gfP.Set). The translation of gfp.go
(Gen/Bn256Code.lean) is stated over any base type with this interface; the instance for the Montgomery
model `GFp` reads the limbs of the 256-bit content.
-/
import DosModel.Model.Bn256Field

namespace Dos.Bn256

class RawLimbs (α : Type) where
  /-- `gfP{w0, w1, …}`: the value whose limbs are the given words (little endian, rest zero) -/
  ofLimbs : List Nat → α
  /-- `e[i]` -/
  word : α → Nat → Nat

instance : RawLimbs GFp := ⟨GFp.ofLimbs, fun a i => (a.v >>> (64 * i)) % 2 ^ 64⟩

end Dos.Bn256

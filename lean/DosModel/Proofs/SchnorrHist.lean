/-
C20 (round 5) — lemmas about the history semantics Model/SchnorrHist.lean (theorems: Props/C20Hist.lean).
-/
import DosModel.Model.SchnorrHist

namespace Dos.SchnorrHist
open Dos Dos.Ed25519 Dos.Schnorr

variable {G σ : Type}

/-- an implementation whose calls return the one-shot outcome produces, whatever state it keeps, call by call the
one-shot function of the values at call time -/
theorem runWith_pointwise (g : Grp G) (H : Bytes → Bytes) (I : Impl σ G)
    (hI : ∀ s st c, (I.call s st c).1 = evalCall g H st c) :
    ∀ (steps : List (Step G)) (s : σ) (st : Store G),
      runWith g I s st steps = (argsAt g H st steps).map (outcomeOf g H) := by
  intro steps
  induction steps with
  | nil => intro s st; rfl
  | cons step rest ih =>
    intro s st
    cases step with
    | upd m => simp only [runWith, argsAt]; exact ih s _
    | call c dst =>
      simp only [runWith, argsAt, List.map_cons, hI]
      rw [ih]
      rfl

theorem runHist_pointwise (g : Grp G) (H : Bytes → Bytes) (st : Store G) (steps : List (Step G)) :
    runHist g H st steps = (argsAt g H st steps).map (outcomeOf g H) :=
  runWith_pointwise g H (pureImpl g H) (fun _ _ _ => rfl) steps () st

theorem runHist_append (g : Grp G) (H : Bytes → Bytes) :
    ∀ (pre post : List (Step G)) (st : Store G),
      runHist g H st (pre ++ post) = runHist g H st pre ++ runHist g H (storeAfter g H st pre) post := by
  intro pre
  induction pre with
  | nil => intro post st; rfl
  | cons step rest ih =>
    intro post st
    cases step with
    | upd m => exact ih post _
    | call c dst =>
      show evalCall g H st c :: runHist g H _ (rest ++ post) = _
      rw [ih]
      rfl

theorem storeAfter_append (g : Grp G) (H : Bytes → Bytes) :
    ∀ (pre post : List (Step G)) (st : Store G),
      storeAfter g H st (pre ++ post) = storeAfter g H (storeAfter g H st pre) post := by
  intro pre
  induction pre with
  | nil => intro post st; rfl
  | cons step rest ih =>
    intro post st
    cases step with
    | upd m => exact ih post _
    | call c dst => exact ih post _

theorem runHist_call_none (g : Grp G) (H : Bytes → Bytes) (st : Store G) (c : Call) (post : List (Step G)) :
    runHist g H st (.call c none :: post) = evalCall g H st c :: runHist g H st post := by
  show evalCall g H st c :: runHist g H (capture st (evalCall g H st c) none) post = _
  cases evalCall g H st c <;> rfl

theorem sign_eq_signWith (g : Grp G) (H : Bytes → Bytes) (x k : Nat) (msg : Bytes) :
    sign g H x k msg = signWith g H (g.smul x g.base) x k msg := rfl

end Dos.SchnorrHist

/-
Characterisation of the decoders of `Model/Codec.lean`: what exactly they accept.  Core Lean only.
-/
import DosModel.Proofs.Codec

namespace Dos.Codec
open Dos Dos.Bn256 Dos.CodecBytes

/-! ### G1 -/

def g1Coords : G1 → List Nat
  | .inf => [0, 0]
  | .aff x y => [x, y]

theorem marshalG1_eq (P : G1) : marshalG1 P = ((g1Coords P).map be32).flatten := by
  cases P with
  | inf =>
    simp only [marshalG1, g1Coords, List.map_cons, List.map_nil, List.flatten_cons, List.flatten_nil,
      be32, natBE_zero, List.append_nil]
    rfl
  | aff x y => simp [marshalG1, g1Coords]

theorem marshalG1_length (P : G1) : (marshalG1 P).length = 64 := by
  cases P <;> simp [marshalG1, be32_length]

theorem unmarshalG1_short (buf : Bytes) (h : buf.length < 64) : unmarshalG1 buf = .err .short := by
  simp [unmarshalG1, h]

theorem unmarshalG1_long (buf : Bytes) (h : 64 ≤ buf.length) :
    unmarshalG1 buf = g1OfCoords (beNat (buf.take 32)) (beNat ((buf.drop 32).take 32)) := by
  have hr := readCoords_ok 2 buf (by omega)
  have : ¬ buf.length < 64 := by omega
  simp [unmarshalG1, this, hr, wordsOf]

theorem g1OfCoords_not_panic (x y : Nat) : (g1OfCoords x y).isPanic = false := by
  unfold g1OfCoords
  split
  · rfl
  · split
    · rfl
    · split <;> rfl

theorem g1OfCoords_ok (x y : Nat) (P : G1) (h : g1OfCoords x y = .ok P) :
    x < p ∧ y < p ∧ G1.valid P = true ∧ g1Coords P = [x, y] := by
  unfold g1OfCoords at h
  split at h
  · cases h
  · rename_i hc
    have hx : x < p := by omega
    have hy : y < p := by omega
    split at h
    · rename_i h0
      cases h
      exact ⟨hx, hy, rfl, by simp [g1Coords, h0.1, h0.2]⟩
    · split at h
      · rename_i hon
        cases h
        exact ⟨hx, hy, by simp [G1.valid, hx, hy, hon], rfl⟩
      · cases h

theorem g1OfCoords_valid (P : G1) (hv : G1.valid P = true) :
    ∃ x y, g1Coords P = [x, y] ∧ x < p ∧ y < p ∧ g1OfCoords x y = .ok P := by
  cases P with
  | inf => exact ⟨0, 0, rfl, p_pos, p_pos, by simp [g1OfCoords, Nat.not_le.mpr p_pos]⟩
  | aff x y =>
    simp only [G1.valid, Bool.and_eq_true, decide_eq_true_eq] at hv
    obtain ⟨⟨hx, hy⟩, hon⟩ := hv
    refine ⟨x, y, rfl, hx, hy, ?_⟩
    have h0 : ¬ (x = 0 ∧ y = 0) := by
      rintro ⟨rfl, rfl⟩
      rw [zero_not_on_curve] at hon; cases hon
    simp [g1OfCoords, Nat.not_le.mpr hx, Nat.not_le.mpr hy, h0, hon]

/-- encode-then-decode, with any trailing bytes -/
theorem unmarshalG1_marshalG1 (P : G1) (hv : G1.valid P = true) (tail : Bytes) :
    unmarshalG1 (marshalG1 P ++ tail) = .ok P := by
  obtain ⟨x, y, hc, hx, hy, hok⟩ := g1OfCoords_valid P hv
  have hlen : 64 ≤ (marshalG1 P ++ tail).length := by simp [marshalG1_length]
  have hw := wordsOf_encode [x, y] tail (by
    intro c hcm; simp at hcm; rcases hcm with rfl | rfl <;> assumption)
  rw [marshalG1_eq, hc] at *
  have hr := readCoords_ok 2 _ (by omega : 32 * 2 ≤ _)
  have : ¬ (([x, y].map be32).flatten ++ tail).length < 64 := by omega
  simp only [List.length_cons, List.length_nil] at hw
  simp only [unmarshalG1, this, if_false, hr, hw, hok]

/-- a successful decode returns a valid element whose encoding is the first 64 bytes read -/
theorem unmarshalG1_ok (buf : Bytes) (P : G1) (h : unmarshalG1 buf = .ok P) :
    64 ≤ buf.length ∧ G1.valid P = true ∧ marshalG1 P = buf.take 64 := by
  by_cases hl : buf.length < 64
  · rw [unmarshalG1_short buf hl] at h; cases h
  · have hl' : 64 ≤ buf.length := by omega
    rw [unmarshalG1_long buf hl'] at h
    obtain ⟨_, _, hv, hc⟩ := g1OfCoords_ok _ _ P h
    refine ⟨hl', hv, ?_⟩
    rw [marshalG1_eq, hc]
    have := encode_wordsOf 2 buf (by omega)
    simpa [wordsOf] using this

theorem unmarshalG1_ok_iff (buf : Bytes) (P : G1) :
    unmarshalG1 buf = .ok P ↔ 64 ≤ buf.length ∧ G1.valid P = true ∧ marshalG1 P = buf.take 64 := by
  constructor
  · exact unmarshalG1_ok buf P
  · rintro ⟨_, hv, he⟩
    have := unmarshalG1_marshalG1 P hv (buf.drop 64)
    rwa [he, List.take_append_drop] at this

theorem unmarshalG1_not_panic (buf : Bytes) : (unmarshalG1 buf).isPanic = false := by
  by_cases hl : buf.length < 64
  · rw [unmarshalG1_short buf hl]; rfl
  · rw [unmarshalG1_long buf (by omega)]; exact g1OfCoords_not_panic _ _

theorem marshalG1_inj (P Q : G1) (hP : G1.valid P = true) (hQ : G1.valid Q = true)
    (h : marshalG1 P = marshalG1 Q) : P = Q := by
  have h1 := unmarshalG1_marshalG1 P hP []
  have h2 := unmarshalG1_marshalG1 Q hQ []
  rw [h, h2] at h1
  cases h1; rfl

/-! ### G2 -/

def g2Coords : G2 → List Nat
  | .inf => [0, 0, 0, 0]
  | .aff x y => [x.im, x.re, y.im, y.re]

theorem marshalG2_aff (x y : Fp2) :
    marshalG2 (.aff x y) = 1 :: ((g2Coords (.aff x y)).map be32).flatten := by
  simp [marshalG2, g2Coords]

theorem marshalG2_length_aff (x y : Fp2) : (marshalG2 (.aff x y)).length = 129 := by
  simp [marshalG2, be32_length]

theorem g2OfCoords_not_panic (a b c d : Nat) : (g2OfCoords a b c d).isPanic = false := by
  unfold g2OfCoords
  split
  · rfl
  · split
    · rfl
    · simp only
      split
      · rfl
      · split <;> rfl

theorem g2OfCoords_ok (a b c d : Nat) (P : G2) (h : g2OfCoords a b c d = .ok P) :
    G2.valid P = true ∧ g2Coords P = [a, b, c, d] := by
  unfold g2OfCoords at h
  split at h
  · cases h
  · rename_i hc
    have ha : a < p := by omega
    have hb : b < p := by omega
    have hc' : c < p := by omega
    have hd : d < p := by omega
    split at h
    · rename_i h0
      cases h
      exact ⟨rfl, by simp [g2Coords, h0.1, h0.2.1, h0.2.2.1, h0.2.2.2]⟩
    · simp only at h
      split at h
      · cases h
      · rename_i hon
        split at h
        · cases h
        · rename_i hsub
          cases h
          refine ⟨?_, rfl⟩
          simp [G2.valid, ha, hb, hc', hd]
          constructor
          · cases hh : G2.onCurve (G2.aff ⟨a, b⟩ ⟨c, d⟩) <;> simp_all
          · cases hh : G2.inSubgroup (G2.aff ⟨a, b⟩ ⟨c, d⟩) <;> simp_all

theorem g2OfCoords_valid (x y : Fp2) (hv : G2.valid (.aff x y) = true) :
    g2OfCoords x.im x.re y.im y.re = .ok (.aff x y) := by
  simp only [G2.valid, Bool.and_eq_true, decide_eq_true_eq] at hv
  obtain ⟨⟨⟨⟨⟨h1, h2⟩, h3⟩, h4⟩, hon⟩, hsub⟩ := hv
  have h0 : ¬ (x.im = 0 ∧ x.re = 0 ∧ y.im = 0 ∧ y.re = 0) := by
    rintro ⟨e1, e2, e3, e4⟩
    have : G2.aff x y = G2.aff ⟨0, 0⟩ ⟨0, 0⟩ := by
      cases x; cases y; simp_all
    rw [this, zero_not_on_twist] at hon; cases hon
  have hnc : ¬ (x.im ≥ p ∨ x.re ≥ p ∨ y.im ≥ p ∨ y.re ≥ p) := by omega
  have ex : (⟨x.im, x.re⟩ : Fp2) = x := by cases x; rfl
  have ey : (⟨y.im, y.re⟩ : Fp2) = y := by cases y; rfl
  simp [g2OfCoords, hnc, h0, ex, ey, hon, hsub]

theorem wordsOf4 (body : Bytes) : wordsOf 4 body =
    [beNat (body.take 32), beNat ((body.drop 32).take 32), beNat ((body.drop 64).take 32),
      beNat ((body.drop 96).take 32)] := by
  simp [wordsOf, List.drop_drop]

theorem unmarshalG2_tag0 (buf : Bytes) (h : buf.head? = some 0) : unmarshalG2 buf = .ok .inf := by
  simp [unmarshalG2, h]

theorem unmarshalG2_long (t : UInt8) (body : Bytes) (ht : t = 1) (h : 128 ≤ body.length) :
    unmarshalG2 (t :: body) = g2OfCoords (beNat (body.take 32)) (beNat ((body.drop 32).take 32))
      (beNat ((body.drop 64).take 32)) (beNat ((body.drop 96).take 32)) := by
  subst ht
  have hr := readCoords_ok 4 body (by omega)
  have h1 : ¬ (body.length + 1 < 129) := by omega
  simp [unmarshalG2, sliceFrom, hr, wordsOf, h1]

theorem unmarshalG2_not_panic (buf : Bytes) : (unmarshalG2 buf).isPanic = false := by
  cases buf with
  | nil => simp [unmarshalG2, Out.isPanic]
  | cons t body =>
    by_cases h0 : t = 0
    · subst h0; simp [unmarshalG2, Out.isPanic]
    · by_cases h1 : t = 1
      · by_cases hl : 128 ≤ body.length
        · rw [unmarshalG2_long t body h1 hl]; exact g2OfCoords_not_panic _ _ _ _
        · subst h1
          have : body.length + 1 < 129 := by omega
          simp [unmarshalG2, this, Out.isPanic]
      · simp [unmarshalG2, h0, h1, Out.isPanic]

/-- encode-then-decode, with any trailing bytes -/
theorem unmarshalG2_marshalG2 (P : G2) (hv : G2.valid P = true) (tail : Bytes) :
    unmarshalG2 (marshalG2 P ++ tail) = .ok P := by
  cases P with
  | inf => simp [marshalG2, unmarshalG2]
  | aff x y =>
    have hv' := hv
    simp only [G2.valid, Bool.and_eq_true, decide_eq_true_eq] at hv'
    obtain ⟨⟨⟨⟨⟨h1, h2⟩, h3⟩, h4⟩, _⟩, _⟩ := hv'
    have hw := wordsOf_encode [x.im, x.re, y.im, y.re] tail (by
      intro c hcm; simp at hcm; rcases hcm with rfl | rfl | rfl | rfl <;> assumption)
    have hlen : 128 ≤ (([x.im, x.re, y.im, y.re].map be32).flatten ++ tail).length := by
      simp [be32_length]; omega
    have := unmarshalG2_long 1 _ rfl hlen
    change wordsOf 4 _ = _ at hw
    rw [wordsOf4] at hw
    rw [marshalG2_aff, g2Coords, List.cons_append, this]
    simp only [List.cons.injEq, and_true] at hw
    obtain ⟨e1, e2, e3, e4⟩ := hw
    rw [e1, e2, e3, e4]
    exact g2OfCoords_valid x y hv

/-- a successful decode returns a valid element; for a non-identity element its encoding is the
first 129 bytes read -/
theorem unmarshalG2_ok (buf : Bytes) (P : G2) (h : unmarshalG2 buf = .ok P) :
    G2.valid P = true ∧ (∀ x y, P = .aff x y → 129 ≤ buf.length ∧ marshalG2 P = buf.take 129) := by
  cases buf with
  | nil => simp [unmarshalG2] at h
  | cons t body =>
    by_cases h0 : t = 0
    · subst h0
      simp [unmarshalG2] at h
      subst h
      exact ⟨rfl, by intro x y hh; cases hh⟩
    · by_cases h1 : t = 1
      · by_cases hl : 128 ≤ body.length
        · rw [unmarshalG2_long t body h1 hl] at h
          obtain ⟨hv, hc⟩ := g2OfCoords_ok _ _ _ _ P h
          refine ⟨hv, ?_⟩
          intro x y hP
          subst hP
          refine ⟨by simp; omega, ?_⟩
          rw [marshalG2_aff, hc, h1]
          have := encode_wordsOf 4 body (by omega)
          simp only [wordsOf, List.drop_drop] at this
          simp only [List.take_succ_cons]
          rw [← this]
        · subst h1
          have : body.length + 1 < 129 := by omega
          simp [unmarshalG2, this] at h
      · simp [unmarshalG2, h0, h1] at h

theorem marshalG2_inj (P Q : G2) (hP : G2.valid P = true) (hQ : G2.valid Q = true)
    (h : marshalG2 P = marshalG2 Q) : P = Q := by
  have h1 := unmarshalG2_marshalG2 P hP []
  have h2 := unmarshalG2_marshalG2 Q hQ []
  rw [h, h2] at h1
  cases h1; rfl

/-! ### GT -/

def gtValid (g : GT) : Prop := g.length = 12 ∧ ∀ c ∈ g, c < p

theorem marshalGT_length (g : GT) (h : g.length = 12) : (marshalGT g).length = 384 := by
  unfold marshalGT; rw [flatten_be32_length, h]

theorem unmarshalGT_short (buf : Bytes) (h : buf.length < 384) : unmarshalGT buf = .err .short := by
  simp [unmarshalGT, h]

theorem unmarshalGT_long (buf : Bytes) (h : 384 ≤ buf.length) :
    unmarshalGT buf =
      if (wordsOf 12 buf).any (fun c => c ≥ p) then .err .noncanon else .ok (wordsOf 12 buf) := by
  have hr := readCoords_ok 12 buf (by omega)
  have : ¬ buf.length < 384 := by omega
  simp only [unmarshalGT, this, if_false, hr]

theorem unmarshalGT_not_panic (buf : Bytes) : (unmarshalGT buf).isPanic = false := by
  by_cases hl : buf.length < 384
  · rw [unmarshalGT_short buf hl]; rfl
  · rw [unmarshalGT_long buf (by omega)]
    split <;> rfl

theorem unmarshalGT_marshalGT (g : GT) (hv : gtValid g) (tail : Bytes) :
    unmarshalGT (marshalGT g ++ tail) = .ok g := by
  obtain ⟨hl, hc⟩ := hv
  have hw := wordsOf_encode g tail hc
  rw [hl] at hw
  have hlen : 384 ≤ (marshalGT g ++ tail).length := by simp [marshalGT_length g hl]
  rw [unmarshalGT_long _ hlen]
  unfold marshalGT
  rw [hw]
  have : g.any (fun c => decide (c ≥ p)) = false := by
    rw [List.any_eq_false]
    intro c hcm
    have := hc c hcm
    simp; omega
  simp [this]

theorem unmarshalGT_ok (buf : Bytes) (g : GT) (h : unmarshalGT buf = .ok g) :
    384 ≤ buf.length ∧ gtValid g ∧ marshalGT g = buf.take 384 := by
  by_cases hl : buf.length < 384
  · rw [unmarshalGT_short buf hl] at h; cases h
  · have hl' : 384 ≤ buf.length := by omega
    rw [unmarshalGT_long buf hl'] at h
    split at h
    · cases h
    · rename_i hany
      cases h
      refine ⟨hl', ⟨wordsOf_length 12 buf, ?_⟩, ?_⟩
      · intro c hc
        simp only [Bool.not_eq_true, List.any_eq_false] at hany
        have := hany c hc
        simp at this; omega
      · exact encode_wordsOf 12 buf (by omega)

theorem marshalGT_inj (g g' : GT) (hg : gtValid g) (hg' : gtValid g') (h : marshalGT g = marshalGT g') :
    g = g' := by
  have h1 := unmarshalGT_marshalGT g hg []
  have h2 := unmarshalGT_marshalGT g' hg' []
  rw [h, h2] at h1
  cases h1; rfl

/-! ### scalars -/

theorem unmarshalScalar_ok (buf : Bytes) (s : Nat) (h : unmarshalScalar buf = .ok s) :
    buf.length = 32 ∧ s < r ∧ s = beNat buf ∧ marshalScalar s = .ok buf := by
  unfold unmarshalScalar at h
  split at h
  · cases h
  · rename_i hl
    split at h
    · cases h
    · rename_i hr
      cases h
      have hl' : buf.length = 32 := by simpa using hl
      refine ⟨hl', by omega, rfl, ?_⟩
      have hlt : beNat buf < 2 ^ 256 := by
        have := beNat_lt buf; rw [hl'] at this
        have e : (256 : Nat) ^ 32 = 2 ^ 256 := by decide
        omega
      have := natBE_beNat buf
      rw [hl'] at this
      simp [marshalScalar, hlt, this]

theorem unmarshalScalar_marshalScalar (s : Nat) (hs : s < r) :
    ∃ enc, marshalScalar s = .ok enc ∧ enc.length = 32 ∧ unmarshalScalar enc = .ok s := by
  have h256 : s < 2 ^ 256 := by
    have : r < 2 ^ 256 := by decide
    omega
  refine ⟨natBE 32 s, by simp [marshalScalar, h256], natBE_length 32 s, ?_⟩
  have hb : beNat (natBE 32 s) = s := beNat_natBE 32 s (by
    have e : (256 : Nat) ^ 32 = 2 ^ 256 := by decide
    omega)
  simp [unmarshalScalar, natBE_length, hb, Nat.not_le.mpr hs]

theorem unmarshalScalar_not_panic (buf : Bytes) : (unmarshalScalar buf).isPanic = false := by
  unfold unmarshalScalar
  split
  · rfl
  · split <;> rfl

end Dos.Codec

package c16

// gcm <ops>   KNOWN FINDING gcm-nonce-reuse-forgery (review 5-D finding 1), replayed on the real code.
//
// client.go seals every frame of a connection, in both directions, with the SAME GCM nonce
// (c.dhNonce, bytes 32..44 of the DH point). Two REAL nodes A and B, A reaches B through a byte-level
// proxy that holds NO key. A sends Ping{7}, Ping{7}, Ping{8} (and more Ping{7} until the proxy is
// done): from two frames that differ in one 16-byte block the proxy gets a power of the GHASH key H
// (T0^T1 = ΔC·H^k), takes the k-th roots in GF(2^128) and keeps the one consistent with the third
// frame. Then A sends one more Ping{7} (the victim) and the proxy, per op:
//
//	P   REPLACES it by a forgery: ciphertext byte of the 'i' in "p2p.Ping" ^= 'i'^'o' (type URL
//	    p2p.Pong), tag recomputed with H
//	B   INJECTS a forgery: Ping→Pong and the low byte of RequestNonce changed, tag recomputed
//	N   INJECTS a forgery: still a Ping, RequestNonce changed, tag recomputed
//	C   control: INJECTS the P alteration with the OLD tag (GCM must reject it)
//
// and finally A sends Ping{9}. The BLS signature covers Anything.Value only, so it still verifies.
// Observed at B's subscribers; the direct oracle is the property: A never sent a Pong and sent each
// Ping{7} once.

import (
	"bytes"
	"context"
	"encoding/binary"
	"fmt"
	"io"
	"math/big"
	"net"
	"strings"
	"sync"
	"time"

	"github.com/DOSNetwork/core/p2p"
	"github.com/golang/protobuf/proto"

	"verifharness/internal/h"
)

// ---- GF(2^128) in GCM's bit order (NIST SP 800-38D): bit 0 is the most significant bit of byte 0

type fe struct{ hi, lo uint64 }

var feOne = fe{hi: 1 << 63}

func feFrom(b []byte) fe {
	var p [16]byte
	copy(p[:], b)
	return fe{binary.BigEndian.Uint64(p[:8]), binary.BigEndian.Uint64(p[8:])}
}

func (a fe) bytes() []byte {
	var p [16]byte
	binary.BigEndian.PutUint64(p[:8], a.hi)
	binary.BigEndian.PutUint64(p[8:], a.lo)
	return p[:]
}
func (a fe) xor(b fe) fe { return fe{a.hi ^ b.hi, a.lo ^ b.lo} }

func feMul(x, y fe) fe {
	var z fe
	v := y
	for i := 0; i < 128; i++ {
		var bit uint64
		if i < 64 {
			bit = (x.hi >> uint(63-i)) & 1
		} else {
			bit = (x.lo >> uint(127-i)) & 1
		}
		if bit == 1 {
			z = z.xor(v)
		}
		lsb := v.lo & 1
		v.lo = v.lo>>1 | v.hi<<63
		v.hi >>= 1
		if lsb == 1 {
			v.hi ^= 0xe1 << 56
		}
	}
	return z
}

func fePow(a fe, e *big.Int) fe {
	r := feOne
	for i := e.BitLen() - 1; i >= 0; i-- {
		r = feMul(r, r)
		if e.Bit(i) == 1 {
			r = feMul(r, a)
		}
	}
	return r
}

var feGroupN = new(big.Int).Sub(new(big.Int).Lsh(big.NewInt(1), 128), big.NewInt(1)) // 2^128-1, squarefree

func feInv(a fe) fe { return fePow(a, new(big.Int).Sub(feGroupN, big.NewInt(1))) }

// feRoots: all x with x^k = y (y != 0)
func feRoots(y fe, k int) []fe {
	if k == 1 {
		return []fe{y}
	}
	p := 2
	for k%p != 0 {
		p++
	}
	P := big.NewInt(int64(p))
	if new(big.Int).Mod(feGroupN, P).Sign() != 0 { // x -> x^p is a bijection
		return feRoots(fePow(y, new(big.Int).ModInverse(P, feGroupN)), k/p)
	}
	M := new(big.Int).Div(feGroupN, P)
	if fePow(y, M) != feOne {
		return nil
	}
	r := fePow(y, new(big.Int).ModInverse(P, M))
	var w fe // a primitive p-th root of unity
	for z := (fe{hi: 1 << 62}); ; z.lo += 2 {
		if w = fePow(z, M); w != feOne {
			break
		}
	}
	var out []fe
	for i := 0; i < p; i++ {
		out = append(out, feRoots(r, k/p)...)
		r = feMul(r, w)
	}
	return out
}

// ghash without additional data
func ghash(hk fe, c []byte) fe {
	var y fe
	for i := 0; i < len(c); i += 16 {
		e := i + 16
		if e > len(c) {
			e = len(c)
		}
		y = feMul(y.xor(feFrom(c[i:e])), hk)
	}
	return feMul(y.xor(fe{0, uint64(len(c)) * 8}), hk)
}

type gcmRec struct{ c, t []byte } // ciphertext, tag

func gcmSplit(body []byte) gcmRec {
	return gcmRec{append([]byte(nil), body[:len(body)-16]...), append([]byte(nil), body[len(body)-16:]...)}
}

// recoverH: candidates for the GHASH key consistent with every pair of recorded frames (wire bytes only)
func recoverH(rs []gcmRec) []fe {
	var cands []fe
	found := false
	for a := 0; a < len(rs) && !found; a++ {
		for b := a + 1; b < len(rs) && !found; b++ {
			if len(rs[a].c) != len(rs[b].c) {
				continue
			}
			m := (len(rs[a].c) + 15) / 16
			j, n := 0, 0
			for i := 0; i < m; i++ {
				e := (i + 1) * 16
				if e > len(rs[a].c) {
					e = len(rs[a].c)
				}
				if !bytes.Equal(rs[a].c[i*16:e], rs[b].c[i*16:e]) {
					j, n = i+1, n+1
				}
			}
			if n != 1 {
				continue
			}
			e := j * 16
			if e > len(rs[a].c) {
				e = len(rs[a].c)
			}
			d := feFrom(rs[a].c[(j-1)*16 : e]).xor(feFrom(rs[b].c[(j-1)*16 : e]))
			k := m - j + 2
			cands = feRoots(feMul(feFrom(rs[a].t).xor(feFrom(rs[b].t)), feInv(d)), k) // the roots of H^k
			found = true
		}
	}
	var ok []fe
	for _, hk := range cands {
		good := true
		for a := 0; a < len(rs); a++ {
			for b := a + 1; b < len(rs); b++ {
				if ghash(hk, rs[a].c).xor(ghash(hk, rs[b].c)) != feFrom(rs[a].t).xor(feFrom(rs[b].t)) {
					good = false
				}
			}
		}
		if good {
			ok = append(ok, hk)
		}
	}
	return ok
}

// retag: the tag of ciphertext c2 given a genuine (c, t) of the same connection and H:
// T = GHASH_H(C) ^ E_K(J0), and E_K(J0) is the same for every frame because the nonce is
func retag(hk fe, r gcmRec, c2 []byte) []byte {
	return ghash(hk, c2).xor(ghash(hk, r.c).xor(feFrom(r.t))).bytes()
}

// public layout of the plaintext of a Ping request sent by node "A" (no secret involved):
// 0a <len any> 0a 1c "type.googleapis.com/p2p.Ping" 12 02 08 <count> | 12 40 <64 sig> | 1a 01 'A' | 20 <varint nonce>
const (
	gcmOffI     = 4 + len("type.googleapis.com/p2p.P")
	gcmOffNonce = 2 + 2 + 28 + 4 + 2 + 64 + 3 + 1
)

type gcmProxy struct {
	ln      net.Listener
	target  string
	mu      sync.Mutex
	recs    []gcmRec
	nAB     int
	hk      *fe
	attack  bool
	ops     []string
	applied bool
}

func gcmReadFrame(c net.Conn) ([]byte, error) {
	var hd [4]byte
	if _, err := io.ReadFull(c, hd[:]); err != nil {
		return nil, err
	}
	body := make([]byte, binary.BigEndian.Uint32(hd[:]))
	_, err := io.ReadFull(c, body)
	return body, err
}

func (p *gcmProxy) run() {
	for {
		a, err := p.ln.Accept()
		if err != nil {
			return
		}
		b, err := net.Dial("tcp", p.target)
		if err != nil {
			a.Close()
			continue
		}
		go func() { io.Copy(a, b); a.Close() }() // B -> A untouched
		go p.pump(a, b)
	}
}

func (p *gcmProxy) pump(a, b net.Conn) {
	defer b.Close()
	defer a.Close()
	hs := true
	for {
		body, err := gcmReadFrame(a)
		if err != nil {
			return
		}
		if hs || len(body) < 17+gcmOffNonce {
			hs = false
			b.Write(frame(body))
			continue
		}
		p.mu.Lock()
		r := gcmSplit(body)
		p.recs = append(p.recs, r)
		if p.hk == nil && len(p.recs) >= 3 {
			if hs := recoverH(p.recs); len(hs) == 1 {
				p.hk = &hs[0]
			}
		}
		hk, attack := p.hk, p.attack && !p.applied
		if attack && hk != nil {
			p.applied = true
		}
		p.nAB++
		p.mu.Unlock()
		if hk == nil || !attack {
			b.Write(frame(body))
			continue
		}
		forged := func(flipType bool, nonceXor byte, fixTag bool) []byte {
			c := append([]byte(nil), r.c...)
			if flipType {
				c[gcmOffI] ^= 'i' ^ 'o'
			}
			c[gcmOffNonce] ^= nonceXor
			if fixTag {
				return append(c, retag(*hk, r, c)...)
			}
			return append(c, r.t...)
		}
		replaced := false
		for _, op := range p.ops {
			if op == "P" {
				replaced = true
			}
		}
		if !replaced {
			b.Write(frame(body))
		}
		for _, op := range p.ops {
			switch op {
			case "P":
				b.Write(frame(forged(true, 0, true)))
			case "B":
				b.Write(frame(forged(true, 0x55, true)))
			case "N":
				b.Write(frame(forged(false, 0x2a, true)))
			case "C":
				b.Write(frame(forged(true, 0, false)))
			default:
				panic("bad case line: gcm op " + op)
			}
		}
	}
}

// execGcm: up to three attempts. The forging needs the GHASH key, which needs two frames of equal payload
// that differ in one block (the harness makes A send them) — if an attempt does not recover it, or a forged
// frame that was written did not come out in time, the scenario is set up again from scratch.
func execGcm(opsS string) (res h.Result) {
	for try := 0; try < 3; try++ {
		var forgedAsWritten bool
		res, forgedAsWritten = execGcmOnce(opsS)
		if forgedAsWritten {
			break
		}
	}
	return
}

func execGcmOnce(opsS string) (res h.Result, ok bool) {
	ops := split(opsS)
	recv := startReceiverAs("B", func([]byte) string { return "" }, nil)
	defer recv.node.Leave()
	ln, err := net.Listen("tcp", "127.0.0.1:0")
	if err != nil {
		panic(err)
	}
	defer ln.Close()
	px := &gcmProxy{ln: ln, target: recv.addr, ops: ops}
	go px.run()
	arecv := startReceiverAs("A", func(id []byte) string {
		if string(id) == "B" {
			return ln.Addr().String()
		}
		return ""
	}, nil)
	defer arecv.node.Leave()
	sent := map[int]int{} // Ping count -> how often A sent it
	send := func(count int) bool {
		px.mu.Lock()
		before := px.nAB
		px.mu.Unlock()
		sent[count]++
		go func() {
			ctx, cancel := context.WithTimeout(context.Background(), 500*time.Millisecond)
			defer cancel()
			arecv.node.Request(ctx, []byte("B"), &p2p.Ping{Count: uint64(count)}) // B never replies
		}()
		for t0 := time.Now(); time.Since(t0) < 10*time.Second; time.Sleep(2 * time.Millisecond) {
			px.mu.Lock()
			n := px.nAB
			px.mu.Unlock()
			if n > before {
				return true
			}
		}
		return false
	}
	okSend := send(7) && send(7) && send(8)
	for i := 0; i < 6 && okSend; i++ {
		px.mu.Lock()
		done := px.hk != nil
		px.mu.Unlock()
		if done {
			break
		}
		okSend = send(7)
	}
	px.mu.Lock()
	recovered := px.hk != nil
	px.attack = true
	px.mu.Unlock()
	okSend = okSend && send(7) // the victim
	okSend = okSend && send(9)
	back := recv.waitFor(0, 9, okSend)
	// what was injected BEFORE the sentinel has been dispatched when the sentinel is out, but the readers of
	// the other subscriber channels may not have run yet: look (bounded) for as many Pongs as type-flipping
	// forgeries were written — this only decides how long to look
	wantPong := 0
	for _, op := range ops {
		if op == "P" || op == "B" {
			wantPong++
		}
	}
	for t0 := time.Now(); time.Since(t0) < 3*time.Second; time.Sleep(10 * time.Millisecond) {
		recv.mu.Lock()
		n := 0
		for _, d := range recv.got {
			if d.t == 1 {
				n++
			}
		}
		recv.mu.Unlock()
		if n >= wantPong {
			break
		}
	}
	time.Sleep(100 * time.Millisecond)
	alive := recv.alive()
	recv.mu.Lock()
	ping := map[int]int{}
	pong := 0
	var forgedSeen []string
	for _, d := range recv.got {
		switch d.t {
		case 0:
			ping[d.idx]++
		case 1:
			pong++
			var m p2p.Pong
			proto.Unmarshal(d.raw, &m)
			forgedSeen = append(forgedSeen, fmt.Sprintf("Pong{%d} sender=%q", m.Count, d.sender))
		}
	}
	recv.mu.Unlock()
	hs, conn, al := "fail", "dead", "no"
	if recovered {
		hs = "ok"
	}
	if back {
		conn = "live"
	}
	if alive {
		al = "yes"
	}
	wantD7 := 0
	for _, op := range ops {
		switch op {
		case "P":
			wantD7--
		case "N":
			wantD7++
		}
	}
	ok = recovered && okSend && back && pong == wantPong && ping[7]-sent[7] == wantD7
	res.Impl = fmt.Sprintf("gcm h=%s dping7=%d ping8=%d ping9=%d pong=%d conn=%s alive=%s", hs, ping[7]-sent[7], ping[8], ping[9], pong, conn, al)
	switch {
	case !okSend:
		res.Oracle = "sender-stuck: a frame of A never reached the proxy"
	case pong > 0:
		res.Oracle = fmt.Sprintf("gcm-nonce-reuse-forgery: B's p2p.Pong subscriber received %s; A sent only Pings — frames forged by a proxy that holds no key (GHASH key recovered from %d frames sealed under the connection's single nonce, type URL / RequestNonce rewritten, tag recomputed); ops %s", strings.Join(forgedSeen, ", "), len(px.recs), opsS)
	case ping[7] > sent[7]:
		res.Oracle = fmt.Sprintf("gcm-nonce-reuse-forgery: B's p2p.Ping subscriber received Ping{7} %d times, A sent it %d times — a frame forged by a proxy that holds no key (GHASH key recovered under the connection's single nonce, RequestNonce rewritten, tag recomputed); ops %s", ping[7], sent[7], opsS)
	case !alive:
		res.Oracle = "receiver-dead: a fresh honest connection got no message through"
	}
	return
}

import DosModel.Model.Bls
/-
Line-protocol driver for C06.  Acceptance is decided by running the generic `Bls.verify` on the
instance `Bls.evalOps`: G1 concrete (affine model), the public key given by its discrete log
(the harness makes every key as x•g₂ and puts x in the case line), e(P, x) = x•P.  So
"accept" ⇔ the signature parses to a point S with  −S + x•(h•g₁) = O,  h = keccak256(msg) mod r
computed by the Lean Keccak of `Model/Keccak.lean`.
-/
open Dos Dos.Bn256 Dos.Codec Dos.Bls

namespace Dos.DrvC06

def synBytes (n a b : Nat) : Bytes :=
  (List.range n).map (fun i => UInt8.ofNat ((a * i + b) % 256))

/-- message descriptor: `-` (empty), hex, or `syn:n:a:b` (byte i = (a·i+b) mod 256) -/
def msgOf (s : String) : Option Bytes :=
  match s.splitOn ":" with
  | ["syn", n, a, b] =>
    match n.toNat?, a.toNat?, b.toNat? with
    | some n, some a, some b => some (synBytes n a b)
    | _, _, _ => none
  | _ => ofHex s

def step (line : String) : String :=
  match words line with
  | ["verify", sk, ms, ss] =>
    match sk.toNat?, msgOf ms, ofHex ss with
    | some sk, some msg, some sig => verdictName (verify evalOps (sk % r) msg sig)
    | _, _, _ => "bad-op"
  | ["sign", sk, ms] =>
    match sk.toNat?, msgOf ms with
    | some sk, some msg =>
      let x := sk % r
      s!"ok {toHex (sign evalOps x msg)} pk={toHex (marshalG2 (G2.smul x g2gen))}"
    | _, _ => "bad-op"
  -- `Verify` is a pure function of (key, message, signature): every goroutine of every round gets the same verdict
  | ["conc", sk, ms, ss, _, rounds, n] =>
    match sk.toNat?, msgOf ms, ofHex ss with
    | some sk, some msg, some sig => s!"all={verdictName (verify evalOps (sk % r) msg sig)} rounds={rounds} n={n}"
    | _, _, _ => "bad-op"
  | ["keccak", ms] =>
    match msgOf ms with
    | some msg => toHex (Keccak.keccak256 msg)
    | none => "bad-op"
  | _ => "bad-op"

end Dos.DrvC06

partial def readLines (h : IO.FS.Stream) (acc : Array String) : IO (Array String) := do
  let line ← h.getLine
  if line.isEmpty then return acc
  let l := (line.trimAsciiEnd).toString
  if l.isEmpty then readLines h acc else readLines h (acc.push l)

def main : IO Unit := do
  let stdin ← IO.getStdin
  let lines ← readLines stdin #[]
  let tasks := lines.map (fun l => Task.spawn (fun _ => Dos.DrvC06.step l))
  let out ← IO.getStdout
  for t in tasks do
    out.putStrLn t.get
  out.flush

/-
`PriPoly.Mul` is polynomial multiplication and `RecoverPriPoly` assembles the Lagrange
interpolation polynomial (model of `share/poly.go`, any field).
-/
import DosModel.Proofs.Share

set_option linter.unusedSectionVars false

namespace Dos.Share
open Polynomial

variable {F : Type} [Field F] [DecidableEq F]

theorem toPoly_replicate_zero (n : Nat) : toPoly (List.replicate n (0 : F)) = 0 := by
  induction n with
  | zero => rfl
  | succ n ih => simp [List.replicate_succ, ih]

theorem toPoly_modify (acc : List F) (k : Nat) (d : F) (hk : k < acc.length) :
    toPoly (acc.modify k (fun c => c + d)) = toPoly acc + C d * X ^ k := by
  induction acc generalizing k with
  | nil => simp at hk
  | cons c rest ih =>
    cases k with
    | zero => simp [List.modify_cons]; ring
    | succ k =>
      have hk' : k < rest.length := by simpa using hk
      simp only [List.modify_succ_cons, toPoly_cons, ih k hk']
      ring

theorem toPoly_mulRow (pi : F) (qs : List F) :
    ∀ (k : Nat) (acc : List F), k + qs.length ≤ acc.length →
      toPoly (mulRow pi qs k acc) = toPoly acc + C pi * X ^ k * toPoly qs
        ∧ (mulRow pi qs k acc).length = acc.length := by
  induction qs with
  | nil => intro k acc _; simp [mulRow]
  | cons qj qs ih =>
    intro k acc h
    simp only [List.length_cons] at h
    unfold mulRow
    have hlen : (acc.modify k (fun c => c + pi * qj)).length = acc.length := by simp
    obtain ⟨h1, h2⟩ := ih (k + 1) (acc.modify k (fun c => c + pi * qj)) (by rw [hlen]; omega)
    refine ⟨?_, by rw [h2, hlen]⟩
    rw [h1, toPoly_modify acc k _ (by omega), toPoly_cons, C_mul]
    ring

theorem toPoly_mulRows (q : List F) (ps : List F) :
    ∀ (i : Nat) (acc : List F), (ps.length = 0 ∨ i + ps.length + q.length ≤ acc.length + 1) →
      toPoly (mulRows q ps i acc) = toPoly acc + X ^ i * toPoly ps * toPoly q
        ∧ (mulRows q ps i acc).length = acc.length := by
  induction ps with
  | nil => intro i acc _; simp [mulRows]
  | cons pi ps ih =>
    intro i acc h
    have h' : i + (ps.length + 1) + q.length ≤ acc.length + 1 := by
      rcases h with h | h
      · simp at h
      · simpa using h
    unfold mulRows
    obtain ⟨r1, r2⟩ := toPoly_mulRow pi q i acc (by omega)
    obtain ⟨h1, h2⟩ := ih (i + 1) (mulRow pi q i acc) (Or.inr (by rw [r2]; omega))
    refine ⟨?_, by rw [h2, r2]⟩
    rw [h1, r1, toPoly_cons]
    ring

/-- `PriPoly.Mul` multiplies the polynomials -/
theorem toPoly_polyMul (p q : List F) (hp : p ≠ []) :
    toPoly (polyMul p q) = toPoly p * toPoly q
      ∧ (polyMul p q).length = p.length + q.length - 1 := by
  have hpl : 0 < p.length := List.length_pos_iff.2 hp
  unfold polyMul
  obtain ⟨h1, h2⟩ := toPoly_mulRows q p 0 (List.replicate (p.length + q.length - 1) 0)
    (Or.inr (by simp; omega))
  refine ⟨?_, by simpa using h2⟩
  rw [h1, toPoly_replicate_zero]; simp

theorem priMul_correct (p q : List F) (hp : p ≠ []) :
    ∃ r, priMul p q = .ok r ∧ toPoly r = toPoly p * toPoly q := by
  have hpl : 0 < p.length := List.length_pos_iff.2 hp
  refine ⟨polyMul p q, ?_, (toPoly_polyMul p q hp).1⟩
  simp [priMul, polyMul, hp]

theorem toPoly_xMinusConst (c : F) : toPoly (xMinusConst c) = X - C c := by
  simp [xMinusConst]; ring

theorem toPoly_map_mul (l : List F) (a : F) : toPoly (l.map (fun c => c * a)) = C a * toPoly l := by
  induction l with
  | nil => simp
  | cons c l ih => simp [ih, C_mul]; ring

theorem toPoly_zipWith_add (a b : List F) (h : a.length = b.length) :
    toPoly (List.zipWith (· + ·) a b) = toPoly a + toPoly b := by
  induction a generalizing b with
  | nil => cases b <;> simp_all
  | cons x a ih =>
    cases b with
    | nil => simp at h
    | cons y b =>
      simp only [List.zipWith_cons_cons, toPoly_cons, ih b (by simpa using h), C_add]
      ring

/-- inner loop of `RecoverPriPoly` -/
theorem basisAcc_fold (xs : List (Node F F)) (j : Node F F) :
    ∀ (b : List F) (a : F), b ≠ [] →
      let r := xs.foldl (fun (ba : List F × F) m =>
        if m.pos = j.pos then ba
        else (polyMul ba.1 (xMinusConst m.x), ba.2 * (j.x - m.x)⁻¹)) (b, a)
      toPoly r.1 = toPoly b * ((xs.filter (fun m => m.pos ≠ j.pos)).map (fun m => X - C m.x)).prod
        ∧ r.1.length = b.length + (xs.filter (fun m => m.pos ≠ j.pos)).length
        ∧ r.2 = a * ((xs.filter (fun m => m.pos ≠ j.pos)).map (fun m => (j.x - m.x)⁻¹)).prod := by
  induction xs with
  | nil => intro b a _; simp
  | cons m xs ih =>
    intro b a hb
    simp only [List.foldl_cons]
    by_cases h : m.pos = j.pos
    · simpa [h] using ih b a hb
    · obtain ⟨p1, p2⟩ := toPoly_polyMul b (xMinusConst m.x) hb
      have hne : polyMul b (xMinusConst m.x) ≠ [] := by
        intro he; rw [he] at p2; simp [xMinusConst] at p2
      have := ih (polyMul b (xMinusConst m.x)) (a * (j.x - m.x)⁻¹) hne
      simp only [h, if_false, ne_eq, not_false_eq_true, List.filter_cons_of_pos, decide_true,
        List.map_cons, List.prod_cons, List.length_cons] at this ⊢
      obtain ⟨t1, t2, t3⟩ := this
      refine ⟨?_, ?_, ?_⟩
      · rw [t1, p1, toPoly_xMinusConst]; ring
      · rw [t2, p2]
        simp only [xMinusConst, List.length_cons, List.length_nil]
        have := List.length_pos_iff.2 hb; omega
      · rw [t3]; ring

/-- the list `RecoverPriPoly` adds for the entry `j` -/
def basisList (xs : List (Node F F)) (j : Node F F) : List F :=
  (basisAcc xs j).1.map (fun c => c * (basisAcc xs j).2)

theorem basisList_spec (xs : List (Node F F)) (j : Node F F) :
    toPoly (basisList xs j)
        = C (j.v * ((xs.filter (fun m => m.pos ≠ j.pos)).map (fun m => (j.x - m.x)⁻¹)).prod)
          * ((xs.filter (fun m => m.pos ≠ j.pos)).map (fun m => X - C m.x)).prod
      ∧ (basisList xs j).length = 1 + (xs.filter (fun m => m.pos ≠ j.pos)).length := by
  obtain ⟨h1, h2, h3⟩ := basisAcc_fold xs j [1] j.v (by simp)
  unfold basisList basisAcc
  refine ⟨?_, by simp [h2]⟩
  rw [toPoly_map_mul, h1, h3]; simp

theorem filter_pos_length (xs : List (Node F F)) (hpos : (xs.map (·.pos)).Nodup) (j : Node F F)
    (hj : j ∈ xs) : (xs.filter (fun m => m.pos ≠ j.pos)).length = xs.length - 1 := by
  have h1 : (xs.filter (fun m => m.pos ≠ j.pos)).length
      = ((xs.map (·.pos)).filter (· ≠ j.pos)).length := by
    rw [List.filter_map, List.length_map]; rfl
  have h2 : (xs.map (·.pos)).filter (fun x => decide (x ≠ j.pos)) = (xs.map (·.pos)).erase j.pos := by
    rw [List.Nodup.erase_eq_filter hpos]
    apply List.filter_congr
    intro x _; simp [bne, beq_eq_decide]
  rw [h1, h2, List.length_erase_of_mem (List.mem_map.2 ⟨j, hj, rfl⟩)]
  simp

/-- outer loop of `RecoverPriPoly`, started from a non-nil accumulator -/
theorem polyStep_fold (g : Nat) (xs : List (Node F F)) (L : Nat) :
    ∀ (ys : List (Node F F)) (c0 : List F), (∀ j ∈ ys, (basisList xs j).length = L) → c0.length = L →
      ∃ c, ys.foldl (polyStep g xs) (.ok (some ⟨g, c0⟩)) = .ok (some ⟨g, c⟩) ∧ c.length = L
        ∧ toPoly c = toPoly c0 + (ys.map fun j => toPoly (basisList xs j)).sum := by
  intro ys
  induction ys with
  | nil => intro c0 _ h0; exact ⟨c0, rfl, h0, by simp⟩
  | cons j ys ih =>
    intro c0 hys h0
    have hj : (basisList xs j).length = L := hys j (by simp)
    have hstep : polyStep g xs (.ok (some ⟨g, c0⟩)) j
        = .ok (some ⟨g, List.zipWith (· + ·) c0 (basisList xs j)⟩) := by
      have hL' : L = (basisAcc xs j).1.length := by simpa [basisList] using hj.symm
      simp [polyStep, priAdd, basisList, h0, ← hL']
    obtain ⟨c, e1, e2, e3⟩ := ih (List.zipWith (· + ·) c0 (basisList xs j))
      (fun k hk => hys k (by simp [hk])) (by simp [h0, hj])
    refine ⟨c, by rw [List.foldl_cons, hstep, e1], e2, ?_⟩
    rw [e3, toPoly_zipWith_add _ _ (by rw [h0, hj])]
    simp [add_assoc]

/-- `RecoverPriPoly` on nodes that lie on `f` (with `t = len f` coefficients) returns `f` -/
theorem recoverPriPoly_of_good (g : Nat) (f : List F) (t : Nat) (ht : 0 < t) (hf : f.length = t)
    (xs : List (Node F F)) (hg : GoodS xs (toPoly f)) (hlen : xs.length = t)
    {shares : List (Option (PriShare F))} {n : Nat} (hxs : xScalar shares t n = xs) :
    recoverPriPoly g shares t n = .ok ⟨g, f⟩ := by
  unfold recoverPriPoly
  simp only [hxs, hlen, ne_eq, not_true_eq_false, if_false]
  have hL : ∀ j ∈ xs, (basisList xs j).length = t := by
    intro j hj
    rw [(basisList_spec xs j).2, filter_pos_length xs hg.pos j hj, hlen]; omega
  cases hx : xs with
  | nil => rw [hx] at hlen; simp at hlen; omega
  | cons j ys =>
    have hjm : j ∈ xs := by rw [hx]; simp
    have hfirst : polyStep g xs (.ok none) j = .ok (some ⟨g, basisList xs j⟩) := by
      simp [polyStep, basisList]
    obtain ⟨c, e1, e2, e3⟩ := polyStep_fold g xs t ys (basisList xs j)
      (fun k hk => hL k (by rw [hx]; simp [hk])) (hL j hjm)
    rw [← hx, hx, List.foldl_cons, ← hx, hfirst, e1]
    simp only
    congr 2
    apply toPoly_injective_of_length (by rw [e2, hf])
    rw [e3]
    have hsum : toPoly (basisList xs j) + (ys.map fun k => toPoly (basisList xs k)).sum
        = (xs.map fun k => toPoly (basisList xs k)).sum := by rw [hx]; simp
    rw [hsum]
    have hdeg : (toPoly f).degree < (xs.map (·.x)).length := by
      rw [List.length_map, hlen, ← hf]; exact degree_toPoly_lt f
    have hI := Lagrange.list_interpolate (xs.map (·.x)) hg.x (toPoly f) hdeg
    conv_rhs => rw [← hI]
    rw [List.map_map]
    congr 1
    refine List.map_congr_left fun k hk => ?_
    simp only [Function.comp]
    rw [(basisList_spec xs k).1, hg.val k hk]
    have e1 := filter_pos_eq_filter_x xs hg.pos hg.x k hk (fun b => (k.x - b)⁻¹)
    rw [e1]
    have hinjp := List.inj_on_of_nodup_map hg.pos
    have hinjx := List.inj_on_of_nodup_map hg.x
    have e2 : (xs.filter (fun m => m.pos ≠ k.pos)).map (fun m => X - C m.x)
        = ((xs.map (·.x)).filter (· ≠ k.x)).map (fun b => (X : F[X]) - C b) := by
      rw [List.filter_map, List.map_map]
      congr 1
      apply List.filter_congr
      intro m hm
      simp only [Function.comp, ne_eq, decide_eq_decide, not_iff_not]
      constructor
      · intro h; rw [hinjp hm hk h]
      · intro h; rw [hinjx hm hk h]
    rw [e2]

end Dos.Share

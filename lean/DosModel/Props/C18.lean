/-
C18 — each subscribed contract event is delivered once, faithfully, never if removed.

`firstEvent hash m` is the fold `firstEvent` of onchain/eth_subscribe.go performs over the
sequence `m` of values it receives (code as it is in /repo: log identity = SHA-256 of data and
block number, transaction hash, log index — the F9 repair, commit 26ddfe5); `Interleaving ss m`
says `m` is an output `merge` may produce from the per-endpoint streams `ss`.  `hash` stands
for SHA-256 and is arbitrary: no injectivity is needed, because the hypothesis on the history is
"pairwise different identities", which two logs with different (transaction hash, log index)
always satisfy (`distinct_positions_distinct_identities`).
An `expire` item is the 1500 s timer of `firstEvent` firing; "within the de-duplication window"
is the hypothesis that no such item occurs in the run.
The table theorems are `decide`d over `Gen/EventTable.lean`, regenerated from
onchain/eth_subscribe.go, eventMsg.go, the contract bindings and dosnode/dos_chain_handler.go
on every run.  Helper lemmas: `Proofs/Events.lean`.
-/
import DosModel.Proofs.Events
import DosModel.Gen.EventTable

namespace Dos.Props.C18
open Dos Dos.Events

variable {H P : Type} [DecidableEq H]

/-- a value a watcher may put on its stream, given the history `Hs`: a log of the history,
a removed-flagged (re-)emission of anything, or a value that is not a log at all -/
def StreamItem (Hs : List (Log P)) (x : Item H P) : Prop :=
  (∃ l ∈ Hs, x = .log l) ∨ (∃ l : Log P, x = .log l ∧ l.removed = true) ∨ x = .other

omit [DecidableEq H] in
/-- two logs at different positions of the chain (transaction hash, log index) have different
identities, whatever their data and whatever `hash` is -/
theorem distinct_positions_distinct_identities (hash : Bytes → H) (a b : Log P)
    (h : a.tx ≠ b.tx ∨ a.index ≠ b.index) : ident hash false a ≠ ident hash false b := by
  intro he
  simp only [ident, Bool.false_eq_true, if_false] at he
  injection he with _ h2 h3
  rcases h with h | h
  · exact h h2
  · exact h h3

example : ident (fun b => b) false ({ data := [1], blockN := 5, tx := [7], index := 0, removed := false, payload := 0 } : Log Nat)
    ≠ ident (fun b => b) false { data := [1], blockN := 5, tx := [7], index := 1, removed := false, payload := 1 } := by decide

/-- core of 1: for ANY arrival order `m` (no timer firing inside it) in which every value is a
stream item over `Hs` and every log of `Hs` arrives at least once: the delivered payloads are a
permutation of the payloads of `Hs` — each log exactly once, payload unchanged. -/
theorem once_any_order (hash : Bytes → H) (Hs : List (Log P)) (m : List (Item H P))
    (hH : ∀ l ∈ Hs, l.removed = false ∧ 0 < l.blockN)
    (hd : Hs.Pairwise (fun a b => ident hash false a ≠ ident hash false b))
    (hitems : ∀ x ∈ m, StreamItem Hs x)
    (hcover : ∀ l ∈ Hs, Item.log l ∈ m) :
    (firstEvent hash m).Perm (Hs.map (·.payload)) := by
  unfold firstEvent
  rw [run_eq_map_runL]
  apply List.Perm.map
  have hne : NoExpire m := by
    intro x hx i he
    rcases hitems x hx with ⟨l, _, h⟩ | ⟨l, h, _⟩ | h <;> (rw [he] at h; cases h)
  have hpos : PosBlocks m := by
    intro l hl hr
    rcases hitems _ hl with ⟨l', hl', h⟩ | ⟨l', h, hr'⟩ | h
    · injection h with h; subst h; exact (hH l hl').2
    · injection h with h; subst h; rw [hr] at hr'; cases hr'
    · cases h
  have hmem : ∀ l, l ∈ runL hash false [] m → l ∈ Hs := by
    intro l hl
    obtain ⟨h1, h2⟩ := runL_sub hash false m [] l hl
    rcases hitems _ h1 with ⟨l', hl', h⟩ | ⟨l', h, hr'⟩ | h
    · injection h with h; subst h; exact hl'
    · injection h with h; subst h; rw [h2] at hr'; cases hr'
    · cases h
  have nd1 : (runL hash false [] m).Nodup :=
    (runL_pairwise hash false m [] hne hpos).imp (fun h e => h (by rw [e]))
  have nd2 : Hs.Nodup := hd.imp (fun h e => h (by rw [e]))
  refine (List.perm_ext_iff_of_nodup nd1 nd2).2 (fun l => ⟨hmem l, fun hl => ?_⟩)
  obtain ⟨l', h1, h2⟩ := runL_complete hash false m [] l hne (hcover l hl) (hH l hl).1 (lookup_nil _)
  have : l' = l := eq_of_ident_eq hd (hmem l' h1) hl h2
  rw [← this]; exact h1

/-- **1. interleaving_once.** `k` endpoints, each emitting logs of the history `Hs` (pairwise different
identities, block numbers > 0) in any order with any repetitions, removed-flagged re-emissions
and foreign values; every log of `Hs` is emitted un-removed by at least one endpoint.  For ANY
interleaving `m` of the `k` streams, within the de-duplication window, the handlers receive a
permutation of the payloads of `Hs`: each log exactly once, payload unchanged. -/
theorem interleaving_once (hash : Bytes → H) (Hs : List (Log P)) (ss : List (List (Item H P)))
    (m : List (Item H P))
    (hH : ∀ l ∈ Hs, l.removed = false ∧ 0 < l.blockN)
    (hd : Hs.Pairwise (fun a b => ident hash false a ≠ ident hash false b))
    (hstreams : ∀ s ∈ ss, ∀ x ∈ s, StreamItem Hs x)
    (hcover : ∀ l ∈ Hs, ∃ s ∈ ss, Item.log l ∈ s)
    (hm : Interleaving ss m) :
    (firstEvent hash m).Perm (Hs.map (·.payload)) := by
  apply once_any_order hash Hs m hH hd
  · intro x hx
    obtain ⟨s, hs, hxs⟩ := hm.mem_of_mem x hx
    exact hstreams s hs x hxs
  · intro l hl
    obtain ⟨s, hs, hls⟩ := hcover l hl
    exact hm.mem_of_mem_stream s hs _ hls

section examples
def la : Log Nat := { data := [0xaa], blockN := 5, tx := [1], index := 0, removed := false, payload := 10 }
def lb : Log Nat := { data := [0xaa], blockN := 5, tx := [1], index := 1, removed := false, payload := 11 }  -- same data, same block
def lc : Log Nat := { data := [0xbb], blockN := 6, tx := [2], index := 0, removed := false, payload := 12 }
def s1 : List (Item Bytes Nat) := [.log la, .log lb, .log lc]
def s2 : List (Item Bytes Nat) := [.log lc, .log { lb with removed := true }, .log la, .other, .log lb]
def mix : List (Item Bytes Nat) := [.log lc, .log la, .log { lb with removed := true }, .log lb, .log la, .log lc, .other, .log lb]
example : Interleaving [s1, s2] mix :=
  .next 1 rfl (.next 0 rfl (.next 1 rfl (.next 0 rfl (.next 1 rfl (.next 0 rfl (.next 1 rfl (.next 1 rfl
    (.done (by decide)))))))))
example : firstEvent (fun b => b) mix = [12, 10, 11] := by decide
end examples

/-- **1'. the de-duplication window made precise.** The 1500 s timers of `firstEvent` may fire anywhere in
the run (`expire` items inserted anywhere into an interleaving of the endpoint streams) as long
as each fires after the last un-removed observation of its identity (`WithinWindow`): the
handlers still receive each log exactly once. -/
theorem interleaving_once_window (hash : Bytes → H) (Hs : List (Log P)) (ss : List (List (Item H P)))
    (m : List (Item H P))
    (hH : ∀ l ∈ Hs, l.removed = false ∧ 0 < l.blockN)
    (hd : Hs.Pairwise (fun a b => ident hash false a ≠ ident hash false b))
    (hstreams : ∀ s ∈ ss, ∀ x ∈ s, StreamItem Hs x)
    (hcover : ∀ l ∈ Hs, ∃ s ∈ ss, Item.log l ∈ s)
    (hm : Interleaving ss (stripExpire m))
    (hw : WithinWindow hash false m) :
    (firstEvent hash m).Perm (Hs.map (·.payload)) := by
  have e : firstEvent hash m = firstEvent hash (stripExpire m) := by
    unfold firstEvent
    rw [run_eq_map_runL, run_eq_map_runL, runL_strip hash false m [] hw]
  rw [e]
  exact interleaving_once hash Hs ss (stripExpire m) hH hd hstreams hcover hm

/-- **1''. timers as events** (round 5, review E #1).  `firstEvent` starts one timer goroutine per delivered log;
since the repair of the unlocked `delete(visited, …)` every access to the map — the loop's test-and-set and each
timer's delete — is a critical section of one mutex, so the timer goroutines are concurrent SOURCES like the
endpoints: `m` is ANY interleaving of the endpoint streams and of the timer streams (`timerStreams ts`, each timer
fires once; any set of timers, any number firing back to back).  As long as each fires after the last un-removed
observation of its identity (1500 s after the delivery in the code: `dedup_window_is_1500s`), the handlers receive
each log exactly once. -/
theorem interleaving_once_timers (hash : Bytes → H) (Hs : List (Log P)) (ss : List (List (Item H P)))
    (ts : List (Ident H)) (m : List (Item H P))
    (hH : ∀ l ∈ Hs, l.removed = false ∧ 0 < l.blockN)
    (hd : Hs.Pairwise (fun a b => ident hash false a ≠ ident hash false b))
    (hstreams : ∀ s ∈ ss, ∀ x ∈ s, StreamItem Hs x)
    (hcover : ∀ l ∈ Hs, ∃ s ∈ ss, Item.log l ∈ s)
    (hm : Interleaving (ss ++ timerStreams ts) m)
    (hw : WithinWindow hash false m) :
    (firstEvent hash m).Perm (Hs.map (·.payload)) := by
  have e : firstEvent hash m = firstEvent hash (stripExpire m) := by
    unfold firstEvent
    rw [run_eq_map_runL, run_eq_map_runL, runL_strip hash false m [] hw]
  rw [e]
  apply interleaving_once hash Hs _ (stripExpire m) hH hd ?_ ?_ hm.map_strip
  · intro s hs x hx
    obtain ⟨s0, h0, rfl⟩ := List.mem_map.1 hs
    obtain ⟨hx0, hne⟩ := mem_stripExpire.1 hx
    rcases List.mem_append.1 h0 with h0 | h0
    · exact hstreams s0 h0 x hx0
    · obtain ⟨i, _, rfl⟩ := List.mem_map.1 h0
      simp at hx0
      exact absurd hx0 (hne i)
  · intro l hl
    obtain ⟨s, hs, hls⟩ := hcover l hl
    exact ⟨stripExpire s, List.mem_map.2 ⟨s, List.mem_append_left _ hs, rfl⟩,
      mem_stripExpire.2 ⟨hls, fun i h => by cases h⟩⟩

example : Interleaving ([s1, s2] ++ timerStreams [ident (fun b => b) false lc, ident (fun b => b) false la])
      (mix ++ [.expire (ident (fun b => b) false la), .expire (ident (fun b => b) false lc)]) ∧
    WithinWindow (fun b => b) false (mix ++ [.expire (ident (fun b => b) false la), .expire (ident (fun b => b) false lc)]) ∧
    firstEvent (fun b => b) (mix ++ [.expire (ident (fun b => b) false la), .expire (ident (fun b => b) false lc)]) = [12, 10, 11] := by
  refine ⟨?_, ?_, by decide⟩
  · exact .next 1 rfl (.next 0 rfl (.next 1 rfl (.next 0 rfl (.next 1 rfl (.next 0 rfl (.next 1 rfl (.next 1 rfl
      (.next 3 rfl (.next 2 rfl (.done (by decide)))))))))))
  · simp only [mix, List.cons_append, List.nil_append, WithinWindow, Unobserved, and_true]
    refine ⟨?_, ?_⟩ <;> intro l hl <;> simp at hl

/-- … and outside the window the same log is delivered again: the window is what bounds "exactly once". -/
theorem redelivered_after_window (hash : Bytes → H) (l : Log P) (hr : l.removed = false) :
    firstEvent hash [.log l, .expire (ident hash false l), .log l] = [l.payload, l.payload] := by
  by_cases hb : l.blockN = 0 <;> simp [firstEvent, run, step, hr, hb, lookup]

example : firstEvent (fun b => b) ([.log la, .log lb, .expire (ident (fun b => b) false la), .log lb, .log lc] : List (Item Bytes Nat)) = [10, 11, 12]
    ∧ WithinWindow (fun b => b) false ([.log la, .log lb, .expire (ident (fun b => b) false la), .log lb, .log lc] : List (Item Bytes Nat)) := by
  refine ⟨by decide, ?_⟩
  simp only [WithinWindow, Unobserved, and_true]
  intro l hl _
  simp at hl
  rcases hl with rfl | rfl <;> decide

/-- **2. removed_never.** Whatever arrives in whatever order (timers included): every delivered payload
belongs to a log that arrived NOT flagged removed, and the removed-flagged values have no
influence on the output at all. -/
theorem removed_never (hash : Bytes → H) (m : List (Item H P)) :
    (∀ p ∈ firstEvent hash m, ∃ l : Log P, Item.log l ∈ m ∧ l.removed = false ∧ l.payload = p) ∧
    firstEvent hash m =
      firstEvent hash (m.filter (fun x => match x with | .log l => !l.removed | _ => true)) := by
  constructor
  · intro p hp
    unfold firstEvent at hp
    rw [run_eq_map_runL, List.mem_map] at hp
    obtain ⟨l, hl, rfl⟩ := hp
    obtain ⟨h1, h2⟩ := runL_sub hash false m [] l hl
    exact ⟨l, h1, h2, rfl⟩
  · exact run_filter_removed hash false m []

example : firstEvent (fun b => b) ([.log { la with removed := true }, .log lc, .log { lc with removed := true }] : List (Item Bytes Nat)) = [12] := by
  decide

/-- **3. endpoint_failure_tolerated.** Every endpoint but one may stop at any point (its stream is cut
to an arbitrary prefix, `merge` keeps forwarding the others and ends only when all have ended):
as long as one endpoint `j` delivers its complete stream covering the history, the handlers
still receive each log exactly once. -/
theorem endpoint_failure_tolerated (hash : Bytes → H) (Hs : List (Log P))
    (ss ss' : List (List (Item H P))) (j : Nat) (c : List (Item H P)) (m : List (Item H P))
    (hH : ∀ l ∈ Hs, l.removed = false ∧ 0 < l.blockN)
    (hd : Hs.Pairwise (fun a b => ident hash false a ≠ ident hash false b))
    (hstreams : ∀ s ∈ ss, ∀ x ∈ s, StreamItem Hs x)
    (hcut : ∀ (i : Nat) (s' : List (Item H P)), ss'[i]? = some s' → ∃ s, ss[i]? = some s ∧ s' <+: s)  -- endpoint i's surviving stream is a prefix of its full one
    (hj : ss'[j]? = some c) (hjc : ∀ l ∈ Hs, Item.log l ∈ c) -- endpoint j is complete
    (hm : Interleaving ss' m) :
    (firstEvent hash m).Perm (Hs.map (·.payload)) := by
  apply interleaving_once hash Hs ss' m hH hd ?_ ?_ hm
  · intro s' hs' x hx
    obtain ⟨i, hi, hget⟩ := List.getElem_of_mem hs'
    obtain ⟨s, hs, hp⟩ := hcut i s' (by rw [List.getElem?_eq_getElem hi, hget])
    exact hstreams s (List.mem_of_getElem? hs) x (hp.subset hx)
  · intro l hl
    exact ⟨c, List.mem_of_getElem? hj, hjc l hl⟩

example : firstEvent (fun b => b) ([.log la, .log lc, .log lb, .log lc] : List (Item Bytes Nat)) = [10, 12, 11] ∧
    Interleaving [[Item.log la], [.log lc, .log lb, .log lc, .log la].take 3] ([.log la, .log lc, .log lb, .log lc] : List (Item Bytes Nat)) :=
  ⟨by decide, .next 0 rfl (.next 1 rfl (.next 1 rfl (.next 1 rfl (.done (by decide)))))⟩

/-- **3'. endpoint failure with the node's reaction to it.** Endpoint `failed` fails at any point; its
watchers report errors and the consumer answers each report with `DisconnectWs(Idx)`
(`streamsAfterReports`: an endpoint named by a report stops forwarding at that moment).  If every
report names the endpoint that actually failed — which `error_path_faithful` /
`reported_index_is_the_failed_endpoint` establish for the table as it is — then any other endpoint `j`
that delivers its complete stream still gets each log of the history to the handlers exactly once,
including everything it emits after the failure. -/
theorem endpoint_failure_tolerated_with_disconnect (hash : Bytes → H) (Hs : List (Log P))
    (eps : List (Endpoint H P)) (failed j : Nat) (reports : List Nat) (ep : Endpoint H P)
    (m : List (Item H P))
    (hH : ∀ l ∈ Hs, l.removed = false ∧ 0 < l.blockN)
    (hd : Hs.Pairwise (fun a b => ident hash false a ≠ ident hash false b))
    (hitems : ∀ e ∈ eps, ∀ x ∈ e.before ++ e.after, StreamItem Hs x)
    (hreports : ∀ r ∈ reports, r = failed)
    (hj : eps[j]? = some ep) (hjf : j ≠ failed) (hjc : ∀ l ∈ Hs, Item.log l ∈ ep.before ++ ep.after)
    (hm : Interleaving (streamsAfterReports failed reports 0 eps) m) :
    (firstEvent hash m).Perm (Hs.map (·.payload)) := by
  apply interleaving_once hash Hs _ m hH hd ?_ ?_ hm
  · intro s hs x hx
    obtain ⟨e, he, hp⟩ := streamsAfterReports_prefix failed reports eps 0 s hs
    exact hitems e he x (hp.subset hx)
  · intro l hl
    have hnr : 0 + j ∉ reports := by
      intro h; exact hjf (by simpa using hreports _ h)
    have := streamsAfterReports_get failed reports eps 0 j ep hj (by omega) hnr
    exact ⟨_, List.mem_of_getElem? this, hjc l hl⟩

/-- … and a report that names a healthy endpoint does stop its delivery: two endpoints, endpoint 1 fails,
one of its reports says 0, the log endpoint 0 emits afterwards never reaches the handlers. -/
example :
    let eps : List (Endpoint Bytes Nat) := [{ before := [.log la], after := [.log lc] }, { before := [.log la], after := [] }]
    streamsAfterReports 1 [1, 0] 0 eps = [[.log la], [.log la]] ∧
    streamsAfterReports 1 [1, 1] 0 eps = [[.log la, .log lc], [.log la]] := by
  simp [streamsAfterReports]

/-- observation (outside the property: no mined log has block number 0): the membership test is
`visited[id] == 0` with the block number as the stored value, so a log with block number 0 is
never remembered and is delivered again. -/
theorem block_zero_not_remembered (hash : Bytes → H) (l : Log P) (hr : l.removed = false) (hb : l.blockN = 0) :
    firstEvent hash [.log l, .log l] = [l.payload, l.payload] := by
  simp [firstEvent, run, step, hr, hb, lookup]

/-- F9, the defect repaired by /repo commit 26ddfe5: under the old identity (hash of data and block
number only) two distinct logs with equal data in one block collapse — the second is never
delivered, for every hash function; under the identity the code has now both are delivered. -/
theorem f9_before_fix (hash : Bytes → H) (a b : Log P) (hda : a.data = b.data) (hbn : a.blockN = b.blockN)
    (hra : a.removed = false) (hrb : b.removed = false) (hpos : 0 < a.blockN)
    (hdist : a.tx ≠ b.tx ∨ a.index ≠ b.index) :
    run hash true [] [.log a, .log b] = [a.payload] ∧
    firstEvent hash [.log a, .log b] = [a.payload, b.payload] := by
  have hid : ident hash true b = ident hash true a := by simp [ident, hda, hbn]
  have h0 : a.blockN ≠ 0 := by omega
  constructor
  · simp [run, step, hra, hrb, lookup, hid, h0]
  · have he : ¬ ident hash false a = ident hash false b := distinct_positions_distinct_identities hash a b hdist
    simp [firstEvent, run, step, hra, hrb, lookup, he]

example : run (fun b => b) true [] ([.log la, .log lb] : List (Item Bytes Nat)) = [10] ∧
    firstEvent (fun b => b) ([.log la, .log lb] : List (Item Bytes Nat)) = [10, 11] := by decide

/-! ### 4. the subscription table (regenerated facts) -/

open Dos.Gen.EventTable

/-- what the property means by one subscription: index constant, its value, the ABI event -/
structure Row where
  const : String
  index : Nat
  event : String
  deriving DecidableEq, Repr

/-- the seven subscriptions of the node -/
def subscribedRows : List Row := [
  ⟨"SubscribeLogGrouping", 4, "LogGrouping"⟩,
  ⟨"SubscribeLogGroupDissolve", 7, "LogGroupDissolve"⟩,
  ⟨"SubscribeLogUrl", 2, "LogUrl"⟩,
  ⟨"SubscribeLogUpdateRandom", 0, "LogUpdateRandom"⟩,
  ⟨"SubscribeLogRequestUserRandom", 1, "LogRequestUserRandom"⟩,
  ⟨"SubscribeLogPublicKeyAccepted", 5, "LogPublicKeyAccepted"⟩,
  ⟨"SubscribeCommitrevealLogStartCommitreveal", 13, "LogStartCommitReveal"⟩]

/-- the other table entries (not subscribed by the node: outside the property, reported separately) -/
def otherRows : List Row := [
  ⟨"SubscribeLogValidationResult", 3, "LogValidationResult"⟩,
  ⟨"SubscribeLogPublicKeySuggested", 6, "LogPublicKeySuggested"⟩,
  ⟨"SubscribeLogInsufficientPendingNode", 8, "LogInsufficientPendingNode"⟩,
  ⟨"SubscribeLogInsufficientWorkingGroup", 9, "LogInsufficientWorkingGroup"⟩,
  ⟨"SubscribeLogGroupingInitiated", 11, "LogGroupingInitiated"⟩,
  ⟨"SubscribeCommitrevealLogCommit", 14, "LogCommit"⟩,
  ⟨"SubscribeCommitrevealLogReveal", 15, "LogReveal"⟩,
  ⟨"SubscribeCommitrevealLogRandom", 16, "LogRandom"⟩]

/-- node-struct fields whose ABI argument has another name: the only renaming admitted -/
def renamed : List (String × String × String) := [("LogPublicKeyAccepted", "WorkingGroupSize", "NumWorkingGroups")]

def sourceName (ev field : String) : String :=
  match renamed.find? (fun r => r.1 == ev && r.2.1 == field) with
  | some r => r.2.2
  | none => field

def lookupS {β : Type} (l : List (String × β)) (k : String) : Option β :=
  (l.find? (fun p => p.1 == k)).map (·.2)

/-- the `LogCommon` literal every entry must build -/
def commonLiteral : List (String × String) :=
  [("Tx", "i.Raw.TxHash.Hex()"), ("BlockN", "i.Raw.BlockNumber"), ("Removed", "i.Raw.Removed"), ("Raw", "i.Raw"), ("log", "l")]

/-- one field assignment is faithful: same-named (or admitted renamed) binding field of the same type;
the only admitted transformation is `LogGrouping.NodeId := map Address.Bytes i.NodeId` -/
def assignFaithful (ev : String) (bind node : StructDef) (a : String × Src) : Bool :=
  match a.2, lookupS node.fields a.1 with
  | .field src, some nty =>
    src == sourceName ev a.1 && lookupS bind.fields src == some nty
  | .mapAddrBytes src, some nty =>
    ev == "LogGrouping" && a.1 == "NodeId" && src == "NodeId" && nty == "[][]byte" &&
      lookupS bind.fields src == some "[]common.Address"
  | _, _ => false

/-- the WHOLE function of a table entry as the property admits it (go/printer text, line by line, white space
normalised; `«B»` = element type of transitChan, `«W»` = the Watch method, `&«L»` = the literal of the node struct, whose
content `assigns` carries): make the channels, start ONE goroutine that subscribes, reports a failed
subscription with `getWsIndex(ctx)`, and loops: context done → return; subscription error → report, continue;
a binding event → `pre` (nothing, or the address→bytes loop of LogGrouping), build `l`, wrap it in `LogCommon`, send it
(or return when the context is done).  NOTHING else: a statement after the literal that changes a field, a second
send, a filter on the values makes the list differ. -/
def entryBodyLines (param recv : String) (pre : List String) : List String :=
  ["func(ctx context.Context, " ++ param ++ ") (chan interface{}, chan error) {",
    "out := make(chan interface{})",
    "errc := make(chan error)",
    "opt := &bind.WatchOpts{}",
    "go func() {",
    "transitChan := make(chan *«B»)",
    "defer close(transitChan)",
    "defer close(errc)",
    "defer close(out)",
    "sub, err := " ++ recv ++ ".«W»(opt, transitChan)",
    "if err != nil {",
    "replyError(ctx, errc, &OnchainError{err: errors.Errorf(\"SubscribeEvent err: %w\", err), Idx: getWsIndex(ctx)})",
    "return",
    "}",
    "defer sub.Unsubscribe()",
    "for {",
    "var log *LogCommon",
    "select {",
    "case <-ctx.Done():",
    "return",
    "case err, ok := <-sub.Err():",
    "if !ok {",
    "return",
    "}",
    "replyError(ctx, errc, &OnchainError{err: errors.Errorf(\"SubscribeEvent err: %w\", err), Idx: getWsIndex(ctx)})",
    "continue",
    "case i, ok := <-transitChan:",
    "if !ok {",
    "return",
    "}"] ++ pre ++
   ["l := &«L»",
    "log = &LogCommon{",
    "Tx: i.Raw.TxHash.Hex(),",
    "BlockN: i.Raw.BlockNumber,",
    "Removed: i.Raw.Removed,",
    "Raw: i.Raw,",
    "log: l,",
    "}",
    "}",
    "select {",
    "case <-ctx.Done():",
    "return",
    "case out <- log:",
    "}",
    "}",
    "}()",
    "return out, errc",
    "}"]

/-- the address→bytes loop of the LogGrouping entry (the ONE admitted transformation) -/
def groupingLoop : List String :=
  ["var participants [][]byte",
    "for _, p := range i.NodeId {",
    "id := p.Bytes()",
    "participants = append(participants, id)",
    "}"]

/-- the LogUpdateRandom entry as it is: the same function with debug prints to stdout (no influence on what is delivered) -/
def updateRandomBody : List String :=
  ["func(ctx context.Context, proxy *dosproxy.DosproxySession) (chan interface{}, chan error) {",
    "out := make(chan interface{})",
    "errc := make(chan error)",
    "opt := &bind.WatchOpts{}",
    "go func() {",
    "defer fmt.Println(\"[Onchain] end SubscribeLogUpdateRandom\")",
    "transitChan := make(chan *«B»)",
    "defer close(transitChan)",
    "defer close(errc)",
    "defer close(out)",
    "sub, err := proxy.Contract.«W»(opt, transitChan)",
    "if err != nil {",
    "replyError(ctx, errc, &OnchainError{err: errors.Errorf(\"SubscribeEvent err: %w\", err), Idx: getWsIndex(ctx)})",
    "return",
    "}",
    "defer sub.Unsubscribe()",
    "for {",
    "var log *LogCommon",
    "select {",
    "case <-ctx.Done():",
    "fmt.Println(\"[Onchain] ctx.Done\")",
    "return",
    "case err, ok := <-sub.Err():",
    "if !ok {",
    "fmt.Println(\"[Onchain] sub.Err !ok\")",
    "return",
    "}",
    "fmt.Print(fmt.Errorf(\"[Onchain] sub.Err %+v \\n\", err))",
    "replyError(ctx, errc, &OnchainError{err: errors.Errorf(\"SubscribeEvent err: %w\", err), Idx: getWsIndex(ctx)})",
    "continue",
    "case i, ok := <-transitChan:",
    "if !ok {",
    "fmt.Println(\"[Onchain] transitChan !ok\")",
    "return",
    "}",
    "l := &«L»",
    "log = &LogCommon{",
    "Tx: i.Raw.TxHash.Hex(),",
    "BlockN: i.Raw.BlockNumber,",
    "Removed: i.Raw.Removed,",
    "Raw: i.Raw,",
    "log: l,",
    "}",
    "}",
    "select {",
    "case <-ctx.Done():",
    "return",
    "case out <- log:",
    "}",
    "}",
    "}()",
    "return out, errc",
    "}"]

def expectedBody (ev : String) (cr : Bool) : List String :=
  if ev == "LogUpdateRandom" then updateRandomBody
  else if cr then entryBodyLines "cr *commitreveal.CommitrevealSession" "cr.Contract" []
  else entryBodyLines "proxy *dosproxy.DosproxySession" "proxy.Contract" (if ev == "LogGrouping" then groupingLoop else [])

/-- the table entry of one subscription is faithful -/
def rowFaithful (r : Row) : Bool :=
  let cr := decide (13 ≤ r.index)      -- SubscribeEvent sends indices ≥ SubscribeCommitrevealLogStartCommitreveal to crTable
  let pkg := if cr then "commitreveal" else "dosproxy"
  let pre := if cr then "commitreveal.Commitreveal" else "dosproxy.Dosproxy"
  lookupS consts r.const == some r.index &&
  lookupS consts "SubscribeCommitrevealLogStartCommitreveal" == some 13 &&
  match entries.filter (fun e => e.index == r.index || e.key == r.const) with
  | [e] =>
    e.key == r.const && e.index == r.index &&
    e.table == (if cr then "crTable" else "proxyTable") &&
    e.watchRecv == (if cr then "cr.Contract(opt,transitChan)" else "proxy.Contract(opt,transitChan)") &&
    e.watch == "Watch" ++ r.event &&
    e.binding == pre ++ r.event &&
    watchMethods.contains { pkg := pkg, name := e.watch, sink := e.binding, event := r.event } &&
    e.target == r.event &&
    e.commonType == "LogCommon" && e.common == commonLiteral && e.sent == "log" && e.counts == (1, 1, 1) &&
    e.body == expectedBody r.event cr &&                  -- the whole function, statement by statement (round 5, review E #3)
    (match bindingStructs.find? (fun s => s.name == e.binding), nodeStructs.find? (fun s => s.name == e.target) with
     | some b, some n =>
       e.assigns.map (·.1) == n.fields.map (·.1) &&      -- EVERY field of the node struct, once, nothing else
       e.assigns.all (assignFaithful r.event b n)
     | _, _ => false)
  | _ => false

/-- the node subscribes to exactly the seven events of the property -/
theorem node_subscribes_the_seven : subscribed = subscribedRows.map (·.const) := by decide

/-- **4. table_faithful.** For each of the 7 subscriptions: the entry sits at its own index constant, in
the table `SubscribeEvent` dispatches that index to; calls the `Watch` method of the same ABI
event on a channel of the same binding type; builds the node struct of the same event, assigns
EVERY field of it from the same-named binding field of the same type (admitted: the renaming
in `renamed`, and `LogGrouping.NodeId := map Address.Bytes`); fills `LogCommon` from
`Raw.TxHash / BlockNumber / Removed / Raw`; and sends exactly that value; and the entry function consists of
exactly the statements of `entryBodyLines` (nothing before, between or after the two literals touches a field). -/
theorem table_faithful : subscribedRows.all rowFaithful = true := by decide

example : rowFaithful ⟨"SubscribeLogUrl", 2, "LogUrl"⟩ = true ∧ rowFaithful ⟨"SubscribeLogUrl", 2, "LogUpdateRandom"⟩ = false := by
  decide

/-- a statement after the literal (review E, T1b) is no longer invisible -/
example : entryBodyLines "p" "r" [] ≠ entryBodyLines "p" "r" ["if len(l.DataSource) > 8192 {", "l.DataSource = \"\"", "}"] := by decide

/-- **the de-duplication window** (regenerated; review E #5): `firstEvent` has exactly one timer call,
`time.After(firstEventWindow)`; the package variable it names is initialised to a constant product that
evaluates to 1 500 000 ms = 1500 s and is assigned nowhere in eth_subscribe.go.  This is the window of
`interleaving_once_window` / `interleaving_once_timers` / `redelivered_after_window`. -/
theorem dedup_window_is_1500s :
    dedupTimerCalls = ["time.After(firstEventWindow)"] ∧ dedupWindowMillis = 1500 * 1000 ∧ dedupWindowAssignments = 0 := by
  decide

/-- **firstEvent, the whole function** (regenerated, go/printer text): the statements `Model/Events.lean` transcribes —
non-`*LogCommon` ignored, removed skipped, identity = sha256(data ‖ big(BlockN).Bytes()) ‖ TxHash ‖ be64(Index) with the
FULL `uint64(content.Raw.Index)`, the `== 0` test and the store of `BlockN` in ONE critical section of `mu`, delivery of
`content.log`, one timer goroutine per delivered log whose `delete` holds the same `mu`. -/
theorem firstEvent_shape : firstEventBody =
    ["func firstEvent(ctx context.Context, source chan interface{}) (out chan interface{}) {",
      "out = make(chan interface{})",
      "go func() {",
      "defer close(out)",
      "var mu sync.Mutex",
      "visited := make(map[string]uint64)",
      "for {",
      "select {",
      "case <-ctx.Done():",
      "return",
      "case event, ok := <-source:",
      "if !ok {",
      "return",
      "}",
      "if content, ok := event.(*LogCommon); ok {",
      "if content.Removed {",
      "continue",
      "}",
      "var bytes []byte",
      "bytes = append(bytes, content.Raw.Data...)",
      "bytes = append(bytes, new(big.Int).SetUint64(content.BlockN).Bytes()...)",
      "nHash := sha256.Sum256(bytes)",
      "var logIndex [8]byte",
      "binary.BigEndian.PutUint64(logIndex[:], uint64(content.Raw.Index))",
      "identity := string(nHash[:]) + string(content.Raw.TxHash[:]) + string(logIndex[:])",
      "mu.Lock()",
      "first := visited[identity] == 0",
      "if first {",
      "visited[identity] = content.BlockN",
      "}",
      "mu.Unlock()",
      "if first {",
      "select {",
      "case out <- content.log:",
      "case <-ctx.Done():",
      "}",
      "go func(identity string) {",
      "select {",
      "case <-ctx.Done():",
      "case <-time.After(firstEventWindow):",
      "mu.Lock()",
      "delete(visited, identity)",
      "mu.Unlock()",
      "}",
      "}(identity)",
      "}",
      "}",
      "}",
      "}",
      "}()",
      "return",
      "}"] := by
  decide

/-- observation on the entries the node does NOT subscribe to: the faithful ones, and the ones that are not
(`LogValidationResult.Version`, `LogPublicKeySuggested.GroupSize/Count` and both fields of
`LogGroupingInitiated` are not taken from the same-named ABI field). A change here is reported. -/
theorem other_entries_observation :
    (otherRows.filter rowFaithful).map (·.event) =
      ["LogInsufficientPendingNode", "LogInsufficientWorkingGroup", "LogCommit", "LogReveal", "LogRandom"] ∧
    (otherRows.filter (fun r => !rowFaithful r)).map (·.event) =
      ["LogValidationResult", "LogPublicKeySuggested", "LogGroupingInitiated"] := by decide

/-- every table entry is one of the 15 rows above, and no index is used twice -/
theorem table_complete :
    entries.map (·.index) = [0, 2, 1, 3, 8, 9, 11, 4, 5, 6, 7, 13, 14, 15, 16] ∧
    (entries.map (·.index)).Nodup ∧
    entries.all (fun e => (subscribedRows ++ otherRows).any (fun r => r.index == e.index && r.const == e.key)) = true := by
  decide

/-- **4'. the error path of every table entry** (all 15, regenerated): both places that report a failure — the
`Watch…` call failing and the `<-sub.Err()` case — hand an `OnchainError` to `replyError(ctx, errc, …)` whose
`Idx` is `getWsIndex(ctx)`; `getWsIndex` reads the key `Connect` puts on the websocket contexts with the value
`len(e.wsCtxes)`, i.e. the position at which that context and its cancel function are appended;
`SubscribeEvent` runs the entries on `e.wsCtxes[i]`; and `DisconnectWs(idx)` cancels `e.wsCancels[idx]`. -/
theorem error_path_faithful :
    entries.all (fun e => e.errs ==
      [("watch", "replyError(ctx, errc, _)", "getWsIndex(ctx)"), ("subErr", "replyError(ctx, errc, _)", "getWsIndex(ctx)")]) = true ∧
    getWsIndexKey = "wsIndex" ∧ getIndexKey = "index" ∧
    connectWithValues = [("index", "len(e.ctxes)"), ("wsIndex", "len(e.wsCtxes)")] ∧
    connectAppends = [("e.ctxes", "ctx"), ("e.cancels", "cancel"), ("e.wsCtxes", "ctx"), ("e.wsCancels", "cancel")] ∧
    subscribeTableCalls = ["crTable(e.wsCtxes[i], e.wsCrs[i])", "proxyTable(e.wsCtxes[i], e.wsProxies[i])"] ∧
    disconnectWsBody = "{ if e.wsCancels[idx] != nil { e.wsCancels[idx]() } return }" := by
  decide

/-- consequently every error report of every entry, on websocket endpoint `k`, carries `Idx = k`:
the hypothesis `hreports` of `endpoint_failure_tolerated_with_disconnect`. -/
theorem reported_index_is_the_failed_endpoint (k : Nat) :
    ∀ e ∈ entries, ∀ t ∈ e.errs, reportIdx t.2.2 k = some k := by
  have h : entries.all (fun e => e.errs.all (fun t => t.2.2 == "getWsIndex(ctx)")) = true := by decide
  intro e he t ht
  rw [List.all_eq_true] at h
  have := h e he
  rw [List.all_eq_true] at this
  have := this t ht
  simp only [beq_iff_eq] at this
  simp [reportIdx, this]

/-- the `Idx` an error site of the regenerated table computes on websocket endpoint `i`; an expression the
model does not know is taken to name ANOTHER endpoint (the pessimistic reading) -/
def evalIdx (expr : String) (i : Nat) : Nat :=
  match reportIdx expr i with
  | some k => k
  | none => i + 1

/-- **the reports the code produces** when websocket endpoint `i` fails while the node is subscribed to the
table indices `ts`: every subscription (entry) of that endpoint may report through each of its error sites,
with the `Idx` expression of that site in the REGENERATED table evaluated at `i`. -/
def codeReports (ts : List Nat) (i : Nat) : List Nat :=
  ts.flatMap (fun t => (entries.filter (fun e => e.index == t)).flatMap
    (fun e => e.errs.map (fun r => evalIdx r.2.2 i)))

/-- every report the code produces for a failing endpoint names that endpoint -/
theorem code_reports_name_the_failed_endpoint (ts : List Nat) (i : Nat) :
    ∀ r ∈ codeReports ts i, r = i := by
  intro r hr
  simp only [codeReports, List.mem_flatMap, List.mem_filter, List.mem_map] at hr
  obtain ⟨t, _, e, ⟨he, _⟩, x, hx, rfl⟩ := hr
  simp [evalIdx, reported_index_is_the_failed_endpoint i e he x hx]

example : codeReports (subscribedRows.map (·.index)) 1 = List.replicate 14 1 := by decide

/-- **3''. endpoint failure tolerated by the node as it is** — no hypothesis about the reports: endpoint `failed`
fails at any point; the consumer handles the reports the code produces for it (`codeReports`, built from the
regenerated table for the node's seven subscriptions — or any selection `reports` of them, since a watcher
whose context is already cancelled does not report) by disconnecting the endpoint each one names; any other
endpoint `j` that delivers its complete stream still gets each log to the handlers exactly once, including
everything it emits after the failure. -/
theorem endpoint_failure_tolerated_node (hash : Bytes → H) (Hs : List (Log P))
    (eps : List (Endpoint H P)) (failed j : Nat) (reports : List Nat) (ep : Endpoint H P)
    (m : List (Item H P))
    (hH : ∀ l ∈ Hs, l.removed = false ∧ 0 < l.blockN)
    (hd : Hs.Pairwise (fun a b => ident hash false a ≠ ident hash false b))
    (hitems : ∀ e ∈ eps, ∀ x ∈ e.before ++ e.after, StreamItem Hs x)
    (hsel : ∀ r ∈ reports, r ∈ codeReports (subscribedRows.map (·.index)) failed)
    (hj : eps[j]? = some ep) (hjf : j ≠ failed) (hjc : ∀ l ∈ Hs, Item.log l ∈ ep.before ++ ep.after)
    (hm : Interleaving (streamsAfterReports failed reports 0 eps) m) :
    (firstEvent hash m).Perm (Hs.map (·.payload)) :=
  endpoint_failure_tolerated_with_disconnect hash Hs eps failed j reports ep m hH hd hitems
    (fun r hr => code_reports_name_the_failed_endpoint _ failed r (hsel r hr)) hj hjf hjc hm

/-- the same with ALL reports of the code handled -/
theorem endpoint_failure_tolerated_node_all_reports (hash : Bytes → H) (Hs : List (Log P))
    (eps : List (Endpoint H P)) (failed j : Nat) (ep : Endpoint H P) (m : List (Item H P))
    (hH : ∀ l ∈ Hs, l.removed = false ∧ 0 < l.blockN)
    (hd : Hs.Pairwise (fun a b => ident hash false a ≠ ident hash false b))
    (hitems : ∀ e ∈ eps, ∀ x ∈ e.before ++ e.after, StreamItem Hs x)
    (hj : eps[j]? = some ep) (hjf : j ≠ failed) (hjc : ∀ l ∈ Hs, Item.log l ∈ ep.before ++ ep.after)
    (hm : Interleaving (streamsAfterReports failed (codeReports (subscribedRows.map (·.index)) failed) 0 eps) m) :
    (firstEvent hash m).Perm (Hs.map (·.payload)) :=
  endpoint_failure_tolerated_node hash Hs eps failed j _ ep m hH hd hitems (fun _ h => h) hj hjf hjc hm

example :
    let eps : List (Endpoint Bytes Nat) := [{ before := [.log la], after := [.log lc] }, { before := [.log la], after := [] }]
    streamsAfterReports 1 (codeReports (subscribedRows.map (·.index)) 1) 0 eps = [[.log la, .log lc], [.log la]] := by
  have : codeReports (subscribedRows.map (·.index)) 1 = List.replicate 14 1 := by decide
  simp [this, streamsAfterReports]

example : reportIdx "getWsIndex(ctx)" 2 = some 2 ∧ reportIdx "getIndex(ctx)" 2 = some 0 := by decide

end Dos.Props.C18

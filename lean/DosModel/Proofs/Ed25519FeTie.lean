/-
C20 (round 4) — the program DATA of Gen/Ed25519Fe.lean (on which the interval analysis runs) denotes exactly the
FUNCTIONS of the same file (on which `ring` works): for feMul, feSquare, feSquare2, feFromBytes, feToBytes

  init  : `toL10 (initW id f_prog x) = f_init x`
  blocks: block by block, `toL10 (blockW id n b ρ) = f_b<k> (toL10 ρ)`
  out   : `outW id f_prog ρ = f_out (toL10 ρ)`
  whole : `runW id f_prog x = f_out (runBlocks f_blocks (f_init x))`,  `toL10 (limbsW id f_prog x) = runBlocks …`

Every leaf is `Eq.refl`, checked by the kernel (evaluation of the interpreter on a symbolic environment).
No block count, constant or index is written here.
-/
import Batteries.Data.List.Basic
import DosModel.Proofs.Ed25519RangesTie
import DosModel.Proofs.FeProg
import DosModel.Gen.Ed25519Fe

namespace Dos.FeProg
open Dos Dos.Ed25519 Dos.IntervalProg Dos.FeProg.FeProg Dos.Gen.Ed25519Fe List

def runBlocks (bs : List (L10 → L10)) (s : L10) : L10 := bs.foldl (fun st f => f st) s

/-- a block function and a block program agree -/
def BlockTie (nC : Nat) (g : L10 → L10) (b : Prog) : Prop :=
  ∀ ρ : Env, toL10 (blockW id nC b ρ) = g (toL10 ρ)

theorem blocks_tie {nC : Nat} {fs : List (L10 → L10)} {bs : List Prog} (h : Forall₂ (BlockTie nC) fs bs) :
    ∀ ρ : Env, toL10 (blocksW id nC bs ρ) = runBlocks fs (toL10 ρ) := by
  induction h with
  | nil => intro ρ; rfl
  | @cons g b fs bs hgb _ ih =>
    intro ρ
    have e1 : blocksW id nC (b :: bs) ρ = blocksW id nC bs (blockW id nC b ρ) := rfl
    have e2 : runBlocks (g :: fs) (toL10 ρ) = runBlocks fs (g (toL10 ρ)) := rfl
    rw [e1, e2, ih, hgb ρ]

theorem toL10_slice (ρ : Env) : toL10 (slice 0 10 ρ) = toL10 ρ := by
  unfold toL10 slice
  simp [List.getD]

macro "tie_blocks10" : tactic => `(tactic| (
  repeat (first | exact Forall₂.nil | refine Forall₂.cons (fun ρ => by kernel_refl) ?_)))

/-- the three ties of one routine give the tie of the whole -/
theorem whole_tie {p : FeProg} {finit : List Int → L10} {fblocks : List (L10 → L10)} {fout : L10 → List Int}
    (hi : ∀ x, toL10 (initW id p x) = finit x) (hb : Forall₂ (BlockTie p.nCarry) fblocks p.blocks)
    (ho : ∀ ρ, outW id p ρ = fout (toL10 ρ)) (x : List Int) :
    toL10 (limbsW id p x) = runBlocks fblocks (finit x)
    ∧ runW id p x = fout (runBlocks fblocks (finit x)) := by
  have h1 : toL10 (limbsW id p x) = runBlocks fblocks (finit x) := by
    unfold limbsW
    rw [toL10_slice, blocks_tie hb, hi]
  refine ⟨h1, ?_⟩
  unfold runW
  rw [ho, h1]

set_option maxRecDepth 100000

/-! ### feMul -/
theorem feMul_tie_init (x : List Int) : toL10 (initW id feMul_prog x) = feMul_init x := by kernel_refl
theorem feMul_tie_blocks : Forall₂ (BlockTie feMul_prog.nCarry) feMul_blocks feMul_prog.blocks := by
  simp only [feMul_blocks, feMul_prog]
  tie_blocks10
theorem feMul_tie_out (ρ : Env) : outW id feMul_prog ρ = feMul_out (toL10 ρ) := by kernel_refl
theorem feMul_tie (x : List Int) : toL10 (limbsW id feMul_prog x) = runBlocks feMul_blocks (feMul_init x)
    ∧ runW id feMul_prog x = feMul_out (runBlocks feMul_blocks (feMul_init x)) :=
  whole_tie feMul_tie_init feMul_tie_blocks feMul_tie_out x

/-! ### feSquare -/
theorem feSquare_tie_init (x : List Int) : toL10 (initW id feSquare_prog x) = feSquare_init x := by kernel_refl
theorem feSquare_tie_blocks : Forall₂ (BlockTie feSquare_prog.nCarry) feSquare_blocks feSquare_prog.blocks := by
  simp only [feSquare_blocks, feSquare_prog]
  tie_blocks10
theorem feSquare_tie_out (ρ : Env) : outW id feSquare_prog ρ = feSquare_out (toL10 ρ) := by kernel_refl
theorem feSquare_tie (x : List Int) : toL10 (limbsW id feSquare_prog x) = runBlocks feSquare_blocks (feSquare_init x)
    ∧ runW id feSquare_prog x = feSquare_out (runBlocks feSquare_blocks (feSquare_init x)) :=
  whole_tie feSquare_tie_init feSquare_tie_blocks feSquare_tie_out x

/-! ### feSquare2 -/
theorem feSquare2_tie_init (x : List Int) : toL10 (initW id feSquare2_prog x) = feSquare2_init x := by kernel_refl
theorem feSquare2_tie_blocks : Forall₂ (BlockTie feSquare2_prog.nCarry) feSquare2_blocks feSquare2_prog.blocks := by
  simp only [feSquare2_blocks, feSquare2_prog]
  tie_blocks10
theorem feSquare2_tie_out (ρ : Env) : outW id feSquare2_prog ρ = feSquare2_out (toL10 ρ) := by kernel_refl
theorem feSquare2_tie (x : List Int) : toL10 (limbsW id feSquare2_prog x) = runBlocks feSquare2_blocks (feSquare2_init x)
    ∧ runW id feSquare2_prog x = feSquare2_out (runBlocks feSquare2_blocks (feSquare2_init x)) :=
  whole_tie feSquare2_tie_init feSquare2_tie_blocks feSquare2_tie_out x

/-! ### feFromBytes -/
theorem feFromBytes_tie_init (x : List Int) : toL10 (initW id feFromBytes_prog x) = feFromBytes_init x := by kernel_refl
theorem feFromBytes_tie_blocks : Forall₂ (BlockTie feFromBytes_prog.nCarry) feFromBytes_blocks feFromBytes_prog.blocks := by
  simp only [feFromBytes_blocks, feFromBytes_prog]
  tie_blocks10
theorem feFromBytes_tie_out (ρ : Env) : outW id feFromBytes_prog ρ = feFromBytes_out (toL10 ρ) := by kernel_refl
theorem feFromBytes_tie (x : List Int) : toL10 (limbsW id feFromBytes_prog x) = runBlocks feFromBytes_blocks (feFromBytes_init x)
    ∧ runW id feFromBytes_prog x = feFromBytes_out (runBlocks feFromBytes_blocks (feFromBytes_init x)) :=
  whole_tie feFromBytes_tie_init feFromBytes_tie_blocks feFromBytes_tie_out x

/-! ### feToBytes -/
theorem feToBytes_tie_init (x : List Int) : toL10 (initW id feToBytes_prog x) = feToBytes_init x := by kernel_refl
theorem feToBytes_tie_blocks : Forall₂ (BlockTie feToBytes_prog.nCarry) feToBytes_blocks feToBytes_prog.blocks := by
  simp only [feToBytes_blocks, feToBytes_prog]
  tie_blocks10
theorem feToBytes_tie_out (ρ : Env) : outW id feToBytes_prog ρ = feToBytes_out (toL10 ρ) := by kernel_refl
theorem feToBytes_tie (x : List Int) : toL10 (limbsW id feToBytes_prog x) = runBlocks feToBytes_blocks (feToBytes_init x)
    ∧ runW id feToBytes_prog x = feToBytes_out (runBlocks feToBytes_blocks (feToBytes_init x)) :=
  whole_tie feToBytes_tie_init feToBytes_tie_blocks feToBytes_tie_out x

end Dos.FeProg

/-
C12 — handler models, part 2: the signature-share collector (`queryLoop`), `recoverSign`
→ `tbls.Recover` → `share.RecoverCommit`, `choseSubmitter`, `handleCR` / `byte32`
(`dosnode`, `sign/tbls`, `share/poly.go`).
-/
import DosModel.Model.Handlers

namespace Dos.Handlers
open Dos

/-! ### 7. `queryLoop` -/

inductive QEv where
  | sig (rid : Bytes)      -- a `*vss.Signature` peer message
  | other                  -- a peer message of another type
  | reg (rid : Bytes)      -- `case req := <-d.reqSignc`
  deriving DecidableEq, Repr

structure QSt where
  reg : List Bytes := []                 -- keys of `reqSign`
  buf : List (Bytes × Nat) := []         -- `bufSign`: number of buffered shares per id
  alive : Bool := true
  deriving Repr

def qcount (rid : Bytes) : List (Bytes × Nat) → Nat
  | [] => 0
  | (k, c) :: r => if k = rid then c else qcount rid r

def qset (rid : Bytes) (c : Nat) (m : List (Bytes × Nat)) : List (Bytes × Nat) :=
  (rid, c) :: m.filter (fun e => e.1 != rid)

def qStep (cfg : Cfg) (s : QSt) : QEv → QSt × Out
  | .other => if !s.alive then (s, .dropped) else
    if cfg.qloopCast then (s, .dropped)
    else ({ s with alive := false }, .panic "dosnode.DosNode.queryLoop|typeassert|msg.Msg.Message.(*vss.Signature)")
  | .sig rid => if !s.alive then (s, .dropped) else
    if rid ∈ s.reg then (s, .ok "deliver")
    else if !cfg.qloopOk && rid.isEmpty then
      -- pre-1c42e72: `reqSign[""]` is the zero value, `"" == ""` selects it, its ctx is nil
      ({ s with alive := false }, .panic "dosnode.DosNode.queryLoop|ifacenil|req.ctx.Done()#2")
    else
      let c := qcount rid s.buf + 1
      ({ s with buf := qset rid c s.buf }, .ok "buf")
  | .reg rid => if !s.alive then (s, .dropped) else
    let c := qcount rid s.buf
    ({ s with reg := rid :: s.reg.filter (· != rid), buf := qset rid 0 s.buf }, .ok s!"flush {c}")

def qRun (cfg : Cfg) : QSt → List QEv → QSt × List Out
  | s, [] => (s, [])
  | s, e :: es =>
    let (s1, o) := qStep cfg s e
    let (s2, os) := qRun cfg s1 es
    (s2, o :: os)

/-! ### 8. `recoverSign` → `tbls.Recover` → `RecoverCommit` -/

structure Sign where
  sig : Option Bytes
  content : Option Bytes
  deriving DecidableEq, Repr

/-- `sliceUniqMap`: first occurrences, in order -/
def uniq : List Bytes → List Bytes → List Bytes
  | [], _ => []
  | x :: r, seen => if x ∈ seen then uniq r seen else x :: uniq r (x :: seen)

/-- index of a share: big-endian value of its first two bytes -/
def shareIdx (b : Bytes) : Nat := beNat (b.take 2)

/-- the verification loop of `tbls.Recover` (as repaired by 4404707 / 3dee076 / f036cda): an entry too
short to carry an index is skipped, so is a second share with an index already collected and an index
outside `[0,n)`; the first `t` remaining shares that verify are collected -/
def collect (cfg : Cfg) (valid : Bytes → Bool) (t n : Nat) : List Bytes → List Nat → Except Out (List Nat)
  | [], acc => .ok acc
  | s :: r, acc =>
    if s.length < 2 then
      (if cfg.sigIdxLen then collect cfg valid t n r acc else .error (.panic "tbls.SigShare.Value|slice|[]byte(*s)[2:]"))
    else if cfg.recoverDedup && (shareIdx s ∈ acc || shareIdx s ≥ n) then collect cfg valid t n r acc
    else if !valid s then collect cfg valid t n r acc
    else
      let acc' := acc ++ [shareIdx s]
      if acc'.length ≥ t then .ok acc' else collect cfg valid t n r acc'

/-- first occurrences, in order -/
def uniqNat : List Nat → List Nat → List Nat
  | [], _ => []
  | x :: r, seen => if x ∈ seen then uniqNat r seen else x :: uniqNat r (x :: seen)

/-- `RecoverCommit`: indices ≥ n are skipped and (2d8b40a, flag `rcDedup`) so is a share whose index was
collected already; fewer than `t` left is an error. Without the de-duplication two shares with the same
index make a Lagrange denominator zero (`Div` by zero: nil dereference inside `mod.Int`) -/
def recoverCommit (cfg : Cfg) (t n : Nat) (idxs : List Nat) : Out :=
  let used := idxs.filter (· < n)
  if cfg.rcDedup then (if (uniqNat used []).length < t then .err "few" else .ok "")
  else if used.length < t then .err "few"
  else if !decide used.Nodup then .panic "share.RecoverCommit|callpanics|num.Div(num, den)"
  else .ok ""

def tblsRecover (cfg : Cfg) (valid : Bytes → Bool) (t n : Nat) (sigs : List Bytes) : Out :=
  match collect cfg valid t n (uniq sigs []) [] with
  | .error o => o
  | .ok idxs => recoverCommit cfg t n idxs

structure RsSt where
  shares : List Bytes := []
  own : Option Bytes := none      -- content of the first share through (the node's own, cc9c5f7)
  done : Bool := false
  alive : Bool := true
  deriving Repr

/-- one iteration of the `recoverSign` loop on an arriving share. `valid c s` abstracts
`bls.Verify(pubPoly.Eval(index s), c, value s)`. -/
def rsStep (cfg : Cfg) (valid : Bytes → Bytes → Bool) (t n : Nat) (st : RsSt) (m : Option Sign) : RsSt × Out :=
  if !st.alive || st.done then (st, .dropped) else
  let bad : Bool := match m with
    | none => true
    | some s => s.sig.isNone || s.content.isNone
  if cfg.rsNil && bad then (st, .err "nil")
  else
    match m with
    | none => ({ st with alive := false }, .panic "dosnode.recoverSign|deref|sign.ToBigInt()")
    | some s =>
      let sg := s.sig.getD []
      let c := s.content.getD []
      -- shares whose content differs from the first one through are skipped
      if st.own.isSome && st.own != some c then (st, .err "mismatch")
      else
      let st := { st with own := some c }
      let shares := st.shares ++ [sg]
      if shares.length < t then ({ st with shares := shares }, .ok "wait")
      else
        let u := uniq shares []
        -- sliceUniqMap compacts the caller's backing array in place
        let shares' := u ++ shares.drop u.length
        let st1 := { st with shares := shares' }
        match tblsRecover cfg (valid c) t n shares with
        | .panic site => ({ st1 with alive := false }, .panic site)
        | .err k => (st1, .err k)
        | .dropped => (st1, .dropped)
        | .ok _ =>
          -- bls.Verify of the recovered signature succeeds (C02/C03); sign.ToBigInt() on the arriving share
          if !cfg.toBigLen && sg.length < 32 then ({ st1 with alive := false }, .panic "vss.Signature.ToBigInt|slice|m.Signature[0:32]")
          else if c.length < 20 then
            (if cfg.rsMake then (st1, .err "short") else ({ st1 with alive := false }, .panic "dosnode.recoverSign|make|make([]byte, t)"))
          else ({ st1 with done := true }, .ok "done")

def rsRun (cfg : Cfg) (valid : Bytes → Bytes → Bool) (t n : Nat) : RsSt → List (Option Sign) → RsSt × List Out
  | s, [] => (s, [])
  | s, m :: ms =>
    let (s1, o) := rsStep cfg valid t n s m
    let (s2, os) := rsRun cfg valid t n s1 ms
    (s2, o :: os)

/-! ### 9. `groupInfo` → `handleQuery` → `choseSubmitter`; `handleCR` / `byte32` -/

/-- the event handler of `onchainLoop` up to the submitter choice: `nids = len(ids)` -/
def choseSubmitter (cfg : Cfg) (rand nids : Nat) : Out :=
  if cfg.groupInfoIds && nids = 0 then .err "nogroup"
  else if nids = 0 then .panic "dosnode.choseSubmitter|div|lastSysRand.Uint64() % uint64(len(ids))"
  else .ok s!"{rand % 2 ^ 64 % nids}"

/-- `byte32(s)`: pointer to the first 32 bytes, or nil -/
def byte32 (cfg : Cfg) (len : Nat) : Out :=
  if cfg.byte32Len then (if 32 ≤ len then .ok "ptr" else .ok "nil")
  else if len = 0 then .panic "dosnode.byte32|index|s[0]" else .ok "ptr"

/-- `handleCR` up to `rand.Int`: a seed < 1 is replaced by the group order first -/
def handleCRSeed (cfg : Cfg) (seed : Int) : Out :=
  if cfg.crRand && seed < 1 then .ok ""
  else if seed < 1 then .panic "dosnode.DosNode.handleCR|callpanics|rand.Int(rand.Reader, randSeed)"
  else .ok ""

end Dos.Handlers

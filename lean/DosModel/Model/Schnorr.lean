/-
C20 — executable model of sign/schnorr/schnorr.go (Sign, Verify, hash) specialised to the
bundled Ed25519 suite (point and scalar encodings of 32 bytes), core Lean only.

* `Schnorr.sign / verify / verifyPre / verifyStd` are written over an abstract group record
  `Grp G` and an abstract hash `H`, so the theorems (Props/C20.lean) hold for every lawful
  group and every hash, and the driver can plug in the concrete pieces below.
* `Sha512.sha512` (FIPS 180-4) and `Ed` (twisted Edwards curve −x²+y² = 1+dx²y² over
  2^255−19, RFC 8032 decoding with ref10's leniencies) are an INDEPENDENT re-implementation
  used only by the driver: they are not claimed to be verified (the group law of `Ed.add` is
  not proved); they are checked against the real code and crypto/ed25519 on every run.
-/
import DosModel.Model.Ed25519Scalar

namespace Dos.Sha512
open Dos

def K : Array UInt64 := #[
  0x428a2f98d728ae22, 0x7137449123ef65cd, 0xb5c0fbcfec4d3b2f, 0xe9b5dba58189dbbc, 0x3956c25bf348b538,
  0x59f111f1b605d019, 0x923f82a4af194f9b, 0xab1c5ed5da6d8118, 0xd807aa98a3030242, 0x12835b0145706fbe,
  0x243185be4ee4b28c, 0x550c7dc3d5ffb4e2, 0x72be5d74f27b896f, 0x80deb1fe3b1696b1, 0x9bdc06a725c71235,
  0xc19bf174cf692694, 0xe49b69c19ef14ad2, 0xefbe4786384f25e3, 0x0fc19dc68b8cd5b5, 0x240ca1cc77ac9c65,
  0x2de92c6f592b0275, 0x4a7484aa6ea6e483, 0x5cb0a9dcbd41fbd4, 0x76f988da831153b5, 0x983e5152ee66dfab,
  0xa831c66d2db43210, 0xb00327c898fb213f, 0xbf597fc7beef0ee4, 0xc6e00bf33da88fc2, 0xd5a79147930aa725,
  0x06ca6351e003826f, 0x142929670a0e6e70, 0x27b70a8546d22ffc, 0x2e1b21385c26c926, 0x4d2c6dfc5ac42aed,
  0x53380d139d95b3df, 0x650a73548baf63de, 0x766a0abb3c77b2a8, 0x81c2c92e47edaee6, 0x92722c851482353b,
  0xa2bfe8a14cf10364, 0xa81a664bbc423001, 0xc24b8b70d0f89791, 0xc76c51a30654be30, 0xd192e819d6ef5218,
  0xd69906245565a910, 0xf40e35855771202a, 0x106aa07032bbd1b8, 0x19a4c116b8d2d0c8, 0x1e376c085141ab53,
  0x2748774cdf8eeb99, 0x34b0bcb5e19b48a8, 0x391c0cb3c5c95a63, 0x4ed8aa4ae3418acb, 0x5b9cca4f7763e373,
  0x682e6ff3d6b2b8a3, 0x748f82ee5defb2fc, 0x78a5636f43172f60, 0x84c87814a1f0ab72, 0x8cc702081a6439ec,
  0x90befffa23631e28, 0xa4506cebde82bde9, 0xbef9a3f7b2c67915, 0xc67178f2e372532b, 0xca273eceea26619c,
  0xd186b8c721c0c207, 0xeada7dd6cde0eb1e, 0xf57d4f7fee6ed178, 0x06f067aa72176fba, 0x0a637dc5a2c898a6,
  0x113f9804bef90dae, 0x1b710b35131c471b, 0x28db77f523047d84, 0x32caab7b40c72493, 0x3c9ebe0a15c9bebc,
  0x431d67c49c100d4c, 0x4cc5d4becb3e42b6, 0x597f299cfc657e2a, 0x5fcb6fab3ad6faec, 0x6c44198c4a475817]

def iv : Array UInt64 := #[
  0x6a09e667f3bcc908, 0xbb67ae8584caa73b, 0x3c6ef372fe94f82b, 0xa54ff53a5f1d36f1,
  0x510e527fade682d1, 0x9b05688c2b3e6c1f, 0x1f83d9abfb41bd6b, 0x5be0cd19137e2179]

@[inline] def rotr (x : UInt64) (n : UInt64) : UInt64 := (x >>> n) ||| (x <<< (64 - n))

/-- message ++ 0x80 ++ 0… ++ 128-bit big-endian bit length, a multiple of 128 bytes -/
def pad (msg : Bytes) : Array UInt8 :=
  let n := msg.length
  let z := (128 - (n + 17) % 128) % 128
  (msg ++ [0x80] ++ List.replicate z 0 ++ natBE 16 (8 * n)).toArray

def be64At (a : Array UInt8) (j : Nat) : UInt64 := Id.run do
  let mut v : UInt64 := 0
  for k in [0:8] do
    v := (v <<< 8) ||| (a[j + k]!).toUInt64
  return v

def block (h : Array UInt64) (a : Array UInt8) (off : Nat) : Array UInt64 := Id.run do
  let mut w : Array UInt64 := Array.replicate 80 0
  for i in [0:16] do
    w := w.set! i (be64At a (off + 8 * i))
  for i in [16:80] do
    let v1 := w[i - 2]!
    let t1 := rotr v1 19 ^^^ rotr v1 61 ^^^ (v1 >>> 6)
    let v2 := w[i - 15]!
    let t2 := rotr v2 1 ^^^ rotr v2 8 ^^^ (v2 >>> 7)
    w := w.set! i (t1 + w[i - 7]! + t2 + w[i - 16]!)
  let mut a' := h[0]!
  let mut b := h[1]!
  let mut c := h[2]!
  let mut d := h[3]!
  let mut e := h[4]!
  let mut f := h[5]!
  let mut g := h[6]!
  let mut hh := h[7]!
  for i in [0:80] do
    let t1 := hh + (rotr e 14 ^^^ rotr e 18 ^^^ rotr e 41) + ((e &&& f) ^^^ (~~~e &&& g)) + K[i]! + w[i]!
    let t2 := (rotr a' 28 ^^^ rotr a' 34 ^^^ rotr a' 39) + ((a' &&& b) ^^^ (a' &&& c) ^^^ (b &&& c))
    hh := g
    g := f
    f := e
    e := d + t1
    d := c
    c := b
    b := a'
    a' := t1 + t2
  return #[h[0]! + a', h[1]! + b, h[2]! + c, h[3]! + d, h[4]! + e, h[5]! + f, h[6]! + g, h[7]! + hh]

def sha512 (msg : Bytes) : Bytes := Id.run do
  let a := pad msg
  let mut h := iv
  for k in [0:a.size / 128] do
    h := block h a (128 * k)
  return (h.toList.map (fun w => natBE 8 w.toNat)).flatten

end Dos.Sha512

namespace Dos.Ed
open Dos Dos.Ed25519

def p : Nat := 2 ^ 255 - 19
/-- −121665/121666 mod p -/
def d : Nat := 37095705934669439343138083508754565189542113879843219016388785533085940283555
/-- 2^((p−1)/4) mod p -/
def sqrtM1 : Nat := 19681161376707505956807079304988542015446066515923890162744021073123829784752

def powAux : Nat → Nat → Nat → Nat → Nat
  | 0, _, _, acc => acc
  | fuel + 1, b, e, acc => powAux fuel (b * b % p) (e / 2) (if e % 2 = 1 then acc * b % p else acc)

def pow (b e : Nat) : Nat := powAux (e.log2 + 1) (b % p) e 1
def inv (x : Nat) : Nat := pow x (p - 2)

/-- extended coordinates (X:Y:Z:T), x = X/Z, y = Y/Z, xy = T/Z -/
structure Pt where
  X : Nat
  Y : Nat
  Z : Nat
  T : Nat
  deriving Repr

def zero : Pt := ⟨0, 1, 1, 0⟩

/-- unified addition (add-2008-hwcd-3, a = −1), also used for doubling -/
def add (P Q : Pt) : Pt :=
  let A := (P.Y + p - P.X) * (Q.Y + p - Q.X) % p
  let B := (P.Y + P.X) * (Q.Y + Q.X) % p
  let C := P.T * (2 * d % p) % p * Q.T % p
  let D := P.Z * 2 % p * Q.Z % p
  let E := (B + p - A) % p
  let F := (D + p - C) % p
  let G := (D + C) % p
  let H := (B + A) % p
  ⟨E * F % p, G * H % p, F * G % p, E * H % p⟩

/-- −(x, y) = (−x, y) -/
def neg (P : Pt) : Pt := ⟨(p - P.X % p) % p, P.Y, P.Z, (p - P.T % p) % p⟩

def smulAux : Nat → Nat → Pt → Pt → Pt
  | 0, _, _, acc => acc
  | fuel + 1, n, Q, acc => smulAux fuel (n / 2) (add Q Q) (if n % 2 = 1 then add acc Q else acc)

/-- n•P for any natural n (double-and-add) -/
def smul (n : Nat) (P : Pt) : Pt := smulAux (n.log2 + 1) n P zero

def base : Pt :=
  let x := 15112221349535400772501151409588531511454012693041857206046113283949847762202
  let y := 46316835694926478169428394003475163141307993866256225615783033603165251855960
  ⟨x, y, 1, x * y % p⟩

/-- `point.MarshalBinary` (ge.ToBytes): y little-endian, top bit = parity of x -/
def enc (P : Pt) : Bytes :=
  let zi := inv P.Z
  let x := P.X * zi % p
  let y := P.Y * zi % p
  natLE 32 (y + 2 ^ 255 * (x % 2))

/-- `point.UnmarshalBinary` (ge.FromBytes): length 32; y = low 255 bits, NOT required to be < p;
x recovered from x² = (y²−1)/(dy²+1); x = 0 with the sign bit set is accepted (ref10). -/
def dec (b : Bytes) : Option Pt :=
  if b.length ≠ 32 then none else
  let n := leNat b
  let sign := n / 2 ^ 255
  let y := n % 2 ^ 255 % p
  let u := (y * y + p - 1) % p
  let v := (d * (y * y % p) + 1) % p
  let v3 := v * v % p * v % p
  let uv7 := v3 * v3 % p * v % p * u % p
  let x := pow uv7 ((p - 5) / 8) * v3 % p * u % p
  let vxx := x * x % p * v % p
  let r : Option Nat :=
    if vxx = u then some x
    else if (vxx + u) % p = 0 then some (x * sqrtM1 % p)
    else none
  match r with
  | none => none
  | some x =>
    let x := if x % 2 ≠ sign then (p - x) % p else x
    some ⟨x, y, 1, x * y % p⟩

end Dos.Ed

namespace Dos.Schnorr
open Dos Dos.Ed25519

/-- what the model needs of a `kyber.Group`: scalars enter as the NATURAL NUMBER their 32 bytes
spell (little-endian, unreduced), as `point.Mul` reads the raw bytes -/
structure Grp (G : Type) where
  add : G → G → G
  smul : Nat → G → G
  base : G
  enc : G → Bytes
  dec : Bytes → Option G

/-- `Point.Equal`: comparison of the two encodings -/
def Grp.eq {G : Type} (g : Grp G) (P Q : G) : Bool := g.enc P == g.enc Q

/-- `hash(g, public, r, msg)`: digest of enc(R) ‖ enc(A) ‖ msg (the order `r`, `public`, `msg` is read
off schnorr.go and pinned by `Gen.SchnorrFacts.hashWrites`), then `Scalar.SetBytes`: reduced mod ℓ. -/
def challenge {G : Type} (g : Grp G) (H : Bytes → Bytes) (A R : G) (msg : Bytes) : Nat :=
  leNat (H (g.enc R ++ g.enc A ++ msg)) % ell

/-- `Sign(suite, private, msg)` with the nonce `k` the suite's random stream yields.
`x` is the value of the private scalar's bytes. Returns enc(R) ‖ S, S = k + x·h reduced
(`MarshalBinary` reduces modulo ℓ whatever `scAdd` left). -/
def sign {G : Type} (g : Grp G) (H : Bytes → Bytes) (x k : Nat) (msg : Bytes) : Bytes :=
  let R := g.smul k g.base
  let A := g.smul x g.base
  let h := challenge g H A R msg
  g.enc R ++ natLE 32 ((k + x * h % ell) % ell)

inductive VErr | length | point | noncanonical | invalid
  deriving Repr, DecidableEq

def VErr.name : VErr → String
  | .length => "length" | .point => "point" | .noncanonical => "noncanonical" | .invalid => "invalid"

/-- `Verify(g, public, msg, sig)` as REPAIRED (fix: commit in /repo): a signature whose S part is not
the canonical encoding of a scalar (S ≥ ℓ) is rejected, as RFC 8032 §5.1.7 requires. -/
def verify {G : Type} (g : Grp G) (H : Bytes → Bytes) (A : G) (msg sig : Bytes) : Except VErr Unit :=
  if sig.length ≠ 64 then .error .length else
  match g.dec (sig.take 32) with
  | none => .error .point
  | some R =>
    let sb := sig.drop 32
    if !scCanonical sb then .error .noncanonical else
    let s := leNat sb
    let h := challenge g H A R msg
    if g.eq (g.smul s g.base) (g.add R (g.smul h A)) then .ok () else .error .invalid

/-- `Verify` as it was at the pinned commit (finding F5): `scalar.UnmarshalBinary` copies the 32
bytes without a range check and `point.Mul` uses them as they are. -/
def verifyPre {G : Type} (g : Grp G) (H : Bytes → Bytes) (A : G) (msg sig : Bytes) : Except VErr Unit :=
  if sig.length ≠ 64 then .error .length else
  match g.dec (sig.take 32) with
  | none => .error .point
  | some R =>
    let s := leNat (sig.drop 32)
    let h := challenge g H A R msg
    if g.eq (g.smul s g.base) (g.add R (g.smul h A)) then .ok () else .error .invalid

/-- RFC 8032 §5.1.7 verification as crypto/ed25519 implements it (cofactorless): decode A, S must be
< ℓ, k = H(R-bytes ‖ A-bytes ‖ M) over the bytes AS RECEIVED, and enc(S·B − k·A) must equal the R bytes.
Stated with addition: R decodes, its encoding is the received one, and S·B = R + k·A. -/
def verifyStd {G : Type} (g : Grp G) (H : Bytes → Bytes) (pub msg sig : Bytes) : Bool :=
  if sig.length ≠ 64 then false else
  match g.dec pub, g.dec (sig.take 32) with
  | some A, some R =>
    let sb := sig.drop 32
    scCanonical sb && g.enc R == sig.take 32 &&
      g.eq (g.smul (leNat sb) g.base) (g.add R (g.smul (leNat (H (sig.take 32 ++ pub ++ msg)) % ell) A))
  | _, _ => false

/-- the concrete Ed25519 group used by the driver -/
def edGrp : Grp Ed.Pt := { add := Ed.add, smul := Ed.smul, base := Ed.base, enc := Ed.enc, dec := Ed.dec }

end Dos.Schnorr

/-
Composition helper: NATURALITY of the byte-level model of `tbls.Recover` (`Model/Tbls.lean`) in the
point type.  If `φ : P → P'` respects `0 + •` and is injective on a set `V ⊆ P` closed under the
operations, and the codecs correspond (`decode' = map φ ∘ decode`, decoded points lie in `V`,
`encode' ∘ φ = encode` on `V`), then `recover` over `P'` at `φ hm` returns exactly what `recover` over
`P` returns at `hm` — for every public polynomial, entry list, `t`, `n`.
This is what transports the theorems proved for an abstract module (C02/C03) to a concrete point type
that is not itself a Mathlib `Module` (the driver's `G1.Pt`), through a homomorphism into one.
-/
import DosModel.Model.Tbls
import Mathlib.Data.List.Basic

set_option linter.unusedSectionVars false
set_option linter.unusedSimpArgs false

namespace Dos.Compose.Natural
open Dos Dos.Share Dos.Tbls

variable {S : Type} [Add S] [Sub S] [Mul S] [Neg S] [Zero S] [One S] [Inv S] [IntCast S] [DecidableEq S]
variable {P : Type} [Add P] [Zero P] [SMul S P] [DecidableEq P]
variable {P' : Type} [Add P'] [Zero P'] [SMul S P'] [DecidableEq P']

/-- `φ` is a homomorphism for `0 + •`, injective, on the closed set `V` -/
structure Hom (S : Type) {P P' : Type} [Add P] [Zero P] [SMul S P] [Add P'] [Zero P'] [SMul S P']
    (φ : P → P') (V : P → Prop) : Prop where
  v0 : V 0
  vadd : ∀ a b, V a → V b → V (a + b)
  vsmul : ∀ (k : S) a, V a → V (k • a)
  f0 : φ 0 = 0
  fadd : ∀ a b, V a → V b → φ (a + b) = φ a + φ b
  fsmul : ∀ (k : S) a, V a → φ (k • a) = k • φ a
  inj : ∀ a b, V a → V b → φ a = φ b → a = b

/-- the two codecs correspond -/
structure CodecHom (φ : P → P') (V : P → Prop) (cd : Codec P) (cd' : Codec P') : Prop where
  dec : ∀ b, cd'.decode b = (cd.decode b).map φ
  decV : ∀ b s, cd.decode b = some s → V s
  enc : ∀ a, V a → cd'.encode (φ a) = cd.encode a

def mapSh (φ : P → P') (s : PubShare P) : PubShare P' := ⟨s.I, s.V.map φ⟩
def mapNode (φ : P → P') (nd : Node S P) : Node S P' := ⟨nd.pos, nd.x, φ nd.v⟩
def mapOut (φ : P → P') : Out P → Out P'
  | .ok v => .ok (φ v)
  | .err e => .err e
  | .panic s => .panic s

variable {φ : P → P'} {V : P → Prop}

theorem blsVerifyR_nat (h : Hom S φ V) {cd : Codec P} {cd' : Codec P'} (hc : CodecHom φ V cd cd')
    (x : S) (hm : P) (hhm : V hm) (sv : Bytes) :
    blsVerifyR cd' x (φ hm) sv = blsVerifyR cd x hm sv := by
  unfold blsVerifyR
  rw [hc.dec]
  cases hd : cd.decode sv with
  | none => rfl
  | some s =>
    have hs := hc.decV sv s hd
    simp only [Option.map_some]
    by_cases he : s = x • hm
    · subst he
      rw [if_pos (h.fsmul x hm hhm), if_pos rfl]
    · have : φ s ≠ x • φ hm := by
        intro h'
        rw [← h.fsmul x hm hhm] at h'
        exact he (h.inj _ _ hs (h.vsmul x hm hhm) h')
      rw [if_neg this, if_neg he]

theorem blsVerify_nat (h : Hom S φ V) {cd : Codec P} {cd' : Codec P'} (hc : CodecHom φ V cd cd')
    (x : S) (hm : P) (hhm : V hm) (sv : Bytes) :
    blsVerify cd' x (φ hm) sv = blsVerify cd x hm sv := by
  unfold blsVerify
  rw [blsVerifyR_nat h hc x hm hhm sv]

/-- every value of the accumulator lies in `V` -/
def AccV (V : P → Prop) (acc : List (PubShare P)) : Prop := ∀ s ∈ acc, ∀ v, s.V = some v → V v

theorem collect_nat (h : Hom S φ V) {cd : Codec P} {cd' : Codec P'} (hc : CodecHom φ V cd cd')
    (pub : List S) (hm : P) (hhm : V hm) (t n : Nat) :
    ∀ (l : List Bytes) (seen : List Nat) (acc : List (PubShare P)), AccV V acc →
      collect cd' pub (φ hm) t n l seen (acc.map (mapSh φ))
          = (collect cd pub hm t n l seen acc).map (List.map (mapSh φ))
      ∧ ∀ out, collect cd pub hm t n l seen acc = some out → AccV V out := by
  intro l
  induction l with
  | nil =>
    intro seen acc hacc
    exact ⟨rfl, fun out ho => by simp only [collect] at ho; cases ho; exact hacc⟩
  | cons sig rest ih =>
    intro seen acc hacc
    unfold collect
    cases hidx : sigIndex sig with
    | none => exact ih seen acc hacc
    | some i =>
      simp only
      by_cases hskip : i ∈ seen ∨ n ≤ i
      · simp only [hskip, if_true]; exact ih seen acc hacc
      · simp only [hskip, if_false]
        rw [blsVerify_nat h hc _ hm hhm]
        by_cases hver : blsVerify cd (priEval pub (i : Int)) hm (sigValue sig) = false
        · simp only [hver, if_true]; exact ih seen acc hacc
        · simp only [hver, if_false]
          rw [hc.dec]
          cases hd : cd.decode (sigValue sig) with
          | none => exact ⟨rfl, fun out ho => by cases ho⟩
          | some pt =>
            have hpt := hc.decV _ _ hd
            simp only [Option.map_some]
            have hacc' : AccV V (acc ++ [⟨(i : Int), some pt⟩]) := by
              intro s hs v hv
              rcases List.mem_append.1 hs with hs | hs
              · exact hacc s hs v hv
              · simp only [List.mem_singleton] at hs
                subst hs
                simp only [Option.some.injEq] at hv
                subst hv; exact hpt
            have hmap : acc.map (mapSh φ) ++ [(⟨(i : Int), some (φ pt)⟩ : PubShare P')]
                = (acc ++ [(⟨(i : Int), some pt⟩ : PubShare P)]).map (mapSh φ) := by
              simp [mapSh]
            rw [hmap]
            by_cases hfull : (acc ++ [(⟨(i : Int), some pt⟩ : PubShare P)]).length ≥ t
            · have hfull' : ((acc ++ [(⟨(i : Int), some pt⟩ : PubShare P)]).map (mapSh φ)).length ≥ t := by
                rw [List.length_map]; exact hfull
              simp only [hfull, hfull', if_true]
              exact ⟨rfl, fun out ho => by cases ho; exact hacc'⟩
            · have hfull' : ¬ ((acc ++ [(⟨(i : Int), some pt⟩ : PubShare P)]).map (mapSh φ)).length ≥ t := by
                rw [List.length_map]; exact hfull
              simp only [hfull, hfull', if_false]
              exact ih (i :: seen) _ hacc'

theorem usablePub_nat (n : Nat) (s : Option (PubShare P)) :
    usablePub n (s.map (mapSh φ)) = (usablePub n s).map (fun iv => (iv.1, φ iv.2)) := by
  cases s with
  | none => rfl
  | some sh =>
    obtain ⟨i, v⟩ := sh
    cases v with
    | none => rfl
    | some v =>
      simp only [Option.map_some, mapSh, usablePub]
      split <;> rfl

theorem xCommitAux_nat (n : Nat) : ∀ (l : List (Option (PubShare P))) (pos : Nat) (seen : List Int),
    xCommitAux S n pos seen (l.map (Option.map (mapSh φ)))
      = (xCommitAux S n pos seen l).map (mapNode φ) := by
  intro l
  induction l with
  | nil => intro pos seen; rfl
  | cons s rest ih =>
    intro pos seen
    simp only [List.map_cons, xCommitAux]
    rw [usablePub_nat]
    cases hu : usablePub n s with
    | none => simp only [Option.map_none]; exact ih _ _
    | some iv =>
      obtain ⟨i, v⟩ := iv
      simp only [Option.map_some]
      by_cases hs : i ∈ seen
      · simp only [hs, if_true]; exact ih _ _
      · simp only [hs, if_false, List.map_cons, ih]
        rfl

/-- all node values of the map built by `RecoverCommit` lie in `V` -/
theorem xCommitAux_V (n : Nat) : ∀ (l : List (Option (PubShare P))) (pos : Nat) (seen : List Int),
    (∀ s ∈ l, ∀ sh, s = some sh → ∀ v, sh.V = some v → V v) →
    ∀ nd ∈ xCommitAux S n pos seen l, V nd.v := by
  intro l
  induction l with
  | nil => intro pos seen _ nd hnd; simp [xCommitAux] at hnd
  | cons s rest ih =>
    intro pos seen hl nd hnd
    have hrest : ∀ s' ∈ rest, ∀ sh, s' = some sh → ∀ v, sh.V = some v → V v :=
      fun s' hs' => hl s' (List.mem_cons_of_mem _ hs')
    unfold xCommitAux at hnd
    cases hu : usablePub n s with
    | none => rw [hu] at hnd; exact ih _ _ hrest nd hnd
    | some iv =>
      obtain ⟨i, v⟩ := iv
      rw [hu] at hnd
      by_cases hseen : i ∈ seen
      · simp only [hseen, if_true] at hnd; exact ih _ _ hrest nd hnd
      simp only [hseen, if_false, List.mem_cons] at hnd
      rcases hnd with rfl | hnd
      · -- the value of a usable entry is the entry's value
        cases s with
        | none => simp [usablePub] at hu
        | some sh =>
          obtain ⟨j, w⟩ := sh
          cases w with
          | none => simp [usablePub] at hu
          | some w =>
            simp only [usablePub] at hu
            split at hu
            · simp only [Option.some.injEq, Prod.mk.injEq] at hu
              obtain ⟨_, rfl⟩ := hu
              exact hl _ (List.mem_cons_self) _ rfl _ rfl
            · cases hu
      · exact ih _ _ hrest nd hnd

theorem numDen_nat (xs : List (Node S P)) (i : Node S P) (num0 : S) :
    numDen (xs.map (mapNode φ)) (mapNode φ i) num0 = numDen xs i num0 := by
  unfold numDen
  rw [List.foldl_map]
  rfl

theorem commitFold_nat (h : Hom S φ V) (dp : Bool) (X : List (Node S P)) :
    ∀ (ys : List (Node S P)) (acc : Out P), (∀ nd ∈ ys, V nd.v) → (∀ a, acc = .ok a → V a) →
      (ys.map (mapNode φ)).foldl (commitStep dp (X.map (mapNode φ))) (mapOut φ acc)
        = mapOut φ (ys.foldl (commitStep dp X) acc)
      ∧ ∀ a, ys.foldl (commitStep dp X) acc = .ok a → V a := by
  intro ys
  induction ys with
  | nil => intro acc _ hacc; exact ⟨rfl, hacc⟩
  | cons y ys ih =>
    intro acc hys hacc
    simp only [List.map_cons, List.foldl_cons]
    have hy : V y.v := hys y List.mem_cons_self
    have hstep : commitStep dp (X.map (mapNode φ)) (mapOut φ acc) (mapNode φ y)
        = mapOut φ (commitStep dp X acc y) ∧ (∀ a, commitStep dp X acc y = .ok a → V a) := by
      cases acc with
      | ok a =>
        have ha := hacc a rfl
        simp only [commitStep, mapOut]
        rw [numDen_nat]
        cases hd : divOut dp (numDen X y (1 : S)).1 (numDen X y (1 : S)).2 with
        | ok d =>
          simp only [mapOut, mapNode]
          refine ⟨?_, ?_⟩
          · rw [h.fadd _ _ ha (h.vsmul d _ hy), h.fsmul d _ hy]
          · intro a' ha'
            simp only [Out.ok.injEq] at ha'
            subst ha'
            exact h.vadd _ _ ha (h.vsmul d _ hy)
        | err e => exact ⟨rfl, fun a' ha' => by cases ha'⟩
        | panic s => exact ⟨rfl, fun a' ha' => by cases ha'⟩
      | err e => exact ⟨rfl, fun a' ha' => by cases ha'⟩
      | panic s => exact ⟨rfl, fun a' ha' => by cases ha'⟩
    rw [hstep.1]
    exact ih _ (fun nd hnd => hys nd (List.mem_cons_of_mem _ hnd)) hstep.2

theorem recoverCommit_nat (h : Hom S φ V) (dp : Bool) (l : List (Option (PubShare P))) (t n : Nat)
    (hl : ∀ s ∈ l, ∀ sh, s = some sh → ∀ v, sh.V = some v → V v) :
    recoverCommit (S := S) dp (l.map (Option.map (mapSh φ))) t n
      = mapOut φ (recoverCommit (S := S) dp l t n)
    ∧ ∀ c, recoverCommit (S := S) dp l t n = .ok c → V c := by
  unfold recoverCommit
  simp only
  rw [xCommitAux_nat, List.length_map]
  by_cases hlt : (xCommitAux S n 0 [] l).length < t
  · simp only [hlt, if_true]; exact ⟨rfl, fun c hc => by cases hc⟩
  · simp only [hlt, if_false]
    have := commitFold_nat h dp (xCommitAux S n 0 [] l) (xCommitAux S n 0 [] l) (.ok 0)
      (xCommitAux_V n l 0 [] hl) (fun a ha => by simp only [Out.ok.injEq] at ha; subst ha; exact h.v0)
    simp only [mapOut, h.f0] at this
    exact this

/-- **naturality of `tbls.Recover`** -/
theorem recover_nat (h : Hom S φ V) {cd : Codec P} {cd' : Codec P'} (hc : CodecHom φ V cd cd')
    (pub : List S) (hm : P) (hhm : V hm) (sigs : List Bytes) (t n : Nat) :
    recover cd' pub (φ hm) sigs t n = recover cd pub hm sigs t n := by
  unfold recover
  by_cases hguard : t < pub.length
  · simp only [hguard, if_true]
  simp only [hguard, if_false]
  obtain ⟨e1, e2⟩ := collect_nat h hc pub hm hhm t n (uniq sigs) [] [] (fun s hs => by simp at hs)
  simp only [List.map_nil] at e1
  rw [e1]
  cases hcol : collect cd pub hm t n (uniq sigs) [] [] with
  | none => rfl
  | some shares =>
    have hV := e2 shares hcol
    simp only [Option.map_some]
    have hmap : (shares.map (mapSh φ)).map some = (shares.map some).map (Option.map (mapSh φ)) := by
      simp [List.map_map, Function.comp_def]
    have hlV : ∀ s ∈ shares.map some, ∀ sh, s = some sh → ∀ v, sh.V = some v → V v := by
      intro s hs sh hsh v hv
      simp only [List.mem_map] at hs
      obtain ⟨sh', hsh', rfl⟩ := hs
      simp only [Option.some.injEq] at hsh
      subst hsh
      exact hV _ hsh' v hv
    obtain ⟨r1, r2⟩ := recoverCommit_nat h true (shares.map some) t n hlV
    rw [hmap, r1]
    cases hrc : recoverCommit (S := S) true (shares.map some) t n with
    | ok c =>
      simp only [mapOut]
      rw [hc.enc c (r2 c hrc)]
    | err e => rfl
    | panic s => rfl

end Dos.Compose.Natural

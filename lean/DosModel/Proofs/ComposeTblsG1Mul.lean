/-
Composition helper: the driver's scalar multiplication `G1.mul` (`Model/TblsG1.lean`: MSB-first
double-and-add on Jacobian coordinates, doubling `Jac.dbl` ("dbl-2009-l", a = 0), mixed addition
`Jac.addAff`, conversion `Jac.toPt`) computes `k • P` in `E(F_p)`: every step is related to the generic
affine formulas of `Proofs/ComposeCurve.lean` through the representation invariant `JRep`.
-/
import DosModel.Proofs.ComposeTblsG1
import Mathlib.Tactic.FieldSimp

set_option linter.unusedSimpArgs false

namespace Dos.Compose.TG1
open Dos Dos.G1 Dos.Compose.Curve

/-- reduced Jacobian triple `a` denotes the affine point `Q` -/
structure JRep (a : Jac) (Q : APt Fp) : Prop where
  rx : a.x < G1.p
  ry : a.y < G1.p
  rz : a.z < G1.p
  den : ((a.z : Fp) = 0 ∧ Q = .inf) ∨
    ((a.z : Fp) ≠ 0 ∧ Q = .aff ((a.x : Fp) / (a.z : Fp) ^ 2) ((a.y : Fp) / (a.z : Fp) ^ 3))

theorem cast2 : ((2 : Nat) : Fp) = 2 := by norm_cast
theorem cast3 : ((3 : Nat) : Fp) = 3 := by norm_cast
theorem cast8 : ((8 : Nat) : Fp) = 8 := by norm_cast

/-- the coordinates `Jac.dbl` computes, in the field -/
theorem cast_dbl (a : Jac) :
    ((a.dbl.x : Nat) : Fp) = (3 * (a.x : Fp) ^ 2) ^ 2 - 2 * (4 * (a.x : Fp) * (a.y : Fp) ^ 2)
    ∧ ((a.dbl.y : Nat) : Fp) = 3 * (a.x : Fp) ^ 2 * (4 * (a.x : Fp) * (a.y : Fp) ^ 2 -
        ((3 * (a.x : Fp) ^ 2) ^ 2 - 2 * (4 * (a.x : Fp) * (a.y : Fp) ^ 2))) - 8 * (a.y : Fp) ^ 4
    ∧ ((a.dbl.z : Nat) : Fp) = 2 * (a.y : Fp) * (a.z : Fp) := by
  have l := fun a b => Nat.le_of_lt (fmul_lt a b)
  have ls := fun a b => Nat.le_of_lt (fsub_lt a b)
  refine ⟨?_, ?_, ?_⟩
  · simp only [Jac.dbl]
    rw [cast_fsub _ _ (l _ _)]
    simp only [cast_fmul, cast_fadd, cast_fsub _ _ (l _ _), cast_fsub _ _ (ls _ _), cast2, cast3]
    ring
  · simp only [Jac.dbl]
    rw [cast_fsub _ _ (l _ _), cast_fmul, cast_fsub _ _ (ls _ _), cast_fsub _ _ (l _ _)]
    simp only [cast_fmul, cast_fadd, cast_fsub _ _ (l _ _), cast_fsub _ _ (ls _ _), cast2, cast3, cast8]
    ring
  · simp only [Jac.dbl, cast_fmul, cast2]; ring

theorem dbl_reduced (a : Jac) : a.dbl.x < G1.p ∧ a.dbl.y < G1.p ∧ a.dbl.z < G1.p :=
  ⟨fsub_lt _ _, fsub_lt _ _, fmul_lt _ _⟩

/-- **doubling** -/
theorem jrep_dbl (a : Jac) (Q : APt Fp) (h : JRep a Q) : JRep a.dbl (adbl Q) := by
  obtain ⟨rx, ry, rz⟩ := dbl_reduced a
  obtain ⟨ex, ey, ez⟩ := cast_dbl a
  refine ⟨rx, ry, rz, ?_⟩
  rcases h.den with ⟨hz, rfl⟩ | ⟨hz, rfl⟩
  · left; exact ⟨by rw [ez, hz, mul_zero], rfl⟩
  · by_cases hy : (a.y : Fp) = 0
    · left
      refine ⟨by rw [ez, hy, mul_zero, zero_mul], ?_⟩
      simp [adbl, hy]
    · right
      have hz3 : (2 : Fp) * a.y * a.z ≠ 0 := mul_ne_zero (mul_ne_zero two_ne_zero_Fp hy) hz
      refine ⟨by rw [ez]; exact hz3, ?_⟩
      have hy' : (a.y : Fp) / (a.z : Fp) ^ 3 ≠ 0 := div_ne_zero hy (pow_ne_zero _ hz)
      simp only [adbl, hy', if_false]
      rw [ex, ey, ez]
      have h2 := two_ne_zero_Fp
      have h4 : (4 : Fp) ≠ 0 := by
        have : (4 : Fp) = 2 * 2 := by norm_num
        rw [this]; exact mul_ne_zero h2 h2
      have h8 : (8 : Fp) ≠ 0 := by
        have : (8 : Fp) = 2 * 4 := by norm_num
        rw [this]; exact mul_ne_zero h2 h4
      congr 1
      · field_simp; ring
      · field_simp; ring

/-! the mixed-addition formulas against the chord formulas, as identities in any field
(`H = x₂Z² − X`, `R = y₂Z³ − Y` taken as the independent variables) -/

theorem chord_x {K : Type} [Field K] (x2 y2 Z H R : K) (hZ : Z ≠ 0) (hH : H ≠ 0) :
    (R * R - H * (H * H) - 2 * ((x2 * Z ^ 2 - H) * (H * H))) / (Z * H) ^ 2
      = ((y2 - (y2 * Z ^ 3 - R) / Z ^ 3) / (x2 - (x2 * Z ^ 2 - H) / Z ^ 2)) ^ 2
          - (x2 * Z ^ 2 - H) / Z ^ 2 - x2 := by
  have e1 : y2 - (y2 * Z ^ 3 - R) / Z ^ 3 = R / Z ^ 3 := by field_simp; ring
  have e2 : x2 - (x2 * Z ^ 2 - H) / Z ^ 2 = H / Z ^ 2 := by field_simp; ring
  rw [e1, e2]
  field_simp
  ring

theorem chord_y {K : Type} [Field K] (x2 y2 Z H R : K) (hZ : Z ≠ 0) (hH : H ≠ 0) :
    (R * ((x2 * Z ^ 2 - H) * (H * H) - (R * R - H * (H * H) - 2 * ((x2 * Z ^ 2 - H) * (H * H))))
        - (y2 * Z ^ 3 - R) * (H * (H * H))) / (Z * H) ^ 3
      = (y2 - (y2 * Z ^ 3 - R) / Z ^ 3) / (x2 - (x2 * Z ^ 2 - H) / Z ^ 2)
          * ((x2 * Z ^ 2 - H) / Z ^ 2 - (((y2 - (y2 * Z ^ 3 - R) / Z ^ 3) / (x2 - (x2 * Z ^ 2 - H) / Z ^ 2)) ^ 2
              - (x2 * Z ^ 2 - H) / Z ^ 2 - x2))
          - (y2 * Z ^ 3 - R) / Z ^ 3 := by
  have e1 : y2 - (y2 * Z ^ 3 - R) / Z ^ 3 = R / Z ^ 3 := by field_simp; ring
  have e2 : x2 - (x2 * Z ^ 2 - H) / Z ^ 2 = H / Z ^ 2 := by field_simp; ring
  rw [e1, e2]
  field_simp
  ring

/-- the coordinates `Jac.addAff` computes in its general branch -/
theorem cast_addAff_general (a : Jac) (x2 y2 : Nat) (hax : a.x < G1.p) (hay : a.y < G1.p) :
    let h : Fp := (x2 : Fp) * (a.z : Fp) ^ 2 - a.x
    let rr : Fp := (y2 : Fp) * (a.z : Fp) ^ 3 - a.y
    ((G1.fsub (G1.fmul x2 (G1.fmul a.z a.z)) a.x : Nat) : Fp) = h
    ∧ ((G1.fsub (G1.fmul y2 (G1.fmul a.z (G1.fmul a.z a.z))) a.y : Nat) : Fp) = rr := by
  refine ⟨?_, ?_⟩
  · rw [cast_fsub _ _ (Nat.le_of_lt hax)]; simp only [cast_fmul]; ring
  · rw [cast_fsub _ _ (Nat.le_of_lt hay)]; simp only [cast_fmul]; ring

/-- **mixed addition** of a valid affine point -/
theorem jrep_addAff (a : Jac) (Q : APt Fp) (h : JRep a Q) (x2 y2 : Nat) (hx2 : x2 < G1.p)
    (hy2 : y2 < G1.p) : JRep (a.addAff x2 y2) (aadd Q (.aff (x2 : Fp) (y2 : Fp))) := by
  obtain ⟨hh, hr⟩ := cast_addAff_general a x2 y2 h.rx h.ry
  unfold Jac.addAff
  by_cases hz0 : a.z = 0
  · simp only [hz0, if_true]
    have hzF : (a.z : Fp) = 0 := by rw [hz0]; simp
    rcases h.den with ⟨_, rfl⟩ | ⟨hz, _⟩
    · refine ⟨hx2, hy2, (by show 1 < G1.p; decide), Or.inr ⟨by simp, ?_⟩⟩
      simp [aadd]
    · exact absurd hzF hz
  · simp only [hz0, if_false]
    have hzF : (a.z : Fp) ≠ 0 := fun h0 => hz0 ((cast_eq_zero_iff h.rz).1 h0)
    rcases h.den with ⟨hz, _⟩ | ⟨_, rfl⟩
    · exact absurd hz hzF
    · by_cases hh0 : G1.fsub (G1.fmul x2 (G1.fmul a.z a.z)) a.x = 0
      · simp only [hh0, if_true]
        have hhF : (x2 : Fp) * (a.z : Fp) ^ 2 - a.x = 0 := by rw [← hh, hh0]; simp
        have hxeq : (a.x : Fp) / (a.z : Fp) ^ 2 = x2 := by
          field_simp; linear_combination -hhF
        by_cases hr0 : G1.fsub (G1.fmul y2 (G1.fmul a.z (G1.fmul a.z a.z))) a.y = 0
        · simp only [hr0, if_true]
          have hrF : (y2 : Fp) * (a.z : Fp) ^ 3 - a.y = 0 := by rw [← hr, hr0]; simp
          have hyeq : (a.y : Fp) / (a.z : Fp) ^ 3 = y2 := by
            field_simp; linear_combination -hrF
          have := jrep_dbl a _ h
          simp only [aadd, hxeq, hyeq, if_true]
          rw [hxeq, hyeq] at this
          exact this
        · simp only [hr0, if_false]
          have hrF : (y2 : Fp) * (a.z : Fp) ^ 3 - a.y ≠ 0 := by
            rw [← hr]; exact fun h0 => hr0 ((cast_eq_zero_iff (fsub_lt _ _)).1 h0)
          have hyne : (a.y : Fp) / (a.z : Fp) ^ 3 ≠ y2 := by
            intro he
            apply hrF
            have : (a.y : Fp) = y2 * (a.z : Fp) ^ 3 := by
              rw [← he]; field_simp
            rw [this]; ring
          refine ⟨by decide, by decide, by decide, Or.inl ⟨by simp, ?_⟩⟩
          simp [aadd, hxeq, hyne]
      · simp only [hh0, if_false]
        have hhF : (x2 : Fp) * (a.z : Fp) ^ 2 - a.x ≠ 0 := by
          rw [← hh]; exact fun h0 => hh0 ((cast_eq_zero_iff (fsub_lt _ _)).1 h0)
        have hxne : (a.x : Fp) / (a.z : Fp) ^ 2 ≠ x2 := by
          intro he
          apply hhF
          have : (a.x : Fp) = x2 * (a.z : Fp) ^ 2 := by
            rw [← he]; field_simp
          rw [this]; ring
        have l := fun a b => Nat.le_of_lt (fmul_lt a b)
        have ls := fun a b => Nat.le_of_lt (fsub_lt a b)
        refine ⟨fsub_lt _ _, fsub_lt _ _, fmul_lt _ _, Or.inr ⟨?_, ?_⟩⟩
        · rw [cast_fmul, hh]; exact mul_ne_zero hzF hhF
        · simp only [aadd, hxne, if_false]
          have hHne : ((G1.fsub (G1.fmul x2 (G1.fmul a.z a.z)) a.x : Nat) : Fp) ≠ 0 := by rw [hh]; exact hhF
          have eX : (a.x : Fp) = x2 * (a.z : Fp) ^ 2
              - ((G1.fsub (G1.fmul x2 (G1.fmul a.z a.z)) a.x : Nat) : Fp) := by rw [hh]; ring
          have eY : (a.y : Fp) = y2 * (a.z : Fp) ^ 3
              - ((G1.fsub (G1.fmul y2 (G1.fmul a.z (G1.fmul a.z a.z))) a.y : Nat) : Fp) := by rw [hr]; ring
          congr 1
          · rw [cast_fsub _ _ (l _ _), cast_fsub _ _ (l _ _)]
            simp only [cast_fmul, cast2]
            rw [eX, eY]
            exact (chord_x _ _ _ _ _ hzF hHne).symm
          · rw [cast_fsub _ _ (l _ _), cast_fmul, cast_fsub _ _ (ls _ _), cast_fsub _ _ (l _ _),
              cast_fsub _ _ (l _ _)]
            simp only [cast_fmul, cast2]
            rw [eX, eY]
            exact (chord_y _ _ _ _ _ hzF hHne).symm

/-- **conversion to affine** -/
theorem jrep_toPt (a : Jac) (Q : APt Fp) (h : JRep a Q) : cT a.toPt = Q ∧ Reduced a.toPt := by
  unfold Jac.toPt
  by_cases hz0 : a.z = 0
  · simp only [hz0, if_true]
    have hzF : (a.z : Fp) = 0 := by rw [hz0]; simp
    rcases h.den with ⟨_, rfl⟩ | ⟨hz, _⟩
    · exact ⟨rfl, trivial⟩
    · exact absurd hzF hz
  · simp only [hz0, if_false]
    have hzF : (a.z : Fp) ≠ 0 := fun h0 => hz0 ((cast_eq_zero_iff h.rz).1 h0)
    rcases h.den with ⟨hz, _⟩ | ⟨_, rfl⟩
    · exact absurd hz hzF
    · refine ⟨?_, fmul_lt _ _, fmul_lt _ _⟩
      simp only [cT, cast_fmul, cast_finv]
      congr 1
      · field_simp
      · field_simp

/-- the loop: after the remaining `i` bits the accumulator denotes `(k >>> 0)`-multiple … stated with
the generic affine operations -/
theorem mulAux_spec (x y : Nat) (hx : x < G1.p) (hy : y < G1.p) (hc : (APt.aff (x : Fp) (y : Fp)).OnCurve (3 : Fp))
    (k : Nat) : ∀ (i : Nat) (acc : Jac) (Q : APt Fp), JRep acc Q → Q.OnCurve (3 : Fp) →
      ∃ Q', JRep (mulAux x y k i acc) Q' ∧ Q'.OnCurve (3 : Fp) ∧
        toPoint 3 Q' = (2 ^ i) • toPoint 3 Q + (k % 2 ^ i) • toPoint 3 (APt.aff (x : Fp) (y : Fp)) := by
  intro i
  induction i with
  | zero =>
    intro acc Q h hq
    exact ⟨Q, h, hq, by simp [Nat.mod_one]⟩
  | succ i ih =>
    intro acc Q h hq
    unfold mulAux
    have hd := jrep_dbl acc Q h
    obtain ⟨hdc, hdp⟩ := adbl_spec good3 Q hq
    by_cases hb : k.testBit i = true
    · simp only [hb, if_true]
      have ha := jrep_addAff acc.dbl _ hd x y hx hy
      obtain ⟨hac, hap⟩ := aadd_spec good3 _ (APt.aff (x : Fp) (y : Fp)) hdc hc
      obtain ⟨Q', h1, h2, h3⟩ := ih _ _ ha hac
      refine ⟨Q', h1, h2, ?_⟩
      rw [h3, hap, hdp]
      have hk : k % 2 ^ (i + 1) = 2 ^ i + k % 2 ^ i := by
        rw [Nat.mod_pow_succ]
        have : k / 2 ^ i % 2 = 1 := by
          rw [Nat.testBit_eq_decide_div_mod_eq] at hb; simpa using hb
        rw [this]; ring
      rw [hk, pow_succ, mul_nsmul', two_nsmul, nsmul_add, add_nsmul, add_assoc]
    · simp only [hb, Bool.false_eq_true, if_false]
      obtain ⟨Q', h1, h2, h3⟩ := ih _ _ hd hdc
      refine ⟨Q', h1, h2, ?_⟩
      rw [h3, hdp]
      have hk : k % 2 ^ (i + 1) = k % 2 ^ i := by
        rw [Nat.mod_pow_succ]
        have : k / 2 ^ i % 2 = 0 := by
          have hb' : k.testBit i = false := by simpa using hb
          rw [Nat.testBit_eq_decide_div_mod_eq] at hb'
          have := Nat.mod_two_eq_zero_or_one (k / 2 ^ i)
          rcases this with h0 | h1
          · exact h0
          · simp [h1] at hb'
        rw [this]; ring
      rw [hk, pow_succ, mul_nsmul', two_nsmul]

/-- **the driver's scalar multiplication is `k •` in `E(F_p)`**, and stays valid -/
theorem mul_spec (k : Nat) (P : Pt) (hP : Valid P) :
    Valid (G1.mul k P) ∧ toPoint 3 (cT (G1.mul k P)) = k • toPoint 3 (cT P) := by
  cases P with
  | inf => exact ⟨trivial, by simp [G1.mul, cT, toPoint]⟩
  | aff x y =>
    obtain ⟨hx, hy, hcv⟩ := hP
    have hc : (APt.aff (x : Fp) (y : Fp)).OnCurve (3 : Fp) := (onCurve_iff x y).1 hcv
    have h0 : JRep ⟨0, 1, 0⟩ .inf := ⟨by decide, by decide, by decide, Or.inl ⟨by simp, rfl⟩⟩
    obtain ⟨Q', h1, h2, h3⟩ := mulAux_spec x y hx hy hc k (k.log2 + 1) ⟨0, 1, 0⟩ .inf h0 trivial
    obtain ⟨e, hr⟩ := jrep_toPt _ _ h1
    have hmod : k % 2 ^ (k.log2 + 1) = k := Nat.mod_eq_of_lt Nat.lt_log2_self
    have hval : toPoint 3 (cT (G1.mul k (.aff x y))) = k • toPoint 3 (cT (.aff x y)) := by
      show toPoint 3 (cT (mulAux x y k (k.log2 + 1) ⟨0, 1, 0⟩).toPt) = _
      rw [e, h3, hmod]
      have hz : toPoint (3 : Fp) APt.inf = 0 := rfl
      rw [hz, nsmul_zero, zero_add]
      rfl
    refine ⟨?_, hval⟩
    show Valid (mulAux x y k (k.log2 + 1) ⟨0, 1, 0⟩).toPt
    cases hres : (mulAux x y k (k.log2 + 1) ⟨0, 1, 0⟩).toPt with
    | inf => trivial
    | aff x' y' =>
      rw [hres] at hr e
      rw [← e] at h2
      exact ⟨hr.1, hr.2, (onCurve_iff x' y').2 h2⟩

end Dos.Compose.TG1

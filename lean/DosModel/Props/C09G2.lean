/-
C09 on the PRODUCTION point group (review B #4): the theorems of `Props/C09.lean`, stated there for every
field `F` and every `F`-module `G`, instantiated at `F = Zq r` (the scalars the driver computes with, a
field because `r` is proved prime) and `G = G2v` = the valid values of the model's bn256 G2 with the
model's OWN `G2.add / G2.neg / G2.smul` (`Proofs/ShareG2.lean`: an `AddCommGroup` and a `Zq r`-module, no
hypothesis left – the torsion `r • P = O` is part of `G2.valid`, i.e. of what `UnmarshalBinary` accepts).
The `_val` forms spell the conclusions with the raw model operations of `twist.go`.

Ed25519: the kyber point type is NOT a module over `Zq ℓ` (cofactor 8); the abstract theorems apply to
the prime-order subgroup `⟨B⟩` only (every point the suite's `Point().Mul(s, nil)`, `Commit`, `Eval`,
`RecoverCommit` produce from points of `⟨B⟩` stays in it).  That restriction is an assumption of C09
(meta), the correspondence run offers commitments with a small-order component (`tors` lines) and demands
that `Check` accepts no share value against them.
-/
import DosModel.Props.C09
import DosModel.Props.C09Compose
import DosModel.Proofs.ShareG2

set_option linter.unusedSectionVars false

namespace Dos.Props.C09G2
open Dos Dos.Share Dos.Bn256 Dos.ShareG2 Dos.Props.C09Compose

/-- every share count a Go program can hold is below the order -/
theorem charGt_g2 (n : Nat) (hn : n < 2 ^ 63) : CharGt (Zq Share.bn256Order) n :=
  charGt_bn256 n (go_int_below_orders n hn).1

/-- **`RecoverCommit` on bn256 G2**: any slice whose usable entries are the public shares
`f(i+1) • B` (`B` any valid G2 point) and in which `≥ t ≥ len f` distinct indices occur gives `f(0) • B` -/
theorem recoverCommit_correct_g2 (dp : Bool) (f : List (Zq Share.bn256Order)) (B : G2v) (t n : Nat)
    (hf : f.length ≤ t) (hn : n < 2 ^ 63) (shares : List (Option (PubShare G2v)))
    (hval : ∀ iv ∈ shares.filterMap (usablePub n), iv.2 = priEval f iv.1 • B)
    (hcnt : t ≤ (idxPub n shares).card) :
    recoverCommit (S := Zq Share.bn256Order) dp shares t n = .ok (f.headD 0 • B) :=
  Props.C09.recoverCommit_correct dp f B t n hf (charGt_g2 n hn) shares hval hcnt

/-- … with the conclusion in the model's raw operations: the recovered value is
`G2.smul f(0) B` of `twist.go`'s arithmetic -/
theorem recoverCommit_correct_g2_val (dp : Bool) (f : List (Zq Share.bn256Order)) (B : G2v) (t n : Nat)
    (hf : f.length ≤ t) (hn : n < 2 ^ 63) (shares : List (Option (PubShare G2v)))
    (hval : ∀ iv ∈ shares.filterMap (usablePub n), iv.2 = priEval f iv.1 • B)
    (hcnt : t ≤ (idxPub n shares).card) :
    ∃ c : G2v, recoverCommit (S := Zq Share.bn256Order) dp shares t n = .ok c
      ∧ c.1 = G2.smul (f.headD 0).val B.1 :=
  ⟨_, recoverCommit_correct_g2 dp f B t n hf hn shares hval hcnt, rfl⟩

/-- **never a panic on bn256 G2**, any slice of valid points -/
theorem recoverCommit_never_panics_g2 (dp : Bool) (t n : Nat) (hn : n < 2 ^ 63)
    (shares : List (Option (PubShare G2v))) (s : Site) :
    recoverCommit (S := Zq Share.bn256Order) dp shares t n ≠ .panic s := by
  rcases recoverCommit_no_panic (F := Zq Share.bn256Order) dp t n (charGt_g2 n hn) shares with h | ⟨v, h⟩
    <;> rw [h] <;> simp

/-- **`PubPoly.Eval` of a commitment on G2** is the commitment of the private share -/
theorem pubEval_commit_g2 (p : PriPoly (Zq Share.bn256Order)) (B : G2v) (i : Int) :
    pubEval (Zq Share.bn256Order) (commit p B).commits i = priEval p.coeffs i • B :=
  Props.C09.pubEval_commit p B i

/-- **`Check` on G2 accepts exactly the true share value**, for every non-identity valid base (hypothesis
`hb` of `check_iff` discharged: the order is prime) -/
theorem check_iff_g2 (p : PriPoly (Zq Share.bn256Order)) (B : G2v) (hB : B ≠ 0) (i : Int)
    (v : Zq Share.bn256Order) :
    check (Zq Share.bn256Order) (commit p B) i v = true ↔ v = priEval p.coeffs i :=
  Props.C09.check_iff p B (smul_eq_zero_imp B hB) i v

/-- **`Add` is homomorphic on G2 commitments** -/
theorem commit_add_g2 (p q r : PriPoly (Zq Share.bn256Order)) (h : priAdd p q = .ok r) (B : G2v) :
    pubAdd (commit p B) (commit q B) = .ok (commit r B) :=
  Props.C09.commit_add p q r h B

/-! ### non-vacuity: `f = 5 + 7x` over the real scalar field, base = the generator of G2, public shares
of members 1, 1 (repeated) and 0 with junk: `t = 2` distinct indices -/

private def fr : List (Zq Share.bn256Order) := [5, 7]

private noncomputable def exShares : List (Option (PubShare G2v)) :=
  [some ⟨1, some (priEval fr 1 • ShareG2.gen)⟩, none, some ⟨1, some (priEval fr 1 • ShareG2.gen)⟩,
   some ⟨5, some ShareG2.gen⟩, some ⟨0, some (priEval fr 0 • ShareG2.gen)⟩]

example : recoverCommit (S := Zq Share.bn256Order) true exShares 2 3
      = .ok ((5 : Zq Share.bn256Order) • ShareG2.gen) :=
  recoverCommit_correct_g2 true fr ShareG2.gen 2 3 (by decide) (by norm_num) exShares
    (by
      intro iv hiv
      simp only [exShares, List.filterMap_cons, List.filterMap_nil, usablePub] at hiv
      simp at hiv
      rcases hiv with rfl | rfl | rfl <;> rfl)
    (by
      have : (exShares.filterMap (usablePub 3)).map (·.1) = [1, 1, 0] := rfl
      unfold idxPub; rw [this]; decide)

example : check (Zq Share.bn256Order) (commit ⟨0, fr⟩ ShareG2.gen) 1 v = true ↔ v = priEval fr 1 :=
  check_iff_g2 ⟨0, fr⟩ ShareG2.gen gen_ne_zero 1 v

example : ((5 : Zq Share.bn256Order) • ShareG2.gen).1 = G2.smul (5 : Zq Share.bn256Order).val g2gen :=
  smul_val _ _

end Dos.Props.C09G2

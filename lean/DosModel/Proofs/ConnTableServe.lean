import DosModel.Proofs.ConnTableTab

/-! A request to a peer with which no connection is registered on either side is served over a
new connection; which table entries an event can touch. -/
set_option linter.unusedSimpArgs false
namespace Dos.ConnTable
open Dos

theorem lookupN_head (ν : Nonce) (i : Nat) (rest : List (Nonce × Nat)) : lookupN ((ν, i) :: rest) ν = some i := by
  simp [lookupN, List.find?]

/-- the four steps of one served request on a fresh connection -/
def serveEvs (s : Net) (a b : Nat) : List Ev :=
  [.request a b (some b), .deliverReq s.nconn, .appReply b (s.nodes b).held.length, .deliverReply s.nconn]

theorem refused_good_false (s : Net) (a b : Nat) (hi : s.ideal b = true ∨ (s.nodes b).inb a = none) :
    refused Cfg.good s a b = false := by
  simp only [refused, Cfg.good, keyVal]
  rcases hi with h | h
  · simp [h]
  · simp [h]

theorem served_on_fresh_connection (s : Net) (a b : Nat)
    (ho : (s.nodes a).out b = none) (hi : s.ideal b = true ∨ (s.nodes b).inb a = none) :
    ((run Cfg.good s (serveEvs s a b)).reqs s.nreq).out = .got s.nreq := by
  have href := refused_good_false s a b hi
  have href0 : refused Cfg.good (newReq s a b) a b = false := href
  -- step 1: the request opens connection `s.nconn`
  have h1 : step Cfg.good s (.request a b (some b)) =
      hand Cfg.good (openConn Cfg.good (newReq s a b) a b b) s.nreq s.nconn := by
    simp only [step, ho]
    have : (Cfg.good.idMatch && b != b) = false := by simp [Cfg.good]
    simp only [this, Bool.false_eq_true, if_false, href0]
  generalize hs0 : openConn Cfg.good (newReq s a b) a b b = s0 at h1
  have hc0 : s0.conns s.nconn = mkConn Cfg.good (newReq s a b) a b b := by
    rw [← hs0, openConn_conns]; simp
  have hcl : (s0.conns s.nconn).clD = false := by rw [hc0]; rfl
  obtain ⟨ν, hν⟩ : ∃ ν, ν = nonceFor Cfg.good s0 s.nconn := ⟨_, rfl⟩
  have hF : handF Cfg.good s0 s.nreq s.nconn = fun x =>
      { x with next := x.next + 1, pend := (ν, s.nreq) :: x.pend,
               reqQ := if x.up then x.reqQ ++ [(ν, s.nreq)] else x.reqQ } := by rw [hν]; rfl
  have h1' : step Cfg.good s (.request a b (some b)) =
      (s0.setConn s.nconn (handF Cfg.good s0 s.nreq s.nconn)).setReq s.nreq
        (fun r => { r with conn := some s.nconn, nonce := some ν }) := by
    rw [h1, hand_open _ _ _ _ hcl, ← hν]
  generalize hs1 : step Cfg.good s (.request a b (some b)) = s1 at h1'
  have hn1 : s1.nconn = s.nconn + 1 := by rw [h1']; simp [← hs0]
  have hk1 : s1.conns s.nconn = handF Cfg.good s0 s.nreq s.nconn (mkConn Cfg.good (newReq s a b) a b b) := by
    rw [h1']; simp [hc0]
  have hup : (mkConn Cfg.good (newReq s a b) a b b).up = true := by simp [mkConn, href0]
  have hq1 : (s1.conns s.nconn).reqQ = [(ν, s.nreq)] := by
    rw [hk1, hF]; simp only [hup, if_true]; simp [mkConn]
  have hp1 : (s1.conns s.nconn).pend = [(ν, s.nreq)] := by rw [hk1, hF]; simp [mkConn]
  have hr1 : (s1.conns s.nconn).repQ = [] := by rw [hk1, hF]; simp [mkConn]
  have hflags1 : (s1.conns s.nconn).regA = true ∧ (s1.conns s.nconn).clA = false ∧ (s1.conns s.nconn).clD = false ∧
      (s1.conns s.nconn).up = true ∧ (s1.conns s.nconn).a = b ∧ (s1.conns s.nconn).d = a := by
    rw [hk1, hF]; simp [mkConn, href0]
  have hreq1 : (s1.reqs s.nreq).out = .waiting := by
    rw [h1']; simp [← hs0, newReq_reqs]
  have hheld1 : (s1.nodes b).held = (s.nodes b).held := by
    rw [h1']; simp only [setReq_nodes, setConn_nodes, ← hs0]; rw [openConn_held]; rfl
  have hinb1 : s.ideal b = false → (s1.nodes b).inb a = some s.nconn := by
    intro hib
    rw [h1']; simp only [setReq_nodes, setConn_nodes, ← hs0]
    rw [openConn_good_inb]
    have : (b = b ∧ ((newReq s a b).ideal b || refused Cfg.good (newReq s a b) a b) = false) := by
      refine ⟨rfl, ?_⟩; simp [hib, href0]
    rw [if_pos this]; simp [setTab]
  have hideal1 : s1.ideal = s.ideal := by rw [h1']; simp [← hs0]
  -- step 2: the frame reaches b's application
  have h2 : step Cfg.good s1 (.deliverReq s.nconn) =
      (s1.setConn s.nconn (fun x => { x with reqQ := [] })).setNode b
        (fun n => { n with held := n.held ++ [{ conn := s.nconn, sender := a, nonce := ν, g := s.nreq }] }) := by
    simp only [step, hn1, Nat.lt_succ_self, if_true, hq1]
    simp [hflags1.1, hflags1.2.1, hflags1.2.2.2.2.1, hflags1.2.2.2.2.2]
  generalize hs2 : step Cfg.good s1 (.deliverReq s.nconn) = s2 at h2
  have hheld2 : (s2.nodes b).held = (s.nodes b).held ++ [{ conn := s.nconn, sender := a, nonce := ν, g := s.nreq }] := by
    rw [h2]; simp [hheld1]
  have hk2 : s2.conns s.nconn = { s1.conns s.nconn with reqQ := [] } := by rw [h2]; simp
  have hinb2 : (s2.nodes b).inb = (s1.nodes b).inb := by rw [h2]; simp
  have hideal2 : s2.ideal = s.ideal := by rw [h2]; simp [hideal1]
  -- step 3: b's application answers; the reply is written on that connection
  have hget : (s2.nodes b).held[(s.nodes b).held.length]? = some { conn := s.nconn, sender := a, nonce := ν, g := s.nreq } := by
    rw [hheld2]; simp
  have htarget : (if s2.ideal b = true then some s.nconn else (s2.nodes b).inb a) = some s.nconn := by
    cases hib : s.ideal b
    · rw [hideal2, hib]; simp only [Bool.false_eq_true, if_false]; rw [hinb2]; exact hinb1 hib
    · rw [hideal2, hib]; simp
  have h3 : step Cfg.good s2 (.appReply b (s.nodes b).held.length) =
      (s2.setNode b (fun n => { n with held := n.held.eraseIdx (s.nodes b).held.length })).setConn s.nconn
        (fun y => { y with repQ := y.repQ ++ [(ν, s.nreq)] }) := by
    simp only [step, hget, htarget]
    simp [hk2, hflags1.2.1, hflags1.2.2.2.1]
  generalize hs3 : step Cfg.good s2 (.appReply b (s.nodes b).held.length) = s3 at h3
  have hk3 : s3.conns s.nconn = { s1.conns s.nconn with reqQ := [], repQ := [(ν, s.nreq)] } := by
    rw [h3]; simp [hk2, hr1]
  have hn3 : s3.nconn = s.nconn + 1 := by rw [h3, h2]; simp [hn1]
  have hreq3 : s3.reqs = s1.reqs := by rw [h3, h2]; simp
  -- step 4: the reply reaches a's dispatch
  have h4 : ((step Cfg.good s3 (.deliverReply s.nconn)).reqs s.nreq).out = .got s.nreq := by
    simp only [step, hn3, Nat.lt_succ_self, if_true, hk3]
    simp [hflags1.2.2.1, hp1, lookupN_head, hreq3, hreq1]
  simp only [run, serveEvs, List.foldl_cons, List.foldl_nil]
  rw [hs1, hs2, hs3]; exact h4

/-! ### which table entries an event can touch -/

/-- does event `e` concern node `n`'s table entries for peer `p`? -/
def touches (s : Net) (e : Ev) (n p : Nat) : Bool :=
  match e with
  | .request a b _ => (n == a && p == b) || (n == b && p == a)
  | .procRm m k => n == m && (match (s.nodes m).rm[k]? with
      | some (_, id) => id == p
      | none => false)
  | .disconnect a b => n == a && p == b
  | .reset m => n == m
  | _ => false

theorem retAtD_tabs (cfg : Cfg) (s : Net) (c n : Nat) :
    ((retAtD cfg s c).nodes n).out = (s.nodes n).out ∧ ((retAtD cfg s c).nodes n).inb = (s.nodes n).inb := by
  rw [retAtD_nodes]; split <;> exact ⟨rfl, rfl⟩

theorem retAtA_tabs (cfg : Cfg) (s : Net) (c n : Nat) :
    ((retAtA cfg s c).nodes n).out = (s.nodes n).out ∧ ((retAtA cfg s c).nodes n).inb = (s.nodes n).inb := by
  rw [retAtA_nodes]; split <;> exact ⟨rfl, rfl⟩

theorem setNode_tabs (s : Net) (m : Nat) (f : Node → Node) (n : Nat)
    (ho : (f (s.nodes m)).out = (s.nodes m).out) (hi : (f (s.nodes m)).inb = (s.nodes m).inb) :
    ((s.setNode m f).nodes n).out = (s.nodes n).out ∧ ((s.setNode m f).nodes n).inb = (s.nodes n).inb := by
  rw [setNode_nodes]; split
  · rename_i h; subst h; exact ⟨ho, hi⟩
  · exact ⟨rfl, rfl⟩

theorem tables_untouched (s : Net) (e : Ev) (n p : Nat) (h : touches s e n p = false) :
    ((step Cfg.good s e).nodes n).out p = (s.nodes n).out p ∧ ((step Cfg.good s e).nodes n).inb p = (s.nodes n).inb p := by
  cases e <;> simp only [step]
  case request a b dial =>
    simp only [touches, Bool.or_eq_false_iff, Bool.and_eq_false_iff, beq_eq_false_iff_ne] at h
    split
    · simp
    · split
      · simp
      · rename_i x
        split
        · simp
        · rename_i hx
          have hxb : x = b := by
            simp only [Cfg.good, Bool.true_and, bne_iff_ne, ne_eq, Decidable.not_not] at hx; exact hx
          subst hxb
          have key : ((openConn Cfg.good (newReq s a x) a x x).nodes n).out p = (s.nodes n).out p ∧
              ((openConn Cfg.good (newReq s a x) a x x).nodes n).inb p = (s.nodes n).inb p := by
            rw [openConn_good_out, openConn_good_inb]
            constructor
            · by_cases hna : n = a
              · have hp : p ≠ x := by
                  rcases h.1 with h' | h'
                  · exact absurd hna h'
                  · exact h'
                rw [if_pos hna]; simp [setTab, hp]
              · rw [if_neg hna]; rfl
            · by_cases hc : n = x ∧ ((newReq s a x).ideal x || refused Cfg.good (newReq s a x) a x) = false
              · have hp : p ≠ a := by
                  rcases h.2 with h' | h'
                  · exact absurd hc.1 h'
                  · exact h'
                rw [if_pos hc]; simp [setTab, hp]
              · rw [if_neg hc]; rfl
          split
          · rw [(retAtD_tabs _ _ _ n).1, (retAtD_tabs _ _ _ n).2]; simpa using key
          · simpa using key
  case deliverReq c =>
    split
    · split
      · exact ⟨rfl, rfl⟩
      · split
        · have := setNode_tabs (s.setConn c (fun x => { x with reqQ := ‹List (Nonce × Nat)› })) (s.conns c).a
            (fun nd => { nd with held := nd.held ++ [{ conn := c, sender := (s.conns c).d, nonce := ‹Nonce›, g := ‹Nat› }] }) n rfl rfl
          rw [this.1, this.2]; exact ⟨rfl, rfl⟩
        · exact ⟨rfl, rfl⟩
    · exact ⟨rfl, rfl⟩
  case appReply b k =>
    split
    · exact ⟨rfl, rfl⟩
    · have h1 := setNode_tabs s b (fun nd => { nd with held := nd.held.eraseIdx k }) n rfl rfl
      split
      · rw [h1.1, h1.2]; exact ⟨rfl, rfl⟩
      · split
        · rw [h1.1, h1.2]; exact ⟨rfl, rfl⟩
        · simp only [setConn_nodes]; rw [h1.1, h1.2]; exact ⟨rfl, rfl⟩
  case deliverReply c =>
    split
    · split
      · exact ⟨rfl, rfl⟩
      · split
        · exact ⟨rfl, rfl⟩
        · split
          · exact ⟨rfl, rfl⟩
          · split <;> exact ⟨rfl, rfl⟩
    · exact ⟨rfl, rfl⟩
  case cut c =>
    split
    · rw [(retAtA_tabs _ _ _ n).1, (retAtA_tabs _ _ _ n).2, (retAtD_tabs _ _ _ n).1, (retAtD_tabs _ _ _ n).2]
      exact ⟨rfl, rfl⟩
    · exact ⟨rfl, rfl⟩
  case reject c atD =>
    split
    · split
      · split
        · exact ⟨rfl, rfl⟩
        · rw [(retAtD_tabs _ _ _ n).1, (retAtD_tabs _ _ _ n).2]; exact ⟨rfl, rfl⟩
      · split
        · exact ⟨rfl, rfl⟩
        · rw [(retAtA_tabs _ _ _ n).1, (retAtA_tabs _ _ _ n).2]; exact ⟨rfl, rfl⟩
    · exact ⟨rfl, rfl⟩
  case close c atD =>
    split
    · split
      · split
        · exact ⟨rfl, rfl⟩
        · rw [(retAtD_tabs _ _ _ n).1, (retAtD_tabs _ _ _ n).2]; exact ⟨rfl, rfl⟩
      · split
        · exact ⟨rfl, rfl⟩
        · rw [(retAtA_tabs _ _ _ n).1, (retAtA_tabs _ _ _ n).2]; exact ⟨rfl, rfl⟩
    · exact ⟨rfl, rfl⟩
  case procRm m k =>
    split
    · exact ⟨rfl, rfl⟩
    · rename_i isCall id hk
      simp only [touches, hk, Bool.and_eq_false_iff, beq_eq_false_iff_ne] at h
      rw [setNode_nodes]; split
      · rename_i hnm
        have hp : p ≠ id := by
          rcases h with h' | h'
          · exact absurd hnm h'
          · exact fun e => h' e.symm
        subst hnm
        split <;> simp [setTab, hp]
      · exact ⟨rfl, rfl⟩
  case disconnect a b =>
    simp only [touches, Bool.and_eq_false_iff, beq_eq_false_iff_ne] at h
    rw [setNode_nodes]; split
    · rename_i hna
      have hp : p ≠ b := by
        rcases h with h' | h'
        · exact absurd hna h'
        · exact h'
      simp [setTab, hp]
    · exact ⟨rfl, rfl⟩
  case expire i => split <;> exact ⟨rfl, rfl⟩
  case reset m =>
    simp only [touches, beq_eq_false_iff_ne] at h
    simp [h]

end Dos.ConnTable

/-
Montgomery reduction on numbers (`Model/Bn256.lean` `redc`, what `gfpMul` computes): the result is
always below p, so every coordinate `MarshalBinary` emits (a `montDecode` output) is canonical.
Core Lean only.
-/
import DosModel.Model.Codec
import DosModel.Proofs.Codec

namespace Dos.Bn256
open Dos Dos.Codec Dos.CodecBytes

theorem R_pos : 0 < R := by decide
theorem p_lt_R : p < R := by decide

/-- `redc T < p` for EVERY `T < R·p` — in particular for `T = a·b` with `a < 2^256` arbitrary
(unreduced limbs) and `b < p`, and for `T = a·1` (`montDecode`) -/
theorem redc_lt (T : Nat) (h : T < R * p) : redc T < p := by
  unfold redc
  generalize hm : T % R * np % R = m
  have hmR : m < R := by rw [← hm]; exact Nat.mod_lt _ R_pos
  have hmp : m * p < R * p := Nat.mul_lt_mul_of_lt_of_le hmR (Nat.le_refl p) Dos.Codec.p_pos
  have e2 : 2 * p * R = R * p + R * p := by
    rw [Nat.mul_assoc, Nat.two_mul, Nat.mul_comm p R]
  have hu : (T + m * p) / R < 2 * p := by
    rw [Nat.div_lt_iff_lt_mul R_pos, e2]; omega
  simp only []
  split <;> omega

/-- every limb quadruple (any number below 2^256) decodes to a canonical coordinate -/
theorem montDecode_lt (a : Nat) (h : a < R) : montDecode a < p := by
  unfold montDecode
  apply redc_lt
  rw [Nat.mul_one]
  calc a < R := h
    _ = R * 1 := (Nat.mul_one R).symm
    _ ≤ R * p := Nat.mul_le_mul_left R Dos.Codec.p_pos

/-- what `UnmarshalBinary` stores (`montEncode` of any 256-bit number read) is a reduced limb value -/
theorem montEncode_lt (x : Nat) (h : x < R) : montEncode x < p := by
  unfold montEncode
  apply redc_lt
  have : r2 < p := by decide
  calc x * r2 < R * r2 := Nat.mul_lt_mul_of_lt_of_le h (Nat.le_refl _) (by decide)
    _ ≤ R * p := Nat.mul_le_mul_left R (Nat.le_of_lt this)

end Dos.Bn256

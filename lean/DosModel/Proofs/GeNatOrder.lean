/-
C20 (round 4) — the Ed25519 base point has order dividing ℓ:  ℓ • B = 0  in the curve group `Pt = Point E25519`.

`Ed.smul ell Ed.base` (252 doublings and the additions of the set bits of ℓ, on naturals modulo 2^255 − 19) is
EVALUATED BY THE KERNEL (`decide +kernel`, GMP arithmetic on literals); `nrep_smul` (Proofs/GeNatArith.lean) says the
result represents ℓ • B, and the evaluated result (X ≡ 0, Y ≡ Z mod p) represents the identity.
Together with the primality of ℓ (`Primes.ed25519_l_prime`) and `basePt_ne_zero`, the order of B is exactly ℓ
(`base_order`, `smul_base_eq_zero_iff`).
-/
import Mathlib.GroupTheory.OrderOfElement
import DosModel.Proofs.GeNatArith

set_option exponentiation.threshold 600

namespace Dos.Ge
open Dos Dos.Ed25519 Dos.Ed25519Prime Dos.Edwards

/-- the kernel's evaluation of ℓ•B on naturals: the result is (0 : Z : Z : _) modulo p -/
theorem ell_smul_base_nat :
    (Dos.Ed.smul Dos.Ed25519.ell Dos.Ed.base).X % Dos.Ed.p = 0 ∧
    (Dos.Ed.smul Dos.Ed25519.ell Dos.Ed.base).Y % Dos.Ed.p = (Dos.Ed.smul Dos.Ed25519.ell Dos.Ed.base).Z % Dos.Ed.p := by
  decide +kernel

/-- ℓ • B = 0 -/
theorem ell_smul_base : Dos.Ed25519.ell • basePt = 0 :=
  (nrep_smul Dos.Ed25519.ell nrep_base).eq_zero_of ell_smul_base_nat.1 ell_smul_base_nat.2

/-- multiples of B depend on the scalar modulo ℓ only -/
theorem smul_base_mod (n : ℕ) : (n % Dos.Ed25519.ell) • basePt = n • basePt := by
  conv_rhs => rw [← Nat.mod_add_div n Dos.Ed25519.ell]
  rw [add_nsmul, mul_nsmul, ell_smul_base, smul_zero, add_zero]

theorem ell_prime : Nat.Prime Dos.Ed25519.ell := Dos.Primes.ed25519_l_prime

/-- the order of B is exactly ℓ -/
theorem base_order : addOrderOf basePt = Dos.Ed25519.ell :=
  haveI : Fact (Nat.Prime Dos.Ed25519.ell) := ⟨ell_prime⟩
  addOrderOf_eq_prime ell_smul_base basePt_ne_zero

theorem smul_base_eq_zero_iff (n : ℕ) : n • basePt = 0 ↔ Dos.Ed25519.ell ∣ n := by
  rw [← base_order]; exact addOrderOf_dvd_iff_nsmul_eq_zero.symm

end Dos.Ge

#print axioms Dos.Ge.ell_smul_base
#print axioms Dos.Ge.base_order

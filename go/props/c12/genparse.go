package c12

import (
	"fmt"
	"strings"

	"verifharness/internal/h"
)

// documents and selectors for dataParse (ajson JSONPath for "$…", xmlquery XPath for "/…")

func jsonVal(r *h.Rng, depth int) string {
	if depth <= 0 {
		return pick(r, "1", "-0", "1e400", "1.5", "\"s\"", "\"\\u00e9\\n\"", "true", "false", "null", "\"\"", "12345678901234567890", "\"\\ud800\"")
	}
	switch r.Intn(4) {
	case 0:
		var xs []string
		for i := r.Intn(4); i > 0; i-- {
			xs = append(xs, jsonVal(r, depth-1))
		}
		return "[" + strings.Join(xs, ",") + "]"
	case 1, 2:
		var xs []string
		for i := r.Intn(4); i > 0; i-- {
			xs = append(xs, fmt.Sprintf("%q:%s", pick(r, "a", "b", "c", "", "a.b", "x y", "length", "0", "é"), jsonVal(r, depth-1)))
		}
		return "{" + strings.Join(xs, ",") + "}"
	}
	return jsonVal(r, 0)
}

func jsonPath(r *h.Rng) string {
	s := "$"
	for i := r.Intn(6); i > 0; i-- {
		s += pick(r, ".a", ".b", "..a", ".*", "[0]", "[-1]", "[*]", "[1:]", "[:2]", "[0:3:2]", "[::-1]", "['a']", "[\"b\"]", "['a','b']", "[0,1]",
			"[?(@.a)]", "[?(@.a > 1)]", "[?(@.b == 's')]", "[?(@.a =~ /x/)]", "[?(@.length > 0)]", "[(@.length-1)]", ".length", ".length()", "..", ".",
			"[99999999999999999999]", "[-99999999]", "[1:99999999999]", "[?(@ % 0)]", "[?(1/0)]", "[?(@.a / @.b)]", "[?(@ ** 9999)]", "[?(!@)]",
			"[", "]", "[?(", ")]", "['", "\"", "$", "@", ".a.b.c.d", "[?(@.a && @.b || !@.c)]", "[?(@..a)]", "[?(sin(@.a))]", "[?(factorial(@.a))]", "[?(@.a << 70)]")
	}
	return s
}

func xmlDoc(r *h.Rng, depth int) string {
	tag := pick(r, "a", "b", "c", "ns:d", "A")
	attr := ""
	if r.Intn(3) == 0 {
		attr = fmt.Sprintf(" %s=\"%s\"", pick(r, "id", "x", "xmlns:ns"), pick(r, "1", "", "a&amp;b", "http://x"))
	}
	if depth <= 0 || r.Intn(4) == 0 {
		return pick(r, fmt.Sprintf("<%s%s/>", tag, attr), fmt.Sprintf("<%s%s>t&lt;xt</%s>", tag, attr, tag), "<![CDATA[ x ]]>", "<!-- c -->", "text", "&#65;", "<?pi x?>")
	}
	var kids []string
	for i := 1 + r.Intn(3); i > 0; i-- {
		kids = append(kids, xmlDoc(r, depth-1))
	}
	return fmt.Sprintf("<%s%s>%s</%s>", tag, attr, strings.Join(kids, ""), tag)
}

func xpath(r *h.Rng) string {
	s := ""
	for i := 1 + r.Intn(5); i > 0; i-- {
		s += pick(r, "/a", "/b", "//a", "//b", "/*", "//*", "/a[1]", "/a[0]", "/a[-1]", "/a[last()]", "/a[position()>1]", "/a[@id]", "/a[@id='1']", "//@id", "/text()", "/node()", "/..", "/.",
			"/a[b]", "/a[count(b)>0]", "/a|/b", "/a[", "/a]", "/[", "/a[@", "/a[1 div 0]", "/a[1 mod 0]", "/a[99999999999999999999]", "/ns:d", "/a[contains(.,'t')]", "/a[substring(.,1,99999999999)]",
			"/a[substring(.,-5,3)]", "/a[string-length()>1]", "/a[sum(b)]", "/a[number(.)]", "/a[not(", "/child::a", "/descendant-or-self::node()", "/following-sibling::*", "/parent::*", "/a[name()='a']", "/a[boolean(1)]", "/a[concat('a')]")
	}
	if !strings.HasPrefix(s, "/") {
		s = "/" + s
	}
	return s
}

func genParse(rng *h.Rng, emit func(string), count int) {
	emitP := func(sel, doc string) { emit("fzparse " + h.Hex([]byte(sel)) + " " + h.Hex([]byte(doc))) }
	emitP("", "anything")
	emitP("$.a", `{"a":1}`)
	emitP("/a/b", `<a><b>1</b></a>`)
	emitP("$", "")
	emitP("/", "")
	emitP("$..*", `{"a":[1,{"b":[2,3,{"c":null}]}]}`)
	emitP("x", "neither kind of selector")
	emitP("$"+strings.Repeat("[0]", 2000), strings.Repeat("[", 2000)+strings.Repeat("]", 2000))
	emitP("$"+strings.Repeat("..a", 12), strings.Repeat(`{"a":`, 12)+"1"+strings.Repeat("}", 12))
	emitP(strings.Repeat("//a", 6), strings.Repeat("<a>", 6)+"1"+strings.Repeat("</a>", 6))
	emitP(strings.Repeat("/a", 1500), strings.Repeat("<a>", 1500)+strings.Repeat("</a>", 1500))
	// ill-typed expressions: every binary operator of the two expression languages applied to every pair of
	// operand kinds (number, string, boolean, attribute / member, node-set / container, context, function
	// result, null), as a predicate that IS evaluated on the document. The evaluators convert operands through
	// reflection and panic with values of several Go types (error, runtime.Error, string, ...): whatever
	// the recovery in dataParse does with the recovered value must work for all of them.
	xdoc := `<a><b x="1">t</b><b x="2">2</b><c/></a>`
	xopnd := []string{"1", "'x'", "true()", "@x", "c", ".", "count(c)", "string(@x)", "/a/b"}
	for _, op := range []string{"+", "-", "*", "div", "mod", "=", "!=", "<", ">=", "and", "or", "|"} {
		for _, l := range xopnd {
			for _, r := range xopnd {
				emitP("/a/b["+l+" "+op+" "+r+"]", xdoc)
			}
		}
	}
	for _, f := range []string{"-'x'", "-@x", "-true()", "sum('x')", "sum(1)", "count(1)", "count('x')", "number(c)", "floor('x')", "round(@x)", "ceiling(true())",
		"substring(1,2)", "substring('abc','x')", "string-length(1)", "contains(1,2)", "starts-with(@x,1)", "not(1,2)", "concat(1)", "translate(1,2,3)", "normalize-space(1)", "name(1)", "local-name('x')", "lang(1)", "position('x')", "last(1)", "boolean()", "true(1)", "id(1)"} {
		emitP("/a/b["+f+"]", xdoc)
		emitP("/a/b["+f+" = 1]", xdoc)
	}
	jdoc := `[{"a":1,"s":"x","t":true,"n":null,"o":{"k":[1,2]}},{"a":2,"s":"2","t":false,"n":null,"o":[]}]`
	jopnd := []string{"1", "'x'", "true", "null", "@.a", "@.s", "@.t", "@.n", "@.o", "@", "@.missing"}
	for _, op := range []string{"+", "-", "*", "/", "%", "**", "==", "!=", "<", ">=", "&&", "||", "=~", "<<", ">>", "&", "|", "^"} {
		for _, l := range jopnd {
			for _, r := range jopnd {
				emitP("$[?("+l+" "+op+" "+r+")]", jdoc)
			}
		}
	}
	for _, f := range []string{"!@.s", "-@.s", "~@.s", "sin('x')", "length(1)", "factorial(-1)", "factorial('x')", "sqrt(-1)", "ln(0)", "not(1)", "abs(null)", "round(@.o)", "pow10(99999)", "(@.a)(1)", "@.a.b.c", "@[0]", "@['a','s']", "@.o.k[5]"} {
		emitP("$[?("+f+")]", jdoc)
		emitP("$[("+f+")]", jdoc)
	}
	for i := 0; i < count; i++ {
		if rng.Intn(2) == 0 {
			doc := jsonVal(rng, 1+rng.Intn(4))
			if rng.Intn(4) == 0 {
				doc = string(mutate(rng, []byte(doc)))
			}
			sel := jsonPath(rng)
			if rng.Intn(8) == 0 {
				sel = string(mutate(rng, []byte(sel)))
				if !strings.HasPrefix(sel, "$") {
					sel = "$" + sel
				}
			}
			emitP(sel, doc)
		} else {
			doc := xmlDoc(rng, 1+rng.Intn(4))
			if rng.Intn(4) == 0 {
				doc = string(mutate(rng, []byte(doc)))
			}
			sel := xpath(rng)
			if rng.Intn(8) == 0 {
				sel = "/" + string(mutate(rng, []byte(sel)))
			}
			emitP(sel, doc)
		}
	}
}

/-
C14 driver: one scenario line in → the set of final observations the model allows, in the
canonical form of the Go harness (go/props/c14).

  sc p=<pipeline> keep=<g,g,..> feed=<chan>#k:<prog>;.. cons=<chan>#k:<mode>;.. ctl=<op,op,..>
     pick=<site substring>:<i>;.. pre=<0|1> obs=<chan>#k;..

* `keep`  : goroutines of the regenerated pipeline (by function name prefix) that are the code under test;
* `feed`  : harness feeders of input channels (`s` send, `c` close), each started by the controller;
* `cons`  : harness consumers of output channels (`all`, `ctx`, `n<k>`);
* `ctl`   : what the harness does, each step after the system went quiet:
            `f<i>` start feeder i, `x` cancel the pipeline context, `r` release the feeders;
* `pick`  : resolve a data-dependent branch (node whose site contains the text) to its i-th successor;
* `pre=1` : the pipeline context is already done when the stage starts.
  wf <pipeline>     → the violations of the well-formedness rules on the regenerated IR
-/
import DosModel.Model.PipeExplore
import DosModel.Model.PipeWf
import DosModel.Model.PipeRun
import DosModel.Model.Util
import DosModel.Gen.PipeIR

open Dos Dos.Pipe

def kvs (ws : List String) : List (String × String) :=
  ws.filterMap fun w => match w.splitOn "=" with
    | k :: rest => if rest.isEmpty then none else some (k, String.intercalate "=" rest)
    | _ => none

def look (m : List (String × String)) (k : String) : String :=
  match m.find? (·.1 == k) with
  | some x => x.2
  | none => ""

def listOf (s : String) (sep : String) : List String :=
  if s == "" || s == "-" then [] else s.splitOn sep

/-- `<name>#k` → (name, k) -/
def nameInst (s : String) : String × Nat :=
  match s.splitOn "#" with
  | [n, k] => (n, k.toNat?.getD 0)
  | _ => (s, 0)

/-- the goroutines a `keep` entry stands for: `f` = every goroutine of function `f` (all closures),
    `f#k` = the k-th goroutine called exactly `f` -/
def keepRefs (p : Pipeline) (pre : String) : List (String × Option Nat) :=
  match pre.splitOn "#" with
  | [n, k] => [(n, some (k.toNat?.getD 0))]
  | _ =>
    let names := (p.gs.filter (fun g => g.name == pre || g.name.startsWith (pre ++ "."))).map (·.name)
    (names.foldl (fun acc n => if acc.contains n then acc else acc ++ [n]) []).map fun n => (n, none)

def consMode (s : String) : ConsMode :=
  if s == "all" then .all else if s == "ctx" then .ctx else .take ((s.drop 1).toNat?.getD 0)

def ctlOp (s : String) : Option CtlOp :=
  if s == "x" then some .cancel else if s == "r" then some .release else if s == "go" then some .go
  else if s.startsWith "f" then (s.drop 1).toNat?.map .feed else none

def specOf (p : Pipeline) (m : List (String × String)) : Spec :=
  { keep := (listOf (look m "keep") ",").flatMap (keepRefs p)
    feed := (listOf (look m "feed") ";").map fun s =>
      match s.splitOn ":" with
      | [c, prog] => (nameInst c, if prog == "-" then [] else prog.toList)
      | c :: _ => (nameInst c, [])
      | [] => (("", 0), [])
    cons := (listOf (look m "cons") ";").map fun s =>
      match s.splitOn ":" with
      | [c, mode] => (nameInst c, consMode mode)
      | c :: _ => (nameInst c, .all)
      | [] => (("", 0), .all)
    ctl := (listOf (look m "ctl") ",").filterMap ctlOp
    pick := (listOf (look m "pick") ";").filterMap fun s =>
      match s.splitOn ":" with
      | [site, i] => some (site.replace "_" " ", i.toNat?.getD 0)
      | _ => none
    obs := (listOf (look m "obs") ";").map nameInst
    pre := look m "pre" == "1" }

/-- decision texts are matched by substring in scenario lines -/
def substr (text site : String) : Bool := (text.splitOn site).length > 1

def runScenario (m : List (String × String)) : String :=
  match Gen.Pipes.all.find? (·.name == look m "p") with
  | none => "error unknown-pipeline"
  | some p0 =>
    match Scenario.ofSpec substr p0 (specOf p0 m) with
    | none => "error unresolved-name"
    | some sc =>
      let e := sc.explore
      (if e.truncated then "TRUNCATED " else "") ++ String.intercalate " | " e.finals

def runWf (name : String) : String :=
  match Gen.Pipes.all.find? (·.name == name) with
  | none => "error unknown-pipeline"
  | some p =>
    let v := violations p
    if v.isEmpty then "wf" else String.intercalate " " (v.map Violation.show)

/-- a full-pipeline line: after the deadline and the grace period nothing of the pipeline is left and
    the channels handed to the caller are closed — that is what the general theorems give when the
    regenerated IR has no violation of W0–W5 (`pipeline_can_always_terminate_and_never_crashes`) -/
def runFull (m : List (String × String)) : String :=
  match Gen.Pipes.all.find? (·.name == look m "p") with
  | none => "error unknown-pipeline"
  | some p => if (violations p).all (fun v => decide (6 ≤ v.rule)) then "clean" else "dirty"

/-- a `spin` line (upstream and caller never stop, the deadline fires while they stream): the real
    fan-in must return anyway — what `pipeline_every_fair_run_terminates` gives when the regenerated IR
    has no violation of W0–W5 -/
def runSpin (m : List (String × String)) : String :=
  match Gen.Pipes.all.find? (·.name == look m "p") with
  | none => "error unknown-pipeline"
  | some p => if (violations p).all (fun v => decide (6 ≤ v.rule)) then "exits" else "may-hang"

/-- a `collect` line: does every collector of the pipeline close the channels it is handed
    (`CollectorsOk`, the hypothesis of `collectors_eventually_close`)?  On failure: the collector, the
    channel, and the first node at which it holds the channel without an escape edge towards `close`. -/
def runCollect (m : List (String × String)) : String :=
  match Gen.Pipes.all.find? (·.name == look m "p") with
  | none => "error unknown-pipeline"
  | some p =>
    let hs := handoffs p
    if hs.isEmpty then "no-handoff" else
    let bad := hs.filterMap fun x =>
      match p.gs[x.1]? with
      | none => some "?"
      | some gd =>
        if CollectorOk p x.1 gd x.2.1 x.2.2 then none else
        let own := ownD gd x.2.1 x.2.2
        let dl := distTo (escEdges p x.1) gd.nodes (Node.closes x.2.1)
        let stuck := gd.nodes.zipIdx.filterMap fun y =>
          if mark own y.2 && !(y.1.closes x.2.1 || y.1.isExit) &&
             !(escEdges p x.1 y.1).any (fun e => decide (distAt dl e.2 < distAt dl y.2))
          then some (p.site x.1 y.2) else none
        some (p.gname x.1 ++ " holds " ++ p.cname x.2.1 ++ " with no way to close it at [" ++
          (String.intercalate "; " (stuck.take 3)).replace " " "_" ++ "]")
    if bad.isEmpty then "closes" else "never-closes " ++ String.intercalate " " bad

def step (line : String) : String :=
  match words line with
  | "sc" :: rest => runScenario (kvs rest)
  | "collect" :: rest => runCollect (kvs rest)
  | "spin" :: rest => runSpin (kvs rest)
  | "full" :: rest => runFull (kvs rest)
  | ["wf", name] => runWf name
  | _ => "error bad-line"

def main : IO Unit := lineLoop step

/-
C10 layer 2 — the limb model of gfpAdd / gfpSub / gfpNeg (= the interpreted assembly,
Proofs/AsmField.lean) computes the number-level functions `addM` / `subM` / `negM`
for ALL 4-limb operands (reduced or not) and ANY 4-limb modulus.
Method: every word operation yields one linear fact (`add_spec` …); the facts of a
carry/borrow chain telescope to one equation between 256-bit values (`*_tele*`, pure
equalities); the final case analysis is done on the aggregated values (`*_agg`), so
that each `omega` call sees only a handful of variables.
-/
import DosModel.Model.Mont

namespace Dos.Mont

/-- value of four limbs (same expression as `L4.val`) -/
abbrev v4 (a b c d : Nat) : Nat := a + W * b + W * W * c + W * W * W * d

theorem L4.val_eq (x : L4) : x.val = v4 x.l0 x.l1 x.l2 x.l3 := rfl

theorem v4_lt {a b c d : Nat} (ha : a < W) (hb : b < W) (hc : c < W) (hd : d < W) : v4 a b c d < R := by
  simp only [v4, W, R] at *; omega

theorem L4.val_lt (x : L4) (h : x.ok) : x.val < R := v4_lt h.1 h.2.1 h.2.2.1 h.2.2.2

/-! ### one fact per word operation -/

theorem add_spec (y x : Nat) (hy : y < W) (hx : x < W) :
    addLo y x + W * addC y x = y + x ∧ addLo y x < W ∧ addC y x ≤ 1 := by
  simp only [addLo, addC, W] at *; omega

theorem adc_spec (y x c : Nat) (hy : y < W) (hx : x < W) (hc : c ≤ 1) :
    adcLo y x c + W * adcC y x c = y + x + c ∧ adcLo y x c < W ∧ adcC y x c ≤ 1 := by
  simp only [adcLo, adcC, W] at *; omega

theorem sub_spec (y x : Nat) (hy : y < W) (hx : x < W) :
    y + W * subB y x = subLo y x + x ∧ subLo y x < W ∧ subB y x ≤ 1 := by
  simp only [subLo, subB, W] at *; omega

theorem sbb_spec (y x f : Nat) (hy : y < W) (hx : x < W) (hf : f ≤ 1) :
    y + W * sbbB y x f = sbbLo y x f + x + f ∧ sbbLo y x f < W ∧ sbbB y x f ≤ 1 := by
  simp only [sbbLo, sbbB, W] at *; omega

/-! ### telescoping (equalities only) -/

theorem add_tele4 {a0 a1 a2 a3 b0 b1 b2 b3 r0 r1 r2 r3 c0 c1 c2 c3 : Nat}
    (e0 : r0 + W * c0 = a0 + b0) (e1 : r1 + W * c1 = a1 + b1 + c0)
    (e2 : r2 + W * c2 = a2 + b2 + c1) (e3 : r3 + W * c3 = a3 + b3 + c2) :
    v4 r0 r1 r2 r3 + R * c3 = v4 a0 a1 a2 a3 + v4 b0 b1 b2 b3 := by
  simp only [v4, W, R] at *; omega

theorem sub_tele4 {a0 a1 a2 a3 b0 b1 b2 b3 d0 d1 d2 d3 f0 f1 f2 f3 : Nat}
    (e0 : a0 + W * f0 = d0 + b0) (e1 : a1 + W * f1 = d1 + b1 + f0)
    (e2 : a2 + W * f2 = d2 + b2 + f1) (e3 : a3 + W * f3 = d3 + b3 + f2) :
    v4 a0 a1 a2 a3 + R * f3 = v4 d0 d1 d2 d3 + v4 b0 b1 b2 b3 := by
  simp only [v4, W, R] at *; omega

theorem sub_tele5 {r0 r1 r2 r3 r4 p0 p1 p2 p3 t0 t1 t2 t3 t4 f0 f1 f2 f3 f4 : Nat}
    (e0 : r0 + W * f0 = t0 + p0) (e1 : r1 + W * f1 = t1 + p1 + f0)
    (e2 : r2 + W * f2 = t2 + p2 + f1) (e3 : r3 + W * f3 = t3 + p3 + f2)
    (e4 : r4 + W * f4 = t4 + 0 + f3) :
    v4 r0 r1 r2 r3 + R * r4 + W * R * f4 = v4 t0 t1 t2 t3 + R * t4 + v4 p0 p1 p2 p3 := by
  simp only [v4, W, R] at *; omega

/-! ### case analysis on aggregated values -/

theorem carry_agg {Lr Lt Lp r4 t4 f4 : Nat} (hr : Lr < R) (ht : Lt < R) (hp : Lp < R)
    (h4 : r4 < W) (l4 : t4 < W) (k4 : f4 ≤ 1)
    (hsum : Lr + R * r4 + W * R * f4 = Lt + R * t4 + Lp) :
    (if f4 = 0 then Lt else Lr) =
      (if Lp ≤ Lr + R * r4 then Lr + R * r4 - Lp else Lr + R * r4) % R := by
  simp only [W, R] at *
  split <;> split <;> omega

theorem cmov_v4 (f t0 t1 t2 t3 r0 r1 r2 r3 : Nat) :
    v4 (cmovcc f t0 r0) (cmovcc f t1 r1) (cmovcc f t2 r2) (cmovcc f t3 r3) =
      if f = 0 then v4 t0 t1 t2 t3 else v4 r0 r1 r2 r3 := by
  unfold cmovcc; split <;> rfl

theorem cmov_lt {f t r : Nat} (ht : t < W) (hr : r < W) : cmovcc f t r < W := by
  unfold cmovcc; split <;> assumption

/-- `gfpCarry` on the 5-word value s = v4 r0..r3 + 2^256·r4: the stored 4 words are
`s − p` if `p ≤ s`, else `s`, modulo 2^256 -/
theorem carryLimbs_val (p : L4) (r0 r1 r2 r3 r4 : Nat) (hp : p.ok)
    (h0 : r0 < W) (h1 : r1 < W) (h2 : r2 < W) (h3 : r3 < W) (h4 : r4 < W) :
    (carryLimbs p r0 r1 r2 r3 r4).val =
      (if p.val ≤ v4 r0 r1 r2 r3 + R * r4 then v4 r0 r1 r2 r3 + R * r4 - p.val
        else v4 r0 r1 r2 r3 + R * r4) % R
      ∧ (carryLimbs p r0 r1 r2 r3 r4).ok := by
  obtain ⟨p0, p1, p2, p3⟩ := p
  obtain ⟨hp0, hp1, hp2, hp3⟩ := hp
  simp only at hp0 hp1 hp2 hp3
  simp only [carryLimbs, L4.val_eq, L4.ok]
  obtain ⟨e0, l0, k0⟩ := sub_spec r0 p0 h0 hp0
  generalize subLo r0 p0 = t0 at *
  generalize subB r0 p0 = f0 at *
  obtain ⟨e1, l1, k1⟩ := sbb_spec r1 p1 f0 h1 hp1 k0
  generalize sbbLo r1 p1 f0 = t1 at *
  generalize sbbB r1 p1 f0 = f1 at *
  obtain ⟨e2, l2, k2⟩ := sbb_spec r2 p2 f1 h2 hp2 k1
  generalize sbbLo r2 p2 f1 = t2 at *
  generalize sbbB r2 p2 f1 = f2 at *
  obtain ⟨e3, l3, k3⟩ := sbb_spec r3 p3 f2 h3 hp3 k2
  generalize sbbLo r3 p3 f2 = t3 at *
  generalize sbbB r3 p3 f2 = f3 at *
  obtain ⟨e4, l4, k4⟩ := sbb_spec r4 0 f3 h4 (by decide) k3
  generalize sbbLo r4 0 f3 = t4 at *
  generalize sbbB r4 0 f3 = f4 at *
  refine ⟨?_, cmov_lt l0 h0, cmov_lt l1 h1, cmov_lt l2 h2, cmov_lt l3 h3⟩
  rw [cmov_v4]
  exact carry_agg (v4_lt h0 h1 h2 h3) (v4_lt l0 l1 l2 l3) (v4_lt hp0 hp1 hp2 hp3) h4 l4 k4
    (sub_tele5 e0 e1 e2 e3 e4)

/-- **gfpAdd, limb-exact, all operands** -/
theorem addLimbs_val (p a b : L4) (hp : p.ok) (ha : a.ok) (hb : b.ok) :
    (addLimbs p a b).val = addM p.val a.val b.val ∧ (addLimbs p a b).ok := by
  obtain ⟨a0, a1, a2, a3⟩ := a
  obtain ⟨b0, b1, b2, b3⟩ := b
  obtain ⟨ha0, ha1, ha2, ha3⟩ := ha
  obtain ⟨hb0, hb1, hb2, hb3⟩ := hb
  simp only at ha0 ha1 ha2 ha3 hb0 hb1 hb2 hb3
  simp only [addLimbs, addM]
  obtain ⟨e0, l0, k0⟩ := add_spec a0 b0 ha0 hb0
  generalize addLo a0 b0 = r0 at *
  generalize addC a0 b0 = c0 at *
  obtain ⟨e1, l1, k1⟩ := adc_spec a1 b1 c0 ha1 hb1 k0
  generalize adcLo a1 b1 c0 = r1 at *
  generalize adcC a1 b1 c0 = c1 at *
  obtain ⟨e2, l2, k2⟩ := adc_spec a2 b2 c1 ha2 hb2 k1
  generalize adcLo a2 b2 c1 = r2 at *
  generalize adcC a2 b2 c1 = c2 at *
  obtain ⟨e3, l3, k3⟩ := adc_spec a3 b3 c2 ha3 hb3 k2
  generalize adcLo a3 b3 c2 = r3 at *
  generalize adcC a3 b3 c2 = c3 at *
  have e4 : adcLo 0 0 c3 = c3 := by simp only [adcLo, W]; omega
  rw [e4]
  have h4 : c3 < W := by simp only [W]; omega
  obtain ⟨hv, hok⟩ := carryLimbs_val p r0 r1 r2 r3 c3 hp l0 l1 l2 l3 h4
  refine ⟨?_, hok⟩
  rw [hv, L4.val_eq ⟨a0, a1, a2, a3⟩, L4.val_eq ⟨b0, b1, b2, b3⟩, add_tele4 e0 e1 e2 e3]


theorem sub_agg {A B D P Lr f3 c : Nat} (hA : A < R) (hD : D < R) (hLr : Lr < R)
    (hf : f3 ≤ 1) (hc : c ≤ 1) (h1 : A + R * f3 = D + B)
    (h2 : Lr + R * c = D + (if f3 = 0 then 0 else P)) (hP : P < R) :
    Lr = if B ≤ A then A - B else (A + R - B + P) % R := by
  simp only [R] at *
  split at h2 <;> split <;> omega

theorem cmov0_v4 (f p0 p1 p2 p3 : Nat) :
    v4 (cmovcc f 0 p0) (cmovcc f 0 p1) (cmovcc f 0 p2) (cmovcc f 0 p3) =
      if f = 0 then 0 else v4 p0 p1 p2 p3 := by
  unfold cmovcc; split <;> rfl

/-- **gfpSub, limb-exact, all operands** -/
theorem subLimbs_val (p a b : L4) (hp : p.ok) (ha : a.ok) (hb : b.ok) :
    (subLimbs p a b).val = subM p.val a.val b.val ∧ (subLimbs p a b).ok := by
  obtain ⟨a0, a1, a2, a3⟩ := a
  obtain ⟨b0, b1, b2, b3⟩ := b
  obtain ⟨p0, p1, p2, p3⟩ := p
  obtain ⟨ha0, ha1, ha2, ha3⟩ := ha
  obtain ⟨hb0, hb1, hb2, hb3⟩ := hb
  obtain ⟨hp0, hp1, hp2, hp3⟩ := hp
  simp only at ha0 ha1 ha2 ha3 hb0 hb1 hb2 hb3 hp0 hp1 hp2 hp3
  simp only [subLimbs, subM, L4.val_eq, L4.ok]
  obtain ⟨e0, l0, k0⟩ := sub_spec a0 b0 ha0 hb0
  generalize subLo a0 b0 = d0 at *
  generalize subB a0 b0 = f0 at *
  obtain ⟨e1, l1, k1⟩ := sbb_spec a1 b1 f0 ha1 hb1 k0
  generalize sbbLo a1 b1 f0 = d1 at *
  generalize sbbB a1 b1 f0 = f1 at *
  obtain ⟨e2, l2, k2⟩ := sbb_spec a2 b2 f1 ha2 hb2 k1
  generalize sbbLo a2 b2 f1 = d2 at *
  generalize sbbB a2 b2 f1 = f2 at *
  obtain ⟨e3, l3, k3⟩ := sbb_spec a3 b3 f2 ha3 hb3 k2
  generalize sbbLo a3 b3 f2 = d3 at *
  generalize sbbB a3 b3 f2 = f3 at *
  have hm0 : cmovcc f3 0 p0 < W := cmov_lt (by decide) hp0
  have hm1 : cmovcc f3 0 p1 < W := cmov_lt (by decide) hp1
  have hm2 : cmovcc f3 0 p2 < W := cmov_lt (by decide) hp2
  have hm3 : cmovcc f3 0 p3 < W := cmov_lt (by decide) hp3
  have hM := cmov0_v4 f3 p0 p1 p2 p3
  generalize cmovcc f3 0 p0 = m0 at *
  generalize cmovcc f3 0 p1 = m1 at *
  generalize cmovcc f3 0 p2 = m2 at *
  generalize cmovcc f3 0 p3 = m3 at *
  obtain ⟨g0, n0, j0⟩ := add_spec d0 m0 l0 hm0
  generalize addLo d0 m0 = r0 at *
  generalize addC d0 m0 = c0 at *
  obtain ⟨g1, n1, j1⟩ := adc_spec d1 m1 c0 l1 hm1 j0
  generalize adcLo d1 m1 c0 = r1 at *
  generalize adcC d1 m1 c0 = c1 at *
  obtain ⟨g2, n2, j2⟩ := adc_spec d2 m2 c1 l2 hm2 j1
  generalize adcLo d2 m2 c1 = r2 at *
  generalize adcC d2 m2 c1 = c2 at *
  obtain ⟨g3, n3, j3⟩ := adc_spec d3 m3 c2 l3 hm3 j2
  generalize adcLo d3 m3 c2 = r3 at *
  generalize adcC d3 m3 c2 = c3 at *
  refine ⟨?_, n0, n1, n2, n3⟩
  have hsum := add_tele4 g0 g1 g2 g3
  rw [hM] at hsum
  exact sub_agg (v4_lt ha0 ha1 ha2 ha3) (v4_lt l0 l1 l2 l3) (v4_lt n0 n1 n2 n3) k3 j3
    (sub_tele4 e0 e1 e2 e3) hsum (v4_lt hp0 hp1 hp2 hp3)

theorem neg_agg {P A D f3 : Nat} (hP : P < R) (hD : D < R) (hf : f3 ≤ 1)
    (h1 : P + R * f3 = D + A) (hA : A < R) : D = (P + R - A) % R := by
  simp only [R] at *; omega

/-- **gfpNeg, limb-exact, all operands** -/
theorem negLimbs_val (p a : L4) (hp : p.ok) (ha : a.ok) :
    (negLimbs p a).val = negM p.val a.val ∧ (negLimbs p a).ok := by
  obtain ⟨a0, a1, a2, a3⟩ := a
  obtain ⟨ha0, ha1, ha2, ha3⟩ := ha
  have hp' := hp
  obtain ⟨hp0, hp1, hp2, hp3⟩ := hp'
  simp only at ha0 ha1 ha2 ha3
  simp only [negLimbs, negM]
  obtain ⟨e0, l0, k0⟩ := sub_spec p.l0 a0 hp0 ha0
  generalize subLo p.l0 a0 = d0 at *
  generalize subB p.l0 a0 = f0 at *
  obtain ⟨e1, l1, k1⟩ := sbb_spec p.l1 a1 f0 hp1 ha1 k0
  generalize sbbLo p.l1 a1 f0 = d1 at *
  generalize sbbB p.l1 a1 f0 = f1 at *
  obtain ⟨e2, l2, k2⟩ := sbb_spec p.l2 a2 f1 hp2 ha2 k1
  generalize sbbLo p.l2 a2 f1 = d2 at *
  generalize sbbB p.l2 a2 f1 = f2 at *
  obtain ⟨e3, l3, k3⟩ := sbb_spec p.l3 a3 f2 hp3 ha3 k2
  generalize sbbLo p.l3 a3 f2 = d3 at *
  generalize sbbB p.l3 a3 f2 = f3 at *
  obtain ⟨hv, hok⟩ := carryLimbs_val p d0 d1 d2 d3 0 hp l0 l1 l2 l3 (by decide)
  refine ⟨?_, hok⟩
  have hD : v4 d0 d1 d2 d3 = (p.val + R - (L4.mk a0 a1 a2 a3).val) % R :=
    neg_agg (L4.val_lt p hp) (v4_lt l0 l1 l2 l3) k3 (sub_tele4 e0 e1 e2 e3) (v4_lt ha0 ha1 ha2 ha3)
  have hlt : v4 d0 d1 d2 d3 < R := v4_lt l0 l1 l2 l3
  rw [hv, Nat.mul_zero, Nat.add_zero, ← hD]
  generalize v4 d0 d1 d2 d3 = D at *
  have hP := L4.val_lt p hp
  generalize p.val = P at *
  simp only [R] at *
  split <;> omega

end Dos.Mont

package c12

import (
	"context"
	"fmt"
	"math/big"
	"net/http"
	"net/http/httptest"
	"runtime"
	"strings"
	"sync"
	"time"

	"github.com/DOSNetwork/core/configuration"
	"github.com/DOSNetwork/core/dosnode"
	"github.com/DOSNetwork/core/onchain"
	"github.com/DOSNetwork/core/onchain/commitreveal"
	"github.com/DOSNetwork/core/onchain/dosproxy"
	"github.com/DOSNetwork/core/share"
	dkg "github.com/DOSNetwork/core/share/dkg/pedersen"
	vss "github.com/DOSNetwork/core/share/vss/pedersen"
	"github.com/ethereum/go-ethereum/accounts/abi"
	"github.com/ethereum/go-ethereum/common"
	"github.com/ethereum/go-ethereum/core/types"

	"verifharness/internal/chaindouble"
	"verifharness/internal/doubles"
	"verifharness/internal/h"
)

// ---------------------------------------------------------------- chain / chainraw: the chain-event half
//
//	chain <groups> <events>     payloads and error values handed to the REAL onchainLoop through a chain double
//	chainraw <groups> <events>  contract logs emitted by a scripted JSON-RPC endpoint, received by the REAL adaptor
//	                            (abigen binding, ABI decoder, eth_subscribe.go table entries, merge, firstEvent)
//	                            and piped into the REAL onchainLoop
//
//	groups  -  |  <gid>:<nids>:<sec01>,…   groups the node already belongs to (sec = 1: key generation finished)
//	events  ;-separated, fields /-separated, a number is a decimal of any magnitude or (chain only) `nil`
//	  G<gid>/<ids>            LogGrouping, ids .-separated member numbers (1 = this node), - = none
//	  D<gid>  K<gid>          LogGroupDissolve, LogPublicKeyAccepted
//	  R<last>/<gid>           LogUpdateRandom
//	  U<rid>/<last>/<seed>/<gid>   LogRequestUserRandom
//	  Q<qid>/<rand>/<gid>     LogUrl (empty data source and selector)
//	  C<cid>/<start>/<cdur>/<rdur>   LogStartCommitReveal
//	  O  a value without a case (chain)        N  an event nobody subscribed to (chainraw)      J  junk on the merged channel (chainraw)
//	  E  a plain error value   X<idx>  an *OnchainError (chain) / the websocket connection drops (chainraw, last event)
//	  prefix r: Removed log, d: re-delivery of the same log (chainraw)
//
// Output: one outcome per event — dropped | ok grouping <n> | err dupgroup | ok dissolved | ok accepted |
// ok query sys|user|url | err nogroup | ok cr | ok logged | ok disconnect — joined with ';'.
// Oracle: no panic, no stuck loop, and afterwards a request event for a group the node belongs to still starts
// its query and a grouping event naming the node still starts a key generation.

func addrOf(k int) []byte { return common.BigToAddress(big.NewInt(int64(k))).Bytes() }

func bigOf(s string) *big.Int {
	if s == "nil" {
		return nil
	}
	v, ok := new(big.Int).SetString(s, 10)
	if !ok {
		panic("bad number " + s)
	}
	return v
}

func gidKey(v *big.Int) string { return fmt.Sprintf("%x", v) }

type presetGroup struct {
	ids [][]byte
	pub *share.PubPoly
	sec *share.PriShare // nil: key generation not finished
}

// hybridDKG: groups preset by the case line in front of the REAL pdkg (Grouping, GroupDissolve and the getters
// of groups a LogGrouping of the case registered).
type hybridDKG struct {
	real   dkg.PDKGInterface
	mu     sync.Mutex
	preset map[string]*presetGroup
}

func (d *hybridDKG) get(id string) *presetGroup {
	d.mu.Lock()
	defer d.mu.Unlock()
	return d.preset[id]
}
func (d *hybridDKG) Loop() { d.real.Loop() }
func (d *hybridDKG) GetGroupPublicPoly(id string) *share.PubPoly {
	if g := d.get(id); g != nil {
		return g.pub
	}
	return d.real.GetGroupPublicPoly(id)
}
func (d *hybridDKG) GetShareSecurity(id string) *share.PriShare {
	if g := d.get(id); g != nil {
		return g.sec
	}
	return d.real.GetShareSecurity(id)
}
func (d *hybridDKG) GetGroupIDs(id string) [][]byte {
	if g := d.get(id); g != nil {
		return g.ids
	}
	return d.real.GetGroupIDs(id)
}
func (d *hybridDKG) GetGroupNumber() int { return d.real.GetGroupNumber() }
func (d *hybridDKG) Grouping(ctx context.Context, id string, parts [][]byte) (chan [5]*big.Int, chan error, error) {
	if d.get(id) != nil {
		return nil, nil, fmt.Errorf("dkg: duplicate share public key")
	}
	return d.real.Grouping(ctx, id, parts)
}
func (d *hybridDKG) GroupDissolve(id string) {
	d.mu.Lock()
	delete(d.preset, id)
	d.mu.Unlock()
	d.real.GroupDissolve(id)
}

// evChain: the chain side of the node. Events / Errs are what SubscribeEvent hands out; in raw mode they
// are fed by the pipe from the real adaptor.
type evChain struct {
	onchain.ProxyAdapter // nil: any method not listed here is not on the paths under test
	mu                   sync.Mutex
	events               chan interface{}
	errs                 chan error
	subs                 int
	disc                 []int
	real                 onchain.ProxyAdapter // raw mode: the adaptor behind the pipe
	onSubscribe          func(types []int)
}

func (c *evChain) SubscribeEvent(ts []int) (chan interface{}, chan error) {
	c.mu.Lock()
	c.subs++
	first := c.subs == 1
	c.mu.Unlock()
	if !first {
		// after a reconnect: nothing more arrives in this case
		return make(chan interface{}), make(chan error)
	}
	if c.onSubscribe != nil {
		c.onSubscribe(ts)
	}
	return c.events, c.errs
}
func (c *evChain) GetBlockTime() uint64              { return 1 }
func (c *evChain) RegisterNewNode() error            { return nil }
func (c *evChain) UnRegisterNode() error             { return nil }
func (c *evChain) Balance() (*big.Float, error)      { return big.NewFloat(100), nil }
func (c *evChain) DisconnectAll()                    {}
func (c *evChain) Connect([]string, time.Time) error { return nil }
func (c *evChain) DisconnectWs(i int) {
	c.mu.Lock()
	c.disc = append(c.disc, i)
	c.mu.Unlock()
	if c.real != nil {
		c.real.DisconnectWs(i) // the real endpoint table is indexed with the value the error carried
	}
}
func (c *evChain) discCount() int                            { c.mu.Lock(); defer c.mu.Unlock(); return len(c.disc) }
func (c *evChain) CurrentBlock() (uint64, error)             { return 100, nil }
func (c *evChain) Commit(*big.Int, [32]byte) error           { return nil }
func (c *evChain) Reveal(*big.Int, *big.Int) error           { return nil }
func (c *evChain) UpdateRandomness(*vss.Signature) error     { return nil }
func (c *evChain) DataReturn(*vss.Signature) error           { return nil }
func (c *evChain) RegisterGroupPubKey([5]*big.Int) error     { return nil }
func (c *evChain) SignalUnregister(common.Address) error     { return nil }
func (c *evChain) Address() common.Address                   { return common.BytesToAddress(addrOf(1)) }
func (c *evChain) BootStrapUrl() string                      { return "" }
func (c *evChain) IsPendingNode([]byte) (bool, error)        { return false, nil }
func (c *evChain) SetGroupSize(uint64) error                 { return nil }
func (c *evChain) GetGasPrice() uint64                       { return 1 }
func (c *evChain) GetGasLimit() uint64                       { return 1 }
func (c *evChain) SetGasPrice(*big.Int)                      {}
func (c *evChain) SetGasLimit(*big.Int)                      {}
func (c *evChain) PendingNonce() (uint64, error)             { return 0, nil }
func (c *evChain) StartCommitReveal(a, b, cc, d int64) error { return nil }

type evWorld struct {
	node   *dosnode.DosNode
	lg     *doubles.Logger
	chain  *evChain
	dkg    *hybridDKG
	cancel func()
}

func newEvWorld(groups string) *evWorld {
	setup()
	me := addrOf(1)
	p := doubles.NewP2P(me, 64)
	// nobody answers: a member that is asked fails at once
	p.OnRequest = nil
	w := &evWorld{lg: doubles.NewLogger()}
	w.chain = &evChain{events: make(chan interface{}), errs: make(chan error)}
	if evPrep != nil {
		evPrep(w.chain)
	}
	realDkg := dkg.NewPDKG(p, suite)
	go realDkg.Loop()
	w.dkg = &hybridDKG{real: realDkg, preset: map[string]*presetGroup{}}
	for _, g := range splitList(groups, ",") {
		f := strings.Split(g, ":")
		nids := atoi(f[1])
		t := nids/2 + 1
		pri, pub := groupOf("ev", t)
		pg := &presetGroup{pub: pub}
		for i := 0; i < nids; i++ {
			pg.ids = append(pg.ids, addrOf(i+1))
		}
		if f[2] == "1" {
			pg.sec = pri.Eval(0)
		}
		w.dkg.preset[gidKey(bigOf(f[0]))] = pg
	}
	w.node = dosnode.VerifNewNode(me, p, w.chain, w.dkg, 21, w.lg)
	w.node.VerifEvSetConfig(&configuration.Config{})
	go w.node.VerifQueryLoop()
	go w.node.VerifOnchainLoop()
	w.cancel = func() { w.node.VerifCancel() }
	return w
}

// give the loop v and wait until it is back at its select (an event of a type without a case is taken only then)
func (w *evWorld) feed(v interface{}) bool { return w.give(v) && w.barrier() }
func (w *evWorld) barrier() bool           { return w.give(struct{}{}) }

// give: false when the loop does not take the value — because it is stuck, or because it PANICKED: onchainLoop's
// deferred `for range membersEvent` never returns, so a panic inside the loop does not kill the process, the
// goroutine hangs in its deferred call and the node is wedged. The stacks tell the two apart.
func (w *evWorld) give(v interface{}) bool {
	for waited := time.Duration(0); waited < stepWait; waited += 250 * time.Millisecond {
		select {
		case w.chain.events <- v:
			return true
		case <-time.After(250 * time.Millisecond):
			if fn := panickedFrame(); fn != "" {
				panic(loopPanic{fn})
			}
		}
	}
	return false
}

type loopPanic struct{ fn string }

// panickedFrame: the first repository frame below panic() of a goroutine that is panicking right now
func panickedFrame() string {
	buf := make([]byte, 4<<20)
	n := runtime.Stack(buf, true)
	for _, g := range strings.Split(string(buf[:n]), "\n\n") {
		seen := false
		for _, l := range strings.Split(g, "\n") {
			if strings.HasPrefix(l, "panic(") {
				seen = true
				continue
			}
			if seen && !strings.HasPrefix(l, "\t") {
				if fn := normFrame(l); fn != "" {
					return fn
				}
			}
		}
	}
	return ""
}

// wedged turns the loopPanic of give into the case's result
func wedged(impl, oracle *string) {
	if e := recover(); e != nil {
		lp, ok := e.(loopPanic)
		if !ok {
			panic(e)
		}
		*impl = "panic " + lp.fn
		*oracle = "panic-in-" + lp.fn + ": onchainLoop panicked; its deferred drain of membersEvent keeps the goroutine and the process alive: the node is wedged, not dead"
	}
}

type evObs struct {
	ev   map[string]int
	errs int
	disc int
}

func (w *evWorld) snap() evObs {
	o := evObs{ev: map[string]int{}, errs: len(w.lg.Errors()), disc: w.chain.discCount()}
	for _, k := range []string{"GroupingStart", "DGroupDismiss", "keyAccepted", "LogUpdateRandom", "LogRequestUserRandom", "LogUrl", "StartCR", "HandleQuery"} {
		o.ev[k] = w.lg.Count(k)
	}
	return o
}

// outcome of one event from what the node logged since `before` (kind = first letter of the event)
func (w *evWorld) outcome(kind byte, nids int, before evObs) string {
	newErr := func(sub string) bool {
		for _, e := range w.lg.Errors()[before.errs:] {
			if strings.Contains(e, sub) {
				return true
			}
		}
		return false
	}
	switch kind {
	case 'G':
		// handleGrouping runs in its own goroutine
		if !w.lg.WaitCount("GroupingStart", before.ev["GroupingStart"]+1, nil, 120*time.Millisecond) {
			return "dropped"
		}
		time.Sleep(40 * time.Millisecond)
		if newErr("duplicate share public key") {
			return "err dupgroup"
		}
		return fmt.Sprintf("ok grouping %d", nids)
	case 'D':
		if w.lg.Count("DGroupDismiss") > before.ev["DGroupDismiss"] {
			return "ok dissolved"
		}
	case 'K':
		if w.lg.Count("keyAccepted") > before.ev["keyAccepted"] {
			return "ok accepted"
		}
	case 'R', 'U', 'Q':
		name, tag := map[byte]string{'R': "LogUpdateRandom", 'U': "LogRequestUserRandom", 'Q': "LogUrl"}[kind], map[byte]string{'R': "sys", 'U': "user", 'Q': "url"}[kind]
		if newErr("No Group info") {
			return "err nogroup"
		}
		if w.lg.Count(name) > before.ev[name] {
			// the pipeline goroutine: let it get past the submitter choice (or die there)
			w.lg.WaitCount("HandleQuery", before.ev["HandleQuery"]+1, nil, 200*time.Millisecond)
			time.Sleep(25 * time.Millisecond)
			return "ok query " + tag
		}
	case 'C':
		if w.lg.Count("StartCR") > before.ev["StartCR"] {
			time.Sleep(25 * time.Millisecond) // handleCR's goroutine
			return "ok cr"
		}
	case 'E':
		if len(w.lg.Errors()) > before.errs {
			return "ok logged"
		}
	case 'X':
		if w.chain.discCount() > before.disc {
			return "ok disconnect"
		}
	}
	return "dropped"
}

func idsOf(s string) [][]byte {
	var ids [][]byte
	for _, x := range splitList(s, ".") {
		ids = append(ids, addrOf(atoi(x)))
	}
	return ids
}

func payloadOf(ev string) (v interface{}, nids int) {
	f := strings.Split(ev[1:], "/")
	switch ev[0] {
	case 'G':
		ids := idsOf(f[1])
		return &onchain.LogGrouping{GroupId: bigOf(f[0]), NodeId: ids}, len(ids)
	case 'D':
		return &onchain.LogGroupDissolve{GroupId: bigOf(f[0])}, 0
	case 'K':
		return &onchain.LogPublicKeyAccepted{GroupId: bigOf(f[0]), WorkingGroupSize: big.NewInt(1)}, 0
	case 'R':
		return &onchain.LogUpdateRandom{LastRandomness: bigOf(f[0]), DispatchedGroupId: bigOf(f[1])}, 0
	case 'U':
		return &onchain.LogRequestUserRandom{RequestId: bigOf(f[0]), LastSystemRandomness: bigOf(f[1]), UserSeed: bigOf(f[2]), DispatchedGroupId: bigOf(f[3])}, 0
	case 'Q':
		return &onchain.LogUrl{QueryId: bigOf(f[0]), Timeout: big.NewInt(30), Randomness: bigOf(f[1]), DispatchedGroupId: bigOf(f[2])}, 0
	case 'C':
		return &onchain.LogStartCommitReveal{Cid: bigOf(f[0]), StartBlock: bigOf(f[1]), CommitDuration: bigOf(f[2]), RevealDuration: bigOf(f[3]), RevealThreshold: big.NewInt(1)}, 0
	case 'O':
		return &onchain.LogGroupingInitiated{}, 0
	}
	panic("bad chain event " + ev)
}

// stillServes: a request event for a fresh member group starts its query, a grouping event naming the node starts a key generation
func (w *evWorld) stillServes(send func(v interface{}) bool) string {
	_, pub := groupOf("ev", 2)
	pri, _ := groupOf("ev", 2)
	gid := new(big.Int).Lsh(big.NewInt(1), 200)
	w.dkg.mu.Lock()
	w.dkg.preset[gidKey(gid)] = &presetGroup{ids: [][]byte{addrOf(1), addrOf(2), addrOf(3)}, pub: pub, sec: pri.Eval(0)}
	w.dkg.mu.Unlock()
	b := w.snap()
	if !send(&onchain.LogUrl{QueryId: big.NewInt(424242), Timeout: big.NewInt(30), Randomness: big.NewInt(7), DispatchedGroupId: gid}) {
		return "stuck-onchain-loop: onchainLoop does not take the next event"
	}
	if o := w.outcome('Q', 0, b); o != "ok query url" {
		return "not-serving-chain: after the case a LogUrl for a group the node belongs to gives " + o
	}
	b = w.snap()
	gid2 := new(big.Int).Add(gid, big.NewInt(1))
	if !send(&onchain.LogGrouping{GroupId: gid2, NodeId: [][]byte{addrOf(2), addrOf(1)}}) {
		return "stuck-onchain-loop: onchainLoop does not take the next event"
	}
	if o := w.outcome('G', 2, b); o != "ok grouping 2" {
		return "not-serving-chain: after the case a LogGrouping naming the node gives " + o
	}
	return ""
}

func opChain(groups, evs string) (impl, oracle string) {
	defer wedged(&impl, &oracle)
	w := newEvWorld(groups)
	defer w.cancel()
	var outs []string
	for _, ev := range splitList(evs, ";") {
		b := w.snap()
		switch ev[0] {
		case 'E', 'X':
			var e error = fmt.Errorf("subscription trouble")
			if ev[0] == 'X' {
				e = onchain.VerifOnchainError(atoi(ev[1:]), fmt.Errorf("websocket closed"))
			}
			select {
			case w.chain.errs <- e:
			case <-time.After(stepWait):
				return "hang", "stuck-onchain-loop: onchainLoop does not take an error value"
			}
			if !w.barrier() {
				return "hang", "stuck-onchain-loop: onchainLoop does not come back after an error value"
			}
			outs = append(outs, w.outcome(ev[0], 0, b))
		default:
			v, nids := payloadOf(ev)
			if !w.feed(v) {
				return "hang", "stuck-onchain-loop: onchainLoop does not take event " + ev
			}
			outs = append(outs, w.outcome(ev[0], nids, b))
		}
	}
	return strings.Join(outs, ";"), w.stillServes(w.feed)
}

// ---------------------------------------------------------------- chainraw

var (
	proxyABI = mustABI(dosproxy.DosproxyABI)
	crABI    = mustABI(commitreveal.CommitrevealABI)
)

func mustABI(s string) abi.ABI {
	a, err := abi.JSON(strings.NewReader(s))
	if err != nil {
		panic(err)
	}
	return a
}

func u256(s string) *big.Int {
	v := bigOf(s)
	if v == nil || v.Sign() < 0 || v.BitLen() > 256 {
		panic("not a uint256: " + s)
	}
	return v
}

// rawOf: the contract log for an event of the line
func rawOf(st *chaindouble.Stack, ev string, n int, removed bool) (types.Log, int) {
	f := strings.Split(ev[1:], "/")
	a, addr, name := proxyABI, st.Proxy, ""
	var args []interface{}
	nids := 0
	switch ev[0] {
	case 'G':
		var as []common.Address
		for _, id := range idsOf(f[1]) {
			as = append(as, common.BytesToAddress(id))
		}
		if as == nil {
			as = []common.Address{}
		}
		nids = len(as)
		name, args = "LogGrouping", []interface{}{u256(f[0]), as}
	case 'D':
		name, args = "LogGroupDissolve", []interface{}{u256(f[0])}
	case 'K':
		name, args = "LogPublicKeyAccepted", []interface{}{u256(f[0]), [4]*big.Int{big.NewInt(1), big.NewInt(2), big.NewInt(3), big.NewInt(4)}, big.NewInt(1)}
	case 'R':
		name, args = "LogUpdateRandom", []interface{}{u256(f[0]), u256(f[1])}
	case 'U':
		name, args = "LogRequestUserRandom", []interface{}{u256(f[0]), u256(f[1]), u256(f[2]), u256(f[3])}
	case 'Q':
		name, args = "LogUrl", []interface{}{u256(f[0]), big.NewInt(30), "", "", u256(f[1]), u256(f[2])}
	case 'C':
		a, addr = crABI, st.CR
		name, args = "LogStartCommitReveal", []interface{}{u256(f[0]), u256(f[1]), u256(f[2]), u256(f[3]), big.NewInt(1)}
	case 'N':
		name, args = "LogGroupingInitiated", []interface{}{big.NewInt(5), big.NewInt(3)}
	default:
		panic("bad raw event " + ev)
	}
	e, ok := a.Events[name]
	if !ok {
		panic("no event " + name)
	}
	data, err := e.Inputs.Pack(args...)
	if err != nil {
		panic(err)
	}
	var bh common.Hash
	bh[0], bh[31] = 0xb1, byte(n)
	return types.Log{Address: addr, Topics: []common.Hash{e.ID}, Data: data, BlockNumber: 1000 + uint64(n),
		TxHash: common.BigToHash(big.NewInt(int64(7000 + n))), BlockHash: bh, Index: uint(n), Removed: removed}, nids
}

func opChainRaw(groups, evs string) (impl, oracle string) {
	defer wedged(&impl, &oracle)
	setup()
	st, err := chaindouble.NewStack(1, 1, big.NewInt(1), 5000000, 1000000000, nil)
	if err != nil {
		return "connect-failed", "harness-connect-failed: " + h.OneLine(err.Error())
	}
	defer st.Close()
	w := newEvWorldRaw(groups, st)
	defer w.cancel()
	if !w.waitSubscribed(st) {
		return "subscribe-failed", "harness-subscribe-failed: the node's subscriptions did not reach the endpoint"
	}
	list := splitList(evs, ";")
	strip := func(x string) string {
		if strings.HasPrefix(x, "r:") || strings.HasPrefix(x, "d:") {
			return x[2:]
		}
		return x
	}
	first := map[string]int{}
	for i, ev := range list {
		if _, ok := first[strip(ev)]; !ok {
			first[strip(ev)] = i
		}
	}
	var outs []string
	for _, ev := range list {
		t, removed := strip(ev), strings.HasPrefix(ev, "r:")
		b := w.snap()
		switch t[0] {
		case 'J':
			// a value on the merged channel that is not a *LogCommon: firstEvent skips it (through the real firstEvent)
			outs = append(outs, w.junk())
		case 'E':
			select {
			case w.chain.errs <- fmt.Errorf("subscription trouble"):
			case <-time.After(stepWait):
				return "hang", "stuck-onchain-loop: onchainLoop does not take an error value"
			}
			w.barrier()
			outs = append(outs, w.outcome('E', 0, b))
		case 'X':
			// the websocket connection drops: every subscription of the endpoint reports it, onchainLoop calls
			// DisconnectWs with the index the error carries (forwarded to the REAL adaptor's table)
			st.WS[0].DropConnections()
			if !waitFor(func() bool { return w.chain.discCount() > b.disc }, 3*time.Second) {
				outs = append(outs, "dropped")
			} else {
				outs = append(outs, "ok disconnect")
			}
			time.Sleep(50 * time.Millisecond)
		default:
			raw, nids := rawOf(st, t, first[t], removed)
			d0 := w.delivered()
			st.WS[0].Emit(raw)
			// delivered by firstEvent? (Removed logs, re-deliveries and unsubscribed events never are)
			if !waitFor(func() bool { return w.delivered() > d0 }, 250*time.Millisecond) {
				outs = append(outs, "dropped")
				continue
			}
			if !w.barrier() {
				return "hang", "stuck-onchain-loop: onchainLoop does not come back after " + ev
			}
			outs = append(outs, w.outcome(t[0], nids, b))
		}
	}
	if !strings.Contains(evs, "X") {
		oracle = w.stillServes(w.feed)
	}
	return strings.Join(outs, ";"), oracle
}

func waitFor(f func() bool, d time.Duration) bool {
	for end := time.Now().Add(d); time.Now().Before(end); time.Sleep(2 * time.Millisecond) {
		if f() {
			return true
		}
	}
	return f()
}

type evWorldRaw struct {
	*evWorld
	mu   sync.Mutex
	n    int
	subs chan struct{}
	src  chan interface{} // what the real merge hands to the real firstEvent (raw mode feeds junk here)
}

func (w *evWorldRaw) delivered() int { w.mu.Lock(); defer w.mu.Unlock(); return w.n }

// junk: firstEvent is a private stage of the adaptor's SubscribeEvent; a second real firstEvent instance is
// given the junk value and a marker log, and what it lets through is piped to the loop like the adaptor's output
func (w *evWorldRaw) junk() string {
	ctx, cancel := context.WithCancel(context.Background())
	defer cancel()
	src := make(chan interface{})
	out := onchain.VerifFirstEvent(ctx, src)
	for _, v := range []interface{}{struct{ X int }{7}, "junk", 42, nil, (*onchain.LogGrouping)(nil)} {
		select {
		case src <- v:
		case <-time.After(stepWait):
			return "hang"
		}
	}
	// still filtering: a real log passes
	src <- onchain.VerifLog(types.Log{Data: []byte{1}, BlockNumber: 5}, &onchain.LogGroupingInitiated{})
	select {
	case v := <-out:
		if _, ok := v.(*onchain.LogGroupingInitiated); !ok {
			return "ok passed-junk"
		}
	case <-time.After(stepWait):
		return "hang"
	}
	return "dropped"
}

func newEvWorldRaw(groups string, st *chaindouble.Stack) *evWorldRaw {
	w := &evWorldRaw{subs: make(chan struct{}, 1)}
	// the world is built first, then its chain double is pointed at the real adaptor
	pending := make(chan []int, 1)
	ew := newEvWorldWith(groups, func(c *evChain) {
		c.real = st.Adaptor
		c.onSubscribe = func(ts []int) { pending <- ts }
	})
	w.evWorld = ew
	go func() {
		ts := <-pending
		events, errc := st.Adaptor.SubscribeEvent(ts)
		w.subs <- struct{}{}
		go func() {
			for e := range errc {
				select {
				case ew.chain.errs <- e:
				case <-time.After(stepWait):
				}
			}
		}()
		for v := range events {
			select {
			case ew.chain.events <- v:
				w.mu.Lock()
				w.n++
				w.mu.Unlock()
			case <-time.After(stepWait):
			}
		}
	}()
	return w
}

func (w *evWorldRaw) waitSubscribed(st *chaindouble.Stack) bool {
	select {
	case <-w.subs:
	case <-time.After(stepWait):
		return false
	}
	ok := make(chan bool, 1)
	go func() { ok <- st.WS[0].WaitSubs(7) }()
	select {
	case r := <-ok:
		time.Sleep(30 * time.Millisecond)
		return r
	case <-time.After(2 * stepWait):
		return false
	}
}

// newEvWorldWith is newEvWorld with a hook on the chain double before the loops start
func newEvWorldWith(groups string, prep func(c *evChain)) *evWorld {
	evPrep = prep
	defer func() { evPrep = nil }()
	return newEvWorld(groups)
}

var evPrep func(c *evChain)

// ---------------------------------------------------------------- bootips

// bootips <urlOK> <fetched> <commas>: getBootIps on a URL that parses or not, served or not, with that many separators
func opBootIps(u, f, k string) (string, string) {
	setup()
	n := atoi(k)
	srv := httptest.NewServer(http.HandlerFunc(func(w http.ResponseWriter, r *http.Request) {
		for i := 0; i < n; i++ {
			fmt.Fprintf(w, "10.0.0.%d,", i%250)
		}
	}))
	url := srv.URL
	if f == "0" {
		srv.Close() // nobody listens there any more
	} else {
		defer srv.Close()
	}
	if u == "0" {
		url = "http://boot strap\x7f.example/%zz" // http.NewRequest refuses it
	}
	ips := dosnode.VerifEvGetBootIps(url)
	return fmt.Sprintf("ok %d", len(ips)), ""
}

/-
LIBRARY-LEVEL invariant of a `DistKeyGenerator` (round 5, review C finding 1; /repo fix 5814a9f).

`LibInv` holds after `initDistKeyGenerator` and is preserved by `ProcessDeal`, `ProcessResponse` and
`ProcessJustification` for EVERY argument – no pipeline, no "the stage stopped at the complaint":
a slot whose verifier carries `approved = true` stores a deal that is consistent with its own
commitments at this member's index.  The flag is written once, by the `ProcessEncryptedDeal` that
filled the slot (`approved_stable_*`), so a member that answered a deal with a complaint never has
that dealer in QUAL again, whatever it is sent afterwards (justifications included).
-/
import DosModel.Proofs.DkgFinish
import DosModel.Proofs.DkgResp

set_option linter.unusedSectionVars false

namespace Dos.Dkg
open Dos Dos.Vss

variable {F G : Type} [Field F] [AddCommGroup G] [Module F G] [DecidableEq F] [DecidableEq G]

/-- the operations of the library on a generator, with ANY argument (`Deals()` is `ProcessDeal` on the
own deal) -/
inductive LibOp (F G : Type) where
  | deal (dd : DkgDeal F G)
  | resp (m : DkgResp F G)
  | just (j : DkgJust F G)

def libStep (g : G) (d : Gen F G) : LibOp F G → Gen F G
  | .deal dd => (processDeal g d dd).1
  | .resp m => (processResponse g d m).1
  | .just j => (processJustification g d j).1

def libRun (g : G) (d : Gen F G) (ops : List (LibOp F G)) : Gen F G := ops.foldl (libStep g) d

structure LibSlot (g : G) (d : Gen F G) (j : Nat) (v : Verifier F G) : Prop where
  hdealer : d.participants[j]? = some v.dealer
  hvs : v.vs = d.participants
  hindex : v.index = d.index
  happ : v.approved = true → ∃ a dl val, v.agg = some a ∧ a.deal = some dl ∧
    Consistent g v.dealer v.vs dl ∧ dl.share = some ⟨(d.index : Int), some val⟩

structure LibInv (g : G) (d : Gen F G) : Prop where
  len : d.verifiers.length = d.participants.length
  idx : findIndex (d.long • g) d.participants 0 = some d.index
  lt : d.index < d.participants.length
  slot : ∀ j v, getVerifier d j = some v → LibSlot g d j v

theorem getVerifier_lt {d : Gen F G} {j : Nat} {v : Verifier F G} (h : getVerifier d j = some v) :
    j < d.verifiers.length := by
  unfold getVerifier at h
  rcases Nat.lt_or_ge j d.verifiers.length with hl | hl
  · exact hl
  · rw [List.getElem?_eq_none hl] at h; cases h

/-- `initDistKeyGenerator` establishes the invariant -/
theorem newGen_lib (g : G) (long : F) (participants : List G) (f : List F) (d : Gen F G)
    (h : newGen g long participants f = .ok d) : LibInv g d := by
  unfold newGen at h
  rcases hf : findIndex (long • g) participants 0 with _ | idx
  · simp [hf] at h
  · simp only [hf] at h
    rcases hnd : newDealer g long f participants with e | dl
    · simp [hnd] at h
    · simp only [hnd] at h
      injection h with h; subst h
      have hlt := (findIndex_lt (long • g) participants 0 idx hf).2
      refine ⟨by simp, hf, by simpa using hlt, ?_⟩
      intro j v hv
      simp [getVerifier] at hv
      rcases Nat.lt_or_ge j participants.length with hl | hl
      · rw [List.getElem?_replicate] at hv; simp [hl] at hv
      · rw [List.getElem?_eq_none (by simpa using hl)] at hv; cases hv

/-- putting a verifier with the right frame into an empty slot -/
theorem libInv_set (g : G) (d : Gen F G) (j : Nat) (w : Verifier F G) (hd : LibInv g d)
    (hj : j < d.participants.length) (hw : LibSlot g d j w) : LibInv g (setVerifier d j w) := by
  have hfr := setVerifier_frame d j w
  have hjv : j < d.verifiers.length := by rw [hd.len]; exact hj
  refine ⟨by rw [hfr.2.2.2.1, hfr.1]; exact hd.len, by rw [hfr.2.2.1, hfr.1, hfr.2.1]; exact hd.idx,
    by rw [hfr.2.1, hfr.1]; exact hd.lt, ?_⟩
  intro k v hv
  rw [getVerifier_set d j k w hjv] at hv
  by_cases hjk : j = k
  · subst hjk
    simp only [if_true, Option.some.injEq] at hv; subst hv
    exact ⟨by rw [hfr.1]; exact hw.hdealer, by rw [hfr.1]; exact hw.hvs, by rw [hfr.2.1]; exact hw.hindex,
      by rw [hfr.2.1]; exact hw.happ⟩
  · simp only [hjk, if_false] at hv
    have := hd.slot k v hv
    exact ⟨by rw [hfr.1]; exact this.hdealer, by rw [hfr.1]; exact this.hvs, by rw [hfr.2.1]; exact this.hindex,
      by rw [hfr.2.1]; exact this.happ⟩

/-- **`ProcessDeal` keeps the invariant** for every message, and the slot it fills carries the status of
the response it returns as its `approved` flag -/
theorem processDeal_lib (g : G) (d : Gen F G) (dd : DkgDeal F G) (hd : LibInv g d) :
    LibInv g (processDeal g d dd).1 ∧
    ∀ resp, (processDeal g d dd).2 = .ok resp → resp.index = dd.index ∧
      ∃ r w, resp.resp = some r ∧ getVerifier d dd.index = none ∧
        getVerifier (processDeal g d dd).1 dd.index = some w ∧ w.approved = r.status := by
  unfold processDeal
  rcases hp : d.participants[dd.index]? with _ | pub
  · exact ⟨hd, by intro resp h; cases h⟩
  · have hjlt : dd.index < d.participants.length := by
      rcases Nat.lt_or_ge dd.index d.participants.length with h | h
      · exact h
      · rw [List.getElem?_eq_none h] at hp; cases hp
    have hjv : dd.index < d.verifiers.length := by rw [hd.len]; exact hjlt
    simp only
    by_cases hex : (getVerifier d dd.index).isSome = true
    · simp only [hex, if_true]; exact ⟨hd, by intro resp h; cases h⟩
    · simp only [hex, if_false, Bool.false_eq_true]
      have hnone : getVerifier d dd.index = none := by simpa using hex
      rcases hnv : newVerifier g d.long pub d.participants with err | ver
      · exact ⟨hd, by intro resp h; cases h⟩
      · obtain ⟨i, hi, hver⟩ := newVerifier_ok hnv
        have hii : i = d.index := by rw [hd.idx] at hi; injection hi with hi; exact hi.symm
        subst hii
        have hverf : ver.agg = none ∧ ver.index = d.index ∧ ver.vs = d.participants ∧ ver.dealer = pub ∧
            ver.approved = false := by
          subst hver; exact ⟨rfl, rfl, rfl, rfl, rfl⟩
        obtain ⟨hva, hvi, hvv, hvd, hvap⟩ := hverf
        have hfresh : LibSlot g d dd.index ver :=
          ⟨by rw [hp, hvd], hvv, hvi, by intro h; rw [hvap] at h; cases h⟩
        rcases hdeal : dd.deal with _ | e
        · exact ⟨libInv_set g d dd.index ver hd hjlt hfresh, by intro resp h; cases h⟩
        · simp only
          rcases pe_fresh g ver e 0 hva (by rw [hvi, hvv]; exact hd.lt) with ⟨err, herr⟩ |
            ⟨dl, r, a, hdec, hpe, hri, hrs, hsig, hst, hshare, h1, h2, h3, h5, h4, h6, h7, _⟩
          · rw [herr]
            exact ⟨libInv_set g d dd.index ver hd hjlt hfresh, by intro resp h; cases h⟩
          · rw [hpe]
            simp only
            have hwf := unsafeSet_frame ({ ver with agg := some a, approved := r.status } : Verifier F G) dd.index
            have hwa := unsafeSet_approved ({ ver with agg := some a, approved := r.status } : Verifier F G) dd.index
            have hdealw : ∀ a2, (({ ver with agg := some a, approved := r.status } : Verifier F G).unsafeSetResponse
                dd.index true).agg = some a2 → a2.deal = a.deal := by
              intro a2 ha2
              rcases unsafeSet_agg ({ ver with agg := some a, approved := r.status } : Verifier F G) dd.index a rfl
                with hu | ⟨a', hu, _, _, ha'⟩
              · rw [hu] at ha2; injection ha2 with ha2; rw [← ha2]
              · rw [hu] at ha2; injection ha2 with ha2; rw [← ha2, ha']
            have haggw : ∃ a2, (({ ver with agg := some a, approved := r.status } : Verifier F G).unsafeSetResponse
                dd.index true).agg = some a2 := by
              rcases unsafeSet_agg ({ ver with agg := some a, approved := r.status } : Verifier F G) dd.index a rfl
                with hu | ⟨a', hu, _, _, _⟩
              · exact ⟨a, hu⟩
              · exact ⟨a', hu⟩
            generalize hw' : ({ ver with agg := some a, approved := r.status } : Verifier F G).unsafeSetResponse
              dd.index true = w at hwf hwa hdealw haggw
            simp only at hwf hwa
            have hslot : LibSlot g d dd.index w := by
              refine ⟨by rw [hp, hwf.1, hvd], by rw [hwf.2.1]; exact hvv, by rw [hwf.2.2.2]; exact hvi, ?_⟩
              intro hap
              rw [hwa] at hap
              obtain ⟨a2, ha2⟩ := haggw
              have hcons := hst.1 hap
              obtain ⟨i, val, hs, hrest⟩ := hcons
              have hidx := hshare _ hs
              simp only at hidx
              refine ⟨a2, dl, val, ha2, by rw [hdealw a2 ha2]; exact h7 hap, ?_, ?_⟩
              · rw [hwf.1, hwf.2.1]; exact ⟨i, val, hs, hrest⟩
              · rw [hs, hidx, hvi]
            refine ⟨libInv_set g d dd.index w hd hjlt hslot, ?_⟩
            intro resp hresp
            injection hresp with hresp; subst hresp
            refine ⟨rfl, r, w, rfl, hnone, ?_, hwa⟩
            rw [getVerifier_set d dd.index dd.index w hjv]; simp

/-- replacing the aggregator of an occupied slot by one that stores the same deal -/
theorem libInv_replace (g : G) (d d' : Gen F G) (j : Nat) (v : Verifier F G) (a a2 : Agg F G)
    (hd : LibInv g d) (hv : getVerifier d j = some v) (hagg : v.agg = some a)
    (hp : d'.participants = d.participants) (hi : d'.index = d.index) (hl : d'.long = d.long)
    (hvs : d'.verifiers = d.verifiers.set j (some { v with agg := some a2 }))
    (hdeal : ∀ dl, a.deal = some dl → a2.deal = some dl) : LibInv g d' := by
  have hjv := getVerifier_lt hv
  refine ⟨by rw [hvs, hp]; simp [hd.len], by rw [hl, hp, hi]; exact hd.idx, by rw [hi, hp]; exact hd.lt, ?_⟩
  intro k w hw
  have hget : getVerifier d' k = if j = k then some { v with agg := some a2 } else getVerifier d k := by
    have := getVerifier_set d j k { v with agg := some a2 } hjv
    unfold getVerifier setVerifier at this
    unfold getVerifier
    rw [hvs]; exact this
  rw [hget] at hw
  by_cases hjk : j = k
  · subst hjk
    simp only [if_true, Option.some.injEq] at hw; subst hw
    have hs := hd.slot j v hv
    refine ⟨by rw [hp]; exact hs.hdealer, by rw [hp]; exact hs.hvs, by rw [hi]; exact hs.hindex, ?_⟩
    intro hap
    obtain ⟨a0, dl, val, h1, h2, h3, h4⟩ := hs.happ hap
    rw [hagg] at h1; injection h1 with h1; subst h1
    exact ⟨a2, dl, val, rfl, hdeal dl h2, h3, by rw [hi]; exact h4⟩
  · simp only [hjk, if_false] at hw
    have hs := hd.slot k w hw
    exact ⟨by rw [hp]; exact hs.hdealer, by rw [hp]; exact hs.hvs, by rw [hi]; exact hs.hindex,
      by rw [hi]; exact hs.happ⟩

theorem vj_deal (g : G) (a : Agg F G) (idx : Nat) (deal : Deal F G) (dl : Deal F G) (h : a.deal = some dl) :
    (verifyJustification g a idx deal).1.deal = some dl := by
  rcases vj_cases g a idx deal (by rw [h]; rfl) with h' | h' | h' <;> rw [h'] <;> exact h

theorem verifyResponse_deal {g : G} {a a' : Agg F G} {r : Response F G} (h : verifyResponse g a r = .ok a') :
    a'.deal = a.deal := by
  obtain ⟨_, _, hadd⟩ := verifyResponse_ok h
  obtain ⟨_, _, ha'⟩ := addResponse_ok hadd
  rw [ha']

/-- **`ProcessResponse` keeps the invariant** for every message -/
theorem processResponse_lib (g : G) (d : Gen F G) (m : DkgResp F G) (hd : LibInv g d) :
    LibInv g (processResponse g d m).1 := by
  obtain ⟨h1, h2, h3, h4⟩ := processResponse_shape g d m
  rcases h4 with h4 | ⟨r, v, a, a', _, hv, hagg, hvr, h4⟩
  · refine ⟨by rw [h4, h1]; exact hd.len, by rw [h3, h1, h2]; exact hd.idx, by rw [h2, h1]; exact hd.lt, ?_⟩
    intro k w hw
    have hw' : getVerifier d k = some w := by unfold getVerifier at hw ⊢; rw [h4] at hw; exact hw
    have hs := hd.slot k w hw'
    exact ⟨by rw [h1]; exact hs.hdealer, by rw [h1]; exact hs.hvs, by rw [h2]; exact hs.hindex,
      by rw [h2]; exact hs.happ⟩
  · have hda := verifyResponse_deal hvr
    rcases h4 with h4 | ⟨_, deal, h4⟩
    · exact libInv_replace g d _ m.index v a a' hd hv hagg h1 h2 h3 h4 (by intro dl h; rw [hda]; exact h)
    · exact libInv_replace g d _ m.index v a _ hd hv hagg h1 h2 h3 h4
        (by intro dl h; exact vj_deal g a' r.index deal dl (by rw [hda]; exact h))

/-- **`ProcessJustification` keeps the invariant** for every message: a justification can turn a stored
complaint into an approval, it never touches the stored deal or the `approved` flag -/
theorem processJustification_lib (g : G) (d : Gen F G) (j : DkgJust F G) (hd : LibInv g d) :
    LibInv g (processJustification g d j).1 := by
  unfold processJustification
  rcases hv : getVerifier d j.index with _ | v
  · exact hd
  · simp only
    rcases hagg : v.agg with _ | a
    · exact hd
    · simp only
      exact libInv_replace g d _ j.index v a (verifyJustification g a j.jidx j.deal).1 hd hv hagg rfl rfl rfl rfl
        (fun dl h => vj_deal g a j.jidx j.deal dl h)

theorem libStep_inv (g : G) (d : Gen F G) (op : LibOp F G) (hd : LibInv g d) : LibInv g (libStep g d op) := by
  cases op with
  | deal dd => exact (processDeal_lib g d dd hd).1
  | resp m => exact processResponse_lib g d m hd
  | just j => exact processJustification_lib g d j hd

theorem libRun_inv (g : G) : ∀ (ops : List (LibOp F G)) (d : Gen F G), LibInv g d → LibInv g (libRun g d ops)
  | [], _, h => h
  | op :: ops, d, h => libRun_inv g ops (libStep g d op) (libStep_inv g d op h)

/-! ### the `approved` flag of an occupied slot never changes -/

theorem approved_stable_step (g : G) (d : Gen F G) (op : LibOp F G) (hd : LibInv g d) (j : Nat) (v : Verifier F G)
    (hv : getVerifier d j = some v) :
    ∃ v', getVerifier (libStep g d op) j = some v' ∧ v'.approved = v.approved := by
  have hjv := getVerifier_lt hv
  cases op with
  | deal dd =>
    simp only [libStep]
    rcases processDeal_slots g d dd with he | ⟨hnone, hlt, w, hw⟩
    · rw [he]; exact ⟨v, hv, rfl⟩
    · have hne : dd.index ≠ j := by intro he; rw [he, hv] at hnone; cases hnone
      have hdv : dd.index < d.verifiers.length := by rw [hd.len]; exact hlt
      rw [hw, getVerifier_set d dd.index j w hdv]
      simp only [hne, if_false]
      exact ⟨v, hv, rfl⟩
  | resp m =>
    simp only [libStep]
    obtain ⟨_, _, _, h4⟩ := processResponse_shape g d m
    have hget : ∀ (k : Nat) (v0 : Verifier F G) (a2 : Agg F G), getVerifier d k = some v0 →
        (processResponse g d m).1.verifiers = d.verifiers.set k (some { v0 with agg := some a2 }) →
        ∃ v', getVerifier (processResponse g d m).1 j = some v' ∧ v'.approved = v.approved := by
      intro k v0 a2 hv0 hvs
      have hkv := getVerifier_lt hv0
      have : getVerifier (processResponse g d m).1 j = if k = j then some { v0 with agg := some a2 } else getVerifier d j := by
        have := getVerifier_set d k j { v0 with agg := some a2 } hkv
        unfold getVerifier setVerifier at this
        unfold getVerifier
        rw [hvs]; exact this
      rw [this]
      by_cases hkj : k = j
      · subst hkj
        rw [hv] at hv0; injection hv0 with hv0; subst hv0
        exact ⟨_, if_pos rfl, rfl⟩
      · simp only [hkj, if_false]; exact ⟨v, hv, rfl⟩
    rcases h4 with h4 | ⟨r, v0, a, a', _, hv0, _, _, h4⟩
    · exact ⟨v, by unfold getVerifier at hv ⊢; rw [h4]; exact hv, rfl⟩
    · rcases h4 with h4 | ⟨_, deal, h4⟩
      · exact hget m.index v0 a' hv0 h4
      · exact hget m.index v0 _ hv0 h4
  | just jj =>
    simp only [libStep]
    unfold processJustification
    rcases hv0 : getVerifier d jj.index with _ | v0
    · exact ⟨v, hv, rfl⟩
    · simp only
      rcases hagg : v0.agg with _ | a
      · exact ⟨v, hv, rfl⟩
      · simp only
        have hkv := getVerifier_lt hv0
        rw [getVerifier_set d jj.index j _ hkv]
        by_cases hkj : jj.index = j
        · rw [hkj] at hv0
          rw [hv] at hv0; injection hv0 with hv0; subst hv0
          simp only [hkj, if_true]
          exact ⟨_, rfl, rfl⟩
        · simp only [hkj, if_false]; exact ⟨v, hv, rfl⟩

theorem approved_stable (g : G) : ∀ (ops : List (LibOp F G)) (d : Gen F G), LibInv g d → ∀ (j : Nat) (v : Verifier F G),
    getVerifier d j = some v → ∃ v', getVerifier (libRun g d ops) j = some v' ∧ v'.approved = v.approved
  | [], _, _, _, v, hv => ⟨v, hv, rfl⟩
  | op :: ops, d, hd, j, v, hv => by
    obtain ⟨v1, hv1, ha1⟩ := approved_stable_step g d op hd j v hv
    obtain ⟨v2, hv2, ha2⟩ := approved_stable g ops (libStep g d op) (libStep_inv g d op hd) j v1 hv1
    exact ⟨v2, hv2, by rw [ha2, ha1]⟩

/-- a slot whose verifier did not approve keeps the generator from being certified -/
theorem not_certified_of_unapproved (d : Gen F G) (hlen : d.verifiers.length = d.participants.length)
    (j : Nat) (v : Verifier F G) (hv : getVerifier d j = some v) (hap : v.approved = false) :
    certified d = false := by
  rcases hc : certified d with _ | _
  · rfl
  · exfalso
    have hj : j < d.participants.length := by rw [← hlen]; exact getVerifier_lt hv
    obtain ⟨_, hall⟩ := qual_all d hlen hc
    obtain ⟨v', hv', hcert⟩ := hall j hj
    rw [hv] at hv'; injection hv' with hv'; subst hv'
    have := dealCertified_approved hcert
    rw [hap] at this; cases this

end Dos.Dkg

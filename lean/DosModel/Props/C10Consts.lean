/-
C10 — constants of the curve, the twist and the pairing (layer 1, second part): every statement
is evaluated by the Lean kernel on the literals regenerated from /repo (E1) through the
transcribed Montgomery / tower / curve / pairing functions, so a changed literal breaks it.
-/
import DosModel.Proofs.Bn256Consts

namespace Dos.Props.C10Consts
open Dos Dos.Bn256

set_option maxRecDepth 1000000 in
/-- the G1 generator (newGFp(1), newGFp(2), newGFp(1), newGFp(1)) is on y² = x³ + 3, curveB = newGFp(3),
and r·G1 = O -/
theorem consts_curve_generator :
    curveIsOnCurve curveGen = true ∧ curveB = GFp.newGFp 3 ∧
    (Jac.curveMul curveGen Gen.Bn256.Order).isInfinity = true := by decide +kernel

set_option maxRecDepth 1000000 in
/-- twistB = 3/ξ (ξ·twistB = 3 in Montgomery gfP2); the G2 generator is on y² = x³ + twistB and has order
dividing r (twistPoint.IsOnCurve, which multiplies by Order) -/
theorem consts_twist_generator :
    Fp2.mul xiM twistB = Fp2.ofGFp (GFp.newGFp 3) ∧ twistIsOnCurve twistGen = true := by decide +kernel

set_option maxRecDepth 1000000 in
/-- the Frobenius constants are the stated powers of ξ -/
theorem consts_frobenius :
    Fp2.powNat xiM ((Bn256.p - 1) / 6) = xiToPMinus1Over6 ∧
    Fp2.powNat xiM ((Bn256.p - 1) / 3) = xiToPMinus1Over3 ∧
    Fp2.powNat xiM ((Bn256.p - 1) / 2) = xiToPMinus1Over2 ∧
    Fp2.powNat xiM ((2 * Bn256.p - 2) / 3) = xiTo2PMinus2Over3 ∧
    Fp2.powNat xiM ((Bn256.p * Bn256.p - 1) / 3) = Fp2.ofGFp xiToPSquaredMinus1Over3 ∧
    Fp2.powNat xiM ((2 * Bn256.p * Bn256.p - 2) / 3) = Fp2.ofGFp xiTo2PSquaredMinus2Over3 ∧
    Fp2.powNat xiM ((Bn256.p * Bn256.p - 1) / 6) = Fp2.ofGFp xiToPSquaredMinus1Over6 := by decide +kernel

/-- the exponents above are exact divisions (p ≡ 1 mod 6) -/
theorem consts_p_mod_6 : Bn256.p % 6 = 1 := by decide

set_option maxRecDepth 1000000 in
/-- the GT identity literal is one, and the GT generator literal is the pairing of the two generators
as the transcribed optimal-ate code computes it (a full Miller loop and final exponentiation in the kernel) -/
theorem consts_gt : gfP12Inf = Fp12.one ∧ optimalAte twistGen curveGen = gfP12Gen := by decide +kernel

end Dos.Props.C10Consts

// Package bn256consts (E1): the numeric constants of group/bn256 as Lean data.
//
// go/parser + go/ast only. Every package-level `var` whose initialiser is a
// bigFromBase10("…") call, a [4]uint64 / []int8 literal, or a (nested)
// composite literal of gfP / gfP2 / gfP6 / gfP12 / curvePoint / twistPoint
// built from gfP{…} limb literals and newGFp(k) calls is emitted, flattened in
// the declared field order of the struct types (read from the type
// declarations, so keyed and positional literals are both handled). The local
// `bits` table of gfP.Invert is emitted as `invertBits`.
package bn256consts

import (
	"fmt"
	"go/ast"
	"go/token"
	"math/big"
	"path/filepath"
	"sort"
	"strings"

	"verifharness/extract/ex"
)

func init() {
	ex.Register(&ex.Extractor{Name: "Bn256Consts", Run: run})
}

type leaf struct {
	limbs  []*big.Int // gfP{…} literal (4 limbs, little-endian)
	newGFp *big.Int   // newGFp(k)
}

type ctx struct {
	structs map[string][]field // struct type name → fields in order
}
type field struct{ name, typ string }

func typeName(e ast.Expr) string {
	switch t := e.(type) {
	case *ast.Ident:
		return t.Name
	case *ast.StarExpr:
		return typeName(t.X)
	}
	return ""
}

func (c *ctx) collectTypes(f *ast.File) {
	for _, d := range f.Decls {
		gd, ok := d.(*ast.GenDecl)
		if !ok || gd.Tok != token.TYPE {
			continue
		}
		for _, s := range gd.Specs {
			ts := s.(*ast.TypeSpec)
			st, ok := ts.Type.(*ast.StructType)
			if !ok {
				continue
			}
			var fs []field
			for _, fl := range st.Fields.List {
				for _, n := range fl.Names {
					fs = append(fs, field{n.Name, typeName(fl.Type)})
				}
			}
			c.structs[ts.Name.Name] = fs
		}
	}
}

func intLit(e ast.Expr) *big.Int {
	return ex.Eval(e, map[string]*big.Int{}, 0)
}

// limbs of a `gfP{…}` / `[4]uint64{…}` literal (missing trailing elements are zero)
func limbLit(cl *ast.CompositeLit, n int) ([]*big.Int, error) {
	if len(cl.Elts) > n {
		return nil, fmt.Errorf("literal with %d > %d elements", len(cl.Elts), n)
	}
	out := make([]*big.Int, n)
	for i := range out {
		out[i] = new(big.Int)
	}
	for i, e := range cl.Elts {
		if _, ok := e.(*ast.KeyValueExpr); ok {
			return nil, fmt.Errorf("keyed array literal not supported")
		}
		v := intLit(e)
		if v == nil || v.Sign() < 0 || v.BitLen() > 64 {
			return nil, fmt.Errorf("limb %d is not a 64-bit literal", i)
		}
		out[i] = v
	}
	return out, nil
}

// flatten evaluates an initialiser of struct type `typ` into leaves.
func (c *ctx) flatten(e ast.Expr, typ string) ([]leaf, error) {
	switch x := e.(type) {
	case *ast.ParenExpr:
		return c.flatten(x.X, typ)
	case *ast.UnaryExpr:
		if x.Op == token.AND {
			return c.flatten(x.X, typ)
		}
	case *ast.StarExpr:
		return c.flatten(x.X, typ)
	case *ast.CallExpr:
		if id, ok := x.Fun.(*ast.Ident); ok && id.Name == "newGFp" && len(x.Args) == 1 {
			if typ != "" && typ != "gfP" {
				return nil, fmt.Errorf("newGFp where %s expected", typ)
			}
			v := intLit(x.Args[0])
			if v == nil {
				return nil, fmt.Errorf("newGFp argument is not a literal")
			}
			return []leaf{{newGFp: v}}, nil
		}
	case *ast.CompositeLit:
		t := typ
		if x.Type != nil {
			t = typeName(x.Type)
		}
		if t == "gfP" {
			l, err := limbLit(x, 4)
			if err != nil {
				return nil, err
			}
			return []leaf{{limbs: l}}, nil
		}
		fs, ok := c.structs[t]
		if !ok {
			return nil, fmt.Errorf("composite literal of unknown type %q", t)
		}
		vals := make([]ast.Expr, len(fs))
		for i, el := range x.Elts {
			if kv, ok := el.(*ast.KeyValueExpr); ok {
				k, _ := kv.Key.(*ast.Ident)
				found := false
				for j, f := range fs {
					if k != nil && f.name == k.Name {
						vals[j], found = kv.Value, true
					}
				}
				if !found {
					return nil, fmt.Errorf("unknown field in %s literal", t)
				}
			} else {
				if i >= len(fs) {
					return nil, fmt.Errorf("too many fields in %s literal", t)
				}
				vals[i] = el
			}
		}
		var out []leaf
		for j, f := range fs {
			if vals[j] == nil {
				return nil, fmt.Errorf("field %s.%s not initialised (zero value not modelled)", t, f.name)
			}
			ls, err := c.flatten(vals[j], f.typ)
			if err != nil {
				return nil, fmt.Errorf("%s.%s: %v", t, f.name, err)
			}
			out = append(out, ls...)
		}
		return out, nil
	}
	return nil, fmt.Errorf("initialiser shape not modelled (%T)", e)
}

func leanLeaves(ls []leaf) string {
	var parts []string
	for _, l := range ls {
		if l.newGFp != nil {
			parts = append(parts, fmt.Sprintf(".newGFp (%s)", l.newGFp))
		} else {
			var ws []string
			for _, w := range l.limbs {
				ws = append(ws, "0x"+w.Text(16))
			}
			parts = append(parts, ".limbs ["+strings.Join(ws, ", ")+"]")
		}
	}
	return "[" + strings.Join(parts, ",\n    ") + "]"
}

func run(repo string) (string, error) {
	dir := filepath.Join(repo, "group", "bn256")
	files := []string{"constants.go", "gfp.go", "gfp2.go", "gfp6.go", "gfp12.go", "curve.go", "twist.go", "optate.go"}
	c := &ctx{structs: map[string][]field{}}
	parsed := map[string]*ast.File{}
	for _, fn := range files {
		_, f, err := ex.Parse(filepath.Join(dir, fn))
		if err != nil {
			return "", err
		}
		parsed[fn] = f
		c.collectTypes(f)
	}
	bigs := map[string]*big.Int{}    // bigFromBase10
	words := map[string][]*big.Int{} // [4]uint64 literals
	leaves := map[string][]leaf{}    // field/curve/tower values
	ints := map[string][]*big.Int{}  // []int8 tables
	for _, fn := range files {
		for _, d := range parsed[fn].Decls {
			gd, ok := d.(*ast.GenDecl)
			if !ok || gd.Tok != token.VAR {
				continue
			}
			for _, s := range gd.Specs {
				vs := s.(*ast.ValueSpec)
				if len(vs.Names) != 1 || len(vs.Values) != 1 {
					continue
				}
				name, val := vs.Names[0].Name, vs.Values[0]
				if call, ok := val.(*ast.CallExpr); ok {
					if id, ok := call.Fun.(*ast.Ident); ok && id.Name == "bigFromBase10" && len(call.Args) == 1 {
						if lit, ok := call.Args[0].(*ast.BasicLit); ok && lit.Kind == token.STRING {
							v, ok := new(big.Int).SetString(strings.Trim(lit.Value, "\"`"), 10)
							if !ok {
								return "", fmt.Errorf("%s: bad decimal", name)
							}
							bigs[name] = v
							continue
						}
					}
				}
				if cl, ok := val.(*ast.CompositeLit); ok {
					if at, ok := cl.Type.(*ast.ArrayType); ok {
						el := typeName(at.Elt)
						if el == "uint64" && at.Len != nil {
							l, err := limbLit(cl, 4)
							if err != nil {
								return "", fmt.Errorf("%s: %v", name, err)
							}
							words[name] = l
							continue
						}
						if el == "int8" {
							var vsn []*big.Int
							for _, e := range cl.Elts {
								v := intLit(e)
								if v == nil {
									return "", fmt.Errorf("%s: non-literal entry", name)
								}
								vsn = append(vsn, v)
							}
							ints[name] = vsn
							continue
						}
					}
				}
				ls, err := c.flatten(val, "")
				if err == nil {
					leaves[name] = ls
				}
			}
		}
	}
	// the exponent table inside gfP.Invert
	inv := ex.FuncDecl(parsed["gfp.go"], "gfP", "Invert")
	if inv == nil {
		return "", fmt.Errorf("gfP.Invert not found")
	}
	var bits []*big.Int
	ast.Inspect(inv.Body, func(n ast.Node) bool {
		as, ok := n.(*ast.AssignStmt)
		if !ok || len(as.Lhs) != 1 || len(as.Rhs) != 1 {
			return true
		}
		if id, ok := as.Lhs[0].(*ast.Ident); ok && id.Name == "bits" {
			if cl, ok := as.Rhs[0].(*ast.CompositeLit); ok {
				if l, err := limbLit(cl, 4); err == nil {
					bits = l
				}
			}
		}
		return true
	})
	if bits == nil {
		return "", fmt.Errorf("`bits` table of gfP.Invert not found")
	}

	need := func(m interface{}, names ...string) error {
		for _, n := range names {
			ok := false
			switch mm := m.(type) {
			case map[string]*big.Int:
				_, ok = mm[n]
			case map[string][]*big.Int:
				_, ok = mm[n]
			case map[string][]leaf:
				_, ok = mm[n]
			}
			if !ok {
				return fmt.Errorf("constant %s not found (or its initialiser has an unmodelled shape)", n)
			}
		}
		return nil
	}
	if err := need(bigs, "u", "Order", "P"); err != nil {
		return "", err
	}
	if err := need(words, "p2", "np"); err != nil {
		return "", err
	}
	if err := need(ints, "sixuPlus2NAF"); err != nil {
		return "", err
	}
	if err := need(leaves, "rN1", "r2", "r3", "xiToPMinus1Over6", "xiToPMinus1Over3", "xiToPMinus1Over2",
		"xiToPSquaredMinus1Over3", "xiTo2PSquaredMinus2Over3", "xiToPSquaredMinus1Over6", "xiTo2PMinus2Over3",
		"curveB", "curveGen", "twistB", "twistGen", "gfP12Gen", "gfP12Inf"); err != nil {
		return "", err
	}

	s := ex.Header("Bn256Consts", "group/bn256/{constants,gfp,gfp12,curve,twist,optate}.go")
	s += "namespace Dos.Gen.Bn256\n\n"
	s += "/-- a base-field value as the source writes it: four little-endian 64-bit limbs (Montgomery form)\nor a call `newGFp(k)` -/\n"
	s += "inductive Leaf\n  | limbs (l : List Nat)\n  | newGFp (k : Int)\n  deriving Repr, DecidableEq\n\n"
	for _, n := range sortedKeys(bigs) {
		s += fmt.Sprintf("def %s : Nat := %s\n", leanName(n), bigs[n])
	}
	s += "\n"
	for _, n := range sortedKeysW(words) {
		s += fmt.Sprintf("def %s : List Nat := %s\n", leanName(n), leanWords(words[n]))
	}
	s += fmt.Sprintf("/-- `bits` in gfP.Invert -/\ndef invertBits : List Nat := %s\n\n", leanWords(bits))
	for _, n := range sortedKeysW(ints) {
		var ws []string
		for _, w := range ints[n] {
			ws = append(ws, w.String())
		}
		s += fmt.Sprintf("def %s : List Int := [%s]\n", leanName(n), strings.Join(ws, ", "))
	}
	s += "\n"
	var ln []string
	for k := range leaves {
		ln = append(ln, k)
	}
	sort.Strings(ln)
	for _, n := range ln {
		s += fmt.Sprintf("def %s : List Leaf :=\n   %s\n", leanName(n), leanLeaves(leaves[n]))
	}
	s += "\nend Dos.Gen.Bn256\n"
	return s, nil
}

func leanWords(ws []*big.Int) string {
	var p []string
	for _, w := range ws {
		p = append(p, "0x"+w.Text(16))
	}
	return "[" + strings.Join(p, ", ") + "]"
}

func leanName(n string) string {
	switch n {
	case "P", "Order", "u":
		return n
	}
	return n
}

func sortedKeys(m map[string]*big.Int) []string {
	var k []string
	for n := range m {
		k = append(k, n)
	}
	sort.Strings(k)
	return k
}
func sortedKeysW(m map[string][]*big.Int) []string {
	var k []string
	for n := range m {
		k = append(k, n)
	}
	sort.Strings(k)
	return k
}

/-
Symbolic ATTACKER KNOWLEDGE for the sealing scheme of `share/vss/pedersen` (round 5, review C finding 2):
who can READ a dealt share.  `Model/VssSym.lean` says which verifier `decryptDeal` succeeds for; an
observer that never calls `decryptDeal` is not a verifier, so confidentiality needs a derivability
relation.  Dolev–Yao term algebra of exactly what `Dealer.EncryptedDeal` / `dhExchange` / `newAEAD`
compute (their texts are pinned by `c08_code_shape`):

* secrets are atomic NAMES (long-term keys, the ephemeral secret, the share value) – unguessable;
* a point is the base point raised to a multiset of names: `pt [a, b]` is `(a·b)·G`, so
  `dhExchange(a, b·G) = dhExchange(b, a·G)` holds by construction (`Knows.perm`);
* `kdf shared ctx` is HKDF (one way), `seal key msg` the AEAD (opens with exactly that key),
  `hash t` one way, `pair` concatenation; contexts, nonces and signatures are public data and carry
  no secret, they are left out of the terms.

`Knows K t`: the term `t` is derivable from the set `K` – pairing and projection, exponentiation of a
known point with a known name, key derivation and hashing forward only, sealing with known key and
message, opening a known ciphertext with a known key.  NOT derivable: a name from a point (discrete
logarithm), a point from a key, a message from a ciphertext without its key.  Group addition of
points is not a constructor (the Go observer of go/props/c08 tries sums and differences on the
real code).
-/
namespace Dos.Vss.Knows

inductive T where
  | name (n : Nat)
  | pt (es : List Nat)
  | kdf (shared : T) (ctx : Nat)
  | seal (key msg : T)
  | hash (t : T)
  | pair (a b : T)
  deriving DecidableEq, Repr

inductive Knows (K : T → Prop) : T → Prop
  | init {t} : K t → Knows K t
  | base : Knows K (.pt [])
  | exp {a es} : Knows K (.name a) → Knows K (.pt es) → Knows K (.pt (a :: es))
  | perm {es es'} : Knows K (.pt es) → es.Perm es' → Knows K (.pt es')
  | kdf {p} (c : Nat) : Knows K p → Knows K (.kdf p c)
  | hash {t} : Knows K t → Knows K (.hash t)
  | enc {k m} : Knows K k → Knows K m → Knows K (.seal k m)
  | open_ {k m} : Knows K (.seal k m) → Knows K k → Knows K m
  | pair {a b} : Knows K a → Knows K b → Knows K (.pair a b)
  | fst {a b} : Knows K (.pair a b) → Knows K a
  | snd {a b} : Knows K (.pair a b) → Knows K b

/-- one dealing seen from outside: dealer `dlong`, recipient `long`, ephemeral `eph`, share value `v`,
context number `ctx`; `others` are the names the attacker holds (every OTHER member's long-term key,
its own ephemerals, …); `pubs` the exponents of the public keys on the member list -/
structure Scene where
  dlong : Nat
  long : Nat
  eph : Nat
  v : Nat
  ctx : Nat
  others : List Nat
  pubs : List Nat

/-- the AEAD key of the dealer's deal for the recipient: `kdf(dhExchange(eph, long·G), ctx)` -/
def Scene.key (s : Scene) : T := .kdf (.pt [s.eph, s.long]) s.ctx

/-- the ciphertext on the wire (the plaintext deal carries the share value; commitments are public) -/
def Scene.cipher (s : Scene) : T := .seal s.key (.name s.v)

/-- what the attacker starts with: every other secret, every public key, the DH key on the wire, the
ciphertext -/
def Scene.wire (s : Scene) : T → Prop := fun t =>
  (∃ n, n ∈ s.others ∧ t = .name n) ∨ (∃ n, n ∈ s.pubs ∧ t = .pt [n]) ∨ t = .pt [s.dlong] ∨ t = .pt [s.long] ∨
  t = .pt [s.eph] ∨ t = s.cipher

end Dos.Vss.Knows

package c18

import (
	"fmt"
	"math/big"
	"reflect"
	"strings"
	"sync"

	"github.com/DOSNetwork/core/onchain/commitreveal"
	"github.com/DOSNetwork/core/onchain/dosproxy"
	"github.com/ethereum/go-ethereum/accounts/abi"
	"github.com/ethereum/go-ethereum/common"

	"verifharness/internal/h"
)

// What each subscription index MEANS (read off the contract ABIs and the property, not off the
// table under test): which contract emits it, the ABI event, the node event type handed to the handlers.
type evSpec struct {
	idx  int
	cr   bool
	name string
}

var specs = []evSpec{
	{0, false, "LogUpdateRandom"}, {1, false, "LogRequestUserRandom"}, {2, false, "LogUrl"},
	{3, false, "LogValidationResult"}, {4, false, "LogGrouping"}, {5, false, "LogPublicKeyAccepted"},
	{6, false, "LogPublicKeySuggested"}, {7, false, "LogGroupDissolve"}, {8, false, "LogInsufficientPendingNode"},
	{9, false, "LogInsufficientWorkingGroup"}, {11, false, "LogGroupingInitiated"},
	{13, true, "LogStartCommitReveal"}, {14, true, "LogCommit"}, {15, true, "LogReveal"}, {16, true, "LogRandom"},
}

// the seven the node subscribes to (dosnode/dos_chain_handler.go)
var nodeSubscribes = []int{4, 7, 2, 0, 1, 5, 13}

func specOf(idx int) *evSpec {
	for i := range specs {
		if specs[i].idx == idx {
			return &specs[i]
		}
	}
	return nil
}
func isSubscribed(idx int) bool {
	for _, s := range nodeSubscribes {
		if s == idx {
			return true
		}
	}
	return false
}

// node-struct field → ABI argument, where the names differ (the only renamings the property admits)
var renamed = map[string]string{
	"LogPublicKeyAccepted.WorkingGroupSize": "numWorkingGroups",
	"LogPublicKeySuggested.Count":           "pubKeyCount",
}

var (
	proxyABI, crABI abi.ABI
	abiOnce         sync.Once
)

func abis() {
	abiOnce.Do(func() {
		var err error
		if proxyABI, err = abi.JSON(strings.NewReader(dosproxy.DosproxyABI)); err != nil {
			panic(err)
		}
		if crABI, err = abi.JSON(strings.NewReader(commitreveal.CommitrevealABI)); err != nil {
			panic(err)
		}
	})
}

// refEventsJSON: the events as the deployed contracts declare them (DOSProxy.sol, CommitReveal.sol) — the harness'
// own statement of what is on the chain, independent of the bindings under test.  The logs the chain double emits
// (topic 0, data) are built from THIS description.
const refEventsJSON = `[
{"type":"event","name":"LogUpdateRandom","inputs":[{"name":"lastRandomness","type":"uint256"},{"name":"dispatchedGroupId","type":"uint256"}]},
{"type":"event","name":"LogRequestUserRandom","inputs":[{"name":"requestId","type":"uint256"},{"name":"lastSystemRandomness","type":"uint256"},{"name":"userSeed","type":"uint256"},{"name":"dispatchedGroupId","type":"uint256"}]},
{"type":"event","name":"LogUrl","inputs":[{"name":"queryId","type":"uint256"},{"name":"timeout","type":"uint256"},{"name":"dataSource","type":"string"},{"name":"selector","type":"string"},{"name":"randomness","type":"uint256"},{"name":"dispatchedGroupId","type":"uint256"}]},
{"type":"event","name":"LogValidationResult","inputs":[{"name":"trafficType","type":"uint8"},{"name":"trafficId","type":"uint256"},{"name":"message","type":"bytes"},{"name":"signature","type":"uint256[2]"},{"name":"pubKey","type":"uint256[4]"},{"name":"pass","type":"bool"}]},
{"type":"event","name":"LogGrouping","inputs":[{"name":"groupId","type":"uint256"},{"name":"nodeId","type":"address[]"}]},
{"type":"event","name":"LogPublicKeyAccepted","inputs":[{"name":"groupId","type":"uint256"},{"name":"pubKey","type":"uint256[4]"},{"name":"numWorkingGroups","type":"uint256"}]},
{"type":"event","name":"LogPublicKeySuggested","inputs":[{"name":"groupId","type":"uint256"},{"name":"pubKeyCount","type":"uint256"}]},
{"type":"event","name":"LogGroupDissolve","inputs":[{"name":"groupId","type":"uint256"}]},
{"type":"event","name":"LogInsufficientPendingNode","inputs":[{"name":"numPendingNodes","type":"uint256"}]},
{"type":"event","name":"LogInsufficientWorkingGroup","inputs":[{"name":"numWorkingGroups","type":"uint256"},{"name":"numPendingGroups","type":"uint256"}]},
{"type":"event","name":"LogGroupingInitiated","inputs":[{"name":"pendingNodePool","type":"uint256"},{"name":"groupsize","type":"uint256"}]},
{"type":"event","name":"LogStartCommitReveal","inputs":[{"name":"cid","type":"uint256"},{"name":"startBlock","type":"uint256"},{"name":"commitDuration","type":"uint256"},{"name":"revealDuration","type":"uint256"},{"name":"revealThreshold","type":"uint256"}]},
{"type":"event","name":"LogCommit","inputs":[{"name":"cid","type":"uint256"},{"name":"from","type":"address"},{"name":"commitment","type":"bytes32"}]},
{"type":"event","name":"LogReveal","inputs":[{"name":"cid","type":"uint256"},{"name":"from","type":"address"},{"name":"secret","type":"uint256"}]},
{"type":"event","name":"LogRandom","inputs":[{"name":"cid","type":"uint256"},{"name":"random","type":"uint256"}]}
]`

var (
	refEvents abi.ABI
	refOnce   sync.Once
)

// event: the reference description (not the binding's embedded ABI).
func (s *evSpec) event() abi.Event {
	refOnce.Do(func() {
		var err error
		if refEvents, err = abi.JSON(strings.NewReader(refEventsJSON)); err != nil {
			panic(err)
		}
	})
	ev, ok := refEvents.Events[s.name]
	if !ok {
		panic("no reference event " + s.name)
	}
	return ev
}

// bindingEvent: what the binding under test believes the event is.
func (s *evSpec) bindingEvent() abi.Event {
	abis()
	if s.cr {
		return crABI.Events[s.name]
	}
	return proxyABI.Events[s.name]
}

func decs(s string) []*big.Int {
	var r []*big.Int
	for _, p := range strings.Split(s, ",") {
		r = append(r, h.BigDec(p))
	}
	return r
}

// parseValue turns the canonical text of one ABI value into the Go value abi.Pack wants.
func parseValue(t abi.Type, s string) interface{} {
	switch t.String() {
	case "uint256":
		return h.BigDec(s)
	case "uint8":
		return uint8(h.Atoi(s))
	case "string":
		return string(h.UnHex(s))
	case "bytes":
		b := h.UnHex(s)
		if b == nil {
			b = []byte{}
		}
		return b
	case "bool":
		return s == "true"
	case "address":
		return common.BytesToAddress(h.UnHex(s))
	case "address[]":
		r := []common.Address{}
		if s != "-" {
			for _, p := range strings.Split(s, ",") {
				r = append(r, common.BytesToAddress(h.UnHex(p)))
			}
		}
		return r
	case "uint256[2]":
		var a [2]*big.Int
		copy(a[:], decs(s))
		return a
	case "uint256[4]":
		var a [4]*big.Int
		copy(a[:], decs(s))
		return a
	case "bytes32":
		var a [32]byte
		copy(a[:], h.UnHex(s))
		return a
	}
	panic("unsupported ABI type " + t.String())
}

func bigText(v *big.Int) string {
	if v == nil {
		return "nil"
	}
	return v.String()
}

// text renders any delivered / decoded Go value canonically.
func text(v interface{}) string {
	switch x := v.(type) {
	case *big.Int:
		return bigText(x)
	case uint8:
		return fmt.Sprint(x)
	case string:
		return h.Hex([]byte(x))
	case []byte:
		return h.Hex(x)
	case bool:
		return fmt.Sprint(x)
	case common.Address:
		return h.Hex(x[:])
	case [32]byte:
		return h.Hex(x[:])
	case [2]*big.Int:
		return bigText(x[0]) + "," + bigText(x[1])
	case [4]*big.Int:
		return bigText(x[0]) + "," + bigText(x[1]) + "," + bigText(x[2]) + "," + bigText(x[3])
	case [][]byte:
		if len(x) == 0 {
			return "-"
		}
		var p []string
		for _, b := range x {
			p = append(p, h.Hex(b))
		}
		return strings.Join(p, ",")
	case []common.Address:
		if len(x) == 0 {
			return "-"
		}
		var p []string
		for _, b := range x {
			p = append(p, h.Hex(b[:]))
		}
		return strings.Join(p, ",")
	}
	return fmt.Sprintf("?%T", v)
}

// render prints a delivered node event (pointer to struct) as Name{F=v;…} in declaration order.
func render(ev interface{}) (name string, fields [][2]string, s string) {
	rv := reflect.ValueOf(ev)
	if rv.Kind() != reflect.Ptr || rv.IsNil() || rv.Elem().Kind() != reflect.Struct {
		return "", nil, fmt.Sprintf("?%T", ev)
	}
	st := rv.Elem()
	name = st.Type().Name()
	var parts []string
	for i := 0; i < st.NumField(); i++ {
		f := st.Type().Field(i)
		t := text(st.Field(i).Interface())
		fields = append(fields, [2]string{f.Name, t})
		parts = append(parts, f.Name+"="+t)
	}
	return name, fields, name + "{" + strings.Join(parts, ";") + "}"
}

func lowerFirst(s string) string {
	if s == "" {
		return s
	}
	return strings.ToLower(s[:1]) + s[1:]
}

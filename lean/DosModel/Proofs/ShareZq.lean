/-
Bridge between the executable scalar type `Zq q` (core Lean, used by the drivers) and
Mathlib's `ZMod q`: for a prime `q` the operations the driver runs ARE field operations,
i.e. `Zq q` is a field (and, as a module over itself, the discrete-log representation of a
cyclic group of order `q`).  Every theorem of `Props/C09.lean`, `C02.lean`, `C03.lean`,
stated for an arbitrary field and module, therefore applies to the driver's own instance.
-/
import Mathlib.Algebra.Field.ZMod
import Mathlib.Algebra.Field.TransferInstance
import Mathlib.FieldTheory.Finite.Basic
import DosModel.Model.ShareZq

namespace Dos.Zq
variable {q : Nat}

theorem powModAux_eq (b q : Nat) : ∀ fuel e, e < 2 ^ fuel → powModAux b q fuel e = b ^ e % q := by
  intro fuel
  induction fuel with
  | zero => intro e he; have : e = 0 := by simpa using he
            subst this; simp [powModAux]
  | succ fuel ih =>
    intro e he
    unfold powModAux
    by_cases h : e = 0
    · simp [h]
    · simp only [h, if_false]
      have hlt : e / 2 < 2 ^ fuel := by
        rw [Nat.div_lt_iff_lt_mul (by decide)]; rw [pow_succ] at he; exact he
      rw [ih _ hlt]
      have hsq : b ^ (e / 2) % q * (b ^ (e / 2) % q) % q = b ^ (2 * (e / 2)) % q := by
        rw [← Nat.mul_mod, two_mul, pow_add]
      rw [hsq]
      by_cases hodd : e % 2 = 1
      · simp only [hodd, if_true]
        conv_rhs => rw [← Nat.div_add_mod e 2, hodd, pow_succ]
        rw [Nat.mul_mod, Nat.mod_mod, ← Nat.mul_mod]
      · have h0 : e % 2 = 0 := by omega
        simp only [h0, Nat.zero_ne_one, if_false]
        conv_rhs => rw [← Nat.div_add_mod e 2, h0, Nat.add_zero]

theorem powMod_eq (b e q : Nat) : powMod b e q = b ^ e % q :=
  powModAux_eq b q _ e Nat.lt_log2_self

/-- the value of a `Zq` as an element of `ZMod q` -/
def toZMod (a : Zq q) : ZMod q := (a.val : ZMod q)

theorem toZMod_injective : Function.Injective (toZMod (q := q)) := by
  intro a b h
  have := (ZMod.natCast_eq_natCast_iff' a.val b.val q).1 h
  rw [Nat.mod_eq_of_lt a.lt, Nat.mod_eq_of_lt b.lt] at this
  cases a; cases b; simp_all

section
set_option linter.unusedSectionVars false
variable [NeZero q]

/-- `Zq q ≃ ZMod q` -/
def equiv : Zq q ≃ ZMod q where
  toFun := toZMod
  invFun z := ⟨z.val, ZMod.val_lt z⟩
  left_inv a := by
    apply toZMod_injective
    simp [toZMod]
  right_inv z := by simp [toZMod]

@[simp] theorem equiv_apply (a : Zq q) : equiv a = (a.val : ZMod q) := rfl

theorem toZMod_zero : toZMod (0 : Zq q) = 0 := by
  show ((0 % q : Nat) : ZMod q) = 0
  simp
theorem toZMod_one : toZMod (1 : Zq q) = 1 := by
  show ((1 % q : Nat) : ZMod q) = 1
  rw [ZMod.natCast_mod]; simp
theorem toZMod_add (a b : Zq q) : toZMod (a + b) = toZMod a + toZMod b := by
  show (((a.val + b.val) % q : Nat) : ZMod q) = _
  rw [ZMod.natCast_mod]; simp [toZMod]
theorem toZMod_mul (a b : Zq q) : toZMod (a * b) = toZMod a * toZMod b := by
  show (((a.val * b.val) % q : Nat) : ZMod q) = _
  rw [ZMod.natCast_mod]; simp [toZMod]
theorem toZMod_neg (a : Zq q) : toZMod (-a) = -toZMod a := by
  show (((q - a.val) % q : Nat) : ZMod q) = _
  rw [ZMod.natCast_mod, Nat.cast_sub (Nat.le_of_lt a.lt)]; simp [toZMod]
theorem toZMod_sub (a b : Zq q) : toZMod (a - b) = toZMod a - toZMod b := by
  show (((a.val + (q - b.val)) % q : Nat) : ZMod q) = _
  rw [ZMod.natCast_mod, Nat.cast_add, Nat.cast_sub (Nat.le_of_lt b.lt)]; simp [toZMod, sub_eq_add_neg]
theorem toZMod_natCast (n : Nat) : toZMod ((n : Zq q)) = n := by
  show ((n % q : Nat) : ZMod q) = _
  rw [ZMod.natCast_mod]
theorem toZMod_intCast (z : Int) : toZMod ((z : Zq q)) = z := by
  show (((z % (q : Int)).toNat % q : Nat) : ZMod q) = _
  rw [ZMod.natCast_mod]
  have hq : (0 : Int) < q := by exact_mod_cast Nat.pos_of_ne_zero (NeZero.ne q)
  have h0 : 0 ≤ z % (q : Int) := Int.emod_nonneg _ (ne_of_gt hq)
  have h1 : (((z % (q : Int)).toNat : Nat) : ZMod q) = (((z % (q : Int)).toNat : Int) : ZMod q) :=
    (Int.cast_natCast _).symm
  rw [h1, Int.toNat_of_nonneg h0, ZMod.intCast_mod]

end

section
variable [Fact q.Prime]

instance instNeZeroOfPrime : NeZero q := ⟨(Fact.out : q.Prime).ne_zero⟩

theorem toZMod_inv (a : Zq q) : toZMod a⁻¹ = (toZMod a)⁻¹ := by
  show toZMod (if a.val = 0 then a else ⟨powMod a.val (q - 2) q % q, _⟩) = _
  by_cases h : a.val = 0
  · simp [h, toZMod]
  · simp only [h, if_false]
    show (((powMod a.val (q - 2) q % q : Nat)) : ZMod q) = _
    rw [ZMod.natCast_mod, powMod_eq, ZMod.natCast_mod, Nat.cast_pow]
    have hne : (a.val : ZMod q) ≠ 0 := by
      intro h0
      rw [ZMod.natCast_eq_zero_iff] at h0
      exact h (Nat.eq_zero_of_dvd_of_lt h0 a.lt)
    have hp : 2 ≤ q := (Fact.out : q.Prime).two_le
    have h1 : (a.val : ZMod q) ^ (q - 1) = 1 := ZMod.pow_card_sub_one_eq_one hne
    have : (a.val : ZMod q) ^ (q - 2) * (a.val : ZMod q) = 1 := by
      rw [← pow_succ]; convert h1 using 2; omega
    exact eq_inv_of_mul_eq_one_left this

/-- `Zq q` is a field for a prime `q`, with exactly the operations the driver executes
(`+ * - ⁻¹ 0 1`, number and integer literals); the remaining structure (`/`, powers, rational
scalars) is transported from `ZMod q`. -/
instance instField : Field (Zq q) := by
  letI : Div (Zq q) := (equiv (q := q)).div
  letI : Pow (Zq q) ℕ := (equiv (q := q)).pow ℕ
  letI : Pow (Zq q) ℤ := (equiv (q := q)).pow ℤ
  letI : SMul ℕ (Zq q) := (equiv (q := q)).smul ℕ
  letI : SMul ℤ (Zq q) := (equiv (q := q)).smul ℤ
  letI : SMul ℚ≥0 (Zq q) := (equiv (q := q)).smul ℚ≥0
  letI : SMul ℚ (Zq q) := (equiv (q := q)).smul ℚ
  letI : NNRatCast (Zq q) := (equiv (q := q)).nnratCast
  letI : RatCast (Zq q) := (equiv (q := q)).ratCast
  exact toZMod_injective.field toZMod toZMod_zero toZMod_one toZMod_add toZMod_mul toZMod_neg
    toZMod_sub toZMod_inv
    (fun _ _ => (equiv (q := q)).apply_symm_apply _)
    (fun _ _ => (equiv (q := q)).apply_symm_apply _)
    (fun _ _ => (equiv (q := q)).apply_symm_apply _)
    (fun _ _ => (equiv (q := q)).apply_symm_apply _)
    (fun _ _ => (equiv (q := q)).apply_symm_apply _)
    (fun _ _ => (equiv (q := q)).apply_symm_apply _)
    (fun _ _ => (equiv (q := q)).apply_symm_apply _)
    toZMod_natCast toZMod_intCast
    (fun _ => (equiv (q := q)).apply_symm_apply _)
    (fun _ => (equiv (q := q)).apply_symm_apply _)

/-- the instances the model functions pick up from `Field (Zq q)` are the executable ones -/
example : (instField (q := q)).toInv = (inferInstance : Inv (Zq q)) := rfl
example (a b : Zq q) : a * b = (⟨(a.val * b.val) % q, Nat.mod_lt _ a.pos⟩ : Zq q) := rfl
/-- the discrete-log module: `s • p = s * p` -/
example (s p : Zq q) : s • p = s * p := rfl

/-- distinct share indices below the group order give distinct evaluation points -/
theorem intCast_injOn (n : Nat) (hn : n ≤ q) (a b : Int) (ha : 0 ≤ a ∧ a < n) (hb : 0 ≤ b ∧ b < n)
    (h : ((a : Int) : Zq q) = ((b : Int) : Zq q)) : a = b := by
  have h' := congrArg toZMod h
  rw [toZMod_intCast, toZMod_intCast, ZMod.intCast_eq_intCast_iff] at h'
  have h2 : a % (q : Int) = b % (q : Int) := h'
  have hq : (n : Int) ≤ q := by exact_mod_cast hn
  rwa [Int.emod_eq_of_lt ha.1 (by omega), Int.emod_eq_of_lt hb.1 (by omega)] at h2

/-- `1, …, n` are non-zero modulo a prime `q > n` -/
theorem natCast_ne_zero (k : Nat) (hk : 0 < k) (hkq : k < q) : ((k : Nat) : Zq q) ≠ 0 := by
  intro h0
  have h1 : toZMod ((k : Nat) : Zq q) = 0 := by rw [h0]; exact toZMod_zero
  rw [toZMod_natCast, ZMod.natCast_eq_zero_iff] at h1
  exact absurd (Nat.le_of_dvd hk h1) (by omega)

end
end Dos.Zq

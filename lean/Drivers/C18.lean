import DosModel.Model.Events
import DosModel.Model.EventAbi
import DosModel.Model.Keccak
import DosModel.Gen.EventTable
/-!
Line-protocol driver for C18 (grammar: go/props/c18/c18.go).

  fe <items>                 `firstEvent` on exactly this arrival order
  tw <ms> <tokens>           `firstEvent` with its timers firing (window shortened through a hook): `w` = every timer
                             started so far has fired (one `expire` item per identity observed so far)
  mg <stream/stream/…>       merge + firstEvent, compared as a set (sorted)
  sub <nws> <types> <H> <S> <drop>
                             real adaptor: delivered node events are rendered through the REGENERATED
                             subscription table (Gen.EventTable), the delivered set is the fold over the
                             emitted items
  al <idx> v <v1;v2;…>       ABI layer, well-formed: the log the contract emits for these argument values
                             (MODEL encoding: topic0 by the Lean Keccak-256, data = Abi.encodeRaw) and what the
                             binding + table entry make of it (Abi.decodeLog, then the regenerated table)
  al <idx> r <topics> <data> ABI layer, arbitrary raw log (malformed ones): Abi.decodeLog outcome ok … | err | panic
-/
namespace Dos.C18Drv
open Dos Dos.Events Dos.Gen.EventTable Dos.Abi Dos.EventAbi

def runItems (xs : List DItem) : List String := firstEvent (fun b => b) xs

/-- zero value of a Go field type, as the harness renders it -/
def zeroText (ty : String) : String :=
  if ty == "*big.Int" then "nil"
  else if ty == "uint8" || ty == "uint64" then "0"
  else if ty == "bool" then "false"
  else if ty == "[2]*big.Int" then "nil,nil"
  else if ty == "[4]*big.Int" then "nil,nil,nil,nil"
  else if ty == "common.Address" then String.join (List.replicate 20 "00")
  else if ty == "[32]byte" then String.join (List.replicate 32 "00")
  else "-"

def lookupStr {β : Type} (l : List (String × β)) (k : String) : Option β :=
  (l.find? (fun p => p.1 == k)).map (·.2)

/-- render the node event the table entry of subscription index `t` builds from ABI values `vals` -/
def renderLog (t : Nat) (vals : List String) : String :=
  match entries.find? (fun e => e.index == t) with
  | none => s!"?no-entry-{t}"
  | some e =>
    match bindingStructs.find? (fun s => s.name == e.binding), nodeStructs.find? (fun s => s.name == e.target) with
    | some b, some n =>
      let bfields := (b.fields.filter (fun f => f.1 != "Raw")).map (·.1)
      let env := bfields.zip vals
      let parts := n.fields.map (fun (f : String × String) =>
        let v := match lookupStr e.assigns f.1 with
          | some (.field src) => (lookupStr env src).getD "?missing"
          | some (.mapAddrBytes src) => (lookupStr env src).getD "?missing"
          | some (.other _) => "?other"
          | none => zeroText f.2
        f.1 ++ "=" ++ v)
      e.target ++ "{" ++ String.intercalate ";" parts ++ "}"
    | _, _ => s!"?no-struct-{t}"

/-- render what the table entry of index `t` delivers when the binding struct was filled with `vals`
(`none`: the field kept its Go zero value) -/
def renderDecoded (ev : Ev) (vals : List (Option AbiVal)) : String :=
  match entries.find? (fun e => e.index == ev.index) with
  | none => s!"?no-entry-{ev.index}"
  | some e =>
    match bindingStructs.find? (fun s => s.name == e.binding) with
    | none => s!"?no-struct-{ev.index}"
    | some b =>
      let btys := (b.fields.filter (fun f => f.1 != "Raw")).map (·.2)
      let texts := (List.range vals.length).map (fun k =>
        match vals[k]?, ev.spec.inputs[k]? with
        | some (some v), some i => showVal i.ty v
        | _, _ => zeroText (btys.getD k "?"))
      renderLog ev.index texts

def showTopics (ts : List Bytes) : String :=
  if ts.isEmpty then "-" else String.intercalate "," (ts.map toHex)

def showRes (ev : Ev) : Dec (List (Option AbiVal)) → String
  | .ok vals => "ok " ++ renderDecoded ev vals
  | .error .err => "err"
  | .error (.panic _) => "panic"

structure HLog where
  t : Nat
  blockN : Nat
  tx : Nat
  index : Nat
  vals : List String

def parseHLog (s : String) : Option HLog :=
  match s.splitOn ";" with
  | t :: bn :: tx :: ix :: vals => do
    pure { t := ← t.toNat?, blockN := ← bn.toNat?, tx := ← tx.toNat?, index := ← ix.toNat?, vals := vals }
  | _ => none

def parseStreamItem (H : List HLog) (s : String) : Option DItem := do
  let removed := s.endsWith "r"
  let num := if removed then (s.dropEnd 1).toString else s
  let j ← num.toNat?
  let l ← H[j]?
  pure (.log { data := (String.intercalate ";" l.vals).toUTF8.toList, blockN := l.blockN, tx := natBE 32 l.tx,
               index := l.index, removed := removed, payload := renderLog l.t l.vals })

def parseStream (H : List HLog) (s : String) : Option (List DItem) :=
  if s == "-" then some [] else (s.splitOn ",").mapM (parseStreamItem H)

def step (line : String) : String :=
  match words line with
  | ["fe", items] =>
    match parseItems items with
    | some xs => showOut (runItems xs)
    | none => "bad-op"
  | ["tw", _, toks] =>
    match parseTw toks with
    | some xs => showOut (runItems xs)
    | none => "bad-op"
  | ["mg", streams] =>
    match (streams.splitOn "/").mapM parseItems with
    | some ss => showOut (sortStrings (runItems ss.flatten))
    | none => "bad-op"
  | ["ent", l, removed] =>
    match parseHLog l with
    | none => "bad-op"
    | some hl =>
      match entries.find? (fun e => e.index == hl.t) with
      | none => "no-entry"
      | some e =>
        -- evaluate the source expressions of the entry's LogCommon literal on the emitted log
        let ev (src : String) : String :=
          if src == "i.Raw.TxHash.Hex()" then "0x" ++ String.join ((natBE 32 hl.tx).map hexOfByte)
          else if src == "i.Raw.BlockNumber" then toString hl.blockN
          else if src == "i.Raw.Removed" then (if removed == "1" then "true" else "false")
          else if src == "i.Raw" then "same"
          else "?" ++ src
        let fld (f : String) : String := match lookupStr e.common f with
          | some src => ev src
          | none => "?unset"
        s!"Tx={fld "Tx"} BlockN={fld "BlockN"} Removed={fld "Removed"} Raw={fld "Raw"}"
  | ["al", idx, "v", vals] =>
    match idx.toNat? >>= eventOf with
    | none => "bad-op"
    | some ev =>
      match parseVals ev.spec.types (if ev.spec.inputs.isEmpty then [] else vals.splitOn ";") with
      | none => "bad-op"
      | some vs =>
        let l := emit Keccak.keccak256 ev vs
        s!"log={showTopics l.topics}/{dataText l.data} res={showRes ev (receive Keccak.keccak256 ev l)}"
  | ["al", idx, "r", topics, data] =>
    match idx.toNat? >>= eventOf, (if topics == "-" then some [] else (topics.splitOn ",").mapM ofHex), ofHex data with
    | some ev, some ts, some d =>
      let l : RawLog := { topics := ts, data := d }
      s!"log={showTopics l.topics}/{dataText l.data} res={showRes ev (receive Keccak.keccak256 ev l)}"
    | _, _, _ => "bad-op"
  | "sub" :: _ :: types :: hs :: ss :: drop :: rest =>
    let H? := if hs == "-" then some [] else (hs.splitOn "|").mapM parseHLog
    match H?, csvNat types with
    | some H, some tl =>
      let after? : Option (List (List DItem)) := match rest with
        | [s2] => (s2.splitOn "/").mapM (parseStream H)
        | _ => some []
      match (ss.splitOn "/").mapM (parseStream H), after? with
      | some streams, some after =>
        match drop.splitOn "@" with
        | [e, pos] =>
          match e.toNat?, pos.toNat? with
          | some e, some pos =>
            -- items a dropped endpoint never emitted are not part of the run
            let phase1 := (List.range streams.length).zipWith (fun i (s : List DItem) => if i == e then s.take pos else s) streams
            -- every subscription of the failed endpoint reports an error; the Idx it carries is what the
            -- REGENERATED table entry computes; the consumer disconnects that endpoint
            let reports := tl.map (fun t => match entries.find? (fun en => en.index == t) with
              | some en => match en.errs.find? (fun r => r.1 == "subErr") with
                | some r => (reportIdx r.2.2 e).getD 999
                | none => 999
              | none => 999)
            let phase2 := (List.range after.length).zipWith
              (fun i (s : List DItem) => if i == e || reports.contains i then [] else s) after
            let out := sortStrings (runItems (phase1.flatten ++ phase2.flatten))
            let errs := sortStrings (reports.map toString)
            "out " ++ (if out.isEmpty then "-" else String.intercalate "|" out) ++ " errs=" ++ String.intercalate "," errs
          | _, _ => "bad-op"
        | _ =>
          let out := sortStrings (runItems (streams.flatten ++ after.flatten))
          "out " ++ (if out.isEmpty then "-" else String.intercalate "|" out)
      | _, _ => "bad-op"
    | _, _ => "bad-op"
  | _ => "bad-op"

end Dos.C18Drv

def main : IO Unit := Dos.lineLoop Dos.C18Drv.step

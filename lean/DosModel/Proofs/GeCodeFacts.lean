/-
C20 (round 4) — the three remaining facts about the translated point code, collected for `codeGrp_lawful`:
decode∘encode (Proofs/GeDec*.lean), scalar multiplication (Proofs/GeScalarMult*.lean), ℓ•B = 0 (Proofs/GeNatOrder.lean).
-/
import DosModel.Proofs.GeLawful
import DosModel.Proofs.GeDec3
import DosModel.Proofs.GeScalarMult
import DosModel.Proofs.GeNatOrder

namespace Dos.Ge
open Dos Dos.Ed25519 Dos.Schnorr

theorem codeFacts : CodeFacts :=
  { dec_enc := extFromBytes_enc
    smul := fun a hlen h31 _ _ hA => geScalarMult_spec a hlen h31 hA
    order := ell_smul_base }

/-- **`Lawful` discharged**: the record built from the translated ref10 point code is a lawful group record -/
theorem codeGrp_is_lawful : Lawful codeGrp := codeGrp_lawful codeFacts

end Dos.Ge

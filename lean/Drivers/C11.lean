import DosModel.Model.Codec
/-
Line-protocol driver for C11: maps every case line of go/props/c11 to the output the MODEL
(`Model/Codec.lean` over `Model/Bn256.lean`) predicts for the real code.
-/
open Dos Dos.Bn256 Dos.Codec

namespace Dos.DrvC11

/-- the harness builds scalars with `Scalar().SetBytes(k mod 2^256)`, which reduces mod r -/
def sc (k : Nat) : Nat := (k % 2 ^ 256) % r

def showDec (m : α → Bytes) (o : Out α) : String := showOut (fun v => toHex (m v)) o

def b2s (b : Bool) : String := if b then "1" else "0"

def g1of (k : Nat) : G1 := G1.smul (sc k) g1gen
def g2of (k : Nat) : G2 := G2.smul (sc k) g2gen

def elemLine1 (P : G1) : String :=
  let enc := marshalG1 P
  let rt := match unmarshalG1 enc with
    | .ok Q => Q == P && marshalG1 Q == enc
    | _ => false
  s!"ok {toHex enc} rt={b2s rt}"

def elemLine2 (P : G2) : String :=
  let enc := marshalG2 P
  let rt := match unmarshalG2 enc with
    | .ok Q => Q == P && marshalG2 Q == enc
    | _ => false
  s!"ok {toHex enc} rt={b2s rt}"

def strmLine (enc tail : Bytes) (res : Nat × String) : String :=
  let total := enc.length + tail.length
  s!"wrote={enc.length} n={res.1} {res.2} left={total - res.1}"

def step (line : String) : String :=
  match words line with
  | ["g1dec", hs] => match ofHex hs with
    | some b => showDec marshalG1 (unmarshalG1 b)
    | none => "bad-op"
  | ["g2dec", hs] => match ofHex hs with
    | some b => showDec marshalG2 (unmarshalG2 b)
    | none => "bad-op"
  | ["gtdec", hs] => match ofHex hs with
    | some b => showDec marshalGT (unmarshalGT b)
    | none => "bad-op"
  | ["scdec", hs] => match ofHex hs with
    | some b => match unmarshalScalar b with
      | .ok v => showOut toHex (marshalScalar v)
      | .err e => "err " ++ errName e
      | .panic s => "panic " ++ s
    | none => "bad-op"
  | ["scenc", ks] => match ks.toNat? with
    | some k =>
      let s := sc k
      match marshalScalar s with
      | .ok enc =>
        let rt := match unmarshalScalar enc with
          | .ok v => v == s
          | _ => false
        s!"ok {toHex enc} rt={b2s rt}"
      | .err e => "err " ++ errName e
      | .panic st => "panic " ++ st
    | none => "bad-op"
  -- the repaired decoders do not look at the receiver: same answer as a fresh decode
  | ["g1into", _, hs] => match ofHex hs with
    | some b => showDec marshalG1 (unmarshalG1 b)
    | none => "bad-op"
  | ["g2into", _, hs] => match ofHex hs with
    | some b => showDec marshalG2 (unmarshalG2 b)
    | none => "bad-op"
  | ["gtinto", _, hs] => match ofHex hs with
    | some b => showDec marshalGT (unmarshalGT b)
    | none => "bad-op"
  | ["g1mul", ks] => match ks.toNat? with
    | some k => elemLine1 (g1of k)
    | none => "bad-op"
  | ["g2mul", ks] => match ks.toNat? with
    | some k => elemLine2 (g2of k)
    | none => "bad-op"
  | ["g1add", a, b] => match a.toNat?, b.toNat? with
    | some a, some b => elemLine1 (G1.add (g1of a) (g1of b))
    | _, _ => "bad-op"
  | ["g1sub", a, b] => match a.toNat?, b.toNat? with
    | some a, some b => elemLine1 (G1.add (g1of a) (G1.neg (g1of b)))
    | _, _ => "bad-op"
  | ["g1neg", a] => match a.toNat? with
    | some a => elemLine1 (G1.neg (g1of a))
    | none => "bad-op"
  | ["g2add", a, b] => match a.toNat?, b.toNat? with
    | some a, some b => elemLine2 (G2.add (g2of a) (g2of b))
    | _, _ => "bad-op"
  | ["g2sub", a, b] => match a.toNat?, b.toNat? with
    | some a, some b => elemLine2 (G2.add (g2of a) (G2.neg (g2of b)))
    | _, _ => "bad-op"
  | ["g2neg", a] => match a.toNat? with
    | some a => elemLine2 (G2.neg (g2of a))
    | none => "bad-op"
  | ["g1eq", a, b, c, d] => match a.toNat?, b.toNat?, c.toNat?, d.toNat? with
    | some a, some b, some c, some d =>
      let P := G1.add (g1of a) (g1of b)
      let Q := G1.add (g1of c) (g1of d)
      s!"eq={b2s (P == Q)} enc={b2s (marshalG1 P == marshalG1 Q)}"
    | _, _, _, _ => "bad-op"
  | ["g2eq", a, b, c, d] => match a.toNat?, b.toNat?, c.toNat?, d.toNat? with
    | some a, some b, some c, some d =>
      let P := G2.add (g2of a) (g2of b)
      let Q := G2.add (g2of c) (g2of d)
      s!"eq={b2s (P == Q)} enc={b2s (marshalG2 P == marshalG2 Q)}"
    | _, _, _, _ => "bad-op"
  -- one receiver through a sequence of states: the model's decoders do not look at the receiver
  | ["seq", g, steps] =>
    let outs := (steps.splitOn ",").filterMap fun st =>
      let body := (st.drop 1).toString
      match st.toList.head?, ofHex body with
      | some 'd', some b =>
        some (match g with
          | "g1" => showDec marshalG1 (unmarshalG1 b)
          | "g2" => showDec marshalG2 (unmarshalG2 b)
          | _ => showDec marshalGT (unmarshalGT b))
      | some 'f', some b =>
        some (match g with
          | "g1" => let (n, o) := unmarshalFrom 64 unmarshalG1 b; s!"n={n} {showDec marshalG1 o}"
          | "g2" => let (n, o) := unmarshalFromG2 b; s!"n={n} {showDec marshalG2 o}"
          | _ => let (n, o) := unmarshalFrom 384 unmarshalGT b; s!"n={n} {showDec marshalGT o}")
      | _, _ => none
    String.intercalate ";" outs
  -- GT elements are pairing values e(aG1,bG2) = gT^(ab): decided in the dlog representation
  | ["gteq", a, b, c, d] => match a.toNat?, b.toNat?, c.toNat?, d.toNat? with
    | some a, some b, some c, some d =>
      let e := (sc a * sc b) % r == (sc c * sc d) % r
      s!"eq={b2s e} enc={b2s e}"
    | _, _, _, _ => "bad-op"
  | ["g1strm", ks, ts] => match ks.toNat?, ofHex ts with
    | some k, some tail =>
      let enc := marshalG1 (g1of k)
      let (n, o) := unmarshalFrom 64 unmarshalG1 (enc ++ tail)
      strmLine enc tail (n, showDec marshalG1 o)
    | _, _ => "bad-op"
  | ["g2strm", ks, ts] => match ks.toNat?, ofHex ts with
    | some k, some tail =>
      let enc := marshalG2 (g2of k)
      let (n, o) := unmarshalFromG2 (enc ++ tail)
      strmLine enc tail (n, showDec marshalG2 o)
    | _, _ => "bad-op"
  | ["g1from", hs] => match ofHex hs with
    | some b => let (n, o) := unmarshalFrom 64 unmarshalG1 b; s!"n={n} {showDec marshalG1 o}"
    | none => "bad-op"
  | ["g2from", hs] => match ofHex hs with
    | some b => let (n, o) := unmarshalFromG2 b; s!"n={n} {showDec marshalG2 o}"
    | none => "bad-op"
  | ["gtfrom", hs] => match ofHex hs with
    | some b => let (n, o) := unmarshalFrom 384 unmarshalGT b; s!"n={n} {showDec marshalGT o}"
    | none => "bad-op"
  | _ => "bad-op"

end Dos.DrvC11

/-- all case lines are read first and evaluated as parallel tasks (a scalar multiplication of the
affine model costs ≈ 75 ms); output order = input order -/
partial def readLines (h : IO.FS.Stream) (acc : Array String) : IO (Array String) := do
  let line ← h.getLine
  if line.isEmpty then return acc
  let l := (line.trimAsciiEnd).toString
  if l.isEmpty then readLines h acc else readLines h (acc.push l)

def main : IO Unit := do
  let stdin ← IO.getStdin
  let lines ← readLines stdin #[]
  let tasks := lines.map (fun l => Task.spawn (fun _ => Dos.DrvC11.step l))
  let out ← IO.getStdout
  for t in tasks do
    out.putStrLn t.get
  out.flush

import DosModel.Model.Framing
import DosModel.Gen.P2PConsts
def main : IO Unit := Dos.lineLoop (Dos.Framing.step Dos.Gen.msgSizeLimit)

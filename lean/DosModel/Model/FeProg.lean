/-
C20 (round 4) — the ref10 FIELD code of group/edwards25519/fe.go as data and as functions, core Lean only.

`go/extract/ed25519fe` translates fe.go statement by statement (go/ast) into `Gen/Ed25519Fe.lean`:

  * every straight-line limb routine (feMul, feSquare, feSquare2, feFromBytes, feToBytes) becomes a value of
    `FeProg` (DATA: statements `x := e` over the expression type of Model/IntervalProg.lean) on which the verified
    interval interpreter runs, AND a family of Lean functions (`f_init`, `f_b1 …`, `f_out`: one `let` per Go
    statement) on which `ring` works; Proofs/Ed25519FeTie.lean proves that the two are the same thing;
  * fe.go mixes int32 and int64 arithmetic.  Both are expressed in the ONE expression language whose wrapping
    semantics is int64: a Go int32 operation `a ⊕ b` (⊕ ∈ {+, -, *, <<}) is `int32(int64(a) ⊕ int64(b))` (no int64
    overflow is possible there), and the narrowing `int32(e)` is the expression `n32 e = (e << 32) >> 32`, which
      - in the wrapping semantics (`evalW wrap`) is exactly the sign-extended low 32 bits (`n32_wrap`),
      - in the unbounded semantics is the identity (`n32v_eq`), and
      - is `Safe` (no int64 overflow in `e << 32`) iff `e` is representable as an int32.
    So "no (sub)expression overflows its Go type" is `SafeProg` of the emitted data, and the existing interval
    interpreter decides it; the only addition is that the relational carry rule looks through `n32` (`strip32`).
  * the element-wise loops (feAdd, feSub, feNeg, feCopy, feZero, feOne, feCMove) become one expression per loop body,
    applied to the ten limbs (`FeMap`);
  * the fixed square-and-multiply chains feInvert and fePow22523 become lists of `ChainOp`.

`feVal`: the integer a limb vector stands for (radix 2^25.5).  `fieldP = 2^255 - 19`.
-/
import DosModel.Model.IntervalProg

namespace Dos.FeProg
open Dos Dos.Ed25519 Dos.IntervalProg

/-! ### int32 inside the int64 expression language -/

/-- Go's `int32(e)` for an int64 `e`: `(e << 32) >> 32` -/
def n32 (e : Expr) : Expr := .shr (.shl e 32) 32

/-- the same on values (what the generated functions contain); it is the identity (`n32v_eq`) -/
def n32v (x : Int) : Int := shrI (shl x 32) 32

/-- two's-complement wrap-around of an integer to int32 -/
def wrap32 (x : Int) : Int := (x + 2147483648) % 4294967296 - 2147483648

def I32 (x : Int) : Prop := -2147483648 ≤ x ∧ x ≤ 2147483647

/-- two's-complement view of an int32 as a 32-bit natural, and back -/
def u32 (x : Int) : Nat := (x % 4294967296).toNat
def s32 (n : Nat) : Int := if n < 2147483648 then (n : Int) else (n : Int) - 4294967296

/-- Go's `&` and `^` on int32 -/
def and32 (x y : Int) : Int := s32 (u32 x &&& u32 y)
def xor32 (x y : Int) : Int := s32 (u32 x ^^^ u32 y)

def unwrap32 (a : Expr) (k : Nat) : Expr :=
  match a with
  | .shl e j => if j = 32 ∧ k = 32 then e else .shr a k
  | _ => .shr a k

/-- remove every `n32` wrapper: same value in the unbounded semantics (`strip32_eval`) -/
def strip32 : Expr → Expr
  | .v i => .v i
  | .c n => .c n
  | .add a b => .add (strip32 a) (strip32 b)
  | .sub a b => .sub (strip32 a) (strip32 b)
  | .mul a b => .mul (strip32 a) (strip32 b)
  | .shl a k => .shl (strip32 a) k
  | .band a b => .band (strip32 a) (strip32 b)
  | .bor a b => .bor (strip32 a) (strip32 b)
  | .shr a k => unwrap32 (strip32 a) k

/-- abstract step: as `absStmt`, but the carry fact and the carry rule see the statement without its `n32` wrappers -/
def absStmt32 (σ : AState) (s : Stmt) : Option AState :=
  if s.dst < σ.itv.length then
    match absExpr σ.itv s.rhs with
    | some i => some ⟨σ.itv.set s.dst (refine σ.fact (strip32 s.rhs) i), stepFact σ.fact ⟨s.dst, strip32 s.rhs⟩⟩
    | none => none
  else none

def absProg32 (σ : AState) : Prog → Option AState
  | [] => some σ
  | s :: p =>
    match absStmt32 σ s with
    | some σ' => absProg32 σ' p
    | none => none

/-! ### limb vectors -/

structure L10 where
  h0 : Int
  h1 : Int
  h2 : Int
  h3 : Int
  h4 : Int
  h5 : Int
  h6 : Int
  h7 : Int
  h8 : Int
  h9 : Int
  deriving Repr, DecidableEq, Inhabited

def L10.toList (s : L10) : List Int := [s.h0, s.h1, s.h2, s.h3, s.h4, s.h5, s.h6, s.h7, s.h8, s.h9]

def toL10 (ρ : Env) : L10 :=
  ⟨ρ.getD 0 0, ρ.getD 1 0, ρ.getD 2 0, ρ.getD 3 0, ρ.getD 4 0, ρ.getD 5 0, ρ.getD 6 0, ρ.getD 7 0, ρ.getD 8 0, ρ.getD 9 0⟩

def fieldP : Nat := 2 ^ 255 - 19

/-- t[0] + 2^26 t[1] + 2^51 t[2] + 2^77 t[3] + 2^102 t[4] + 2^128 t[5] + 2^153 t[6] + 2^179 t[7] + 2^204 t[8] + 2^230 t[9]
(the comment at the top of fe.go) -/
def feVal (s : L10) : Int :=
  s.h0 + s.h1 * 2 ^ 26 + s.h2 * 2 ^ 51 + s.h3 * 2 ^ 77 + s.h4 * 2 ^ 102 + s.h5 * 2 ^ 128
  + s.h6 * 2 ^ 153 + s.h7 * 2 ^ 179 + s.h8 * 2 ^ 204 + s.h9 * 2 ^ 230

/-- the element of GF(2^255-19) a limb vector stands for, as a natural below p -/
def feNat (s : L10) : Nat := (feVal s % (fieldP : Int)).toNat

/-- ref10's limb bound "1.1 · 2^25 for even limbs, 1.1 · 2^24 for odd limbs", times `k` -/
def evenB : Int := 36909875
def oddB : Int := 18454937
def boundItv (k : Int) : List Itv :=
  [(-(k * evenB), k * evenB), (-(k * oddB), k * oddB), (-(k * evenB), k * evenB), (-(k * oddB), k * oddB),
   (-(k * evenB), k * evenB), (-(k * oddB), k * oddB), (-(k * evenB), k * evenB), (-(k * oddB), k * oddB),
   (-(k * evenB), k * evenB), (-(k * oddB), k * oddB)]

/-- |h_i| ≤ k · 1.1 · 2^25 (i even), k · 1.1 · 2^24 (i odd) -/
def Bounded (k : Int) (s : L10) : Prop :=
  (-(k * evenB) ≤ s.h0 ∧ s.h0 ≤ k * evenB) ∧ (-(k * oddB) ≤ s.h1 ∧ s.h1 ≤ k * oddB) ∧
  (-(k * evenB) ≤ s.h2 ∧ s.h2 ≤ k * evenB) ∧ (-(k * oddB) ≤ s.h3 ∧ s.h3 ≤ k * oddB) ∧
  (-(k * evenB) ≤ s.h4 ∧ s.h4 ≤ k * evenB) ∧ (-(k * oddB) ≤ s.h5 ∧ s.h5 ≤ k * oddB) ∧
  (-(k * evenB) ≤ s.h6 ∧ s.h6 ≤ k * evenB) ∧ (-(k * oddB) ≤ s.h7 ∧ s.h7 ≤ k * oddB) ∧
  (-(k * evenB) ≤ s.h8 ∧ s.h8 ≤ k * evenB) ∧ (-(k * oddB) ≤ s.h9 ∧ s.h9 ≤ k * oddB)

instance (k : Int) (s : L10) : Decidable (Bounded k s) := by unfold Bounded; exact inferInstance

/-! ### a straight-line limb routine -/

structure FeProg where
  /-- number of inputs: limbs of the fieldElement arguments in parameter order, or the raw `load3/load4` values -/
  nIn : Nat
  /-- the `load3`/`load4` calls when the inputs are raw loads: (3 | 4, 0, offset) -/
  raw : List (Nat × Nat × Nat)
  /-- number of variables defined before the carry phase -/
  nLoc : Nat
  /-- statements before the carry phase; environment = inputs ++ defined variables -/
  init : Prog
  /-- where the ten limbs are in that environment -/
  limbs : List Nat
  nCarry : Nat
  /-- the carry phase, cut at blank/comment lines; environment = 10 limbs ++ carry[0 … nCarry-1] -/
  blocks : List Prog
  /-- the values stored at the end (`h[i] = int32(e)`: `n32 e`; `s[i] = byte(e)`: `e`), over the ten limbs -/
  out : List Expr

namespace FeProg

def initW (w : Int → Int) (p : FeProg) (inp : Env) : Env :=
  p.limbs.map (fun j => (evalProgW w (enter p.nIn p.nLoc inp) p.init).getD j 0)

def blockW (w : Int → Int) (nCarry : Nat) (b : Prog) (ρ : Env) : Env :=
  evalProgW w (enter 10 nCarry ρ) b

def blocksW (w : Int → Int) (nCarry : Nat) (bs : List Prog) (ρ : Env) : Env :=
  bs.foldl (fun ρ b => blockW w nCarry b ρ) ρ

/-- inputs ↦ the ten limbs after the carry phase -/
def limbsW (w : Int → Int) (p : FeProg) (inp : Env) : Env :=
  slice 0 10 (blocksW w p.nCarry p.blocks (initW w p inp))

def outW (w : Int → Int) (p : FeProg) (ρ : Env) : Env :=
  p.out.map (fun e => e.evalW w (slice 0 10 ρ))

/-- inputs ↦ stored values -/
def runW (w : Int → Int) (p : FeProg) (inp : Env) : Env := outW w p (limbsW w p inp)

def SafeBlocks (nCarry : Nat) : List Prog → Env → Prop
  | [], _ => True
  | b :: bs, ρ => SafeProg (enter 10 nCarry ρ) b ∧ SafeBlocks nCarry bs (blockW id nCarry b ρ)

/-- no (sub)expression anywhere in the routine leaves its Go type when run from `inp` -/
def SafeFrom (p : FeProg) (inp : Env) : Prop :=
  SafeProg (enter p.nIn p.nLoc inp) p.init
  ∧ SafeBlocks p.nCarry p.blocks (initW id p inp)
  ∧ ∀ e ∈ p.out, e.Safe (slice 0 10 (limbsW id p inp))

/-! abstract run -/

def absInit (p : FeProg) (I : List Itv) : Option (List Itv) :=
  match absProg32 ⟨aenter p.nIn p.nLoc I, none⟩ p.init with
  | some σ => some (p.limbs.map (fun j => σ.itv.getD j (0, 0)))
  | none => none

def absBlock (nCarry : Nat) (b : Prog) (A : List Itv) : Option (List Itv) :=
  match absProg32 ⟨aenter 10 nCarry A, none⟩ b with
  | some σ => some σ.itv
  | none => none

def absBlocks (nCarry : Nat) : List Prog → List Itv → Option (List Itv)
  | [], A => some A
  | b :: bs, A =>
    match absBlock nCarry b A with
    | some A' => absBlocks nCarry bs A'
    | none => none

def absOuts (A : List Itv) : List Expr → Option (List Itv)
  | [] => some []
  | e :: es =>
    match absExpr A e, absOuts A es with
    | some i, some is => some (i :: is)
    | _, _ => none

/-- input intervals ↦ (intervals of the ten limbs after the carry phase, intervals of the stored values);
`none` if anything may leave its Go type -/
def absRun (p : FeProg) (I : List Itv) : Option (List Itv × List Itv) :=
  match absInit p I with
  | none => none
  | some A =>
    match absBlocks p.nCarry p.blocks A with
    | none => none
    | some B =>
      match absOuts (aslice 0 10 B) p.out with
      | none => none
      | some O => some (aslice 0 10 B, O)

/-- the analysis succeeds on inputs in `I`, and limbs / stored values end within `L` / `O` -/
def check (p : FeProg) (I L O : List Itv) : Bool :=
  match absRun p I with
  | none => false
  | some r => within L.length r.1 L && within O.length r.2 O && decide (r.1.length = L.length) && decide (r.2.length = O.length)

end FeProg

/-! ### element-wise loops -/

/-- `for i := range dst { dst[i] = e }` where `e` mentions only `a[i]`, `b[i]`: variables 0, 1 of `e` -/
structure FeMap where
  arity : Nat
  body : Expr

def FeMap.runW (w : Int → Int) (m : FeMap) (a b : List Int) : List Int :=
  (List.range 10).map (fun i => m.body.evalW w [a.getD i 0, b.getD i 0])

/-! ### square-and-multiply chains -/

inductive ChainOp where
  /-- `feSquare(&dst, &src)` -/
  | sq (dst src : Nat)
  /-- `feMul(&dst, &a, &b)` -/
  | mul (dst a b : Nat)
  /-- `for i = lo; i < hi; i++ { feSquare(&dst, &src) }`: `hi - lo` times (0 if hi ≤ lo) -/
  | sqLoop (n : Nat) (dst src : Nat)
  deriving Repr

/-- run a chain over any carrier with a multiplication and a squaring; register 0 = `out`, 1 = `z`, 2… = t0… -/
def chainStep {α : Type} (mul : α → α → α) (sq : α → α) (d : α) (regs : List α) : ChainOp → List α
  | .sq dst src => regs.set dst (sq (regs.getD src d))
  | .mul dst a b => regs.set dst (mul (regs.getD a d) (regs.getD b d))
  | .sqLoop n dst src => (List.range n).foldl (fun r _ => r.set dst (sq (r.getD src d))) regs

def chainRun {α : Type} (mul : α → α → α) (sq : α → α) (d : α) (ops : List ChainOp) (regs : List α) : List α :=
  ops.foldl (chainStep mul sq d) regs

end Dos.FeProg

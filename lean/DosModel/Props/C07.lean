/-
C07 — the signed oracle message is a fixed function of the request, same for all.

Theorems about `Dos.Content` over unbounded `Nat` values and arbitrary byte
strings.  Sizes and the submitter / threshold expressions are regenerated from
the source on every run (`Gen/DosnodeConsts.lean`, extractor
go/extract/dosnodeconsts) and pinned here.  `dataParse` (ajson, xmlquery) is an
external function: its determinism is NOT proved, it is tested by the
correspondence run (8 sequential + 8 concurrent evaluations per case).
"Every member computes the identical string" is, for the model, the fact that
these are functions of the request fields only (no state, no member identity);
for the code it is what the tie checks.
-/
import DosModel.Proofs.Content
import DosModel.Gen.DosnodeConsts
import DosModel.Gen.ChainHandlerFacts

namespace Dos.Props.C07
open Dos Dos.Content

/-- **0. regenerated facts.**  `randNumberSize = 32`, `addrLen = 20`; `genSysRandom` pads to
`randNumberSize`; `recoverSign` strips `addrLen` bytes; the submitter expression in
`choseSubmitter` and the thresholds at the call sites in `handleQuery` are the model's. -/
theorem c07_constants : Gen.randNumberSize = 32 ∧ Gen.addrLen = 20 ∧ Gen.padSize = 32 ∧ Gen.stripLen = 20 := by
  decide

theorem c07_submitter_expr (r n : Nat) (hn : n ≠ 0) : submitterIdx r n = some (Gen.submitterExpr r n) := by
  simp [submitterIdx, hn, Gen.submitterExpr]

theorem c07_threshold_expr (n : Nat) :
    Gen.thresholdDispatch n = threshold n ∧ Gen.thresholdRecover n = threshold n ∧ Gen.participantsRecover n = n := by
  simp [Gen.thresholdDispatch, Gen.thresholdRecover, Gen.participantsRecover, threshold]

/-- **0b. which event field reaches which content stage** (regenerated, go/extract/chainhandler):
the `handleQuery` call of each event type, `handleQuery`'s parameter order, and the arguments each
stage gets.  So: system randomness signs `padOrTrim(LastRandomness.Bytes(), 32) ‖ submitter`, user
randomness `RequestId.Bytes() ‖ LastSystemRandomness.Bytes() ‖ UserSeed.Bytes() ‖ submitter`, URL
`dataParse(fetch(DataSource), Selector) ‖ submitter`; the submitter is chosen from
`LastRandomness` / `LastSystemRandomness` / `Randomness` and the group's member list. -/
theorem c07_event_fields :
    Gen.ChainHandlerFacts.queryCalls = [
      "*onchain.LogUpdateRandom => d.handleQuery(ids, pub, sec, groupID, content.LastRandomness, content.LastRandomness, nil, \"\", \"\", uint32(onchain.TrafficSystemRandom))",
      "*onchain.LogRequestUserRandom => d.handleQuery(ids, pub, sec, groupID, content.RequestId, content.LastSystemRandomness, content.UserSeed, \"\", \"\", uint32(onchain.TrafficUserRandom))",
      "*onchain.LogUrl => d.handleQuery(ids, pub, sec, groupID, content.QueryId, content.Randomness, nil, content.DataSource, content.Selector, uint32(onchain.TrafficUserQuery))"]
    ∧ Gen.ChainHandlerFacts.handleQueryParams = [
      "ids",
      "pubPoly",
      "sec",
      "groupID",
      "requestID",
      "lastRand",
      "useSeed",
      "url",
      "selector",
      "pType"]
    ∧ Gen.ChainHandlerFacts.handleQueryStages = [
      "queryCtx, cancel := context.WithTimeout(context.Background(), time.Duration(60*d.chain.GetBlockTime())*time.Second)",
      "submitterc, errc := choseSubmitter(queryCtxWithValue, d.p, d.chain, lastRand, ids, 2, d.logger)",
      "case onchain.TrafficSystemRandom: contentc = genSysRandom(queryCtxWithValue, submitterc[0], lastRand.Bytes(), d.logger)",
      "case onchain.TrafficUserRandom: contentc = genUserRandom(queryCtxWithValue, submitterc[0], requestID.Bytes(), lastRand.Bytes(), useSeed.Bytes(), d.logger)",
      "case onchain.TrafficUserQuery: contentc, errc = genQueryResult(queryCtxWithValue, submitterc[0], url, selector, d.logger)",
      "signc, errc := genSign(queryCtxWithValue, contentc, sec, d.suite, sign, d.logger)",
      "signAllc := dispatchSign(queryCtxWithValue, submitterc[1], signc, d.reqSignc, d.p, requestID.Bytes(), (len(ids)/2 + 1), d.logger)",
      "recoveredSignc, errc := recoverSign(queryCtxWithValue, signAllc, d.suite, pubPoly, (len(ids)/2 + 1), len(ids), d.logger)",
      "errcList = append(errcList, reportQueryResult(queryCtxWithValue, d.chain, pType, recoveredSignc))"] :=
  ⟨rfl, rfl, rfl⟩

/-- **1. length.**  The system-randomness message is 32 + |address| bytes, 52 for a 20-byte address,
for every last randomness (0, small, above 2^256). -/
theorem sys_len (r : Nat) (a : Bytes) (ha : a.length = 20) : (sysContent Gen.padSize r a).length = 52 := by
  simp [sysContent, sysContentRaw, padOrTrim_length, ha, c07_constants.2.2.1]

/-- **2a. exactly the 32-byte big-endian last randomness followed by the address** – whatever
the number of leading zero bytes of `r` (0 … 32, `r = 0` included).  `natBE 32 r` is the 32-byte
big-endian encoding of `r` for `r < 2^256` (`beNat_natBE`: its value is `r mod 2^256`, which is
also what the code does with a longer value: it keeps the low 32 bytes). -/
theorem sys_exact (r : Nat) (a : Bytes) :
    sysContent Gen.padSize r a = natBE 32 r ++ a ∧ beNat (natBE 32 r) = r % 2 ^ 256 := by
  refine ⟨?_, by rw [beNat_natBE]; norm_num⟩
  have h32 : Gen.padSize = 32 := c07_constants.2.2.1
  simp only [sysContent, sysContentRaw, h32]
  rw [padOrTrim_eq_natBE, beNat_natBytes]

/-- **2b. prefix round trip**: reading the first 32 bytes back as a big-endian number gives `r`
(`r < 2^256`), and in general `r mod 2^256` (the code keeps the LOW 32 bytes of a longer value). -/
theorem sys_prefix_roundtrip (r : Nat) (a : Bytes) :
    beNat ((sysContent Gen.padSize r a).take 32) = r % 2 ^ 256
      ∧ (r < 2 ^ 256 → beNat ((sysContent Gen.padSize r a).take 32) = r)
      ∧ (sysContent Gen.padSize r a).drop 32 = a := by
  have h32 : Gen.padSize = 32 := c07_constants.2.2.1
  have hl : (padOrTrim (natBytes r) 32).length = 32 := padOrTrim_length _ _
  have ht : (sysContent Gen.padSize r a).take 32 = padOrTrim (natBytes r) 32 := by
    simp only [sysContent, sysContentRaw, h32]
    rw [List.take_append_of_le_length (by omega), List.take_of_length_le (by omega)]
  have hv : beNat (padOrTrim (natBytes r) 32) = r % 2 ^ 256 := by
    rw [padOrTrim_value, beNat_natBytes]; norm_num
  refine ⟨by rw [ht, hv], fun hr => by rw [ht, hv, Nat.mod_eq_of_lt hr], ?_⟩
  simp only [sysContent, sysContentRaw, h32]
  rw [List.drop_append_of_le_length (by omega), List.drop_of_length_le (by omega)]; rfl

/-- **2c. leading zero bytes of the INPUT do not matter**: any zero-padded encoding of the same
number gives the same signed message (the stage is a function of the number). -/
theorem sys_leading_zeros (k : Nat) (bs a : Bytes) :
    sysContentRaw 32 (List.replicate k 0 ++ bs) a = sysContentRaw 32 bs a := by
  simp only [sysContentRaw]
  rw [padOrTrim_eq_natBE, padOrTrim_eq_natBE, beNat_replicate_zero]

/-- **2d. distinct last randomness (< 2^256) or distinct submitter ⇒ distinct signed message** -/
theorem sys_injective (r r' : Nat) (a a' : Bytes) (hr : r < 2 ^ 256) (hr' : r' < 2 ^ 256)
    (h : sysContent Gen.padSize r a = sysContent Gen.padSize r' a') : r = r' ∧ a = a' := by
  have h1 := (sys_prefix_roundtrip r a).2.1 hr
  have h2 := (sys_prefix_roundtrip r' a').2.1 hr'
  have d1 := (sys_prefix_roundtrip r a).2.2
  have d2 := (sys_prefix_roundtrip r' a').2.2
  rw [h] at h1 d1
  exact ⟨by rw [← h1, h2], by rw [← d1, d2]⟩

/-- **3a. user randomness / URL query: result bytes followed by the submitter address.** -/
theorem user_is_result_then_addr (q r s : Nat) (a : Bytes) :
    userContent q r s a = (natBytes q ++ natBytes r ++ natBytes s) ++ a := by
  simp [userContent, userContentRaw]

theorem query_is_result_then_addr (parsed a : Bytes) : queryContent parsed a = parsed ++ a := rfl

/-- **3b. strip/append inverse**: what is reported is exactly the signed string without its
trailing 20 bytes – `strip (x ++ a) = x` for a 20-byte `a`, and `strip c ++ (last 20 bytes) = c`
for every `c` of at least 20 bytes; a shorter string is reported as an error and skipped
(since /repo 419bec9; the pinned commit panicked in `make([]byte, t)`, `t < 0`). -/
theorem strip_append (x a : Bytes) (ha : a.length = 20) : stripResult Gen.stripLen (x ++ a) = .ok x := by
  have h20 : Gen.stripLen = 20 := c07_constants.2.2.2
  simp [stripResult, h20, ha]

theorem append_strip (c : Bytes) (hc : 20 ≤ c.length) :
    ∃ x, stripResult Gen.stripLen c = .ok x ∧ x ++ c.drop (c.length - 20) = c ∧ x.length = c.length - 20 := by
  have h20 : Gen.stripLen = 20 := c07_constants.2.2.2
  refine ⟨c.take (c.length - 20), ?_, List.take_append_drop _ _, ?_⟩
  · simp [stripResult, h20]; omega
  · simp

theorem strip_short_skipped (c : Bytes) (hc : c.length < 20) :
    stripResult Gen.stripLen c = .tooShort := by
  have h20 : Gen.stripLen = 20 := c07_constants.2.2.2
  simp [stripResult, h20, hc]

/-- the three kinds of signed message all report `content minus address` -/
theorem reported_result (r q s : Nat) (parsed a : Bytes) (ha : a.length = 20) :
    stripResult Gen.stripLen (sysContent Gen.padSize r a) = .ok (padOrTrim (natBytes r) 32)
    ∧ stripResult Gen.stripLen (userContent q r s a) = .ok (natBytes q ++ natBytes r ++ natBytes s)
    ∧ stripResult Gen.stripLen (queryContent parsed a) = .ok parsed := by
  have h32 : Gen.padSize = 32 := c07_constants.2.2.1
  refine ⟨?_, ?_, ?_⟩
  · simp only [sysContent, sysContentRaw, h32]; exact strip_append _ a ha
  · rw [user_is_result_then_addr]; exact strip_append _ a ha
  · exact strip_append _ a ha

/-- **4. submitter.**  For a non-empty member list the index is in range, so a member is chosen;
it depends only on the low 64 bits of the last randomness; and it is the same for every order-
preserving view of the list (the index is a function of `(r, n)` only). -/
theorem submitter_in_range (r n : Nat) (hn : 0 < n) : ∃ i, submitterIdx r n = some i ∧ i < n := by
  refine ⟨r % 2 ^ 64 % n, ?_, Nat.mod_lt _ hn⟩
  simp [submitterIdx]; omega

theorem submitter_is_member (ids : List Bytes) (r : Nat) (hn : 0 < ids.length) :
    ∃ id, submitter ids r = some id ∧ id ∈ ids := by
  obtain ⟨i, hi, hlt⟩ := submitter_in_range r ids.length hn
  refine ⟨ids[i], ?_, List.getElem_mem hlt⟩
  simp [submitter, hi, hlt]

theorem submitter_low64 (r r' n : Nat) (h : r % 2 ^ 64 = r' % 2 ^ 64) : submitterIdx r n = submitterIdx r' n := by
  unfold submitterIdx; rw [h]

theorem submitter_ignores_high_bits (r hi n : Nat) : submitterIdx (r + hi * 2 ^ 64) n = submitterIdx r n :=
  submitter_low64 _ _ _ (by simp)

/-- **5. threshold**: `n/2+1` is a strict majority and at most `n` (for `n ≥ 1`). -/
theorem threshold_majority (n : Nat) (hn : 1 ≤ n) : n < 2 * threshold n ∧ threshold n ≤ n := by
  unfold threshold; omega

/-! ### non-vacuity -/
example : sysContent 32 0 [0xAA] = List.replicate 32 0 ++ [0xAA] := by decide
example : sysContent 32 258 [7] = List.replicate 30 0 ++ [1, 2, 7] := by decide
example : (sysContent 32 (2 ^ 256 + 5) []).length = 32 ∧ beNat (sysContent 32 (2 ^ 256 + 5) []) = 5 := by decide
example : padOrTrim [1, 2, 3] 2 = [2, 3] := by decide
example : stripResult 20 (List.replicate 25 1) = .ok (List.replicate 5 1) := by decide
example : stripResult 20 [1, 2] = .tooShort := by decide
example : submitterIdx (2 ^ 64 + 5) 3 = some 2 ∧ submitterIdx 5 3 = some 2 := by decide
example : userContent 0 256 1 [9] = [1, 0, 1, 9] := by decide

end Dos.Props.C07

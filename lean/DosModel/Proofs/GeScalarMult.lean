/-
C20 (round 4) — `geScalarMult` of ge.go computes k • P in the Edwards curve group.

Window method: table Ai = [1A, …, 8A] (Add, ToExtended, ToCached), signed radix-16 digits e[0..63] ∈ [−8, 8] of the
scalar (Proofs/GeScalarMultRecode.lean), t = 0 + e[63]•A, then for i = 62 … 0: t ← 16·t + e[i]•A (four
ToProjective/Double, ToExtended, selectCached, Add).  Horner: Σ e[i]·16^i = leNat a.
Every step goes through the per-method specifications (Proofs/GeSpec2/3, GeScalarMultSel), i.e. through the
regenerated method bodies with their limb-bound analysis: no fe operation is used outside its proved precondition
anywhere in the 64 rounds.
-/
import Mathlib.Tactic.Abel
import DosModel.Proofs.GeScalarMultSel
import DosModel.Proofs.GeScalarMultRecode

set_option exponentiation.threshold 600

namespace Dos.Ge
open Dos Dos.Ed25519 Dos.FeProg Dos.FeOps Dos.GeProg Dos.Ed25519Prime Dos.Edwards Dos.Gen.Ed25519Ge

/-- an invariant carried through `(List.range n).foldl` -/
theorem foldl_range_inv {α : Type} (f : α → Nat → α) (Inv : Nat → α → Prop) (init : α) (n : Nat) (h0 : Inv 0 init)
    (hs : ∀ k t, k < n → Inv k t → Inv (k + 1) (f t k)) : Inv n ((List.range n).foldl f init) := by
  induction n with
  | zero => exact h0
  | succ n ih =>
    rw [List.range_succ, List.foldl_append]
    simp only [List.foldl_cons, List.foldl_nil]
    exact hs n _ (by omega) (ih (fun k t hk => hs k t (by omega)))

theorem getD_append_left' {α : Type} (l m : List α) (d : α) {i : Nat} (h : i < l.length) :
    (l ++ m).getD i d = l.getD i d := by
  simp [List.getD, List.getElem?_append_left h]

theorem getD_append_right' {α : Type} (l m : List α) (d : α) {i : Nat} (h : l.length ≤ i) :
    (l ++ m).getD i d = m.getD (i - l.length) d := by
  simp [List.getD, List.getElem?_append_right h]

/-- the table of cached multiples built at the head of `geScalarMult` -/
def smTable (A : Ext) : List Cached :=
  (List.range 7).foldl (fun (ai : List Cached) i => ai ++ [extToCached (complToExt (complAdd A (ai.getD i default)))])
    [extToCached A]

/-- **the table**: eight entries, entry i represents (i + 1) • P -/
theorem smTable_spec {A : Ext} {P : Pt} (hA : GoodExt A P) :
    (smTable A).length = 8 ∧ ∀ i, i < 8 → GoodCached ((smTable A).getD i default) ((i + 1) • P) := by
  have key := foldl_range_inv
    (fun (ai : List Cached) i => ai ++ [extToCached (complToExt (complAdd A (ai.getD i default)))])
    (fun n ai => ai.length = n + 1 ∧ ∀ i, i < n + 1 → GoodCached (ai.getD i default) ((i + 1) • P))
    [extToCached A] 7
    ⟨rfl, fun i hi => by
      have : i = 0 := by omega
      subst this
      rw [zero_add, one_smul]
      exact extToCached_spec hA⟩
    (fun k ai _ ⟨hl, hg⟩ => by
      refine ⟨by simp [hl], ?_⟩
      intro i hi
      by_cases hik : i < k + 1
      · rw [getD_append_left' _ _ _ (by omega)]
        exact hg i hik
      · have : i = k + 1 := by omega
        subst this
        rw [getD_append_right' _ _ _ (by omega), hl, Nat.sub_self, List.getD_cons_zero]
        have h1 := extToCached_spec (complToExt_spec (complAdd_spec hA (hg k (by omega))))
        have e : P + (k + 1) • P = (k + 1 + 1) • P := (succ_nsmul' P (k + 1)).symm
        rw [← e]; exact h1)
  exact key

/-- `t <<= 4`: four ToProjective/Double -/
theorem dbl4_spec {t : Compl} {Q : Pt} (ht : GoodCompl t Q) : GoodCompl (dbl4 t) ((16 : Int) • Q) := by
  have h := projDouble_spec (complToProj_spec (projDouble_spec (complToProj_spec (projDouble_spec (complToProj_spec
    (projDouble_spec (complToProj_spec ht)))))))
  have e : (16 : Int) • Q = (Q + Q + (Q + Q) + (Q + Q + (Q + Q))) + (Q + Q + (Q + Q) + (Q + Q + (Q + Q))) := by abel
  rw [e]; exact h

theorem geScalarMult_eq (a : Bytes) (A : Ext) :
    geScalarMult a A = complToExt ((List.range 63).foldl
      (fun t k => complAdd (complToExt (dbl4 t)) (selectCached (smTable A) ((recode (nybbles a)).getD (62 - k) 0)))
      (complAdd extZero (selectCached (smTable A) ((recode (nybbles a)).getD 63 0)))) := rfl

/-- **geScalarMult computes k • P** (precondition of the Go code: a[31] ≤ 127) -/
theorem geScalarMult_spec (a : Bytes) (hlen : a.length = 32) (h31 : (a.getD 31 0).toNat ≤ 127) {A : Ext} {P : Pt}
    (hA : GoodExt A P) : GoodExt (geScalarMult a A) (leNat a • P) := by
  obtain ⟨hl, hr, hv⟩ := recode_spec a hlen h31
  obtain ⟨htl, htab⟩ := smTable_spec hA
  rw [geScalarMult_eq]
  generalize recode (nybbles a) = e at hl hr hv
  have hsel : ∀ i, i < 64 → GoodCached (selectCached (smTable A) (e.getD i 0)) ((e.getD i 0) • P) :=
    fun i hi => selectCached_spec (smTable A) P htl htab _ (hr i hi)
  have key := foldl_range_inv
    (fun t k => complAdd (complToExt (dbl4 t)) (selectCached (smTable A) (e.getD (62 - k) 0)))
    (fun k t => GoodCompl t (digitsVal (e.drop (63 - k)) • P))
    (complAdd extZero (selectCached (smTable A) (e.getD 63 0))) 63
    (by
      have h0 := complAdd_spec extZero_spec (hsel 63 (by omega))
      have e0 : digitsVal (e.drop (63 - 0)) = e.getD 63 0 := by
        rw [Nat.sub_zero, digitsVal_drop e 63 (by omega), List.drop_eq_nil_of_le (by omega)]
        simp [digitsVal]
      rw [e0, ← zero_add (e.getD 63 0 • P)]
      exact h0)
    (fun k t hk ht => by
      have h1 := complAdd_spec (complToExt_spec (dbl4_spec ht)) (hsel (62 - k) (by omega))
      have e1 : digitsVal (e.drop (63 - (k + 1))) = e.getD (62 - k) 0 + 16 * digitsVal (e.drop (63 - k)) := by
        have : 63 - (k + 1) = 62 - k := by omega
        rw [this, digitsVal_drop e (62 - k) (by omega)]
        have : 62 - k + 1 = 63 - k := by omega
        rw [this]
      rw [e1, add_smul, mul_smul, add_comm]
      exact h1)
  have hfin := complToExt_spec key
  have e2 : digitsVal (e.drop (63 - 63)) = (leNat a : Int) := by rw [Nat.sub_self, List.drop_zero, hv]
  rw [e2, natCast_zsmul] at hfin
  exact hfin

end Dos.Ge

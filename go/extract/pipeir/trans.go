package pipeir

import (
	"bytes"
	"fmt"
	"go/ast"
	"go/printer"
	"go/token"
	"os"
	"sort"
	"strings"
)

// ---- path state ----------------------------------------------------------------------

type deferred struct {
	call *ast.CallExpr
	fr   *frame
	sc   *env
}

type mapState struct {
	present bool
	val     AV
}

// pstate is what the translator knows on the current path only.
type pstate struct {
	over   map[*cell]AV       // current value of variables (path-sensitive)
	maps   map[int]mapState   // collector maps: entry for the request under analysis?
	defers map[int][]deferred // per call frame
	eff    bool               // a non-branch node was emitted on this path (the goroutine left its constructor prefix)
}

func newPS() *pstate {
	return &pstate{over: map[*cell]AV{}, maps: map[int]mapState{}, defers: map[int][]deferred{}}
}
func (s *pstate) clone() *pstate {
	n := newPS()
	for k, v := range s.over {
		n.over[k] = v
	}
	for k, v := range s.maps {
		n.maps[k] = v
	}
	for k, v := range s.defers {
		n.defers[k] = append([]deferred(nil), v...)
	}
	n.eff = s.eff
	return n
}

// cont is a live point of the translation: dangling edges plus the path state.
type cont struct {
	pending []*int
	atEntry bool
	ps      *pstate
	vals    []AV // results of an inlined call that ended here
}

type frame struct {
	id     int
	fn     *avFunc
	pkg    *pkgInfo
	file   *ast.File
	scopes []*env
	loops  []*loopCtx
	rets   []*cont
	named  []string // named results
}

type loopCtx struct {
	label  string
	isLoop bool // false: switch / select (break only)
	depth  int  // len(frame.scopes) at entry
	copies map[string]int
	breaks []*cont
	cont   func(t *tr) // translates the jump back to the head for t.cur
}

type config struct {
	assumeFalse []string // textual conditions of early returns that are assumed not taken
	// opaque: template hook for calls on external objects; returns the continuations after the
	// call (each with its results in cont.vals)
	opaque    func(t *tr, recv AV, name string, ce *ast.CallExpr, args []AV) ([]*cont, bool)
	constants map[string]AV // parameter bindings of the entry function by name
}

type tr struct {
	ld            *loader
	p             *pipeline
	g             *gbuild
	cur           *cont
	frames        []*frame
	cfg           *config
	cellID        map[*cell]int
	nframe        int
	carried       map[int][]AV // channel → distinct struct values sent on it (from the previous pass)
	sent          map[int][]AV // collected in this pass
	depth         int
	mapName       map[int]string
	nmaps         int
	chanSub       map[string]int // virtual sub-channels: "<chan>/<value key>" → channel id
	errs          []string
	goSite        map[*ast.GoStmt]string
	lastTick      string // source of the timer channel chanOf evaluated last
	hint          string // name for the next channel / map created
	nextRoot      int    // id for the next root context created by the code (-1: allocate)
	effMemo       map[*ast.BlockStmt]bool
	carriedByName map[string][]AV
	nilID         int
	dataMaps      map[int]bool // collector maps that only ever hold data (from the previous pass)
	dataMapsNew   map[int]bool
	ranged        map[int]bool // data maps whose element is ranged over with channel operations in the body
	rangedNew     map[int]bool
}

func (t *tr) errorf(n ast.Node, f string, a ...interface{}) {
	pos := ""
	if fr := t.fr(); fr != nil && n != nil {
		pos = fr.pkg.pos(n) + ": "
	}
	msg := pos + fmt.Sprintf(f, a...)
	for _, e := range t.errs {
		if e == msg {
			return
		}
	}
	if len(t.errs) < 20 {
		t.errs = append(t.errs, msg)
	}
}

func (t *tr) fr() *frame {
	if len(t.frames) == 0 {
		return nil
	}
	return t.frames[len(t.frames)-1]
}
func (t *tr) scope() *env { fr := t.fr(); return fr.scopes[len(fr.scopes)-1] }

func (t *tr) cid(c *cell) int {
	if id, ok := t.cellID[c]; ok {
		return id
	}
	t.cellID[c] = len(t.cellID) + 1
	return t.cellID[c]
}

func (t *tr) psKey(s *pstate) string {
	var ks []string
	for c, v := range s.over {
		ks = append(ks, fmt.Sprintf("%d=%s", t.cid(c), key(v)))
	}
	for m, st := range s.maps {
		if st.present {
			ks = append(ks, fmt.Sprintf("m%d=%s", m, key(st.val)))
		}
	}
	for f, d := range s.defers {
		ks = append(ks, fmt.Sprintf("d%d=%d", f, len(d)))
	}
	sort.Strings(ks)
	return strings.Join(ks, ";")
}

func (t *tr) mergeConts(cs []*cont) []*cont {
	var out []*cont
	idx := map[string]*cont{}
	for _, c := range cs {
		if c == nil || (!c.atEntry && len(c.pending) == 0) {
			continue
		}
		k := t.psKey(c.ps)
		for _, v := range c.vals {
			k += "|" + key(v)
		}
		if o, ok := idx[k]; ok {
			o.pending = append(o.pending, c.pending...)
			o.atEntry = o.atEntry || c.atEntry
			o.ps.eff = o.ps.eff || c.ps.eff
			continue
		}
		idx[k] = c
		out = append(out, c)
	}
	return out
}

// ---- variables -------------------------------------------------------------------------

func (t *tr) lookupCell(name string) *cell {
	if fr := t.fr(); fr != nil {
		return t.scope().lookup(name)
	}
	return nil
}

func (t *tr) define(name string, v AV) {
	if name == "_" {
		return
	}
	sc := t.scope()
	c, ok := sc.vars[name]
	if !ok {
		c = &cell{v}
		sc.vars[name] = c
	}
	t.cur.ps.over[c] = v
}

func (t *tr) assign(name string, v AV) {
	if name == "_" {
		return
	}
	if c := t.lookupCell(name); c != nil {
		t.cur.ps.over[c] = v
		return
	}
	t.define(name, v)
}

func (t *tr) read(c *cell) AV {
	if v, ok := t.cur.ps.over[c]; ok {
		return v
	}
	return c.v
}

func (t *tr) pushScope() {
	fr := t.fr()
	fr.scopes = append(fr.scopes, newEnv(fr.scopes[len(fr.scopes)-1]))
}

// popScope leaves the innermost scope; its variables die in every continuation given.
func (t *tr) popScope(cs []*cont) {
	fr := t.fr()
	sc := fr.scopes[len(fr.scopes)-1]
	fr.scopes = fr.scopes[:len(fr.scopes)-1]
	for _, c := range cs {
		for _, cl := range sc.vars {
			delete(c.ps.over, cl)
		}
	}
}

// stripTo forgets the variables of the scopes deeper than depth (a jump out of them).
func (t *tr) stripTo(c *cont, depth int) {
	fr := t.fr()
	for i := len(fr.scopes) - 1; i >= depth && i >= 0; i-- {
		for _, cl := range fr.scopes[i].vars {
			delete(c.ps.over, cl)
		}
	}
}

// ---- emitting --------------------------------------------------------------------------

func short(fset *token.FileSet, n ast.Node) string { return shortN(fset, n, 60) }

func shortN(fset *token.FileSet, n ast.Node, limit int) string {
	var b bytes.Buffer
	printer.Fprint(&b, fset, n)
	s := strings.Join(strings.Fields(b.String()), " ")
	if len(s) > limit {
		s = s[:limit-3] + "..."
	}
	return s
}

func (t *tr) site(n ast.Node, what string) string {
	fr := t.fr()
	if fr == nil || n == nil {
		return what
	}
	if what == "" {
		what = short(fr.pkg.fset, n)
	}
	return fr.pkg.pos(n) + " " + what
}

func (t *tr) live() bool { return t.cur != nil && (t.cur.atEntry || len(t.cur.pending) > 0) }

func (t *tr) emit(n *node) {
	pc := len(t.g.nodes)
	t.g.nodes = append(t.g.nodes, n)
	for _, s := range t.cur.pending {
		*s = pc
	}
	t.cur.pending = nil
	t.cur.atEntry = false
	if n.kind != "branch" {
		t.g.effects = true
		t.cur.ps.eff = true
	}
}

// emit1 emits a node with exactly one successor and continues there.
func (t *tr) emit1(kind string, arg int, site string) {
	if !t.live() {
		return
	}
	s := slot()
	t.emit(&node{kind: kind, arg: arg, succ: []*int{s}, site: site})
	t.cur.pending = []*int{s}
}

// fork emits a branch node with n successors and returns one continuation per successor.
func (t *tr) fork(n int, site string) []*cont { return t.forkL(n, site, "") }

// forkL: what names the decision in the labels of the successors (default: the site text)
func (t *tr) forkL(n int, site string, what string) []*cont {
	if !t.live() {
		return nil
	}
	nd := &node{kind: "branch", site: site}
	var cs []*cont
	if what == "" {
		what = site
		if i := strings.Index(site, " "); i >= 0 && strings.Contains(site[:i], ".go:") {
			what = site[i+1:]
		}
	}
	for i := 0; i < n; i++ {
		s := slot()
		nd.succ = append(nd.succ, s)
		nd.lab = append(nd.lab, fmt.Sprintf("%s:%d", what, i))
	}
	ps := t.cur.ps
	t.emit(nd)
	for i := 0; i < n; i++ {
		c := &cont{pending: []*int{nd.succ[i]}, ps: ps.clone()}
		cs = append(cs, c)
	}
	return cs
}

// ---- statements --------------------------------------------------------------------------

func (t *tr) block(list []ast.Stmt) []*cont {
	t.pushScope()
	cs := t.stmts(list, []*cont{t.cur})
	t.popScope(cs)
	return cs
}

func (t *tr) stmts(list []ast.Stmt, conts []*cont) []*cont {
	for _, s := range list {
		var next []*cont
		for _, c := range conts {
			t.cur = c
			if !t.live() {
				continue
			}
			next = append(next, t.stmt(s)...)
		}
		conts = t.mergeConts(next)
		if len(conts) == 0 {
			break
		}
	}
	return conts
}

func one(c *cont) []*cont {
	if c == nil {
		return nil
	}
	return []*cont{c}
}

func (t *tr) stmt(s ast.Stmt) []*cont {
	switch x := s.(type) {
	case nil, *ast.EmptyStmt:
		return one(t.cur)
	case *ast.BlockStmt:
		return t.block(x.List)
	case *ast.LabeledStmt:
		switch x.Stmt.(type) {
		case *ast.ForStmt, *ast.RangeStmt, *ast.SelectStmt, *ast.SwitchStmt:
			return t.labeled(x.Label.Name, x.Stmt)
		}
		return t.stmt(x.Stmt)
	case *ast.ExprStmt:
		if u, ok := x.X.(*ast.UnaryExpr); ok && u.Op == token.ARROW {
			return t.recvStmt(u, nil, x, false)
		}
		if ce, ok := x.X.(*ast.CallExpr); ok {
			return t.callStmt(ce, nil, false)
		}
		t.eval(x.X)
		return one(t.cur)
	case *ast.SendStmt:
		return t.sendStmt(x)
	case *ast.IncDecStmt:
		if id, ok := x.X.(*ast.Ident); ok {
			if v, ok := t.eval(id).(avInt); ok {
				d := 1
				if x.Tok == token.DEC {
					d = -1
				}
				// widening: a counter that is not the index of a statically bounded loop (an attempt
				// counter of a retry loop) stops being tracked, so that the path states of the loop converge
				if nv := v.n + d; nv > 16 || nv < -16 {
					t.assign(id.Name, avUnknown{})
				} else {
					t.assign(id.Name, avInt{nv})
				}
			}
		}
		return one(t.cur)
	case *ast.DeclStmt:
		if gd, ok := x.Decl.(*ast.GenDecl); ok && gd.Tok == token.VAR {
			for _, sp := range gd.Specs {
				vs := sp.(*ast.ValueSpec)
				for i, n := range vs.Names {
					var v AV = avUnknown{}
					if i < len(vs.Values) {
						v = t.eval(vs.Values[i])
					} else if vs.Type != nil {
						v = t.zeroOf(vs.Type, n.Name)
					}
					t.define(n.Name, v)
				}
			}
		}
		return one(t.cur)
	case *ast.AssignStmt:
		return t.assignStmt(x)
	case *ast.GoStmt:
		t.goStmt(x)
		return one(t.cur)
	case *ast.DeferStmt:
		fr := t.fr()
		if t.deferMatters(x.Call) {
			t.cur.ps.defers[fr.id] = append(t.cur.ps.defers[fr.id], deferred{x.Call, fr, t.scope()})
		}
		return one(t.cur)
	case *ast.ReturnStmt:
		t.returnStmt(x)
		return nil
	case *ast.BranchStmt:
		t.branchStmt(x)
		return nil
	case *ast.IfStmt:
		return t.ifStmt(x)
	case *ast.ForStmt:
		return t.labeled("", x)
	case *ast.RangeStmt:
		return t.labeled("", x)
	case *ast.SelectStmt:
		return t.labeled("", x)
	case *ast.SwitchStmt:
		return t.labeled("", x)
	case *ast.TypeSwitchStmt:
		return t.typeSwitch(x)
	}
	t.errorf(s, "unsupported statement %T", s)
	return one(t.cur)
}

func (t *tr) labeled(label string, s ast.Stmt) []*cont {
	switch x := s.(type) {
	case *ast.ForStmt:
		return t.forStmt(label, x)
	case *ast.RangeStmt:
		return t.rangeStmt(label, x)
	case *ast.SelectStmt:
		return t.selectStmt(label, x)
	case *ast.SwitchStmt:
		return t.switchStmt(label, x)
	}
	return t.stmt(s)
}

// zero value of a declared type: wait groups are the interesting case
func (t *tr) zeroOf(e ast.Expr, name string) AV {
	if se, ok := e.(*ast.SelectorExpr); ok {
		if id, ok := se.X.(*ast.Ident); ok && id.Name == "sync" && se.Sel.Name == "WaitGroup" {
			return avWg{t.p.newWg(t.fname() + "." + name)}
		}
	}
	if at, ok := e.(*ast.ArrayType); ok && at.Len == nil {
		isChan := false
		ast.Inspect(at.Elt, func(n ast.Node) bool {
			if _, ok := n.(*ast.ChanType); ok {
				isChan = true
			}
			return true
		})
		if isChan {
			return avList{}
		}
		return avUnknown{}
	}
	if _, ok := e.(*ast.MapType); ok {
		return t.newMap(name)
	}
	return avUnknown{}
}

func (t *tr) newMap(name string) AV {
	id := t.nmaps
	t.nmaps++
	t.mapName[id] = name
	return avMap{id}
}

// fname is the key of the function being translated ("pkg.func" or "pkg.func.closure")
func (t *tr) fname() string {
	if fr := t.fr(); fr != nil && fr.fn != nil {
		return fr.fn.name
	}
	return "?"
}

func (t *tr) ifStmt(x *ast.IfStmt) []*cont {
	t.pushScope()
	var pre []*cont
	if x.Init != nil {
		pre = t.stmt(x.Init)
	} else {
		pre = one(t.cur)
	}
	var out []*cont
	for _, c := range pre {
		t.cur = c
		cond := t.eval(x.Cond)
		if b, ok := cond.(avBool); ok {
			if b.b {
				out = append(out, t.block(x.Body.List)...)
			} else if x.Else != nil {
				out = append(out, t.stmt(x.Else)...)
			} else {
				out = append(out, t.cur)
			}
			continue
		}
		if t.assumedFalse(x) {
			if x.Else != nil {
				out = append(out, t.stmt(x.Else)...)
			} else {
				out = append(out, t.cur)
			}
			continue
		}
		cs := t.forkL(2, t.site(x, "if "+short(t.fr().pkg.fset, x.Cond)), "if "+shortN(t.fr().pkg.fset, x.Cond, 160))
		if cs == nil {
			continue
		}
		t.cur = cs[0]
		out = append(out, t.block(x.Body.List)...)
		t.cur = cs[1]
		if x.Else != nil {
			out = append(out, t.stmt(x.Else)...)
		} else {
			out = append(out, t.cur)
		}
	}
	out = t.mergeConts(out)
	t.popScope(out)
	return out
}

func (t *tr) assumedFalse(x *ast.IfStmt) bool {
	c := short(t.fr().pkg.fset, x.Cond)
	for _, a := range t.cfg.assumeFalse {
		if a == c {
			return true
		}
	}
	return false
}

func (t *tr) branchStmt(x *ast.BranchStmt) {
	fr := t.fr()
	label := ""
	if x.Label != nil {
		label = x.Label.Name
	}
	for i := len(fr.loops) - 1; i >= 0; i-- {
		lc := fr.loops[i]
		if label != "" && lc.label != label {
			continue
		}
		switch x.Tok {
		case token.BREAK:
			t.stripTo(t.cur, lc.depth)
			lc.breaks = append(lc.breaks, t.cur)
			t.cur = nil
			return
		case token.CONTINUE:
			if !lc.isLoop {
				continue
			}
			t.stripTo(t.cur, lc.depth+1)
			lc.cont(t)
			t.cur = nil
			return
		}
	}
	t.errorf(x, "unsupported branch statement %s", x.Tok)
	t.cur = nil
}

// loop translates a loop: head(ps) is instantiated once per distinct path state.
//
//	test: emits the loop test for t.cur and returns (continuations entering the body, continuations leaving the loop)
//	body: translates one iteration for t.cur, returns the fall-through continuations
func (t *tr) loop(label string, site string, test func() ([]*cont, []*cont), body func() []*cont, post func() []*cont) []*cont {
	fr := t.fr()
	lc := &loopCtx{label: label, isLoop: true, depth: len(fr.scopes), copies: map[string]int{}}
	var enter func()
	enter = func() {
		// t.cur arrives at the loop head
		if !t.live() {
			return
		}
		k := t.psKey(t.cur.ps)
		if pc, ok := lc.copies[k]; ok {
			for _, s := range t.cur.pending {
				*s = pc
			}
			if t.cur.atEntry {
				t.errorf(nil, "loop head re-entered from the entry")
			}
			t.cur = nil
			return
		}
		if len(lc.copies) > 64 {
			if os.Getenv("PIPEIR_DEBUG") != "" {
				for kk := range lc.copies {
					fmt.Fprintln(os.Stderr, "COPY", site, kk)
				}
			}
			t.errorf(nil, "%s: too many copies of a loop (path state does not converge)", site)
			t.cur = nil
			return
		}
		s := slot()
		t.emit(&node{kind: "branch", succ: []*int{s}, site: site})
		lc.copies[k] = len(t.g.nodes) - 1
		t.cur.pending = []*int{s}
		ins, outs := test()
		lc.breaks = append(lc.breaks, outs...)
		for _, c := range ins {
			t.cur = c
			for _, c2 := range body() {
				t.cur = c2
				t.stripTo(t.cur, lc.depth+1)
				lc.cont(t)
			}
		}
		t.cur = nil
	}
	lc.cont = func(t *tr) {
		if post != nil {
			for _, c := range post() {
				t.cur = c
				enter()
			}
			return
		}
		enter()
	}
	fr.loops = append(fr.loops, lc)
	t.pushScope()
	enter()
	fr.loops = fr.loops[:len(fr.loops)-1]
	out := t.mergeConts(lc.breaks)
	t.popScope(out)
	return out
}

func (t *tr) forStmt(label string, x *ast.ForStmt) []*cont {
	t.pushScope()
	defer func() {}()
	pre := one(t.cur)
	if x.Init != nil {
		pre = t.stmt(x.Init)
	}
	var out []*cont
	for _, c := range pre {
		t.cur = c
		// statically bounded counting loop: unroll
		if n, v, ok := t.countingLoop(x); ok {
			conts := []*cont{t.cur}
			for i := 0; i < n; i++ {
				var nx []*cont
				for _, c := range conts {
					t.cur = c
					t.assign(v, avInt{i})
					nx = append(nx, t.block(x.Body.List)...)
				}
				conts = t.mergeConts(nx)
			}
			out = append(out, conts...)
			continue
		}
		site := t.site(x, "for")
		test := func() ([]*cont, []*cont) {
			if x.Cond == nil {
				return one(t.cur), nil
			}
			if b, ok := t.eval(x.Cond).(avBool); ok {
				if b.b {
					return one(t.cur), nil
				}
				return nil, one(t.cur)
			}
			cs := t.fork(2, site+" cond")
			if cs == nil {
				return nil, nil
			}
			return cs[:1], cs[1:]
		}
		body := func() []*cont { return t.block(x.Body.List) }
		var post func() []*cont
		if x.Post != nil {
			post = func() []*cont { return t.stmt(x.Post) }
		}
		out = append(out, t.loop(label, site, test, body, post)...)
	}
	out = t.mergeConts(out)
	t.popScope(out)
	return out
}

// for i := 0; i < N; i++ with N known
func (t *tr) countingLoop(x *ast.ForStmt) (int, string, bool) {
	as, ok := x.Init.(*ast.AssignStmt)
	if !ok || len(as.Lhs) != 1 || x.Cond == nil || x.Post == nil {
		return 0, "", false
	}
	id, ok := as.Lhs[0].(*ast.Ident)
	if !ok {
		return 0, "", false
	}
	be, ok := x.Cond.(*ast.BinaryExpr)
	if !ok || be.Op != token.LSS {
		return 0, "", false
	}
	if l, ok := be.X.(*ast.Ident); !ok || l.Name != id.Name {
		return 0, "", false
	}
	if _, ok := x.Post.(*ast.IncDecStmt); !ok {
		return 0, "", false
	}
	n, ok := t.eval(be.Y).(avInt)
	if !ok || n.n > 16 {
		return 0, "", false
	}
	return n.n, id.Name, true
}

func (t *tr) rangeStmt(label string, x *ast.RangeStmt) []*cont {
	coll := t.eval(x.X)
	name := func(e ast.Expr) string {
		if id, ok := e.(*ast.Ident); ok {
			return id.Name
		}
		return "_"
	}
	bind := func(k, v AV) {
		if x.Key != nil {
			if x.Tok == token.DEFINE {
				t.define(name(x.Key), k)
			} else {
				t.assign(name(x.Key), k)
			}
		}
		if x.Value != nil {
			if x.Tok == token.DEFINE {
				t.define(name(x.Value), v)
			} else {
				t.assign(name(x.Value), v)
			}
		}
	}
	switch c := coll.(type) {
	case avChan:
		site := t.site(x, "range "+t.p.chans[c.id].name)
		test := func() ([]*cont, []*cont) {
			ins, outs := t.recvNode(c.id, site, false)
			return ins, outs
		}
		body := func() []*cont {
			var out []*cont
			for _, v := range t.recvValues(c.id) {
				_ = v
			}
			t.pushScope()
			if x.Key != nil {
				t.define(name(x.Key), t.recvValue(c.id))
			}
			out = t.stmts(x.Body.List, []*cont{t.cur})
			t.popScope(out)
			return out
		}
		return t.loop(label, site, test, body, nil)
	case avList:
		conts := []*cont{t.cur}
		for i, el := range c.l {
			var nx []*cont
			for _, ct := range conts {
				t.cur = ct
				t.pushScope()
				bind(avInt{i}, el)
				o := t.stmts(x.Body.List, []*cont{t.cur})
				t.popScope(o)
				nx = append(nx, o...)
			}
			conts = t.mergeConts(nx)
		}
		return conts
	case avEmpty, avNil, avZero:
		return one(t.cur)
	case avMap:
		st := t.cur.ps.maps[c.id]
		if t.dataMaps[c.id] {
			break
		}
		if !st.present {
			return one(t.cur)
		}
		t.pushScope()
		bind(avUnknown{}, st.val)
		o := t.stmts(x.Body.List, []*cont{t.cur})
		t.popScope(o)
		return o
	}
	if me, ok := coll.(avMapElem); ok {
		// a buffer kept in a collector map: whether it is empty matters when the body communicates
		if t.effectful(t.fr().pkg, x.Body, nil, map[ast.Node]bool{}) {
			t.rangedNew[me.id] = true
		}
		if t.ranged[me.id] && !t.cur.ps.maps[me.id].present {
			return one(t.cur)
		}
	}
	// bounded loop over data
	site := t.site(x, "range (data)")
	test := func() ([]*cont, []*cont) {
		cs := t.fork(2, site)
		if cs == nil {
			return nil, nil
		}
		return cs[:1], cs[1:]
	}
	body := func() []*cont {
		t.pushScope()
		bind(avUnknown{}, avUnknown{})
		o := t.stmts(x.Body.List, []*cont{t.cur})
		t.popScope(o)
		return o
	}
	return t.loop(label, site, test, body, nil)
}

// value received from a channel: the unique struct value sent on it, if any
func (t *tr) recvValue(ch int) AV {
	if vs := t.carried[ch]; len(vs) == 1 {
		return vs[0]
	}
	return avUnknown{}
}
func (t *tr) recvValues(ch int) []AV { return t.carried[ch] }

// recvNode emits `sel [recv ch ok closed]`; returns the continuations (value, closed).
func (t *tr) recvNode(ch int, site string, _ bool) ([]*cont, []*cont) {
	if !t.live() {
		return nil, nil
	}
	a := &alt{kind: "recv", ch: ch, n1: slot(), n2: slot()}
	ps := t.cur.ps
	t.emit(&node{kind: "sel", alts: []*alt{a}, site: site})
	return []*cont{{pending: []*int{a.n1}, ps: ps.clone()}}, []*cont{{pending: []*int{a.n2}, ps: ps.clone()}}
}

func (t *tr) switchStmt(label string, x *ast.SwitchStmt) []*cont {
	fr := t.fr()
	t.pushScope()
	pre := one(t.cur)
	if x.Init != nil {
		pre = t.stmt(x.Init)
	}
	lc := &loopCtx{label: label, depth: len(fr.scopes)}
	fr.loops = append(fr.loops, lc)
	var out []*cont
	for _, c := range pre {
		t.cur = c
		var tag AV = avBool{true}
		if x.Tag != nil {
			tag = t.eval(x.Tag)
		}
		var clauses []*ast.CaseClause
		var dflt *ast.CaseClause
		static := !isUnknown(tag)
		matched := false
		for _, cs := range x.Body.List {
			cc := cs.(*ast.CaseClause)
			if cc.List == nil {
				dflt = cc
				continue
			}
			clauses = append(clauses, cc)
		}
		if static {
			// all case expressions must be comparable statically
			var hit *ast.CaseClause
			for _, cc := range clauses {
				for _, e := range cc.List {
					v := t.eval(e)
					if isUnknown(v) {
						static = false
					} else if key(v) == key(tag) && hit == nil {
						hit = cc
					}
				}
			}
			if static {
				matched = true
				if hit == nil {
					hit = dflt
				}
				if hit != nil {
					out = append(out, t.block(hit.Body)...)
				} else {
					out = append(out, t.cur)
				}
			}
		}
		if !matched {
			n := len(clauses) + 1
			cs := t.fork(n, t.site(x, "switch"))
			if cs == nil {
				continue
			}
			for i, cc := range clauses {
				t.cur = cs[i]
				out = append(out, t.block(cc.Body)...)
			}
			t.cur = cs[n-1]
			if dflt != nil {
				out = append(out, t.block(dflt.Body)...)
			} else {
				out = append(out, t.cur)
			}
		}
	}
	fr.loops = fr.loops[:len(fr.loops)-1]
	out = t.mergeConts(append(out, lc.breaks...))
	t.popScope(out)
	return out
}

func (t *tr) typeSwitch(x *ast.TypeSwitchStmt) []*cont {
	fr := t.fr()
	t.pushScope()
	pre := one(t.cur)
	if x.Init != nil {
		pre = t.stmt(x.Init)
	}
	lc := &loopCtx{depth: len(fr.scopes)}
	fr.loops = append(fr.loops, lc)
	var out []*cont
	for _, c := range pre {
		t.cur = c
		bindName := ""
		var subject AV = avUnknown{}
		switch a := x.Assign.(type) {
		case *ast.AssignStmt:
			if id, ok := a.Lhs[0].(*ast.Ident); ok {
				bindName = id.Name
			}
			if ta, ok := a.Rhs[0].(*ast.TypeAssertExpr); ok {
				subject = t.eval(ta.X)
			}
		case *ast.ExprStmt:
			if ta, ok := a.X.(*ast.TypeAssertExpr); ok {
				subject = t.eval(ta.X)
			}
		}
		var clauses []*ast.CaseClause
		hasDefault := false
		for _, cs := range x.Body.List {
			cc := cs.(*ast.CaseClause)
			if cc.List == nil {
				hasDefault = true
			}
			clauses = append(clauses, cc)
		}
		n := len(clauses)
		if !hasDefault {
			n++
		}
		cs := t.fork(n, t.site(x, "type switch"))
		if cs == nil {
			continue
		}
		for i, cc := range clauses {
			t.cur = cs[i]
			t.pushScope()
			if bindName != "" {
				t.define(bindName, subject)
			}
			o := t.stmts(cc.Body, []*cont{t.cur})
			t.popScope(o)
			out = append(out, o...)
		}
		if !hasDefault {
			out = append(out, cs[n-1])
		}
	}
	fr.loops = fr.loops[:len(fr.loops)-1]
	out = t.mergeConts(append(out, lc.breaks...))
	t.popScope(out)
	return out
}

// ---- channel operations ----------------------------------------------------------------

// chanOf evaluates a channel operand: (channel id, tick?, ok)
func (t *tr) chanOf(e ast.Expr) (int, string) {
	v := t.eval(e)
	switch c := v.(type) {
	case avChan:
		return c.id, "chan"
	case avTick:
		t.lastTick = c.src
		return 0, "tick"
	case avNil:
		// a nil channel: never ready, never closed
		return t.nilChan(), "chan"
	case avZero:
		return 0, "nil"
	}
	return 0, "?"
}

// nilChan is the channel that stands for `nil`: nobody sends on it, nobody closes it (a receive
// blocks for ever, a range never ends)
func (t *tr) nilChan() int {
	if t.nilID < 0 {
		t.nilID = t.p.newChan("nil", 0)
		t.p.chans[t.nilID].env = true
	}
	return t.nilID
}

// ctxDoneOf recognises `<expr>.Done()` and returns the context
func (t *tr) ctxDoneOf(e ast.Expr) (AV, bool) {
	ce, ok := e.(*ast.CallExpr)
	if !ok {
		return nil, false
	}
	se, ok := ce.Fun.(*ast.SelectorExpr)
	if !ok || se.Sel.Name != "Done" || len(ce.Args) != 0 {
		return nil, false
	}
	v := t.eval(se.X)
	switch v.(type) {
	case avCtx, avZero, avNil:
		return v, true
	}
	if isUnknown(v) {
		return v, true
	}
	return nil, false
}

// sendTarget: the (possibly virtual) channel a value is sent on, recording hand-off values
func (t *tr) sendTarget(ch int, val AV) int {
	if st, ok := val.(*avStruct); ok {
		k := key(st)
		found := false
		for _, v := range t.sent[ch] {
			if key(v) == k {
				found = true
			}
		}
		if !found {
			t.sent[ch] = append(t.sent[ch], st)
		}
		if len(t.carried[ch]) > 1 {
			return t.subChan(ch, k)
		}
	}
	return ch
}

func (t *tr) subChan(ch int, k string) int {
	id := fmt.Sprintf("%d/%s", ch, k)
	if c, ok := t.chanSub[id]; ok {
		return c
	}
	n := 0
	for x := range t.chanSub {
		if strings.HasPrefix(x, fmt.Sprintf("%d/", ch)) {
			n++
		}
	}
	c := t.p.newChan(fmt.Sprintf("%s/%d", t.p.chans[ch].name, n), t.p.chans[ch].cap)
	t.p.chans[c].env = t.p.chans[ch].env
	t.chanSub[id] = c
	return c
}

func (t *tr) sendStmt(x *ast.SendStmt) []*cont {
	ch, kind := t.chanOf(x.Chan)
	val := t.eval(x.Value)
	if kind != "chan" {
		t.errorf(x, "send on an unresolved channel %s", short(t.fr().pkg.fset, x.Chan))
		return one(t.cur)
	}
	ch = t.sendTarget(ch, val)
	a := &alt{kind: "send", ch: ch, n1: slot()}
	t.emit(&node{kind: "sel", alts: []*alt{a}, site: t.site(x, "")})
	t.cur.pending = []*int{a.n1}
	return one(t.cur)
}

// recvAlts builds the alternatives of one receive: a hand-off channel that carries several
// distinct values is split into one virtual channel per value.
type recvCase struct {
	a   *alt
	val AV
}

func (t *tr) recvCases(ch int) []recvCase {
	vs := t.carried[ch]
	if len(vs) <= 1 {
		return []recvCase{{&alt{kind: "recv", ch: ch, n1: slot(), n2: slot()}, t.recvValue(ch)}}
	}
	var out []recvCase
	for _, v := range vs {
		out = append(out, recvCase{&alt{kind: "recv", ch: t.subChan(ch, key(v)), n1: slot(), n2: slot()}, v})
	}
	return out
}

// recvStmt: `<-c`, `v := <-c`, `v, ok := <-c` as a statement (lhs may be nil)
func (t *tr) recvStmt(u *ast.UnaryExpr, lhs []ast.Expr, at ast.Node, define bool) []*cont {
	if cv, ok := t.ctxDoneOf(u.X); ok {
		if c, ok := cv.(avCtx); ok && c.k >= 0 {
			a := &alt{kind: "ctx", k: c.k, n1: slot()}
			t.emit(&node{kind: "sel", alts: []*alt{a}, site: t.site(at, "")})
			t.cur.pending = []*int{a.n1}
			return one(t.cur)
		}
		t.errorf(at, "receive on the Done channel of an unresolved context")
		return one(t.cur)
	}
	ch, kind := t.chanOf(u.X)
	switch kind {
	case "tick":
		a := &alt{kind: "tick", n1: slot()}
		t.p.timer(t.g.name, t.lastTick)
		t.emit(&node{kind: "sel", alts: []*alt{a}, site: t.site(at, "")})
		t.cur.pending = []*int{a.n1}
		return one(t.cur)
	case "chan":
	default:
		t.errorf(at, "receive on an unresolved channel %s", short(t.fr().pkg.fset, u.X))
		return one(t.cur)
	}
	cases := t.recvCases(ch)
	nd := &node{kind: "sel", site: t.site(at, "")}
	for _, rc := range cases {
		nd.alts = append(nd.alts, rc.a)
	}
	ps := t.cur.ps
	t.emit(nd)
	var out []*cont
	for _, rc := range cases {
		for i, s := range []*int{rc.a.n1, rc.a.n2} {
			c := &cont{pending: []*int{s}, ps: ps.clone()}
			t.cur = c
			t.bindRecv(lhs, define, rc.val, i == 0)
			out = append(out, c)
		}
	}
	return t.mergeConts(out)
}

func (t *tr) bindRecv(lhs []ast.Expr, define bool, val AV, ok bool) {
	set := func(e ast.Expr, v AV) {
		id, isId := e.(*ast.Ident)
		if !isId {
			return
		}
		if define {
			t.define(id.Name, v)
		} else {
			t.assign(id.Name, v)
		}
	}
	if len(lhs) >= 1 {
		if ok {
			set(lhs[0], val)
		} else {
			set(lhs[0], avUnknown{})
		}
	}
	if len(lhs) >= 2 {
		set(lhs[1], avBool{ok})
	}
}

func (t *tr) selectStmt(label string, x *ast.SelectStmt) []*cont {
	fr := t.fr()
	lc := &loopCtx{label: label, depth: len(fr.scopes)}
	type clause struct {
		cc     *ast.CommClause
		slots  []*int
		lhs    []ast.Expr
		define bool
		val    AV
		ok     []bool // per slot: ok value to bind (recv)
		isRecv bool
	}
	nd := &node{kind: "sel", site: t.site(x, "select")}
	var cls []*clause
	for _, s := range x.Body.List {
		cc := s.(*ast.CommClause)
		switch c := cc.Comm.(type) {
		case nil:
			a := &alt{kind: "dflt", n1: slot()}
			nd.alts = append(nd.alts, a)
			cls = append(cls, &clause{cc: cc, slots: []*int{a.n1}})
		case *ast.SendStmt:
			ch, kind := t.chanOf(c.Chan)
			val := t.eval(c.Value)
			if kind != "chan" {
				t.errorf(c, "select: send on an unresolved channel %s", short(fr.pkg.fset, c.Chan))
				continue
			}
			a := &alt{kind: "send", ch: t.sendTarget(ch, val), n1: slot()}
			nd.alts = append(nd.alts, a)
			cls = append(cls, &clause{cc: cc, slots: []*int{a.n1}})
		case *ast.ExprStmt, *ast.AssignStmt:
			var u *ast.UnaryExpr
			var lhs []ast.Expr
			define := false
			if es, ok := c.(*ast.ExprStmt); ok {
				u, _ = es.X.(*ast.UnaryExpr)
			} else {
				as := c.(*ast.AssignStmt)
				u, _ = as.Rhs[0].(*ast.UnaryExpr)
				lhs = as.Lhs
				define = as.Tok == token.DEFINE
			}
			if u == nil || u.Op != token.ARROW {
				t.errorf(cc, "select: unsupported communication clause")
				continue
			}
			if cv, ok := t.ctxDoneOf(u.X); ok {
				cx, isCtx := cv.(avCtx)
				if !isCtx {
					// a context we do not track (a per-request context of another layer): may fire at any moment
					t.p.warn("%s: %s is not a pipeline context; modelled as an event that may fire at any moment", fr.pkg.pos(cc), short(fr.pkg.fset, u.X))
					a := &alt{kind: "tick", n1: slot()}
					t.p.timer(t.g.name, "foreign-context")
					nd.alts = append(nd.alts, a)
					cls = append(cls, &clause{cc: cc, slots: []*int{a.n1}})
					continue
				}
				if cx.k < 0 {
					continue // context.Background(): never done
				}
				a := &alt{kind: "ctx", k: cx.k, n1: slot()}
				nd.alts = append(nd.alts, a)
				cls = append(cls, &clause{cc: cc, slots: []*int{a.n1}})
				continue
			}
			ch, kind := t.chanOf(u.X)
			switch kind {
			case "tick":
				a := &alt{kind: "tick", n1: slot()}
				t.p.timer(t.g.name, t.lastTick)
				nd.alts = append(nd.alts, a)
				cls = append(cls, &clause{cc: cc, slots: []*int{a.n1}})
			case "chan":
				for _, rc := range t.recvCases(ch) {
					nd.alts = append(nd.alts, rc.a)
					cls = append(cls, &clause{cc: cc, slots: []*int{rc.a.n1, rc.a.n2}, lhs: lhs, define: define, val: rc.val, isRecv: true})
				}
			default:
				t.errorf(cc, "select: receive on an unresolved channel %s", short(fr.pkg.fset, u.X))
			}
		}
	}
	if !t.live() {
		return nil
	}
	ps := t.cur.ps
	t.emit(nd)
	fr.loops = append(fr.loops, lc)
	var out []*cont
	for _, cl := range cls {
		if cl.isRecv && len(cl.lhs) >= 2 {
			// `v, ok := <-c`: the body is translated once per outcome
			for i, s := range cl.slots {
				t.cur = &cont{pending: []*int{s}, ps: ps.clone()}
				t.pushScope()
				t.bindRecv(cl.lhs, cl.define, cl.val, i == 0)
				o := t.stmts(cl.cc.Body, []*cont{t.cur})
				t.popScope(o)
				out = append(out, o...)
			}
			continue
		}
		t.cur = &cont{pending: cl.slots, ps: ps.clone()}
		t.pushScope()
		if cl.isRecv {
			t.bindRecv(cl.lhs, cl.define, cl.val, true)
		}
		o := t.stmts(cl.cc.Body, []*cont{t.cur})
		t.popScope(o)
		out = append(out, o...)
	}
	fr.loops = fr.loops[:len(fr.loops)-1]
	for _, b := range lc.breaks {
		out = append(out, b)
	}
	return t.mergeConts(out)
}

// deferMatters: does the deferred call touch channels, wait groups or contexts?
func (t *tr) deferMatters(ce *ast.CallExpr) bool {
	switch f := ce.Fun.(type) {
	case *ast.Ident:
		if f.Name == "close" {
			return true
		}
	case *ast.SelectorExpr:
		if _, ok := t.eval(f.X).(avWg); ok {
			return true
		}
	case *ast.FuncLit:
		return t.effectful(t.fr().pkg, f.Body, f.Type, map[ast.Node]bool{})
	}
	switch v := t.eval(ce.Fun).(type) {
	case avCancel:
		return true
	case *avFunc:
		return t.effectful(v.pkg, v.body, v.typ, map[ast.Node]bool{})
	}
	return false
}

/-
Helper lemmas for the ABI layer: the length of an encoding is a multiple of 32, static arguments sit in
their head slots, different argument lists have different encodings.
-/
import DosModel.Proofs.Abi

namespace Dos.Abi
open Dos Dos.ReqLoop

theorem pad32_length_mod (bs : Bytes) : (pad32 bs).length % 32 = 0 := by
  simp only [pad32, zeros, List.length_append, List.length_replicate]
  have h : bs.length ≤ (bs.length + 31) / 32 * 32 := by omega
  have : bs.length + ((bs.length + 31) / 32 * 32 - bs.length) = (bs.length + 31) / 32 * 32 := by omega
  rw [this]; exact Nat.mul_mod_left _ _

theorem encTail_length_mod {t : AbiType} {v : AbiVal} (hw : t.wf = true) (hv : v.wt t = true)
    (hd : t.isDynamic = true) : (encTail v).length % 32 = 0 := by
  cases t with
  | elem e => simp [AbiType.isDynamic] at hd
  | sarray e n => simp [AbiType.isDynamic] at hd
  | darray e =>
    cases v <;> simp [AbiVal.wt] at hv
    rename_i l
    simp only [AbiType.wf] at hw
    have hall : (List.all l (EVal.wt e)) = true := by simpa using hv
    simp only [encTail, List.length_append, natBE_len, encWords_length hw hall]
    omega
  | bytes =>
    cases v <;> simp [AbiVal.wt] at hv
    rename_i bs
    have := pad32_length_mod bs
    simp only [encTail, List.length_append, natBE_len]
    omega
  | string =>
    cases v <;> simp [AbiVal.wt] at hv
    rename_i bs
    have := pad32_length_mod bs
    simp only [encTail, List.length_append, natBE_len]
    omega

theorem headLen_mod : ∀ (tys : List AbiType), headLen tys % 32 = 0 := by
  intro tys
  induction tys with
  | nil => simp [headLen]
  | cons t ts ih =>
    rw [headLen_cons]
    cases t <;> simp only [AbiType.headSize] <;> omega

theorem encGo_snd_length_mod : ∀ (tys : List AbiType) (vs : List AbiVal) (off : Nat),
    tysWf tys = true → wtArgs tys vs = true → (encGo off tys vs).2.length % 32 = 0 := by
  intro tys
  induction tys with
  | nil => intro vs off _ _; cases vs <;> simp [encGo]
  | cons t ts ih =>
    intro vs off hw hv
    cases vs with
    | nil => simp [wtArgs] at hv
    | cons v vs =>
      simp only [wtArgs, Bool.and_eq_true] at hv
      simp only [tysWf, List.all_cons, Bool.and_eq_true] at hw
      by_cases hd : t.isDynamic = true
      · simp only [encGo, hd, if_true, List.length_append]
        have h1 := encTail_length_mod hw.1 hv.1 hd
        have h2 := ih vs (off + (encTail v).length) hw.2 hv.2
        omega
      · have hs : t.isDynamic = false := by simpa using hd
        simp only [encGo, hs, Bool.false_eq_true, if_false]
        exact ih vs off hw.2 hv.2

theorem encodeRaw_length_mod (tys : List AbiType) (vs : List AbiVal) (hw : tysWf tys = true)
    (hv : wtArgs tys vs = true) : (encodeRaw tys vs).length % 32 = 0 := by
  simp only [encodeRaw, List.length_append, encGo_fst_length tys vs _ hw hv]
  have h1 := headLen_mod tys
  have h2 := encGo_snd_length_mod tys vs (headLen tys) hw hv
  omega

/-- the head part: argument `k`, if static, occupies the bytes from `headLen (tys.take k)` on -/
theorem encGo_static_slot : ∀ (tys : List AbiType) (vs : List AbiVal) (off k : Nat) (t : AbiType) (v : AbiVal),
    tysWf tys = true → wtArgs tys vs = true → tys[k]? = some t → vs[k]? = some v → t.isDynamic = false →
    ((encGo off tys vs).1.drop (headLen (tys.take k))).take t.headSize = encStatic v := by
  intro tys
  induction tys with
  | nil => intro vs off k t v _ _ ht; simp at ht
  | cons t0 ts ih =>
    intro vs off k t v hw hv ht hvk hs
    cases vs with
    | nil => simp [wtArgs] at hv
    | cons v0 vs =>
      simp only [wtArgs, Bool.and_eq_true] at hv
      simp only [tysWf, List.all_cons, Bool.and_eq_true] at hw
      cases k with
      | zero =>
        simp only [List.getElem?_cons_zero, Option.some.injEq] at ht hvk
        subst ht; subst hvk
        simp only [List.take_zero, headLen, List.map_nil, List.sum_nil, List.drop_zero, encGo, hs, Bool.false_eq_true,
          if_false]
        rw [← encStatic_length hw.1 hv.1 hs, List.take_left]
      | succ k =>
        simp only [List.getElem?_cons_succ] at ht hvk
        simp only [List.take_succ_cons, headLen_cons]
        by_cases hd : t0.isDynamic = true
        · simp only [encGo, hd, if_true]
          have : t0.headSize = (natBE 32 off).length := by rw [headSize_dynamic hd, natBE_len]
          rw [this, ← List.drop_drop, List.drop_left]
          exact ih vs _ k t v hw.2 hv.2 ht hvk hs
        · have hs0 : t0.isDynamic = false := by simpa using hd
          simp only [encGo, hs0, Bool.false_eq_true, if_false]
          rw [← encStatic_length hw.1 hv.1 hs0, ← List.drop_drop, List.drop_left]
          exact ih vs _ k t v hw.2 hv.2 ht hvk hs

theorem headLen_take_le : ∀ (tys : List AbiType) (k : Nat) (t : AbiType), tys[k]? = some t →
    headLen (tys.take k) + t.headSize ≤ headLen tys := by
  intro tys
  induction tys with
  | nil => intro k t h; simp at h
  | cons t0 ts ih =>
    intro k t h
    cases k with
    | zero =>
      simp only [List.getElem?_cons_zero, Option.some.injEq] at h
      subst h
      simp [headLen]
    | succ k =>
      simp only [List.getElem?_cons_succ] at h
      have := ih k t h
      simp only [List.take_succ_cons, headLen_cons]
      omega

/-- in the whole encoding -/
theorem encodeRaw_static_slot (tys : List AbiType) (vs : List AbiVal) (k : Nat) (t : AbiType) (v : AbiVal)
    (hw : tysWf tys = true) (hv : wtArgs tys vs = true) (ht : tys[k]? = some t) (hvk : vs[k]? = some v)
    (hs : t.isDynamic = false) :
    ((encodeRaw tys vs).drop (headOffset tys k)).take t.headSize = encStatic v := by
  have hl := encGo_fst_length tys vs (headLen tys) hw hv
  have hle := headLen_take_le tys k t ht
  have h := encGo_static_slot tys vs (headLen tys) k t v hw hv ht hvk hs
  simp only [encodeRaw, headOffset]
  rw [List.drop_append_of_le_length (by omega), List.take_append_of_le_length (by simp [List.length_drop]; omega)]
  exact h

end Dos.Abi

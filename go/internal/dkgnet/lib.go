package dkgnet

import (
	"bytes"
	"fmt"
	"math/big"
	"sort"
	"strings"

	"github.com/golang/protobuf/proto"

	dkg "github.com/DOSNetwork/core/share/dkg/pedersen"
	vss "github.com/DOSNetwork/core/share/vss/pedersen"
	"github.com/dedis/kyber"

	"verifharness/internal/h"
)

// Group is n members with real DistKeyGenerators whose long-term keys and dealer secrets the
// harness chose (and therefore knows).
type Group struct {
	N, T    int
	Secs    []kyber.Scalar
	Pubs    []kyber.Point
	Secrets []*big.Int // dealer secret of every member (constant coefficient)
	Gens    []*dkg.DistKeyGenerator
	Deals   []map[int]*dkg.Deal // Deals()[j][i] = deal of dealer j for member i
}

// NewGroup builds the generators for the members listed in `honest` (nil = all) and calls Deals() on them.
func NewGroup(r *h.Rng, n, t int, honest []int) *Group {
	InitLog()
	g := &Group{N: n, T: t}
	for k := 0; k < n; k++ {
		s := Scalar(NonZero(r))
		g.Secs = append(g.Secs, s)
		g.Pubs = append(g.Pubs, Pub(s))
		g.Secrets = append(g.Secrets, NonZero(r))
	}
	g.Gens = make([]*dkg.DistKeyGenerator, n)
	g.Deals = make([]map[int]*dkg.Deal, n)
	isHonest := func(k int) bool {
		if honest == nil {
			return true
		}
		for _, x := range honest {
			if x == k {
				return true
			}
		}
		return false
	}
	for k := 0; k < n; k++ {
		if !isHonest(k) {
			continue
		}
		gen, err := dkg.VerifNewDistKeyGenerator(Suite, g.Secs[k], g.Pubs, t, Scalar(g.Secrets[k]))
		if err != nil {
			panic("NewGroup: " + err.Error())
		}
		g.Gens[k] = gen
		ds, err := gen.Deals()
		if err != nil {
			panic("NewGroup Deals: " + err.Error())
		}
		g.Deals[k] = ds
	}
	return g
}

// Coeffs returns the secret polynomial of member k as reference numbers.
func (g *Group) Coeffs(k int) []*big.Int {
	var out []*big.Int
	for _, c := range g.Gens[k].VerifDealer().PrivatePoly().Coefficients() {
		out = append(out, Big(c))
	}
	return out
}

// CloneDeal / CloneResp give every recipient its own copy, as the wire does (the library mutates
// Response.Status through shared pointers when it accepts a justification).
func CloneDeal(d *dkg.Deal) *dkg.Deal { return proto.Clone(d).(*dkg.Deal) }
func CloneResp(r *dkg.Response) *dkg.Response {
	return proto.Clone(r).(*dkg.Response)
}

// DkgErrKind maps the library's error strings to the model's enum.
func DkgErrKind(err error) string {
	s := err.Error()
	switch {
	case strings.Contains(s, "dist deal out of bounds"):
		return "dealindex"
	case strings.Contains(s, "already received dist deal"):
		return "dealdup"
	case strings.Contains(s, "no deal for it"):
		if strings.Contains(s, "Justification") {
			return "justnodeal"
		}
		return "respnodeal"
	case strings.Contains(s, "response message without a response"):
		return "respnil"
	case strings.Contains(s, "inconsistent sessionID in response"):
		return "respsid"
	case strings.Contains(s, "index out of bounds in response"):
		return "respindex"
	case strings.Contains(s, "index out of bounds in Complaint"):
		return "respindex"
	case strings.Contains(s, "already existing response"):
		return "respdup"
	case strings.Contains(s, "need to receive deal before response"):
		return "nodealbeforeresp"
	case strings.Contains(s, "no encrypted deal"):
		return "nodeal"
	case strings.Contains(s, "message authentication failed"):
		return "open"
	case strings.Contains(s, "nonce"):
		return "nonce"
	case strings.Contains(s, "wrong index from deal"):
		return "index"
	case strings.Contains(s, "already received a deal"):
		return "already"
	case strings.Contains(s, "without a share"):
		return "noshare"
	case strings.Contains(s, "index out of bounds in justification"):
		return "justindex"
	case strings.Contains(s, "no complaints received for this justification"):
		return "justnocomplaint"
	case strings.Contains(s, "justification received for an approval"):
		return "justapproval"
	case strings.Contains(s, "not certified"):
		return "notcertified"
	case strings.Contains(s, "different number of coefficients"):
		return "coeffs"
	case strings.HasPrefix(s, "schnorr:"), strings.Contains(s, "bn256."), strings.Contains(s, "UnmarshalBinary"):
		return "sig"
	case strings.HasPrefix(s, "vss:"):
		return "justdeal" // remaining vss errors come out of VerifyDeal inside verifyJustification
	}
	return "other:" + h.OneLine(s)
}

// Outcome of one member after a run.
type Outcome struct {
	Finished bool
	ErrKind  string
	Share    *dkg.DistKeyShare
}

func Finish(gen *dkg.DistKeyGenerator) (o Outcome) {
	defer func() {
		if r := recover(); r != nil {
			o = Outcome{ErrKind: "panic:" + h.OneLine(fmt.Sprint(r))}
		}
	}()
	if !gen.Certified() {
		return Outcome{ErrKind: "notcertified"}
	}
	ks, err := gen.DistKeyShare()
	if err != nil {
		return Outcome{ErrKind: DkgErrKind(err)}
	}
	return Outcome{Finished: true, Share: ks}
}

// KeyClasses labels finishers by equality class of their commitment vector (first seen = 0), "-" otherwise.
func KeyClasses(outs []Outcome) string {
	var reps [][]byte
	var lab []string
	for _, o := range outs {
		if !o.Finished {
			lab = append(lab, "-")
			continue
		}
		var all []byte
		for _, c := range o.Share.Commits {
			all = append(all, PointBytes(c)...)
		}
		found := -1
		for k, rp := range reps {
			if bytes.Equal(rp, all) {
				found = k
			}
		}
		if found < 0 {
			reps = append(reps, all)
			found = len(reps) - 1
		}
		lab = append(lab, fmt.Sprint(found))
	}
	return strings.Join(lab, "")
}

// JointOracle evaluates the statement of C04/C05 on the joint outcome of the listed members:
// all finishers hold the same commitments, each finisher's share lies on them at its own index,
// and (wantSecret != nil) every t-subset of finishers' shares interpolates to a secret whose commitment is
// the group key; with wantSecret the sum of the dealers' secrets it must equal that.
func JointOracle(members []int, outs []Outcome, t int, wantSecret *big.Int, wantCommits []kyber.Point, r *h.Rng) string {
	var fin []int
	for k, o := range outs {
		if o.Finished {
			fin = append(fin, k)
		}
	}
	if len(fin) == 0 {
		return ""
	}
	ref := outs[fin[0]].Share.Commits
	for _, k := range fin[1:] {
		if !PointsEqual(ref, outs[k].Share.Commits) {
			return fmt.Sprintf("split-key: members %d and %d finished with different public polynomials", members[fin[0]], members[k])
		}
	}
	for _, k := range fin {
		sh := outs[k].Share.Share
		if sh.I != members[k] {
			return fmt.Sprintf("share-index: member %d holds a share with index %d", members[k], sh.I)
		}
		lhs := Pub(sh.V)
		rhs := PubEval(ref, int64(sh.I)+1)
		if !bytes.Equal(PointBytes(lhs), PointBytes(rhs)) {
			return fmt.Sprintf("share-off-polynomial: member %d's share is not on the agreed public polynomial", members[k])
		}
	}
	if wantCommits != nil && !PointsEqual(ref, wantCommits) {
		return "commitments-not-sum: the public polynomial is not the sum of the dealers' commitments"
	}
	if len(fin) >= t {
		subsets := allSubsets(len(fin), t, 40, r)
		for _, sub := range subsets {
			var xs []int64
			var ys []*big.Int
			for _, p := range sub {
				sh := outs[fin[p]].Share.Share
				xs = append(xs, int64(sh.I)+1)
				ys = append(ys, Big(sh.V))
			}
			s := LagrangeAtZero(xs, ys)
			if !bytes.Equal(PointBytes(Pub(Scalar(s))), PointBytes(ref[0])) {
				return fmt.Sprintf("reconstruct-key: shares of members %v interpolate to a secret whose commitment is not the group key", sub)
			}
			if wantSecret != nil && s.Cmp(new(big.Int).Mod(wantSecret, Order)) != 0 {
				return fmt.Sprintf("reconstruct-secret: shares of members %v do not interpolate to the sum of the dealers' secrets", sub)
			}
		}
	}
	return ""
}

// allSubsets enumerates the t-subsets of {0..n-1}; when there are more than max it samples max of them.
func allSubsets(n, t, max int, r *h.Rng) [][]int {
	var out [][]int
	var rec func(start int, cur []int)
	rec = func(start int, cur []int) {
		if len(cur) == t {
			out = append(out, append([]int{}, cur...))
			return
		}
		for i := start; i < n; i++ {
			rec(i+1, append(cur, i))
		}
	}
	count := 1
	for i := 0; i < t; i++ {
		count = count * (n - i) / (i + 1)
	}
	if count <= max {
		rec(0, nil)
		return out
	}
	for k := 0; k < max; k++ {
		p := r.Perm(n)[:t]
		sort.Ints(p)
		out = append(out, p)
	}
	return out
}

// SumCommits is the coefficient-wise sum of the dealers' commitment vectors, from reference numbers.
func SumCommits(coeffs [][]*big.Int) []kyber.Point {
	if len(coeffs) == 0 {
		return nil
	}
	sum := make([]*big.Int, len(coeffs[0]))
	for i := range sum {
		sum[i] = new(big.Int)
	}
	for _, c := range coeffs {
		for i := range sum {
			if i < len(c) {
				sum[i].Add(sum[i], c[i])
				sum[i].Mod(sum[i], Order)
			}
		}
	}
	return Commit(sum)
}

// SignedResponse builds a vss response signed with sk.
func SignedResponse(sk kyber.Scalar, sid []byte, index uint32, status bool) *vss.Response {
	r := &vss.Response{SessionID: sid, Index: index, Status: status}
	r.Signature = SchnorrSign(sk, r.Hash(Suite))
	return r
}

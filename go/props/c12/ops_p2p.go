package c12

import (
	"context"
	"encoding/binary"
	"errors"
	"fmt"
	"io"
	"io/ioutil"
	"net"
	"os"
	"path/filepath"
	"strings"
	"syscall"
	"time"

	"github.com/DOSNetwork/core/p2p"
	"github.com/DOSNetwork/core/p2p/discover"
	dkg "github.com/DOSNetwork/core/share/dkg/pedersen"
	vss "github.com/DOSNetwork/core/share/vss/pedersen"
	"github.com/DOSNetwork/core/sign/bls"
	"github.com/dedis/kyber"
	"github.com/golang/protobuf/proto"
	"github.com/golang/protobuf/ptypes"
	"github.com/golang/protobuf/ptypes/any"
	"github.com/hashicorp/serf/serf"

	"verifharness/internal/h"
)

type p2pMsg = proto.Message

var localID = []byte("local-node-id-000001")

// ---------------------------------------------------------------- frames

func remoteKey() (kyber.Scalar, kyber.Point) {
	s := scalarOf("remote", 1)
	return s, suite.Point().Mul(s, nil)
}

// buildFrame: the bytes of a Package described abstractly (see the Lean `Frame`)
func buildFrame(spec string, realSig bool) []byte {
	if spec == "U" {
		return []byte{0xff, 0xff, 0xff, 0x07}
	}
	f := strings.Split(spec, "/")
	anySpec, sigOK, reply := f[1], f[2] == "1", f[3] == "1"
	pa := &p2p.Package{Sender: []byte("remote-node-id-00002"), RequestNonce: 7, ReplyFlag: reply}
	idURL := ""
	{
		a, _ := ptypes.MarshalAny(&p2p.ID{})
		idURL = a.TypeUrl
	}
	switch {
	case anySpec == "none":
	case anySpec == "known":
		pa.Anything, _ = ptypes.MarshalAny(&vss.Signature{RequestId: []byte("r1"), Content: []byte("c")})
	case anySpec == "unk":
		pa.Anything = &any.Any{TypeUrl: "type.googleapis.com/nosuch.Message", Value: []byte{8, 1}}
	case anySpec == "badval":
		pa.Anything = &any.Any{TypeUrl: idURL, Value: []byte{0x0a, 0xff, 0xff}}
	case strings.HasPrefix(anySpec, "id."):
		g := strings.Split(anySpec, ".")
		id := &p2p.ID{}
		switch g[1] {
		case "ok":
			_, pub := remoteKey()
			id.PublicKey = mustBin(pub)
		case "inf":
			id.PublicKey = []byte{0}
		case "inf0":
			// every encoding the decoder maps to the identity, not only the canonical one: a FULL-LENGTH
			// buffer whose tag byte is 0 is the point at infinity whatever follows
			id.PublicKey = make([]byte, 129)
			for i := 1; i < len(id.PublicKey); i++ {
				id.PublicKey[i] = byte(0xa5 ^ i)
			}
		case "inf1":
			// tag 1 and four zero coordinates: special-cased as the point at infinity
			id.PublicKey = make([]byte, 129)
			id.PublicKey[0] = 1
		case "trunc":
			_, pub := remoteKey()
			b := mustBin(pub)
			id.PublicKey = b[:len(b)-1]
		case "bad":
			id.PublicKey = []byte{1, 2, 3}
		}
		switch g[2] {
		case "other":
			id.Id = []byte("remote-node-id-00002")
		case "same":
			id.Id = localID
		}
		pa.Anything, _ = ptypes.MarshalAny(id)
	default:
		panic("bad any spec " + anySpec)
	}
	var payload []byte
	if pa.Anything != nil {
		payload = pa.Anything.Value
	}
	if realSig {
		sec, _ := remoteKey()
		pa.Signature, _ = bls.Sign(suite, sec, payload)
		if !sigOK {
			pa.Signature, _ = bls.Sign(suite, sec, append([]byte("x"), payload...))
		}
	} else if sigOK {
		pa.Signature = []byte("good")
	} else {
		pa.Signature = []byte("bad")
	}
	b, err := proto.Marshal(pa)
	if err != nil {
		panic(err)
	}
	return b
}

func decErrKind(e error) string {
	s := e.Error()
	switch {
	case strings.Contains(s, "package without a message"):
		return "noany"
	case strings.Contains(s, "veifyfn"):
		return "verify"
	case strings.Contains(s, "UnmarshalAny"):
		return "any"
	case strings.Contains(s, "Unmarshal"):
		return "unmarshal"
	}
	return "other:" + h.OneLine(s)
}

func fakeVerify(msg, sig []byte) error {
	if string(sig) == "good" {
		return nil
	}
	return errors.New("bad signature")
}

func opDec(v, spec string) (string, string) {
	var vf func(msg, sig []byte) error
	if v == "1" {
		vf = fakeVerify
	}
	_, _, err := p2p.VerifPDecodeBytes(buildFrame(spec, false), vf)
	if err != nil {
		return "err " + decErrKind(err), ""
	}
	return "ok", ""
}

// ---------------------------------------------------------------- dpipe

func opDpipe(spec string) (string, string) {
	setup()
	_, pub := remoteKey()
	in := make(chan []byte)
	reply, recv, errc, cancel := p2p.VerifPDecodePipe(pub, in)
	defer cancel()
	one := func(b []byte) string {
		select {
		case in <- b:
		case <-time.After(stepWait):
			return "hang"
		}
		select {
		case <-reply:
			return "ok reply"
		case <-recv:
			return "ok recv"
		case <-errc:
			return "err decode"
		case <-time.After(stepWait):
			return "hang"
		}
	}
	res := one(buildFrame(spec, true))
	oracle := ""
	if res == "hang" {
		return res, "hang-dpipe: decodePipe neither delivered nor reported"
	}
	if after := one(buildFrame("K/known/1/0", true)); after != "ok recv" {
		oracle = "not-serving-dpipe: a valid frame after the case gave " + after
	}
	return res, oracle
}

// ---------------------------------------------------------------- rid (handshake)

type sconn struct {
	data []byte
	hold chan struct{} // closed → EOF after data
}

func (c *sconn) Read(b []byte) (int, error) {
	if len(c.data) == 0 {
		return 0, io.EOF
	}
	n := copy(b, c.data)
	c.data = c.data[n:]
	return n, nil
}
func (c *sconn) Write(b []byte) (int, error)        { return len(b), nil }
func (c *sconn) Close() error                       { return nil }
func (c *sconn) LocalAddr() net.Addr                { return &net.TCPAddr{} }
func (c *sconn) RemoteAddr() net.Addr               { return &net.TCPAddr{} }
func (c *sconn) SetDeadline(t time.Time) error      { return nil }
func (c *sconn) SetReadDeadline(t time.Time) error  { return nil }
func (c *sconn) SetWriteDeadline(t time.Time) error { return nil }

func framed(b []byte) []byte {
	var hd [4]byte
	binary.BigEndian.PutUint32(hd[:], uint32(len(b)))
	return append(hd[:], b...)
}

func ridErrKind(e error) string {
	s := e.Error()
	switch {
	case strings.Contains(s, "readFrom"):
		return "read"
	case strings.Contains(s, "decodeBytes"):
		return decErrKind(errors.New(strings.SplitN(s, "decodeBytes: ", 2)[1]))
	case strings.Contains(s, "ID casting"):
		return "cast"
	case strings.Contains(s, "remoteID"):
		return "dupid"
	case strings.Contains(s, "point at infinity"):
		return "infinity"
	case strings.Contains(s, "UnmarshalBinary"):
		return "pubkey"
	}
	return "other:" + h.OneLine(s)
}

func handshake(stream []byte) (string, string) {
	ctx, cancel := context.WithCancel(context.Background())
	defer cancel()
	errc, keyed := p2p.VerifPReceiveID(ctx, localID, &sconn{data: stream})
	first := ""
	to := time.After(stepWait)
	for {
		select {
		case e, ok := <-errc:
			if !ok {
				if first != "" {
					return "err " + first, ""
				}
				if keyed() {
					return "ok keyed", ""
				}
				return "ok", "not-serving-rid: handshake ended without error and without a session key"
			}
			if first == "" {
				first = ridErrKind(e)
			}
		case <-to:
			return "hang", "hang-rid: receiveID did not end"
		}
	}
}

func opRid(w string) (string, string) {
	setup()
	var stream []byte
	switch w {
	case "eof":
		stream = []byte{0, 0}
	case "big":
		stream = append([]byte{0xff, 0xff, 0xff, 0xff}, make([]byte, 16)...)
	default:
		stream = framed(buildFrame(w, false))
	}
	return handshake(stream)
}

// ---------------------------------------------------------------- mdisp

func opMdisp(m string) (string, string) {
	setup()
	net1, err := p2p.CreateP2PNetwork(localID, "127.0.0.1", "0", p2p.NoDiscover)
	if err != nil {
		panic("harness: CreateP2PNetwork: " + err.Error())
	}
	go p2p.VerifPMessageDispatch(net1)
	sub, _ := net1.SubscribeMsg(4, vss.Signature{})
	time.Sleep(5 * time.Millisecond)
	var msg p2p.P2PMessage
	switch m {
	case "nil":
	case "sub":
		msg.Msg = ptypes.DynamicAny{Message: &vss.Signature{RequestId: []byte("x")}}
	case "unsub":
		msg.Msg = ptypes.DynamicAny{Message: &dkg.PublicKey{}}
	default:
		panic("bad mdisp " + m)
	}
	msg.RequestNonce = 1
	p2p.VerifPFeed(net1, msg)
	// barrier: a subscribed message with another nonce; also the "still serving" check
	p2p.VerifPFeed(net1, p2p.P2PMessage{Msg: ptypes.DynamicAny{Message: &vss.Signature{}}, RequestNonce: 999})
	res := "dropped"
	for {
		select {
		case got := <-sub:
			if got.RequestNonce == 999 {
				return res, ""
			}
			res = "ok delivered"
		case <-time.After(stepWait):
			return res, "not-serving-mdisp: a subscribed message after the case was not delivered"
		}
	}
}

// ---------------------------------------------------------------- listen

func opListen(evs string) (string, string) {
	ctx, cancel := context.WithCancel(context.Background())
	defer cancel()
	in := make(chan serf.Event)
	out := make(chan discover.P2PEvent)
	fin := make(chan struct{})
	go func() { discover.VerifPListen(ctx, in, out); close(fin) }()
	list := splitList(evs, ";")
	list = append(list, "m:24") // still serving: one valid member afterwards
	counts := make([]int, len(list))
	cur := -1
	to := time.After(3 * stepWait)
	for i := 0; i <= len(list); i++ {
		var ev serf.Event
		sendc := in
		if i == len(list) {
			sendc = nil
			close(in)
		} else if list[i] == "u" {
			ev = serf.UserEvent{Name: "x"}
		} else {
			var ms []serf.Member
			for _, l := range splitList(strings.TrimPrefix(list[i], "m:"), ",") {
				ms = append(ms, serf.Member{Name: strings.Repeat("n", atoi(l)), Addr: net.IPv4(10, 0, 0, 1)})
			}
			ev = serf.MemberEvent{Type: serf.EventMemberJoin, Members: ms}
		}
	wait:
		for {
			select {
			case sendc <- ev:
				cur = i
				break wait
			case <-out:
				counts[cur]++
			case <-fin:
				break wait
			case <-to:
				return "hang", "hang-listen: Listen neither takes events nor ends"
			}
		}
	}
	var outs []string
	for i := 0; i < len(list)-1; i++ {
		if list[i] == "u" {
			outs = append(outs, "dropped")
		} else {
			outs = append(outs, fmt.Sprintf("ok %d", counts[i]))
		}
	}
	oracle := ""
	if counts[len(list)-1] != 1 {
		oracle = "not-serving-listen: the valid member event after the case produced no P2PEvent"
	}
	return strings.Join(outs, ";"), oracle
}

// ---------------------------------------------------------------- serf: a live gossip session

var serfSeq int

// opSerf: a real serf cluster on loopback: this node (discover.NewSerfNet, as CreateP2PNetwork builds it)
// and one joining member per name length; observes the translator (Listen) and Lookup / MembersID.
func opSerf(lens string) (string, string) {
	lock, err := os.OpenFile(filepath.Join(os.TempDir(), "verif-c12-serf.lock"), os.O_CREATE|os.O_RDWR, 0o666)
	if err == nil {
		syscall.Flock(int(lock.Fd()), syscall.LOCK_EX) // the node binds the fixed memberlist port 7946
		defer lock.Close()
	}
	var m discover.Membership
	for i := 0; i < 50; i++ {
		if m, err = discover.NewSerfNet(net.ParseIP("127.0.0.1"), string(localID), "9501"); err == nil {
			break
		}
		time.Sleep(100 * time.Millisecond)
	}
	if err != nil {
		panic("harness: NewSerfNet: " + err.Error())
	}
	defer discover.VerifPShutdown(m)
	ctx, cancel := context.WithCancel(context.Background())
	defer cancel()
	out := make(chan discover.P2PEvent, 256)
	go m.Listen(ctx, out) // a panic here kills this process, as it kills the node
	var peers []*serf.Serf
	names := map[string]bool{}
	defer func() {
		for _, p := range peers {
			p.Shutdown()
		}
	}()
	for i, l := range splitList(lens, ",") {
		serfSeq++
		n := atoi(l)
		name := fmt.Sprintf("%d-", serfSeq)
		if n <= len(name) {
			name = string(rune('A'+serfSeq%26)) + string(rune('a'+(serfSeq/26)%26))
			name = (name + name)[:n]
		}
		for len(name) < n {
			name += "x"
		}
		conf := serf.DefaultConfig()
		conf.Init()
		conf.LogOutput = ioutil.Discard
		conf.MemberlistConfig.LogOutput = ioutil.Discard
		conf.MemberlistConfig.BindAddr = "127.0.0.1"
		conf.MemberlistConfig.BindPort = 17950 + i
		conf.MemberlistConfig.AdvertiseAddr = "127.0.0.1"
		conf.MemberlistConfig.AdvertisePort = 17950 + i
		conf.NodeName = name
		p, err := serf.Create(conf)
		if err != nil {
			panic("harness: serf.Create: " + err.Error())
		}
		peers = append(peers, p)
		names[name] = true
		if _, err := p.Join([]string{"127.0.0.1:7946"}, true); err != nil {
			panic("harness: join: " + err.Error())
		}
	}
	// the joins are known to this node when Join returns (push/pull); give the event channel a moment
	joins := 0
	deadline := time.After(loadFactor() * 250 * time.Millisecond)
collect:
	for {
		select {
		case e := <-out:
			if e.EventType == "member-join" {
				for nm := range names {
					if len(nm) >= 20 && nm[:20] == e.NodeID {
						joins++
					}
				}
			}
		case <-deadline:
			break collect
		}
	}
	ids := 0
	for _, id := range m.MembersID() {
		if names[string(id)] {
			ids++
		}
	}
	found := 0
	for nm := range names {
		if len(nm) > 20 && m.Lookup([]byte(nm[:20])) != "" {
			found++
		}
	}
	oracle := ""
	if found != ids {
		oracle = fmt.Sprintf("not-serving-serf: MembersID lists %d of the joined members, Lookup resolves %d", ids, found)
	}
	return fmt.Sprintf("ok %d %d", joins, ids), oracle
}

// ---------------------------------------------------------------- disp: client.dispatch (reply matching)

type dispReq struct {
	req  *p2p.VerifRequest
	done chan error // result of waitForResult (nil = a reply arrived)
}

// opDisp drives the real client.dispatch → packPipe on injected channels (p2p.VerifNewDispatcher):
// q = a local request goes out (its nonce is read back from the encoded package),
// c<k> = the requester of nonce k gives up, r<k> = a reply packet with RequestNonce k arrives.
func opDisp(evs string) (string, string) {
	setup()
	d := p2p.VerifNewDispatcher(localID, 21)
	defer d.Cancel()
	reqs := map[uint64]*dispReq{}
	to := time.After(6 * stepWait)
	send := func() (uint64, string) {
		r := &dispReq{req: p2p.VerifNewRequest(context.Background(), false, []byte("remote-node-id-00002"), &vss.Signature{RequestId: []byte("q")}, 0), done: make(chan error, 1)}
		go func() { _, err := r.req.Wait(); r.done <- err }()
		if err := d.Send(r.req); err != nil {
			return 0, "send: " + err.Error()
		}
		select {
		case b := <-d.Out: // the package leaving for the peer carries the nonce dispatch assigned
			pa := &p2p.Package{}
			if err := proto.Unmarshal(b, pa); err != nil {
				return 0, "out: " + err.Error()
			}
			reqs[pa.RequestNonce] = r
			return pa.RequestNonce, ""
		case <-to:
			return 0, "hang"
		}
	}
	// barrier: a non-reply message goes through dispatch to the feed only after the previous event was handled
	barrier := func() bool {
		select {
		case d.Recv <- p2p.P2PMessage{Msg: ptypes.DynamicAny{Message: &vss.Signature{}}}:
		case <-to:
			return false
		}
		select {
		case <-d.Feed:
			return true
		case <-to:
			return false
		}
	}
	reply := func(k uint64) string {
		select {
		case d.Reply <- p2p.P2PMessage{Msg: ptypes.DynamicAny{Message: &vss.Signature{RequestId: []byte("a")}}, Sender: []byte("remote-node-id-00002"), RequestNonce: k}:
		case <-to:
			return "hang"
		}
		if !barrier() {
			return "hang"
		}
		r, ok := reqs[k]
		if !ok {
			return "dropped"
		}
		delete(reqs, k)
		select {
		case err := <-r.done:
			if err == nil {
				return "ok matched"
			}
			r.done <- err
			return "ok late"
		case <-time.After(loadFactor() * 50 * time.Millisecond):
			return "ok lost" // pending, not cancelled, and the requester heard nothing
		}
	}
	var outs []string
	for _, ev := range splitList(evs, ";") {
		switch {
		case ev == "q":
			k, e := send()
			if e != "" {
				return "hang", "hang-disp: " + e
			}
			outs = append(outs, fmt.Sprintf("ok sent %d", k))
		case ev[0] == 'c':
			if r, ok := reqs[uint64(atoi(ev[1:]))]; ok {
				r.req.Cancel()
				err := <-r.done // the requester returned with its context error
				r.done <- err
			}
			outs = append(outs, "ok")
		case ev[0] == 'r':
			var k uint64
			fmt.Sscanf(ev[1:], "%d", &k)
			o := reply(k)
			if o == "hang" {
				return "hang", "hang-disp: dispatch does not take messages"
			}
			outs = append(outs, o)
		default:
			panic("bad disp event " + ev)
		}
	}
	// still serving: an honest round trip
	oracle := ""
	if k, e := send(); e != "" {
		oracle = "not-serving-disp: a request after the case did not go out: " + e
	} else if o := reply(k); o != "ok matched" {
		oracle = "not-serving-disp: the reply to a request after the case gave " + o
	}
	return strings.Join(outs, ";"), oracle
}

import DosModel.Model.TblsDrv
def main : IO Unit := Dos.Tbls.parLoop Dos.Tbls.step

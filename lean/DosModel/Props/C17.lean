/-
C17 — every p2p request gets its own reply, at most once, or a prompt error.

Property theorems only (helpers: `Proofs/Dispatch*.lean`).  The model is
`Model/Dispatch.lean`: one event = one alternative of a `select` taken by one of
the goroutines on the request path; every theorem below quantifies over EVERY
finite event sequence (every schedule, every mixture of replies, duplicates,
unknown nonces, cancellations and connection closes), starting from the empty
connection.  "Promptly" is measured by the correspondence run, not proved.
-/
import DosModel.Proofs.DispatchTrace
import DosModel.Gen.P2PFlow

namespace Dos.Props.C17
open Dos Dos.Dispatch

/-- regenerated facts (go/ast over p2p/client.go, p2p/server.go) that the hand model relies on:
dispatch registers a request only when it is not a Reply, removes the entry when the reply comes,
counts the nonce up; packPipe completes only Replies. -/
theorem c17_code_shape :
    Gen.dispatchRegistersOnlyNonReply = true ∧ Gen.dispatchDeletesOnReply = true ∧
    Gen.dispatchNonceIncrements = true ∧ Gen.packCompletesOnlyReply = true := by decide

/-- regenerated facts: handleCallReq puts a deadline on the connection before the handshake and the
merge of the handshake's error channels closes on every path (the two repairs of F13); the
`callHandler` model below is instantiated with their conjunction — "the handshake sub-procedure
always returns" — so theorem 5 is about the code as it is. -/
theorem c17_handshake_bounded : (Gen.handshakeDeadline && Gen.mergeErrorsReleases) = true := by decide

/-- **1. nonces are fresh**: on a connection no two requests ever carry the same nonce. -/
theorem nonce_fresh (evs : List Ev) (i j k : Nat)
    (hi : ((run init evs).reqs i).nonce = some k) (hj : ((run init evs).reqs j).nonce = some k) :
    i = j :=
  (run_inv evs init Inv.init).core.uniq i j k hi hj

/-- the nonce given at send is the connection's counter, which then moves on; once given it never changes -/
theorem nonce_is_counter (evs : List Ev) (i : Nat) (fwd : Bool)
    (hq : ((run init evs).reqs i).stage = .queued) (ht : ((run init evs).reqs i).rtype = .send)
    (hl : (run init evs).conn.stopped = false) (hf : fwd = true ∨ (run init evs).conn.ctxDone = true) :
    ((step (run init evs) (.dsend i fwd)).reqs i).nonce = some (run init evs).conn.next ∧
    (step (run init evs) (.dsend i fwd)).conn.next = (run init evs).conn.next + 1 ∧
    ∀ more, ((run (step (run init evs) (.dsend i fwd)) more).reqs i).nonce = some (run init evs).conn.next := by
  have hs := run_inv evs init Inv.init
  have h1 : ((step (run init evs) (.dsend i fwd)).reqs i).nonce = some (run init evs).conn.next := by
    simp [step, hq, ht, hl, hf, Sys.upd]
  refine ⟨h1, by simp [step, hq, ht, hl, hf], ?_⟩
  intro more
  have hs1 := step_inv hs (.dsend i fwd)
  generalize step (run init evs) (.dsend i fwd) = s1 at h1 hs1
  induction more generalizing s1 with
  | nil => exact h1
  | cons e es ih => exact ih (step s1 e) (step_nonce_stable hs1 e i _ h1) (step_inv hs1 e)

/-- **2a. a reply with an unknown nonce completes nothing** (the state does not change at all) -/
theorem reply_unknown_nonce (s : Sys) (k m : Nat) (race win : Bool)
    (h : lookup s.conn.pending k = none) : step s (.reply k m race win) = s := by
  simp only [step, h]; split <;> rfl

/-- **2b. a reply with nonce `k` completes exactly the request that was given `k`, hands it that
very message, and removes the entry** — nobody else is touched. -/
theorem reply_to_owner (evs : List Ev) (k m i : Nat) (win : Bool)
    (hl : lookup (run init evs).conn.pending k = some i)
    (hrun : (run init evs).conn.stopped = false)
    (hctx : ((run init evs).reqs i).ctxDone = false) :
    let s' := step (run init evs) (.reply k m false win)
    ((run init evs).reqs i).nonce = some k ∧
    (s'.reqs i).waiter = .got (.msg m) ∧ (s'.reqs i).vals = [.msg m] ∧ (s'.reqs i).closes = 1 ∧
    lookup s'.conn.pending k = none ∧ ∀ j, j ≠ i → s'.reqs j = (run init evs).reqs j := by
  have hs := run_inv evs init Inv.init
  generalize run init evs = s at *
  have hmem := lookup_mem hl
  have hp := hs.pend k i hmem
  have hfresh := pend_fresh hs hmem
  have hr := hs.core.req i
  have hwait : (s.reqs i).waiter = .waiting := by
    cases hw : (s.reqs i).waiter
    · rfl
    · have := hr.wctx (by rw [hw]; simp); rw [hctx] at this; simp at this
    · have := hr.wctx (by rw [hw]; simp); rw [hctx] at this; simp at this
  have hvals : (s.reqs i).vals = [] := by rw [hr.vals, hwait]
  have hstep : step s (.reply k m false win) =
      ({ s with conn := { s.conn with pending := erase s.conn.pending k } } : Sys).upd i
        (fun r => r.complete .table (.msg m) win) := by
    simp [step, hrun, hl, hctx]
  have hcomp : (s.reqs i).complete .table (.msg m) win =
      { (s.reqs i).setOnce .table with waiter := .got (.msg m), vals := (s.reqs i).vals ++ [.msg m], closes := (s.reqs i).closes + 1, ctxDone := true } := by
    rcases complete_cases (s.reqs i) .table (.msg m) win with ⟨h1, _⟩ | ⟨_, _, e⟩ | ⟨_, hd, _⟩
    · rw [hfresh.2 .table] at h1; simp at h1
    · exact e
    · exact absurd ⟨hwait, Or.inl hctx⟩ hd
  intro s'
  have hs' : s' = ({ s with conn := { s.conn with pending := erase s.conn.pending k } } : Sys).upd i
        (fun r => r.complete .table (.msg m) win) := hstep
  refine ⟨hp.2.1, ?_, ?_, ?_, ?_, ?_⟩
  · rw [hs', upd_reqs_same]; show ((s.reqs i).complete .table (.msg m) win).waiter = _; rw [hcomp]
  · rw [hs', upd_reqs_same]; show ((s.reqs i).complete .table (.msg m) win).vals = _; rw [hcomp]
    show (s.reqs i).vals ++ [Res.msg m] = _; rw [hvals]; rfl
  · rw [hs', upd_reqs_same]; show ((s.reqs i).complete .table (.msg m) win).closes = _; rw [hcomp]
    show (s.reqs i).closes + 1 = 1; rw [hfresh.1]
  · rw [hs']; show lookup (erase s.conn.pending k) k = none
    unfold lookup erase
    have : List.find? (fun e => e.1 == k) (List.filter (fun e => !(e.1 == k)) s.conn.pending) = none := by
      rw [List.find?_eq_none]; intro x hx
      have := (List.mem_filter.mp hx).2
      simpa using this
    rw [this]
  · intro j hj; rw [hs', upd_reqs_other _ _ _ _ hj]

/-- **2c. never another request's reply**: whatever the history, a reply message held by a caller was
carried by a reply event bearing the nonce of *that* caller's request (and by 1 nobody else has it). -/
theorem delivered_reply_is_own (evs : List Ev) (i m : Nat)
    (h : ((run init evs).reqs i).waiter = .got (.msg m)) :
    ∃ k race win, Ev.reply k m race win ∈ evs ∧ ((run init evs).reqs i).nonce = some k ∧
      ∀ j, ((run init evs).reqs j).nonce = some k → j = i := by
  have := run_own evs init [] Inv.init (by intro i m h; simp [Dispatch.init] at h) i m h
  obtain ⟨k, race, win, hm, hn⟩ := this
  exact ⟨k, race, win, by simpa using hm, hn, fun j hj => nonce_fresh evs j i k hj hn⟩

/-- **3. at most once**: whatever happens, a request's reply channel carries at most one value and is
closed at most once (a second close would be Go's "close of closed channel" panic), although every
holder of a by-value copy has its own `sync.Once`. -/
theorem at_most_once (evs : List Ev) (i : Nat) :
    ((run init evs).reqs i).closes ≤ 1 ∧ ((run init evs).reqs i).vals.length ≤ 1 :=
  ⟨((run_inv evs init Inv.init).core.req i).closes_le_one, ((run_inv evs init Inv.init).core.req i).vals_le_one⟩

/-- the call returns at most once: once the caller has an outcome, no later event changes it -/
theorem returns_once (evs more : List Ev) (i : Nat)
    (h : ((run init evs).reqs i).waiter ≠ .waiting) :
    ((run init (evs ++ more)).reqs i).waiter = ((run init evs).reqs i).waiter := by
  rw [run_append]
  exact run_waiter_stable more _ (run_inv evs init Inv.init) i h

/-- what the caller returns is what came on the channel, if anything did -/
theorem result_is_channel_value (evs : List Ev) (i : Nat) (v : Res) :
    ((run init evs).reqs i).waiter = .got v ↔ ((run init evs).reqs i).vals = [v] := by
  have := ((run_inv evs init Inv.init).core.req i).vals
  constructor
  · intro h; rw [this, h]
  · intro h; rw [this] at h
    cases hw : ((run init evs).reqs i).waiter <;> rw [hw] at h <;> simp at h
    rw [h]

/-- **4a. cancellation returns an error**: a caller still waiting when its context ends returns the
context's error (and by `returns_once` keeps it; by `at_most_once` nothing panics later). -/
theorem cancel_returns_error (evs : List Ev) (i : Nat)
    (hex : ((run init evs).reqs i).stage ≠ .absent)
    (hw : ((run init evs).reqs i).waiter = .waiting) :
    ((run (run init evs) [.cancel i, .waiterCtx i]).reqs i).waiter = .ctxErr := by
  generalize run init evs = s at *
  have h1 : step s (.cancel i) = s.upd i (fun r => { r with ctxDone := true }) := by
    simp [step, hex]
  have h2 : ((s.upd i (fun r => { r with ctxDone := true })).reqs i).waiter = .waiting ∧
      ((s.upd i (fun r => { r with ctxDone := true })).reqs i).ctxDone = true := by
    rw [upd_reqs_same]; exact ⟨hw, rfl⟩
  simp only [run, List.foldl_cons, List.foldl_nil, h1]
  generalize s.upd i (fun r => { r with ctxDone := true }) = s1 at h2
  have h3 : step s1 (.waiterCtx i) = s1.upd i (fun r => { r with waiter := .ctxErr }) := by
    simp [step, h2]
  rw [h3, upd_reqs_same]

/-- **4b. closing the connection fails every pending request**: when dispatch sees its context done it
empties the table, stops, and EVERY registered request gets exactly one completion (its reply channel
is closed exactly once, by the table copy): a caller whose own context is still live receives the
error `errClosed`; for a caller whose context had already ended the channel is closed without anybody
blocking — that caller either still takes the error or keeps/gets its context error, and in every case
it has returned once it takes its `ctx.Done` alternative. -/
theorem close_fails_pending (evs : List Ev) (win : List Nat)
    (hc : (run init evs).conn.ctxDone = true) (hl : (run init evs).conn.stopped = false) :
    let s' := step (run init evs) (.ctxDone win)
    s'.conn.pending = [] ∧ s'.conn.stopped = true ∧
    ∀ k i, (k, i) ∈ (run init evs).conn.pending →
      ((s'.reqs i).closes = 1 ∧ (s'.reqs i).onceT = true) ∧
      (((run init evs).reqs i).ctxDone = false →
          (s'.reqs i).waiter = .got .errClosed ∧ (s'.reqs i).vals = [.errClosed]) ∧
      (((run init evs).reqs i).ctxDone = true →
          ((s'.reqs i).waiter = ((run init evs).reqs i).waiter ∨ (s'.reqs i).waiter = .got .errClosed) ∧
          ((step s' (.waiterCtx i)).reqs i).waiter ≠ .waiting) := by
  have hs := run_inv evs init Inv.init
  generalize run init evs = s at *
  intro s'
  have hs' : s' = { failAll win s.conn.pending s with
      conn := { (failAll win s.conn.pending s).conn with pending := [], stopped := true } } := by
    show step s (.ctxDone win) = _
    simp [step, hc, hl]
  refine ⟨by rw [hs'], by rw [hs'], ?_⟩
  intro k i hki
  have hfresh := pend_fresh hs hki
  have hr := hs.core.req i
  have hreq : s'.reqs i = (s.reqs i).complete .table .errClosed (win.contains i) := by
    rw [hs']; show (failAll win s.conn.pending s).reqs i = _
    rw [failAll_reqs]
    have : (s.conn.pending.map Prod.snd).contains i = true := by
      simp only [List.contains_iff_mem, List.mem_map]
      exact ⟨(k, i), hki, rfl⟩
    rw [this]; rfl
  have honce : (s'.reqs i).onceT = true := by
    have := complete_once (s.reqs i) .table .errClosed (win.contains i) .table
    simp only [Req.once] at this
    rw [hreq, this]; simp
  have hcl : (s'.reqs i).closes = 1 := by
    rcases complete_cases (s.reqs i) .table .errClosed (win.contains i) with ⟨h1, _⟩ | ⟨_, _, e⟩ | ⟨_, _, e⟩
    · rw [hfresh.2 .table] at h1; simp at h1
    · rw [hreq, e]; show (s.reqs i).closes + 1 = 1; rw [hfresh.1]
    · rw [hreq, e]; show (s.reqs i).closes + 1 = 1; rw [hfresh.1]
  refine ⟨⟨hcl, honce⟩, ?_, ?_⟩
  · intro hctx'
    have hwait : (s.reqs i).waiter = .waiting := by
      cases hw : (s.reqs i).waiter
      · rfl
      · have := hr.wctx (by rw [hw]; simp); rw [hctx'] at this; simp at this
      · have := hr.wctx (by rw [hw]; simp); rw [hctx'] at this; simp at this
    have hvals : (s.reqs i).vals = [] := by rw [hr.vals, hwait]
    rcases complete_cases (s.reqs i) .table .errClosed (win.contains i) with ⟨h1, _⟩ | ⟨_, _, e⟩ | ⟨_, hd, _⟩
    · rw [hfresh.2 .table] at h1; simp at h1
    · rw [hreq, e]
      refine ⟨rfl, ?_⟩
      show (s.reqs i).vals ++ [Res.errClosed] = _; rw [hvals]; rfl
    · exact absurd ⟨hwait, Or.inl hctx'⟩ hd
  · intro hctx
    have hw' : (s'.reqs i).waiter = (s.reqs i).waiter ∨ (s'.reqs i).waiter = .got .errClosed := by
      rcases complete_waiter (s.reqs i) .table .errClosed (win.contains i) with h1 | ⟨_, _, h3⟩
      · left; rw [hreq]; exact h1
      · right; rw [hreq]; exact h3
    have hctx' : (s'.reqs i).ctxDone = true := by
      rw [hreq]; exact complete_ctx _ _ _ _ hctx
    refine ⟨hw', ?_⟩
    simp only [step]
    by_cases hg : (s'.reqs i).waiter = .waiting ∧ (s'.reqs i).ctxDone = true
    · rw [if_pos hg, upd_reqs_same]; simp
    · rw [if_neg hg]
      intro hwt; exact hg ⟨hwt, hctx'⟩

/-- a reply that comes after its request was cancelled completes nothing and closes nothing -/
theorem late_reply_ignored (evs : List Ev) (k m i : Nat) (race win : Bool)
    (hl : lookup (run init evs).conn.pending k = some i)
    (hctx : ((run init evs).reqs i).ctxDone = true) :
    ∀ j, (step (run init evs) (.reply k m race win)).reqs j = (run init evs).reqs j := by
  intro j
  simp only [step]
  split
  · rfl
  · simp [hl, hctx]

/-- why `sync.Once` alone would not give 3: by-value copies do not share it.  Two copies of one
request object and `replyResult` on each close the channel twice (`Obj` is the request object with
arbitrarily many copies; its semantics is checked against real Go by the `obj` cases) … -/
theorem copies_do_not_share_once :
    ([OEv.copy 0, .fire 0 (.msg 5) false, .fire 1 (.msg 6) false].foldl ostep {}).closes = 2 := by decide

/-- … whereas one copy fires at most once, and a copy taken after the Once fired is inert -/
theorem one_copy_fires_once (o : Obj) (a : Nat) (v w : Res) (b c : Bool) :
    (ostep (ostep o (.fire a v b)) (.fire a w c)).closes = (ostep o (.fire a v b)).closes := by
  simp only [ostep]
  by_cases h2 : o.closes ≥ 2
  · simp [h2]
  · simp only [h2, if_false]
    cases ha : o.onces[a]? with
    | none => simp [h2, ha]
    | some x =>
      cases x
      · have hlt : a < o.onces.length := by
          rcases List.getElem?_eq_some_iff.mp ha with ⟨h, _⟩; exact h
        simp only
        split <;> (split <;> simp [List.getElem?_set, hlt])
      · simp [h2, ha]

/-! ### 5. a silent peer does not wedge requests to other peers (`callHandler`) -/

/-- the full statement, parameterised by whether the handshake read is bounded -/
def silent_peer_isolated_full (deadline : Bool) : Prop :=
  ∀ (h : Handler) (evs : List HEv) (i p : Nat), h.wedged = false →
    HEv.call i p .ok ∈ evs → HOut.handed i p ∈ (hrun deadline h evs).2

theorem hstep_not_wedged (h : Handler) (e : HEv) (hw : h.wedged = false) :
    (hstep true h e).1.wedged = false := by
  cases e with
  | call i p d =>
    cases hc : h.clients.contains p
    · rw [hstep_call_new true h i p d hw hc]; cases d <;> simp [hw]
    · rw [hstep_call_known true h i p d hw hc]; exact hw
  | remove p => exact (hstep_remove true h p hw).1
  | tick => exact hw

/-- **5. with the handshake bounded (the code as repaired; see `c17_handshake_bounded`)** every request
to a peer that answers is handed to that peer's client, whatever other peers do — refuse, fail the
handshake or stay silent — before or after it. -/
theorem silent_peer_isolated : silent_peer_isolated_full true := by
  intro h evs
  induction evs generalizing h with
  | nil => intro i p _ hm; simp at hm
  | cons e es ih =>
    intro i p hw hm
    simp only [hrun]
    rcases List.mem_cons.mp hm with he | he
    · subst he
      have : HOut.handed i p ∈ (hstep true h (.call i p .ok)).2 := by
        cases hc : h.clients.contains p
        · rw [hstep_call_new true h i p .ok hw hc]; simp
        · rw [hstep_call_known true h i p .ok hw hc]; simp
      exact List.mem_append_left _ this
    · exact List.mem_append_right _ (ih _ i p (hstep_not_wedged h e hw) he)

/-- the same for the code's own value of the switch -/
theorem silent_peer_isolated_code :
    silent_peer_isolated_full (Gen.handshakeDeadline && Gen.mergeErrorsReleases) := by
  rw [c17_handshake_bounded]; exact silent_peer_isolated

/-- **the defect that was there (F13)**: without a bound on the handshake read the statement is false —
one silent peer, then a request to a healthy one, which is never handed on. -/
theorem silent_peer_wedges_without_deadline : ¬ silent_peer_isolated_full false := by
  intro h
  have := h {} [.call 0 7 .silent, .call 1 8 .ok] 1 8 rfl (by simp)
  revert this; decide

/-- … and what did hold even then: as long as no peer stays silent nothing wedges -/
theorem silent_peer_isolated_partial (h : Handler) (evs : List HEv) (i p : Nat) (hw : h.wedged = false)
    (hns : ∀ j q, HEv.call j q .silent ∉ evs) (hm : HEv.call i p .ok ∈ evs) :
    HOut.handed i p ∈ (hrun false h evs).2 := by
  induction evs generalizing h with
  | nil => simp at hm
  | cons e es ih =>
    simp only [hrun]
    have hw' : (hstep false h e).1.wedged = false := by
      cases e with
      | call j q d =>
        cases hc : h.clients.contains q
        · rw [hstep_call_new false h j q d hw hc]
          cases d
          · simp [hw]
          · simp [hw]
          · simp [hw]
          · exact absurd List.mem_cons_self (hns j q)
        · rw [hstep_call_known false h j q d hw hc]; exact hw
      | remove q => exact (hstep_remove false h q hw).1
      | tick => exact hw
    rcases List.mem_cons.mp hm with he | he
    · subst he
      have : HOut.handed i p ∈ (hstep false h (.call i p .ok)).2 := by
        cases hc : h.clients.contains p
        · rw [hstep_call_new false h i p .ok hw hc]; simp
        · rw [hstep_call_known false h i p .ok hw hc]; simp
      exact List.mem_append_left _ this
    · exact List.mem_append_right _ (ih _ hw' (fun j q hh => hns j q (List.mem_cons_of_mem _ hh)) he)

/-- every request the handler takes is answered one way or the other: handed to a client or failed
with an error — never silently lost -/
theorem handler_answers (h : Handler) (i p : Nat) (d : Dial) (hw : h.wedged = false) :
    (hstep true h (.call i p d)).2 = [.handed i p] ∨ (hstep true h (.call i p d)).2 = [.failed i] := by
  cases hc : h.clients.contains p
  · rw [hstep_call_new true h i p d hw hc]; cases d <;> simp
  · rw [hstep_call_known true h i p d hw hc]; simp

/-! ### non-vacuity: concrete histories -/

/-- three requests; replies arrive out of order, one twice, one with an unknown nonce; one request is
cancelled; then the connection closes -/
def demo : List Ev :=
  [.create .send 0, .create .send 0, .create .send 0, .create .reply 5,
   .toHandler 0, .toSendG 0, .enqueue 0, .dsend 0 true, .pack 0 false,
   .toHandler 1, .toSendG 1, .enqueue 1, .dsend 1 true, .pack 1 false,
   .toHandler 2, .toSendG 2, .enqueue 2, .dsend 2 true, .pack 2 false,
   .toHandler 3, .toSendG 3, .enqueue 3, .dsend 3 true, .pack 3 false,
   .reply 1 111 false false, .reply 1 999 false false, .reply 7 555 false false,
   .cancel 2, .waiterCtx 2, .reply 2 222 false false,
   .close, .ctxDone []]

example : ((run init demo).reqs 0).waiter = .got .errClosed := rfl
example : ((run init demo).reqs 1).waiter = .got (.msg 111) := rfl
example : ((run init demo).reqs 2).waiter = .ctxErr := rfl
example : ((run init demo).reqs 3).waiter = .got .nilOk := rfl
example : ((run init demo).reqs 1).nonce = some 1 ∧ ((run init demo).reqs 1).closes = 1 := ⟨rfl, rfl⟩
example : ((run init demo).reqs 2).closes = 0 := rfl
example : lookup (run init (demo.take 24)).conn.pending 1 = some 1 := rfl
example : (run init (demo.take 31)).conn.ctxDone = true ∧ (run init (demo.take 31)).conn.stopped = false ∧
    (run init (demo.take 31)).conn.pending = [(0, 0)] := ⟨rfl, rfl, rfl⟩
example : (hrun true {} [.call 0 7 .silent, .call 1 8 .ok]).2 = [.failed 0, .handed 1 8] := rfl
example : (hrun false {} [.call 0 7 .silent, .call 1 8 .ok]).2 = [] := rfl

end Dos.Props.C17

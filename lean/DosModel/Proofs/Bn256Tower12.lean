/-
C10 layer 4 — gfP12 (gfp12.go) over gfP6 over gfP2 over ANY commutative ring α is the ring
gfP6[ω]/(ω² − τ): `Mul`, `Square` are multiplication there, the operations form a
commutative ring, `Conjugate` is the automorphism ω ↦ −ω, `Invert` is the inverse whenever
the gfP6 inversion of the norm succeeds, and `Exp` (square-and-multiply from the top bit)
is the monoid power for EVERY exponent.
-/
import DosModel.Proofs.Bn256Tower6
import DosModel.Proofs.Bn256Scalar

namespace Dos.Bn256
namespace Fp12

@[ext] theorem ext' {α : Type} {a b : Fp12 α} (hx : a.x = b.x) (hy : a.y = b.y) : a = b := by
  cases a; cases b; simp_all

section ring
variable {α : Type} [CommRing α]
open Fp6 (tau)

/-- the product of xω + y and x'ω + y' reduced by ω² = τ -/
def mulSpec (a b : Fp12 α) : Fp12 α := ⟨a.x * b.y + a.y * b.x, a.y * b.y + tau * (a.x * b.x)⟩

theorem mul_eq_spec (a b : Fp12 α) : Fp12.mul a b = mulSpec a b := by
  refine Fp12.ext' ?_ ?_ <;> simp only [Fp12.mul, mulSpec, Fp6.mul_eq, Fp6.add_eq, Fp6.mulTau_eq'] <;> ring

theorem square_eq_mul (a : Fp12 α) : Fp12.square a = Fp12.mul a a := by
  rw [mul_eq_spec]
  refine Fp12.ext' ?_ ?_ <;> simp only [Fp12.square, mulSpec, Fp6.mul_eq, Fp6.add_eq, Fp6.sub_eq, Fp6.mulTau_eq'] <;> ring

def omega : Fp12 α := ⟨1, 0⟩
def ofBase (c : Fp6 α) : Fp12 α := ⟨0, c⟩

theorem omega_sq : Fp12.mul omega omega = (ofBase tau : Fp12 α) := by
  rw [mul_eq_spec]; refine Fp12.ext' ?_ ?_ <;> simp only [mulSpec, omega, ofBase] <;> ring

theorem add_assoc' (a b c : Fp12 α) : Fp12.add (Fp12.add a b) c = Fp12.add a (Fp12.add b c) := by
  refine Fp12.ext' ?_ ?_ <;> simp only [Fp12.add, Fp6.add_eq] <;> ring
theorem zero_add' (a : Fp12 α) : Fp12.add Fp12.zero a = a := by
  refine Fp12.ext' ?_ ?_ <;> simp only [Fp12.add, Fp12.zero, Fp6.add_eq, Fp6.zero_eq] <;> ring
theorem add_zero' (a : Fp12 α) : Fp12.add a Fp12.zero = a := by
  refine Fp12.ext' ?_ ?_ <;> simp only [Fp12.add, Fp12.zero, Fp6.add_eq, Fp6.zero_eq] <;> ring
theorem add_comm' (a b : Fp12 α) : Fp12.add a b = Fp12.add b a := by
  refine Fp12.ext' ?_ ?_ <;> simp only [Fp12.add, Fp6.add_eq] <;> ring
theorem neg_add_cancel' (a : Fp12 α) : Fp12.add (Fp12.neg a) a = Fp12.zero := by
  refine Fp12.ext' ?_ ?_ <;> simp only [Fp12.add, Fp12.neg, Fp12.zero, Fp6.add_eq, Fp6.neg_eq, Fp6.zero_eq] <;> ring
theorem sub_eq_add_neg' (a b : Fp12 α) : Fp12.sub a b = Fp12.add a (Fp12.neg b) := by
  refine Fp12.ext' ?_ ?_ <;> simp only [Fp12.add, Fp12.neg, Fp12.sub, Fp6.add_eq, Fp6.neg_eq, Fp6.sub_eq] <;> ring
theorem mul_assoc' (a b c : Fp12 α) : Fp12.mul (Fp12.mul a b) c = Fp12.mul a (Fp12.mul b c) := by
  simp only [mul_eq_spec]; refine Fp12.ext' ?_ ?_ <;> simp only [mulSpec] <;> ring
theorem one_mul' (a : Fp12 α) : Fp12.mul Fp12.one a = a := by
  simp only [mul_eq_spec]; refine Fp12.ext' ?_ ?_ <;> simp only [mulSpec, Fp12.one, Fp6.zero_eq, Fp6.one_eq] <;> ring
theorem mul_one' (a : Fp12 α) : Fp12.mul a Fp12.one = a := by
  simp only [mul_eq_spec]; refine Fp12.ext' ?_ ?_ <;> simp only [mulSpec, Fp12.one, Fp6.zero_eq, Fp6.one_eq] <;> ring
theorem left_distrib' (a b c : Fp12 α) :
    Fp12.mul a (Fp12.add b c) = Fp12.add (Fp12.mul a b) (Fp12.mul a c) := by
  simp only [mul_eq_spec]; refine Fp12.ext' ?_ ?_ <;> simp only [mulSpec, Fp12.add, Fp6.add_eq] <;> ring
theorem right_distrib' (a b c : Fp12 α) :
    Fp12.mul (Fp12.add a b) c = Fp12.add (Fp12.mul a c) (Fp12.mul b c) := by
  simp only [mul_eq_spec]; refine Fp12.ext' ?_ ?_ <;> simp only [mulSpec, Fp12.add, Fp6.add_eq] <;> ring
theorem zero_mul' (a : Fp12 α) : Fp12.mul Fp12.zero a = Fp12.zero := by
  simp only [mul_eq_spec]; refine Fp12.ext' ?_ ?_ <;> simp only [mulSpec, Fp12.zero, Fp6.zero_eq] <;> ring
theorem mul_zero' (a : Fp12 α) : Fp12.mul a Fp12.zero = Fp12.zero := by
  simp only [mul_eq_spec]; refine Fp12.ext' ?_ ?_ <;> simp only [mulSpec, Fp12.zero, Fp6.zero_eq] <;> ring
theorem mul_comm' (a b : Fp12 α) : Fp12.mul a b = Fp12.mul b a := by
  simp only [mul_eq_spec]; refine Fp12.ext' ?_ ?_ <;> simp only [mulSpec] <;> ring

/-- the commutative ring whose operations are the transcribed gfP12 functions -/
instance instCommRing : CommRing (Fp12 α) where
  add := Fp12.add
  zero := Fp12.zero
  neg := Fp12.neg
  sub := Fp12.sub
  mul := Fp12.mul
  one := Fp12.one
  nsmul := nsmulRec
  zsmul := zsmulRec
  add_assoc := add_assoc'
  zero_add := zero_add'
  add_zero := add_zero'
  add_comm := add_comm'
  neg_add_cancel := neg_add_cancel'
  sub_eq_add_neg := sub_eq_add_neg'
  mul_assoc := mul_assoc'
  one_mul := one_mul'
  mul_one := mul_one'
  left_distrib := left_distrib'
  right_distrib := right_distrib'
  zero_mul := zero_mul'
  mul_zero := mul_zero'
  mul_comm := mul_comm'

theorem mul_eq (a b : Fp12 α) : Fp12.mul a b = a * b := rfl
theorem one_eq : (Fp12.one : Fp12 α) = 1 := rfl
theorem square_eq (a : Fp12 α) : Fp12.square a = a * a := square_eq_mul a

/-- Conjugate is the automorphism ω ↦ −ω (the p⁶-power Frobenius of the bn256 tower) -/
theorem conjugate_mul (a b : Fp12 α) :
    Fp12.conjugate (Fp12.mul a b) = Fp12.mul (Fp12.conjugate a) (Fp12.conjugate b) := by
  simp only [mul_eq_spec]
  refine Fp12.ext' ?_ ?_ <;> simp only [Fp12.conjugate, mulSpec, Fp6.neg_eq] <;> ring

/-- a · conj(a) lies in gfP6: it is y² − τx², the norm that Invert inverts -/
theorem mul_conjugate (a : Fp12 α) :
    Fp12.mul a (Fp12.conjugate a) = ofBase (a.y * a.y - tau * (a.x * a.x)) := by
  rw [mul_eq_spec]
  refine Fp12.ext' ?_ ?_ <;> simp only [Fp12.conjugate, mulSpec, ofBase, Fp6.neg_eq] <;> ring

/-- **gfP12.Exp** is the power, for every exponent -/
theorem exp_eq_pow (a : Fp12 α) (k : Nat) : Fp12.exp a k = a ^ k := by
  unfold Fp12.exp
  have h := Scalar.sqmul_fold (M := Fp12 α) a k (Fp12.bitLen k) 1
  simp only [one_pow, one_mul] at h
  rw [Nat.mod_eq_of_lt (Scalar.lt_two_pow_bitLen k)] at h
  rw [← h]
  congr 1
  funext acc i
  simp only [square_eq, mul_eq]


end ring

section inv
variable {α : Type} [Field α]

/-- the value gfP12.Invert hands to gfP6.Invert: y² − τ·x² -/
def normT (a : Fp12 α) : Fp6 α := a.y * a.y - Fp6.tau * (a.x * a.x)

/-- **gfP12.Invert**: if the gfP6 inversion of the norm succeeded, the result is the inverse -/
theorem mul_invert (a : Fp12 α) (hT : normT a * Fp6.invert (normT a) = 1) :
    Fp12.mul a (Fp12.invert a) = Fp12.one := by
  have hinv : Fp12.invert a = ⟨-a.x * Fp6.invert (normT a), a.y * Fp6.invert (normT a)⟩ := by
    simp only [Fp12.invert, Fp12.mulScalarRecv, normT, Fp6.mul_eq, Fp6.sub_eq, Fp6.neg_eq, Fp6.square_eq,
      Fp6.mulTau_eq']
  rw [hinv, mul_eq_spec]
  refine Fp12.ext' ?_ ?_
  · simp only [mulSpec, Fp12.one, Fp6.zero_eq]; ring
  · simp only [mulSpec, Fp12.one, Fp6.one_eq]
    have : a.y * (a.y * Fp6.invert (normT a)) + Fp6.tau * (a.x * (-a.x * Fp6.invert (normT a)))
        = normT a * Fp6.invert (normT a) := by simp only [normT]; ring
    rw [this, hT]

end inv
end Fp12
end Dos.Bn256

/-
C14: discipline C (hand-off).  The right to operate on `c` is a token: the creator `g` holds it,
a send on the hand-off channel `r` passes it to the collector `d`, a close destroys it.  The
number of tokens (held by `g`, in flight in `r`, held by `d`) never exceeds one and is zero once
`c` is closed; a goroutine that sends on or closes `c` holds the token.
-/
import DosModel.Proofs.PipeFanin

namespace Dos.Pipe

def tokOf (m : List Bool) (o : Option GSt) : Nat := if labelAt m o then 1 else 0

theorem tokOf_le_one (m : List Bool) (o : Option GSt) : tokOf m o ≤ 1 := by
  unfold tokOf; split <;> omega

theorem tokOf_at (m : List Bool) (pc : Pc) : tokOf m (some (GSt.at pc)) = if mark m pc then 1 else 0 := rfl
theorem tokOf_done (m : List Bool) : tokOf m (some GSt.done) = 0 := rfl

theorem labelAt_effect (m : List Bool) (s : State) (l : Lab) (y : Gi) :
    labelAt m ((effect s l).gs[y]?) = labelAt m (s.gs[y]?) := by
  rw [effect_gs_get]
  split
  · rename_i hc; rw [hc.2]; rfl
  · rfl

/-- the checks of discipline C, unpacked -/
structure HandOff (p : Pipeline) (c r : Ch) (g d : Gi) (gg gd : Goroutine) : Prop where
  ne : c ≠ r
  gd_ne : g ≠ d
  hg : p.gs[g]? = some gg
  hd : p.gs[d]? = some gd
  sendR : ∀ x gr, p.gs[x]? = some gr → gr.hasSend r = true → x = g
  recvR : ∀ x gr, p.gs[x]? = some gr → gr.hasRecv r = true → x = d
  opsC : ∀ x gr, p.gs[x]? = some gr → gr.hasOps c = true → x = g ∨ x = d
  gNoRecv : gg.hasRecv r = false
  dNoSend : gd.hasSend r = false
  okG : ownGOk gg c r = true
  okD : ownDOk gd c r = true

theorem handOff_of_discCr {p : Pipeline} {c r : Ch} (h : discCr p c r = true) :
    ∃ g d gg gd, HandOff p c r g d gg gd := by
  unfold discCr at h
  simp only [Bool.and_eq_true, bne_iff_ne, ne_eq] at h
  obtain ⟨hne, h⟩ := h
  split at h
  · rename_i g d hs hr
    simp only [Bool.and_eq_true, bne_iff_ne, ne_eq, List.all_eq_true, Bool.or_eq_true, beq_iff_eq] at h
    obtain ⟨⟨⟨hgd, hops⟩, hm⟩, _⟩ := h
    split at hm
    · rename_i gg gd hgg hgd'
      simp only [Bool.and_eq_true, Bool.not_eq_true'] at hm
      obtain ⟨⟨⟨⟨⟨h1, h2⟩, _⟩, _⟩, h5⟩, h6⟩ := hm
      refine ⟨g, d, gg, gd, ⟨hne, hgd, hgg, hgd', ?_, ?_, ?_, h1, h2, h5, h6⟩⟩
      · intro x gr hx hf; exact gsWhere_singleton hs hx hf
      · intro x gr hx hf; exact gsWhere_singleton hr hx hf
      · intro x gr hx hf
        exact hops x (mem_gsWhere.mpr ⟨gr, hx, hf⟩)
    · cases hm
  · cases h

namespace HandOff

variable {p : Pipeline} {c r : Ch} {g d : Gi} {gg gd : Goroutine}

theorem g_parts (H : HandOff p c r g d gg gd) :
    backClosedOk gg.nodes (fun nd => nd.opsOn c || nd.handsOff r) (ownG gg c r) = true ∧
    (∀ (pc n : Pc), gg.nodes[pc]? = some (Node.close c n) → mark (ownG gg c r) n = false) ∧
    (∀ (pc : Pc) (nd : Node) (n : Pc), gg.nodes[pc]? = some nd → (Lab.send r, n) ∈ nd.edges →
        mark (ownG gg c r) n = false) := by
  have h := H.okG
  unfold ownGOk at h
  simp only [Bool.and_eq_true] at h
  refine ⟨h.1, ?_, ?_⟩
  · intro pc n hn
    have := all_nodes h.2 hn
    simpa using this
  · intro pc nd n hn hed
    have := all_nodes h.2 hn
    cases nd <;> simp [Node.edges] at hed
    case sel alts =>
      obtain ⟨a, ha, hae⟩ := hed
      simp only [List.all_eq_true] at this
      have := this a ha
      cases a <;> simp [Alt.edges] at hae
      case send r' n' =>
        obtain ⟨h1, h2⟩ := hae
        subst h1; subst h2
        simpa using this

/-- a send on `r` from a node of `g`: the node hands off -/
theorem handsOff_of_edge {nd : Node} {n : Pc} (hed : (Lab.send r, n) ∈ nd.edges) : nd.handsOff r = true := by
  cases nd <;> simp [Node.edges, Node.handsOff] at hed ⊢
  case sel alts =>
    obtain ⟨a, ha, hae⟩ := hed
    refine ⟨a, ha, ?_⟩
    cases a <;> simp [Alt.edges, Alt.handsOff] at hae ⊢
    exact hae.1.symm

theorem d_parts (H : HandOff p c r g d gg gd) :
    mark (ownD gd c r) 0 = false ∧
    (∀ (pc : Pc) (nd : Node), gd.nodes[pc]? = some nd → nd.opsOn c = true → mark (ownD gd c r) pc = true) ∧
    (∀ (pc : Pc) (nd : Node) (l : Lab) (n : Pc), gd.nodes[pc]? = some nd → (l, n) ∈ nd.edges →
        mark (ownD gd c r) n = true → l ≠ Lab.recvOk r → mark (ownD gd c r) pc = true ∧ nd.closes c = false) := by
  have h := H.okD
  unfold ownDOk at h
  simp only [Bool.and_eq_true, Bool.not_eq_true'] at h
  refine ⟨h.1, ?_, ?_⟩
  · intro pc nd hn hop
    have := zipIdx_all h.2 hn
    simp only [Bool.and_eq_true, Bool.or_eq_true, Bool.not_eq_true'] at this
    rcases this.1 with h1 | h1
    · rw [hop] at h1; cases h1
    · exact h1
  · intro pc nd l n hn hed hm hl
    have := zipIdx_all h.2 hn
    simp only [Bool.and_eq_true, Bool.or_eq_true, Bool.not_eq_true', List.all_eq_true, beq_iff_eq] at this
    rcases this.2 (l, n) hed with (h1 | h1) | h1
    · rw [hm] at h1; cases h1
    · exact h1
    · exact absurd h1 hl

end HandOff

/-- number of tokens for `c` -/
def tokens (gg gd : Goroutine) (c r : Ch) (g d : Gi) (s : State) : Nat :=
  tokOf (ownG gg c r) (s.gs[g]?) + s.len r + tokOf (ownD gd c r) (s.gs[d]?)

theorem recvOk_edge_recvsOn {nd : Node} {c : Ch} {n : Pc} (h : (Lab.recvOk c, n) ∈ nd.edges) :
    nd.recvsOn c = true := recvsOn_of_edge h

theorem opsOn_of_close_edge {nd : Node} {c : Ch} {n : Pc} (h : (Lab.close c, n) ∈ nd.edges) : nd.opsOn c = true := by
  simp [Node.opsOn, closes_of_edge h]

theorem opsOn_of_send_edge {nd : Node} {c : Ch} {n : Pc} (h : (Lab.send c, n) ∈ nd.edges) : nd.opsOn c = true := by
  simp [Node.opsOn, sendsOn_of_edge h]

/-- the token of the creator after it moved along an edge -/
theorem tokG_move {p : Pipeline} {c r : Ch} {g d : Gi} {gg gd : Goroutine} (H : HandOff p c r g d gg gd)
    {pc : Pc} {nd : Node} {l : Lab} {n : Pc} (hn : gg.nodes[pc]? = some nd) (hed : (l, n) ∈ nd.edges) :
    tokOf (ownG gg c r) (some (GSt.at n)) ≤ tokOf (ownG gg c r) (some (GSt.at pc)) ∧
    ((l = .send r ∨ l = .close c) →
      tokOf (ownG gg c r) (some (GSt.at pc)) = 1 ∧ tokOf (ownG gg c r) (some (GSt.at n)) = 0) := by
  obtain ⟨hback, hclose, hsend⟩ := H.g_parts
  constructor
  · rw [tokOf_at, tokOf_at]
    cases hm : mark (ownG gg c r) n with
    | false => simp
    | true => rw [backClosed_edge hback hn hed hm]; simp
  · rintro (hl | hl)
    · subst hl
      rw [tokOf_at, tokOf_at, hsend pc nd n hn hed,
        backClosed_seed hback hn (by simp [HandOff.handsOff_of_edge hed])]
      simp
    · subst hl
      have := close_node_of_edge hed
      subst this
      rw [tokOf_at, tokOf_at, hclose pc n hn,
        backClosed_seed hback hn (by simp [Node.opsOn, Node.closes])]
      simp

/-- the token of the collector after it moved along an edge -/
theorem tokD_move {p : Pipeline} {c r : Ch} {g d : Gi} {gg gd : Goroutine} (H : HandOff p c r g d gg gd)
    {pc : Pc} {nd : Node} {l : Lab} {n : Pc} (hn : gd.nodes[pc]? = some nd) (hed : (l, n) ∈ nd.edges) :
    (l ≠ .recvOk r → tokOf (ownD gd c r) (some (GSt.at n)) ≤ tokOf (ownD gd c r) (some (GSt.at pc))) ∧
    (l = .close c →
      tokOf (ownD gd c r) (some (GSt.at pc)) = 1 ∧ tokOf (ownD gd c r) (some (GSt.at n)) = 0) := by
  obtain ⟨_, hops, hedge⟩ := H.d_parts
  constructor
  · intro hl
    rw [tokOf_at, tokOf_at]
    cases hm : mark (ownD gd c r) n with
    | false => simp
    | true => rw [(hedge pc nd l n hn hed hm hl).1]; simp
  · intro hl
    subst hl
    have hcl := closes_of_edge hed
    rw [tokOf_at, tokOf_at, hops pc nd hn (by simp [Node.opsOn, hcl])]
    cases hm : mark (ownD gd c r) n with
    | false => simp
    | true =>
      have := (hedge pc nd _ n hn hed hm (by simp)).2
      rw [hcl] at this; cases this

theorem tokOf_effect (m : List Bool) (s : State) (l : Lab) (y : Gi) :
    tokOf m ((effect s l).gs[y]?) = tokOf m (s.gs[y]?) := by
  unfold tokOf; rw [labelAt_effect]

/-- position of another goroutine after an `act` step of `x` -/
theorem act_get_ne (s : State) (l : Lab) {x y : Gi} (n : Pc) (h : x ≠ y) :
    ((effect s l).setG x (GSt.at n)).gs[y]? = (effect s l).gs[y]? := State.setG_get_ne h

theorem act_get_self {s : State} (l : Lab) {x : Gi} {pc : Pc} (n : Pc) (hat : s.gs[x]? = some (GSt.at pc)) :
    ((effect s l).setG x (GSt.at n)).gs[x]? = some (GSt.at n) := by
  rw [State.setG_get, if_pos rfl, effect_gs_length, if_pos (List.getElem?_eq_some_iff.mp hat).1]

/-- one step never creates a token, and closing `c` destroys one -/
theorem tokens_step {p : Pipeline} {c r : Ch} {g d : Gi} {gg gd : Goroutine} (H : HandOff p c r g d gg gd)
    {s s' : State} {e : Ev} (hst : Step p s e (.run s')) (hT : tokens gg gd c r g d s ≤ 1) :
    tokens gg gd c r g d s' ≤ tokens gg gd c r g d s ∧
    (s.closed c = false → s'.closed c = true → tokens gg gd c r g d s' + 1 ≤ tokens gg gd c r g d s) := by
  unfold tokens at hT ⊢
  cases hst with
  | env k hk hd =>
    simp only [State.setCtx_gs, State.setCtx_len, State.setCtx_closed]
    exact ⟨Nat.le_refl _, fun h0 h1 => by rw [h0] at h1; cases h1⟩
  | exit x pc hat hnd =>
    simp only [State.setG_len, State.setG_closed]
    refine ⟨?_, fun h0 h1 => by rw [h0] at h1; cases h1⟩
    have hG : tokOf (ownG gg c r) ((s.setG x GSt.done).gs[g]?) ≤ tokOf (ownG gg c r) (s.gs[g]?) := by
      by_cases hx : x = g
      · subst hx; rw [State.setG_get_self hat, tokOf_done]; omega
      · rw [State.setG_get_ne hx]; omega
    have hD : tokOf (ownD gd c r) ((s.setG x GSt.done).gs[d]?) ≤ tokOf (ownD gd c r) (s.gs[d]?) := by
      by_cases hx : x = d
      · subst hx; rw [State.setG_get_self hat, tokOf_done]; omega
      · rw [State.setG_get_ne hx]; omega
    omega
  | act x pc nd l n hat hnd hed hgd hdf =>
    simp only [State.setG_len, State.setG_closed]
    obtain ⟨grx, hgx, hn⟩ := node_some hnd
    by_cases hxg : x = g
    · -- the creator moves
      subst hxg
      have hgrx : grx = gg := by have := H.hg; rw [hgx] at this; cases this; rfl
      subst hgrx
      rw [act_get_self l n hat, act_get_ne s l n H.gd_ne, tokOf_effect, hat]
      obtain ⟨hle, hsp⟩ := tokG_move H hn hed
      have hnr : l ≠ .recvOk r := by
        intro hl; subst hl
        have := hasRecv_of_node hn (recvsOn_of_edge hed)
        rw [H.gNoRecv] at this; cases this
      rw [effect_len, if_neg (by simp [hnr])]
      by_cases hls : l = .send r
      · subst hls
        obtain ⟨h1, h2⟩ := hsp (Or.inl rfl)
        refine ⟨by split <;> omega, ?_⟩
        intro h0 h1'
        rw [effect_closed, h0] at h1'
        simp at h1'
      · rw [if_neg (by simp [hls])]
        refine ⟨by omega, ?_⟩
        intro h0 h1
        rw [effect_closed, h0] at h1
        simp only [Bool.false_or, Bool.and_eq_true, decide_eq_true_eq] at h1
        obtain ⟨h1, h2⟩ := hsp (Or.inr h1.1)
        omega
    · by_cases hxd : x = d
      · -- the collector moves
        subst hxd
        have hgrx : grx = gd := by have := H.hd; rw [hgx] at this; cases this; rfl
        subst hgrx
        rw [act_get_self l n hat, act_get_ne s l n hxg, tokOf_effect, hat]
        obtain ⟨hle, hcl⟩ := tokD_move H hn hed
        have hns : l ≠ .send r := by
          intro hl; subst hl
          have := hasSend_of_node hn (sendsOn_of_edge hed)
          rw [H.dNoSend] at this; cases this
        by_cases hlr : l = .recvOk r
        · subst hlr
          have hpos : 0 < s.len r := by simpa [guard] using hgd
          have hin : r < s.chs.length := by
            unfold State.len at hpos
            cases hh : s.chs[r]? with
            | none => simp [hh] at hpos
            | some y => exact (List.getElem?_eq_some_iff.mp hh).1
          rw [effect_len, if_pos ⟨rfl, hin⟩]
          have := tokOf_le_one (ownD grx c r) (some (GSt.at n))
          refine ⟨by omega, ?_⟩
          intro h0 h1
          rw [effect_closed, h0] at h1
          simp at h1
        · rw [effect_len, if_neg (by simp [hlr]), if_neg (by simp [hns])]
          have := hle hlr
          refine ⟨by omega, ?_⟩
          intro h0 h1
          rw [effect_closed, h0] at h1
          simp only [Bool.false_or, Bool.and_eq_true, decide_eq_true_eq] at h1
          obtain ⟨h1, h2⟩ := hcl h1.1
          omega
      · -- somebody else moves
        rw [act_get_ne s l n hxg, act_get_ne s l n hxd, tokOf_effect, tokOf_effect]
        have hns : l ≠ .send r := by
          intro hl; subst hl
          exact hxg (H.sendR x grx hgx (hasSend_of_node hn (sendsOn_of_edge hed)))
        have hnr : l ≠ .recvOk r := by
          intro hl; subst hl
          exact hxd (H.recvR x grx hgx (hasRecv_of_node hn (recvsOn_of_edge hed)))
        rw [effect_len, if_neg (by simp [hnr]), if_neg (by simp [hns])]
        refine ⟨Nat.le_refl _, ?_⟩
        intro h0 h1
        rw [effect_closed, h0] at h1
        simp only [Bool.false_or, Bool.and_eq_true, decide_eq_true_eq] at h1
        obtain ⟨hl, _⟩ := h1
        subst hl
        rcases H.opsC x grx hgx (hasOps_of_node hn (opsOn_of_close_edge hed)) with h | h
        · exact absurd h hxg
        · exact absurd h hxd
  | sync x pc nd n y pc' nd' n' ch hne hat hnd hed hat' hnd' hed' hcap hcl =>
    simp only [State.setG_len, State.setG_closed]
    refine ⟨?_, fun h0 h1 => by rw [h0] at h1; cases h1⟩
    obtain ⟨grx, hgx, hn⟩ := node_some hnd
    obtain ⟨gry, hgy, hn'⟩ := node_some hnd'
    have hat2 : (s.setG x (GSt.at n)).gs[y]? = some (GSt.at pc') := by
      rw [State.setG_get_ne hne]; exact hat'
    -- positions after the rendezvous
    have posy : ((s.setG x (GSt.at n)).setG y (GSt.at n')).gs[y]? = some (GSt.at n') := State.setG_get_self hat2
    have posx : ((s.setG x (GSt.at n)).setG y (GSt.at n')).gs[x]? = some (GSt.at n) := by
      rw [State.setG_get_ne (Ne.symm hne)]; exact State.setG_get_self hat
    have posz : ∀ z, z ≠ x → z ≠ y → ((s.setG x (GSt.at n)).setG y (GSt.at n')).gs[z]? = s.gs[z]? := by
      intro z hzx hzy
      rw [State.setG_get_ne (Ne.symm hzy), State.setG_get_ne (Ne.symm hzx)]
    by_cases hch : ch = r
    · subst hch
      have hxg : x = g := H.sendR x grx hgx (hasSend_of_node hn (sendsOn_of_edge hed))
      have hyd : y = d := H.recvR y gry hgy (hasRecv_of_node hn' (recvsOn_of_edge hed'))
      subst hxg; subst hyd
      have hgrx : grx = gg := by have := H.hg; rw [hgx] at this; cases this; rfl
      subst hgrx
      rw [posx, posy]
      rw [hat] at hT ⊢
      obtain ⟨_, hsp⟩ := tokG_move H hn hed
      obtain ⟨h1, h2⟩ := hsp (Or.inl rfl)
      have := tokOf_le_one (ownD gd c ch) (some (GSt.at n'))
      omega
    · have hG : tokOf (ownG gg c r) (((s.setG x (GSt.at n)).setG y (GSt.at n')).gs[g]?) ≤ tokOf (ownG gg c r) (s.gs[g]?) := by
        by_cases h1 : g = x
        · subst h1
          have hgrx : grx = gg := by have := H.hg; rw [hgx] at this; cases this; rfl
          subst hgrx
          rw [posx, hat]; exact (tokG_move H hn hed).1
        · by_cases h2 : g = y
          · subst h2
            have hgry : gry = gg := by have := H.hg; rw [hgy] at this; cases this; rfl
            subst hgry
            rw [posy, hat']; exact (tokG_move H hn' hed').1
          · rw [posz g h1 h2]; exact Nat.le_refl _
      have hD : tokOf (ownD gd c r) (((s.setG x (GSt.at n)).setG y (GSt.at n')).gs[d]?) ≤ tokOf (ownD gd c r) (s.gs[d]?) := by
        by_cases h1 : d = x
        · subst h1
          have hgrx : grx = gd := by have := H.hd; rw [hgx] at this; cases this; rfl
          subst hgrx
          rw [posx, hat]; exact (tokD_move H hn hed).1 (by simp)
        · by_cases h2 : d = y
          · subst h2
            have hgry : gry = gd := by have := H.hd; rw [hgy] at this; cases this; rfl
            subst hgry
            rw [posy, hat']
            exact (tokD_move H hn' hed').1 (by intro h; injection h with h; exact hch h)
          · rw [posz d h1 h2]; exact Nat.le_refl _
      omega

/-- **the token invariant** -/
theorem tokens_inv {p : Pipeline} {c r : Ch} {g d : Gi} {gg gd : Goroutine} (H : HandOff p c r g d gg gd) :
    ∀ s, Reach p s → tokens gg gd c r g d s ≤ 1 ∧ (s.closed c = true → tokens gg gd c r g d s = 0) := by
  apply reach_inv (I := fun s => tokens gg gd c r g d s ≤ 1 ∧ (s.closed c = true → tokens gg gd c r g d s = 0))
  · refine ⟨?_, fun h => by rw [init_closed] at h; cases h⟩
    unfold tokens
    rw [init_len]
    have h1 := tokOf_le_one (ownG gg c r) ((init p).gs[g]?)
    have h2 : tokOf (ownD gd c r) ((init p).gs[d]?) = 0 := by
      rw [init_gs, H.hd]
      simp only [Option.map_some]
      have := H.d_parts.1
      split <;> simp [tokOf, labelAt, this]
    omega
  · intro s e s' _ ih hst
    obtain ⟨h1, h2⟩ := tokens_step H hst ih.1
    refine ⟨by omega, ?_⟩
    intro hc'
    cases hc : s.closed c with
    | true => have := ih.2 hc; omega
    | false => have := h2 hc hc'; omega

theorem safe_C {p : Pipeline} {c : Ch} (h : discC p c = true) :
    ¬ CrashReachable p (.sendClosed c) ∧ ¬ CrashReachable p (.closeClosed c) := by
  unfold discC at h
  rw [List.any_eq_true] at h
  obtain ⟨r, _, hr⟩ := h
  obtain ⟨g, d, gg, gd, H⟩ := handOff_of_discCr hr
  have hinv := tokens_inv H
  obtain ⟨hback, _, _⟩ := H.g_parts
  obtain ⟨_, hopsD, _⟩ := H.d_parts
  -- whoever stands at a node that operates on `c` holds the token
  have key : ∀ s x pc nd, Reach p s → s.closed c = true → s.gs[x]? = some (.at pc) →
      p.node x pc = some nd → nd.opsOn c = true → False := by
    intro s x pc nd hr hc hat hnd hop
    obtain ⟨grx, hgx, hn⟩ := node_some hnd
    have h0 := (hinv s hr).2 hc
    unfold tokens at h0
    rcases H.opsC x grx hgx (hasOps_of_node hn hop) with hx | hx
    · subst hx
      have hgrx : grx = gg := by have := H.hg; rw [hgx] at this; cases this; rfl
      subst hgrx
      have : tokOf (ownG grx c r) (s.gs[x]?) = 1 := by
        rw [hat, tokOf_at, backClosed_seed hback hn (by simp [hop])]; rfl
      omega
    · subst hx
      have hgrx : grx = gd := by have := H.hd; rw [hgx] at this; cases this; rfl
      subst hgrx
      have : tokOf (ownD grx c r) (s.gs[x]?) = 1 := by
        rw [hat, tokOf_at, hopsD pc nd hn hop]; rfl
      omega
  constructor
  · rintro ⟨s, e, x, pc, hr, hst⟩
    cases hst with
    | crash x pc nd l n k hat hnd hed hk =>
      obtain ⟨hl, hc⟩ := crashOf_send hk
      subst hl
      exact key s x pc nd hr hc hat hnd (opsOn_of_send_edge hed)
  · rintro ⟨s, e, x, pc, hr, hst⟩
    cases hst with
    | crash x pc nd l n k hat hnd hed hk =>
      obtain ⟨hl, hc⟩ := crashOf_close hk
      subst hl
      exact key s x pc nd hr hc hat hnd (opsOn_of_close_edge hed)

/-- **close_discipline_safe**: a channel that passes W1 is never sent on or closed after it was
closed — in no reachable state, under any schedule and any cancellation instant. -/
theorem w1_safe {p : Pipeline} {c : Ch} (h : W1c p c = true) :
    ¬ CrashReachable p (.sendClosed c) ∧ ¬ CrashReachable p (.closeClosed c) := by
  unfold W1c at h
  simp only [Bool.or_eq_true] at h
  rcases h with ((h | h) | h) | h
  · exact safe_N h
  · exact safe_A h
  · exact safe_B h
  · exact safe_C h

end Dos.Pipe

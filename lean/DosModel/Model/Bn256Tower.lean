/-
C10 layer 4 — gfP2 / gfP6 / gfP12 of group/bn256 (gfp2.go, gfp6.go, gfp12.go),
transcribed operation by operation, over ANY base type `α` with the operations of
`gfP` (`+ - * neg 0 1 ⁻¹`). Instantiated at the Montgomery `GFp` by the driver and at an
arbitrary commutative ring / field by the proofs (Proofs/Bn256Tower*.lean).
Each definition keeps the statement order and the temporaries of the Go function.
-/
import DosModel.Model.Bn256Field

namespace Dos.Bn256

/-! ## gfP2: x·i + y, i² = −1 -/
structure Fp2 (α : Type) where
  x : α
  y : α
  deriving DecidableEq, Repr, Inhabited

namespace Fp2
variable {α : Type} [Add α] [Sub α] [Neg α] [Mul α] [Zero α] [One α] [Inv α]

def zero : Fp2 α := ⟨0, 0⟩                       -- SetZero
def one : Fp2 α := ⟨0, 1⟩                        -- SetOne: x = gfP{0}, y = *newGFp(1)
def conjugate (a : Fp2 α) : Fp2 α := ⟨-a.x, a.y⟩
def neg (a : Fp2 α) : Fp2 α := ⟨-a.x, -a.y⟩
def add (a b : Fp2 α) : Fp2 α := ⟨a.x + b.x, a.y + b.y⟩
def sub (a b : Fp2 α) : Fp2 α := ⟨a.x - b.x, a.y - b.y⟩

def mul (a b : Fp2 α) : Fp2 α :=
  let tx := a.x * b.y
  let t := b.x * a.y
  let tx := tx + t
  let ty := a.y * b.y
  let t := a.x * b.x
  let ty := ty - t
  ⟨tx, ty⟩

def mulScalar (a : Fp2 α) (b : α) : Fp2 α := ⟨a.x * b, a.y * b⟩

/-- MulXi: ξ = i + 9 -/
def mulXi (a : Fp2 α) : Fp2 α :=
  let tx := a.x + a.x
  let tx := tx + tx
  let tx := tx + tx
  let tx := tx + a.x
  let tx := tx + a.y
  let ty := a.y + a.y
  let ty := ty + ty
  let ty := ty + ty
  let ty := ty + a.y
  let ty := ty - a.x
  ⟨tx, ty⟩

def square (a : Fp2 α) : Fp2 α :=
  let tx := a.y - a.x
  let ty := a.x + a.y
  let ty := tx * ty
  let tx := a.x * a.y
  let tx := tx + tx
  ⟨tx, ty⟩

def invert (a : Fp2 α) : Fp2 α :=
  let t1 := a.x * a.x
  let t2 := a.y * a.y
  let t1 := t1 + t2
  let inv := t1⁻¹
  let t1 := -a.x
  ⟨t1 * inv, a.y * inv⟩

instance : Add (Fp2 α) := ⟨add⟩
instance : Sub (Fp2 α) := ⟨sub⟩
instance : Neg (Fp2 α) := ⟨neg⟩
instance : Mul (Fp2 α) := ⟨mul⟩
instance : Zero (Fp2 α) := ⟨zero⟩
instance : One (Fp2 α) := ⟨one⟩
instance : Inv (Fp2 α) := ⟨invert⟩
instance : Sq (Fp2 α) := ⟨square⟩

end Fp2

/-! ## gfP6: x·τ² + y·τ + z, τ³ = ξ -/
structure Fp6 (α : Type) where
  x : Fp2 α
  y : Fp2 α
  z : Fp2 α
  deriving DecidableEq, Repr, Inhabited

namespace Fp6
variable {α : Type} [Add α] [Sub α] [Neg α] [Mul α] [Zero α] [One α] [Inv α]

def zero : Fp6 α := ⟨Fp2.zero, Fp2.zero, Fp2.zero⟩
def one : Fp6 α := ⟨Fp2.zero, Fp2.zero, Fp2.one⟩
def neg (a : Fp6 α) : Fp6 α := ⟨a.x.neg, a.y.neg, a.z.neg⟩
def add (a b : Fp6 α) : Fp6 α := ⟨a.x.add b.x, a.y.add b.y, a.z.add b.z⟩
def sub (a b : Fp6 α) : Fp6 α := ⟨a.x.sub b.x, a.y.sub b.y, a.z.sub b.z⟩

def mul (a b : Fp6 α) : Fp6 α :=
  let v0 := a.z.mul b.z
  let v1 := a.y.mul b.y
  let v2 := a.x.mul b.x
  let t0 := a.x.add a.y
  let t1 := b.x.add b.y
  let tz := t0.mul t1
  let tz := (((tz.sub v1).sub v2).mulXi).add v0
  let t0 := a.y.add a.z
  let t1 := b.y.add b.z
  let ty := t0.mul t1
  let t0 := v2.mulXi
  let ty := ((ty.sub v0).sub v1).add t0
  let t0 := a.x.add a.z
  let t1 := b.x.add b.z
  let tx := t0.mul t1
  let tx := ((tx.sub v0).add v1).sub v2
  ⟨tx, ty, tz⟩

def mulScalar (a : Fp6 α) (b : Fp2 α) : Fp6 α := ⟨a.x.mul b, a.y.mul b, a.z.mul b⟩
def mulGFP (a : Fp6 α) (b : α) : Fp6 α := ⟨a.x.mulScalar b, a.y.mulScalar b, a.z.mulScalar b⟩

/-- MulTau: τ·(aτ² + bτ + c) = bτ² + cτ + aξ -/
def mulTau (a : Fp6 α) : Fp6 α :=
  let tz := a.x.mulXi
  let ty := a.y
  ⟨ty, a.z, tz⟩

def square (a : Fp6 α) : Fp6 α :=
  let v0 := a.z.square
  let v1 := a.y.square
  let v2 := a.x.square
  let c0 := a.x.add a.y
  let c0 := ((((c0.square).sub v1).sub v2).mulXi).add v0
  let c1 := a.y.add a.z
  let c1 := ((c1.square).sub v0).sub v1
  let xiV2 := v2.mulXi
  let c1 := c1.add xiV2
  let c2 := a.x.add a.z
  let c2 := (((c2.square).sub v0).add v1).sub v2
  ⟨c2, c1, c0⟩

def invert (a : Fp6 α) : Fp6 α :=
  let t1 := a.x.mul a.y
  let t1 := t1.mulXi
  let A := a.z.square
  let A := A.sub t1
  let B := a.x.square
  let B := B.mulXi
  let t1 := a.y.mul a.z
  let B := B.sub t1
  let C := a.y.square
  let t1 := a.x.mul a.z
  let C := C.sub t1
  let F := C.mul a.y
  let F := F.mulXi
  let t1 := A.mul a.z
  let F := F.add t1
  let t1 := (B.mul a.x).mulXi
  let F := F.add t1
  let F := F.invert
  ⟨C.mul F, B.mul F, A.mul F⟩

instance : Add (Fp6 α) := ⟨add⟩
instance : Sub (Fp6 α) := ⟨sub⟩
instance : Neg (Fp6 α) := ⟨neg⟩
instance : Mul (Fp6 α) := ⟨mul⟩
instance : Zero (Fp6 α) := ⟨zero⟩
instance : One (Fp6 α) := ⟨one⟩

end Fp6

/-! ## gfP12: x·ω + y, ω² = τ -/
structure Fp12 (α : Type) where
  x : Fp6 α
  y : Fp6 α
  deriving DecidableEq, Repr, Inhabited

namespace Fp12
variable {α : Type} [Add α] [Sub α] [Neg α] [Mul α] [Zero α] [One α] [Inv α]

def zero : Fp12 α := ⟨Fp6.zero, Fp6.zero⟩
def one : Fp12 α := ⟨Fp6.zero, Fp6.one⟩
def conjugate (a : Fp12 α) : Fp12 α := ⟨a.x.neg, a.y⟩
def neg (a : Fp12 α) : Fp12 α := ⟨a.x.neg, a.y.neg⟩
def add (a b : Fp12 α) : Fp12 α := ⟨a.x.add b.x, a.y.add b.y⟩
def sub (a b : Fp12 α) : Fp12 α := ⟨a.x.sub b.x, a.y.sub b.y⟩

def mul (a b : Fp12 α) : Fp12 α :=
  let tx := a.x.mul b.y
  let t := b.x.mul a.y
  let tx := tx.add t
  let ty := a.y.mul b.y
  let t := (a.x.mul b.x).mulTau
  ⟨tx, ty.add t⟩

/-- `e.MulScalar(a, b)` as written: it multiplies the RECEIVER's old halves (`e.x.Mul(&e.x, b)`),
not `a`'s; the only caller passes a = e. `e` is the receiver's value before the call. -/
def mulScalarRecv (e : Fp12 α) (_a : Fp12 α) (b : Fp6 α) : Fp12 α := ⟨e.x.mul b, e.y.mul b⟩

def square (a : Fp12 α) : Fp12 α :=
  let v0 := a.x.mul a.y
  let t := a.x.mulTau
  let t := a.y.add t
  let ty := a.x.add a.y
  let ty := (ty.mul t).sub v0
  let t := v0.mulTau
  let ty := ty.sub t
  ⟨v0.add v0, ty⟩

def invert (a : Fp12 α) : Fp12 α :=
  let t1 := a.x.square
  let t2 := a.y.square
  let t1 := t2.sub t1.mulTau
  let t2 := t1.invert
  let e : Fp12 α := ⟨a.x.neg, a.y⟩
  mulScalarRecv e e t2

instance : Add (Fp12 α) := ⟨add⟩
instance : Sub (Fp12 α) := ⟨sub⟩
instance : Neg (Fp12 α) := ⟨neg⟩
instance : Mul (Fp12 α) := ⟨mul⟩
instance : Zero (Fp12 α) := ⟨zero⟩
instance : One (Fp12 α) := ⟨one⟩

/-- number of bits of a scalar (big.Int.BitLen) -/
def bitLen (n : Nat) : Nat := if n = 0 then 0 else Nat.log2 n + 1

/-- gfP12.Exp: left-to-right square-and-multiply from bit BitLen−1 down to 0 -/
def exp (a : Fp12 α) (power : Nat) : Fp12 α :=
  (List.range (bitLen power)).reverse.foldl
    (fun sum i =>
      let t := sum.square
      if power.testBit i then t.mul a else t) one

end Fp12

end Dos.Bn256

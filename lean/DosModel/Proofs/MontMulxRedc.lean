/-
C10 layer 2/3 — the reduction half of gfpMul on the MULX path and the final composition:
`redMX` is (T mod 2^256)·np mod 2^256, hence the limb model of the whole MULX path is `mulM`,
for ALL word operands and moduli — the same number-level function as the MULQ path.
-/
import Mathlib.Tactic.Ring
import DosModel.Proofs.MontMulxSchool

namespace Dos.Mont

theorem redMX_tele {r8 h00 l01 h01 l02 h02 l03 h03 l10 h10 l11 h11 l12 h12 l20 h20 l21 h21 l30 h30
    r9 c1 r10 c2 r11 c3 r9' k1 r10' k2 r11' k3 r10'' k4 r11'' k5 r10''' k6 r11''' k7 s k8 r11f k9
    q00 q01 q02 q03 q10 q11 q12 q20 q21 q30 : Nat}
    (m00 : r8 + W * h00 = q00) (m01 : l01 + W * h01 = q01) (m02 : l02 + W * h02 = q02) (m03 : l03 + W * h03 = q03)
    (m10 : l10 + W * h10 = q10) (m11 : l11 + W * h11 = q11) (m12 : l12 + W * h12 = q12)
    (m20 : l20 + W * h20 = q20) (m21 : l21 + W * h21 = q21) (m30 : l30 + W * h30 = q30)
    (a1 : r9 + W * c1 = h00 + l01) (a2 : r10 + W * c2 = h01 + l02 + c1) (a3 : r11 + W * c3 = h02 + l03 + c2)
    (b1 : r9' + W * k1 = r9 + l10) (b2 : r10' + W * k2 = r10 + h10 + k1) (b3 : r11' + W * k3 = r11 + l12 + k2)
    (d1 : r10'' + W * k4 = r10' + l11) (d2 : r11'' + W * k5 = r11' + h11 + k4)
    (e1 : r10''' + W * k6 = r10'' + l20) (e2 : r11''' + W * k7 = r11'' + h20 + k6)
    (f1 : s + W * k8 = r11''' + l21) (f2 : r11f + W * k9 = s + l30) :
    v4 r8 r9' r10''' r11f + R * (c3 + k3 + k5 + k7 + k8 + k9 + h03 + h12 + h21 + h30) =
      q00 + W * (q01 + q10) + W * W * (q02 + q11 + q20) + W * W * W * (q03 + q12 + q21 + q30) := by
  simp only [v4, W, R] at *; omega

/-- **redMX**: the four words are (t·np) mod 2^256 -/
theorem redMX_val (np : L4) (t0 t1 t2 t3 : Nat) (hnp : np.ok) (h0 : t0 < W) (h1 : t1 < W) (h2 : t2 < W)
    (h3 : t3 < W) :
    (redMX np t0 t1 t2 t3).val = (v4 t0 t1 t2 t3 * np.val) % R ∧ (redMX np t0 t1 t2 t3).ok := by
  obtain ⟨n0, n1, n2, n3⟩ := np
  obtain ⟨hn0, hn1, hn2, hn3⟩ := hnp
  simp only at hn0 hn1 hn2 hn3
  simp only [redMX, L4.val_eq, L4.ok]
  obtain ⟨m00, l00, k00⟩ := mul_spec n0 t0 hn0 h0
  obtain ⟨m01, l01', k01⟩ := mul_spec n0 t1 hn0 h1
  obtain ⟨m02, l02', k02⟩ := mul_spec n0 t2 hn0 h2
  obtain ⟨m03, l03', _⟩ := mul_spec n0 t3 hn0 h3
  obtain ⟨m10, l10', k10⟩ := mul_spec n1 t0 hn1 h0
  obtain ⟨m11, l11', k11⟩ := mul_spec n1 t1 hn1 h1
  obtain ⟨m12, l12', _⟩ := mul_spec n1 t2 hn1 h2
  obtain ⟨m20, l20', k20⟩ := mul_spec n2 t0 hn2 h0
  obtain ⟨m21, l21', _⟩ := mul_spec n2 t1 hn2 h1
  obtain ⟨m30, l30', _⟩ := mul_spec n3 t0 hn3 h0
  generalize mulLo n0 t0 = r8 at *
  generalize mulHi n0 t0 = h00 at *
  generalize mulLo n0 t1 = l01 at *
  generalize mulHi n0 t1 = h01 at *
  generalize mulLo n0 t2 = l02 at *
  generalize mulHi n0 t2 = h02 at *
  generalize mulLo n0 t3 = l03 at *
  generalize mulHi n0 t3 = h03 at *
  generalize mulLo n1 t0 = l10 at *
  generalize mulHi n1 t0 = h10 at *
  generalize mulLo n1 t1 = l11 at *
  generalize mulHi n1 t1 = h11 at *
  generalize mulLo n1 t2 = l12 at *
  generalize mulHi n1 t2 = h12 at *
  generalize mulLo n2 t0 = l20 at *
  generalize mulHi n2 t0 = h20 at *
  generalize mulLo n2 t1 = l21 at *
  generalize mulHi n2 t1 = h21 at *
  generalize mulLo n3 t0 = l30 at *
  generalize mulHi n3 t0 = h30 at *
  have hh00 : h00 < W := by simp only [W] at *; omega
  have hh01 : h01 < W := by simp only [W] at *; omega
  have hh02 : h02 < W := by simp only [W] at *; omega
  have hh10 : h10 < W := by simp only [W] at *; omega
  have hh11 : h11 < W := by simp only [W] at *; omega
  have hh20 : h20 < W := by simp only [W] at *; omega
  obtain ⟨a1, na1, ja1⟩ := add_spec h00 l01 hh00 l01'
  generalize addLo h00 l01 = r9 at *
  generalize addC h00 l01 = c1 at *
  obtain ⟨a2, na2, ja2⟩ := adc_spec h01 l02 c1 hh01 l02' ja1
  generalize adcLo h01 l02 c1 = r10 at *
  generalize adcC h01 l02 c1 = c2 at *
  obtain ⟨a3, na3, _⟩ := adc_spec h02 l03 c2 hh02 l03' ja2
  generalize adcLo h02 l03 c2 = r11 at *
  generalize adcC h02 l03 c2 = c3 at *
  obtain ⟨b1, nb1, jb1⟩ := add_spec r9 l10 na1 l10'
  generalize addLo r9 l10 = r9' at *
  generalize addC r9 l10 = k1 at *
  obtain ⟨b2, nb2, jb2⟩ := adc_spec r10 h10 k1 na2 hh10 jb1
  generalize adcLo r10 h10 k1 = r10' at *
  generalize adcC r10 h10 k1 = k2 at *
  obtain ⟨b3, nb3, _⟩ := adc_spec r11 l12 k2 na3 l12' jb2
  generalize adcLo r11 l12 k2 = r11' at *
  generalize adcC r11 l12 k2 = k3 at *
  obtain ⟨d1, nd1, jd1⟩ := add_spec r10' l11 nb2 l11'
  generalize addLo r10' l11 = r10'' at *
  generalize addC r10' l11 = k4 at *
  obtain ⟨d2, nd2, _⟩ := adc_spec r11' h11 k4 nb3 hh11 jd1
  generalize adcLo r11' h11 k4 = r11'' at *
  generalize adcC r11' h11 k4 = k5 at *
  obtain ⟨e1, ne1, je1⟩ := add_spec r10'' l20 nd1 l20'
  generalize addLo r10'' l20 = r10''' at *
  generalize addC r10'' l20 = k6 at *
  obtain ⟨e2, ne2, _⟩ := adc_spec r11'' h20 k6 nd2 hh20 je1
  generalize adcLo r11'' h20 k6 = r11''' at *
  generalize adcC r11'' h20 k6 = k7 at *
  obtain ⟨f1, nf1, _⟩ := add_spec r11''' l21 ne2 l21'
  generalize addLo r11''' l21 = s at *
  generalize addC r11''' l21 = k8 at *
  obtain ⟨f2, nf2, _⟩ := add_spec s l30 nf1 l30'
  generalize addLo s l30 = r11f at *
  generalize addC s l30 = k9 at *
  have TF := redMX_tele m00 m01 m02 m03 m10 m11 m12 m20 m21 m30 a1 a2 a3 b1 b2 b3 d1 d2 e1 e2 f1 f2
  refine ⟨?_, l00, nb1, ne1, nf2⟩
  symm
  apply red_agg (v4_lt l00 nb1 ne1 nf2) TF
  right
  refine ⟨n1 * t3 + n2 * t2 + n3 * t1 + W * (n2 * t3 + n3 * t2) + W * W * (n3 * t3), ?_⟩
  have hR : R = W * W * W * W := by decide
  rw [hR]; simp only [v4]; ring

/-- **gfpMul, MULX path, limb-exact, all operands** -/
theorem mulStructMULX_val (p np a b : L4) (hp : p.ok) (hnp : np.ok) (ha : a.ok) (hb : b.ok) :
    (mulStructMULX p np a b).val = mulM p.val np.val a.val b.val ∧ (mulStructMULX p np a b).ok := by
  obtain ⟨hT, oT⟩ := mulx8_val a b ha hb
  obtain ⟨hm, om⟩ := redMX_val np (mulx8 a b).l0 (mulx8 a b).l1 (mulx8 a b).l2 (mulx8 a b).l3 hnp
    oT.1 oT.2.1 oT.2.2.1 oT.2.2.2.1
  obtain ⟨hM, oM⟩ := mulx8_val p _ hp om
  obtain ⟨hu, ou⟩ := hi5_val _ _ oM oT
  obtain ⟨hc, oc⟩ := carryLimbs_val p _ _ _ _ _ hp ou.1 ou.2.1 ou.2.2.1 ou.2.2.2.1 ou.2.2.2.2
  refine ⟨?_, oc⟩
  simp only [mulStructMULX]
  rw [hc, ← L5.val_eq, hu, hM, hm, L8.lo_eq_mod _ oT, hT]
  simp only [mulM, redc, redcU]
  have e : (p.val * (a.val * b.val % R * np.val % R) + a.val * b.val) / R =
      (a.val * b.val + a.val * b.val % R * np.val % R * p.val) / R := by
    congr 1; ring
  rw [e]
  rfl

theorem mulLimbsMULX_val (p np a b : L4) (hp : p.ok) (hnp : np.ok) (ha : a.ok) (hb : b.ok) :
    (mulLimbsMULX p np a b).val = mulM p.val np.val a.val b.val ∧ (mulLimbsMULX p np a b).ok := by
  rw [mulLimbsMULX_eq]; exact mulStructMULX_val p np a b hp hnp ha hb

end Dos.Mont

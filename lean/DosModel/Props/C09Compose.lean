/-
C09 composed with Primes — the `[Fact q.Prime]` hypothesis of the `*_driver` theorems of
`Props/C09.lean` CLOSED for the two group orders the code uses.

`Share.bn256Order` / `Share.ed25519Order` are the constants regenerated from /repo on every run
(`Gen/TblsFacts.lean`; `c09_code_facts` pins them to the alt_bn128 / ed25519 values) and the moduli the
driver `drv_c09` computes with.  `Proofs/Primes.lean` proves both prime (Pratt certificates, kernel
evaluated), so `Zq r`, `Zq ℓ` ARE fields and the theorems below have no primality assumption left.
Remaining hypotheses are the ones of the generic theorems: `n` below the order, the usable entries are
true shares, at least `t` of them, distinct indices.
Also closed: the hypothesis `hb` of `check_iff` ("no non-zero scalar annihilates the base") for the
driver's discrete-log points — it holds for every `b ≠ 0`.
-/
import DosModel.Props.C09
import DosModel.Proofs.ComposePrimes

set_option linter.unusedSectionVars false

namespace Dos.Props.C09Compose
open Dos Dos.Share Dos.Compose

/-- the two orders are prime — for the regenerated constants themselves -/
theorem orders_prime : Nat.Prime Share.bn256Order ∧ Nat.Prime Share.ed25519Order :=
  ⟨bn256Order_prime, ed25519Order_prime⟩

/-- `1 … n` are invertible modulo the bn256 order for every `n` below it (in particular every Go `int`
share count `< 2^63`) -/
theorem charGt_bn256 (n : Nat) (hn : n < Share.bn256Order) : CharGt (Zq Share.bn256Order) n :=
  Props.C09.zq_charGt Share.bn256Order n hn

theorem charGt_ed25519 (n : Nat) (hn : n < Share.ed25519Order) : CharGt (Zq Share.ed25519Order) n :=
  Props.C09.zq_charGt Share.ed25519Order n hn

/-- every slice length a Go program can build is below both orders -/
theorem go_int_below_orders (n : Nat) (hn : n < 2 ^ 63) :
    n < Share.bn256Order ∧ n < Share.ed25519Order :=
  ⟨Nat.lt_trans hn (by decide), Nat.lt_trans hn (by decide)⟩

/-- **RecoverSecret on the bn256 scalars**, no primality assumption -/
theorem recoverSecret_correct_bn256 (dp : Bool) (f : List (Zq Share.bn256Order)) (t n : Nat)
    (ht : 0 < t) (hf : f.length ≤ t) (hn : n < 2 ^ 63)
    (shares : List (Option (PriShare (Zq Share.bn256Order))))
    (hval : ∀ iv ∈ shares.filterMap (usablePri n), iv.2 = priEval f iv.1)
    (hcnt : t ≤ (idxPri n shares).card) :
    recoverSecret dp shares t n = .ok (f.headD 0) :=
  Props.C09.recoverSecret_correct_driver Share.bn256Order dp f t n ht hf (go_int_below_orders n hn).1
    shares hval hcnt

/-- **RecoverSecret on the ed25519 scalars** -/
theorem recoverSecret_correct_ed25519 (dp : Bool) (f : List (Zq Share.ed25519Order)) (t n : Nat)
    (ht : 0 < t) (hf : f.length ≤ t) (hn : n < 2 ^ 63)
    (shares : List (Option (PriShare (Zq Share.ed25519Order))))
    (hval : ∀ iv ∈ shares.filterMap (usablePri n), iv.2 = priEval f iv.1)
    (hcnt : t ≤ (idxPri n shares).card) :
    recoverSecret dp shares t n = .ok (f.headD 0) :=
  Props.C09.recoverSecret_correct_driver Share.ed25519Order dp f t n ht hf (go_int_below_orders n hn).2
    shares hval hcnt

/-- **RecoverPriPoly** on either scalar type -/
theorem recoverPriPoly_correct_bn256 (g : Nat) (f : List (Zq Share.bn256Order)) (t n : Nat)
    (ht : 0 < t) (hf : f.length = t) (hn : n < 2 ^ 63)
    (shares : List (Option (PriShare (Zq Share.bn256Order))))
    (hval : ∀ iv ∈ shares.filterMap (usablePri n), iv.2 = priEval f iv.1)
    (hcnt : t ≤ (idxPri n shares).card) :
    recoverPriPoly g shares t n = .ok ⟨g, f⟩ :=
  Props.C09.recoverPriPoly_correct g f t n ht hf (charGt_bn256 n (go_int_below_orders n hn).1)
    shares hval hcnt

theorem recoverPriPoly_correct_ed25519 (g : Nat) (f : List (Zq Share.ed25519Order)) (t n : Nat)
    (ht : 0 < t) (hf : f.length = t) (hn : n < 2 ^ 63)
    (shares : List (Option (PriShare (Zq Share.ed25519Order))))
    (hval : ∀ iv ∈ shares.filterMap (usablePri n), iv.2 = priEval f iv.1)
    (hcnt : t ≤ (idxPri n shares).card) :
    recoverPriPoly g shares t n = .ok ⟨g, f⟩ :=
  Props.C09.recoverPriPoly_correct g f t n ht hf (charGt_ed25519 n (go_int_below_orders n hn).2)
    shares hval hcnt

/-- **RecoverCommit** in the driver's discrete-log points, bn256 order -/
theorem recoverCommit_correct_bn256 (dp : Bool) (f : List (Zq Share.bn256Order))
    (B : Zq Share.bn256Order) (t n : Nat) (hf : f.length ≤ t) (hn : n < 2 ^ 63)
    (shares : List (Option (PubShare (Zq Share.bn256Order))))
    (hval : ∀ iv ∈ shares.filterMap (usablePub n), iv.2 = priEval f iv.1 • B)
    (hcnt : t ≤ (idxPub n shares).card) :
    recoverCommit (S := Zq Share.bn256Order) dp shares t n = .ok (f.headD 0 • B) :=
  Props.C09.recoverCommit_correct_driver Share.bn256Order dp f B t n hf (go_int_below_orders n hn).1
    shares hval hcnt

theorem recoverCommit_correct_ed25519 (dp : Bool) (f : List (Zq Share.ed25519Order))
    (B : Zq Share.ed25519Order) (t n : Nat) (hf : f.length ≤ t) (hn : n < 2 ^ 63)
    (shares : List (Option (PubShare (Zq Share.ed25519Order))))
    (hval : ∀ iv ∈ shares.filterMap (usablePub n), iv.2 = priEval f iv.1 • B)
    (hcnt : t ≤ (idxPub n shares).card) :
    recoverCommit (S := Zq Share.ed25519Order) dp shares t n = .ok (f.headD 0 • B) :=
  Props.C09.recoverCommit_correct_driver Share.ed25519Order dp f B t n hf (go_int_below_orders n hn).2
    shares hval hcnt

/-- the same for an ARBITRARY module over the bn256 scalars (e.g. the real G1 once it is known to be
one): only the field side is closed here -/
theorem recoverCommit_correct_bn256_module {G : Type} [AddCommGroup G] [Module (Zq Share.bn256Order) G]
    [DecidableEq G] (dp : Bool) (f : List (Zq Share.bn256Order)) (B : G) (t n : Nat)
    (hf : f.length ≤ t) (hn : n < 2 ^ 63) (shares : List (Option (PubShare G)))
    (hval : ∀ iv ∈ shares.filterMap (usablePub n), iv.2 = priEval f iv.1 • B)
    (hcnt : t ≤ (idxPub n shares).card) :
    recoverCommit (S := Zq Share.bn256Order) dp shares t n = .ok (f.headD 0 • B) :=
  Props.C09.recoverCommit_correct dp f B t n hf (charGt_bn256 n (go_int_below_orders n hn).1)
    shares hval hcnt

/-- **no recovery panics on the real bn256 scalars** (the scalar type whose `Div` dereferences a
nil `ModInverse`): every slice, every value, every `t`, every `n` a Go `int` can hold -/
theorem recover_never_panics_bn256 (dp : Bool) (g t n : Nat) (hn : n < 2 ^ 63)
    (shares : List (Option (PriShare (Zq Share.bn256Order))))
    (pubs : List (Option (PubShare (Zq Share.bn256Order)))) (s : Site) :
    recoverSecret dp shares t n ≠ .panic s ∧ recoverPriPoly g shares t n ≠ .panic s
      ∧ recoverCommit (S := Zq Share.bn256Order) dp pubs t n ≠ .panic s :=
  Props.C09.recover_never_panics_driver Share.bn256Order dp g t n (go_int_below_orders n hn).1
    shares pubs s

/-- fewer than `t` distinct usable indices ⇒ error, bn256 scalars -/
theorem recover_too_few_bn256 (dp : Bool) (g t n : Nat)
    (shares : List (Option (PriShare (Zq Share.bn256Order)))) (hfew : (idxPri n shares).card < t) :
    recoverSecret dp shares t n = .err .few ∧ recoverPriPoly g shares t n = .err .few :=
  Props.C09.recover_too_few dp g t n shares hfew

/-- no share index evaluates at zero and distinct indices are distinct points — bn256 scalars,
every index a Go `int` can hold -/
theorem x_ne_zero_bn256 (n : Nat) (hn : n < 2 ^ 63) (i : Int) (h0 : 0 ≤ i) (hi : i < n) :
    (xOf i : Zq Share.bn256Order) ≠ 0 ∧
      ∀ j : Int, 0 ≤ j → j < n → (xOf i : Zq Share.bn256Order) = xOf j → i = j :=
  Props.C09.x_ne_zero n (charGt_bn256 n (go_int_below_orders n hn).1) i h0 hi

/-- **`check_iff` with its hypothesis `hb` discharged** for the driver's points: in the discrete-log
representation every non-zero base is annihilated by no non-zero scalar (the order is prime), so share
checking accepts exactly the true share value. -/
theorem check_iff_dlog (q : Nat) [Fact q.Prime] (p : PriPoly (Zq q)) (b : Zq q) (hb : b ≠ 0) (i : Int)
    (v : Zq q) : check (Zq q) (commit p b) i v = true ↔ v = priEval p.coeffs i :=
  Props.C09.check_iff p b (fun c h => (mul_eq_zero.1 (show c * b = 0 from h)).resolve_right hb) i v

theorem check_iff_bn256 (p : PriPoly (Zq Share.bn256Order)) (b : Zq Share.bn256Order) (hb : b ≠ 0)
    (i : Int) (v : Zq Share.bn256Order) :
    check (Zq Share.bn256Order) (commit p b) i v = true ↔ v = priEval p.coeffs i :=
  check_iff_dlog Share.bn256Order p b hb i v

/-! ### non-vacuity: a 2-of-3 sharing of the secret `r − 1` over the REAL bn256 scalar field, evaluated
by the kernel; shares of members 2 (twice) and 0 with junk in between -/

private def fr : List (Zq Share.bn256Order) := [-1, 5]

example : recoverSecret true (S := Zq Share.bn256Order)
    [some ⟨2, some (priEval fr 2)⟩, none, some ⟨2, some (priEval fr 2)⟩, some ⟨7, some 1⟩,
     some ⟨0, some (priEval fr 0)⟩] 2 3 = .ok (-1) :=
  recoverSecret_correct_bn256 true fr 2 3 (by decide) (by decide) (by decide) _
    (by decide +kernel) (by decide +kernel)

/-- the input of the repaired defect on the real scalar field: `[s₂, s₂]`, `t = 2` -/
example : recoverSecret true (S := Zq Share.bn256Order)
    [some ⟨2, some (priEval fr 2)⟩, some ⟨2, some (priEval fr 2)⟩] 2 3 = .err .few :=
  (recover_too_few_bn256 true 0 2 3 _ (by decide +kernel)).1

example : recoverSecret true (S := Zq Share.bn256Order)
    [some ⟨2, some 5⟩, some ⟨2, some 6⟩, some ⟨1, some 0⟩] 2 3 ≠ .panic .div0 :=
  (recover_never_panics_bn256 true 0 2 3 (by decide) _ [] .div0).1

example : CharGt (Zq Share.ed25519Order) 1000 := charGt_ed25519 1000 (by decide)

example : check (Zq Share.bn256Order) (commit ⟨0, fr⟩ (1 : Zq Share.bn256Order)) 2 (priEval fr 2) = true :=
  (check_iff_bn256 ⟨0, fr⟩ 1 (by decide) 2 _).2 rfl

end Dos.Props.C09Compose

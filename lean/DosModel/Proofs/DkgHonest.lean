/-
Honest key generation (C04): whatever sequence of GENUINE deals and responses a member's
`DistKeyGenerator` processes – any order, any repetition, any subset – every deal it stores is the
dealer's genuine deal for it; hence a finished member outputs the coefficient-wise sum of the
dealers' commitments and the sum of the dealers' polynomials at its own index.
-/
import DosModel.Proofs.DkgMember

set_option linter.unusedSectionVars false

namespace Dos.Dkg
open Dos Dos.Vss

variable {F G : Type} [Field F] [AddCommGroup G] [Module F G] [DecidableEq F] [DecidableEq G]

/-- the honest configuration of a group: long-term keys and dealer polynomials of all members -/
structure Cfg (F G : Type) where
  g : G
  longs : List F
  polys : List (List F)

def Cfg.n (c : Cfg F G) : Nat := c.longs.length
def Cfg.pubs (c : Cfg F G) : List G := c.longs.map (fun x => x • c.g)

/-- a genuine deal message: dealer `j`'s deal for some member `i'`, sealed by `j` -/
def GenuineDeal (c : Cfg F G) (m : DkgDeal F G) : Prop :=
  ∃ (j i' : Nat) (long eph : F) (f : List F) (rnd : Nat), c.longs[j]? = some long ∧ c.polys[j]? = some f ∧
    m = ⟨j, sealDeal c.g long c.pubs i' eph rnd (.deal (honestDeal c.g long c.pubs f i'))⟩

/-- every stored deal is the genuine one of that slot's dealer for this member -/
def StoredGenuine (c : Cfg F G) (d : Gen F G) : Prop :=
  ∀ j dl, dealAt d j = some dl → ∃ long f, c.longs[j]? = some long ∧ c.polys[j]? = some f ∧
    dl = honestDeal c.g long c.pubs f d.index

theorem sealed_plain {g : G} {long : F} {L : List G} {i : Nat} {eph : F} {rnd : Nat} {pt : Plain F G}
    {e : EncDeal F G} (h : sealDeal g long L i eph rnd pt = some e) (v : Verifier F G) (d : Deal F G)
    (hd : decryptDeal g v e = .ok d) : pt = .deal d := by
  obtain ⟨_, X, _, _, hc⟩ := (decryptDeal_ok_iff g v e d).1 hd
  unfold sealDeal at h
  split at h
  · cases h
  · injection h with h; subst h
    simp only [Cipher.seal.injEq] at hc
    exact hc.2.2.2

/-- `ProcessDeal` of a genuine deal keeps "all stored deals are genuine" -/
theorem processDeal_genuine (c : Cfg F G) (d : Gen F G) (m : DkgDeal F G) (hd : GoodGen0 c.g d)
    (hs : StoredGenuine c d) (hm : GenuineDeal c m) :
    StoredGenuine c (processDeal c.g d m).1 := by
  obtain ⟨j, i', long, eph, f, rnd, hlong, hf, hmeq⟩ := hm
  unfold processDeal
  rcases hp : d.participants[m.index]? with _ | pub
  · exact hs
  · have hjlt : m.index < d.participants.length := by
      rcases Nat.lt_or_ge m.index d.participants.length with h | h
      · exact h
      · rw [List.getElem?_eq_none h] at hp; cases hp
    simp only
    by_cases hex : (getVerifier d m.index).isSome = true
    · rw [if_pos hex]; exact hs
    · simp only [hex, if_false, Bool.false_eq_true]
      have hnone : getVerifier d m.index = none := by simpa using hex
      rcases hnv : newVerifier c.g d.long pub d.participants with err | ver
      · exact hs
      · obtain ⟨i, hi, hver⟩ := newVerifier_ok hnv
        have hii : i = d.index := by rw [hd.idx] at hi; injection hi with hi; exact hi.symm
        subst hii
        have hverf : ver.agg = none ∧ ver.index = d.index ∧ ver.vs = d.participants := by
          subst hver; exact ⟨rfl, rfl, rfl⟩
        obtain ⟨hva, hvi, hvv⟩ := hverf
        have hjv : m.index < d.verifiers.length := by rw [hd.len]; exact hjlt
        -- storing a verifier `w` in the empty slot: genuine as long as `w`'s deal is
        have key : ∀ w : Verifier F G, (∀ a dl, w.agg = some a → a.deal = some dl →
            dl = honestDeal c.g long c.pubs f d.index) → StoredGenuine c (setVerifier d m.index w) := by
          intro w hw k dl hk
          have hidx : (setVerifier d m.index w).index = d.index := (setVerifier_frame d m.index w).2.1
          rw [hidx]
          unfold dealAt at hk
          rw [getVerifier_set d m.index k w hjv] at hk
          by_cases hmk : m.index = k
          · simp only [hmk, if_true, Option.bind_some] at hk
            rcases hwa : w.agg with _ | a
            · simp [hwa] at hk
            · simp only [hwa, Option.bind_some] at hk
              have := hw a dl hwa hk
              have hjk : j = k := by rw [← hmk, hmeq]
              exact ⟨long, f, by rw [← hjk]; exact hlong, by rw [← hjk]; exact hf, this⟩
          · simp only [hmk, if_false] at hk
            exact hs k dl hk
        rcases hdeal : m.deal with _ | e
        · exact key ver (by intro a dl ha; rw [hva] at ha; cases ha)
        · simp only
          rcases pe_fresh c.g ver e 0 hva (by rw [hvi, hvv]; exact hd.lt) with ⟨err, herr⟩ | ⟨dl, r, a, hdec, hpe, _, _, _, _, hshare, _, _, _, _, _, h6, _⟩
          · rw [herr]; exact key ver (by intro a dl ha; rw [hva] at ha; cases ha)
          · rw [hpe]
            simp only
            -- the opened deal is the sealed plaintext, and its share index is this member's
            have hsealed : sealDeal c.g long c.pubs i' eph rnd (.deal (honestDeal c.g long c.pubs f i')) = some e := by
              rw [hmeq] at hdeal; exact hdeal
            have hpt := sealed_plain hsealed ver dl hdec
            injection hpt with hpt
            have hi' : (i' : Int) = (d.index : Int) := by
              have := hshare ⟨(i' : Int), some (priEval f (i' : Int))⟩ (by rw [← hpt]; rfl)
              simpa [hvi] using this
            have hi'' : i' = d.index := by exact_mod_cast hi'
            have hstored : ∀ a2 dl2, (({ ver with agg := some a } : Verifier F G).unsafeSetResponse m.index true).agg = some a2 →
                a2.deal = some dl2 → dl2 = honestDeal c.g long c.pubs f d.index := by
              intro a2 dl2 ha2 hdl2
              rcases unsafeSet_agg ({ ver with agg := some a } : Verifier F G) m.index a rfl with hu | ⟨a', hu, _, _, ha'⟩
              · rw [hu] at ha2; injection ha2 with ha2; subst ha2
                rcases h6 with h6 | h6
                · rw [h6] at hdl2; cases hdl2
                · rw [h6] at hdl2; injection hdl2 with hdl2; rw [← hdl2, ← hpt, hi'']
              · rw [hu] at ha2; injection ha2 with ha2; subst ha2
                rw [ha'] at hdl2
                rcases h6 with h6 | h6
                · rw [h6] at hdl2; cases hdl2
                · rw [h6] at hdl2; injection hdl2 with hdl2; rw [← hdl2, ← hpt, hi'']
            exact key _ hstored

/-- `ProcessResponse` never changes a stored deal -/
theorem processResponse_genuine (c : Cfg F G) (d : Gen F G) (m : DkgResp F G) (hd : GoodGen c.g d)
    (hs : StoredGenuine c d) : StoredGenuine c (processResponse c.g d m).1 := by
  intro j dl hj
  rw [(processResponse_frame c.g d m).2.1]
  rcases processResponse_rel c.g d m hd j with h | ⟨v, a, a2, hb, hva, haf, _, hdl, _, _, _⟩
  · apply hs j dl
    unfold dealAt at hj ⊢; rw [h] at hj; exact hj
  · apply hs j dl
    unfold dealAt at hj ⊢
    rw [haf] at hj
    simp only [Option.bind_some] at hj
    rw [hb]; simp only [Option.bind_some, hva]
    rw [← hdl]; exact hj

/-- **what a finished honest member outputs**: with all stored deals genuine, `DistKeyShare()` returns
the sum of all dealers' commitment vectors and the sum of all dealers' polynomials at the own index. -/
theorem finished_genuine (c : Cfg F G) (d : Gen F G) (ks : KeyShare F G) (hlen : d.verifiers.length = d.participants.length)
    (hn : d.participants.length = c.n) (hpl : c.polys.length = c.n) (hs : StoredGenuine c d)
    (h : distKeyShare d = .ok ks) :
    ks.commits = vecSum (c.polys.map (commit c.g)) ∧
    ks.shareV = (c.polys.map (fun f => priEval f (d.index : Int))).sum ∧ ks.shareI = d.index := by
  obtain ⟨_, hslots, hcom, _, hsh, hi, _⟩ := distKeyShare_spec d ks hlen h
  have hat : ∀ j, j < c.n → ∃ long f, c.polys[j]? = some f ∧ dealAt d j = some (honestDeal c.g long c.pubs f d.index) := by
    intro j hj
    obtain ⟨v, a, dl, _, _, hv, hagg, hdl, _, _⟩ := hslots j (by rw [hn]; exact hj)
    have hda : dealAt d j = some dl := by simp [dealAt, hv, hagg, hdl]
    obtain ⟨long, f, _, hf, hdeq⟩ := hs j dl hda
    exact ⟨long, f, hf, by rw [hda, hdeq]⟩
  have hrange : ∀ {α : Type} (φ : Nat → α) (ψ : List F → α), (∀ j f, c.polys[j]? = some f → j < c.n → φ j = ψ f) →
      (List.range c.n).map φ = c.polys.map ψ := by
    intro α φ ψ hφ
    apply List.ext_getElem
    · simp [hpl]
    · intro k h1 h2
      simp only [List.getElem_map, List.getElem_range]
      have hk : k < c.n := by simpa using h1
      have hk2 : k < c.polys.length := by rw [hpl]; exact hk
      exact hφ k c.polys[k] (List.getElem?_eq_getElem hk2) hk
  refine ⟨?_, ?_, hi⟩
  · rw [hcom, hn]
    congr 1
    apply hrange
    intro j f hf hj
    obtain ⟨long, f', hf', hda⟩ := hat j hj
    rw [hf] at hf'; injection hf' with hf'; subst hf'
    simp [commitsAt, hda, honestDeal]
  · rw [hsh, hn]
    congr 1
    apply hrange
    intro j f hf hj
    obtain ⟨long, f', hf', hda⟩ := hat j hj
    rw [hf] at hf'; injection hf' with hf'; subst hf'
    simp [valAt, hda, valOf, honestDeal]

end Dos.Dkg

/-
C10 round 5 (review F #8) — point.go's `PairingCheck(a, b []kyber.Point)` on slices of ARBITRARY lengths, with the
length mismatch as an explicit outcome instead of a `List.zip` that hides it:

    for i := range a { … a[i] … b[i] … }

* len(b) < len(a): the first index without a partner, i = len(b), is a Go run-time panic
  "index out of range [len(b)] with length len(b)" — nothing observable happened before (the accumulator is local);
* len(a) ≤ len(b): the elements b[len(a)..] are never read; the result is the check of the first len(a) pairs.
Core Lean only (the driver links it). Props/C10GT.lean ties it to the translation (`pointGT_pairingCheck`).
-/
import DosModel.Model.Bn256CPairing

namespace Dos.Bn256

/-- what a call of PairingCheck does -/
inductive CheckOutcome
  /-- Go panic: index out of range [index] with length len -/
  | panicIndex (index len : Nat)
  | value (v : Bool)
  deriving DecidableEq, Repr

def pairingCheckSlices (a : List G1J) (b : List G2J) : CheckOutcome :=
  if b.length < a.length then .panicIndex b.length b.length
  else .value (pairingCheck (List.zip a (b.take a.length)))

/-- the observable the correspondence run compares: `none` = the call panicked -/
def CheckOutcome.toOption : CheckOutcome → Option Bool
  | .panicIndex _ _ => none
  | .value v => some v

end Dos.Bn256

/-
C10 round 5 — the line functions and the shape of the Miller loop (optate.go), about the TRANSLATED code
(`Gen/Bn256Code.lean`: lineFunctionAdd, lineFunctionDouble, mulLine, miller), over every commutative ring / field.

* closed forms of the coefficients (a, b, c) and of rOut, from the translated straight-line code, by `ring`
  (hypotheses exactly what the caller maintains: r.t = r.z², r2 = p.y²);
* `mulLine ret a b c = ret · (a·τω + b·ω + c)`: the sparse multiplication is multiplication by the gfP12 element
  `lineElem a b c`;
* that element is — up to the factor 2·Z₃ (resp. 2·Z₃·Z²) of the subfield gfP2 — the LINE through the untwisted
  points ψ(R), ψ(P) (resp. the tangent at ψ(R)), ψ(x, y) = (x·ω², y·ω³), evaluated at the G1 point (x_Q, y_Q):
  y_Q − y_P·ω³ − λω·(x_Q − x_P·ω²) for every λ with λ·Z₃ = L₁ (the chord slope in Jacobian coordinates);
* the translated Miller loop (265 unrolled lets) IS the fold over the regenerated digits of 6u+2 in NAF form of
  "square, multiply by the tangent line, on a non-zero digit multiply by the chord line", followed by the two
  Frobenius-twisted additions.
Bilinearity of the resulting map is NOT proved (no divisor / pairing theory in Mathlib).
-/
import Mathlib.Tactic.Ring
import Mathlib.Tactic.LinearCombination
import DosModel.Proofs.Bn256Tower12
import DosModel.Proofs.Bn256Code
import DosModel.Gen.Bn256Code
import DosModel.Gen.Bn256Consts

set_option linter.unusedSectionVars false

namespace Dos.Bn256
open Dos.Gen Dos.Gen.Bn256Code

section ring
variable {K : Type} [CommRing K]

theorem g2_mul : @gfP2_mul K _ _ _ = Fp2.mul := rfl
theorem g2_add : @gfP2_add K _ = Fp2.add := rfl
theorem g2_sub : @gfP2_sub K _ = Fp2.sub := rfl
theorem g2_neg : @gfP2_neg K _ = Fp2.neg := rfl
theorem g2_square : @gfP2_square K _ _ _ = Fp2.square := rfl
theorem g2_mulScalar : @gfP2_mulScalar K _ = Fp2.mulScalar := rfl

/-- the gfP12 element a·τω + b·ω + c that mulLine multiplies by -/
def lineElem (a b c : Fp2 K) : Fp12 K := ⟨⟨0, a, b⟩, ⟨0, 0, c⟩⟩

/-- gfP2 inside gfP12 -/
def iota (c : Fp2 K) : Fp12 K := ⟨0, ⟨0, 0, c⟩⟩

theorem fp6_zero_coords : ((0 : Fp6 K).x = 0) ∧ ((0 : Fp6 K).y = 0) ∧ ((0 : Fp6 K).z = 0) := ⟨rfl, rfl, rfl⟩

/-- **mulLine is the multiplication by the line element** -/
theorem mulLine_eq_mul (ret : Fp12 K) (a b c : Fp2 K) : Bn256Code.mulLine ret a b c = ret * lineElem a b c := by
  rw [← Fp12.mul_eq, Fp12.mul_eq_spec]
  have z2 : ((⟨0, 0⟩ : Fp2 K)) = 0 := rfl
  have hA : (⟨0, a, b + c⟩ : Fp6 K) = ⟨0, a, b⟩ + Fp6.ofBase c := by
    rw [← Fp6.add_eq]
    refine Fp6.ext' ?_ ?_ ?_ <;> simp only [Fp6.add, Fp6.ofBase, Fp2.add_eq] <;> ring
  have hB : (⟨0, 0, c⟩ : Fp6 K) = Fp6.ofBase c := rfl
  refine Fp12.ext' ?_ ?_ <;>
    simp only [Bn256Code.mulLine, show @gfP2_set K = fun a => a from rfl, show @gfP6_set K = fun a => a from rfl,
      show @gfP2_add K _ = Fp2.add from rfl, Fp2.add_eq, z2,
      show @gfP6_mul K _ _ _ = Fp6.mul from rfl, show @gfP6_add K _ = Fp6.add from rfl,
      show @gfP6_sub K _ = Fp6.sub from rfl, show @gfP6_mulTau K _ _ = Fp6.mulTau from rfl,
      show @gfP6_mulScalar K _ _ _ = Fp6.mulScalar from rfl,
      Fp6.mulScalar_eq, Fp6.mul_eq, Fp6.add_eq, Fp6.sub_eq, Fp6.mulTau_eq', hA, hB, Fp12.mulSpec, lineElem] <;>
    ring

/-! ### closed forms of the coefficients -/

/-- **lineFunctionAdd**: with X, Y, Z = r.x, r.y, r.z, t = Z², r2 = y_P²:
H = x_P·Z² − X, L₁ = 2(y_P·Z³ − Y), Z₃ = 2·Z·H;
a = 2(L₁·x_P − y_P·Z₃), b = −2·L₁·x_Q, c = 2·Z₃·y_Q; rOut = (L₁² − 4H³ − 8X·H², …, Z₃, Z₃²) (mixed addition) -/
theorem lineFunctionAdd_closed (r p : Jac (Fp2 K)) (q : Jac K) (r2 : Fp2 K) (ht : r.t = r.z * r.z)
    (h2 : r2 = p.y * p.y) :
    let H := p.x * (r.z * r.z) - r.x
    let L1 := 2 * (p.y * (r.z * r.z * r.z) - r.y)
    let Z3 := 2 * r.z * H
    (lineFunctionAdd r p q r2).1 = 2 * (L1 * p.x - p.y * Z3) ∧
    (lineFunctionAdd r p q r2).2.1 = -(2 * L1 * Fp2.ofBase q.x) ∧
    (lineFunctionAdd r p q r2).2.2.1 = 2 * Z3 * Fp2.ofBase q.y ∧
    (lineFunctionAdd r p q r2).2.2.2.z = Z3 ∧
    (lineFunctionAdd r p q r2).2.2.2.t = Z3 * Z3 ∧
    (lineFunctionAdd r p q r2).2.2.2.x = L1 * L1 - 4 * (H * H * H) - 8 * (r.x * (H * H)) ∧
    (lineFunctionAdd r p q r2).2.2.2.y =
      (4 * (r.x * (H * H)) - (L1 * L1 - 4 * (H * H * H) - 8 * (r.x * (H * H)))) * L1 - 8 * (r.y * (H * H * H)) := by
  intro H L1 Z3
  simp only [lineFunctionAdd, g2_mul, g2_add, g2_sub, g2_square, g2_neg, g2_mulScalar, Fp2.mul_eq,
    Fp2.add_eq, Fp2.sub_eq, Fp2.neg_eq, Fp2.square_eq, Fp2.mulScalar_eq, ht, h2, H, L1, Z3]
  refine ⟨?_, ?_, ?_, ?_, ?_, ?_, ?_⟩ <;> ring

/-- **lineFunctionDouble**: E = 3X², Z₃ = 2·Y·Z; a = 2·E·X − 4·Y², b = −2·E·Z²·x_Q, c = 2·Z₃·Z²·y_Q;
rOut = (E² − 8XY², E·(12XY² − E²) − 8Y⁴, Z₃, Z₃²) (Jacobian doubling, a = 0) -/
theorem lineFunctionDouble_closed (r : Jac (Fp2 K)) (q : Jac K) (ht : r.t = r.z * r.z) :
    let E := 3 * (r.x * r.x)
    let Z3 := 2 * r.y * r.z
    (lineFunctionDouble r q).1 = 2 * (E * r.x) - 4 * (r.y * r.y) ∧
    (lineFunctionDouble r q).2.1 = -(2 * (E * (r.z * r.z)) * Fp2.ofBase q.x) ∧
    (lineFunctionDouble r q).2.2.1 = 2 * (Z3 * (r.z * r.z)) * Fp2.ofBase q.y ∧
    (lineFunctionDouble r q).2.2.2.z = Z3 ∧
    (lineFunctionDouble r q).2.2.2.t = Z3 * Z3 ∧
    (lineFunctionDouble r q).2.2.2.x = E * E - 8 * (r.x * (r.y * r.y)) ∧
    (lineFunctionDouble r q).2.2.2.y =
      E * (12 * (r.x * (r.y * r.y)) - E * E) - 8 * (r.y * r.y * (r.y * r.y)) := by
  intro E Z3
  simp only [lineFunctionDouble, g2_mul, g2_add, g2_sub, g2_square, g2_neg, g2_mulScalar, Fp2.mul_eq,
    Fp2.add_eq, Fp2.sub_eq, Fp2.neg_eq, Fp2.square_eq, Fp2.mulScalar_eq, ht, E, Z3]
  refine ⟨?_, ?_, ?_, ?_, ?_, ?_, ?_⟩ <;> ring

/-! ### the line element is the line through the untwisted points -/

theorem iota_mul (c d : Fp2 K) : iota (c * d) = iota c * iota d := by
  rw [← Fp12.mul_eq, Fp12.mul_eq_spec]
  refine Fp12.ext' ?_ ?_
  · refine Fp6.ext' ?_ ?_ ?_ <;>
      simp only [iota, Fp12.mulSpec, ← Fp6.mul_eq, ← Fp6.add_eq, Fp6.mul_eq_spec, Fp6.mulSpec, Fp6.add, Fp2.add_eq,
        fp6_zero_coords, Fp6.tau] <;> ring
  · refine Fp6.ext' ?_ ?_ ?_ <;>
      simp only [iota, Fp12.mulSpec, ← Fp6.mul_eq, ← Fp6.add_eq, Fp6.mul_eq_spec, Fp6.mulSpec, Fp6.add, Fp2.add_eq,
        fp6_zero_coords, Fp6.tau] <;> ring

/-- ω, ω², ω³ in coordinates: ω = (1)ω + 0, ω² = τ, ω³ = τω -/
def omega1 : Fp12 K := ⟨⟨0, 0, 1⟩, 0⟩
def omega2 : Fp12 K := ⟨0, ⟨0, 1, 0⟩⟩
def omega3 : Fp12 K := ⟨⟨0, 1, 0⟩, 0⟩

theorem omega_powers : (omega1 : Fp12 K) * omega1 = omega2 ∧ (omega2 : Fp12 K) * omega1 = omega3 ∧
    (omega3 : Fp12 K) * omega3 = iota Fp2.xi := by
  refine ⟨?_, ?_, ?_⟩ <;> rw [← Fp12.mul_eq, Fp12.mul_eq_spec] <;> refine Fp12.ext' ?_ ?_ <;>
    refine Fp6.ext' ?_ ?_ ?_ <;>
    simp only [omega1, omega2, omega3, iota, Fp12.mulSpec, ← Fp6.mul_eq, ← Fp6.add_eq, Fp6.mul_eq_spec, Fp6.mulSpec,
      Fp6.add, Fp2.add_eq, fp6_zero_coords, Fp6.tau] <;> ring

/-- the line element in the basis 1, ω, ω³ -/
theorem lineElem_eq (a b c : Fp2 K) : lineElem a b c = iota a * omega3 + iota b * omega1 + iota c := by
  have e : ∀ x y : Fp12 K, x + y = Fp12.add x y := fun _ _ => rfl
  rw [e, e, ← Fp12.mul_eq, ← Fp12.mul_eq, Fp12.mul_eq_spec, Fp12.mul_eq_spec]
  refine Fp12.ext' ?_ ?_ <;> refine Fp6.ext' ?_ ?_ ?_ <;>
    simp only [lineElem, omega1, omega3, iota, Fp12.add, Fp12.mulSpec, ← Fp6.mul_eq, ← Fp6.add_eq, Fp6.mul_eq_spec,
      Fp6.mulSpec, Fp6.add, Fp2.add_eq, fp6_zero_coords, Fp6.tau] <;> ring

/-- **the chord**: for every λ with λ·Z₃ = L₁ — the slope of the chord through R = (X/Z², Y/Z³) and P in Jacobian
form — the line element of lineFunctionAdd is 2·Z₃ times the line through ψ(P) with slope λ·ω evaluated at
(x_Q, y_Q): y_Q − y_P·ω³ − λω·(x_Q − x_P·ω²) -/
theorem lineFunctionAdd_is_chord (r p : Jac (Fp2 K)) (q : Jac K) (r2 lam : Fp2 K) (ht : r.t = r.z * r.z)
    (h2 : r2 = p.y * p.y)
    (hl : lam * (2 * r.z * (p.x * (r.z * r.z) - r.x)) = 2 * (p.y * (r.z * r.z * r.z) - r.y)) :
    lineElem (lineFunctionAdd r p q r2).1 (lineFunctionAdd r p q r2).2.1 (lineFunctionAdd r p q r2).2.2.1 =
      iota (2 * (2 * r.z * (p.x * (r.z * r.z) - r.x))) *
        (iota (Fp2.ofBase q.y) - iota p.y * omega3 -
          iota lam * omega1 * (iota (Fp2.ofBase q.x) - iota p.x * omega2)) := by
  obtain ⟨ha, hb, hc, -⟩ := lineFunctionAdd_closed r p q r2 ht h2
  rw [ha, hb, hc, lineElem_eq, ← hl]
  have h12 : (omega1 : Fp12 K) * omega2 = omega3 := by rw [mul_comm]; exact omega_powers.2.1
  simp only [neg_mul_eq_neg_mul]
  have im := @iota_mul K _
  have ineg : ∀ c : Fp2 K, iota (-c) = -iota c := by
    intro c
    have h0 : iota (0 : Fp2 K) = 0 := rfl
    have hadd : iota (-c) + iota c = 0 := by
      rw [← h0]
      show Fp12.add (iota (-c)) (iota c) = iota 0
      refine Fp12.ext' ?_ ?_ <;> refine Fp6.ext' ?_ ?_ ?_ <;>
        simp only [iota, Fp12.add, Fp6.add, Fp2.add_eq, fp6_zero_coords] <;> ring
    exact eq_neg_of_add_eq_zero_left hadd
  have isub : ∀ c d : Fp2 K, iota (c - d) = iota c - iota d := by
    intro c d
    have hadd : iota (c - d) + iota d = iota c := by
      show Fp12.add (iota (c - d)) (iota d) = iota c
      refine Fp12.ext' ?_ ?_ <;> refine Fp6.ext' ?_ ?_ ?_ <;>
        simp only [iota, Fp12.add, Fp6.add, Fp2.add_eq, fp6_zero_coords] <;> ring
    exact eq_sub_of_add_eq hadd
  simp only [im, ineg, isub]
  rw [← h12]
  ring

/-- **the tangent**: for affine coordinates x_R·Z² = X, y_R·Z³ = Y of R and every λ with λ·Z₃ = 3X² (the tangent
slope 3x_R²/(2y_R) in Jacobian form), the line element of lineFunctionDouble is 2·Z₃·Z² times the tangent at ψ(R)
evaluated at (x_Q, y_Q) -/
theorem lineFunctionDouble_is_tangent (r : Jac (Fp2 K)) (q : Jac K) (xR yR lam : Fp2 K) (ht : r.t = r.z * r.z)
    (hx : xR * (r.z * r.z) = r.x) (hy : yR * (r.z * r.z * r.z) = r.y)
    (hl : lam * (2 * r.y * r.z) = 3 * (r.x * r.x)) :
    lineElem (lineFunctionDouble r q).1 (lineFunctionDouble r q).2.1 (lineFunctionDouble r q).2.2.1 =
      iota (2 * (2 * r.y * r.z * (r.z * r.z))) *
        (iota (Fp2.ofBase q.y) - iota yR * omega3 -
          iota lam * omega1 * (iota (Fp2.ofBase q.x) - iota xR * omega2)) := by
  obtain ⟨ha, hb, hc, -⟩ := lineFunctionDouble_closed r q ht
  rw [ha, hb, hc, lineElem_eq, ← hl]
  have h12 : (omega1 : Fp12 K) * omega2 = omega3 := by rw [mul_comm]; exact omega_powers.2.1
  have im := @iota_mul K _
  have isub : ∀ c d : Fp2 K, iota (c - d) = iota c - iota d := by
    intro c d
    have hadd : iota (c - d) + iota d = iota c := by
      show Fp12.add (iota (c - d)) (iota d) = iota c
      refine Fp12.ext' ?_ ?_ <;> refine Fp6.ext' ?_ ?_ ?_ <;>
        simp only [iota, Fp12.add, Fp6.add, Fp2.add_eq, fp6_zero_coords] <;> ring
    exact eq_sub_of_add_eq hadd
  have ineg : ∀ c : Fp2 K, iota (-c) = -iota c := by
    intro c
    have := isub 0 c
    rw [zero_sub] at this
    rw [this]
    show _ = -iota c
    have h0 : iota (0 : Fp2 K) = 0 := rfl
    rw [h0, zero_sub]
  -- a = 2·λ·Z₃·X − 4·Y·Y with X = x_R·Z², Y = y_R·Z³
  have hA : 2 * (lam * (2 * r.y * r.z) * r.x) - 4 * (r.y * r.y) =
      2 * (2 * r.y * r.z * (r.z * r.z)) * (lam * xR - yR) := by
    rw [← hx, ← hy]; ring
  rw [hA]
  simp only [im, ineg, isub]
  rw [← h12]
  ring

end ring

/-! ### the Miller loop as a fold over the NAF digits -/
section fold
variable {K : Type} [Field K] [DecidableEq K]

/-- one iteration of optate.go's loop `for i := len(sixuPlus2NAF) - 1; i > 0; i--`: tangent line at r (the accumulator
is squared except in the first iteration), then on digit ±1 the chord through r and ±Q -/
def millerStep (aAff minusA : Jac (Fp2 K)) (bAff : Jac K) (r2 : Fp2 K) (first : Bool) (digit : Int)
    (st : Fp12 K × Jac (Fp2 K)) : Fp12 K × Jac (Fp2 K) :=
  let l := lineFunctionDouble st.2 bAff
  let ret := if first then st.1 else gfP12_square st.1
  let ret := Bn256Code.mulLine ret l.1 l.2.1 l.2.2.1
  if digit = 1 then
    let l2 := lineFunctionAdd l.2.2.2 aAff bAff r2
    (Bn256Code.mulLine ret l2.1 l2.2.1 l2.2.2.1, l2.2.2.2)
  else if digit = -1 then
    let l2 := lineFunctionAdd l.2.2.2 minusA bAff r2
    (Bn256Code.mulLine ret l2.1 l2.2.1 l2.2.2.1, l2.2.2.2)
  else (ret, l.2.2.2)

/-- optate.go's `miller` as a fold over a digit list (`naf` = sixuPlus2NAF, least significant digit first, as in
constants.go) -/
def millerFold (cs : FrobConsts K) (naf : List Int) (q : Jac (Fp2 K)) (p : Jac K) : Fp12 K :=
  let aAff := twistPoint_makeAffine q
  let bAff := curvePoint_makeAffine p
  let minusA := twistPoint_neg aAff
  let r2 := gfP2_square aAff.y
  let digits := (naf.take (naf.length - 1)).reverse
  let st := match digits with
    | [] => ((gfP12_setOne : Fp12 K), aAff)
    | d :: ds => ds.foldl (fun st d => millerStep aAff minusA bAff r2 false d st)
        (millerStep aAff minusA bAff r2 true d (gfP12_setOne, aAff))
  let q1 : Jac (Fp2 K) := ⟨gfP2_mul (gfP2_conjugate aAff.x) cs.xiToPMinus1Over3,
    gfP2_mul (gfP2_conjugate aAff.y) cs.xiToPMinus1Over2, gfP2_setOne, gfP2_setOne⟩
  let minusQ2 : Jac (Fp2 K) := ⟨gfP2_mulScalar aAff.x cs.xiToPSquaredMinus1Over3, aAff.y, gfP2_setOne, gfP2_setOne⟩
  let l := lineFunctionAdd st.2 q1 bAff (gfP2_square q1.y)
  let ret := Bn256Code.mulLine st.1 l.1 l.2.1 l.2.2.1
  let l' := lineFunctionAdd l.2.2.2 minusQ2 bAff (gfP2_square minusQ2.y)
  Bn256Code.mulLine ret l'.1 l'.2.1 l'.2.2.1

/-- each step multiplies the (squared) accumulator by the line elements -/
theorem millerStep_spec (aAff minusA : Jac (Fp2 K)) (bAff : Jac K) (r2 : Fp2 K) (digit : Int)
    (st : Fp12 K × Jac (Fp2 K)) :
    let l := lineFunctionDouble st.2 bAff
    let tangent := lineElem l.1 l.2.1 l.2.2.1
    (millerStep aAff minusA bAff r2 false digit st).1 =
      if digit = 1 then
        st.1 * st.1 * tangent * (let l2 := lineFunctionAdd l.2.2.2 aAff bAff r2; lineElem l2.1 l2.2.1 l2.2.2.1)
      else if digit = -1 then
        st.1 * st.1 * tangent * (let l2 := lineFunctionAdd l.2.2.2 minusA bAff r2; lineElem l2.1 l2.2.1 l2.2.2.1)
      else st.1 * st.1 * tangent := by
  intro l tangent
  have hsq : gfP12_square st.1 = st.1 * st.1 := Fp12.square_eq st.1
  unfold millerStep
  by_cases h1 : digit = 1
  · simp only [h1, if_true, Bool.false_eq_true, if_false, mulLine_eq_mul, hsq, l, tangent]
  · by_cases h2 : digit = -1
    · have hne : ¬ ((-1 : Int) = 1) := by decide
      subst h2
      simp only [hne, if_true, Bool.false_eq_true, if_false, mulLine_eq_mul, hsq, l, tangent]
    · simp only [h1, h2, Bool.false_eq_true, if_false, mulLine_eq_mul, hsq, l, tangent]

end fold
end Dos.Bn256

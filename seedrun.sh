#!/bin/sh
# seedrun.sh <tag> <Cxx> <srcdir> "<demo cmd>" [check ids…] : runs seedtest.sh, logs to work/seedres, prints a one-line summary
TAG=$1; id=$2; src=$3; demo=$4; shift 4
mkdir -p /verif/work/seedres
L=/verif/work/seedres/$TAG.log
/verif/seedtest.sh $id $src "$demo" $@ > $L 2>&1
echo "### $TAG: demo-clean $(grep -A1 '== demo on clean' $L | tail -1) | demo-mut $(grep -A1 '== demo with change' $L | tail -1) | suite $(grep suite-exit $L) | $(grep -c '^VIOLATION' $L) VIOLATION | $(grep ' quick: ' $L | tr '\n' ';') $(grep 'PATCH DOES NOT' $L)"

/-
C14 — executable exploration of a pipeline IR (driver side of the tie; core Lean only).

A *scenario* is a pipeline in which some goroutines are scripted stand-ins for the test
harness (feeders of the input channels, consumers of the outputs) plus one **controller**
goroutine whose steps are taken only when nothing else can move (the harness waits for
quiescence before it cancels the context / releases its feeders).  Timer alternatives
(30 min watchdog, 60 s idle timer, ...) never fire within a scenario.

`outcomes` explores every schedule and every `select` choice exhaustively and returns the set
of final observations, in the same canonical form the Go harness prints.
-/
import DosModel.Model.PipeSem
import Std.Data.HashSet

namespace Dos.Pipe

structure Scenario where
  p : Pipeline
  controller : Option Gi := none
  /-- goroutines whose survival is reported (the code under test), by index -/
  watched : List Gi := []
  /-- channels whose final closed/open state is reported -/
  observed : List Ch := []
  deriving Inhabited

def Ev.isTick : Ev → Bool
  | .act _ .tick => true
  | _ => false

def Ev.isEnv : Ev → Bool
  | .env _ => true
  | _ => false

def Ev.gor : Ev → Option Gi
  | .act g _ => some g
  | .sync g _ _ => some g
  | .exit g => some g
  | .env _ => none

/-- steps of a scenario: no environment cancellation (the controller does it), no timers;
    the controller moves only at quiescence -/
def Scenario.steps (sc : Scenario) (s : State) : List (Ev × Cfg) :=
  let all := (succs sc.p s).filter (fun x => !x.1.isTick && !x.1.isEnv)
  match sc.controller with
  | none => all
  | some c =>
    let others := all.filter (fun x => x.1.gor != some c)
    if others.isEmpty then all else others

/-- base name of a goroutine for the report: `pkg.func` of `pkg.func.closure` -/
def baseName (s : String) : String :=
  match s.splitOn "." with
  | a :: b :: _ => a ++ "." ++ b
  | _ => s

def insertSorted (x : String) : List String → List String
  | [] => [x]
  | y :: ys => if x ≤ y then x :: y :: ys else y :: insertSorted x ys

def sortStrings (l : List String) : List String := l.foldr insertSorted []

def countRuns : List String → List (String × Nat)
  | [] => []
  | x :: xs =>
    match countRuns xs with
    | (y, n) :: rest => if x == y then (y, n + 1) :: rest else (x, 1) :: (y, n) :: rest
    | [] => [(x, 1)]

/-- canonical observation of a final state: leaked goroutines of the code under test
    (grouped by function) and the state of the observed channels -/
def Scenario.observe (sc : Scenario) (s : State) : String :=
  let alive := sc.watched.filterMap fun g =>
    match s.gs[g]? with
    | some (GSt.at _) => some (baseName (sc.p.gname g))
    | _ => none
  let leaks := (countRuns (sortStrings alive)).map fun x => x.1 ++ "*" ++ toString x.2
  let chans := sc.observed.map fun c => sc.p.cname c ++ (if s.closed c then ":closed" else ":open")
  "leak=" ++ (if leaks.isEmpty then "-" else String.intercalate "," leaks) ++
  " chans=" ++ (if chans.isEmpty then "-" else String.intercalate "," chans)

def CrashKind.show (_p : Pipeline) : CrashKind → String
  | .sendClosed _ => "send-on-closed"
  | .closeClosed _ => "close-of-closed"
  | .wgNegative _ => "negative-waitgroup"

structure Explored where
  finals : List String      -- observations of the terminal states and crashes, sorted, distinct
  states : Nat
  truncated : Bool

/-- exhaustive exploration (breadth first, hashed visited set) -/
partial def Scenario.exploreFrom (sc : Scenario) (s0 : State) (limit : Nat := 2000000) : Explored :=
  let rec go (work : List State) (seen : Std.HashSet State) (outs : Std.HashSet String) (n : Nat) :
      Std.HashSet String × Nat × Bool :=
    match work with
    | [] => (outs, n, false)
    | s :: rest =>
      if n ≥ limit then (outs, n, true) else
      let st := sc.steps s
      if st.isEmpty then go rest seen (outs.insert (sc.observe s)) (n + 1) else
      let (work', seen', outs') := st.foldl (fun (acc : List State × Std.HashSet State × Std.HashSet String) x =>
        match x.2 with
        | .run s' => if acc.2.1.contains s' then acc else (s' :: acc.1, acc.2.1.insert s', acc.2.2)
        | .crash k g _ => (acc.1, acc.2.1, acc.2.2.insert ("crash=" ++ k.show sc.p ++ "@" ++ baseName (sc.p.gname g))))
        (rest, seen, outs)
      go work' seen' outs' (n + 1)
  let (outs, n, tr) := go [s0] (Std.HashSet.emptyWithCapacity 1024 |>.insert s0) {} 0
  { finals := sortStrings outs.toList, states := n, truncated := tr }

def Scenario.explore (sc : Scenario) : Explored := sc.exploreFrom (init sc.p)

def Scenario.outcomes (sc : Scenario) : String :=
  let e := sc.explore
  (if e.truncated then "TRUNCATED " else "") ++ String.intercalate " | " e.finals

/-! ### building scenarios: scripted harness goroutines -/

/-- feeder of channel `c`: `prog` is a string over `s` (send one value) and `c` (close);
    a pending send is abandoned when the release context `rel` is done; a feeder whose program
    contains no `c` leaves the channel open -/
def feederNodes (c : Ch) (rel : Nat) (prog : List Char) : List Node :=
  let sends := (prog.filter (· == 's')).length
  let closes := prog.contains 'c'
  -- nodes 0..sends-1 : sends; node `sends` : close or wait for release; last : exit
  let tail : Pc := sends
  let sendNodes := (List.range sends).map fun i => Node.sel [.send c (i + 1), .ctx rel tail]
  if closes then sendNodes ++ [Node.close c (sends + 1), Node.exit]
  else sendNodes ++ [Node.sel [.ctx rel (sends + 1)], Node.exit]

inductive ConsMode where
  | all            -- reads until closed
  | ctx            -- reads until closed or context 0 is done
  | take (k : Nat) -- reads k values
  deriving DecidableEq, Repr, Inhabited

def consumerNodes (c : Ch) : ConsMode → List Node
  | .all => [Node.sel [.recv c 0 1], Node.exit]
  | .ctx => [Node.sel [.recv c 0 1, .ctx 0 1], Node.exit]
  | .take k => (List.range k).map (fun i => Node.sel [.recv c (i + 1) k]) ++ [Node.exit]

/-- controller: cancels the listed contexts one after the other, each at quiescence -/
def controllerNodes (ctxs : List Nat) : List Node :=
  (ctxs.zipIdx.map fun x => Node.cancel x.1 (x.2 + 1)) ++ [Node.exit]

def Alt.shift (k : Nat) : Alt → Alt
  | .recv c a b => .recv c (a + k) (b + k)
  | .send c n => .send c (n + k)
  | .ctx x n => .ctx x (n + k)
  | .tick n => .tick (n + k)
  | .dflt n => .dflt (n + k)

/-- the same node with every successor moved by `k` -/
def Node.shift (k : Nat) : Node → Node
  | .sel alts => .sel (alts.map (Alt.shift k))
  | .close c n => .close c (n + k)
  | .branch ns => .branch (ns.map (· + k))
  | .wgDone w n => .wgDone w (n + k)
  | .wgWait w n => .wgWait w (n + k)
  | .spawn g n => .spawn g (n + k)
  | .cancel x n => .cancel x (n + k)
  | .exit => .exit

def mkG (name : String) (nodes : List Node) (daemon : Bool := false) : Goroutine :=
  { name := name, nodes := nodes, sites := [], static := true, daemon := daemon }

/-- index of the `k`-th channel called `name` -/
def Pipeline.chanByName (p : Pipeline) (name : String) (k : Nat := 0) : Option Ch :=
  ((p.chans.zipIdx.filter (fun x => x.1.name == name)).map (·.2))[k]?

/-- goroutines called exactly `name`; `inst = some k`: only the k-th of them -/
def Pipeline.gsByName (p : Pipeline) (name : String) (inst : Option Nat) : List Gi :=
  let all := (p.gs.zipIdx.filter (fun x => x.1.name == name)).map (·.2)
  match inst with
  | none => all
  | some k => match all[k]? with
    | some g => [g]
    | none => []

/-- keep the goroutines in `keep` as they are; every other goroutine is replaced by a stub that
    is never started (indices stay valid), the harness goroutines are appended -/
def Pipeline.surgery (p : Pipeline) (keep : List Gi) (extra : List Goroutine) (nctx : Nat) : Pipeline :=
  { p with
    gs := (p.gs.zipIdx.map fun x => if keep.contains x.2 then x.1
            else { x.1 with nodes := [Node.exit], sites := [], conds := [], static := false }) ++ extra,
    nctx := nctx, rank := [] }

/-! ### scenarios from a structured description (driver lines, witness theorems) -/

/-- resolve a data-dependent decision: successors of branch nodes that stand for another outcome
    of the decision `site` (matched by `m`) are removed -/
def applyPick (m : String → String → Bool) (p : Pipeline) (keep : List Gi) (site : String) (i : Nat) : Pipeline :=
  { p with gs := p.gs.zipIdx.map fun x =>
      if !keep.contains x.2 then x.1 else
      -- successors and their decision lists are filtered TOGETHER (several picks may resolve one node)
      let keptAt (nd : Node × Nat) : List (Pc × List (String × Nat)) :=
        match nd.1 with
        | .branch ns =>
          let conds := match x.1.conds[nd.2]? with | some c => c | none => []
          ns.zipIdx.filterMap fun s =>
            let path := match conds[s.2]? with | some c => c | none => []
            if path.all (fun d => !m d.1 site || d.2 == i) then some (s.1, path) else none
        | _ => []
      { x.1 with
        nodes := x.1.nodes.zipIdx.map fun nd =>
          match nd.1 with
          | .branch _ => if (keptAt nd).isEmpty then nd.1 else .branch ((keptAt nd).map (·.1))
          | _ => nd.1
        conds := x.1.nodes.zipIdx.map fun nd =>
          let old := match x.1.conds[nd.2]? with | some c => c | none => []
          match nd.1 with
          | .branch _ => if (keptAt nd).isEmpty then old else (keptAt nd).map (·.2)
          | _ => old } }

inductive CtlOp where
  | feed (i : Nat) | go | cancel | release
  deriving DecidableEq, Repr, Inhabited

/-- a scenario line, parsed -/
structure Spec where
  keep : List (String × Option Nat)            -- goroutines under test (exact name, instance)
  feed : List ((String × Nat) × List Char)     -- channel (name, instance), program over `s` / `c`
  cons : List ((String × Nat) × ConsMode)
  ctl : List CtlOp                             -- harness script
  pick : List (String × Nat)                   -- decision text, branch
  obs : List (String × Nat)                    -- observed channels
  pre : Bool := false                          -- context already done at the start
  deriving Repr, Inhabited

/-- every name of the spec means something in the pipeline: each function under test has a
    goroutine, each channel exists, each named decision occurs in a goroutine under test.
    (`Scenario.ofSpec` is total; a spec that no longer resolves must not pass for a scenario.) -/
def Spec.resolves (m : String → String → Bool) (p0 : Pipeline) (sp : Spec) : Bool :=
  let keep := sp.keep.flatMap fun k => p0.gsByName k.1 k.2
  sp.keep.all (fun k => !(p0.gsByName k.1 k.2).isEmpty) &&
  sp.feed.all (fun s => (p0.chanByName s.1.1 s.1.2).isSome) &&
  sp.cons.all (fun s => (p0.chanByName s.1.1 s.1.2).isSome) &&
  sp.obs.all (fun s => (p0.chanByName s.1 s.2).isSome) && !sp.obs.isEmpty &&
  sp.pick.all (fun pk => keep.any fun g => match p0.gs[g]? with
    | some gr => gr.conds.any (fun c => c.any (fun path => path.any (fun d => m d.1 pk.1)))
    | none => false) &&
  sp.ctl.all (fun op => match op with
    | .feed i => decide (i < sp.feed.length)
    | _ => true)

/-- the scenario pipeline of a spec over a (regenerated) pipeline; `none`: a name does not resolve -/
def Scenario.ofSpec (m : String → String → Bool) (p0 : Pipeline) (sp : Spec) : Option Scenario :=
  let keep := sp.keep.flatMap fun k => p0.gsByName k.1 k.2
  let p1 := sp.pick.foldl (fun p s => applyPick m p keep s.1 s.2) p0
  let feeds := sp.feed.map fun s => (p1.chanByName s.1.1 s.1.2, s.2)
  let conss := sp.cons.map fun s => (p1.chanByName s.1.1 s.1.2, s.2)
  let obs := sp.obs.map fun s => p1.chanByName s.1 s.2
  if !sp.resolves m p0 then none else
  let rel := p1.nctx
  let gate (i : Nat) := p1.nctx + 1 + i
  let chOf (o : Option Ch) : Ch := match o with | some c => c | none => 0
  let feeders := feeds.zipIdx.map fun x =>
    -- gate, then the program (shifted by one node)
    mkG "harness.feeder" (Node.sel [.ctx (gate x.2) 1] :: (feederNodes (chOf x.1.1) rel x.1.2).map (Node.shift 1))
  let consumers := conss.map fun x => mkG "harness.consumer" (consumerNodes (chOf x.1) x.2)
  let goGate := gate feeds.length
  -- a context that is already done when the stage starts = cancel, then start, then the script
  let ctlOps := if sp.pre then [CtlOp.cancel] ++ (if sp.ctl.contains .go then [] else [CtlOp.go]) ++ sp.ctl else sp.ctl
  let gated := ctlOps.contains .go
  let ctlCtxs := ctlOps.map fun op => match op with
    | .cancel => 0 | .release => rel | .go => goGate | .feed i => gate i
  let ctl := mkG "harness.controller" (controllerNodes ctlCtxs)
  let extra := feeders ++ consumers ++ [ctl]
  -- `go` in the script: the code under test is started by the controller
  let gateG (x : Goroutine × Nat) : Goroutine :=
    if keep.contains x.2 && !x.1.daemon && x.1.static then
      { x.1 with nodes := Node.sel [.ctx goGate 1] :: x.1.nodes.map (Node.shift 1), sites := "start" :: x.1.sites,
                 conds := [] :: x.1.conds }
    else x.1
  let p1 : Pipeline := if gated then { p1 with gs := p1.gs.zipIdx.map gateG } else p1
  let p2 := p1.surgery keep extra (p1.nctx + 2 + feeds.length)
  some { p := p2, controller := some (p2.gs.length - 1),
         watched := keep.filter (fun g => match p2.gs[g]? with | some gr => !gr.daemon | none => false),
         observed := obs.filterMap id }

/-! ### a small verified breadth-first search (kernel-evaluable, for witness theorems) -/

def Scenario.next (sc : Scenario) (s : State) : List State :=
  (sc.steps s).filterMap fun x => match x.2 with
    | .run t => some t
    | .crash _ _ _ => none

def Scenario.crashes (sc : Scenario) (s : State) : List CrashKind :=
  (sc.steps s).filterMap fun x => match x.2 with
    | .run _ => none
    | .crash k _ _ => some k

/-- a number identifying a state (control states, queue lengths, closed flags, counters, context
    flags in positional notation); only used to recognise states already visited -/
def State.key (s : State) : Nat :=
  let a := s.gs.foldl (fun acc st => acc * 256 + (match st with | .idle => 0 | .done => 1 | .at pc => pc + 2)) 1
  let b := s.chs.foldl (fun acc c => (acc * 64 + c.len) * 2 + (if c.closed then 1 else 0)) a
  let c := s.wgs.foldl (fun acc w => acc * 64 + w) b
  s.ctxs.foldl (fun acc d => acc * 2 + (if d then 1 else 0)) c

def keepFresh : List State → List Nat → List State → List State × List Nat
  | [], keys, acc => (acc, keys)
  | t :: ts, keys, acc =>
    if keys.contains t.key then keepFresh ts keys acc else keepFresh ts (t.key :: keys) (acc ++ [t])

/-- states reachable by scenario steps from the frontier (fuel bounds the expansions); `keys`
    are the keys of the states already found, `found` the states themselves -/
def bfs (next : State → List State) : Nat → List State → List Nat → List State → List State
  | 0, _, _, found => found
  | _ + 1, [], _, found => found
  | fuel + 1, s :: rest, keys, found =>
    let r := keepFresh (next s) keys []
    bfs next fuel (rest ++ r.1) r.2 (found ++ r.1)

def Scenario.reachSet (sc : Scenario) (fuel : Nat) : List State :=
  bfs sc.next fuel [init sc.p] [(init sc.p).key] [init sc.p]

end Dos.Pipe

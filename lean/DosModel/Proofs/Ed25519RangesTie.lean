/-
C20 (round 2) — the program DATA emitted by go/extract/ed25519prog (Gen/Ed25519ScProg.lean) denotes exactly the
FUNCTIONS emitted by go/extract/ed25519sc (Gen/Ed25519Sc.lean), which is what every other C20 theorem is about:

  loads : `loadW id f_prog (rawVals [a, b, c]) = f_load shrI a b c`
  init  : `toL24 (initW id f_prog l) = f_init (l.getD 0 0) …`
  blocks: block by block, `toL24 (blockW id n b ρ) = f_b<k> shrI (toL24 ρ)`      (`Forall₂` over the two lists)
  store : `storeW id f_prog ρ = f_store shrI (toL24 ρ)`
  whole : `runW id f_prog [a, b, c] = f shrI a b c`

Every leaf is `Eq.refl`, checked by the kernel (evaluation of the interpreter on a symbolic environment; the
elaborator's `rfl` is too slow for this, the kernel needs < 1 s per block).  No block count, constant or index is
written here.  So the two independent translations of scalar.go agree, and the interval analysis, which runs on
the data, speaks about the functions.
-/
import Lean.Elab.Tactic
import Batteries.Data.List.Basic
import DosModel.Gen.Ed25519Sc
import DosModel.Gen.Ed25519ScProg

namespace Dos.Ed25519
open Dos Dos.IntervalProg Dos.IntervalProg.ScProg Dos.Gen.Ed25519Sc Dos.Gen.Ed25519ScProg List

open Lean Elab Tactic Meta in
/-- close `a = b` with `Eq.refl a`, type-checked by the kernel only (when the theorem is added) -/
elab "kernel_refl" : tactic => do
  let g ← getMainGoal
  let t ← instantiateMVars (← g.getType)
  match t.eq? with
  | some (_, a, _) => g.assign (← mkEqRefl a)
  | none => throwError "kernel_refl: the goal is not an equality"

/-- limbs s0 … s23 of an environment -/
def toL24 (ρ : Env) : L24 :=
  ⟨ρ.getD 0 0, ρ.getD 1 0, ρ.getD 2 0, ρ.getD 3 0, ρ.getD 4 0, ρ.getD 5 0, ρ.getD 6 0, ρ.getD 7 0,
   ρ.getD 8 0, ρ.getD 9 0, ρ.getD 10 0, ρ.getD 11 0, ρ.getD 12 0, ρ.getD 13 0, ρ.getD 14 0, ρ.getD 15 0,
   ρ.getD 16 0, ρ.getD 17 0, ρ.getD 18 0, ρ.getD 19 0, ρ.getD 20 0, ρ.getD 21 0, ρ.getD 22 0, ρ.getD 23 0⟩

/-- apply a function of 36 / 24 limb arguments to the entries of a list -/
def app36 {α : Type} (f : Int → Int → Int → Int → Int → Int → Int → Int → Int → Int → Int → Int →
    Int → Int → Int → Int → Int → Int → Int → Int → Int → Int → Int → Int →
    Int → Int → Int → Int → Int → Int → Int → Int → Int → Int → Int → Int → α) (l : List Int) : α :=
  f (l.getD 0 0) (l.getD 1 0) (l.getD 2 0) (l.getD 3 0) (l.getD 4 0) (l.getD 5 0) (l.getD 6 0) (l.getD 7 0) (l.getD 8 0) (l.getD 9 0) (l.getD 10 0) (l.getD 11 0) (l.getD 12 0) (l.getD 13 0) (l.getD 14 0) (l.getD 15 0) (l.getD 16 0) (l.getD 17 0) (l.getD 18 0) (l.getD 19 0) (l.getD 20 0) (l.getD 21 0) (l.getD 22 0) (l.getD 23 0) (l.getD 24 0) (l.getD 25 0) (l.getD 26 0) (l.getD 27 0) (l.getD 28 0) (l.getD 29 0) (l.getD 30 0) (l.getD 31 0) (l.getD 32 0) (l.getD 33 0) (l.getD 34 0) (l.getD 35 0)
def app24 {α : Type} (f : Int → Int → Int → Int → Int → Int → Int → Int → Int → Int → Int → Int →
    Int → Int → Int → Int → Int → Int → Int → Int → Int → Int → Int → Int → α) (l : List Int) : α :=
  f (l.getD 0 0) (l.getD 1 0) (l.getD 2 0) (l.getD 3 0) (l.getD 4 0) (l.getD 5 0) (l.getD 6 0) (l.getD 7 0) (l.getD 8 0) (l.getD 9 0) (l.getD 10 0) (l.getD 11 0) (l.getD 12 0) (l.getD 13 0) (l.getD 14 0) (l.getD 15 0) (l.getD 16 0) (l.getD 17 0) (l.getD 18 0) (l.getD 19 0) (l.getD 20 0) (l.getD 21 0) (l.getD 22 0) (l.getD 23 0)

/-- a block function and a block program agree -/
def BlockTie (nC : Nat) (g : Shr → L24 → L24) (b : Prog) : Prop :=
  ∀ ρ : Env, toL24 (blockW id nC b ρ) = g shrI (toL24 ρ)

theorem blocks_tie {nC : Nat} {fs : List (Shr → L24 → L24)} {bs : List Prog} (h : Forall₂ (BlockTie nC) fs bs) :
    ∀ ρ : Env, toL24 (blocksW id nC bs ρ) = runBlocks shrI fs (toL24 ρ) := by
  induction h with
  | nil => intro ρ; rfl
  | @cons g b fs bs hgb _ ih =>
    intro ρ
    have e1 : blocksW id nC (b :: bs) ρ = blocksW id nC bs (blockW id nC b ρ) := rfl
    have e2 : runBlocks shrI (g :: fs) (toL24 ρ) = runBlocks shrI fs (g shrI (toL24 ρ)) := rfl
    rw [e1, e2, ih, hgb ρ]

/-- all block pairs of two explicit lists, each by kernel evaluation -/
macro "tie_blocks" : tactic => `(tactic| (
  repeat (first | exact Forall₂.nil | refine Forall₂.cons (fun ρ => by kernel_refl) ?_)))

/-! ### scMulAdd -/

set_option maxRecDepth 100000 in
theorem scMulAdd_tie_blocks : Forall₂ (BlockTie scMulAdd_prog.nCarry) scMulAdd_blocks scMulAdd_prog.blocks := by
  simp only [scMulAdd_blocks, scMulAdd_prog, scMulAdd_pblocks]
  tie_blocks

set_option maxRecDepth 100000 in
theorem scMulAdd_tie_init (l : List Int) : toL24 (initW id scMulAdd_prog l) = app36 scMulAdd_init l := by
  kernel_refl

theorem scMulAdd_tie_limbs (l : List Int) : toL24 (limbsW id scMulAdd_prog l) = app36 (scMulAdd_limbs shrI) l := by
  show toL24 (blocksW id scMulAdd_prog.nCarry scMulAdd_prog.blocks (initW id scMulAdd_prog l)) = _
  rw [blocks_tie scMulAdd_tie_blocks, scMulAdd_tie_init]
  rfl

set_option maxRecDepth 100000 in
theorem scMulAdd_tie_load (a b c : Bytes) : loadW id scMulAdd_prog (scMulAdd_prog.rawVals [a, b, c]) = scMulAdd_load shrI a b c := by
  kernel_refl

set_option maxRecDepth 100000 in
theorem scMulAdd_tie_store (ρ : Env) : storeW id scMulAdd_prog ρ = scMulAdd_store shrI (toL24 ρ) := by
  kernel_refl

set_option maxRecDepth 100000 in
theorem scMulAdd_eq_app (a b c : Bytes) :
    scMulAdd shrI a b c = scMulAdd_store shrI (app36 (scMulAdd_limbs shrI) (scMulAdd_load shrI a b c)) := by
  kernel_refl

/-- the emitted data, run in unbounded `Int`, IS the translated function -/
theorem scMulAdd_tie (a b c : Bytes) : runW id scMulAdd_prog [a, b, c] = scMulAdd shrI a b c := by
  show storeW id scMulAdd_prog (limbsW id scMulAdd_prog (loadW id scMulAdd_prog (scMulAdd_prog.rawVals [a, b, c]))) = _
  rw [scMulAdd_tie_store, scMulAdd_tie_limbs, scMulAdd_tie_load, scMulAdd_eq_app]

/-! ### scAdd -/

set_option maxRecDepth 100000 in
theorem scAdd_tie_blocks : Forall₂ (BlockTie scAdd_prog.nCarry) scAdd_blocks scAdd_prog.blocks := by
  simp only [scAdd_blocks, scAdd_prog, scAdd_pblocks]
  tie_blocks

set_option maxRecDepth 100000 in
theorem scAdd_tie_init (l : List Int) : toL24 (initW id scAdd_prog l) = app24 scAdd_init l := by
  kernel_refl

theorem scAdd_tie_limbs (l : List Int) : toL24 (limbsW id scAdd_prog l) = app24 (scAdd_limbs shrI) l := by
  show toL24 (blocksW id scAdd_prog.nCarry scAdd_prog.blocks (initW id scAdd_prog l)) = _
  rw [blocks_tie scAdd_tie_blocks, scAdd_tie_init]
  rfl

set_option maxRecDepth 100000 in
theorem scAdd_tie_load (a c : Bytes) : loadW id scAdd_prog (scAdd_prog.rawVals [a, c]) = scAdd_load shrI a c := by
  kernel_refl

set_option maxRecDepth 100000 in
theorem scAdd_tie_store (ρ : Env) : storeW id scAdd_prog ρ = scAdd_store shrI (toL24 ρ) := by
  kernel_refl

set_option maxRecDepth 100000 in
theorem scAdd_eq_app (a c : Bytes) :
    scAdd shrI a c = scAdd_store shrI (app24 (scAdd_limbs shrI) (scAdd_load shrI a c)) := by
  kernel_refl

/-- the emitted data, run in unbounded `Int`, IS the translated function -/
theorem scAdd_tie (a c : Bytes) : runW id scAdd_prog [a, c] = scAdd shrI a c := by
  show storeW id scAdd_prog (limbsW id scAdd_prog (loadW id scAdd_prog (scAdd_prog.rawVals [a, c]))) = _
  rw [scAdd_tie_store, scAdd_tie_limbs, scAdd_tie_load, scAdd_eq_app]

/-! ### scSub -/

set_option maxRecDepth 100000 in
theorem scSub_tie_blocks : Forall₂ (BlockTie scSub_prog.nCarry) scSub_blocks scSub_prog.blocks := by
  simp only [scSub_blocks, scSub_prog, scSub_pblocks]
  tie_blocks

set_option maxRecDepth 100000 in
theorem scSub_tie_init (l : List Int) : toL24 (initW id scSub_prog l) = app24 scSub_init l := by
  kernel_refl

theorem scSub_tie_limbs (l : List Int) : toL24 (limbsW id scSub_prog l) = app24 (scSub_limbs shrI) l := by
  show toL24 (blocksW id scSub_prog.nCarry scSub_prog.blocks (initW id scSub_prog l)) = _
  rw [blocks_tie scSub_tie_blocks, scSub_tie_init]
  rfl

set_option maxRecDepth 100000 in
theorem scSub_tie_load (a c : Bytes) : loadW id scSub_prog (scSub_prog.rawVals [a, c]) = scSub_load shrI a c := by
  kernel_refl

set_option maxRecDepth 100000 in
theorem scSub_tie_store (ρ : Env) : storeW id scSub_prog ρ = scSub_store shrI (toL24 ρ) := by
  kernel_refl

set_option maxRecDepth 100000 in
theorem scSub_eq_app (a c : Bytes) :
    scSub shrI a c = scSub_store shrI (app24 (scSub_limbs shrI) (scSub_load shrI a c)) := by
  kernel_refl

/-- the emitted data, run in unbounded `Int`, IS the translated function -/
theorem scSub_tie (a c : Bytes) : runW id scSub_prog [a, c] = scSub shrI a c := by
  show storeW id scSub_prog (limbsW id scSub_prog (loadW id scSub_prog (scSub_prog.rawVals [a, c]))) = _
  rw [scSub_tie_store, scSub_tie_limbs, scSub_tie_load, scSub_eq_app]

/-! ### scMul -/

set_option maxRecDepth 100000 in
theorem scMul_tie_blocks : Forall₂ (BlockTie scMul_prog.nCarry) scMul_blocks scMul_prog.blocks := by
  simp only [scMul_blocks, scMul_prog, scMul_pblocks]
  tie_blocks

set_option maxRecDepth 100000 in
theorem scMul_tie_init (l : List Int) : toL24 (initW id scMul_prog l) = app24 scMul_init l := by
  kernel_refl

theorem scMul_tie_limbs (l : List Int) : toL24 (limbsW id scMul_prog l) = app24 (scMul_limbs shrI) l := by
  show toL24 (blocksW id scMul_prog.nCarry scMul_prog.blocks (initW id scMul_prog l)) = _
  rw [blocks_tie scMul_tie_blocks, scMul_tie_init]
  rfl

set_option maxRecDepth 100000 in
theorem scMul_tie_load (a b : Bytes) : loadW id scMul_prog (scMul_prog.rawVals [a, b]) = scMul_load shrI a b := by
  kernel_refl

set_option maxRecDepth 100000 in
theorem scMul_tie_store (ρ : Env) : storeW id scMul_prog ρ = scMul_store shrI (toL24 ρ) := by
  kernel_refl

set_option maxRecDepth 100000 in
theorem scMul_eq_app (a b : Bytes) :
    scMul shrI a b = scMul_store shrI (app24 (scMul_limbs shrI) (scMul_load shrI a b)) := by
  kernel_refl

/-- the emitted data, run in unbounded `Int`, IS the translated function -/
theorem scMul_tie (a b : Bytes) : runW id scMul_prog [a, b] = scMul shrI a b := by
  show storeW id scMul_prog (limbsW id scMul_prog (loadW id scMul_prog (scMul_prog.rawVals [a, b]))) = _
  rw [scMul_tie_store, scMul_tie_limbs, scMul_tie_load, scMul_eq_app]

/-! ### scReduce -/

set_option maxRecDepth 100000 in
theorem scReduce_tie_blocks : Forall₂ (BlockTie scReduce_prog.nCarry) scReduce_blocks scReduce_prog.blocks := by
  simp only [scReduce_blocks, scReduce_prog, scReduce_pblocks]
  tie_blocks

set_option maxRecDepth 100000 in
theorem scReduce_tie_init (l : List Int) : toL24 (initW id scReduce_prog l) = app24 scReduce_init l := by
  kernel_refl

theorem scReduce_tie_limbs (l : List Int) : toL24 (limbsW id scReduce_prog l) = app24 (scReduce_limbs shrI) l := by
  show toL24 (blocksW id scReduce_prog.nCarry scReduce_prog.blocks (initW id scReduce_prog l)) = _
  rw [blocks_tie scReduce_tie_blocks, scReduce_tie_init]
  rfl

set_option maxRecDepth 100000 in
theorem scReduce_tie_load (s : Bytes) : loadW id scReduce_prog (scReduce_prog.rawVals [s]) = scReduce_load shrI s := by
  kernel_refl

set_option maxRecDepth 100000 in
theorem scReduce_tie_store (ρ : Env) : storeW id scReduce_prog ρ = scReduce_store shrI (toL24 ρ) := by
  kernel_refl

set_option maxRecDepth 100000 in
theorem scReduce_eq_app (s : Bytes) :
    scReduce shrI s = scReduce_store shrI (app24 (scReduce_limbs shrI) (scReduce_load shrI s)) := by
  kernel_refl

/-- the emitted data, run in unbounded `Int`, IS the translated function -/
theorem scReduce_tie (s : Bytes) : runW id scReduce_prog [s] = scReduce shrI s := by
  show storeW id scReduce_prog (limbsW id scReduce_prog (loadW id scReduce_prog (scReduce_prog.rawVals [s]))) = _
  rw [scReduce_tie_store, scReduce_tie_limbs, scReduce_tie_load, scReduce_eq_app]

end Dos.Ed25519

/-
Composition helper for C20: in a commutative group, a NON-ZERO element killed by the prime ℓ has order
exactly ℓ.  With ℓ prime (`Proofs/Primes.lean`) this turns the hypothesis "B has order exactly ℓ"
(`hord`) of the C20 non-malleability theorems into "B is not the identity" — `ℓ • B = 0` is already
part of `Lawful`.
-/
import Mathlib.GroupTheory.OrderOfElement
import DosModel.Proofs.ComposePrimes
import DosModel.Proofs.Schnorr

namespace Dos.Compose
open Dos Dos.Ed25519

theorem order_exact_of_prime {G : Type} [AddCommGroup G] (q : Nat) (hq : q.Prime) (B : G)
    (hB : B ≠ 0) (hqB : q • B = 0) : ∀ n : ℕ, n • B = 0 → q ∣ n := by
  intro n hn
  have hd : addOrderOf B ∣ q := addOrderOf_dvd_of_nsmul_eq_zero hqB
  rcases (Nat.dvd_prime hq).1 hd with h1 | h1
  · exact absurd (AddMonoid.addOrderOf_eq_one_iff.1 h1) hB
  · rw [← h1]; exact addOrderOf_dvd_of_nsmul_eq_zero hn

/-- a non-identity element killed by ℓ has order exactly ℓ -/
theorem order_exact_ell {G : Type} [AddCommGroup G] (B : G) (hB : B ≠ 0) (hl : ell • B = 0) :
    ∀ n : ℕ, n • B = 0 → ell ∣ n :=
  order_exact_of_prime ell ell_prime B hB hl

/-- every multiple `x • B` with `ℓ ∤ x` of such a `B` has order exactly ℓ as well (public keys) -/
theorem order_exact_ell_multiple {G : Type} [AddCommGroup G] (B : G) (hB : B ≠ 0) (hl : ell • B = 0)
    (x : ℕ) (hx : ¬ ell ∣ x) : ∀ n : ℕ, n • (x • B) = 0 → ell ∣ n := by
  apply order_exact_ell
  · intro h0; exact hx (order_exact_ell B hB hl x h0)
  · rw [smul_comm, hl, smul_zero]

end Dos.Compose

/-
C20 (round 4) — per-method specifications of the translated group code (see Proofs/GeSpec.lean for the
definitions): completed.Add/Sub/MixedAdd/MixedSub, projective.Double, the conversions, Neg, Zero.
Each proof: (1) the multiplier analysis of the regenerated body is decided by the kernel, (2) `call_refines`
relates the limb run to the field run of the SAME body, (3) the field run is evaluated (`rfl`) and matched with
the hypotheses of the corresponding formula of Proofs/EdwardsFormulas.lean.
-/
import DosModel.Proofs.GeSpec

set_option exponentiation.threshold 600

namespace Dos.Ge
open Dos Dos.Ed25519 Dos.FeProg Dos.FeOps Dos.GeProg Dos.Ed25519Prime Dos.Edwards Dos.Gen.Ed25519Ge

theorem b3 {k : Nat} {l : L10} {x : F} (h : R k l x) (hk : k ≤ 3) : Bounded 3 l := (h.mono hk).1
theorem b2 {k : Nat} {l : L10} {x : F} (h : R k l x) (hk : k ≤ 2) : Bounded 2 l := (h.mono hk).1
theorem b1 {l : L10} {x : F} (h : R 1 l x) : Bounded 1 l := h.1

theorem compl4_fields (r : List L10) (o : Nat) : (compl4 r o).X = r.getD o zero10 ∧ (compl4 r o).Y = r.getD (o + 1) zero10
    ∧ (compl4 r o).Z = r.getD (o + 2) zero10 ∧ (compl4 r o).T = r.getD (o + 3) zero10 := ⟨rfl, rfl, rfl, rfl⟩
theorem ext4_fields (r : List L10) (o : Nat) : (ext4 r o).X = r.getD o zero10 ∧ (ext4 r o).Y = r.getD (o + 1) zero10
    ∧ (ext4 r o).Z = r.getD (o + 2) zero10 ∧ (ext4 r o).T = r.getD (o + 3) zero10 := ⟨rfl, rfl, rfl, rfl⟩
theorem cached4_fields (r : List L10) (o : Nat) : (cached4 r o).yPlusX = r.getD o zero10
    ∧ (cached4 r o).yMinusX = r.getD (o + 1) zero10
    ∧ (cached4 r o).Z = r.getD (o + 2) zero10 ∧ (cached4 r o).T2d = r.getD (o + 3) zero10 := ⟨rfl, rfl, rfl, rfl⟩
theorem proj3_fields (r : List L10) (o : Nat) : (proj3 r o).X = r.getD o zero10 ∧ (proj3 r o).Y = r.getD (o + 1) zero10
    ∧ (proj3 r o).Z = r.getD (o + 2) zero10 := ⟨rfl, rfl, rfl⟩

theorem extRel {p : Ext} {P : Pt} (hp : GoodExt p P) :
    RegRel [some 2, some 1, some 1, some 1] p.regs [val p.X, val p.Y, val p.Z, val p.T] :=
  regRel_some (R_val hp.bX) (regRel_some (R_val hp.bY) (regRel_some (R_val hp.bZ) (regRel_some (R_val hp.bT) regRel_nil)))

theorem junk4Rel (a b c d : F) : RegRel [none, none, none, none] junk4 [a, b, c, d] :=
  regRel_none (regRel_none (regRel_none (regRel_none regRel_nil)))
theorem junk3Rel (a b c : F) : RegRel [none, none, none] junk3 [a, b, c] :=
  regRel_none (regRel_none (regRel_none regRel_nil))

theorem flatten2 (a b : List L10) : [a, b].flatten = a ++ b := by simp
theorem flatten3 (a b c : List L10) : [a, b, c].flatten = a ++ (b ++ c) := by simp
theorem flatten1 (a : List L10) : [a].flatten = a := by simp

/-! ### completed.Add / Sub -/

theorem complAdd_spec {p : Ext} {q : Cached} {P Q : Pt} (hp : GoodExt p P) (hq : GoodCached q Q) :
    GoodCompl (complAdd p q) (P + Q) := by
  obtain ⟨X2, Y2, T2, e1, e2, e3, hz2, hxy2, hx2, hy2⟩ := hq.rep
  have hq4 : RegRel [some 3, some 3, some 1, some 1] q.regs [Y2 + X2, Y2 - X2, val q.Z, T2 * (2 * E25519.d)] :=
    regRel_some ⟨hq.bP, e1⟩ (regRel_some ⟨hq.bM, e2⟩ (regRel_some (R_val hq.bZ) (regRel_some ⟨hq.bT, e3⟩ regRel_nil)))
  have hrel := RegRel.append (junk4Rel 0 0 0 0) (RegRel.append (extRel hp) hq4)
  rw [← flatten3] at hrel
  obtain ⟨_, _, hget⟩ := call_refines completed_Add [junk4, p.regs, q.regs] 1 0 (Or.inl rfl) hrel
    (M1 := [some 2, some 2, some 3, some 3, some 2, some 1, some 1, some 1, some 3, some 3, some 1, some 1,
      some 2, some 1, some 1, some 1]) (by decide)
  generalize hX : runBody fieldAlg 0 (seqBases completed_Add.objs 0) 0 completed_Add.body _ = X1 at hget
  have v0 : X1.getD 0 0 = (val p.Y + val p.X) * (Y2 + X2) - (val p.Y - val p.X) * (Y2 - X2) := by rw [← hX]; rfl
  have v1 : X1.getD 1 0 = (val p.Y + val p.X) * (Y2 + X2) + (val p.Y - val p.X) * (Y2 - X2) := by rw [← hX]; rfl
  have v2 : X1.getD 2 0 = (val p.Z * val q.Z + val p.Z * val q.Z) + T2 * (2 * E25519.d) * val p.T := by rw [← hX]; rfl
  have v3 : X1.getD 3 0 = (val p.Z * val q.Z + val p.Z * val q.Z) - T2 * (2 * E25519.d) * val p.T := by rw [← hX]; rfl
  have r0 := hget 0 2 (by decide)
  have r1 := hget 1 2 (by decide)
  have r2 := hget 2 3 (by decide)
  have r3 := hget 3 3 (by decide)
  rw [v0] at r0; rw [v1] at r1; rw [v2] at r2; rw [v3] at r3
  have h1 : OnCurve E25519.d (val p.X / val p.Z) (val p.Y / val p.Z) := onCurve_of hp.hx hp.hy
  have h2 : OnCurve E25519.d (X2 / val q.Z) (Y2 / val q.Z) := onCurve_of hx2 hy2
  obtain ⟨f1, f2, f3, f4⟩ := add_formula E25519 hp.z_ne hp.xy h1 hz2 hxy2 h2 (d2 := 2 * E25519.d) rfl
    (A := (val p.Y - val p.X) * (Y2 - X2)) rfl (B := (val p.Y + val p.X) * (Y2 + X2)) rfl
    (C := T2 * (2 * E25519.d) * val p.T) rfl (D := val p.Z * val q.Z + val p.Z * val q.Z) (by ring)
    (cX := (val p.Y + val p.X) * (Y2 + X2) - (val p.Y - val p.X) * (Y2 - X2)) rfl
    (cY := (val p.Y + val p.X) * (Y2 + X2) + (val p.Y - val p.X) * (Y2 - X2)) rfl
    (cZ := (val p.Z * val q.Z + val p.Z * val q.Z) + T2 * (2 * E25519.d) * val p.T) rfl
    (cT := (val p.Z * val q.Z + val p.Z * val q.Z) - T2 * (2 * E25519.d) * val p.T) rfl
  rw [pt_eq h1 hp.hx hp.hy, pt_eq h2 hx2 hy2] at f3 f4
  obtain ⟨eX, eY, eZ, eT⟩ := compl4_fields (call completed_Add [junk4, p.regs, q.regs] 1 0) 0
  unfold complAdd
  rw [← eX] at r0; rw [← eY] at r1; rw [← eZ] at r2; rw [← eT] at r3
  exact
    { bX := b3 r0 (by omega), bY := b3 r1 (by omega), bZ := b3 r2 (by omega), bT := b3 r3 (by omega)
      z_ne := by rw [r2.2]; exact f1
      t_ne := by rw [r3.2]; exact f2
      hx := by rw [r0.2, r2.2]; exact f3
      hy := by rw [r1.2, r3.2]; exact f4 }

theorem complSub_spec {p : Ext} {q : Cached} {P Q : Pt} (hp : GoodExt p P) (hq : GoodCached q Q) :
    GoodCompl (complSub p q) (P + -Q) := by
  obtain ⟨X2, Y2, T2, e1, e2, e3, hz2, hxy2, hx2, hy2⟩ := hq.rep
  have hq4 : RegRel [some 3, some 3, some 1, some 1] q.regs [Y2 + X2, Y2 - X2, val q.Z, T2 * (2 * E25519.d)] :=
    regRel_some ⟨hq.bP, e1⟩ (regRel_some ⟨hq.bM, e2⟩ (regRel_some (R_val hq.bZ) (regRel_some ⟨hq.bT, e3⟩ regRel_nil)))
  have hrel := RegRel.append (junk4Rel 0 0 0 0) (RegRel.append (extRel hp) hq4)
  rw [← flatten3] at hrel
  obtain ⟨_, _, hget⟩ := call_refines completed_Sub [junk4, p.regs, q.regs] 1 0 (Or.inl rfl) hrel
    (M1 := [some 2, some 2, some 3, some 3, some 2, some 1, some 1, some 1, some 3, some 3, some 1, some 1,
      some 2, some 1, some 1, some 1]) (by decide)
  generalize hX : runBody fieldAlg 0 (seqBases completed_Sub.objs 0) 0 completed_Sub.body _ = X1 at hget
  have v0 : X1.getD 0 0 = (val p.Y + val p.X) * (Y2 - X2) - (val p.Y - val p.X) * (Y2 + X2) := by rw [← hX]; rfl
  have v1 : X1.getD 1 0 = (val p.Y + val p.X) * (Y2 - X2) + (val p.Y - val p.X) * (Y2 + X2) := by rw [← hX]; rfl
  have v2 : X1.getD 2 0 = (val p.Z * val q.Z + val p.Z * val q.Z) - T2 * (2 * E25519.d) * val p.T := by rw [← hX]; rfl
  have v3 : X1.getD 3 0 = (val p.Z * val q.Z + val p.Z * val q.Z) + T2 * (2 * E25519.d) * val p.T := by rw [← hX]; rfl
  have r0 := hget 0 2 (by decide)
  have r1 := hget 1 2 (by decide)
  have r2 := hget 2 3 (by decide)
  have r3 := hget 3 3 (by decide)
  rw [v0] at r0; rw [v1] at r1; rw [v2] at r2; rw [v3] at r3
  have h1 : OnCurve E25519.d (val p.X / val p.Z) (val p.Y / val p.Z) := onCurve_of hp.hx hp.hy
  have h2 : OnCurve E25519.d (X2 / val q.Z) (Y2 / val q.Z) := onCurve_of hx2 hy2
  obtain ⟨f1, f2, f3, f4⟩ := sub_formula E25519 hp.z_ne hp.xy h1 hz2 hxy2 h2 (d2 := 2 * E25519.d) rfl
    (A := (val p.Y - val p.X) * (Y2 + X2)) rfl (B := (val p.Y + val p.X) * (Y2 - X2)) rfl
    (C := T2 * (2 * E25519.d) * val p.T) rfl (D := val p.Z * val q.Z + val p.Z * val q.Z) (by ring)
    (cX := (val p.Y + val p.X) * (Y2 - X2) - (val p.Y - val p.X) * (Y2 + X2)) rfl
    (cY := (val p.Y + val p.X) * (Y2 - X2) + (val p.Y - val p.X) * (Y2 + X2)) rfl
    (cZ := (val p.Z * val q.Z + val p.Z * val q.Z) - T2 * (2 * E25519.d) * val p.T) rfl
    (cT := (val p.Z * val q.Z + val p.Z * val q.Z) + T2 * (2 * E25519.d) * val p.T) rfl
  rw [pt_eq h1 hp.hx hp.hy, pt_eq h2 hx2 hy2] at f3 f4
  obtain ⟨eX, eY, eZ, eT⟩ := compl4_fields (call completed_Sub [junk4, p.regs, q.regs] 1 0) 0
  unfold complSub
  rw [← eX] at r0; rw [← eY] at r1; rw [← eZ] at r2; rw [← eT] at r3
  exact
    { bX := b3 r0 (by omega), bY := b3 r1 (by omega), bZ := b3 r2 (by omega), bT := b3 r3 (by omega)
      z_ne := by rw [r2.2]; exact f1
      t_ne := by rw [r3.2]; exact f2
      hx := by rw [r0.2, r2.2]; exact f3
      hy := by rw [r1.2, r3.2]; exact f4 }

/-! ### completed.MixedAdd / MixedSub -/

theorem preRel {q : Pre} {Q : Pt} (hq : GoodPre q Q) :
    RegRel [some 1, some 1, some 1] q.regs [Q.y + Q.x, Q.y - Q.x, 2 * E25519.d * Q.x * Q.y] :=
  regRel_some ⟨hq.bP, hq.hp⟩ (regRel_some ⟨hq.bM, hq.hm⟩ (regRel_some ⟨hq.bD, hq.hd⟩ regRel_nil))

theorem complMixedAdd_spec {p : Ext} {q : Pre} {P Q : Pt} (hp : GoodExt p P) (hq : GoodPre q Q) :
    GoodCompl (complMixedAdd p q) (P + Q) := by
  have hrel := RegRel.append (junk4Rel 0 0 0 0) (RegRel.append (extRel hp) (preRel hq))
  rw [← flatten3] at hrel
  obtain ⟨_, _, hget⟩ := call_refines completed_MixedAdd [junk4, p.regs, q.regs] 1 0 (Or.inl rfl) hrel
    (M1 := [some 2, some 2, some 3, some 3, some 2, some 1, some 1, some 1, some 1, some 1, some 1,
      some 2, some 1, some 1, some 1]) (by decide)
  generalize hX : runBody fieldAlg 0 (seqBases completed_MixedAdd.objs 0) 0 completed_MixedAdd.body _ = X1 at hget
  have v0 : X1.getD 0 0 = (val p.Y + val p.X) * (Q.y + Q.x) - (val p.Y - val p.X) * (Q.y - Q.x) := by rw [← hX]; rfl
  have v1 : X1.getD 1 0 = (val p.Y + val p.X) * (Q.y + Q.x) + (val p.Y - val p.X) * (Q.y - Q.x) := by rw [← hX]; rfl
  have v2 : X1.getD 2 0 = (val p.Z + val p.Z) + 2 * E25519.d * Q.x * Q.y * val p.T := by rw [← hX]; rfl
  have v3 : X1.getD 3 0 = (val p.Z + val p.Z) - 2 * E25519.d * Q.x * Q.y * val p.T := by rw [← hX]; rfl
  have r0 := hget 0 2 (by decide)
  have r1 := hget 1 2 (by decide)
  have r2 := hget 2 3 (by decide)
  have r3 := hget 3 3 (by decide)
  rw [v0] at r0; rw [v1] at r1; rw [v2] at r2; rw [v3] at r3
  have h1 : OnCurve E25519.d (val p.X / val p.Z) (val p.Y / val p.Z) := onCurve_of hp.hx hp.hy
  obtain ⟨f1, f2, f3, f4⟩ := madd_formula E25519 hp.z_ne hp.xy h1 Q.on (yPlusX := Q.y + Q.x) rfl
    (yMinusX := Q.y - Q.x) rfl (xy2d := 2 * E25519.d * Q.x * Q.y) rfl
    (A := (val p.Y - val p.X) * (Q.y - Q.x)) rfl (B := (val p.Y + val p.X) * (Q.y + Q.x)) rfl
    (C := 2 * E25519.d * Q.x * Q.y * val p.T) rfl (D := val p.Z + val p.Z) (by ring)
    (cX := (val p.Y + val p.X) * (Q.y + Q.x) - (val p.Y - val p.X) * (Q.y - Q.x)) rfl
    (cY := (val p.Y + val p.X) * (Q.y + Q.x) + (val p.Y - val p.X) * (Q.y - Q.x)) rfl
    (cZ := (val p.Z + val p.Z) + 2 * E25519.d * Q.x * Q.y * val p.T) rfl
    (cT := (val p.Z + val p.Z) - 2 * E25519.d * Q.x * Q.y * val p.T) rfl
  rw [pt_eq h1 hp.hx hp.hy] at f3 f4
  obtain ⟨eX, eY, eZ, eT⟩ := compl4_fields (call completed_MixedAdd [junk4, p.regs, q.regs] 1 0) 0
  unfold complMixedAdd
  rw [← eX] at r0; rw [← eY] at r1; rw [← eZ] at r2; rw [← eT] at r3
  exact
    { bX := b3 r0 (by omega), bY := b3 r1 (by omega), bZ := b3 r2 (by omega), bT := b3 r3 (by omega)
      z_ne := by rw [r2.2]; exact f1
      t_ne := by rw [r3.2]; exact f2
      hx := by rw [r0.2, r2.2]; exact f3
      hy := by rw [r1.2, r3.2]; exact f4 }

theorem complMixedSub_spec {p : Ext} {q : Pre} {P Q : Pt} (hp : GoodExt p P) (hq : GoodPre q Q) :
    GoodCompl (complMixedSub p q) (P + -Q) := by
  have hrel := RegRel.append (junk4Rel 0 0 0 0) (RegRel.append (extRel hp) (preRel hq))
  rw [← flatten3] at hrel
  obtain ⟨_, _, hget⟩ := call_refines completed_MixedSub [junk4, p.regs, q.regs] 1 0 (Or.inl rfl) hrel
    (M1 := [some 2, some 2, some 3, some 3, some 2, some 1, some 1, some 1, some 1, some 1, some 1,
      some 2, some 1, some 1, some 1]) (by decide)
  generalize hX : runBody fieldAlg 0 (seqBases completed_MixedSub.objs 0) 0 completed_MixedSub.body _ = X1 at hget
  have v0 : X1.getD 0 0 = (val p.Y + val p.X) * (Q.y - Q.x) - (val p.Y - val p.X) * (Q.y + Q.x) := by rw [← hX]; rfl
  have v1 : X1.getD 1 0 = (val p.Y + val p.X) * (Q.y - Q.x) + (val p.Y - val p.X) * (Q.y + Q.x) := by rw [← hX]; rfl
  have v2 : X1.getD 2 0 = (val p.Z + val p.Z) - 2 * E25519.d * Q.x * Q.y * val p.T := by rw [← hX]; rfl
  have v3 : X1.getD 3 0 = (val p.Z + val p.Z) + 2 * E25519.d * Q.x * Q.y * val p.T := by rw [← hX]; rfl
  have r0 := hget 0 2 (by decide)
  have r1 := hget 1 2 (by decide)
  have r2 := hget 2 3 (by decide)
  have r3 := hget 3 3 (by decide)
  rw [v0] at r0; rw [v1] at r1; rw [v2] at r2; rw [v3] at r3
  have h1 : OnCurve E25519.d (val p.X / val p.Z) (val p.Y / val p.Z) := onCurve_of hp.hx hp.hy
  obtain ⟨f1, f2, f3, f4⟩ := msub_formula E25519 hp.z_ne hp.xy h1 Q.on (yPlusX := Q.y + Q.x) rfl
    (yMinusX := Q.y - Q.x) rfl (xy2d := 2 * E25519.d * Q.x * Q.y) rfl
    (A := (val p.Y - val p.X) * (Q.y + Q.x)) rfl (B := (val p.Y + val p.X) * (Q.y - Q.x)) rfl
    (C := 2 * E25519.d * Q.x * Q.y * val p.T) rfl (D := val p.Z + val p.Z) (by ring)
    (cX := (val p.Y + val p.X) * (Q.y - Q.x) - (val p.Y - val p.X) * (Q.y + Q.x)) rfl
    (cY := (val p.Y + val p.X) * (Q.y - Q.x) + (val p.Y - val p.X) * (Q.y + Q.x)) rfl
    (cZ := (val p.Z + val p.Z) - 2 * E25519.d * Q.x * Q.y * val p.T) rfl
    (cT := (val p.Z + val p.Z) + 2 * E25519.d * Q.x * Q.y * val p.T) rfl
  rw [pt_eq h1 hp.hx hp.hy] at f3 f4
  obtain ⟨eX, eY, eZ, eT⟩ := compl4_fields (call completed_MixedSub [junk4, p.regs, q.regs] 1 0) 0
  unfold complMixedSub
  rw [← eX] at r0; rw [← eY] at r1; rw [← eZ] at r2; rw [← eT] at r3
  exact
    { bX := b3 r0 (by omega), bY := b3 r1 (by omega), bZ := b3 r2 (by omega), bT := b3 r3 (by omega)
      z_ne := by rw [r2.2]; exact f1
      t_ne := by rw [r3.2]; exact f2
      hx := by rw [r0.2, r2.2]; exact f3
      hy := by rw [r1.2, r3.2]; exact f4 }

end Dos.Ge

package c07

// Concurrent evaluation of dataParse / genQueryResult with a rich selector grammar (round 4).
//
// Case line
//
//	cq <mode> <G> <N> <addr> <doc1> <sel1> <ref1> <doc2> <sel2> <ref2>
//
// mode  same : G goroutines, each N evaluations of (doc1, sel1)          (pair 2 is ". . .")
//       sels : the goroutines alternate between (doc1, sel1) and (doc1, sel2)   (doc2 = doc1)
//       docs : the goroutines alternate between (doc1, sel1) and (doc2, sel1)   (sel2 = sel1)
//       mix  : two unrelated pairs (e.g. a JSON and an XML query) in flight together
// ref_i = what dataParse returned when the case was generated (hex | err | panic): for the model
// the engines are external functions, their value on (doc_i, sel_i) is an input of the case.
//
// Exec evaluates every pair ONCE sequentially (the reference), then releases G goroutines on a
// barrier: N evaluations each through dataParse, and max(1, N/4) each through the real
// genQueryResult (HTTP fetch from a local server + dataParse + append submitter). Every result is
// kept alive until everything has finished and is then compared byte for byte with the reference
// of its pair (and with the copy taken when it was returned).

import (
	"bytes"
	"fmt"
	"os"
	"strconv"
	"strings"
	"sync"
	"time"

	"verifharness/internal/h"
)

type pair struct {
	doc  []byte
	sel  string
	ref  string
	keep []byte
}

type concResult struct {
	pair, g, i int
	via        string
	ev         evaluation
}

func execCQ(w []string) (res h.Result) {
	mode, G, N, addr := w[1], h.Atoi(w[2]), h.Atoi(w[3]), exact(h.UnHex(w[4]))
	keepA := exact(addr)
	ps := []*pair{{doc: exact(h.UnHex(w[5])), sel: string(h.UnHex(w[6])), ref: w[7]}}
	if w[8] != "." {
		ps = append(ps, &pair{doc: exact(h.UnHex(w[8])), sel: string(h.UnHex(w[9])), ref: w[10]})
	}
	for _, p := range ps {
		p.keep = exact(p.doc)
	}
	kind := "xml"
	if strings.HasPrefix(ps[0].sel, "$") {
		kind = "json"
	}
	res.Class = "cq " + mode + " " + kind
	res.Nontrivial = true

	// 1. the reference: ONE sequential evaluation per pair
	refs := make([]evaluation, len(ps))
	var impl []string
	var orc []string
	urls := make([]string, len(ps))
	for k, p := range ps {
		refs[k] = keep(parseLive(p.doc, p.sel))
		if got := refs[k].String(); got != p.ref {
			orc = append(orc, fmt.Sprintf("nondeterministic: dataParse gives %.60s now, gave %.60s when the case was generated (pair %d)", got, p.ref, k+1))
		}
		switch refs[k].tag {
		case "":
			impl = append(impl, h.Hex(append(exact(refs[k].copy), keepA...)))
		case "panic":
			impl = append(impl, "panic parse")
		default:
			impl = append(impl, "err parse")
		}
		urls[k] = docURL(p.doc)
	}
	res.Impl = strings.Join(impl, " | ")
	defer func() { // the local HTTP server forgets the documents of this case
		for _, u := range urls {
			docs.Delete(u[strings.LastIndex(u, "/"):])
		}
	}()

	// 2. G goroutines released together; a replay (`corr exec`) repeats the round until the case
	// fails again or 25 rounds have passed (a race does not show in every round)
	rounds := 1
	if len(os.Args) > 1 && os.Args[1] == "exec" {
		rounds = 25
	}
	for round := 0; round < rounds && len(orc) == 0; round++ {
		if hang := concRound(mode, G, N, nq(N), ps, refs, urls, addr, keepA, &orc); hang {
			res.Oracle = "concurrent-hang: concurrent evaluations did not finish within 120 s although the sequential reference did"
			return
		}
	}
	for k, rf := range refs {
		if !bytes.Equal(rf.live, rf.copy) {
			orc = append(orc, fmt.Sprintf("result-aliased: the reference result of pair %d changed while the concurrent evaluations ran", k+1))
		}
	}
	for k, p := range ps {
		if s := unchanged("document "+strconv.Itoa(k+1), p.doc, p.keep); s != "" {
			orc = append(orc, s)
		}
	}
	if s := unchanged("submitter", addr, keepA); s != "" {
		orc = append(orc, s)
	}
	// the most specific complaint first: a concurrent difference, then aliasing, then the rest
	res.Oracle = pick(orc, "concurrent-differs", "result-aliased", "nondeterministic", "input-modified")
	return
}

func nq(N int) int {
	if N/4 < 1 {
		return 1
	}
	return N / 4
}

// concRound: one barrier release of G goroutines; appends what differs to orc; true = hang
func concRound(mode string, G, N, nq int, ps []*pair, refs []evaluation, urls []string, addr, keepA []byte, orc *[]string) bool {
	start := make(chan struct{})
	var wg sync.WaitGroup
	var mu sync.Mutex
	var all []concResult
	for g := 0; g < G; g++ {
		wg.Add(1)
		go func(g int) {
			defer wg.Done()
			k := g % len(ps)
			p := ps[k]
			local := make([]concResult, 0, N+nq)
			<-start
			for i := 0; i < N; i++ {
				local = append(local, concResult{k, g, i, "dataParse", keep(parseLive(p.doc, p.sel))})
			}
			if refs[k].tag != "panic" {
				for i := 0; i < nq; i++ {
					local = append(local, concResult{k, g, i, "genQueryResult", keep(stageQuery(urls[k], p.sel, addr))})
				}
			}
			mu.Lock()
			all = append(all, local...)
			mu.Unlock()
		}(g)
	}
	close(start)
	done := make(chan struct{})
	go func() { wg.Wait(); close(done) }()
	select {
	case <-done:
	case <-time.After(120 * time.Second):
		return true
	}

	// 3. compare everything with the reference of its pair, after all evaluations have finished
	diff := 0
	for _, r := range all {
		ref := refs[r.pair]
		wantTag, want := ref.tag, ref.copy
		if r.via == "genQueryResult" {
			if ref.tag == "" {
				want = append(exact(ref.copy), keepA...)
			} else {
				wantTag, want = "err parse", nil
			}
		}
		if r.ev.tag != wantTag || !bytes.Equal(r.ev.copy, want) {
			diff++
			if diff == 1 {
				*orc = append(*orc, fmt.Sprintf("concurrent-differs: mode %s, %d goroutines x %d evaluations: %s evaluation %d of goroutine %d (pair %d, selector %q) gave %s len %d %.64s, the sequential reference gives %s len %d %.64s",
					mode, G, N, r.via, r.i, r.g, r.pair+1, ps[r.pair].sel, tagOr(r.ev.tag), len(r.ev.copy), h.Hex(r.ev.copy), tagOr(wantTag), len(want), h.Hex(want)))
			}
		}
		if !bytes.Equal(r.ev.live, r.ev.copy) {
			*orc = append(*orc, fmt.Sprintf("result-aliased: the value returned by %s evaluation %d of goroutine %d changed while other evaluations ran", r.via, r.i, r.g))
		}
	}
	if diff > 1 {
		(*orc)[len(*orc)-1] += fmt.Sprintf(" (%d of %d concurrent results differ)", diff, len(all))
	}
	return false
}

func tagOr(t string) string {
	if t == "" {
		return "value"
	}
	return t
}

func pick(orc []string, order ...string) string {
	for _, o := range order {
		for _, s := range orc {
			if strings.HasPrefix(s, o) {
				return s
			}
		}
	}
	if len(orc) > 0 {
		return orc[0]
	}
	return ""
}

// ---------------------------------------------------------------- documents

var xTags = []string{"item", "name", "price", "entry", "a", "b", "data", "title", "qty"}
var xWords = []string{"alpha", "beta 7", "gamma", "x7y", "77", "3.5", "120", "", "  padded  ", "a &lt; b", "Ünï", "north-west", "7", "seven", "0", "-4"}

// feedXML: n similar items (the shape of a real feed), values drawn from a small vocabulary so
// that string predicates select a proper subset
func feedXML(rng *h.Rng, n int) string {
	var b strings.Builder
	if rng.Intn(3) == 0 {
		b.WriteString(`<?xml version="1.0" encoding="UTF-8"?>`)
	}
	b.WriteString("<feed>")
	if rng.Intn(2) == 0 {
		b.WriteString("<title>prices</title>")
	}
	for i := 0; i < n; i++ {
		fmt.Fprintf(&b, `<item id="%d"`, i)
		if rng.Intn(3) == 0 {
			fmt.Fprintf(&b, ` cat="%s"`, []string{"x", "y", "x y", "z7"}[rng.Intn(4)])
		}
		b.WriteString(">")
		fmt.Fprintf(&b, "<name>%s %d</name>", xWords[rng.Intn(len(xWords))], rng.Intn(100))
		fmt.Fprintf(&b, "<price>%d</price>", rng.Intn(500))
		if rng.Intn(2) == 0 {
			fmt.Fprintf(&b, "<qty>%d</qty>", rng.Intn(10))
		}
		if rng.Intn(4) == 0 {
			fmt.Fprintf(&b, "<data><a>%s</a><b>%s</b></data>", xWords[rng.Intn(len(xWords))], xWords[rng.Intn(len(xWords))])
		}
		if rng.Intn(6) == 0 {
			b.WriteString("\n  ")
		}
		b.WriteString("</item>")
	}
	if rng.Intn(3) == 0 {
		b.WriteString("<entry><name>last</name><price>1</price></entry>")
	}
	b.WriteString("</feed>")
	return b.String()
}

// treeXML: irregular nesting over the same vocabulary (root element <feed> too, so the same
// selectors make sense on both kinds of document)
func treeXML(rng *h.Rng) string {
	var b strings.Builder
	var el func(depth int)
	el = func(depth int) {
		t := xTags[rng.Intn(len(xTags))]
		b.WriteString("<" + t)
		if rng.Intn(2) == 0 {
			fmt.Fprintf(&b, ` id="%d"`, rng.Intn(6))
		}
		if rng.Intn(4) == 0 {
			fmt.Fprintf(&b, ` cat="%s"`, []string{"x", "y", "x y", "z7"}[rng.Intn(4)])
		}
		b.WriteString(">")
		n := rng.Intn(5)
		if depth >= 3 {
			n = 0
		}
		if n == 0 || rng.Intn(4) == 0 {
			b.WriteString(xWords[rng.Intn(len(xWords))])
		}
		for i := 0; i < n; i++ {
			el(depth + 1)
		}
		if n > 0 && rng.Intn(5) == 0 {
			b.WriteString("<![CDATA[x<7]]>")
		}
		b.WriteString("</" + t + ">")
	}
	b.WriteString("<feed>")
	for i, n := 0, 1+rng.Intn(6); i < n; i++ {
		el(1)
	}
	b.WriteString("</feed>")
	return b.String()
}

// ---------------------------------------------------------------- XPath

type xgen struct {
	rng *h.Rng
	// descendant steps ("//", descendant::, following::, preceding::) used so far: at most 2 per
	// selector (C12 known finding hang-selector-blowup: cost grows exponentially with their number)
	deep int
	// big: the selector is meant for a document of 100+ items: no following:: / preceding:: axis and
	// no union (the engine does not de-duplicate those axes, result and time grow quadratically, the
	// union of two such results cubically: tens of seconds on a 400-item feed)
	big bool
}

// the shape of the generated documents: which children an element has. Steps and predicate
// arguments follow it most of the time (so that most selectors select something) and leave it
// sometimes (empty results and type errors are results too).
var xChildren = map[string][]string{
	"":      {"feed"},
	"feed":  {"item", "item", "item", "title", "entry"},
	"item":  {"name", "price", "qty", "data", "name", "price"},
	"entry": {"name", "price"},
	"data":  {"a", "b"},
}

func (x *xgen) tag() string { return xTags[x.rng.Intn(len(xTags))] }
func (x *xgen) child(ctx string) string {
	if c := xChildren[ctx]; len(c) > 0 && x.rng.Intn(6) > 0 {
		return c[x.rng.Intn(len(c))]
	}
	return x.tag()
}
func (x *xgen) attr() string {
	return []string{"id", "cat", "id", "lang"}[x.rng.Intn(4)]
}
func (x *xgen) lit() string {
	return "'" + []string{"7", "a", "alpha", "x", "beta 7", "e", "3", "", "x y", "1", "0", "7", "a"}[x.rng.Intn(13)] + "'"
}
func (x *xgen) num() string {
	return []string{"0", "1", "2", "3", "5", "10", "100", "250", "3.5", "-1"}[x.rng.Intn(10)]
}
func (x *xgen) cmp() string { return []string{"=", "!=", "<", "<=", ">", ">="}[x.rng.Intn(6)] }

// a relative location path usable as a node-set argument / predicate, seen from an element ctx
func (x *xgen) rel(ctx string) string {
	switch x.rng.Intn(14) {
	case 0, 1, 2, 3, 4:
		return x.child(ctx)
	case 5:
		return "@" + x.attr()
	case 6:
		return "."
	case 7:
		return "text()"
	case 8:
		c := x.child(ctx)
		return c + "/" + x.child(c)
	case 9:
		return "../" + x.tag()
	case 10:
		return "*"
	case 11:
		return "child::" + x.child(ctx)
	case 12:
		return "following-sibling::" + x.tag()
	}
	return "preceding-sibling::*"
}

// a string-valued argument: node-set (the common case), literal, or a nested string function
func (x *xgen) sarg(ctx string, depth int) string {
	switch k := x.rng.Intn(10); {
	case k < 6:
		return x.rel(ctx)
	case k < 8 || depth > 1:
		return x.lit()
	}
	return x.strfn(ctx, depth+1)
}

// string-valued functions
func (x *xgen) strfn(ctx string, depth int) string {
	switch x.rng.Intn(8) {
	case 0:
		return "substring(" + x.sarg(ctx, depth) + "," + []string{"1", "2", "0", "3"}[x.rng.Intn(4)] + ")"
	case 1:
		return "substring(" + x.sarg(ctx, depth) + "," + []string{"1", "2"}[x.rng.Intn(2)] + "," + []string{"1", "2", "4"}[x.rng.Intn(3)] + ")"
	case 2:
		return "substring-before(" + x.sarg(ctx, depth) + "," + x.sarg(ctx, depth+1) + ")"
	case 3:
		return "substring-after(" + x.sarg(ctx, depth) + "," + x.sarg(ctx, depth+1) + ")"
	case 4:
		return "concat(" + x.sarg(ctx, depth) + "," + x.sarg(ctx, depth+1) + ")"
	case 5:
		return "normalize-space(" + x.sarg(ctx, depth) + ")"
	case 6:
		return "translate(" + x.sarg(ctx, depth) + ",'abex7','ABEX_')"
	}
	return "string(" + x.rel(ctx) + ")"
}

// boolean-valued predicate bodies
func (x *xgen) boolean(ctx string, depth int) string {
	switch k := x.rng.Intn(22); {
	case k == 0:
		return x.rel(ctx)
	case k == 1:
		return x.rel(ctx) + x.cmp() + x.num()
	case k == 2:
		return x.rel(ctx) + "=" + x.lit()
	case k == 3:
		return "@" + x.attr() + x.cmp() + "'" + strconv.Itoa(x.rng.Intn(6)) + "'"
	case k <= 6:
		return "contains(" + x.sarg(ctx, depth) + "," + x.sarg(ctx, depth+2) + ")"
	case k <= 8:
		return "starts-with(" + x.sarg(ctx, depth) + "," + x.sarg(ctx, depth+2) + ")"
	case k == 9:
		return "ends-with(" + x.sarg(ctx, depth) + "," + x.lit() + ")"
	case k <= 11:
		return x.strfn(ctx, depth) + []string{"=", "!=", "!="}[x.rng.Intn(3)] + x.lit()
	case k == 12:
		return "string-length(" + x.sarg(ctx, depth) + ")" + x.cmp() + x.num()
	case k == 13:
		return "count(" + x.rel(ctx) + ")" + x.cmp() + x.num()
	case k == 14:
		return "sum(" + x.rel(ctx) + ")" + x.cmp() + x.num()
	case k == 15:
		return "position()" + x.cmp() + x.num()
	case k == 16:
		return "position()=last()"
	case k == 17 && depth < 2:
		return "not(" + x.boolean(ctx, depth+1) + ")"
	case k == 18 && depth < 2:
		return x.boolean(ctx, depth+1) + " and " + x.boolean(ctx, depth+1)
	case k == 19 && depth < 2:
		return x.boolean(ctx, depth+1) + " or " + x.boolean(ctx, depth+1)
	case k == 20:
		return x.rel(ctx) + " " + []string{"+", "-", "mod", "div"}[x.rng.Intn(4)] + " " + x.num() + x.cmp() + x.num()
	}
	return "number(" + x.rel(ctx) + ")" + x.cmp() + x.num()
}

// itemPred: predicates on an <item> that select a proper, usually non-empty subset of a feed
func (x *xgen) itemPred(depth int) string {
	f := func() string {
		return []string{"name", "name", "@id", "price", "qty", "data/a", "@cat", "name/text()", "."}[x.rng.Intn(9)]
	}
	l := func() string { return "'" + []string{"7", "a", "1", "e", "x", "alpha", "3", " "}[x.rng.Intn(8)] + "'" }
	switch k := x.rng.Intn(20); {
	case k < 3:
		return "contains(" + f() + "," + l() + ")"
	case k == 3:
		return "contains(" + f() + "," + f() + ")"
	case k < 6:
		return "starts-with(" + f() + "," + l() + ")"
	case k == 6:
		return "substring(" + f() + ",1,1)=" + l()
	case k == 7:
		return "string-length(" + f() + ")" + []string{">5", "<4", "=1", ">=8"}[x.rng.Intn(4)]
	case k == 8:
		return "normalize-space(" + f() + ")!=''"
	case k == 9:
		return "translate(" + f() + ",'a7','A_')!=" + f()
	case k == 10:
		return "concat(" + f() + ",'x')!='x'"
	case k == 11:
		return "substring-before(" + f() + ",' ')=" + l()
	case k == 12:
		return "substring-after(" + f() + ",' ')" + []string{"!=''", "='7'", "=''"}[x.rng.Intn(3)]
	case k == 13:
		return "price" + []string{">100", "<50", ">=250", "!=0"}[x.rng.Intn(4)]
	case k == 14:
		return []string{"qty<5", "@id>'3'", "count(data)>0", "not(data)", "qty", "position()<10", "position() mod 2=1", "sum(price)>100"}[x.rng.Intn(8)]
	case k == 15:
		return "ends-with(" + f() + "," + l() + ")"
	case k == 16 && depth < 2:
		return x.itemPred(depth+1) + " and " + x.itemPred(depth+1)
	case k == 17 && depth < 2:
		return x.itemPred(depth+1) + " or " + x.itemPred(depth+1)
	case k == 18 && depth < 2:
		return "not(" + x.itemPred(depth+1) + ")"
	}
	return "contains(concat(" + f() + ",'-'," + f() + ")," + l() + ")"
}

func (x *xgen) pred(ctx string) string {
	switch k := x.rng.Intn(10); {
	case k == 0:
		return "[" + strconv.Itoa(1+x.rng.Intn(4)) + "]"
	case k == 1:
		return "[last()]"
	}
	return "[" + x.boolean(ctx, 0) + "]"
}

// step: one location step below an element ctx; returns the step and the element it selects
func (x *xgen) step(ctx string, first bool) (string, string) {
	s, to := "", ""
	switch k := x.rng.Intn(20); {
	case k < 11:
		to = x.child(ctx)
		s = to
	case k == 11:
		s, to = "*", x.child(ctx)
	case k == 12:
		to = x.child(ctx)
		s = "child::" + to
	case k == 13 && x.deep < 2:
		x.deep++
		to = x.tag()
		s = "descendant::" + to
	case k == 14 && !first:
		to = x.tag()
		s = "following-sibling::" + to
	case k == 15 && !first:
		to = x.tag()
		s = "preceding-sibling::" + to
	case k == 16 && !first:
		s, to = "parent::*", "item"
	case k == 17 && !first:
		s, to = "self::"+ctx, ctx
	case k == 18 && !first && x.deep < 2 && !x.big:
		x.deep++
		to = x.tag()
		s = []string{"following::", "preceding::"}[x.rng.Intn(2)] + to
	default:
		to = x.child(ctx)
		s = to
	}
	for n := x.rng.Intn(3); n > 0; n-- {
		if x.rng.Intn(2) == 0 {
			s += x.pred(to)
		}
	}
	return s, to
}

func (x *xgen) path() string {
	s, ctx := "", ""
	if x.rng.Intn(4) > 0 {
		s, ctx = "/feed", "feed"
	}
	n := 1 + x.rng.Intn(3)
	for i := 0; i < n; i++ {
		first := s == ""
		if i > 0 && len(xChildren[ctx]) == 0 && x.rng.Intn(5) > 0 {
			break // a leaf element: further child steps select nothing
		}
		if x.deep < 2 && x.rng.Intn(4) == 0 {
			x.deep++
			s += "//"
			if x.rng.Intn(2) == 0 {
				ctx = []string{"feed", "item", "data"}[x.rng.Intn(3)] // anywhere below
			}
		} else {
			s += "/"
		}
		var st string
		st, ctx = x.step(ctx, first)
		s += st
	}
	switch x.rng.Intn(8) {
	case 0:
		s += "/text()"
	case 1:
		s += "/@" + x.attr()
	case 2:
		s += "/@*"
	}
	return s
}

// genXPathRich: a selector over the engine's feature set. string functions over node-sets are
// the majority on purpose (they are where the pinned engine keeps per-expression state).
func genXPathRich(rng *h.Rng, big bool) string {
	x := &xgen{rng: rng, big: big}
	if rng.Intn(5) < 2 {
		// the shape of a real oracle query: filter the repeated element, take one field
		s := []string{"/feed/item", "//item", "/feed/*", "/feed/item/data", "/feed/entry"}[rng.Intn(5)]
		ctx := "item"
		if strings.HasSuffix(s, "data") {
			ctx = "data"
		}
		if ctx == "item" && rng.Intn(3) > 0 {
			s += "[" + x.itemPred(0) + "]"
		} else {
			s += "[" + x.boolean(ctx, 0) + "]"
		}
		if rng.Intn(4) == 0 {
			s += x.pred(ctx)
		}
		switch rng.Intn(6) {
		case 0:
			s += "/" + x.child(ctx) + "/text()"
		case 1:
			s += "/@id"
		case 2:
		default:
			s += "/" + x.child(ctx)
		}
		return s
	}
	s := x.path()
	if rng.Intn(8) == 0 && !big {
		s += " | " + x.path()
	}
	return s
}

// ---------------------------------------------------------------- JSONPath

func feedJSON(rng *h.Rng, n int) string {
	var items []string
	for i := 0; i < n; i++ {
		it := fmt.Sprintf(`{"id":%d,"name":%q,"price":%s`, i, xWords[rng.Intn(len(xWords))], genNumber(rng))
		if rng.Intn(2) == 0 {
			it += fmt.Sprintf(`,"qty":%d`, rng.Intn(10))
		}
		if rng.Intn(4) == 0 {
			it += fmt.Sprintf(`,"tags":[%q,%q]`, xWords[rng.Intn(len(xWords))], xWords[rng.Intn(len(xWords))])
		}
		if rng.Intn(5) == 0 {
			it += `,"data":{"a":` + genJSON(rng, 3) + `,"b":null}`
		}
		items = append(items, it+"}")
	}
	return fmt.Sprintf(`{"title":"prices","count":%d,"items":[%s],"data":{"a":[1,2,3],"b":{"a":"x"}},"ok":true}`, n, strings.Join(items, sep(rng)))
}

type jgen struct {
	rng  *h.Rng
	deep int // recursive-descent steps so far: at most 2 (C12 hang-selector-blowup)
}

var jKeys = map[string][]string{
	"root": {"items", "items", "data", "title", "count", "ok"},
	"item": {"name", "price", "id", "qty", "tags", "data", "name", "price"},
	"data": {"a", "b"},
}

func (j *jgen) key(ctx string) string {
	if c := jKeys[ctx]; len(c) > 0 && j.rng.Intn(6) > 0 {
		return c[j.rng.Intn(len(c))]
	}
	return []string{"items", "name", "price", "id", "qty", "tags", "data", "a", "b", "title", "count", "ok", "k1", "x"}[j.rng.Intn(14)]
}
func (j *jgen) num() string {
	return []string{"0", "1", "2", "3", "10", "100", "3.5", "-1"}[j.rng.Intn(8)]
}

func (j *jgen) operand(ctx string) string {
	switch j.rng.Intn(9) {
	case 0, 1, 2, 3:
		return "@." + j.key(ctx)
	case 4:
		return j.num()
	case 5:
		return "'" + []string{"alpha", "7", "x", ""}[j.rng.Intn(4)] + "'"
	case 6:
		return "@." + j.key(ctx) + "." + j.key("data")
	case 7:
		return []string{"pi", "e", "true", "false", "null"}[j.rng.Intn(5)]
	}
	return "@.length"
}

func (j *jgen) expr(ctx string, depth int) string {
	switch k := j.rng.Intn(12); {
	case k < 4:
		return j.operand(ctx) + " " + []string{"==", "!=", "<", "<=", ">", ">="}[j.rng.Intn(6)] + " " + j.operand(ctx)
	case k == 4:
		return j.operand(ctx)
	case k == 5:
		return "@." + j.key(ctx) + " =~ '" + []string{"^a", "7", ".*a$", "[0-9]+"}[j.rng.Intn(4)] + "'"
	case k == 6 && depth < 2:
		return j.expr(ctx, depth+1) + " && " + j.expr(ctx, depth+1)
	case k == 7 && depth < 2:
		return j.expr(ctx, depth+1) + " || " + j.expr(ctx, depth+1)
	case k == 8:
		return j.operand(ctx) + " " + []string{"+", "-", "*", "/", "%", "**"}[j.rng.Intn(6)] + " " + j.num() + " > " + j.num()
	case k == 9:
		return []string{"length", "abs", "round", "not", "sum", "avg", "floor", "sqrt"}[j.rng.Intn(8)] + "(" + j.operand(ctx) + ") " + []string{"==", ">", "<"}[j.rng.Intn(3)] + " " + j.num()
	case k == 10 && depth < 2:
		return "(" + j.expr(ctx, depth+1) + ")"
	}
	return "@." + j.key(ctx) + " & 1 == 1"
}

// step below a value of kind ctx ("root", "items" = the array, "item", "data", "" = unknown)
func (j *jgen) step(ctx string) (string, string) {
	elem := map[string]string{"items": "item"}[ctx] // what an index / filter / wildcard selects
	into := func(k string) string {
		switch k {
		case "items":
			return "items"
		case "data":
			return "data"
		}
		return ""
	}
	kctx := ctx
	if ctx == "items" {
		kctx = "item"
	}
	switch k := j.rng.Intn(24); {
	case k < 5 && ctx != "items":
		key := j.key(kctx)
		return "." + key, into(key)
	case k == 5 && ctx != "items":
		key := j.key(kctx)
		return "['" + key + "']", into(key)
	case k == 6 && j.deep < 2:
		j.deep++
		key := j.key("item")
		return ".." + key, into(key)
	case k == 7:
		return ".*", elem
	case k == 8 || k < 5:
		return "[*]", elem
	case k == 9 || k == 5:
		return "[" + strconv.Itoa(j.rng.Intn(5)) + "]", elem
	case k == 10:
		return "[-" + strconv.Itoa(1+j.rng.Intn(3)) + "]", elem
	case k == 11:
		return "[" + strconv.Itoa(j.rng.Intn(3)) + "," + strconv.Itoa(j.rng.Intn(6)) + "]", elem
	case k == 12:
		return "['" + j.key(kctx) + "','" + j.key(kctx) + "']", ""
	case k == 13:
		return "[" + strconv.Itoa(j.rng.Intn(3)) + ":" + strconv.Itoa(j.rng.Intn(8)) + "]", elem
	case k == 14:
		return "[" + []string{"", "1", "-3"}[j.rng.Intn(3)] + ":" + []string{"", "4", "-1"}[j.rng.Intn(3)] + ":" + []string{"2", "1", "3", "-1"}[j.rng.Intn(4)] + "]", elem
	case k <= 19:
		return "[?(" + j.expr(kctx, 0) + ")]", elem
	case k == 20:
		return "[(@.length-" + strconv.Itoa(1+j.rng.Intn(2)) + ")]", elem
	case k == 21 && j.deep < 2:
		j.deep++
		return "..[?(" + j.expr("item", 0) + ")]", "item"
	case k == 22 && j.deep < 2:
		j.deep++
		return "..*", ""
	}
	return ".items", "items"
}

func genJSONPathRich(rng *h.Rng) string {
	j := &jgen{rng: rng}
	s, ctx := "$", "root"
	if rng.Intn(2) == 0 {
		s, ctx = "$.items", "items"
	}
	if rng.Intn(5) < 2 {
		// the shape of a real oracle query: filter the array, take one field
		s = []string{"$.items", "$..items", "$.items"}[rng.Intn(3)] + "[?(" + j.expr("item", 0) + ")]"
		if rng.Intn(3) > 0 {
			s += "." + j.key("item")
		}
		return s
	}
	for i, n := 0, 1+rng.Intn(3); i < n; i++ {
		if i > 0 && ctx == "" && rng.Intn(5) > 0 {
			break // a scalar (or unknown) value: further steps select nothing
		}
		var st string
		st, ctx = j.step(ctx)
		s += st
	}
	if rng.Intn(12) == 0 {
		s += ".length()"
	}
	return s
}

// ---------------------------------------------------------------- generation

// vetted evaluates (doc, sel) once with a clock: a pair that takes long sequentially is not used
// for the concurrent cases (the engines cannot be interrupted; their blow-ups are C12's findings).
func vetted(doc []byte, sel string) (string, bool) {
	t0 := time.Now()
	type out struct{ s string }
	ch := make(chan out, 1)
	go func() { ch <- out{parseOnce(doc, sel)} }()
	select {
	case o := <-ch:
		if el := time.Since(t0); el > 300*time.Millisecond {
			fmt.Fprintf(os.Stderr, "C07 generator: slow selector (%v, document of %d bytes): %s\n", el, len(doc), sel)
		}
		// review H #7: the case set is a function of VERIF_SEED only – a pair is never dropped because of the
		// wall clock (measured: 4 of 2235 pairs took 30..77 ms, scheduling noise; the structural bounds of the
		// grammar keep the engines out of their quadratic cases). The deterministic cost bound is a guard
		// for grammars to come; at present it drops nothing.
		return o.s, selCost(doc, sel) <= 4000000
	case <-time.After(60 * time.Second):
		panic(fmt.Sprintf("C07 generator: dataParse hangs on selector %q (document of %d bytes): the grammar must not generate it", sel, len(doc)))
	}
}

// selCost: a deterministic estimate of the work of one evaluation: document size times the number of
// steps, predicates and function calls of the selector (each may visit every node once more)
func selCost(doc []byte, sel string) int {
	k := 1 + strings.Count(sel, "/") + 2*strings.Count(sel, "//") + 2*strings.Count(sel, "..") + 2*strings.Count(sel, "[") + strings.Count(sel, "(") + 3*strings.Count(sel, "::")
	return len(doc) * k
}

func genCQ(tier string, rng *h.Rng, emit func(string)) {
	n := 1400
	if tier == "thorough" {
		n = 9000
	}
	for i := 0; i < n; i++ {
		xml := i%10 < 7
		var d1, d2, s1, s2 string
		size := []int{3, 8, 20, 40, 120, 400}[rng.Intn(6)]
		if i%10 == 0 {
			size = 400 // some large feeds in every run: long evaluations overlap for certain
		}
		if xml {
			if rng.Intn(4) == 0 {
				d1, d2 = treeXML(rng), treeXML(rng)
			} else {
				d1, d2 = feedXML(rng, size), feedXML(rng, 1+rng.Intn(size))
			}
			s1, s2 = genXPathRich(rng, size >= 100), genXPathRich(rng, size >= 100)
		} else {
			d1, d2 = feedJSON(rng, size/2+1), feedJSON(rng, 1+rng.Intn(size/2+1))
			s1, s2 = genJSONPathRich(rng), genJSONPathRich(rng)
		}
		mode := []string{"same", "same", "sels", "docs", "mix"}[rng.Intn(5)]
		if mode == "mix" {
			if xml {
				d2, s2 = feedJSON(rng, 1+rng.Intn(20)), genJSONPathRich(rng)
			} else {
				d2, s2 = feedXML(rng, 1+rng.Intn(20)), genXPathRich(rng, false)
			}
		}
		switch mode {
		case "sels":
			d2 = d1
		case "docs":
			s2 = s1
		}
		G := []int{2, 4, 8, 16}[rng.Intn(4)]
		N := []int{4, 8, 16}[rng.Intn(3)]
		if size >= 120 {
			N = 4
		}
		r1, ok1 := vetted([]byte(d1), s1)
		if !ok1 {
			continue
		}
		line := fmt.Sprintf("cq %s %d %d %s %s %s %s", mode, G, N, h.Hex(randAddr(rng)), h.Hex([]byte(d1)), h.Hex([]byte(s1)), r1)
		if mode == "same" {
			line += " . . ."
		} else {
			r2, ok2 := vetted([]byte(d2), s2)
			if !ok2 {
				continue
			}
			line += fmt.Sprintf(" %s %s %s", h.Hex([]byte(d2)), h.Hex([]byte(s2)), r2)
		}
		emit(line)
	}
}

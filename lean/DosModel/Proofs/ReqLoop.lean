/-
Helper lemmas for C19: the request loop `handleReq` as a function of the endpoint outcomes.
-/
import DosModel.Model.ReqLoop

namespace Dos.ReqLoop
open Dos

/-- `f` is invoked when the loop reaches an endpoint with this outcome -/
def called : Outcome → Bool
  | .ctxDone | .opDone => false
  | _ => true

/-- the loop does not go on to the next endpoint after this outcome -/
def stops : Outcome → Bool
  | .accept | .revert | .insufficient | .opDone => true
  | _ => false

/-- the loop invokes the endpoint's cancel function after this outcome -/
def cancels : Outcome → Bool
  | .closedConn | .nonceErr => true
  | _ => false

/-- endpoints contacted, as a function of the outcomes alone -/
def contactedSpec : Nat → List Outcome → List Nat
  | _, [] => []
  | k, o :: os => (if called o then [k] else []) ++ (if stops o then [] else contactedSpec (k + 1) os)

def cancelledSpec : Nat → List Outcome → List Nat
  | _, [] => []
  | k, o :: os => (if cancels o then [k] else []) ++ (if stops o then [] else cancelledSpec (k + 1) os)

theorem loop_contacted (fixed : Bool) : ∀ (os : List Outcome) (k : Nat) (s : St),
    (loop fixed k os s).contacted = s.contacted ++ contactedSpec k os := by
  intro os
  induction os with
  | nil => intro k s; simp [loop, finish, contactedSpec]
  | cons o os ih =>
    intro k s
    cases o <;> simp [loop, finish, contactedSpec, called, stops, ih]

theorem loop_cancelled (fixed : Bool) : ∀ (os : List Outcome) (k : Nat) (s : St),
    (loop fixed k os s).cancelled = s.cancelled ++ cancelledSpec k os := by
  intro os
  induction os with
  | nil => intro k s; simp [loop, finish, cancelledSpec]
  | cons o os ih =>
    intro k s
    cases o <;> simp [loop, finish, cancelledSpec, cancels, stops, ih]

theorem handleReq_contacted (fixed : Bool) (os : List Outcome) :
    (handleReq fixed os).contacted = contactedSpec 0 os := by
  simp [handleReq, loop_contacted]

theorem handleReq_cancelled (fixed : Bool) (os : List Outcome) :
    (handleReq fixed os).cancelled = cancelledSpec 0 os := by
  simp [handleReq, loop_cancelled]

/-- endpoint `k+i` is contacted iff `f` is invoked for its outcome and no earlier endpoint stopped the loop -/
theorem mem_contactedSpec : ∀ (os : List Outcome) (k j : Nat),
    j ∈ contactedSpec k os ↔
      ∃ i o, j = k + i ∧ os[i]? = some o ∧ called o = true ∧
        ∀ m o', m < i → os[m]? = some o' → stops o' = false := by
  intro os
  induction os with
  | nil => intro k j; simp [contactedSpec]
  | cons o os ih =>
    intro k j
    simp only [contactedSpec, List.mem_append]
    constructor
    · rintro (h | h)
      · by_cases hc : called o = true
        · simp [hc] at h
          exact ⟨0, o, by omega, by simp, hc, by intro m o' hm; omega⟩
        · simp [hc] at h
      · by_cases hs : stops o = true
        · simp [hs] at h
        · simp [hs] at h
          obtain ⟨i, o1, hj, hi, hc, hall⟩ := (ih (k + 1) j).1 h
          refine ⟨i + 1, o1, by omega, by simpa using hi, hc, ?_⟩
          intro m o' hm hget
          cases m with
          | zero => simp at hget; subst hget; simpa using hs
          | succ m => exact hall m o' (by omega) (by simpa using hget)
    · rintro ⟨i, o1, hj, hi, hc, hall⟩
      cases i with
      | zero =>
        simp at hi; subst hi
        left; simp [hc]; omega
      | succ i =>
        right
        have hs : stops o = false := hall 0 o (by omega) (by simp)
        simp [hs]
        refine (ih (k + 1) j).2 ⟨i, o1, by omega, by simpa using hi, hc, ?_⟩
        intro m o' hm hget
        exact hall (m + 1) o' (by omega) (by simpa using hget)

theorem mem_cancelledSpec : ∀ (os : List Outcome) (k j : Nat),
    j ∈ cancelledSpec k os ↔
      ∃ i o, j = k + i ∧ os[i]? = some o ∧ cancels o = true ∧
        ∀ m o', m < i → os[m]? = some o' → stops o' = false := by
  intro os
  induction os with
  | nil => intro k j; simp [cancelledSpec]
  | cons o os ih =>
    intro k j
    simp only [cancelledSpec, List.mem_append]
    constructor
    · rintro (h | h)
      · by_cases hc : cancels o = true
        · simp [hc] at h
          exact ⟨0, o, by omega, by simp, hc, by intro m o' hm; omega⟩
        · simp [hc] at h
      · by_cases hs : stops o = true
        · simp [hs] at h
        · simp [hs] at h
          obtain ⟨i, o1, hj, hi, hc, hall⟩ := (ih (k + 1) j).1 h
          refine ⟨i + 1, o1, by omega, by simpa using hi, hc, ?_⟩
          intro m o' hm hget
          cases m with
          | zero => simp at hget; subst hget; simpa using hs
          | succ m => exact hall m o' (by omega) (by simpa using hget)
    · rintro ⟨i, o1, hj, hi, hc, hall⟩
      cases i with
      | zero =>
        simp at hi; subst hi
        left; simp [hc]; omega
      | succ i =>
        right
        have hs : stops o = false := hall 0 o (by omega) (by simp)
        simp [hs]
        refine (ih (k + 1) j).2 ⟨i, o1, by omega, by simpa using hi, hc, ?_⟩
        intro m o' hm hget
        exact hall (m + 1) o' (by omega) (by simpa using hget)

/-- contacted endpoints are strictly increasing: each at most once, in endpoint order -/
theorem contactedSpec_sorted : ∀ (os : List Outcome) (k : Nat),
    (contactedSpec k os).Pairwise (· < ·) ∧ ∀ j ∈ contactedSpec k os, k ≤ j := by
  intro os
  induction os with
  | nil => intro k; simp [contactedSpec]
  | cons o os ih =>
    intro k
    obtain ⟨h1, h2⟩ := ih (k + 1)
    by_cases hc : called o = true <;> by_cases hs : stops o = true <;>
      simp [contactedSpec, hc, hs, h1]
    · constructor
      · intro j hj; have := h2 j hj; omega
      · intro j hj; have := h2 j hj; omega
    · intro j hj; have := h2 j hj; omega

/-! ### the reply -/

/-- state invariant of the loop: `err` is the error of the last endpoint on which `f` was invoked -/
def lastErr : List Outcome → Option ErrKind → Option ErrKind
  | [], e => e
  | o :: os, e =>
    if stops o then (if called o then o.err else e)
    else lastErr os (if called o then o.err else e)

/-- does the loop end on an accepting endpoint -/
def acceptedSpec : List Outcome → Bool
  | [] => false
  | o :: os => if stops o then o == .accept else acceptedSpec os

/-- does the loop reach an `opDone` endpoint (returns without replying) -/
def gaveUp : List Outcome → Bool
  | [] => false
  | o :: os => if stops o then o == .opDone else gaveUp os

/-- `response.idx` -/
def idxSpec : Nat → List Outcome → Nat → Nat
  | _, [], i => i
  | k, o :: os, i => if stops o then (if o == .opDone then i else k) else idxSpec (k + 1) os k

/-- the F8 repair: an error is supplied when nothing was attempted -/
def fixErr (fixed acc : Bool) (e : Option ErrKind) : Option ErrKind :=
  if fixed && !acc && e.isNone then some ErrKind.noEndpoint else e

theorem loop_reply (fixed : Bool) : ∀ (os : List Outcome) (k : Nat) (s : St),
    (loop fixed k os s).reply =
      if gaveUp os then none
      else some { idx := idxSpec k os s.idx, accepted := acceptedSpec os,
                  err := fixErr fixed (acceptedSpec os) (lastErr os s.err) } := by
  intro os
  induction os with
  | nil => intro k s; simp [loop, finish, gaveUp, acceptedSpec, lastErr, idxSpec, fixErr]
  | cons o os ih =>
    intro k s
    cases o <;> simp [loop, finish, gaveUp, acceptedSpec, lastErr, stops, called, Outcome.err, idxSpec, fixErr, ih]

theorem handleReq_reply_none (fixed : Bool) (os : List Outcome) :
    (handleReq fixed os).reply = none ↔ gaveUp os = true := by
  unfold handleReq
  rw [loop_reply]
  by_cases h : gaveUp os = true <;> simp [h]

theorem handleReq_reply_some (fixed : Bool) (os : List Outcome) (r : Reply)
    (h : (handleReq fixed os).reply = some r) :
    r.accepted = acceptedSpec os ∧ r.err = fixErr fixed (acceptedSpec os) (lastErr os none) := by
  unfold handleReq at h
  rw [loop_reply] at h
  by_cases hg : gaveUp os = true
  · simp [hg] at h
  · simp [hg] at h
    subst h
    simp

/-- an accepting endpoint ends the loop with `err = nil` -/
theorem lastErr_of_accepted : ∀ (os : List Outcome) (e : Option ErrKind),
    acceptedSpec os = true → lastErr os e = none := by
  intro os
  induction os with
  | nil => intro e h; simp [acceptedSpec] at h
  | cons o os ih =>
    intro e h
    cases o <;> simp_all [acceptedSpec, lastErr, stops, called, Outcome.err]

/-- without an accepting endpoint and with at least one invocation of `f`, an error is left -/
theorem lastErr_some_of_contacted : ∀ (os : List Outcome) (e : Option ErrKind) (k : Nat),
    acceptedSpec os = false → (contactedSpec k os ≠ [] ∨ e.isSome) → (lastErr os e).isSome := by
  intro os
  induction os with
  | nil => intro e k _ h; simpa [contactedSpec, lastErr] using h
  | cons o os ih =>
    intro e k hacc h
    cases o
    case accept => simp [acceptedSpec, stops] at hacc
    case revert => simp [lastErr, stops, called, Outcome.err]
    case insufficient => simp [lastErr, stops, called, Outcome.err]
    case opDone =>
      simp [lastErr, stops, called]
      simpa [contactedSpec, stops, called] using h
    case ctxDone =>
      simp only [lastErr, stops, called]
      simp [acceptedSpec, stops] at hacc
      exact ih e (k + 1) hacc (by simpa [contactedSpec, stops, called] using h)
    case closedConn =>
      simp only [lastErr, stops, called]
      simp [acceptedSpec, stops] at hacc
      exact ih _ (k + 1) hacc (Or.inr rfl)
    case nonceErr =>
      simp only [lastErr, stops, called]
      simp [acceptedSpec, stops] at hacc
      exact ih _ (k + 1) hacc (Or.inr rfl)
    case otherErr =>
      simp only [lastErr, stops, called]
      simp [acceptedSpec, stops] at hacc
      exact ih _ (k + 1) hacc (Or.inr rfl)

theorem lastErr_none_of_not_contacted : ∀ (os : List Outcome) (k : Nat),
    contactedSpec k os = [] → lastErr os none = none := by
  intro os
  induction os with
  | nil => intro k _; simp [lastErr]
  | cons o os ih =>
    intro k h
    cases o <;> simp_all [lastErr, stops, called, contactedSpec]
    all_goals exact ih (k + 1) h

/-- the loop ends on an accepting endpoint iff some contacted endpoint accepted -/
theorem acceptedSpec_iff : ∀ (os : List Outcome) (k : Nat),
    acceptedSpec os = true ↔ ∃ i, k + i ∈ contactedSpec k os ∧ os[i]? = some .accept := by
  intro os
  induction os with
  | nil => intro k; simp [acceptedSpec, contactedSpec]
  | cons o os ih =>
    intro k
    constructor
    · intro h
      cases o <;> simp [acceptedSpec, stops] at h
      · exact ⟨0, by simp [contactedSpec, called], by simp⟩
      all_goals
        obtain ⟨i, hi, ho⟩ := (ih (k + 1)).1 h
        exact ⟨i + 1, by simp [contactedSpec, called, stops]; (try right); (have : k + (i + 1) = k + 1 + i := by omega); rw [this]; exact hi, by simpa using ho⟩
    · rintro ⟨i, hi, ho⟩
      cases i with
      | zero => simp at ho; subst ho; simp [acceptedSpec, stops]
      | succ i =>
        have hmem := (mem_contactedSpec (o :: os) k (k + (i + 1))).1 hi
        obtain ⟨i', o1, hj, hget, _, hall⟩ := hmem
        have hi' : i' = i + 1 := by omega
        subst hi'
        have hs : stops o = false := hall 0 o (by omega) (by simp)
        have : acceptedSpec (o :: os) = acceptedSpec os := by simp [acceptedSpec, hs]
        rw [this]
        refine (ih (k + 1)).2 ⟨i, ?_, by simpa using ho⟩
        have hh : k + (i + 1) = k + 1 + i := by omega
        rw [hh] at hi
        simpa [contactedSpec, hs, called] using (by
          simp only [contactedSpec, hs, List.mem_append] at hi
          rcases hi with h | h
          · by_cases hc : called o = true
            · simp [hc] at h; omega
            · simp [hc] at h
          · simpa using h)

/-- at most one contacted endpoint has outcome `accept` -/
theorem accept_count : ∀ (os : List Outcome) (k : Nat),
    ((contactedSpec k os).filter (fun j => os[j - k]? = some Outcome.accept)).length ≤ 1 := by
  intro os
  induction os with
  | nil => intro k; simp [contactedSpec]
  | cons o os ih =>
    intro k
    have hshift : ∀ j ∈ contactedSpec (k + 1) os,
        ((o :: os)[j - k]? = some Outcome.accept) = (os[j - (k + 1)]? = some Outcome.accept) := by
      intro j hj
      have := (contactedSpec_sorted os (k + 1)).2 j hj
      have e : j - k = (j - (k + 1)) + 1 := by omega
      rw [e]; simp
    have hfilter : (contactedSpec (k + 1) os).filter (fun j => (o :: os)[j - k]? = some Outcome.accept)
        = (contactedSpec (k + 1) os).filter (fun j => os[j - (k + 1)]? = some Outcome.accept) := by
      apply List.filter_congr
      intro j hj
      simp [hshift j hj]
    cases o <;> simp [contactedSpec, called, stops, hfilter] <;>
      first
        | exact ih (k + 1)
        | skip

/-! ### every endpoint context already done (the F8 situation) -/

theorem contactedSpec_replicate_done : ∀ (n k : Nat), contactedSpec k (List.replicate n Outcome.ctxDone) = [] := by
  intro n
  induction n with
  | zero => intro k; simp [contactedSpec]
  | succ n ih => intro k; simp [List.replicate_succ, contactedSpec, called, stops, ih]

theorem gaveUp_replicate_done : ∀ n : Nat, gaveUp (List.replicate n Outcome.ctxDone) = false := by
  intro n
  induction n with
  | zero => simp [gaveUp]
  | succ n ih => simp [List.replicate_succ, gaveUp, stops, ih]

theorem acceptedSpec_replicate_done : ∀ n : Nat, acceptedSpec (List.replicate n Outcome.ctxDone) = false := by
  intro n
  induction n with
  | zero => simp [acceptedSpec]
  | succ n ih => simp [List.replicate_succ, acceptedSpec, stops, ih]

end Dos.ReqLoop

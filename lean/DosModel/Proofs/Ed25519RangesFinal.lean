/-
C20 (round 2) — the five routines of scalar.go, instantiated: kernel-evaluated interval analysis
(`*_rangeCheck`, `decide +kernel`), exact value change of the last two blocks (`*_tail_value`, `ring`), and the
assembled byte-level results (`*_full`): for ALL 32-byte operands
  * no int64 overflow anywhere in the routine (`SafeFrom`), hence Go's wrapping run = the unbounded-`Int` run
    = the translated function of Gen/Ed25519Sc.lean;
  * the 32 output bytes spell exactly the canonical representative: `(a·b + c) mod ℓ` etc.
-/
import DosModel.Proofs.Ed25519Ranges

set_option exponentiation.threshold 600

namespace Dos.Ed25519
open Dos Dos.IntervalProg Dos.IntervalProg.ScProg Dos.Gen.Ed25519Sc Dos.Gen.Ed25519ScProg List

/-- a value in [0, ℓ) congruent to `x` is `x mod ℓ` -/
theorem eq_emod_of_range {v x : Int} (h0 : 0 ≤ v) (h1 : v < (ell : Int)) (hc : v % (ell : Int) = x % (ell : Int)) :
    v = x % (ell : Int) := by
  rw [← hc, Int.emod_eq_of_lt h0 h1]

/-! ### scMulAdd -/

theorem scMulAdd_rangeCheck : rangeCheck scMulAdd_prog [32, 32, 32] = true := by decide +kernel

theorem scMulAdd_tail_value (st : L24) :
    value (runBlocks shrI (scMulAdd_blocks.drop (scMulAdd_blocks.length - 2)) st) = value st - st.s12 * (ell : Int) := by
  unfold_gen
  simp only [List.length_cons, List.length_nil, Nat.reduceAdd, Nat.reduceSub, List.drop_succ_cons, List.drop_zero,
    runBlocks, List.foldl]
  unfold_gen
  simp only [value, shl, ell]
  ring

theorem scMulAdd_limbs_eq (a b c : Bytes) :
    toL24 (limbsW id scMulAdd_prog (loadW id scMulAdd_prog (scMulAdd_prog.rawVals [a, b, c])))
      = app36 (scMulAdd_limbs shrI) (scMulAdd_load shrI a b c) := by
  rw [scMulAdd_tie_load, scMulAdd_tie_limbs]

/-- ranges of the result limbs and overflow freedom, for all 32-byte operands -/
theorem scMulAdd_ranges (a b c : Bytes) (ha : a.length = 32) (hb : b.length = 32) (hc : c.length = 32) :
    scMulAdd_prog.SafeFrom (scMulAdd_prog.rawVals [a, b, c])
    ∧ 0 ≤ (app36 (scMulAdd_limbs shrI) (scMulAdd_load shrI a b c)).s11
    ∧ (app36 (scMulAdd_limbs shrI) (scMulAdd_load shrI a b c)).s11 ≤ 2097152
    ∧ 0 ≤ value (app36 (scMulAdd_limbs shrI) (scMulAdd_load shrI a b c))
    ∧ value (app36 (scMulAdd_limbs shrI) (scMulAdd_load shrI a b c)) < (ell : Int) := by
  have hlens : [a, b, c].map List.length = [32, 32, 32] := by simp [ha, hb, hc]
  have hd : Digits11 (toL24 (limbsW id scMulAdd_prog (loadW id scMulAdd_prog (scMulAdd_prog.rawVals [a, b, c])))) := by
    rw [scMulAdd_limbs_eq]; exact scMulAdd_final _ _ _ _ _ _ _ _ _ _ _ _ _ _ _ _ _ _ _ _ _ _ _ _ _ _ _ _ _ _ _ _ _ _ _ _
  have hz : HiZero (toL24 (limbsW id scMulAdd_prog (loadW id scMulAdd_prog (scMulAdd_prog.rawVals [a, b, c])))) := by
    rw [scMulAdd_limbs_eq]; exact scMulAdd_hiZero shrI _ _ _ _ _ _ _ _ _ _ _ _ _ _ _ _ _ _ _ _ _ _ _ _ _ _ _ _ _ _ _ _ _ _ _ _
  have h := routine_ranges scMulAdd_tie_blocks scMulAdd_tail_value [a, b, c] (by rw [hlens]; exact scMulAdd_rangeCheck) hd hz
  rw [scMulAdd_limbs_eq] at h
  exact h

theorem scMulAdd_congr (shr : Shr) (l : List Int) :
    value (app36 (scMulAdd_limbs shr) l) % (ell : Int) = (value12 (l.getD 0 0) (l.getD 1 0) (l.getD 2 0) (l.getD 3 0) (l.getD 4 0) (l.getD 5 0) (l.getD 6 0) (l.getD 7 0) (l.getD 8 0) (l.getD 9 0) (l.getD 10 0) (l.getD 11 0) * value12 (l.getD 12 0) (l.getD 13 0) (l.getD 14 0) (l.getD 15 0) (l.getD 16 0) (l.getD 17 0) (l.getD 18 0) (l.getD 19 0) (l.getD 20 0) (l.getD 21 0) (l.getD 22 0) (l.getD 23 0) + value12 (l.getD 24 0) (l.getD 25 0) (l.getD 26 0) (l.getD 27 0) (l.getD 28 0) (l.getD 29 0) (l.getD 30 0) (l.getD 31 0) (l.getD 32 0) (l.getD 33 0) (l.getD 34 0) (l.getD 35 0)) % (ell : Int) := by
  unfold app36
  rw [← scMulAdd_init_value]
  exact emod_eq_of_dvd_sub (runBlocks_preserves shr _ scMulAdd_blocks_preserve _)

/-- **scMulAdd, complete**: the output bytes spell exactly the canonical value -/
theorem scMulAdd_full (a b c : Bytes) (ha : a.length = 32) (hb : b.length = 32) (hc : c.length = 32) :
    (leNat (scMulAdd shrI a b c) : Int) = ((leNat a : Int) * leNat b + leNat c) % (ell : Int) := by
  obtain ⟨_, r0, r1, r2, r3⟩ := scMulAdd_ranges a b c ha hb hc
  have ea := unpack12_value a ha
  have eb := unpack12_value b hb
  have ec := unpack12_value c hc
  have hd : Digits11 (app36 (scMulAdd_limbs shrI) (scMulAdd_load shrI a b c)) := scMulAdd_final _ _ _ _ _ _ _ _ _ _ _ _ _ _ _ _ _ _ _ _ _ _ _ _ _ _ _ _ _ _ _ _ _ _ _ _
  have hz : HiZero (app36 (scMulAdd_limbs shrI) (scMulAdd_load shrI a b c)) := scMulAdd_hiZero shrI _ _ _ _ _ _ _ _ _ _ _ _ _ _ _ _ _ _ _ _ _ _ _ _ _ _ _ _ _ _ _ _ _ _ _ _
  have hpk := packed_value _ hd hz ⟨r0, by omega⟩
  rw [scMulAdd_eq_app, scMulAdd_store_eq, hpk]
  apply eq_emod_of_range r2 r3
  rw [scMulAdd_congr, ← ea, ← eb, ← ec]
  rfl

/-! ### scAdd -/

theorem scAdd_rangeCheck : rangeCheck scAdd_prog [32, 32] = true := by decide +kernel

theorem scAdd_tail_value (st : L24) :
    value (runBlocks shrI (scAdd_blocks.drop (scAdd_blocks.length - 2)) st) = value st - st.s12 * (ell : Int) := by
  unfold_gen
  simp only [List.length_cons, List.length_nil, Nat.reduceAdd, Nat.reduceSub, List.drop_succ_cons, List.drop_zero,
    runBlocks, List.foldl]
  unfold_gen
  simp only [value, shl, ell]
  ring

theorem scAdd_limbs_eq (a c : Bytes) :
    toL24 (limbsW id scAdd_prog (loadW id scAdd_prog (scAdd_prog.rawVals [a, c])))
      = app24 (scAdd_limbs shrI) (scAdd_load shrI a c) := by
  rw [scAdd_tie_load, scAdd_tie_limbs]

/-- ranges of the result limbs and overflow freedom, for all 32-byte operands -/
theorem scAdd_ranges (a c : Bytes) (ha : a.length = 32) (hc : c.length = 32) :
    scAdd_prog.SafeFrom (scAdd_prog.rawVals [a, c])
    ∧ 0 ≤ (app24 (scAdd_limbs shrI) (scAdd_load shrI a c)).s11
    ∧ (app24 (scAdd_limbs shrI) (scAdd_load shrI a c)).s11 ≤ 2097152
    ∧ 0 ≤ value (app24 (scAdd_limbs shrI) (scAdd_load shrI a c))
    ∧ value (app24 (scAdd_limbs shrI) (scAdd_load shrI a c)) < (ell : Int) := by
  have hlens : [a, c].map List.length = [32, 32] := by simp [ha, hc]
  have hd : Digits11 (toL24 (limbsW id scAdd_prog (loadW id scAdd_prog (scAdd_prog.rawVals [a, c])))) := by
    rw [scAdd_limbs_eq]; exact scAdd_final _ _ _ _ _ _ _ _ _ _ _ _ _ _ _ _ _ _ _ _ _ _ _ _
  have hz : HiZero (toL24 (limbsW id scAdd_prog (loadW id scAdd_prog (scAdd_prog.rawVals [a, c])))) := by
    rw [scAdd_limbs_eq]; exact scAdd_hiZero shrI _ _ _ _ _ _ _ _ _ _ _ _ _ _ _ _ _ _ _ _ _ _ _ _
  have h := routine_ranges scAdd_tie_blocks scAdd_tail_value [a, c] (by rw [hlens]; exact scAdd_rangeCheck) hd hz
  rw [scAdd_limbs_eq] at h
  exact h

theorem scAdd_congr (shr : Shr) (l : List Int) :
    value (app24 (scAdd_limbs shr) l) % (ell : Int) = (value12 (l.getD 0 0) (l.getD 1 0) (l.getD 2 0) (l.getD 3 0) (l.getD 4 0) (l.getD 5 0) (l.getD 6 0) (l.getD 7 0) (l.getD 8 0) (l.getD 9 0) (l.getD 10 0) (l.getD 11 0) + value12 (l.getD 12 0) (l.getD 13 0) (l.getD 14 0) (l.getD 15 0) (l.getD 16 0) (l.getD 17 0) (l.getD 18 0) (l.getD 19 0) (l.getD 20 0) (l.getD 21 0) (l.getD 22 0) (l.getD 23 0)) % (ell : Int) := by
  unfold app24
  rw [← scAdd_init_value]
  exact emod_eq_of_dvd_sub (runBlocks_preserves shr _ scAdd_blocks_preserve _)

/-- **scAdd, complete**: the output bytes spell exactly the canonical value -/
theorem scAdd_full (a c : Bytes) (ha : a.length = 32) (hc : c.length = 32) :
    (leNat (scAdd shrI a c) : Int) = ((leNat a : Int) + leNat c) % (ell : Int) := by
  obtain ⟨_, r0, r1, r2, r3⟩ := scAdd_ranges a c ha hc
  have ea := unpack12_value a ha
  have ec := unpack12_value c hc
  have hd : Digits11 (app24 (scAdd_limbs shrI) (scAdd_load shrI a c)) := scAdd_final _ _ _ _ _ _ _ _ _ _ _ _ _ _ _ _ _ _ _ _ _ _ _ _
  have hz : HiZero (app24 (scAdd_limbs shrI) (scAdd_load shrI a c)) := scAdd_hiZero shrI _ _ _ _ _ _ _ _ _ _ _ _ _ _ _ _ _ _ _ _ _ _ _ _
  have hpk := packed_value _ hd hz ⟨r0, by omega⟩
  rw [scAdd_eq_app, scAdd_store_eq, hpk]
  apply eq_emod_of_range r2 r3
  rw [scAdd_congr, ← ea, ← ec]
  rfl

/-! ### scSub -/

theorem scSub_rangeCheck : rangeCheck scSub_prog [32, 32] = true := by decide +kernel

theorem scSub_tail_value (st : L24) :
    value (runBlocks shrI (scSub_blocks.drop (scSub_blocks.length - 2)) st) = value st - st.s12 * (ell : Int) := by
  unfold_gen
  simp only [List.length_cons, List.length_nil, Nat.reduceAdd, Nat.reduceSub, List.drop_succ_cons, List.drop_zero,
    runBlocks, List.foldl]
  unfold_gen
  simp only [value, shl, ell]
  ring

theorem scSub_limbs_eq (a c : Bytes) :
    toL24 (limbsW id scSub_prog (loadW id scSub_prog (scSub_prog.rawVals [a, c])))
      = app24 (scSub_limbs shrI) (scSub_load shrI a c) := by
  rw [scSub_tie_load, scSub_tie_limbs]

/-- ranges of the result limbs and overflow freedom, for all 32-byte operands -/
theorem scSub_ranges (a c : Bytes) (ha : a.length = 32) (hc : c.length = 32) :
    scSub_prog.SafeFrom (scSub_prog.rawVals [a, c])
    ∧ 0 ≤ (app24 (scSub_limbs shrI) (scSub_load shrI a c)).s11
    ∧ (app24 (scSub_limbs shrI) (scSub_load shrI a c)).s11 ≤ 2097152
    ∧ 0 ≤ value (app24 (scSub_limbs shrI) (scSub_load shrI a c))
    ∧ value (app24 (scSub_limbs shrI) (scSub_load shrI a c)) < (ell : Int) := by
  have hlens : [a, c].map List.length = [32, 32] := by simp [ha, hc]
  have hd : Digits11 (toL24 (limbsW id scSub_prog (loadW id scSub_prog (scSub_prog.rawVals [a, c])))) := by
    rw [scSub_limbs_eq]; exact scSub_final _ _ _ _ _ _ _ _ _ _ _ _ _ _ _ _ _ _ _ _ _ _ _ _
  have hz : HiZero (toL24 (limbsW id scSub_prog (loadW id scSub_prog (scSub_prog.rawVals [a, c])))) := by
    rw [scSub_limbs_eq]; exact scSub_hiZero shrI _ _ _ _ _ _ _ _ _ _ _ _ _ _ _ _ _ _ _ _ _ _ _ _
  have h := routine_ranges scSub_tie_blocks scSub_tail_value [a, c] (by rw [hlens]; exact scSub_rangeCheck) hd hz
  rw [scSub_limbs_eq] at h
  exact h

theorem scSub_congr (shr : Shr) (l : List Int) :
    value (app24 (scSub_limbs shr) l) % (ell : Int) = (value12 (l.getD 0 0) (l.getD 1 0) (l.getD 2 0) (l.getD 3 0) (l.getD 4 0) (l.getD 5 0) (l.getD 6 0) (l.getD 7 0) (l.getD 8 0) (l.getD 9 0) (l.getD 10 0) (l.getD 11 0) - value12 (l.getD 12 0) (l.getD 13 0) (l.getD 14 0) (l.getD 15 0) (l.getD 16 0) (l.getD 17 0) (l.getD 18 0) (l.getD 19 0) (l.getD 20 0) (l.getD 21 0) (l.getD 22 0) (l.getD 23 0)) % (ell : Int) := by
  unfold app24
  have h := emod_eq_of_dvd_sub (runBlocks_preserves shr _ scSub_blocks_preserve
    (scSub_init (l.getD 0 0) (l.getD 1 0) (l.getD 2 0) (l.getD 3 0) (l.getD 4 0) (l.getD 5 0) (l.getD 6 0) (l.getD 7 0) (l.getD 8 0) (l.getD 9 0) (l.getD 10 0) (l.getD 11 0) (l.getD 12 0) (l.getD 13 0) (l.getD 14 0) (l.getD 15 0) (l.getD 16 0) (l.getD 17 0) (l.getD 18 0) (l.getD 19 0) (l.getD 20 0) (l.getD 21 0) (l.getD 22 0) (l.getD 23 0)))
  rw [scSub_init_value] at h
  rw [show scSub_limbs shr (l.getD 0 0) (l.getD 1 0) (l.getD 2 0) (l.getD 3 0) (l.getD 4 0) (l.getD 5 0) (l.getD 6 0) (l.getD 7 0) (l.getD 8 0) (l.getD 9 0) (l.getD 10 0) (l.getD 11 0) (l.getD 12 0) (l.getD 13 0) (l.getD 14 0) (l.getD 15 0) (l.getD 16 0) (l.getD 17 0) (l.getD 18 0) (l.getD 19 0) (l.getD 20 0) (l.getD 21 0) (l.getD 22 0) (l.getD 23 0)
      = runBlocks shr scSub_blocks (scSub_init (l.getD 0 0) (l.getD 1 0) (l.getD 2 0) (l.getD 3 0) (l.getD 4 0) (l.getD 5 0) (l.getD 6 0) (l.getD 7 0) (l.getD 8 0) (l.getD 9 0) (l.getD 10 0) (l.getD 11 0) (l.getD 12 0) (l.getD 13 0) (l.getD 14 0) (l.getD 15 0) (l.getD 16 0) (l.getD 17 0) (l.getD 18 0) (l.getD 19 0) (l.getD 20 0) (l.getD 21 0) (l.getD 22 0) (l.getD 23 0)) from rfl, h]
  exact Int.add_mul_emod_self_right _ _ _

/-- **scSub, complete**: the output bytes spell exactly the canonical value -/
theorem scSub_full (a c : Bytes) (ha : a.length = 32) (hc : c.length = 32) :
    (leNat (scSub shrI a c) : Int) = ((leNat a : Int) - leNat c) % (ell : Int) := by
  obtain ⟨_, r0, r1, r2, r3⟩ := scSub_ranges a c ha hc
  have ea := unpack12_value a ha
  have ec := unpack12_value c hc
  have hd : Digits11 (app24 (scSub_limbs shrI) (scSub_load shrI a c)) := scSub_final _ _ _ _ _ _ _ _ _ _ _ _ _ _ _ _ _ _ _ _ _ _ _ _
  have hz : HiZero (app24 (scSub_limbs shrI) (scSub_load shrI a c)) := scSub_hiZero shrI _ _ _ _ _ _ _ _ _ _ _ _ _ _ _ _ _ _ _ _ _ _ _ _
  have hpk := packed_value _ hd hz ⟨r0, by omega⟩
  rw [scSub_eq_app, scSub_store_eq, hpk]
  apply eq_emod_of_range r2 r3
  rw [scSub_congr, ← ea, ← ec]
  rfl

/-! ### scMul -/

theorem scMul_rangeCheck : rangeCheck scMul_prog [32, 32] = true := by decide +kernel

theorem scMul_tail_value (st : L24) :
    value (runBlocks shrI (scMul_blocks.drop (scMul_blocks.length - 2)) st) = value st - st.s12 * (ell : Int) := by
  unfold_gen
  simp only [List.length_cons, List.length_nil, Nat.reduceAdd, Nat.reduceSub, List.drop_succ_cons, List.drop_zero,
    runBlocks, List.foldl]
  unfold_gen
  simp only [value, shl, ell]
  ring

theorem scMul_limbs_eq (a b : Bytes) :
    toL24 (limbsW id scMul_prog (loadW id scMul_prog (scMul_prog.rawVals [a, b])))
      = app24 (scMul_limbs shrI) (scMul_load shrI a b) := by
  rw [scMul_tie_load, scMul_tie_limbs]

/-- ranges of the result limbs and overflow freedom, for all 32-byte operands -/
theorem scMul_ranges (a b : Bytes) (ha : a.length = 32) (hb : b.length = 32) :
    scMul_prog.SafeFrom (scMul_prog.rawVals [a, b])
    ∧ 0 ≤ (app24 (scMul_limbs shrI) (scMul_load shrI a b)).s11
    ∧ (app24 (scMul_limbs shrI) (scMul_load shrI a b)).s11 ≤ 2097152
    ∧ 0 ≤ value (app24 (scMul_limbs shrI) (scMul_load shrI a b))
    ∧ value (app24 (scMul_limbs shrI) (scMul_load shrI a b)) < (ell : Int) := by
  have hlens : [a, b].map List.length = [32, 32] := by simp [ha, hb]
  have hd : Digits11 (toL24 (limbsW id scMul_prog (loadW id scMul_prog (scMul_prog.rawVals [a, b])))) := by
    rw [scMul_limbs_eq]; exact scMul_final _ _ _ _ _ _ _ _ _ _ _ _ _ _ _ _ _ _ _ _ _ _ _ _
  have hz : HiZero (toL24 (limbsW id scMul_prog (loadW id scMul_prog (scMul_prog.rawVals [a, b])))) := by
    rw [scMul_limbs_eq]; exact scMul_hiZero shrI _ _ _ _ _ _ _ _ _ _ _ _ _ _ _ _ _ _ _ _ _ _ _ _
  have h := routine_ranges scMul_tie_blocks scMul_tail_value [a, b] (by rw [hlens]; exact scMul_rangeCheck) hd hz
  rw [scMul_limbs_eq] at h
  exact h

theorem scMul_congr (shr : Shr) (l : List Int) :
    value (app24 (scMul_limbs shr) l) % (ell : Int) = (value12 (l.getD 0 0) (l.getD 1 0) (l.getD 2 0) (l.getD 3 0) (l.getD 4 0) (l.getD 5 0) (l.getD 6 0) (l.getD 7 0) (l.getD 8 0) (l.getD 9 0) (l.getD 10 0) (l.getD 11 0) * value12 (l.getD 12 0) (l.getD 13 0) (l.getD 14 0) (l.getD 15 0) (l.getD 16 0) (l.getD 17 0) (l.getD 18 0) (l.getD 19 0) (l.getD 20 0) (l.getD 21 0) (l.getD 22 0) (l.getD 23 0)) % (ell : Int) := by
  unfold app24
  rw [← scMul_init_value]
  exact emod_eq_of_dvd_sub (runBlocks_preserves shr _ scMul_blocks_preserve _)

/-- **scMul, complete**: the output bytes spell exactly the canonical value -/
theorem scMul_full (a b : Bytes) (ha : a.length = 32) (hb : b.length = 32) :
    (leNat (scMul shrI a b) : Int) = ((leNat a : Int) * leNat b) % (ell : Int) := by
  obtain ⟨_, r0, r1, r2, r3⟩ := scMul_ranges a b ha hb
  have ea := unpack12_value a ha
  have eb := unpack12_value b hb
  have hd : Digits11 (app24 (scMul_limbs shrI) (scMul_load shrI a b)) := scMul_final _ _ _ _ _ _ _ _ _ _ _ _ _ _ _ _ _ _ _ _ _ _ _ _
  have hz : HiZero (app24 (scMul_limbs shrI) (scMul_load shrI a b)) := scMul_hiZero shrI _ _ _ _ _ _ _ _ _ _ _ _ _ _ _ _ _ _ _ _ _ _ _ _
  have hpk := packed_value _ hd hz ⟨r0, by omega⟩
  rw [scMul_eq_app, scMul_store_eq, hpk]
  apply eq_emod_of_range r2 r3
  rw [scMul_congr, ← ea, ← eb]
  rfl

end Dos.Ed25519

/-
C12 — handler models, part 1: outcomes, the guard configuration `Cfg` (one Boolean per
guard of the Go code, read off the regenerated panic-site inventory), and the
key-generation handlers (`share/dkg/pedersen`, `share/vss/pedersen`).

Every function is total.  Where the Go code would panic (index out of range, nil
dereference, failed unchecked type assertion, `gcm.Open` with a wrong nonce length …)
the model returns `Out.panic site`, `site` being the inventory key of the expression.
Each such branch is protected by the same guard the code has: the guard is a field of
`Cfg`, and `Cfg.current` (HandlersInv.lean) sets it from the regenerated inventory, so
removing a guard in /repo turns the flag off, the model then predicts the panic, and the
totality theorems (stated for `Cfg.current`) no longer check.

Cryptographic checks are abstracted to their results (a signature verifies or not, an
AEAD box opens or not, a share verifies against the commitments or not): the message types
carry those results as fields and the theorems quantify over all of them.
-/
import DosModel.Model.Util

namespace Dos.Handlers
open Dos

inductive Out where
  | ok (info : String)
  | err (kind : String)
  | dropped
  | panic (site : String)
  deriving DecidableEq, Repr, Inhabited

def Out.isPanic : Out → Bool
  | .panic _ => true
  | _ => false

/-- `fn` part of an inventory key `fn|kind|expr` -/
def siteFn (s : String) : String := (s.splitOn "|").headD s

def Out.show : Out → String
  | .ok i => if i.isEmpty then "ok" else "ok " ++ i
  | .err k => "err " ++ k
  | .dropped => "dropped"
  | .panic s => "panic " ++ siteFn s

/-- what a completion / expiry path of the session layer does when it is through with a request
(read off the regenerated clean-up facts, `Gen.PanicSites.cleanup`): does it delete the session's
buffer (`sessionMap`), its registration (`sessionReq`), and does it close the reply channel exactly
once, with no send after the close -/
structure Clean where
  delBuf : Bool
  delReq : Bool
  closeOnce : Bool
  deriving DecidableEq, Repr

def Clean.all : Clean := ⟨true, true, true⟩

/-- One Boolean per guard of the code that stands between peer input and a panic site. -/
structure Cfg where
  -- share/dkg/pedersen: clean-up of the three paths that finish a request of the session layer
  peerClean    : Clean    -- handlePeerMsg: the batch is complete
  reqClean     : Clean    -- handleRequest: the batch was complete already
  expClean     : Clean    -- pdkg.Loop expiry sweep: the session context is done
  xpubCastSelf : Bool     -- exchangePub: `resp.(*PublicKey)` comma-ok (own key)
  xpubCastPeer : Bool     -- exchangePub: `resp.(*PublicKey)` comma-ok (peer keys)
  xpubIdx      : Bool     -- exchangePub (e9f475e): nil key / Index ≥ n rejected before `groupIds[pubkey.Index]`
  gdkgGuard    : Bool     -- genDistKeyGenerator: nil Publickey / Index ≥ n rejected
  dealsDkgNil  : Bool     -- getAndProcessDeals: `dkg == nil` return
  dealsCast    : Bool     -- getAndProcessDeals: `d.(*Deal)` comma-ok
  respsDkgNil  : Bool     -- getAndProcessResponses: `dkg == nil` return
  respsCast    : Bool     -- getAndProcessResponses: `r.(*Response)` comma-ok
  findPubDkg   : Bool     -- dkg.findPub bound
  respNil      : Bool     -- DistKeyGenerator.ProcessResponse: nil Response rejected
  respVerOk    : Bool     -- DistKeyGenerator.ProcessResponse: `v, ok := d.verifiers[..]`
  pubKeyLen    : Bool     -- decodePubKey length check
  peerRespNil  : Bool     -- handlePeerMsg: responses without Response sub-message are not compared
  -- share/vss/pedersen
  encNil       : Bool     -- decryptDeal: `e == nil`
  nonceLen     : Bool     -- decryptDeal: nonce length check before gcm.Open
  secShareNil  : Bool     -- ProcessEncryptedDeal: `d.SecShare == nil`
  shareVNil    : Bool     -- VerifyDeal: share value nil
  findPubVss   : Bool     -- vss.findPub bound
  aggNil       : Bool     -- Verifier.ProcessResponse: `v.aggregator == nil`
  toBigLen     : Bool     -- Signature.ToBigInt length check
  -- dosnode
  qloopOk      : Bool     -- queryLoop: `req, ok := reqSign[requestID]`
  qloopCast    : Bool     -- queryLoop: `.(*vss.Signature)` comma-ok
  rsNil        : Bool     -- recoverSign: nil sign / Signature / Content skipped
  rsMake       : Bool     -- recoverSign: `t < 0` skipped before make
  groupInfoIds : Bool     -- groupInfo: empty id list is an error (guards the modulo in choseSubmitter)
  byte32Len    : Bool     -- byte32 length test
  crRand       : Bool     -- handleCR: non-positive seed replaced before rand.Int
  parseDepth   : Bool     -- dataParse (14409e8): a document nested deeper than maxDocumentDepth is refused before the recursive evaluators run
  bootReq      : Bool     -- getBootIps (d508404): a bootstrap URL that does not parse is answered with no addresses
  secNil       : Bool     -- pdkg.GetShareSecurity: a group whose key generation has not finished has no share (`dks != nil`)
  feCast       : Bool     -- onchain.firstEvent: `event.(*LogCommon)` comma-ok
  evFlow       : Bool     -- onchain/eth_subscribe.go + onchainLoop: every subscribed event has a table entry and a case, payload fields are verbatim copies of the binding's (non-nil) fields, the wrapper carries `log: l` and the binding's Removed flag, only *OnchainError values are sent as errors
  -- sign/tbls, share
  sigIdxLen    : Bool     -- tbls.Recover: Index() error returned before Value() slices [2:]
  recoverDedup : Bool     -- tbls.Recover: shares with a repeated index (or one ≥ n) are not handed to RecoverCommit
  rcDedup      : Bool     -- share.RecoverCommit (2d8b40a): one share per index
  -- p2p
  anyNil       : Bool     -- decodeBytes: package without Anything rejected
  ridCast      : Bool     -- receiveID: `ptr.Message.(*ID)` comma-ok
  ridLen       : Bool     -- receiveID: DH point encoding length check
  readSize     : Bool     -- readFrom: size check before make
  mdNil        : Bool     -- messageDispatch: nil message skipped
  dispReplyNil : Bool     -- client.dispatch: a reply whose nonce has no pending request is ignored
  callRemoveNil : Bool    -- callHandler: removal of an id that has no entry is skipped (`if c != nil`)
  callIdMatch  : Bool     -- callHandler (f4bcda2): a peer announcing another id than the dialled one is refused
  listenName   : Bool     -- serfNet.Listen: name length check
  listenCast   : Bool     -- serfNet.Listen: `event.(serf.MemberEvent)` comma-ok
  lookupName   : Bool     -- serfNet.Lookup / MembersID: name length checks
  deriving DecidableEq, Repr

def Cfg.all : Cfg :=
  { peerClean := Clean.all, reqClean := Clean.all, expClean := Clean.all, xpubCastSelf := true, xpubCastPeer := true, xpubIdx := true, gdkgGuard := true, dealsDkgNil := true, dealsCast := true,
    respsDkgNil := true, respsCast := true, findPubDkg := true, respNil := true, respVerOk := true, pubKeyLen := true, peerRespNil := true,
    encNil := true, nonceLen := true, secShareNil := true, shareVNil := true, findPubVss := true, aggNil := true,
    toBigLen := true, qloopOk := true, qloopCast := true, rsNil := true, rsMake := true, groupInfoIds := true,
    byte32Len := true, crRand := true, parseDepth := true, bootReq := true, secNil := true, feCast := true, evFlow := true, sigIdxLen := true, recoverDedup := true, rcDedup := true, anyNil := true, ridCast := true,
    ridLen := true, readSize := true, mdNil := true, dispReplyNil := true, callRemoveNil := true, callIdMatch := true, listenName := true, listenCast := true, lookupName := true }

/-! ### association lists (Go maps) -/

def alookup {β : Type} (k : String) : List (String × β) → Option β
  | [] => none
  | (k', v) :: r => if k' = k then some v else alookup k r

def aerase {β : Type} (k : String) : List (String × β) → List (String × β)
  | [] => []
  | (k', v) :: r => if k' = k then aerase k r else (k', v) :: aerase k r

def ainsert {β : Type} (k : String) (v : β) (m : List (String × β)) : List (String × β) :=
  (k, v) :: aerase k m

/-! ### 1. session layer of `pdkg.Loop`: `handlePeerMsg` / `handleRequest` -/

/-- what `handlePeerMsg` distinguishes in a message -/
inductive Item where
  | pk (idx : Nat)
  | deal (idx : Nat)
  | resp (dealer : Nat) (responder : Option Nat)     -- `responder = none`: `Response == nil`
  deriving DecidableEq, Repr

/-- a registered `request`: expected count and the identity of its reply channel -/
structure Req where
  num : Int
  chan : Nat
  deriving DecidableEq, Repr

/-- one (buffer, pending request) pair of maps, e.g. `sessionDeals` / `sessionReqDeals` -/
structure Sess where
  buf : List (String × List Item) := []
  req : List (String × Req) := []
  closed : List Nat := []      -- reply channels already closed
  next : Nat := 0              -- next fresh channel (askMembers does `make(chan …)`)
  alive : Bool := true
  deriving Repr

def isDup (cur : List Item) : Item → Bool
  | .pk i => cur.any (fun x => match x with | .pk j => i == j | _ => false)
  | .deal i => cur.any (fun x => match x with | .deal j => i == j | _ => false)
  | .resp d (some r) => cur.any (fun x => match x with | .resp d' (some r') => d == d' && r == r' | _ => false)
  | .resp _ none => false

/-- fire: `select {ctx.Done / reply <- list}; close(reply); delete; delete` -/
def fire (s : Sess) (sid : String) (r : Req) (k : Nat) (site : String) : Sess × Out :=
  if r.chan ∈ s.closed then ({ s with alive := false }, .panic site)
  else ({ s with buf := aerase sid s.buf, req := aerase sid s.req, closed := r.chan :: s.closed }, .ok s!"fire {k}")

/-- `fire` with the clean-up the code actually performs on that path. A registration that is left in
the map keeps its (now closed) reply channel: the next completion or sweep of that session sends on /
closes a closed channel. -/
def fireC (c : Clean) (s : Sess) (sid : String) (r : Req) (k : Nat) (site : String) : Sess × Out :=
  if r.chan ∈ s.closed || !c.closeOnce then ({ s with alive := false }, .panic site)
  else ({ s with buf := if c.delBuf then aerase sid s.buf else s.buf,
                 req := if c.delReq then aerase sid s.req else s.req,
                 closed := r.chan :: s.closed }, .ok s!"fire {k}")

/-- the de-duplication of responses dereferences `Response` of the new and of the buffered ones -/
def respDeref (cfg : Cfg) (cur : List Item) : Item → Bool
  | .resp _ none => !cfg.peerRespNil && cur.any (fun x => match x with | .resp _ _ => true | _ => false)
  | .resp _ (some _) => !cfg.peerRespNil && cur.any (fun x => match x with | .resp _ none => true | _ => false)
  | _ => false

def handlePeerMsg (cfg : Cfg) (s : Sess) (sid : String) (it : Item) : Sess × Out :=
  let cur := (alookup sid s.buf).getD []
  if respDeref cfg cur it then ({ s with alive := false }, .panic "dkg.handlePeerMsg|deref|respFromPeer.Response.Index")
  else if isDup cur it then (s, .ok "dup")
  else
    let cur' := cur ++ [it]
    let s1 := { s with buf := ainsert sid cur' s.buf }
    match alookup sid s.req with
    | none =>
      -- `sessionReq[sessionID]` is the zero value: numOfResps = 0, ctx = nil
      if (cur'.length : Int) = 0 then ({ s1 with alive := false }, .panic "dkg.handlePeerMsg|mapzero|sessionReq[sessionID].ctx")
      else (s1, .ok s!"buf {cur'.length}")
    | some r =>
      if (cur'.length : Int) = r.num then fireC cfg.peerClean s1 sid r cur'.length "dkg.handlePeerMsg|close|close(sessionReq[sessionID].reply)"
      else (s1, .ok s!"buf {cur'.length}")

def handleRequest (cfg : Cfg) (s : Sess) (sid : String) (num : Int) : Sess × Out :=
  let r : Req := { num := num, chan := s.next }
  let s1 := { s with req := ainsert sid r s.req, next := s.next + 1 }
  let cur := (alookup sid s1.buf).getD []
  if (cur.length : Int) = num then fireC cfg.reqClean s1 sid r cur.length "dkg.handleRequest|close|close(req.reply)"
  else (s1, .ok s!"reg {cur.length}")

/-- the once-a-minute sweep of `pdkg.Loop` (8d5de85): for every registered request whose session
context is done, `close(req.reply)`, forget the registration and its buffer. `done` = the session ids
whose context is done at that moment (Go ranges over the map; visiting the done ids one by one and
looking their entry up closes the same set of channels). -/
def expire (cfg : Cfg) (s : Sess) : List String → Nat → Sess × Out
  | [], k => (s, .ok s!"expired {k}")
  | sid :: rest, k =>
    match alookup sid s.req with
    | none => expire cfg s rest k
    | some r =>
      match fireC cfg.expClean s sid r 0 "dkg.pdkg.Loop|close|close(req.reply)" with
      | (s1, .panic site) => (s1, .panic site)
      | (s1, _) => expire cfg s1 rest (k + 1)

inductive SessEv where
  | msg (sid : String) (it : Item)
  | req (sid : String) (num : Int)
  | expire (done : List String)
  deriving Repr

def sessStep (cfg : Cfg) (s : Sess) : SessEv → Sess × Out
  | .msg sid it => if s.alive then handlePeerMsg cfg s sid it else (s, .dropped)
  | .req sid num => if s.alive then handleRequest cfg s sid num else (s, .dropped)
  | .expire done => if s.alive then expire cfg s done 0 else (s, .dropped)

def sessRun (cfg : Cfg) : Sess → List SessEv → Sess × List Out
  | s, [] => (s, [])
  | s, e :: es =>
    let (s1, o) := sessStep cfg s e
    let (s2, os) := sessRun cfg s1 es
    (s2, o :: os)

/-! #### what one session sees of the loop state (the maps are keyed by session id) -/

/-- does the event concern session `s'` (an expiry sweep concerns it when its context is reported done) -/
def touches (s' : String) : SessEv → Bool
  | .msg sid _ => sid == s'
  | .req sid _ => sid == s'
  | .expire done => done.contains s'

/-- the part of the loop state that belongs to session `s'`: its buffer and the expected count of its registration -/
structure View where
  cur : List Item
  num : Option Int
  deriving DecidableEq, Repr

def view (s' : String) (s : Sess) : View :=
  ⟨(alookup s' s.buf).getD [], (alookup s' s.req).map (·.num)⟩

/-- `handlePeerMsg` / `handleRequest` as a function of that part alone -/
def vstep (v : View) : SessEv → View × Out
  | .msg _ it =>
    if isDup v.cur it then (v, .ok "dup")
    else
      let cur' := v.cur ++ [it]
      match v.num with
      | none => (⟨cur', none⟩, .ok s!"buf {cur'.length}")
      | some k =>
        if (cur'.length : Int) = k then (⟨[], none⟩, .ok s!"fire {cur'.length}")
        else (⟨cur', some k⟩, .ok s!"buf {cur'.length}")
  | .req _ num =>
    if (v.cur.length : Int) = num then (⟨[], none⟩, .ok s!"fire {v.cur.length}")
    else (⟨v.cur, some num⟩, .ok s!"reg {v.cur.length}")
  | .expire _ => (v, .dropped)

def vrun : View → List SessEv → List Out
  | _, [] => []
  | v, e :: es => (vstep v e).2 :: vrun (vstep v e).1 es

/-- the outputs of the events that concern `s'` -/
def outsFor (s' : String) : List SessEv → List Out → List Out
  | e :: es, o :: os => if touches s' e then o :: outsFor s' es os else outsFor s' es os
  | _, _ => []

/-- a complete honest exchange of session `s'` among `n + 1` members: the registration for `n`
messages, then the messages of the `n` peers -/
def honestRun (s' : String) (n : Nat) : List SessEv :=
  .req s' n :: (List.range n).map (fun i => .msg s' (.pk i))

/-! ### 2. `exchangePub` -/

/-- an element of the `[]interface{}` a stage receives: the expected type or something else.
For a public-key message: its `Index`, whether `Publickey` is present, and whether the authenticated
sender stamped on it is the member with that index (e9f475e). -/
inductive Elem where
  | good (idx : Nat) (sender : Bool := true) (hasKey : Bool := true)
  | other
  deriving DecidableEq, Repr

def xpubBatch (cfg : Cfg) (n : Nat) : List Elem → Nat → Except Out Nat
  | [], k => .ok k
  | .good idx sender hasKey :: r, k =>
    if cfg.xpubIdx && (!hasKey || decide (idx ≥ n)) then .error (.err "foreign")
    else if !hasKey then .error (.panic "dkg.exchangePub|deref|pubkey.Publickey.SenderId")
    else if idx ≥ n then .error (.panic "dkg.exchangePub|index|groupIds[pubkey.Index]")
    else if !sender then .error (.err "foreign")
    else xpubBatch cfg n r (k + 1)
  | .other :: _, _ =>
    if cfg.xpubCastPeer then .error (.err "cast") else .error (.panic "dkg.exchangePub|typeassert|resp.(*PublicKey)#2")

def xpubLoop (cfg : Cfg) (n : Nat) : List (List Elem) → Nat → Out
  | [], _ => .dropped                       -- peerPubc closed before n keys: the stage just ends
  | b :: bs, k =>
    match xpubBatch cfg n b k with
    | .error o => o
    | .ok k' => if k' = n then .ok s!"{k'}" else xpubLoop cfg n bs k'

/-- `exchangePub` with own key `self`, peer batches `bs`, group size `n` -/
def exchangePub (cfg : Cfg) (n : Nat) (self : Elem) (bs : List (List Elem)) : Out :=
  match self with
  | .other => if cfg.xpubCastSelf then .err "cast" else .panic "dkg.exchangePub|typeassert|resp.(*PublicKey)"
  | .good _ _ _ => xpubLoop cfg n bs 1

/-! ### 3. `genDistKeyGenerator` → `NewDistKeyGenerator` → `vss.NewDealer` -/

/-- content of `PublicKey.Publickey.Binary` -/
inductive KeyTag where
  | own                -- the key of this node's secret
  | peer (j : Nat)     -- some other valid point
  | identity           -- the 1-byte encoding of the point at infinity (decodes)
  | garbage            -- does not decode
  deriving DecidableEq, Repr

structure PubMsg where
  idx : Nat
  key : Option KeyTag      -- `none`: `Publickey == nil`
  deriving DecidableEq, Repr

abbrev Slots := List (Option KeyTag)

def setSlot : Slots → Nat → KeyTag → Slots
  | [], _, _ => []
  | _ :: r, 0, k => some k :: r
  | x :: r, i + 1, k => x :: setSlot r i k

def getSlot : Slots → Nat → Option (Option KeyTag)
  | [], _ => none
  | x :: _, 0 => some x
  | _ :: r, i + 1 => getSlot r i

/-- the `for _, pubkey := range pubs` loop -/
def gdkgLoop (cfg : Cfg) : List PubMsg → Slots → Except Out Slots
  | [], sl => .ok sl
  | p :: ps, sl =>
    if cfg.gdkgGuard && (p.key.isNone || decide (p.idx ≥ sl.length)) then .error (.err "badpk")
    else
      match getSlot sl p.idx with
      | none => .error (.panic "dkg.genDistKeyGenerator|index|pubPoints[pubkey.Index]")
      | some (some _) => .error (.err "dup")
      | some none =>
        match p.key with
        | none => .error (.panic "dkg.genDistKeyGenerator|deref|pubkey.Publickey.Binary")
        | some .garbage => .error (.err "unmarshal")
        | some k =>
          -- babf9f5: one key under two indices is refused (the slot of p.idx is still empty here,
          -- so "another slot holds an equal point" is "some slot holds it")
          if sl.contains (some k) then .error (.err "dupkey")
          else gdkgLoop cfg ps (setSlot sl p.idx k)

def validT (t n : Nat) : Bool := decide (2 ≤ t) && decide (t ≤ n)

/-- position of the first slot holding the own key, if no empty slot precedes it -/
def findOwn : Slots → Except Out Bool
  | [] => .ok false
  | none :: _ => .error (.panic "dkg.initDistKeyGenerator|ifaceslot|p.Equal(pub)")
  | some .own :: _ => .ok true
  | some _ :: r => findOwn r

/-- `initDistKeyGenerator` + `vss.NewDealer` on the participant list -/
def newDkg (sl : Slots) : Out :=
  match findOwn sl with
  | .error o => o
  | .ok false => .err "notfound"
  | .ok true =>
    if !validT (sl.length / 2 + 1) sl.length then .err "badt"
    else if sl.any Option.isNone then .panic "vss.sessionID|ifaceslot|v.MarshalTo(h)"
    else .ok ""

def genDkg (cfg : Cfg) (n : Nat) (pubs : List PubMsg) : Out :=
  match gdkgLoop cfg pubs (List.replicate n none) with
  | .error o => o
  | .ok sl => newDkg sl

/-! ### 4. `ProcessDeal` → `ProcessEncryptedDeal` → `decryptDeal` / `VerifyDeal` -/

structure Plain where
  share : Option (Nat × Bool)   -- `SecShare`: its index `I`, and whether the value `V` is present
  t : Nat
  sidOK : Bool                  -- carried session id = id recomputed from the commitments
  shareOK : Bool                -- share verifies against the commitments
  deriving DecidableEq, Repr

inductive Opened where
  | fail                        -- AEAD does not open
  | undecodable                 -- opens, plaintext is not a Deal encoding
  | plain (p : Plain)
  deriving DecidableEq, Repr

structure Enc where
  sigOK : Bool                  -- dealer's Schnorr signature on DHKey verifies
  dhOK : Bool                   -- DHKey decodes to a point
  nonceLen : Nat
  opened : Opened
  deriving DecidableEq, Repr

structure DealMsg where
  idx : Nat
  enc : Option Enc              -- `none`: `Deal == nil`
  deriving DecidableEq, Repr

/-- per-dealer verifier kept by the generator -/
inductive VerSt where
  | noAgg                              -- stored, `aggregator == nil` (its deal failed)
  /-- aggregator with responses from these indices; `deal`: the deal `VerifyDeal` stored in it
  (`none`: nothing stored; `some v`: stored, its share value present = `v`) -/
  | agg (responses : List Nat) (deal : Option Bool)
  deriving DecidableEq, Repr

structure DkgSt where
  n : Nat
  me : Nat
  vers : List (Nat × VerSt) := []
  dealerResps : List Nat := []         -- responses recorded by the own dealer's aggregator
  deriving Repr

/-- the generator as the deal stage finds it: `Deals()` has processed the own deal
(own verifier with the own response recorded; the dealer's aggregator is still empty) -/
def DkgSt.init (n me : Nat) : DkgSt := { n := n, me := me, vers := [(me, .agg [me] (some true))] }

def vlookup (k : Nat) : List (Nat × VerSt) → Option VerSt
  | [] => none
  | (k', v) :: r => if k' = k then some v else vlookup k r

def vset (k : Nat) (v : VerSt) (m : List (Nat × VerSt)) : List (Nat × VerSt) :=
  (k, v) :: m.filter (fun e => e.1 != k)

/-- `decryptDeal` -/
def decryptDeal (cfg : Cfg) : Option Enc → Except Out Opened
  | none => if cfg.encNil then .error (.err "nodeal") else .error (.panic "vss.Verifier.decryptDeal|deref|e.DHKey")
  | some e =>
    if !e.sigOK then .error (.err "sig")
    else if !e.dhOK then .error (.err "dhkey")
    else if e.nonceLen ≠ 12 then
      (if cfg.nonceLen then .error (.err "nonce")
       else .error (.panic "vss.Verifier.decryptDeal|callpanics|gcm.Open(nil, e.Nonce, e.Cipher, v.hkdfContext)"))
    else .ok e.opened

/-- `VerifyDeal(d, true)` on a fresh aggregator: `none` = no error (approval), `some _` = complaint -/
def verifyDeal (cfg : Cfg) (n : Nat) (p : Plain) (i : Nat) (vPresent : Bool) : Except Out Bool :=
  if cfg.shareVNil && !vPresent then .ok false
  else if !validT p.t n then .ok false
  else if !p.sidOK then .ok false
  else if i ≥ n then .ok false
  else if !vPresent then .error (.panic "vss.aggregator.VerifyDeal|ifacenil|fi.V")
  else .ok p.shareOK

/-- what `VerifyDeal` leaves in `aggregator.deal` for the plaintext of `enc` (it stores the deal before
validating it, unless its first guard — share value missing — returns) -/
def storedDeal (cfg : Cfg) (enc : Option Enc) : Option Bool :=
  match enc with
  | some e => match e.opened with
    | .plain p => match p.share with
      | some (_, v) => if cfg.shareVNil && !v then none else some v
      | none => none
    | _ => none
  | none => none

/-- `Verifier.ProcessEncryptedDeal`: approval (`true`) / complaint (`false`) -/
def processEncryptedDeal (cfg : Cfg) (n me : Nat) (enc : Option Enc) : Except Out Bool :=
  match decryptDeal cfg enc with
  | .error o => .error o
  | .ok .fail => .error (.err "open")
  | .ok .undecodable => .error (.err "decode")
  | .ok (.plain p) =>
    match p.share with
    | none => if cfg.secShareNil then .error (.err "noshare") else .error (.panic "vss.Verifier.ProcessEncryptedDeal|deref|d.SecShare.I")
    | some (i, vPresent) =>
      if cfg.secShareNil && !vPresent then .error (.err "noshare")     -- c743079: before the aggregator exists
      else if i ≠ me then .error (.err "wrongindex")
      else verifyDeal cfg n p i vPresent

/-- `DistKeyGenerator.ProcessDeal` as `getAndProcessDeals` uses it -/
def processDeal (cfg : Cfg) (st : DkgSt) (m : DealMsg) : DkgSt × Out :=
  if m.idx ≥ st.n then
    (st, if cfg.findPubDkg then .err "oob" else .panic "dkg.findPub|index|list[i]")
  else if (vlookup m.idx st.vers).isSome then (st, .err "already")
  else
    let st1 := { st with vers := vset m.idx .noAgg st.vers }
    match processEncryptedDeal cfg st.n st.me m.enc with
    | .error o => (st1, o)
    | .ok approve =>
      -- aggregator created; own response recorded, then UnsafeSetResponseDKG(dealer index)
      let st2 := { st with vers := vset m.idx (.agg [st.me, m.idx].eraseDups (storedDeal cfg m.enc)) st.vers }
      (st2, if approve then .ok "approval" else .err "noapproval")

/-- an honest deal for verifier `me` from dealer `idx` with threshold `t` -/
def honestDeal (idx me t : Nat) : DealMsg :=
  DealMsg.mk idx (some (Enc.mk true true 12 (Opened.plain (Plain.mk (some (me, true)) t true true))))

/-! ### 5. `ProcessResponse` → `verifyResponse` -/

structure VResp where
  sidOK : Bool      -- session id equals the aggregator's
  rindex : Nat      -- index of the verifier that issued it
  sigOK : Bool
  approve : Bool
  deriving DecidableEq, Repr

structure RespMsg where
  idx : Nat                 -- dealer index the response is about
  resp : Option VResp       -- `none`: `Response == nil`
  deriving DecidableEq, Repr

/-- `aggregator.verifyResponse` against a set of recorded responses -/
def verifyResponse (cfg : Cfg) (n : Nat) (recorded : List Nat) (r : VResp) : Except Out (List Nat) :=
  if !r.sidOK then .error (.err "sid")
  else if r.rindex ≥ n then
    (if cfg.findPubVss then .error (.err "oob") else .error (.panic "vss.findPub|index|verifiers[iidx]"))
  else if !r.sigOK then .error (.err "sig")
  else if r.rindex ∈ recorded then .error (.err "dupresp")
  else .ok (r.rindex :: recorded)

def processResponse (cfg : Cfg) (st : DkgSt) (m : RespMsg) : DkgSt × Out :=
  if cfg.respNil && m.resp.isNone then (st, .err "noresp")
  else
    match vlookup m.idx st.vers with
    | none =>
      (st, if cfg.respVerOk then .err "nodeal" else .panic "dkg.DistKeyGenerator.ProcessResponse|mapzero|d.verifiers[resp.Index]")
    | some .noAgg =>
      (st, if cfg.aggNil then .err "nodealyet" else .panic "vss.aggregator.verifyResponse|deref|r.SessionID")
    | some (.agg recorded deal) =>
      match m.resp with
      | none => (st, .panic "vss.aggregator.verifyResponse|deref|r.SessionID")
      | some r =>
        match verifyResponse cfg st.n recorded r with
        | .error o => (st, o)
        | .ok rec' =>
          let st1 := { st with vers := vset m.idx (.agg rec' deal) st.vers }
          if m.idx ≠ st.me then (st1, .ok "")
          else
            -- a response about our own deal also goes to our dealer's aggregator
            match verifyResponse cfg st.n st.dealerResps r with
            | .error o => (st1, o)
            | .ok drec =>
              let st2 := { st1 with dealerResps := drec }
              (st2, if r.approve then .ok "" else .ok "justification")

def VerSt.noDeal : VerSt → Bool
  | .agg _ none => true
  | _ => false

def VerSt.noValue : VerSt → Bool
  | .agg _ (some false) => true
  | _ => false

/-- `DistKeyShare` (genGroup) reads `deal.SecShare.V` of every certified verifier's stored deal -/
def distKeyShare (st : DkgSt) : Out :=
  if st.vers.any (fun e => e.2.noDeal) then .panic "dkg.DistKeyGenerator.DistKeyShare|deref|deal.SecShare.V"
  else if st.vers.any (fun e => e.2.noValue) then .panic "dkg.DistKeyGenerator.DistKeyShare|ifacenil|deal.SecShare.V"
  else .ok ""

inductive DkgOp where
  | deal (m : DealMsg)
  | resp (m : RespMsg)
  deriving Repr

def dkgStep (cfg : Cfg) (st : DkgSt) : DkgOp → DkgSt × Out
  | .deal m => processDeal cfg st m
  | .resp m => processResponse cfg st m

def dkgRun (cfg : Cfg) : DkgSt → List DkgOp → DkgSt × List Out
  | st, [] => (st, [])
  | st, o :: os =>
    let (st1, r) := dkgStep cfg st o
    let (st2, rs) := dkgRun cfg st1 os
    (st2, r :: rs)

/-- `getAndProcessDeals` / `getAndProcessResponses` entered with or without a generator -/
def stageEntry (guard : Bool) (haveDkg : Bool) (site : String) : Out :=
  if haveDkg then .ok "" else if guard then .dropped else .panic site

/-- the `d.(*Deal)` / `r.(*Response)` assertion of the two stages on one element -/
def stageCast (ok : Bool) (e : Elem) (site : String) : Out :=
  match e with
  | .good _ _ _ => .ok ""
  | .other => if ok then .err "cast" else .panic site

/-! ### 6. `decodePubKey` (genGroup) and `Signature.ToBigInt` -/

/-- length of the marshalled group public key: 129, or 1 for the point at infinity -/
def decodePubKey (cfg : Cfg) (len : Nat) : Out :=
  if cfg.pubKeyLen && len < 129 then .err "infinity"
  else if len < 129 then .panic "dkg.decodePubKey|slice|pubKeyMar[32*i+1 : 32*i+33]"
  else .ok ""

def toBigInt (cfg : Cfg) (len : Nat) : Out :=
  if cfg.toBigLen && len < 32 then .ok "zero"
  else if len < 32 then .panic "vss.Signature.ToBigInt|slice|m.Signature[0:32]"
  else .ok ""

end Dos.Handlers

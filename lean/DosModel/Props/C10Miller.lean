/-
C10 — the IMPLEMENTED Miller loop returns reduced gfP12 values, hence the implemented PairingCheck decides the
product of the (decoded) pairing values with no hypothesis on intermediate values.

`Gen/Bn256Code.lean` holds optate.go's `miller` as the translator (E7) emits it: the loop unrolled over the 64
digits of sixuPlus2NAF, 265 lets, polymorphic in the base type. Because the generated code only uses
`+ − neg · 0 1 ⁻¹` and the two equality tests of MakeAffine, it commutes with every injective map that preserves
those operations (`miller_translated_natural`, proved by `simp only` over the generated body with one naturality
lemma per generated callee: Proofs/Bn256MillerNatural.lean). Instantiated at
  * "forget reducedness" GFpR → GFp (GFpR = the reduced Montgomery values, closed under the assembly's four
    primitives and inversion by `gfP_is_prime_field`): on reduced points the Miller value IS the value of a
    computation carried out inside GFpR, hence reduced;
  * Montgomery decoding GFpR → ZMod p: decoding commutes with the Miller loop.
With `gen_miller_eq_model` (Props/C10Code.lean) the same holds for the hand model `Dos.Bn256.miller` the driver
runs, and the hypothesis `hm` of `C10FinalExp.pairingCheck_given_reduced_miller` is discharged: only
reducedness of the INPUT points remains (`pairingCheck_implemented`).
Only theorems; helper lemmas in Proofs/Bn256MillerNatural.lean.
-/
import DosModel.Proofs.Bn256MillerNatural

set_option linter.unusedSectionVars false

namespace Dos.Props.C10Miller
open Dos Dos.Bn256 Dos.Gen Dos.Bn256.MillerNat

/-- **naturality of the translated Miller loop**: for every map `f` of base types that preserves
`+ − neg · 0 1 ⁻¹` and is injective, the generated `miller` (all 265 steps, MakeAffine's branches included)
commutes with `f` applied coordinate-wise -/
theorem miller_translated_natural {K L : Type}
    [Add K] [Sub K] [Neg K] [Mul K] [Zero K] [One K] [Inv K] [Sq K] [DecidableEq K]
    [Add L] [Sub L] [Neg L] [Mul L] [Zero L] [One L] [Inv L] [Sq L] [DecidableEq L]
    {f : K → L} (h : OpsHom f) (cs : FrobConsts K) (q : Jac (Fp2 K)) (p : Jac K) :
    Fp12.map f (Bn256Code.miller cs q p) =
      Bn256Code.miller (cs.map f) (Jac.map (Fp2.map f) q) (Jac.map f p) :=
  map_miller h cs q p

/-- non-vacuity: the two maps it is used with, at the generators -/
example : val12 (Bn256Code.miller frobConstsR (Jac.lift2 twistGen (by unfold Jac.Reduced2; decide))
      (Jac.lift curveGen (by unfold Jac.Reduced; decide))) =
    @Bn256Code.miller GFp _ _ _ _ _ _ _ _ frobConsts twistGen curveGen :=
  miller_translated_natural valHom frobConstsR _ _
example : dec12R (Bn256Code.miller frobConstsR (Jac.lift2 twistGen (by unfold Jac.Reduced2; decide))
      (Jac.lift curveGen (by unfold Jac.Reduced; decide))) =
    Bn256Code.miller frobConstsFp (Jac.decJ2 twistGen) (Jac.decJ curveGen) :=
  miller_translated_natural decHom frobConstsR _ _

/-- **the translated Miller loop at the Montgomery gfP returns reduced values** on reduced points -/
theorem miller_code_reduced (q : G2J) (p : G1J) (hq : Jac.Reduced2 q) (hp : Jac.Reduced p) :
    Red12 (@Bn256Code.miller GFp _ _ _ _ _ _ _ _ frobConsts q p) :=
  (miller_code_concrete q p hq hp).1

example : Red12 (@Bn256Code.miller GFp _ _ _ _ _ _ _ _ frobConsts twistGen curveGen) :=
  miller_code_reduced _ _ (by unfold Jac.Reduced2; decide) (by unfold Jac.Reduced; decide)

/-- **decoding commutes with the translated Miller loop**: the Montgomery decoding of the implemented Miller
value is the translated Miller loop evaluated over the field ZMod p, at the decoded constants, on the decoded
points -/
theorem miller_code_decodes (q : G2J) (p : G1J) (hq : Jac.Reduced2 q) (hp : Jac.Reduced p) :
    dec12 (@Bn256Code.miller GFp _ _ _ _ _ _ _ _ frobConsts q p) =
      Bn256Code.miller frobConstsFp (Jac.decJ2 q) (Jac.decJ p) :=
  (miller_code_concrete q p hq hp).2

example : dec12 (@Bn256Code.miller GFp _ _ _ _ _ _ _ _ frobConsts twistGen curveGen) =
    Bn256Code.miller frobConstsFp (Jac.decJ2 twistGen) (Jac.decJ curveGen) :=
  miller_code_decodes _ _ (by unfold Jac.Reduced2; decide) (by unfold Jac.Reduced; decide)

/-- **the implemented Miller loop returns reduced gfP12 values** (the hand model the driver runs and compares
with optate.go limb for limb; equal to the translation by `gen_miller_eq_model`) -/
theorem miller_reduced (q : G2J) (p : G1J) (hq : Jac.Reduced2 q) (hp : Jac.Reduced p) :
    Red12 (Dos.Bn256.miller q p) :=
  (miller_concrete q p hq hp).1

/-- the generators: what `C10FinalExp.miller_generators_reduced` obtains by evaluating the 265 steps in the
kernel follows here from the reducedness of the twelve input coordinates -/
example : Red12 (Dos.Bn256.miller twistGen curveGen) :=
  miller_reduced _ _ (by unfold Jac.Reduced2; decide) (by unfold Jac.Reduced; decide)

theorem miller_decodes (q : G2J) (p : G1J) (hq : Jac.Reduced2 q) (hp : Jac.Reduced p) :
    dec12 (Dos.Bn256.miller q p) = Bn256Code.miller frobConstsFp (Jac.decJ2 q) (Jac.decJ p) :=
  (miller_concrete q p hq hp).2

example : dec12 (Dos.Bn256.miller twistGen curveGen) =
    Bn256Code.miller frobConstsFp (Jac.decJ2 twistGen) (Jac.decJ curveGen) :=
  miller_decodes _ _ (by unfold Jac.Reduced2; decide) (by unfold Jac.Reduced; decide)

/-- **the implemented pairing** `optimalAte` (Miller loop, final exponentiation, the two identity tests) returns
reduced values on reduced points and decodes to the translated `optimalAte` evaluated over ZMod p -/
theorem optimalAte_reduced (q : G2J) (p : G1J) (hq : Jac.Reduced2 q) (hp : Jac.Reduced p) :
    Red12 (Dos.Bn256.optimalAte q p) ∧
    dec12 (Dos.Bn256.optimalAte q p) =
      Bn256Code.optimalAte frobConstsFp uParam (Jac.decJ2 q) (Jac.decJ p) :=
  optimalAte_concrete q p hq hp

example : Red12 (Dos.Bn256.optimalAte twistGen curveGen) :=
  (optimalAte_reduced _ _ (by unfold Jac.Reduced2; decide) (by unfold Jac.Reduced; decide)).1

/-- **the implemented PairingCheck, unconditional in the intermediate values**: for every list of pairs of
REDUCED points (every gfP the library stores is reduced: Unmarshal rejects ≥ p, and all arithmetic returns
reduced values), `pairingCheck` is true exactly when the product in F_p¹² of the decoded pairing values
`optimalAte(qᵢ, pᵢ)` is one; pairs with an identity contribute one wherever they stand in the list. The
Miller hypothesis of `C10FinalExp.pairingCheck_given_reduced_miller` is discharged by `miller_reduced` -/
theorem pairingCheck_implemented (ps : List (G1J × G2J))
    (hr : ∀ pq ∈ ps, Jac.Reduced pq.1 ∧ Jac.Reduced2 pq.2) :
    pairingCheck ps = true ↔ (ps.map fun pq => dec12 (optimalAte pq.2 pq.1)).prod = 1 :=
  pairingCheck_concrete ps (fun pq hpq => miller_reduced pq.2 pq.1 (hr pq hpq).2 (hr pq hpq).1)

/-- non-vacuity: a two-element list of generator pairs satisfies the hypothesis -/
example : pairingCheck [(curveGen, twistGen), (curveGen, twistGen)] = true ↔
    ([(curveGen, twistGen), (curveGen, twistGen)].map fun pq => dec12 (optimalAte pq.2 pq.1)).prod = 1 :=
  pairingCheck_implemented _ (by
    intro pq hpq
    have hg : Jac.Reduced curveGen ∧ Jac.Reduced2 twistGen :=
      ⟨by unfold Jac.Reduced; decide, by unfold Jac.Reduced2; decide⟩
    simp only [List.mem_cons, List.not_mem_nil, or_false, or_self] at hpq
    rw [hpq]; exact hg)

end Dos.Props.C10Miller

/-
Key sets of the three session buffers of member `i`: the other members (public keys, deals) and the
(dealer, responder) pairs of the responses it receives.
-/
import Mathlib.Data.List.Nodup
import Mathlib.Data.List.Range
import Mathlib.Algebra.BigOperators.Group.List.Basic
import Mathlib.Algebra.Group.Nat.Defs

namespace Dos.Dkg

/-- all members but `a` -/
def others (n a : Nat) : List Nat := (List.range n).filter (· ≠ a)

theorem mem_others (n a x : Nat) : x ∈ others n a ↔ x < n ∧ x ≠ a := by
  simp [others]

theorem nodup_others (n a : Nat) : (others n a).Nodup := (List.nodup_range).filter _

theorem length_others (n a : Nat) (ha : a < n) : (others n a).length = n - 1 := by
  have h : others n a = (List.range n).erase a := by
    unfold others
    rw [List.Nodup.erase_eq_filter List.nodup_range]
    apply List.filter_congr
    intro x _
    by_cases hx : x = a <;> simp [hx]
  rw [h, List.length_erase_of_mem (List.mem_range.2 ha), List.length_range]

/-- the responses member `i` receives: responder `k ≠ i` about dealer `j ≠ k` -/
def respKeys (n i : Nat) : List (Nat × Nat) :=
  (others n i).flatMap (fun k => (others n k).map (fun j => (j, k)))

theorem mem_respKeys (n i : Nat) (p : Nat × Nat) :
    p ∈ respKeys n i ↔ p.2 < n ∧ p.2 ≠ i ∧ p.1 < n ∧ p.1 ≠ p.2 := by
  unfold respKeys
  simp only [List.mem_flatMap, List.mem_map, mem_others]
  constructor
  · rintro ⟨k, ⟨hk1, hk2⟩, j, ⟨hj1, hj2⟩, rfl⟩
    exact ⟨hk1, hk2, hj1, hj2⟩
  · rintro ⟨h1, h2, h3, h4⟩
    exact ⟨p.2, ⟨h1, h2⟩, p.1, ⟨h3, h4⟩, rfl⟩

theorem nodup_respKeys (n i : Nat) : (respKeys n i).Nodup := by
  unfold respKeys
  rw [List.nodup_flatMap]
  refine ⟨fun k _ => (nodup_others n k).map (fun a b h => by injection h), ?_⟩
  apply List.Nodup.pairwise_of_forall_ne (nodup_others n i)
  intro k _ k' _ hne
  intro p hp hp'
  obtain ⟨j, _, rfl⟩ := List.mem_map.1 hp
  obtain ⟨j', _, he⟩ := List.mem_map.1 hp'
  injection he with _ h2
  exact hne h2.symm

theorem length_respKeys (n i : Nat) (hi : i < n) : (respKeys n i).length = (n - 1) * (n - 1) := by
  unfold respKeys
  rw [List.length_flatMap]
  have : (others n i).map (fun k => ((others n k).map (fun j => (j, k))).length) = (others n i).map (fun _ => n - 1) := by
    apply List.map_congr_left
    intro k hk
    rw [List.length_map, length_others n k ((mem_others n i k).1 hk).1]
  rw [this, List.map_const', List.sum_replicate, length_others n i hi]
  simp

end Dos.Dkg

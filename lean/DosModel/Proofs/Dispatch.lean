import DosModel.Model.Dispatch

/-! Invariants of the request/reply model: per-request facts first. -/
namespace Dos.Dispatch
open Dos

/-- which holder's `Once` may have fired, given where the request is and its type -/
def allowed : Stage → RType → Holder → Bool
  | .failed, _, .handler => true
  | .sendErr, _, .sendG => true
  | .table, .send, .table => true
  | .out, .send, .table => true
  | .packed, .send, .table => true
  | .packed, .reply, .pack => true
  | _, _, _ => false

def preTable : Stage → Bool
  | .table | .out | .packed => false
  | _ => true

structure RInv (r : Req) : Prop where
  count : r.closes = r.onceH.toNat + r.onceS.toNat + r.onceT.toNat + r.onceP.toNat
  vals  : r.vals = (match r.waiter with | .got v => [v] | _ => [])
  wctx  : r.waiter ≠ .waiting → r.ctxDone = true
  flags : ∀ h, r.once h = true → allowed r.stage r.rtype h = true
  nonce : preTable r.stage = true → r.nonce = none

theorem RInv.closes_le_one {r : Req} (h : RInv r) : r.closes ≤ 1 := by
  have hc := h.count
  have fH := h.flags .handler
  have fS := h.flags .sendG
  have fT := h.flags .table
  have fP := h.flags .pack
  simp only [Req.once] at fH fS fT fP
  cases hs : r.stage <;> cases ht : r.rtype <;>
    cases hH : r.onceH <;> cases hS : r.onceS <;> cases hT : r.onceT <;> cases hP : r.onceP <;>
    simp_all [allowed]

theorem RInv.vals_le_one {r : Req} (h : RInv r) : r.vals.length ≤ 1 := by
  rw [h.vals]; cases r.waiter <;> simp

theorem RInv.default : RInv ({} : Req) := by
  constructor <;> simp [preTable]
  intro h; cases h <;> simp [Req.once]

/-! `complete` -/

def Req.deliverable (r : Req) (w : Bool) : Prop := r.waiter = .waiting ∧ (r.ctxDone = false ∨ w = true)

theorem complete_cases (r : Req) (h : Holder) (v : Res) (w : Bool) :
    (r.once h = true ∧ r.complete h v w = r) ∨
    (r.once h = false ∧ r.deliverable w ∧ r.complete h v w =
      { r.setOnce h with waiter := .got v, vals := r.vals ++ [v], closes := r.closes + 1, ctxDone := true }) ∨
    (r.once h = false ∧ ¬ r.deliverable w ∧ r.complete h v w =
      { r.setOnce h with closes := r.closes + 1 }) := by
  unfold Req.complete Req.deliverable
  cases hh : r.once h
  · right
    by_cases hc : r.waiter = .waiting ∧ (r.ctxDone = false ∨ w = true)
    · left; exact ⟨rfl, hc, by simp [hc]⟩
    · right; exact ⟨rfl, hc, by simp [hc]⟩
  · left; simp

@[simp] theorem setOnce_rtype (r : Req) (h) : (r.setOnce h).rtype = r.rtype := by cases h <;> rfl
@[simp] theorem setOnce_stage (r : Req) (h) : (r.setOnce h).stage = r.stage := by cases h <;> rfl
@[simp] theorem setOnce_nonce (r : Req) (h) : (r.setOnce h).nonce = r.nonce := by cases h <;> rfl
@[simp] theorem setOnce_arg (r : Req) (h) : (r.setOnce h).arg = r.arg := by cases h <;> rfl
@[simp] theorem setOnce_waiter (r : Req) (h) : (r.setOnce h).waiter = r.waiter := by cases h <;> rfl
@[simp] theorem setOnce_vals (r : Req) (h) : (r.setOnce h).vals = r.vals := by cases h <;> rfl
@[simp] theorem setOnce_ctx (r : Req) (h) : (r.setOnce h).ctxDone = r.ctxDone := by cases h <;> rfl
@[simp] theorem setOnce_closes (r : Req) (h) : (r.setOnce h).closes = r.closes := by cases h <;> rfl
theorem setOnce_once (r : Req) (h h') : (r.setOnce h).once h' = (r.once h' || decide (h = h')) := by
  cases h <;> cases h' <;> simp [Req.setOnce, Req.once]

@[simp] theorem complete_rtype (r : Req) (h v w) : (r.complete h v w).rtype = r.rtype := by
  rcases complete_cases r h v w with ⟨_, e⟩ | ⟨_, _, e⟩ | ⟨_, _, e⟩ <;> rw [e] <;> simp
@[simp] theorem complete_stage (r : Req) (h v w) : (r.complete h v w).stage = r.stage := by
  rcases complete_cases r h v w with ⟨_, e⟩ | ⟨_, _, e⟩ | ⟨_, _, e⟩ <;> rw [e] <;> simp
@[simp] theorem complete_nonce (r : Req) (h v w) : (r.complete h v w).nonce = r.nonce := by
  rcases complete_cases r h v w with ⟨_, e⟩ | ⟨_, _, e⟩ | ⟨_, _, e⟩ <;> rw [e] <;> simp
@[simp] theorem complete_arg (r : Req) (h v w) : (r.complete h v w).arg = r.arg := by
  rcases complete_cases r h v w with ⟨_, e⟩ | ⟨_, _, e⟩ | ⟨_, _, e⟩ <;> rw [e] <;> simp

theorem once_fields (r : Req) (x : Req) (h' : Holder)
    (e : x.onceH = r.onceH ∧ x.onceS = r.onceS ∧ x.onceT = r.onceT ∧ x.onceP = r.onceP) :
    x.once h' = r.once h' := by
  cases h' <;> simp [Req.once, e.1, e.2.1, e.2.2.1, e.2.2.2]

theorem complete_once (r : Req) (h v w h') :
    (r.complete h v w).once h' = (r.once h' || decide (h = h')) := by
  rcases complete_cases r h v w with ⟨ho, e⟩ | ⟨_, _, e⟩ | ⟨_, _, e⟩ <;> rw [e]
  · by_cases hh : h = h'
    · subst hh; simp [ho]
    · simp [hh]
  · rw [← setOnce_once]; exact once_fields _ _ _ ⟨rfl, rfl, rfl, rfl⟩
  · rw [← setOnce_once]; exact once_fields _ _ _ ⟨rfl, rfl, rfl, rfl⟩

/-- the value the caller ends up with is unchanged by `complete` unless it was still waiting -/
theorem complete_waiter (r : Req) (h v w) :
    (r.complete h v w).waiter = r.waiter ∨
    (r.waiter = .waiting ∧ r.once h = false ∧ (r.complete h v w).waiter = .got v) := by
  rcases complete_cases r h v w with ⟨_, e⟩ | ⟨ho, hd, e⟩ | ⟨_, _, e⟩ <;> rw [e]
  · left; rfl
  · right; exact ⟨hd.1, ho, rfl⟩
  · left; simp

theorem complete_ctx (r : Req) (h v w) : r.ctxDone = true → (r.complete h v w).ctxDone = true := by
  intro hc
  rcases complete_cases r h v w with ⟨_, e⟩ | ⟨_, _, e⟩ | ⟨_, _, e⟩ <;> rw [e] <;> simp [hc]

theorem toNat_setOnce (r : Req) (h : Holder) (ho : r.once h = false) :
    (r.setOnce h).onceH.toNat + (r.setOnce h).onceS.toNat + (r.setOnce h).onceT.toNat + (r.setOnce h).onceP.toNat
      = r.onceH.toNat + r.onceS.toNat + r.onceT.toNat + r.onceP.toNat + 1 := by
  cases h <;> simp only [Req.once] at ho <;> simp [Req.setOnce, ho] <;> omega

/-- `complete` on holder `h` keeps the invariant provided `h` is allowed to fire at this stage. -/
theorem complete_inv {r : Req} (hr : RInv r) (h : Holder) (v : Res) (w : Bool)
    (hal : allowed r.stage r.rtype h = true) : RInv (r.complete h v w) := by
  have hflags : ∀ h', (r.complete h v w).once h' = true →
      allowed (r.complete h v w).stage (r.complete h v w).rtype h' = true := by
    intro h' hh'
    rw [complete_once] at hh'
    simp only [complete_stage, complete_rtype]
    rcases (Bool.or_eq_true _ _).mp hh' with h1 | h1
    · exact hr.flags h' h1
    · have : h = h' := by simpa using h1
      subst this; exact hal
  have hnonce : preTable (r.complete h v w).stage = true → (r.complete h v w).nonce = none := by
    intro hp
    simp only [complete_stage] at hp
    simpa using hr.nonce hp
  rcases complete_cases r h v w with ⟨_, e⟩ | ⟨ho, hd, e⟩ | ⟨ho, hd, e⟩
  · rw [e]; exact hr
  · refine ⟨?_, ?_, ?_, hflags, hnonce⟩ <;> rw [e]
    · have := toNat_setOnce r h ho
      have hc := hr.count
      show r.closes + 1 = (r.setOnce h).onceH.toNat + (r.setOnce h).onceS.toNat + (r.setOnce h).onceT.toNat + (r.setOnce h).onceP.toNat
      omega
    · have hv := hr.vals
      rw [hd.1] at hv
      show r.vals ++ [v] = _
      simp [hv]
    · intro _; rfl
  · refine ⟨?_, ?_, ?_, hflags, hnonce⟩ <;> rw [e]
    · have := toNat_setOnce r h ho
      have hc := hr.count
      show r.closes + 1 = (r.setOnce h).onceH.toNat + (r.setOnce h).onceS.toNat + (r.setOnce h).onceT.toNat + (r.setOnce h).onceP.toNat
      omega
    · simpa using hr.vals
    · simpa using hr.wctx

end Dos.Dispatch

package c12

import (
	"context"
	"encoding/binary"
	"fmt"
	"io"
	"net"
	"sync/atomic"
	"time"

	"github.com/DOSNetwork/core/p2p"
	vss "github.com/DOSNetwork/core/share/vss/pedersen"
	"github.com/golang/protobuf/proto"
	"github.com/golang/protobuf/ptypes"
)

// ---------------------------------------------------------------- conn: the connection tables of server.go
//
// A real node N (CreateP2PNetwork + Listen on loopback, lookup redirected with VerifSetLookup), a real
// member X (another server that echoes every vss.Signature request) and a scripted endpoint F.
//
//	conn match|other|own|empty|none : N's first Request to X is resolved to F, which answers the handshake
//	     with an ID message announcing X's id / another id / N's own id / no id / nothing (it hangs up
//	     during the handshake), then hangs up. N's second Request to X is resolved to the real X.
//	conn in2     : F dials N twice announcing the same id (duplicate inbound connection), then hangs up
//	conn inclose : F dials N and hangs up during the handshake
//
// Output: "ok" when the round trip to X after the case succeeds, "err stale" when it does not.

func freePort() string {
	l, err := net.Listen("tcp", "127.0.0.1:0")
	if err != nil {
		panic(err)
	}
	defer l.Close()
	return fmt.Sprint(l.Addr().(*net.TCPAddr).Port)
}

func waitListening(addr string) {
	for i := 0; i < 200; i++ {
		if c, err := net.Dial("tcp", addr); err == nil {
			c.Close()
			return
		}
		time.Sleep(5 * time.Millisecond)
	}
	panic("harness: server does not listen on " + addr)
}

func idFrame(id []byte) []byte {
	_, pub := remoteKey()
	a, _ := ptypes.MarshalAny(&p2p.ID{PublicKey: mustBin(pub), Id: id})
	b, _ := proto.Marshal(&p2p.Package{Anything: a, Sender: id})
	return framed(b)
}

func readFrame(c net.Conn) {
	var hd [4]byte
	c.SetReadDeadline(time.Now().Add(2 * time.Second))
	if _, err := io.ReadFull(c, hd[:]); err != nil {
		return
	}
	n := binary.BigEndian.Uint32(hd[:])
	if n > 1<<20 {
		return
	}
	io.ReadFull(c, make([]byte, n))
}

func opConn(kind string) (string, string) {
	setup()
	idN := []byte("node-N-id-0000000001")
	idX := []byte("member-X-id-00000002")
	portN, portX := freePort(), freePort()
	// the scripted endpoint
	fl, err := net.Listen("tcp", "127.0.0.1:0")
	if err != nil {
		panic(err)
	}
	defer fl.Close()
	var accepted int32
	go func() {
		for {
			c, err := fl.Accept()
			if err != nil {
				return
			}
			atomic.AddInt32(&accepted, 1)
			go func(c net.Conn) {
				defer c.Close()
				if kind == "none" {
					return
				}
				readFrame(c)
				var id []byte
				switch kind {
				case "match":
					id = idX
				case "other":
					id = []byte("somebody-else-id-003")
				case "own":
					id = idN
				case "empty":
					id = nil
				}
				c.Write(idFrame(id))
				time.Sleep(150 * time.Millisecond) // the handshake is over, the request is on its way: hang up
			}(c)
		}
	}()
	var phase int32
	nodeN, err := p2p.CreateP2PNetwork(idN, "127.0.0.1", portN, p2p.NoDiscover)
	if err != nil {
		panic(err)
	}
	p2p.VerifSetLookup(nodeN, func(id []byte) string {
		if string(id) == string(idX) {
			if atomic.LoadInt32(&phase) == 0 {
				return fl.Addr().String()
			}
			return "127.0.0.1:" + portX
		}
		return ""
	})
	nodeX, err := p2p.CreateP2PNetwork(idX, "127.0.0.1", portX, p2p.NoDiscover)
	if err != nil {
		panic(err)
	}
	go nodeN.Listen()
	go nodeX.Listen()
	waitListening("127.0.0.1:" + portN)
	waitListening("127.0.0.1:" + portX)
	sub, _ := nodeX.SubscribeMsg(8, vss.Signature{})
	go func() {
		for m := range sub {
			if sg, ok := m.Msg.Message.(*vss.Signature); ok {
				nodeX.Reply(context.Background(), m.Sender, m.RequestNonce, sg)
			}
		}
	}()
	msg := &vss.Signature{RequestId: []byte("r"), Content: []byte("c")}
	switch kind {
	case "in2", "inclose":
		// inbound side of N
		atomic.StoreInt32(&phase, 1)
		for i := 0; i < 2; i++ {
			c, err := net.Dial("tcp", "127.0.0.1:"+portN)
			if err != nil {
				panic(err)
			}
			if kind == "inclose" {
				c.Close()
				continue
			}
			c.Write(idFrame([]byte("inbound-peer-id-0004")))
			readFrame(c)
			defer c.Close()
		}
		time.Sleep(100 * time.Millisecond)
	default:
		ctx, cancel := context.WithTimeout(context.Background(), 600*time.Millisecond)
		nodeN.Request(ctx, idX, msg) // resolved to the scripted endpoint: fails one way or another
		cancel()
		time.Sleep(400 * time.Millisecond) // the endpoint has hung up, client.run returned, the removal was handled
		atomic.StoreInt32(&phase, 1)
	}
	// the round trip to the real member X
	ctx, cancel := context.WithTimeout(context.Background(), 3*time.Second)
	defer cancel()
	_, err = nodeN.Request(ctx, idX, msg)
	if err != nil {
		return "err stale", fmt.Sprintf("not-serving-conn: after the %q connection ended a request to that member fails (%d connection(s) reached the scripted endpoint): %s", kind, atomic.LoadInt32(&accepted), err)
	}
	return "ok", ""
}

/-
Helper lemmas for C01: the recovery stage (`recoverStage`) invariants.
-/
import DosModel.Model.Query
import DosModel.Proofs.Collector
import DosModel.Proofs.Content
import Mathlib.Data.List.Perm.Subperm
import Mathlib.Data.List.Nodup

namespace Dos.Query
open Dos

/-! ### `sliceUniqMap`'s in-place compaction keeps the set of entries and the length -/

theorem mem_dedupAux (x : Bytes) : ∀ (l seen : List Bytes), x ∈ dedupAux seen l ↔ x ∈ l ∧ x ∉ seen := by
  intro l
  induction l with
  | nil => intro seen; simp [dedupAux]
  | cons y l ih =>
    intro seen
    by_cases hy : y ∈ seen
    · simp only [dedupAux, hy, if_true, ih, List.mem_cons]
      constructor
      · rintro ⟨h1, h2⟩; exact ⟨Or.inr h1, h2⟩
      · rintro ⟨h1 | h1, h2⟩
        · subst h1; exact absurd hy h2
        · exact ⟨h1, h2⟩
    · simp only [dedupAux, hy, if_false, List.mem_cons, ih]
      constructor
      · rintro (h | ⟨h1, h2⟩)
        · subst h; exact ⟨Or.inl rfl, hy⟩
        · exact ⟨Or.inr h1, fun hx => h2 (Or.inr hx)⟩
      · rintro ⟨h1 | h1, h2⟩
        · exact Or.inl h1
        · by_cases hxy : x = y
          · exact Or.inl hxy
          · exact Or.inr ⟨h1, fun hx => by rcases hx with hx | hx; exact hxy hx; exact h2 hx⟩

theorem mem_dedup (x : Bytes) (l : List Bytes) : x ∈ dedup l ↔ x ∈ l := by
  simp [dedup, mem_dedupAux]

theorem dedupAux_length_le : ∀ (l seen : List Bytes), (dedupAux seen l).length ≤ l.length := by
  intro l
  induction l with
  | nil => intro seen; simp [dedupAux]
  | cons y l ih =>
    intro seen
    by_cases hy : y ∈ seen
    · simp only [dedupAux, hy, if_true, List.length_cons]; have := ih seen; omega
    · simp only [dedupAux, hy, if_false, List.length_cons]; have := ih (y :: seen); omega

theorem mem_uniqCompact (x : Bytes) (l : List Bytes) : x ∈ uniqCompact l ↔ x ∈ l := by
  unfold uniqCompact
  rw [List.mem_append]
  constructor
  · rintro (h | h)
    · exact (mem_dedup x l).mp h
    · exact List.mem_of_mem_drop h
  · intro h; exact Or.inl ((mem_dedup x l).mpr h)

theorem uniqCompact_length (l : List Bytes) : (uniqCompact l).length = l.length := by
  unfold uniqCompact
  have := dedupAux_length_le l []
  simp only [List.length_append, List.length_drop, dedup]
  omega

/-! ### the guards and the verdict -/

theorem accepts_spec {st : StageSt} {m : Option Msg} {msg : Msg} {sg c : Bytes} {own : Nat × Bytes}
    (h : accepts st m = some (msg, sg, c, own)) :
    m = some msg ∧ msg.sig = some sg ∧ msg.content = some c ∧ msg.index = own.1 ∧ c = own.2 ∧
      (st.own = some own ∨ (st.own = none ∧ own = (msg.index, c))) := by
  unfold accepts at h
  cases m with
  | none => simp at h
  | some m0 =>
    simp only at h
    cases hs : m0.sig with
    | none => simp [hs] at h
    | some sg0 =>
      cases hc : m0.content with
      | none => simp [hs, hc] at h
      | some c0 =>
        simp only [hs, hc] at h
        cases ho : st.own with
        | none =>
          simp only [ho] at h
          split at h
          · simp at h
          · simp only [Option.some.injEq, Prod.mk.injEq] at h
            obtain ⟨rfl, rfl, rfl, rfl⟩ := h
            exact ⟨rfl, hs, hc, rfl, rfl, Or.inr ⟨rfl, rfl⟩⟩
        | some o =>
          simp only [ho] at h
          split at h
          · simp at h
          · rename_i hne
            simp only [Option.some.injEq, Prod.mk.injEq] at h
            obtain ⟨rfl, rfl, rfl, rfl⟩ := h
            have : ¬ (m0.index ≠ o.1) ∧ ¬ (c0 ≠ o.2) := by
              constructor
              · intro hh; exact hne (Or.inl hh)
              · intro hh; exact hne (Or.inr hh)
            exact ⟨rfl, hs, hc, by simpa using this.1, by simpa using this.2, Or.inl rfl⟩

/-- a well-formed message with the stage's own Index and Content is accepted -/
theorem accepts_of_match {st : StageSt} {ix : Nat} {c : Bytes} (ho : st.own = some (ix, c))
    (rid sg : Bytes) :
    accepts st (some { index := ix, rid := rid, content := some c, sig := some sg }) =
      some ({ index := ix, rid := rid, content := some c, sig := some sg }, sg, c, (ix, c)) := by
  simp [accepts, ho]

theorem verdict_report {C : Crypto} {t a : Nat} {c : Bytes} {l : List Bytes} {sig : Bytes}
    (h : verdict C t a c l = .report sig) :
    t ≤ l.length ∧ C.recover c l = .ok sig ∧ C.verify c sig = true ∧ a ≤ c.length := by
  unfold verdict at h
  by_cases ht : t ≤ l.length
  · simp only [ht, if_true] at h
    cases hr : C.recover c l with
    | panic => simp [hr] at h
    | err => simp [hr] at h
    | ok s =>
      simp only [hr] at h
      by_cases hv : C.verify c s = true
      · simp only [hv, if_true] at h
        by_cases hl : c.length < a
        · simp [hl] at h
        · simp only [hl, if_false, Verdict.report.injEq] at h
          subst h; exact ⟨ht, rfl, hv, by omega⟩
      · simp [hv] at h
  · simp [ht] at h

theorem verdict_panic {C : Crypto} {t a : Nat} {c : Bytes} {l : List Bytes}
    (h : verdict C t a c l = .panic) : C.recover c l = .panic := by
  unfold verdict at h
  by_cases ht : t ≤ l.length
  · simp only [ht, if_true] at h
    cases hr : C.recover c l with
    | panic => rfl
    | err => simp [hr] at h
    | ok s =>
      simp only [hr] at h
      by_cases hv : C.verify c s = true
      · simp only [hv, if_true] at h
        by_cases hl : c.length < a <;> simp [hl] at h
      · simp [hv] at h
  · simp [ht] at h

theorem verdict_wait {C : Crypto} {t a : Nat} {c : Bytes} {l : List Bytes}
    (h : verdict C t a c l = .wait) : ¬ t ≤ l.length := by
  unfold verdict at h
  by_cases ht : t ≤ l.length
  · simp only [ht, if_true] at h
    cases hr : C.recover c l with
    | panic => simp [hr] at h
    | err => simp [hr] at h
    | ok s =>
      simp only [hr] at h
      by_cases hv : C.verify c s = true
      · simp only [hv, if_true] at h
        by_cases hl : c.length < a <;> simp [hl] at h
      · simp [hv] at h
  · exact ht

/-- when recovery succeeds with a verifying signature the verdict is a report -/
theorem verdict_of_ok {C : Crypto} {t a : Nat} {c : Bytes} {l : List Bytes} {sig : Bytes}
    (ht : t ≤ l.length) (hr : C.recover c l = .ok sig) (hv : C.verify c sig = true) (ha : a ≤ c.length) :
    verdict C t a c l = .report sig := by
  unfold verdict
  have : ¬ c.length < a := by omega
  simp [ht, hr, hv, this]

theorem stageStep_accepted (C : Crypto) (t a : Nat) {st : StageSt} {m : Option Msg} {msg : Msg}
    {sg c : Bytes} {own : Nat × Bytes} (hs : st.stop = none) (hacc : accepts st m = some (msg, sg, c, own)) :
    stageStep C t a st m =
      match verdict C t a c (st.shares ++ [sg]) with
      | .wait => { st with own := some own, shares := st.shares ++ [sg] }
      | .fail => { st with own := some own, shares := uniqCompact (st.shares ++ [sg]) }
      | .panic => { st with own := some own, shares := uniqCompact (st.shares ++ [sg]), stop := some .panicRecover }
      | .report sig =>
        { shares := uniqCompact (st.shares ++ [sg]), own := some own,
          out := st.out ++ [{ index := msg.index, rid := msg.rid, result := c.take (c.length - a), sig := sig }],
          stop := some .reported } := by
  unfold stageStep
  simp only [hs, hacc]
  generalize verdict C t a c (st.shares ++ [sg]) = v
  cases v <;> rfl

/-! ### safety invariants of the stage -/

/-- at most one report; none while running; every report verified under the stage's own content -/
structure Safe (C : Crypto) (a : Nat) (st : StageSt) : Prop where
  outLe : st.out.length ≤ 1
  running : st.stop = none → st.out = []
  reports : ∀ r ∈ st.out, ∃ c, st.own = some (r.index, c) ∧ C.verify c r.sig = true ∧
      a ≤ c.length ∧ r.result = c.take (c.length - a)

theorem safe_init (C : Crypto) (a : Nat) : Safe C a StageSt.init :=
  ⟨by simp [StageSt.init], fun _ => rfl, by simp [StageSt.init]⟩

theorem safe_step (C : Crypto) (t a : Nat) (st : StageSt) (m : Option Msg) (h : Safe C a st) :
    Safe C a (stageStep C t a st m) := by
  unfold stageStep
  split
  · exact h
  · rename_i hstop
    have hout := h.running hstop
    split
    · exact h
    · rename_i msg sg c own hacc
      obtain ⟨_, _, _, hix, hc, _⟩ := accepts_spec hacc
      split
      · exact ⟨by simp [hout], fun _ => hout, by simp [hout]⟩
      · exact ⟨by simp [hout], fun _ => hout, by simp [hout]⟩
      · exact ⟨by simp [hout], fun hh => by simp at hh, by simp [hout]⟩
      · rename_i sig hv
        obtain ⟨_, _, hver, hlen⟩ := verdict_report hv
        refine ⟨by simp [hout], fun hh => by simp at hh, ?_⟩
        intro r hr
        simp only [hout, List.nil_append, List.mem_singleton] at hr
        subst hr
        refine ⟨c, ?_, hver, hlen, rfl⟩
        simp only [Option.some.injEq]
        rw [hix, hc]

theorem safe_fold (C : Crypto) (t a : Nat) (ms : List (Option Msg)) :
    ∀ st, Safe C a st → Safe C a (ms.foldl (stageStep C t a) st) := by
  induction ms with
  | nil => intro st h; exact h
  | cons m ms ih => intro st h; exact ih _ (safe_step C t a st m h)

/-- once fixed, `own` never changes -/
theorem own_step (C : Crypto) (t a : Nat) (st : StageSt) (m : Option Msg) (o : Nat × Bytes)
    (h : st.own = some o) : (stageStep C t a st m).own = some o := by
  unfold stageStep
  split
  · exact h
  · split
    · exact h
    · rename_i msg sg c own hacc
      obtain ⟨_, _, _, _, _, hown⟩ := accepts_spec hacc
      have : own = o := by
        rcases hown with h1 | ⟨h1, _⟩
        · rw [h] at h1; exact (Option.some.inj h1).symm
        · rw [h] at h1; cases h1
      subst this
      split <;> rfl

theorem own_fold (C : Crypto) (t a : Nat) (ms : List (Option Msg)) (o : Nat × Bytes) :
    ∀ st, st.own = some o → (ms.foldl (stageStep C t a) st).own = some o := by
  induction ms with
  | nil => intro st h; exact h
  | cons m ms ih => intro st h; exact ih _ (own_step C t a st m o h)

/-- the RequestId of a report is the RequestId of one of the processed messages -/
theorem rid_step (C : Crypto) (t a : Nat) (st : StageSt) (m : Option Msg) :
    ∀ r ∈ (stageStep C t a st m).out, r ∈ st.out ∨ ∃ msg, m = some msg ∧ r.rid = msg.rid := by
  intro r hr
  unfold stageStep at hr
  split at hr
  · exact Or.inl hr
  · split at hr
    · exact Or.inl hr
    · rename_i msg sg c own hacc
      obtain ⟨hm, _⟩ := accepts_spec hacc
      split at hr
      · exact Or.inl hr
      · exact Or.inl hr
      · exact Or.inl hr
      · simp only [List.mem_append, List.mem_singleton] at hr
        rcases hr with hr | hr
        · exact Or.inl hr
        · exact Or.inr ⟨msg, hm, by rw [hr]⟩

theorem rid_fold (C : Crypto) (t a : Nat) (ms : List (Option Msg)) :
    ∀ st, ∀ r ∈ (ms.foldl (stageStep C t a) st).out,
      r ∈ st.out ∨ ∃ msg, some msg ∈ ms ∧ r.rid = msg.rid := by
  induction ms with
  | nil => intro st r hr; exact Or.inl hr
  | cons m ms ih =>
    intro st r hr
    rcases ih _ r hr with h | ⟨msg, hm, hrid⟩
    · rcases rid_step C t a st m r h with h | ⟨msg, hm, hrid⟩
      · exact Or.inl h
      · exact Or.inr ⟨msg, by simp [hm], hrid⟩
    · exact Or.inr ⟨msg, List.mem_cons_of_mem _ hm, hrid⟩

/-- what the first (own) message does to the initial state -/
theorem first_own (C : Crypto) (t a : Nat) (ix : Nat) (rid c sg : Bytes) :
    (stageStep C t a StageSt.init (some { index := ix, rid := rid, content := some c, sig := some sg })).own
      = some (ix, c) := by
  have hacc : accepts StageSt.init (some { index := ix, rid := rid, content := some c, sig := some sg }) =
      some ({ index := ix, rid := rid, content := some c, sig := some sg }, sg, c, (ix, c)) := by
    simp [accepts, StageSt.init]
  rw [stageStep_accepted C t a rfl hacc]
  split <;> rfl

/-! ### liveness of the stage under the C02 / C03 contracts -/

/-- `l` holds valid shares on `c` of at least `t` distinct members -/
def Enough (Valid : Nat → Bytes → Bytes → Prop) (c : Bytes) (t : Nat) (l : List Bytes) : Prop :=
  ∃ gs : List (Nat × Bytes), (gs.map (·.1)).Nodup ∧ t ≤ gs.length ∧ ∀ p ∈ gs, Valid p.1 c p.2 ∧ p.2 ∈ l

theorem enough_of_mem_iff {Valid : Nat → Bytes → Bytes → Prop} {c : Bytes} {t : Nat} {l l' : List Bytes}
    (h : ∀ x, x ∈ l ↔ x ∈ l') (e : Enough Valid c t l) : Enough Valid c t l' := by
  obtain ⟨gs, h1, h2, h3⟩ := e
  exact ⟨gs, h1, h2, fun p hp => ⟨(h3 p hp).1, (h _).mp (h3 p hp).2⟩⟩

/-- the running-state invariant used for liveness; `done` = messages processed so far -/
structure Live (Valid : Nat → Bytes → Bytes → Prop) (ix : Nat) (c0 : Bytes) (t : Nat)
    (done : List (Option Msg)) (st : StageSt) : Prop where
  noPanic : st.stop ≠ some .panicRecover
  reported : st.stop = some .reported → st.out.length = 1
  running : st.stop = none → st.out = [] ∧ st.own = some (ix, c0) ∧
    (∀ rid sg, some ({ index := ix, rid := rid, content := some c0, sig := some sg } : Msg) ∈ done → sg ∈ st.shares) ∧
    ¬ (Enough Valid c0 t st.shares ∧ t ≤ st.shares.length)

theorem live_step {Valid : Nat → Bytes → Bytes → Prop} (C : Crypto) (t a ix : Nat) (c0 : Bytes)
    (ha : a ≤ c0.length)
    (hrec : ∀ l, Enough Valid c0 t l → ∃ sig, C.recover c0 l = .ok sig ∧ C.verify c0 sig = true)
    (htot : ∀ l, C.recover c0 l ≠ .panic)
    (done : List (Option Msg)) (st : StageSt) (m : Option Msg)
    (h : Live Valid ix c0 t done st) : Live Valid ix c0 t (done ++ [m]) (stageStep C t a st m) := by
  unfold stageStep
  split
  · -- already returned
    rename_i s hs
    exact ⟨h.noPanic, h.reported, fun hh => by rw [hs] at hh; cases hh⟩
  · rename_i hstop
    obtain ⟨hout, hown, hmem, hnot⟩ := h.running hstop
    split
    · -- skipped: then it is not one of the messages that must be collected
      rename_i hacc
      refine ⟨h.noPanic, h.reported, fun _ => ⟨hout, hown, ?_, hnot⟩⟩
      intro rid sg hin
      rw [List.mem_append] at hin
      rcases hin with hin | hin
      · exact hmem rid sg hin
      · simp only [List.mem_singleton] at hin
        rw [← hin, accepts_of_match hown rid sg] at hacc
        cases hacc
    · rename_i msg sg c own hacc
      obtain ⟨hm, hsig, hcont, hix, hc, hown'⟩ := accepts_spec hacc
      have hown2 : own = (ix, c0) := by
        rcases hown' with h1 | ⟨h1, _⟩
        · rw [hown] at h1; exact (Option.some.inj h1).symm
        · rw [hown] at h1; cases h1
      subst hown2
      have hc0 : c = c0 := hc
      subst hc0
      -- every message to collect, old or this one, is in the new share list
      have hmem' : ∀ (l : List Bytes), (∀ x, x ∈ l ↔ x ∈ st.shares ++ [sg]) →
          ∀ rid sg', some ({ index := ix, rid := rid, content := some c, sig := some sg' } : Msg) ∈ done ++ [m] →
            sg' ∈ l := by
        intro l hl rid sg' hin
        rw [hl, List.mem_append]
        rw [List.mem_append] at hin
        rcases hin with hin | hin
        · exact Or.inl (hmem rid sg' hin)
        · simp only [List.mem_singleton] at hin
          rw [hm] at hin
          have : msg.sig = some sg' := by rw [← Option.some.inj hin]
          rw [hsig] at this
          simp [Option.some.inj this]
      split
      · -- wait
        rename_i hv
        have := verdict_wait hv
        exact ⟨by simp [hstop], fun hh => (by rw [hstop] at hh; cases hh),
          fun _ => ⟨hout, rfl, hmem' _ (fun _ => Iff.rfl), fun hh => this hh.2⟩⟩
      · -- fail: not enough valid shares yet (else recovery would have succeeded)
        rename_i hv
        refine ⟨by simp [hstop], fun hh => (by rw [hstop] at hh; cases hh),
          fun _ => ⟨hout, rfl, hmem' _ (fun x => mem_uniqCompact x _), ?_⟩⟩
        rintro ⟨hen, hlen⟩
        rw [uniqCompact_length] at hlen
        have hen' := enough_of_mem_iff (fun x => mem_uniqCompact x (st.shares ++ [sg])) hen
        obtain ⟨sig, h1, h2⟩ := hrec _ hen'
        rw [verdict_of_ok hlen h1 h2 ha] at hv
        cases hv
      · -- panic: excluded by the contract
        rename_i hv
        exact absurd (verdict_panic hv) (htot _)
      · -- report
        exact ⟨by simp, fun _ => by simp [hout], fun hh => by simp at hh⟩

theorem live_fold {Valid : Nat → Bytes → Bytes → Prop} (C : Crypto) (t a ix : Nat) (c0 : Bytes)
    (ha : a ≤ c0.length)
    (hrec : ∀ l, Enough Valid c0 t l → ∃ sig, C.recover c0 l = .ok sig ∧ C.verify c0 sig = true)
    (htot : ∀ l, C.recover c0 l ≠ .panic) (ms : List (Option Msg)) :
    ∀ (done : List (Option Msg)) (st : StageSt), Live Valid ix c0 t done st →
      Live Valid ix c0 t (done ++ ms) (ms.foldl (stageStep C t a) st) := by
  induction ms with
  | nil => intro done st h; simpa using h
  | cons m ms ih =>
    intro done st h
    have := ih (done ++ [m]) _ (live_step C t a ix c0 ha hrec htot done st m h)
    simpa [List.append_assoc] using this

/-- the own share, processed first, establishes the invariant -/
theorem live_first {Valid : Nat → Bytes → Bytes → Prop} (C : Crypto) (t a ix : Nat) (c0 rid0 s0 : Bytes)
    (ha : a ≤ c0.length)
    (hrec : ∀ l, Enough Valid c0 t l → ∃ sig, C.recover c0 l = .ok sig ∧ C.verify c0 sig = true)
    (htot : ∀ l, C.recover c0 l ≠ .panic) :
    Live Valid ix c0 t [some { index := ix, rid := rid0, content := some c0, sig := some s0 }]
      (stageStep C t a StageSt.init (some { index := ix, rid := rid0, content := some c0, sig := some s0 })) := by
  have hacc : accepts StageSt.init (some { index := ix, rid := rid0, content := some c0, sig := some s0 }) =
      some ({ index := ix, rid := rid0, content := some c0, sig := some s0 }, s0, c0, (ix, c0)) := by
    simp [accepts, StageSt.init]
  have hmem : ∀ (l : List Bytes), (∀ x, x ∈ l ↔ x ∈ [s0]) → ∀ rid sg,
      some ({ index := ix, rid := rid, content := some c0, sig := some sg } : Msg) ∈
        [some ({ index := ix, rid := rid0, content := some c0, sig := some s0 } : Msg)] → sg ∈ l := by
    intro l hl rid sg hin
    simp only [List.mem_singleton, Option.some.injEq, Msg.mk.injEq] at hin
    rw [hl]; simp [hin.2.2.2]
  rw [stageStep_accepted C t a rfl hacc]
  have hsh : StageSt.init.shares ++ [s0] = [s0] := rfl
  rw [hsh]
  split
  · rename_i hv
    have := verdict_wait hv
    exact ⟨by simp [StageSt.init], fun hh => (by simp [StageSt.init] at hh),
      fun _ => ⟨rfl, rfl, hmem _ (fun _ => Iff.rfl), fun hh => this hh.2⟩⟩
  · rename_i hv
    refine ⟨by simp [StageSt.init], fun hh => (by simp [StageSt.init] at hh),
      fun _ => ⟨rfl, rfl, hmem _ (fun x => mem_uniqCompact x _), ?_⟩⟩
    rintro ⟨hen, hlen⟩
    rw [uniqCompact_length] at hlen
    have hen' := enough_of_mem_iff (fun x => mem_uniqCompact x [s0]) hen
    obtain ⟨sig, h1, h2⟩ := hrec _ hen'
    rw [verdict_of_ok hlen h1 h2 ha] at hv
    cases hv
  · rename_i hv
    exact absurd (verdict_panic hv) (htot _)
  · exact ⟨by simp, fun _ => (by simp [StageSt.init]), fun hh => (by simp at hh)⟩

/-! ### content shape, collector facts -/

/-- every content stage appends the submitter address to a result -/
theorem contentFor_shape {padSize : Nat} {r : Request} {addr c : Bytes}
    (h : contentFor padSize r addr = some c) : ∃ d, c = d ++ addr := by
  unfold contentFor at h
  cases hk : r.kind with
  | sys =>
    simp only [hk, Option.some.injEq] at h
    exact ⟨_, by rw [← h]; rfl⟩
  | user =>
    simp only [hk, Option.some.injEq] at h
    exact ⟨Dos.natBytes r.rid ++ Dos.natBytes r.last ++ Dos.natBytes r.seed, by
      rw [← h]; simp [Content.userContent, Content.userContentRaw]⟩
  | url =>
    simp only [hk] at h
    cases hp : r.parsed with
    | none => simp [hp] at h
    | some p =>
      simp only [hp, Option.map_some, Option.some.injEq] at h
      exact ⟨p, by rw [← h]; rfl⟩

theorem mem_arrivalsFor {r : Collector.Rid} {s : Collector.Share} :
    ∀ es : List Collector.Ev, s ∈ Collector.arrivalsFor r es → Collector.Ev.arrive s ∈ es ∧ s.rid = r := by
  intro es
  induction es with
  | nil => intro h; simp [Collector.arrivalsFor] at h
  | cons e es ih =>
    intro h
    cases e with
    | arrive s' =>
      by_cases hs : s'.rid = r
      · simp only [Collector.arrivalsFor, hs, if_true, List.mem_cons] at h
        rcases h with h | h
        · subst h; exact ⟨by simp, hs⟩
        · exact ⟨List.mem_cons_of_mem _ (ih h).1, (ih h).2⟩
      · simp only [Collector.arrivalsFor, hs, if_false] at h
        exact ⟨List.mem_cons_of_mem _ (ih h).1, (ih h).2⟩
    | register h' r' => simp only [Collector.arrivalsFor] at h; exact ⟨List.mem_cons_of_mem _ (ih h).1, (ih h).2⟩
    | cancel h' => simp only [Collector.arrivalsFor] at h; exact ⟨List.mem_cons_of_mem _ (ih h).1, (ih h).2⟩
    | watchdog => simp only [Collector.arrivalsFor] at h; exact ⟨List.mem_cons_of_mem _ (ih h).1, (ih h).2⟩
    | other => simp only [Collector.arrivalsFor] at h; exact ⟨List.mem_cons_of_mem _ (ih h).1, (ih h).2⟩

theorem arrivalsFor_of_mem {r : Collector.Rid} {s : Collector.Share} :
    ∀ es : List Collector.Ev, Collector.Ev.arrive s ∈ es → s.rid = r → s ∈ Collector.arrivalsFor r es := by
  intro es
  induction es with
  | nil => intro h; simp at h
  | cons e es ih =>
    intro h hr
    simp only [List.mem_cons] at h
    rcases h with h | h
    · subst h; simp [Collector.arrivalsFor, hr]
    · cases e with
      | arrive s' =>
        by_cases hs : s'.rid = r
        · simp only [Collector.arrivalsFor, hs, if_true, List.mem_cons]; exact Or.inr (ih h hr)
        · simp only [Collector.arrivalsFor, hs, if_false]; exact ih h hr
      | register h' r' => simp only [Collector.arrivalsFor]; exact ih h hr
      | cancel h' => simp only [Collector.arrivalsFor]; exact ih h hr
      | watchdog => simp only [Collector.arrivalsFor]; exact ih h hr
      | other => simp only [Collector.arrivalsFor]; exact ih h hr

/-- what the collector hands to instance `h` arrived as a peer message under a request id `h` registered for -/
theorem delivered_origin (es : List Collector.Ev) (h : Nat) (s : Collector.Share)
    (hs : s ∈ Collector.deliveries es h) :
    Collector.Ev.arrive s ∈ es ∧ Collector.Ev.register h s.rid ∈ es := by
  simp only [Collector.deliveries, List.mem_map, List.mem_filter] at hs
  obtain ⟨p, ⟨hp, hph⟩, rfl⟩ := hs
  have hp1 : p.1 = h := by simpa using hph
  have hreg := Collector.run_out_mem es Collector.init [] (by simp [Collector.init]) (by simp [Collector.init]) p hp
  simp only [List.nil_append] at hreg
  rw [hp1] at hreg
  refine ⟨?_, hreg⟩
  have hsub := Collector.run_sublist p.2.rid es Collector.init Collector.good_init
  have hmem : p.2 ∈ (((Collector.run Collector.init es).2.map (·.2)).filter (fun s => s.rid = p.2.rid)) := by
    simp only [List.mem_filter, List.mem_map, decide_eq_true_eq, and_true]
    exact ⟨p, hp, rfl⟩
  have := hsub.subset hmem
  simp only [Collector.init, List.nil_append] at this
  exact (mem_arrivalsFor es this).1

/-! ### the group seen from outside (liveness at group level, Review A #4) -/

/-- one request at a whole group: `honest` members run `handleQuery`, the others are Byzantine (silent
or arbitrary); what reaches each honest member's stage is `fcOf` – up to the network and the adversary. -/
structure GroupRun where
  C : Crypto
  p : Nat
  a : Nat
  ids : List Bytes
  r : Request
  signOf : Nat → Bytes → Bytes
  honest : List Nat
  fcOf : Nat → List (Option Msg)

def GroupRun.member (g : GroupRun) (i : Nat) : Member :=
  { ids := g.ids, me := g.ids.getD i [], signOwn := g.signOf i }

def GroupRun.out (g : GroupRun) (i : Nat) : NodeOut :=
  handleQuery g.C g.p g.a (g.member i) g.r (g.fcOf i)

/-- the premise of the property's liveness clause: at least a threshold of members are honest, hold
valid key shares (distinct signatures), every member can compute the request's content, the C02/C03
contracts hold, and every honest member CAN REACH THE SELECTED SUBMITTER: if that member is honest,
whatever an honest member sends to it is among the messages that reach its stage. -/
structure LivePremise (Valid : Nat → Bytes → Bytes → Prop) (g : GroupRun) : Prop where
  nodup : g.honest.Nodup
  inGroup : ∀ i ∈ g.honest, i < g.ids.length
  enough : Content.threshold g.ids.length ≤ g.honest.length
  idsNodup : g.ids.Nodup
  idsLen : ∀ id ∈ g.ids, id.length = g.a
  hrec : ∀ c l, Enough Valid c (Content.threshold g.ids.length) l →
    ∃ sig, g.C.recover c l = .ok sig ∧ g.C.verify c sig = true
  htot : ∀ c l, g.C.recover c l ≠ .panic
  content : ∀ addr, (contentFor g.p g.r addr).isSome = true
  valid : ∀ i ∈ g.honest, ∀ c, Valid i c (g.signOf i c)
  distinct : ∀ i ∈ g.honest, ∀ j ∈ g.honest, ∀ c, g.signOf i c = g.signOf j c → i = j
  reach : ∀ s, Content.submitterIdx g.r.last g.ids.length = some s → s ∈ g.honest →
    ∀ j ∈ g.honest, j ≠ s → ∀ m, (g.out j).sent = [(g.ids.getD s [], some m)] → some m ∈ g.fcOf s

/-- the group of three of Props/C01.lean with member 1 – the selected submitter for
`lastRand = 7` – SILENT: members 0 and 2 are honest (t = 2), hold valid shares, reach everybody; the
crypto is the most permissive one (everything recovers and verifies), so every contract holds. -/
def silentSub : GroupRun :=
  { C := { recover := fun _ _ => .ok [1], verify := fun _ _ => true }, p := 32, a := 20,
    ids := [List.replicate 20 0xA1, List.replicate 20 0xB2, List.replicate 20 0xC3],
    r := { kind := .sys, rid := 7, last := 7, seed := 0, parsed := none },
    signOf := fun i _ => [UInt8.ofNat i], honest := [0, 2], fcOf := fun _ => [] }


/-! ### the stage wiring of `handleQuery` as data (regenerated: `Gen.QueryLoopFacts.handleQueryWiring`) -/

/-- one stage call: (switch case label or "", callee, results, arguments) -/
abbrev Wire := String × String × List String × List String

/-- the stage calls that take channel `c` as an argument -/
def consumers (ws : List Wire) (c : String) : List Wire := ws.filter (fun w => w.2.2.2.contains c)

/-- follow the data from channel `c`: the callees that consume it, then the first result of (the first
of) them, and so on – the pipeline order DERIVED from which call reads which call's result -/
def pipelineFrom (ws : List Wire) : Nat → String → List (List String)
  | 0, _ => []
  | fuel + 1, c =>
    match consumers ws c with
    | [] => []
    | w :: rest =>
      ((w :: rest).map (·.2.1)) ::
        (match w.2.2.1 with
         | o :: _ => pipelineFrom ws fuel o
         | [] => [])

/-! ### the deadline: a stage that has returned is frozen -/

theorem stageStep_stopped (C : Crypto) (t a : Nat) (st : StageSt) (m : Option Msg) (x : Stop)
    (h : st.stop = some x) : stageStep C t a st m = st := by
  simp [stageStep, h]

theorem fold_stopped (C : Crypto) (t a : Nat) (ms : List (Option Msg)) : ∀ (st : StageSt) (x : Stop),
    st.stop = some x → ms.foldl (stageStep C t a) st = st := by
  induction ms with
  | nil => intro st x _; rfl
  | cons m ms ih => intro st x h; rw [List.foldl_cons, stageStep_stopped C t a st m x h]; exact ih st x h

/-- cutting the input of the stage (the deadline fires, the collector stops delivering) can only SUPPRESS
the report: if the stage emitted on the prefix, the whole run is that very state -/
theorem stage_prefix (C : Crypto) (t a : Nat) (ms₁ ms₂ : List (Option Msg))
    (h : (recoverStage C t a ms₁).out ≠ []) :
    recoverStage C t a (ms₁ ++ ms₂) = recoverStage C t a ms₁ := by
  unfold recoverStage at *
  rw [List.foldl_append]
  have hs := safe_fold C t a ms₁ _ (safe_init C a)
  cases hstop : (ms₁.foldl (stageStep C t a) StageSt.init).stop with
  | none => exact absurd (hs.running hstop) h
  | some x => exact fold_stopped C t a ms₂ _ x hstop

end Dos.Query

/-
Helper lemmas for C18: `firstEvent` as a fold, `merge` as an interleaving.
-/
import DosModel.Model.Events

namespace Dos.Events
open Dos

variable {H P : Type} [DecidableEq H]

/-- the map update `visited[k] = n` -/
def upd (v : List (Ident H × Nat)) (k : Ident H) (n : Nat) : List (Ident H × Nat) :=
  (k, n) :: v.filter (fun p => p.1 ≠ k)

/-- the logs (not just their payloads) that `run` delivers -/
def runL (hash : Bytes → H) (legacy : Bool) : List (Ident H × Nat) → List (Item H P) → List (Log P)
  | _, [] => []
  | v, .other :: xs => runL hash legacy v xs
  | v, .expire i :: xs => runL hash legacy (v.filter (fun p => p.1 ≠ i)) xs
  | v, .log l :: xs =>
    if l.removed then runL hash legacy v xs
    else if lookup v (ident hash legacy l) = 0 then
      l :: runL hash legacy (upd v (ident hash legacy l) l.blockN) xs
    else runL hash legacy v xs

theorem run_eq_map_runL (hash : Bytes → H) (legacy : Bool) :
    ∀ (xs : List (Item H P)) (v : List (Ident H × Nat)),
      run hash legacy v xs = (runL hash legacy v xs).map (·.payload) := by
  intro xs
  induction xs with
  | nil => intro v; simp [run, runL]
  | cons x xs ih =>
    intro v
    cases x with
    | other => simp [run, runL, step, ih]
    | expire i => simp [run, runL, step, ih]
    | log l =>
      by_cases hr : l.removed = true
      · simp [run, runL, step, hr, ih]
      · by_cases hl : lookup v (ident hash legacy l) = 0
        · simp [run, runL, step, hr, hl, ih, upd]
        · simp [run, runL, step, hr, hl, ih]

theorem lookup_nil (k : Ident H) : lookup ([] : List (Ident H × Nat)) k = 0 := by
  simp [lookup]

theorem lookup_filter_ne (v : List (Ident H × Nat)) (k k' : Ident H) (h : k' ≠ k) :
    lookup (v.filter (fun p => p.1 ≠ k)) k' = lookup v k' := by
  unfold lookup
  rw [List.find?_filter]
  have : ∀ a : Ident H × Nat,
      decide (decide (a.1 ≠ k) = true ∧ decide (a.1 = k') = true) = decide (a.1 = k') := by
    intro a
    by_cases ha : a.1 = k'
    · simp [ha, h]
    · simp [ha]
  simp only [this]

theorem lookup_upd (v : List (Ident H × Nat)) (k k' : Ident H) (n : Nat) :
    lookup (upd v k n) k' = if k' = k then n else lookup v k' := by
  by_cases h : k' = k
  · subst h; simp [upd, lookup]
  · have hne : ¬ k = k' := fun e => h e.symm
    have e : lookup (upd v k n) k' = lookup (v.filter (fun p => p.1 ≠ k)) k' := by
      unfold upd lookup
      rw [List.find?_cons]
      simp [hne]
    rw [e, lookup_filter_ne v k k' h]
    simp [h]

/-- nothing is delivered that was not received un-removed -/
theorem runL_sub (hash : Bytes → H) (legacy : Bool) :
    ∀ (xs : List (Item H P)) (v : List (Ident H × Nat)) (l : Log P),
      l ∈ runL hash legacy v xs → Item.log l ∈ xs ∧ l.removed = false := by
  intro xs
  induction xs with
  | nil => intro v l h; simp [runL] at h
  | cons x xs ih =>
    intro v l h
    cases x with
    | other =>
      have := ih v l (by simpa [runL] using h)
      exact ⟨List.mem_cons_of_mem _ this.1, this.2⟩
    | expire i =>
      have := ih _ l (by simpa [runL] using h)
      exact ⟨List.mem_cons_of_mem _ this.1, this.2⟩
    | log l0 =>
      by_cases hr : l0.removed = true
      · have := ih v l (by simpa [runL, hr] using h)
        exact ⟨List.mem_cons_of_mem _ this.1, this.2⟩
      · by_cases hl : lookup v (ident hash legacy l0) = 0
        · simp only [runL, hr, hl, if_true, Bool.false_eq_true, if_false, List.mem_cons] at h
          rcases h with h | h
          · subst h; exact ⟨by simp, by simpa using hr⟩
          · have := ih _ l h
            exact ⟨List.mem_cons_of_mem _ this.1, this.2⟩
        · have := ih v l (by simpa [runL, hr, hl] using h)
          exact ⟨List.mem_cons_of_mem _ this.1, this.2⟩

/-- no timer fires inside the run (= the run lies within the de-duplication window) -/
def NoExpire (xs : List (Item H P)) : Prop := ∀ x ∈ xs, ∀ i, x ≠ Item.expire i

/-- every log received un-removed has a block number > 0 (every mined log has) -/
def PosBlocks (xs : List (Item H P)) : Prop :=
  ∀ l : Log P, Item.log l ∈ xs → l.removed = false → 0 < l.blockN

theorem NoExpire.tail {x : Item H P} {xs : List (Item H P)} (h : NoExpire (x :: xs)) : NoExpire xs :=
  fun y hy i => h y (List.mem_cons_of_mem _ hy) i

theorem PosBlocks.tail {x : Item H P} {xs : List (Item H P)} (h : PosBlocks (x :: xs)) : PosBlocks xs :=
  fun l hl hr => h l (List.mem_cons_of_mem _ hl) hr

/-- within the window, a delivered log was not yet remembered -/
theorem runL_fresh (hash : Bytes → H) (legacy : Bool) :
    ∀ (xs : List (Item H P)) (v : List (Ident H × Nat)) (l : Log P),
      NoExpire xs → PosBlocks xs → l ∈ runL hash legacy v xs → lookup v (ident hash legacy l) = 0 := by
  intro xs
  induction xs with
  | nil => intro v l _ _ h; simp [runL] at h
  | cons x xs ih =>
    intro v l hne hpos h
    cases x with
    | other => exact ih v l hne.tail hpos.tail (by simpa [runL] using h)
    | expire i => exact absurd rfl (hne _ (by simp) i)
    | log l0 =>
      by_cases hr : l0.removed = true
      · exact ih v l hne.tail hpos.tail (by simpa [runL, hr] using h)
      · by_cases hl : lookup v (ident hash legacy l0) = 0
        · simp only [runL, hr, hl, if_true, Bool.false_eq_true, if_false, List.mem_cons] at h
          rcases h with h | h
          · subst h; exact hl
          · have := ih _ l hne.tail hpos.tail h
            rw [lookup_upd] at this
            by_cases he : ident hash legacy l = ident hash legacy l0
            · simp [he] at this
              have := hpos l0 (by simp) (by simpa using hr)
              omega
            · simpa [he] using this
        · exact ih v l hne.tail hpos.tail (by simpa [runL, hr, hl] using h)

/-- within the window, delivered logs have pairwise different identities: nothing is delivered twice -/
theorem runL_pairwise (hash : Bytes → H) (legacy : Bool) :
    ∀ (xs : List (Item H P)) (v : List (Ident H × Nat)),
      NoExpire xs → PosBlocks xs →
      (runL hash legacy v xs).Pairwise (fun a b => ident hash legacy a ≠ ident hash legacy b) := by
  intro xs
  induction xs with
  | nil => intro v _ _; simp [runL]
  | cons x xs ih =>
    intro v hne hpos
    cases x with
    | other => simpa [runL] using ih v hne.tail hpos.tail
    | expire i => exact absurd rfl (hne _ (by simp) i)
    | log l0 =>
      by_cases hr : l0.removed = true
      · simpa [runL, hr] using ih v hne.tail hpos.tail
      · by_cases hl : lookup v (ident hash legacy l0) = 0
        · simp only [runL, hr, hl, if_true, Bool.false_eq_true, if_false, List.pairwise_cons]
          refine ⟨?_, ih _ hne.tail hpos.tail⟩
          intro b hb he
          have := runL_fresh hash legacy xs _ b hne.tail hpos.tail hb
          rw [lookup_upd] at this
          simp [he.symm] at this
          have := hpos l0 (by simp) (by simpa using hr)
          omega
        · simpa [runL, hr, hl] using ih v hne.tail hpos.tail

/-- within the window, a log received un-removed whose identity is not yet remembered gets delivered
(it, or the first received log with the same identity) -/
theorem runL_complete (hash : Bytes → H) (legacy : Bool) :
    ∀ (xs : List (Item H P)) (v : List (Ident H × Nat)) (l : Log P),
      NoExpire xs → Item.log l ∈ xs → l.removed = false → lookup v (ident hash legacy l) = 0 →
      ∃ l' ∈ runL hash legacy v xs, ident hash legacy l' = ident hash legacy l := by
  intro xs
  induction xs with
  | nil => intro v l _ h; simp at h
  | cons x xs ih =>
    intro v l hne hmem hr hl
    cases x with
    | other =>
      have hm : Item.log l ∈ xs := by simpa using hmem
      obtain ⟨l', h1, h2⟩ := ih v l hne.tail hm hr hl
      exact ⟨l', by simpa [runL] using h1, h2⟩
    | expire i => exact absurd rfl (hne _ (by simp) i)
    | log l0 =>
      by_cases hr0 : l0.removed = true
      · have hm : Item.log l ∈ xs := by
          rcases List.mem_cons.1 hmem with h | h
          · injection h with h; subst h; simp [hr] at hr0
          · exact h
        obtain ⟨l', h1, h2⟩ := ih v l hne.tail hm hr hl
        exact ⟨l', by simpa [runL, hr0] using h1, h2⟩
      · by_cases hl0 : lookup v (ident hash legacy l0) = 0
        · by_cases he : ident hash legacy l0 = ident hash legacy l
          · exact ⟨l0, by simp [runL, hr0, hl0], he⟩
          · have hm : Item.log l ∈ xs := by
              rcases List.mem_cons.1 hmem with h | h
              · injection h with h; subst h; exact absurd rfl he
              · exact h
            have hl' : lookup (upd v (ident hash legacy l0) l0.blockN) (ident hash legacy l) = 0 := by
              have hne' : ¬ ident hash legacy l = ident hash legacy l0 := fun e => he e.symm
              rw [lookup_upd]; simp [hne', hl]
            obtain ⟨l', h1, h2⟩ := ih _ l hne.tail hm hr hl'
            exact ⟨l', by simp [runL, hr0, hl0, h1], h2⟩
        · have hm : Item.log l ∈ xs := by
            rcases List.mem_cons.1 hmem with h | h
            · injection h with h; subst h; exact absurd hl hl0
            · exact h
          obtain ⟨l', h1, h2⟩ := ih v l hne.tail hm hr hl
          exact ⟨l', by simpa [runL, hr0, hl0] using h1, h2⟩

/-- removed-flagged values do not influence the run at all -/
theorem run_filter_removed (hash : Bytes → H) (legacy : Bool) :
    ∀ (xs : List (Item H P)) (v : List (Ident H × Nat)),
      run hash legacy v xs =
        run hash legacy v (xs.filter (fun x => match x with | .log l => !l.removed | _ => true)) := by
  intro xs
  induction xs with
  | nil => intro v; simp
  | cons x xs ih =>
    intro v
    cases x with
    | other => simp [run, step, ih v]
    | expire i => simp [run, step, ih]
    | log l =>
      by_cases hr : l.removed = true
      · simp [run, step, hr, ih v]
      · have hr' : l.removed = false := by simpa using hr
        by_cases hl : lookup v (ident hash legacy l) = 0
        · simp [run, step, hr', hl, ih]
        · simp [run, step, hr', hl, ih v]

/-! ### interleavings -/

theorem Interleaving.mem_of_mem {α : Type} {ss : List (List α)} {m : List α} (h : Interleaving ss m) :
    ∀ y, y ∈ m → ∃ s ∈ ss, y ∈ s := by
  induction h with
  | done _ => intro y hy; simp at hy
  | @next ss x s m i hi _ ih =>
    intro y hy
    have hmem : (x :: s) ∈ ss := List.mem_of_getElem? hi
    rcases List.mem_cons.1 hy with h | h
    · exact ⟨x :: s, hmem, by simp [h]⟩
    · obtain ⟨s', hs', hys'⟩ := ih y h
      rcases List.mem_or_eq_of_mem_set hs' with h1 | h1
      · exact ⟨s', h1, hys'⟩
      · subst h1; exact ⟨x :: s', hmem, List.mem_cons_of_mem _ hys'⟩

theorem Interleaving.mem_of_mem_stream {α : Type} {ss : List (List α)} {m : List α} (h : Interleaving ss m) :
    ∀ s ∈ ss, ∀ y ∈ s, y ∈ m := by
  induction h with
  | done hall => intro s hs y hy; rw [hall s hs] at hy; simp at hy
  | @next ss x s m i hi _ ih =>
    intro s' hs' y hy
    obtain ⟨j, hj, hget⟩ := List.getElem_of_mem hs'
    have hi' : i < ss.length := by
      rcases Nat.lt_or_ge i ss.length with h | h
      · exact h
      · rw [List.getElem?_eq_none h] at hi; simp at hi
    by_cases hji : j = i
    · subst hji
      have : ss[j]? = some s' := by rw [List.getElem?_eq_getElem hj, hget]
      rw [this] at hi; injection hi with hi; subst hi
      rcases List.mem_cons.1 hy with h | h
      · simp [h]
      · refine List.mem_cons_of_mem _ (ih s ?_ y h)
        have : (ss.set j s)[j]? = some s := by simp [hj]
        exact List.mem_of_getElem? this
    · refine List.mem_cons_of_mem _ (ih s' ?_ y hy)
      have : (ss.set i s)[j]? = some s' := by
        rw [List.getElem?_set_ne (fun e => hji e.symm), List.getElem?_eq_getElem hj, hget]
      exact List.mem_of_getElem? this

/-- distinct identities make the identity a key -/
theorem eq_of_ident_eq {hash : Bytes → H} {legacy : Bool} {Hs : List (Log P)}
    (hd : Hs.Pairwise (fun a b => ident hash legacy a ≠ ident hash legacy b))
    {a b : Log P} (ha : a ∈ Hs) (hb : b ∈ Hs) (he : ident hash legacy a = ident hash legacy b) : a = b := by
  induction Hs with
  | nil => simp at ha
  | cons c cs ih =>
    rw [List.pairwise_cons] at hd
    rcases List.mem_cons.1 ha with ha' | ha' <;> rcases List.mem_cons.1 hb with hb' | hb'
    · rw [ha', hb']
    · rw [ha'] at he; exact absurd he (hd.1 b hb')
    · rw [hb'] at he; exact absurd he.symm (hd.1 a ha')
    · exact ih hd.2 ha' hb'

/-! ### the 1500 s timers: harmless when they fire after the last observation of their identity -/

theorem lookup_filter_self (v : List (Ident H × Nat)) (k : Ident H) :
    lookup (v.filter (fun p => p.1 ≠ k)) k = 0 := by
  unfold lookup
  rw [List.find?_filter]
  have : ∀ a : Ident H × Nat,
      decide (decide (a.1 ≠ k) = true ∧ decide (a.1 = k) = true) = false := by
    intro a
    by_cases ha : a.1 = k <;> simp [ha]
  simp only [this]
  have : List.find? (fun _ : Ident H × Nat => false) v = none := by
    induction v with
    | nil => rfl
    | cons a v ih => simp [List.find?_cons]
  rw [this]

/-- the two maps answer alike on every key but `i` -/
def Agree (i : Ident H) (v1 v2 : List (Ident H × Nat)) : Prop := ∀ k, k ≠ i → lookup v1 k = lookup v2 k

theorem Agree.upd {i : Ident H} {v1 v2 : List (Ident H × Nat)} (h : Agree i v1 v2) (k : Ident H) (n : Nat) :
    Agree i (upd v1 k n) (upd v2 k n) := by
  intro k' hk'
  rw [lookup_upd, lookup_upd]
  by_cases e : k' = k
  · simp [e]
  · simp [e, h k' hk']

theorem Agree.filter {i : Ident H} {v1 v2 : List (Ident H × Nat)} (h : Agree i v1 v2) (j : Ident H) :
    Agree i (v1.filter (fun p => p.1 ≠ j)) (v2.filter (fun p => p.1 ≠ j)) := by
  intro k hk
  by_cases e : k = j
  · subst e; rw [lookup_filter_self, lookup_filter_self]
  · rw [lookup_filter_ne _ _ _ e, lookup_filter_ne _ _ _ e]; exact h k hk

/-- identity `i` is not observed (un-removed) any more in `xs` -/
def Unobserved (hash : Bytes → H) (legacy : Bool) (i : Ident H) (xs : List (Item H P)) : Prop :=
  ∀ l : Log P, Item.log l ∈ xs → l.removed = false → ident hash legacy l ≠ i

theorem runL_agree (hash : Bytes → H) (legacy : Bool) (i : Ident H) :
    ∀ (xs : List (Item H P)) (v1 v2 : List (Ident H × Nat)),
      Agree i v1 v2 → Unobserved hash legacy i xs → runL hash legacy v1 xs = runL hash legacy v2 xs := by
  intro xs
  induction xs with
  | nil => intro v1 v2 _ _; simp [runL]
  | cons x xs ih =>
    intro v1 v2 ha hu
    have hu' : Unobserved hash legacy i xs := fun l hl hr => hu l (List.mem_cons_of_mem _ hl) hr
    cases x with
    | other => simpa [runL] using ih v1 v2 ha hu'
    | expire j => simpa [runL] using ih _ _ (ha.filter j) hu'
    | log l =>
      by_cases hr : l.removed = true
      · simpa [runL, hr] using ih v1 v2 ha hu'
      · have hne := hu l (by simp) (by simpa using hr)
        have hl := ha _ hne
        by_cases h1 : lookup v1 (ident hash legacy l) = 0
        · have h2 : lookup v2 (ident hash legacy l) = 0 := by rw [← hl]; exact h1
          simp only [runL, hr, h1, h2, if_true, Bool.false_eq_true, if_false]
          rw [ih _ _ (ha.upd _ _) hu']
        · have h2 : ¬ lookup v2 (ident hash legacy l) = 0 := by rw [← hl]; exact h1
          simp only [runL, hr, h1, h2, Bool.false_eq_true, if_false]
          exact ih v1 v2 ha hu'

/-- every timer in the sequence fires after the last un-removed observation of its identity -/
def WithinWindow (hash : Bytes → H) (legacy : Bool) : List (Item H P) → Prop
  | [] => True
  | .expire i :: xs => Unobserved hash legacy i xs ∧ WithinWindow hash legacy xs
  | _ :: xs => WithinWindow hash legacy xs

/-- the sequence without its timer items -/
def stripExpire : List (Item H P) → List (Item H P)
  | [] => []
  | .expire _ :: xs => stripExpire xs
  | x :: xs => x :: stripExpire xs

theorem runL_strip (hash : Bytes → H) (legacy : Bool) :
    ∀ (xs : List (Item H P)) (v : List (Ident H × Nat)),
      WithinWindow hash legacy xs → runL hash legacy v xs = runL hash legacy v (stripExpire xs) := by
  intro xs
  induction xs with
  | nil => intro v _; simp [stripExpire]
  | cons x xs ih =>
    intro v hw
    cases x with
    | other => simpa [runL, stripExpire] using ih v hw
    | expire i =>
      obtain ⟨hu, hw'⟩ := hw
      simp only [runL, stripExpire]
      have hag : Agree i (v.filter (fun p => p.1 ≠ i)) v := fun k hk => lookup_filter_ne v i k hk
      rw [runL_agree hash legacy i xs _ v hag hu]
      exact ih v hw'
    | log l =>
      have hw' : WithinWindow hash legacy xs := hw
      by_cases hr : l.removed = true
      · simpa [runL, stripExpire, hr] using ih v hw'
      · by_cases hl : lookup v (ident hash legacy l) = 0
        · simp [runL, stripExpire, hr, hl, ih _ hw']
        · simpa [runL, stripExpire, hr, hl] using ih v hw'

/-! ### endpoint failure → error reports → disconnect -/

omit [DecidableEq H] in
theorem streamsAfterReports_prefix (failed : Nat) (reports : List Nat) :
    ∀ (eps : List (Endpoint H P)) (i : Nat), ∀ s ∈ streamsAfterReports failed reports i eps,
      ∃ ep ∈ eps, s <+: ep.before ++ ep.after := by
  intro eps
  induction eps with
  | nil => intro i s hs; simp [streamsAfterReports] at hs
  | cons ep eps ih =>
    intro i s hs
    simp only [streamsAfterReports, List.mem_cons] at hs
    rcases hs with h | h
    · refine ⟨ep, by simp, ?_⟩
      subst h
      split
      · exact List.prefix_append _ _
      · exact List.prefix_refl _
    · obtain ⟨ep', h1, h2⟩ := ih (i + 1) s h
      exact ⟨ep', List.mem_cons_of_mem _ h1, h2⟩

omit [DecidableEq H] in
theorem streamsAfterReports_get (failed : Nat) (reports : List Nat) :
    ∀ (eps : List (Endpoint H P)) (i j : Nat) (ep : Endpoint H P),
      eps[j]? = some ep → i + j ≠ failed → i + j ∉ reports →
      (streamsAfterReports failed reports i eps)[j]? = some (ep.before ++ ep.after) := by
  intro eps
  induction eps with
  | nil => intro i j ep h; simp at h
  | cons e eps ih =>
    intro i j ep h hf hr
    cases j with
    | zero =>
      simp at h; subst h
      have : ¬ (i = failed ∨ i ∈ reports) := by
        intro hc; rcases hc with hc | hc
        · exact hf (by omega)
        · exact hr (by simpa using hc)
      simp [streamsAfterReports, this]
    | succ j =>
      simp only [streamsAfterReports, List.getElem?_cons_succ] at h ⊢
      exact ih (i + 1) j ep h (by omega) (by rw [show i + 1 + j = i + (j + 1) by omega]; exact hr)

/-! ### timers as concurrent sources (round 5) -/

omit [DecidableEq H] in
theorem mem_stripExpire {x : Item H P} : ∀ {xs : List (Item H P)},
    x ∈ stripExpire xs ↔ x ∈ xs ∧ ∀ i, x ≠ Item.expire i := by
  intro xs
  induction xs with
  | nil => simp [stripExpire]
  | cons y ys ih =>
    cases y with
    | expire j =>
      simp only [stripExpire, ih, List.mem_cons]
      constructor
      · rintro ⟨h1, h2⟩; exact ⟨Or.inr h1, h2⟩
      · rintro ⟨h1 | h1, h2⟩
        · exact absurd h1 (h2 j)
        · exact ⟨h1, h2⟩
    | other =>
      simp only [stripExpire, List.mem_cons, ih]
      constructor
      · rintro (h | ⟨h1, h2⟩)
        · subst h; exact ⟨Or.inl rfl, fun i h => by cases h⟩
        · exact ⟨Or.inr h1, h2⟩
      · rintro ⟨h1 | h1, h2⟩
        · exact Or.inl h1
        · exact Or.inr ⟨h1, h2⟩
    | log l =>
      simp only [stripExpire, List.mem_cons, ih]
      constructor
      · rintro (h | ⟨h1, h2⟩)
        · subst h; exact ⟨Or.inl rfl, fun i h => by cases h⟩
        · exact ⟨Or.inr h1, h2⟩
      · rintro ⟨h1 | h1, h2⟩
        · exact Or.inl h1
        · exact Or.inr ⟨h1, h2⟩

omit [DecidableEq H] in
/-- removing the timer items from every source and from the merged sequence keeps it an interleaving -/
theorem Interleaving.map_strip {ss : List (List (Item H P))} {m : List (Item H P)} (h : Interleaving ss m) :
    Interleaving (ss.map stripExpire) (stripExpire m) := by
  induction h with
  | done hall =>
    refine .done ?_
    intro s hs
    obtain ⟨s0, h0, rfl⟩ := List.mem_map.1 hs
    rw [hall s0 h0]; rfl
  | @next ss x s m i hi _ ih =>
    have hi' : i < ss.length := by
      rcases Nat.lt_or_ge i ss.length with h | h
      · exact h
      · rw [List.getElem?_eq_none h] at hi; simp at hi
    have hget : (ss.map stripExpire)[i]? = some (stripExpire (x :: s)) := by
      rw [List.getElem?_map, hi]; rfl
    rw [List.map_set] at ih
    cases x with
    | expire j =>
      have : (ss.map stripExpire).set i (stripExpire s) = ss.map stripExpire := by
        apply List.ext_getElem? 
        intro k
        by_cases hk : k = i
        · subst hk
          rw [List.getElem?_set_self (by simpa using hi'), hget]; rfl
        · rw [List.getElem?_set_ne (fun e => hk e.symm)]
      rw [this] at ih
      exact ih
    | other => exact .next i (by rw [hget]; rfl) ih
    | log l => exact .next i (by rw [hget]; rfl) ih

end Dos.Events

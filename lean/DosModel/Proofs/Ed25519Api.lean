/-
C20 (round 5) — lemmas for the kyber.Scalar wrappers (Model/Ed25519ScalarApi.lean): lengths, and the square-and-multiply
loop of `Inv` computes a^(ℓ−2) mod ℓ.
-/
import DosModel.Proofs.Ed25519RangesFinal
import DosModel.Proofs.Ed25519RangesReduce
import DosModel.Model.Ed25519ScalarApi

namespace Dos.Ed25519.Api
open Dos Dos.Ed25519 Dos.Gen.Ed25519Sc

theorem scMul_length (a b : Bytes) : (scMul shrI a b).length = 32 := by
  rw [scMul_eq_app, scMul_store_eq]; rfl
theorem scAdd_length (a b : Bytes) : (scAdd shrI a b).length = 32 := by
  rw [scAdd_eq_app, scAdd_store_eq]; rfl
theorem scSub_length (a b : Bytes) : (scSub shrI a b).length = 32 := by
  rw [scSub_eq_app, scSub_store_eq]; rfl

theorem scMul_val (a b : Bytes) (ha : a.length = 32) (hb : b.length = 32) :
    leNat (scMul shrI a b) = (leNat a * leNat b) % ell := by
  have h := scMul_full a b ha hb
  exact_mod_cast h

/-- the exponent the first bits of a bit list spell, continuing from `n` -/
def expOf (bits : List Bool) (n : Nat) : Nat := bits.foldl (fun n b => 2 * n + (if b then 1 else 0)) n

theorem invRound_spec (a res : Bytes) (ha : a.length = 32) (hr : res.length = 32) (n : Nat)
    (hv : leNat res = leNat a ^ n % ell) (bit : Bool) :
    (invRound a res bit).length = 32 ∧ leNat (invRound a res bit) = leNat a ^ (2 * n + (if bit then 1 else 0)) % ell := by
  have hsq : leNat (scMul shrI res res) = leNat a ^ (2 * n) % ell := by
    rw [scMul_val res res hr hr, hv, ← Nat.mul_mod, ← pow_add, two_mul]
  cases bit
  · exact ⟨scMul_length _ _, by simpa [invRound] using hsq⟩
  · refine ⟨by simp [invRound, scMul_length], ?_⟩
    simp only [invRound, if_true]
    rw [scMul_val _ a (scMul_length _ _) ha, hsq, Nat.mod_mul_mod, ← pow_succ]

theorem invFold_spec (a : Bytes) (ha : a.length = 32) :
    ∀ (bits : List Bool) (res : Bytes) (n : Nat), res.length = 32 → leNat res = leNat a ^ n % ell →
      (bits.foldl (invRound a) res).length = 32
      ∧ leNat (bits.foldl (invRound a) res) = leNat a ^ expOf bits n % ell := by
  intro bits
  induction bits with
  | nil => intro res n hr hv; exact ⟨hr, hv⟩
  | cons b rest ih =>
    intro res n hr hv
    obtain ⟨h1, h2⟩ := invRound_spec a res ha hr n hv b
    exact ih _ _ h1 h2

theorem expOf_invBits : expOf invBits 0 = ell - 2 := by decide +kernel

theorem one_val : leNat one = 1 := by decide
theorem zero_val : leNat zero = 0 := by decide

/-- **Inv**: a^(ℓ−2) mod ℓ for every 32-byte operand (raw, reduced or not) -/
theorem inv_spec (a : Bytes) (ha : a.length = 32) :
    (inv a).length = 32 ∧ leNat (inv a) = leNat a ^ (ell - 2) % ell := by
  have h := invFold_spec a ha invBits one 0 (by decide) (by rw [one_val, pow_zero]; decide)
  rw [expOf_invBits] at h
  exact h

end Dos.Ed25519.Api

package c12

import (
	"context"
	"encoding/binary"
	"fmt"
	"io"
	"net"
	"strings"
	"sync"
	"sync/atomic"
	"syscall"
	"time"

	"verifharness/internal/h"

	"github.com/DOSNetwork/core/p2p"
	vss "github.com/DOSNetwork/core/share/vss/pedersen"
	"github.com/golang/protobuf/proto"
	"github.com/golang/protobuf/ptypes"
)

// ---------------------------------------------------------------- conn: the connection tables of server.go
//
// A real node N (CreateP2PNetwork + Listen on loopback, lookup redirected with VerifSetLookup), a real
// member X (another server that echoes every vss.Signature request) and a scripted endpoint F.
//
//	conn match|other|own|empty|none : N's first Request to X is resolved to F, which answers the handshake
//	     with an ID message announcing X's id / another id / N's own id / no id / nothing (it hangs up
//	     during the handshake), then hangs up. N's second Request to X is resolved to the real X.
//	conn in2     : F dials N twice announcing the same id (duplicate inbound connection), then hangs up
//	conn inclose : F dials N and hangs up during the handshake
//
// Output: "ok" when the round trip to X after the case succeeds, "err stale" when it does not.

func freePort() string {
	l, err := net.Listen("tcp", "127.0.0.1:0")
	if err != nil {
		panic(err)
	}
	defer l.Close()
	return fmt.Sprint(l.Addr().(*net.TCPAddr).Port)
}

func waitListening(addr string) {
	for i := 0; i < 200; i++ {
		if c, err := net.Dial("tcp", addr); err == nil {
			c.Close()
			return
		}
		time.Sleep(5 * time.Millisecond)
	}
	panic("harness: server does not listen on " + addr)
}

func idFrame(id []byte) []byte {
	_, pub := remoteKey()
	a, _ := ptypes.MarshalAny(&p2p.ID{PublicKey: mustBin(pub), Id: id})
	b, _ := proto.Marshal(&p2p.Package{Anything: a, Sender: id})
	return framed(b)
}

func readFrame(c net.Conn) {
	var hd [4]byte
	c.SetReadDeadline(time.Now().Add(2 * time.Second))
	if _, err := io.ReadFull(c, hd[:]); err != nil {
		return
	}
	n := binary.BigEndian.Uint32(hd[:])
	if n > 1<<20 {
		return
	}
	io.ReadFull(c, make([]byte, n))
}

func opConn(kind string) (string, string) {
	setup()
	idN := []byte("node-N-id-0000000001")
	idX := []byte("member-X-id-00000002")
	portN, portX := freePort(), freePort()
	// the scripted endpoint
	fl, err := net.Listen("tcp", "127.0.0.1:0")
	if err != nil {
		panic(err)
	}
	defer fl.Close()
	var accepted int32
	go func() {
		for {
			c, err := fl.Accept()
			if err != nil {
				return
			}
			atomic.AddInt32(&accepted, 1)
			go func(c net.Conn) {
				defer c.Close()
				if kind == "none" {
					return
				}
				readFrame(c)
				var id []byte
				switch kind {
				case "match":
					id = idX
				case "other":
					id = []byte("somebody-else-id-003")
				case "own":
					id = idN
				case "empty":
					id = nil
				}
				c.Write(idFrame(id))
				time.Sleep(loadFactor() * 150 * time.Millisecond) // the handshake is over, the request is on its way: hang up
			}(c)
		}
	}()
	var phase int32
	nodeN, err := p2p.CreateP2PNetwork(idN, "127.0.0.1", portN, p2p.NoDiscover)
	if err != nil {
		panic(err)
	}
	p2p.VerifSetLookup(nodeN, func(id []byte) string {
		if string(id) == string(idX) {
			if atomic.LoadInt32(&phase) == 0 {
				return fl.Addr().String()
			}
			return "127.0.0.1:" + portX
		}
		return ""
	})
	nodeX, err := p2p.CreateP2PNetwork(idX, "127.0.0.1", portX, p2p.NoDiscover)
	if err != nil {
		panic(err)
	}
	go nodeN.Listen()
	go nodeX.Listen()
	waitListening("127.0.0.1:" + portN)
	waitListening("127.0.0.1:" + portX)
	sub, _ := nodeX.SubscribeMsg(8, vss.Signature{})
	go func() {
		for m := range sub {
			if sg, ok := m.Msg.Message.(*vss.Signature); ok {
				nodeX.Reply(context.Background(), m.Sender, m.RequestNonce, sg)
			}
		}
	}()
	msg := &vss.Signature{RequestId: []byte("r"), Content: []byte("c")}
	switch kind {
	case "in2", "inclose":
		// inbound side of N
		atomic.StoreInt32(&phase, 1)
		for i := 0; i < 2; i++ {
			c, err := net.Dial("tcp", "127.0.0.1:"+portN)
			if err != nil {
				panic(err)
			}
			if kind == "inclose" {
				c.Close()
				continue
			}
			c.Write(idFrame([]byte("inbound-peer-id-0004")))
			readFrame(c)
			defer c.Close()
		}
		time.Sleep(loadFactor() * 100 * time.Millisecond)
	default:
		ctx, cancel := context.WithTimeout(context.Background(), loadFactor()*600*time.Millisecond)
		nodeN.Request(ctx, idX, msg) // resolved to the scripted endpoint: fails one way or another
		cancel()
		time.Sleep(loadFactor() * 400 * time.Millisecond) // the endpoint has hung up, client.run returned, the removal was handled
		atomic.StoreInt32(&phase, 1)
	}
	// the round trip to the real member X
	ctx, cancel := context.WithTimeout(context.Background(), loadFactor()*3*time.Second)
	defer cancel()
	_, err = nodeN.Request(ctx, idX, msg)
	if err != nil {
		return "err stale", fmt.Sprintf("not-serving-conn: after the %q connection ended a request to that member fails (%d connection(s) reached the scripted endpoint): %s", kind, atomic.LoadInt32(&accepted), err)
	}
	return "ok", ""
}

// ---------------------------------------------------------------- conns: histories on the outbound table
//
//	conns <ev;ev;…>   member ids are small numbers (1 = the node itself, 0 = "no id")
//	  f<x>.<a>  a Request to member x is resolved to the scripted endpoint, which completes the handshake
//	            announcing id a (a = 1: the node's own id, the handshake fails) and keeps the connection open
//	  n<x>      … the endpoint hangs up during the handshake
//	  h<x>      the scripted endpoint closes the NEWEST open connection that was dialled for x
//	  o<x>      … the OLDEST open connection that was dialled for x
//	  q<x>      a Request to member x resolved to a real member (another server echoing the request)
//	  x<x>      DisConnectTo(x)
//	  L         Leave()
//
// Output: "<r> dials=<k>": r = result of the LAST q event ("ok" / "err stale"; "-" when there is none),
// k = number of TCP connections that reached the scripted endpoint.

func memberID(k int) []byte {
	if k == 0 {
		return nil
	}
	return []byte(fmt.Sprintf("member-%04d-id-00000", k))
}

type scriptedEP struct {
	l        net.Listener
	mu       sync.Mutex
	announce []byte // what the next accepted connection announces
	hangup   bool   // … or: close it before answering
	forX     int
	open     map[int][]net.Conn // live connections per dialled member, oldest first
	accepted int
}

func (f *scriptedEP) serve() {
	for {
		c, err := f.l.Accept()
		if err != nil {
			return
		}
		f.mu.Lock()
		f.accepted++
		ann, hang, x := f.announce, f.hangup, f.forX
		if !hang {
			f.open[x] = append(f.open[x], c)
		}
		f.mu.Unlock()
		go func(c net.Conn) {
			if hang {
				c.Close()
				return
			}
			readFrame(c)
			c.SetReadDeadline(time.Time{})
			c.Write(idFrame(ann))
			io.Copy(io.Discard, c) // whatever the node sends is ignored; returns when either side closes
			// a connection the NODE ended (it refuses an announced id that is not the dialled one) is not an open
			// connection of this endpoint any more: `h` / `o` must not pick it (thorough seed 1:
			// `conns f2.0;f2.2;…;o2` closed the refused one and left the live one standing)
			f.mu.Lock()
			for i, o := range f.open[x] {
				if o == c {
					f.open[x] = append(append([]net.Conn{}, f.open[x][:i]...), f.open[x][i+1:]...)
					break
				}
			}
			f.mu.Unlock()
		}(c)
	}
}

func (f *scriptedEP) closeConn(x int, oldest bool) {
	f.mu.Lock()
	cs := f.open[x]
	var c net.Conn
	if len(cs) > 0 {
		if oldest {
			c, f.open[x] = cs[0], cs[1:]
		} else {
			c, f.open[x] = cs[len(cs)-1], cs[:len(cs)-1]
		}
	}
	f.mu.Unlock()
	if c != nil {
		c.Close()
	}
}

func opConns(evs string) (string, string) {
	setup()
	fl, err := net.Listen("tcp", "127.0.0.1:0")
	if err != nil {
		panic(err)
	}
	defer fl.Close()
	F := &scriptedEP{l: fl, open: map[int][]net.Conn{}}
	go F.serve()
	portN := freePort()
	nodeN, err := p2p.CreateP2PNetwork(memberID(1), "127.0.0.1", portN, p2p.NoDiscover)
	if err != nil {
		panic(err)
	}
	var mu sync.Mutex
	route := map[string]string{} // member id → address the next lookup resolves to
	p2p.VerifSetLookup(nodeN, func(id []byte) string {
		mu.Lock()
		defer mu.Unlock()
		return route[string(id)]
	})
	go nodeN.Listen()
	waitListening("127.0.0.1:" + portN)
	type member struct {
		node p2p.P2PInterface
		addr string
	}
	real := map[int]*member{}
	left := false
	defer func() {
		if !left {
			nodeN.Leave()
		}
		for _, m := range real {
			m.node.Leave()
		}
		time.Sleep(30 * time.Millisecond)
	}()
	realMember := func(x int) *member {
		if m := real[x]; m != nil {
			return m
		}
		port := freePort()
		nd, err := p2p.CreateP2PNetwork(memberID(x), "127.0.0.1", port, p2p.NoDiscover)
		if err != nil {
			panic(err)
		}
		go nd.Listen()
		waitListening("127.0.0.1:" + port)
		sub, _ := nd.SubscribeMsg(8, vss.Signature{})
		go func() {
			for m := range sub {
				if sg, ok := m.Msg.Message.(*vss.Signature); ok {
					nd.Reply(context.Background(), m.Sender, m.RequestNonce, sg)
				}
			}
		}()
		real[x] = &member{nd, "127.0.0.1:" + port}
		return real[x]
	}
	msg := &vss.Signature{RequestId: []byte("r"), Content: []byte("c")}
	lf := loadFactor()
	settle := func() { time.Sleep(lf * 120 * time.Millisecond) }
	last, oracle := "-", ""
	spinOracle := ""
	served := map[int]bool{} // a request reached the real member x over a connection of this node
	cut := map[int]bool{}    // … and the node itself then called DisConnectTo(x): that connection is still open at x
	for _, ev := range splitList(evs, ";") {
		switch ev[0] {
		case 'f', 'n':
			var x, a int
			if ev[0] == 'f' {
				p := strings.SplitN(ev[1:], ".", 2)
				x, a = atoi(p[0]), atoi(p[1])
			} else {
				x = atoi(ev[1:])
			}
			F.mu.Lock()
			F.announce, F.hangup, F.forX = memberID(a), ev[0] == 'n', x
			F.mu.Unlock()
			mu.Lock()
			route[string(memberID(x))] = fl.Addr().String()
			mu.Unlock()
			ctx, cancel := context.WithTimeout(context.Background(), lf*250*time.Millisecond)
			nodeN.Request(ctx, memberID(x), msg) // never answered: an error one way or another
			cancel()
			settle()
		case 'h', 'o':
			F.closeConn(atoi(ev[1:]), ev[0] == 'o')
			settle() // client.run returned, runClient reported the id, the removal was handled
			settle()
		case 'x':
			nodeN.DisConnectTo(memberID(atoi(ev[1:])))
			if served[atoi(ev[1:])] {
				cut[atoi(ev[1:])] = true
			}
			settle()
		case 'L':
			nodeN.Leave()
			left = true
			settle()
		case 'q':
			x := atoi(ev[1:])
			m := realMember(x)
			mu.Lock()
			route[string(memberID(x))] = m.addr
			mu.Unlock()
			ctx, cancel := context.WithTimeout(context.Background(), lf*3*time.Second)
			_, err := nodeN.Request(ctx, memberID(x), msg)
			cancel()
			switch {
			case err == nil:
				last, oracle = "ok", ""
				served[x] = true
			case cut[x]:
				// the node's own DisConnectTo left its first connection to x open: x (one inbound connection
				// per peer) closes the second one. A local call, not peer input: observed, not a violation.
				last, oracle = "err dup", ""
			default:
				last = "err stale"
				oracle = fmt.Sprintf("not-serving-conn: a request to member %d fails after the history %q: %s", x, evs, h.OneLine(err.Error()))
			}
		case 'i':
			// inbound (fzspin lines only): a peer connects to N, completes the handshake under its own id and hangs up
			c, err := net.Dial("tcp", "127.0.0.1:"+portN)
			if err != nil {
				panic(err)
			}
			c.Write(idFrame([]byte(fmt.Sprintf("inbound-peer-id-%04d", atoi(ev[1:])))))
			readFrame(c)
			settle()
			c.Close()
			settle()
			settle()
		case 'S':
			// spin probe (fzspin lines only): everything the history started is at rest now — connections ended or
			// idle, no request in flight. CPU time of the process (not wall time: machine load cannot inflate it)
			// over the next 1.5 s; a goroutine looping on a closed channel burns one core, i.e. ~1.5 s.
			c0 := cpuSeconds()
			time.Sleep(1500 * time.Millisecond)
			if used := cpuSeconds() - c0; used > 0.6 && spinOracle == "" {
				spinOracle = fmt.Sprintf("spin-after-hangup: the process used %.2f s of CPU in 1.5 s at rest after the history %q (a goroutine of an ended connection is looping)", used, evs)
			}
		default:
			panic("bad conns event " + ev)
		}
	}
	if spinOracle != "" {
		oracle = spinOracle
	}
	F.mu.Lock()
	k := F.accepted
	F.mu.Unlock()
	return fmt.Sprintf("%s dials=%d", last, k), oracle
}

// cpuSeconds: user + system CPU time of this process so far
func cpuSeconds() float64 {
	var ru syscall.Rusage
	syscall.Getrusage(syscall.RUSAGE_SELF, &ru)
	return float64(ru.Utime.Sec+ru.Stime.Sec) + float64(ru.Utime.Usec+ru.Stime.Usec)/1e6
}

// opFzSpin (`fzspin <history with S probes>`): oracle only — no goroutine of an ended connection spins
// (/repo 6be4efc: decryptPipe looped on the closed channel of readPipe until the 60 s idle timer once the
// peer had hung up; a peer that reconnects and hangs up kept a core busy for as long as it liked)
func opFzSpin(evs string) (string, string) {
	_, oracle := opConns(evs)
	if !strings.HasPrefix(oracle, "spin-") {
		oracle = ""
	}
	return "nopanic", oracle
}

// loadFactor: how much slower than an idle machine goroutines are scheduled right now (1…6), measured as the
// overshoot of twenty 1 ms sleeps (≈ 22 ms idle). The fixed pauses that stand for "the node has handled what just
// happened" and the deadlines of round trips that must succeed are multiplied by it, so that machine load does
// not turn into a disagreement or a not-serving verdict. It only ever lengthens a wait.
func loadFactor() time.Duration {
	t0 := time.Now()
	for i := 0; i < 20; i++ {
		time.Sleep(time.Millisecond)
	}
	f := time.Since(t0) / (25 * time.Millisecond)
	if f < 1 {
		f = 1
	}
	if f > 6 {
		f = 6
	}
	return f
}

/-
C10 / E7 — helper lemmas for Props/C10Code.lean (generated code = hand model).
Core Lean only. Nothing here mentions a particular generated definition except the
zero / one tests of gfP2 (whose Go code compares the two limbs groups separately, while the
hand model compares the structure).
-/
import DosModel.Gen.Bn256Code

namespace Dos.Bn256.CodeTie
open Dos.Bn256 Dos.Gen

/-- a fold whose state has an extra component that the first component's step does not need -/
theorem foldl_fst {σ τ ι : Type} (f : σ × τ → ι → σ × τ) (g : σ → ι → σ)
    (h : ∀ s i, (f s i).1 = g s.1 i) (l : List ι) (init : σ × τ) :
    (l.foldl f init).1 = l.foldl g init.1 := by
  induction l generalizing init with
  | nil => rfl
  | cons x xs ih => simp only [List.foldl_cons]; rw [ih, h]

theorem ite_pair {σ τ : Type} (c : Prop) [Decidable c] (x y : σ) (t : τ) :
    (if c then (x, t) else (y, t)) = (if c then x else y, t) := by
  split <;> rfl

theorem ite_fst {σ τ : Type} (c : Prop) [Decidable c] (x y : σ) (t : τ) :
    (if c then (x, t) else (y, t)).1 = (if c then x else y) := by
  split <;> rfl

variable {α : Type}

/-- squaring in curve.go is `gfpMul(c, a, a)`: the hand model's `Sq GFp` instance, for any base type
(Props/C10Code.lean states the curve.go ties for `Jac α` with this squaring) -/
@[reducible] def sqMul [Mul α] : Sq α := ⟨fun a => a * a⟩

theorem gfP2_isZero_eq [Zero α] [DecidableEq α] (e : Fp2 α) :
    Bn256Code.gfP2_isZero e = decide (e = Fp2.zero) := by
  cases e with
  | mk x y => simp [Bn256Code.gfP2_isZero, Fp2.zero, Fp2.mk.injEq]

theorem gfP2_isOne_eq [Zero α] [One α] [DecidableEq α] (e : Fp2 α) :
    Bn256Code.gfP2_isOne e = decide (e = Fp2.one) := by
  cases e with
  | mk x y => simp [Bn256Code.gfP2_isOne, Fp2.one, Fp2.mk.injEq]

theorem fp6_eq_iff (a b : Fp6 α) : a = b ↔ a.x = b.x ∧ a.y = b.y ∧ a.z = b.z := by
  cases a; cases b; simp [Fp6.mk.injEq]

theorem fp12_eq_iff (a b : Fp12 α) : a = b ↔ a.x = b.x ∧ a.y = b.y := by
  cases a; cases b; simp [Fp12.mk.injEq]

end Dos.Bn256.CodeTie

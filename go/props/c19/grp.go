package c19

// grp: the glue from a COMPLETED key generation to RegisterGroupPubKey (round 5, review E #4, T3b).
//
//	grp <n> <gid>
//
// n members, each a REAL pdkg on the in-memory network go/internal/dkgnet (used as a library, as C04/C07 do), run
// pdkg.Grouping until every key generation is certified.  Member 0's output channel — what genGroup sends:
// [group id, four coordinates of pubPoly.Commit()] — goes, untouched by the harness, into the REAL registerGroup
// stage of dosnode (hook VerifRegisterGroup) on a REAL adaptor connected to a chain double.
// Oracle (shares no code with genGroup / decodePubKey / the adaptor's marshalling): the harness collects every
// member's private share, interpolates the group secret sk at 0 with math/big modulo the group order, and
// demands that the ONE recorded transaction is registerGroupPubKey(gid, EVM encoding of sk·G2) as go-ethereum's
// bn256 (the pairing precompile's library) computes it; the same four words must equal bytes 1..129 of another
// member's GetGroupPublicPoly(gid).Commit().
// Impl line: deterministic summary only (the key is random); the model side predicts it from the line.

import (
	"bytes"
	"context"
	"fmt"
	"math/big"
	"sync"
	"time"

	"github.com/DOSNetwork/core/dosnode"
	"github.com/DOSNetwork/core/log"
	dkg "github.com/DOSNetwork/core/share/dkg/pedersen"
	"github.com/DOSNetwork/core/suites"
	ethbn "github.com/ethereum/go-ethereum/crypto/bn256/cloudflare"

	"verifharness/internal/chaindouble"
	"verifharness/internal/dkgnet"
	"verifharness/internal/h"
)

var grpQuiet sync.Once

func execGrp(w []string) (res h.Result) {
	abis()
	grpQuiet.Do(func() {
		dkgnet.Quiet()
		log.Init([]byte{0xc1, 0x9}) // pdkg takes the package logger (nil before Init)
	})
	n := h.Atoi(w[1])
	gidN := h.BigDec(w[2])
	gid := fmt.Sprintf("%x", gidN)
	res.Class = fmt.Sprintf("grp-n%d", n)
	res.Nontrivial = true
	suite := suites.MustFind("bn256")
	var ids [][]byte
	for k := 0; k < n; k++ {
		ids = append(ids, bytes.Repeat([]byte{byte(0x11 * (k + 1))}, 20))
	}
	st, err := chaindouble.NewStack(1, 1, big.NewInt(1), 5000000, 20000000000, nil)
	if err != nil {
		res.Impl = "connect-failed " + h.OneLine(err.Error())
		res.Oracle = "harness-connect-failed: " + h.OneLine(err.Error())
		return
	}
	defer st.Close()
	st.RPC[0].SetNonce(7)
	st.RPC[0].ResetRawTxs()
	nw := dkgnet.NewNet(ids)
	ctx, cancel := context.WithTimeout(context.Background(), 90*time.Second)
	defer cancel()
	pd := make([]dkg.PDKGInterface, n)
	for k := 0; k < n; k++ {
		pd[k] = dkg.NewPDKG(nw.Node(k, ids), suite)
		go pd[k].Loop()
	}
	done := make(chan [2]int, n)
	var regErr error
	for k := 0; k < n; k++ {
		go func(k int) {
			own := make([][]byte, n)
			for i := range ids {
				own[i] = append([]byte(nil), ids[i]...)
			}
			outc, errc, err := pd[k].Grouping(ctx, gid, own)
			if err != nil {
				done <- [2]int{k, 0}
				return
			}
			if k == 0 {
				// the node's own wiring (dos_chain_handler.go): registerGroup(ctx, d.chain, outFromDkg)
				rerrc := dosnode.VerifRegisterGroup(ctx, st.Adaptor, outc)
				go func() {
					for range errc {
					}
				}()
				for e := range rerrc {
					regErr = e
				}
				done <- [2]int{k, 1}
				return
			}
			ok := 0
			for outc != nil || errc != nil {
				select {
				case _, open := <-outc:
					if open {
						ok = 1
					}
					outc = nil
					if ok == 1 {
						errc = nil
					}
				case _, open := <-errc:
					if !open {
						errc = nil
					}
				case <-ctx.Done():
					outc, errc = nil, nil
				}
			}
			done <- [2]int{k, ok}
		}(k)
	}
	fin := 0
	for c := 0; c < n; c++ {
		d := <-done
		fin += d[1]
	}
	raws := st.RPC[0].RawTxs()
	if fin != n || regErr != nil {
		res.Impl = fmt.Sprintf("unfinished %d/%d err=%v", fin, n, regErr != nil)
		res.Oracle = fmt.Sprintf("keygen-or-register-unfinished: %d of %d members finished, registerGroup error: %v", fin, n, regErr)
		return
	}
	res.Impl = fmt.Sprintf("err=nil txs=%d", len(raws))
	if len(raws) != 1 {
		res.Oracle = fmt.Sprintf("group-key-not-registered-once: %d transactions recorded", len(raws))
		return
	}
	d, tx, args, name := describeTx(raws[0], st)
	if tx == nil || name != "registerGroupPubKey" {
		res.Oracle = "group-key-wrong-call: " + d
		return
	}
	res.Impl += " m=" + name
	nums, _, _ := flatArgs(args)
	if len(nums) != 5 {
		res.Oracle = fmt.Sprintf("group-key-wrong-arity: %d", len(nums))
		return
	}
	res.Impl += " id=" + nums[0].String()
	if nums[0].Cmp(gidN) != 0 {
		res.Oracle = fmt.Sprintf("group-id-differs: registered %s, the group is %s", nums[0], gidN)
		return
	}
	var got []byte
	for _, v := range nums[1:] {
		b := v.Bytes()
		got = append(got, make([]byte, 32-len(b))...)
		got = append(got, b...)
	}
	// (a) sk·G2 from the members' private shares, Lagrange at 0 with math/big, EVM encoding by go-ethereum's bn256
	r := ethbn.Order
	xs := make([]*big.Int, n)
	ys := make([]*big.Int, n)
	for k := 0; k < n; k++ {
		sh := pd[k].GetShareSecurity(gid)
		if sh == nil {
			res.Oracle = fmt.Sprintf("keygen-or-register-unfinished: member %d has no share", k)
			return
		}
		vb, _ := sh.V.MarshalBinary()
		xs[k] = big.NewInt(int64(sh.I + 1))
		ys[k] = new(big.Int).SetBytes(vb)
	}
	sk := new(big.Int)
	for i := 0; i < n; i++ {
		num, den := big.NewInt(1), big.NewInt(1)
		for j := 0; j < n; j++ {
			if j == i {
				continue
			}
			num.Mul(num, xs[j]).Mod(num, r)
			den.Mul(den, new(big.Int).Sub(xs[j], xs[i])).Mod(den, r)
		}
		term := new(big.Int).Mul(ys[i], num)
		term.Mul(term, new(big.Int).ModInverse(den, r))
		sk.Add(sk, term).Mod(sk, r)
	}
	want := new(ethbn.G2).ScalarBaseMult(sk).Marshal()
	if !bytes.Equal(got, want) {
		neg := ""
		if g := new(ethbn.G2); true {
			if _, err := g.Unmarshal(got); err == nil {
				g.Neg(g)
				if bytes.Equal(g.Marshal(), want) {
					neg = " (the registered point is the NEGATION of the group key)"
				}
			} else {
				neg = " (not even a point of G2: " + err.Error() + ")"
			}
		}
		res.Oracle = "registered-group-key-is-not-sk-G2: the four words of registerGroupPubKey differ from the EVM encoding of (interpolated group secret)·G2" + neg
		return
	}
	// (b) another member's public polynomial
	if n > 1 {
		pp := pd[1].GetGroupPublicPoly(gid)
		if pp == nil {
			res.Oracle = "keygen-or-register-unfinished: member 1 has no public polynomial"
			return
		}
		mar, err := pp.Commit().MarshalBinary()
		if err != nil || len(mar) != 129 || !bytes.Equal(mar[1:], got) {
			res.Oracle = "registered-group-key-differs-from-member-1: the four words are not bytes 1..129 of member 1's pubPoly.Commit()"
			return
		}
	}
	res.Impl += " key=sk*G2"
	return
}

// rgk <k>: the group key k·G2 (chosen by the generator for the byte pattern of its encoding) through the node's own path
// from the key to the chain: decodePubKey (hook) → [id, c0..c3] as genGroup builds it (that glue is pinned textually by
// group_key_glue_matches_model and run for real by grp) → the REAL registerGroup stage → REAL adaptor → recorded
// transaction.  Oracle: the four words = go-ethereum bn256 ScalarBaseMult(k).Marshal() (the EVM precompile's encoding).
func execRgk(w []string) (res h.Result) {
	abis()
	k := h.BigDec(w[1])
	res.Class = "rgk"
	res.Nontrivial = true
	suite := suites.MustFind("bn256")
	p := suite.G2().Point().Mul(suite.G2().Scalar().SetBytes(k.Bytes()), nil)
	c, err := dkg.VerifDecodePubKey(p)
	if err != nil {
		res.Impl = "decode-err"
		if new(big.Int).Mod(k, ethbn.Order).Sign() != 0 {
			res.Oracle = "group-key-refused: decodePubKey returns an error for a finite point"
		}
		return
	}
	st, err := chaindouble.NewStack(1, 1, big.NewInt(1), 5000000, 20000000000, nil)
	if err != nil {
		res.Impl = "connect-failed " + h.OneLine(err.Error())
		res.Oracle = "harness-connect-failed: " + h.OneLine(err.Error())
		return
	}
	defer st.Close()
	st.RPC[0].SetNonce(7)
	st.RPC[0].ResetRawTxs()
	ctx, cancel := context.WithTimeout(context.Background(), 30*time.Second)
	defer cancel()
	id := new(big.Int).Mod(k, new(big.Int).Lsh(big.NewInt(1), 256))
	ch := make(chan [5]*big.Int, 1)
	dataReturn := [5]*big.Int{id}
	copy(dataReturn[1:], c[:])
	ch <- dataReturn
	var regErr error
	for e := range dosnode.VerifRegisterGroup(ctx, st.Adaptor, ch) {
		regErr = e
	}
	raws := st.RPC[0].RawTxs()
	res.Impl = fmt.Sprintf("err=%v txs=%d", regErr != nil, len(raws))
	if regErr != nil || len(raws) != 1 {
		res.Oracle = fmt.Sprintf("group-key-not-registered-once: %d transactions, error %v", len(raws), regErr)
		return
	}
	_, tx, args, name := describeTx(raws[0], st)
	nums, _, _ := flatArgs(args)
	if tx == nil || name != "registerGroupPubKey" || len(nums) != 5 {
		res.Oracle = "group-key-wrong-call: " + name
		return
	}
	var got []byte
	for _, v := range nums[1:] {
		b := v.Bytes()
		if len(b) > 32 {
			b = b[len(b)-32:]
		}
		got = append(got, make([]byte, 32-len(b))...)
		got = append(got, b...)
	}
	want := new(ethbn.G2).ScalarBaseMult(k).Marshal()
	res.Impl += fmt.Sprintf(" id=%s", nums[0])
	if nums[0].Cmp(id) != 0 {
		res.Oracle = "group-id-differs: " + nums[0].String()
	} else if !bytes.Equal(got, want) {
		res.Oracle = fmt.Sprintf("registered-group-key-is-not-sk-G2: k = %s: registered words %x, EVM encoding of k·G2 is %x", k, got, want)
	}
	return
}

/-
C02 composed with Primes (and C09) — `recover_unique_driver_scalars` of `Props/C02.lean` takes
`[Fact q.Prime]`; here the scalar type is `Zq r` with `r = Share.bn256Order`, the bn256 group order
regenerated from /repo, which `Proofs/Primes.lean` proves prime.  So for the scalars the drivers run,
the C02 theorems hold with NO primality and NO `CharGt` hypothesis: every `n` a Go `int` can hold is
below `r`.  What remains (visible as instance arguments): `G` is a module over `Zq r` (for the real G1:
the curve group has exponent `r`; the group LAW itself is proved for the real curve in
`Props/C02ComposeG1.lean`), the codec, `deg f < t`.
-/
import DosModel.Props.C02
import DosModel.Props.C09
import DosModel.Proofs.ComposePrimes

set_option linter.unusedSectionVars false

namespace Dos.Props.C02Compose
open Dos Dos.Share Dos.Tbls Dos.Compose

variable {G : Type} [AddCommGroup G] [Module (Zq Share.bn256Order) G] [DecidableEq G]

/-- `c02_code_facts` pins `G1.r` to the alt_bn128 order; it is prime, and it is the modulus of the
scalar type used below -/
theorem scalar_modulus_prime : Nat.Prime G1.r ∧ G1.r = Share.bn256Order := ⟨bn256Order_prime, rfl⟩

/-- `1..n` invertible for every Go `int` -/
theorem charGt_go_int (n : Nat) (hn : n < 2 ^ 63) : CharGt (Zq Share.bn256Order) n :=
  Props.C09.zq_charGt Share.bn256Order n (Nat.lt_trans hn (by decide))

/-- **the unique group signature**, bn256 scalars, no primality assumption -/
theorem recover_unique_bn256 (cd : Codec G) (f : List (Zq Share.bn256Order)) (hm : G) (t n : Nat)
    (ht : 0 < t) (hf : f.length ≤ t) (hn : n < 2 ^ 63) (sigs : List Bytes)
    (hq : t ≤ (members cd f hm n sigs).card) :
    recover cd f hm sigs t n = .ok (blsSign cd (f.headD 0) hm) :=
  Props.C02.recover_unique_driver_scalars Share.bn256Order cd f hm t n ht hf
    (Nat.lt_trans hn (by decide)) sigs hq

/-- **subset / order independence**, bn256 scalars -/
theorem recover_subset_order_independent_bn256 (cd : Codec G) (f : List (Zq Share.bn256Order)) (hm : G)
    (t n : Nat) (ht : 0 < t) (hf : f.length ≤ t) (hn : n < 2 ^ 63) (s₁ s₂ : List Bytes)
    (h₁ : t ≤ (members cd f hm n s₁).card) (h₂ : t ≤ (members cd f hm n s₂).card) :
    recover cd f hm s₁ t n = recover cd f hm s₂ t n :=
  Props.C02.recover_subset_order_independent cd f hm t n ht hf (charGt_go_int n hn) s₁ s₂ h₁ h₂

/-- **never a panic**, bn256 scalars: any public polynomial, any entries, any `0 < t`, any Go `int` n -/
theorem recover_total_bn256 (cd : Codec G) (f : List (Zq Share.bn256Order)) (hm : G) (t n : Nat)
    (ht : 0 < t) (hn : n < 2 ^ 63) (sigs : List Bytes) :
    ∀ s, recover cd f hm sigs t n ≠ .panic s :=
  Props.C02.recover_total cd f hm t n ht (charGt_go_int n hn) sigs

/-- the complete case distinction, bn256 scalars, ANY public polynomial -/
theorem recover_characterised_bn256 (cd : Codec G) (f : List (Zq Share.bn256Order)) (hm : G)
    (t n : Nat) (ht : 0 < t) (hn : n < 2 ^ 63) (sigs : List Bytes) :
    recover cd f hm sigs t n
      = if t < f.length then .errThreshold
        else if t ≤ (members cd f hm n sigs).card then .ok (blsSign cd (f.headD 0) hm)
        else .errFew :=
  Props.C02.recover_characterised cd f hm t n ht (charGt_go_int n hn) sigs

/-- a qualifying list built from what `tbls.Sign` emits (C02 `signed_share_valid` + `recover_unique`,
any field / module): ANY `t` distinct members' shares (each index `< n ≤ 65536`), in any order with
anything else in between, recover the group signature -/
theorem recover_signed_shares {F : Type} [Field F] [DecidableEq F] {G : Type} [AddCommGroup G]
    [Module F G] [DecidableEq G] (cd : Codec G) (hcd : ∀ p, cd.decode (cd.encode p) = some p)
    (f : List F) (hm : G) (t n : Nat) (ht : 0 < t) (hf : f.length ≤ t) (hc : CharGt F n)
    (hn : n ≤ 65536) (signers : List Nat) (hnd : signers.Nodup) (hin : ∀ i ∈ signers, i < n)
    (hcount : t ≤ signers.length) (sigs : List Bytes)
    (hpresent : ∀ i ∈ signers, tblsSign cd f hm i ∈ sigs) :
    recover cd f hm sigs t n = .ok (blsSign cd (f.headD 0) hm) := by
  refine Props.C02.recover_unique cd f hm t n ht hf hc sigs ?_
  have hsub : signers.toFinset ⊆ members cd f hm n sigs := by
    intro i hi
    rw [List.mem_toFinset] at hi
    simp only [members, List.mem_toFinset, List.mem_filterMap]
    exact ⟨_, hpresent i hi,
      Props.C02.signed_share_valid cd hcd f hm n i (hin i hi) (by have := hin i hi; omega)⟩
  calc t ≤ signers.length := hcount
    _ = signers.toFinset.card := (List.toFinset_card_of_nodup hnd).symm
    _ ≤ _ := Finset.card_le_card hsub

/-- … on the bn256 scalars, no primality / `CharGt` hypothesis -/
theorem recover_signed_shares_bn256 (cd : Codec G) (hcd : ∀ p, cd.decode (cd.encode p) = some p)
    (f : List (Zq Share.bn256Order)) (hm : G) (t n : Nat) (ht : 0 < t) (hf : f.length ≤ t)
    (hn : n ≤ 65536) (signers : List Nat) (hnd : signers.Nodup) (hin : ∀ i ∈ signers, i < n)
    (hcount : t ≤ signers.length) (sigs : List Bytes)
    (hpresent : ∀ i ∈ signers, tblsSign cd f hm i ∈ sigs) :
    recover cd f hm sigs t n = .ok (blsSign cd (f.headD 0) hm) :=
  recover_signed_shares cd hcd f hm t n ht hf (charGt_go_int n (Nat.lt_of_le_of_lt hn (by decide))) hn
    signers hnd hin hcount sigs hpresent

/-! ### non-vacuity: the REAL scalar field, points as discrete logs (`G = Zq r`, a module over itself),
a codec writing the residue in 32 big-endian bytes is not needed — the one-byte toy codec of the
examples suffices to exercise the hypotheses: `f = 4 + 3x`, `H = 2`, members 0 and 2 -/

/-- a codec for discrete-log points modulo the bn256 order: one byte, values `< 256` -/
private def cdR : Codec (Zq Share.bn256Order) :=
  ⟨fun b => match b with
    | [x] => some ((x.toNat : Nat) : Zq Share.bn256Order)
    | _ => none,
   fun p => [UInt8.ofNat p.val]⟩

example : recover cdR [(4 : Zq Share.bn256Order), 3] 2 [[0, 0, 14], [9], [0, 2, 26], [0, 1, 21]] 2 3
    = .ok (blsSign cdR (4 : Zq Share.bn256Order) 2) :=
  recover_unique_bn256 cdR [(4 : Zq Share.bn256Order), 3] 2 2 3 (by decide) (by decide) (by decide) _
    (by decide +kernel)

example : ∀ s, recover cdR [(4 : Zq Share.bn256Order), 3, 9, 9] 2 [[0, 0, 14], [9], [0, 0, 15]] 1 3 ≠ .panic s :=
  recover_total_bn256 cdR _ 2 1 3 (by decide) (by decide) _

/-- four coefficients, `t = 1`: refused by the guard (the characterisation's first branch) -/
example : recover cdR [(4 : Zq Share.bn256Order), 3, 9, 9] 2 [[0, 0, 14], [9], [0, 0, 15]] 1 3
    = .errThreshold := by
  rw [recover_characterised_bn256 cdR _ 2 1 3 (by decide) (by decide)]; rfl

open C02 in
example : recover toyCodec [(4 : Zq 11), 3] 2
    [[7], tblsSign toyCodec [(4 : Zq 11), 3] 2 2, [0, 1, 1], tblsSign toyCodec [(4 : Zq 11), 3] 2 0] 2 3
    = .ok (blsSign toyCodec (4 : Zq 11) 2) :=
  recover_signed_shares toyCodec toyCodec_roundtrip [(4 : Zq 11), 3] 2 2 3 (by decide) (by decide)
    (C09.zq_charGt 11 3 (by decide)) (by decide) [2, 0] (by decide) (by decide) (by decide) _ (by decide)

end Dos.Props.C02Compose
